(* C01 / C03 / C05: the forward simulation of Lang/Simulation2.v extended to `break` (at any depth of if / else and
   blocks inside a loop body), to the endless `repeat` that only a break leaves, to calls of user routines and to
   `return`: every program whose routines do not call themselves and whose statements are the covered ones,
   conditionals, blocks, `repeat while`, counted `repeat n`, plain `repeat`, `break`, calls `f a b ...` with ordinary
   values as arguments, and `return`.

   A statement inside a loop is compiled with [after] = the number of instructions between its end and the
   END_LOOP of the innermost loop; `break` is JUMP ALWAYS (after + 1).  A call is CTX; (argument -> RESULT; PARAM p
   RESULT)*; JSR f; END_CTX; the routine's body lies elsewhere in the image, followed by END f.  `return` is RETURN,
   which drops the loop frames of the routine and its call frame and goes on behind the END_CTX of the call; running
   into END f does the same and goes on at the END_CTX.  The simulation says where the machine is when the reference
   semantics answers SigNormal (behind the statement), SigBreak (at that END_LOOP) or SigReturn (behind the call). *)
From Coq Require Import ZArith String List Bool Lia.
From Bardolph Require Import Gen.Codes Lang.Value Lang.Instr Lang.Loader Lang.World Lang.Units0 Lang.Regs Lang.Devices Lang.Builtins
  Lang.Machine Lang.Syntax Lang.Sem Lang.CodeGen Lang.Scope Lang.ExprCompile Lang.Simulation Lang.Simulation2 Lang.CallFrames Lang.LoopVars Lang.RangeLoop Lang.CountWith Lang.LightScan Lang.LightLoop Lang.CallValue.
Open Scope string_scope.
Open Scope list_scope.
Import ListNotations.
Open Scope Z_scope.

Section Sim3.
Variable rt : rtable.
Variable mt : mtable.

(* the arguments of a call: one ordinary value per declared parameter *)
Fixpoint plain_args0 (args : list rval) (ps : list string) : bool :=
  match args, ps with
  | [], [] => true
  | a :: r, _ :: ps' => plain_rval mt a && plain_args0 r ps'
  | _, _ => false
  end.
(* an argument that is itself a call -- of a built-in function, or of a routine that always leaves through a return -- with ordinary values *)
Definition inner_call (a : rval) : bool :=
  match a with
  | RCall g args' =>
      match builtin_params g builtin_table, find_rdef rt g with
      | Some ps, _ => plain_args0 args' ps
      | None, Some d => plain_args0 args' (rd_params d) && must_return (rd_body d)
      | None, None => false
      end
  | _ => false
  end.
(* the arguments of a call: ordinary values or such calls (`f [g 1] 2`), one per declared parameter *)
Fixpoint plain_args (args : list rval) (ps : list string) : bool :=
  match args, ps with
  | [], [] => true
  | a :: r, _ :: ps' => (plain_rval mt a || inner_call a) && plain_args r ps'
  | _, _ => false
  end.

(* the names in the fields of a printf format: variables, or registers a script can see *)
Definition names_visible (names : list string) : bool :=
  forallb (fun n => match register_of_name n with Some r => visible r | None => true end) names.

(* ---- expressions with calls: {n * [f {n - 1}]} ---- *)
Inductive CExpr : expr -> Prop :=
| CE_pure e : supported mt e = true -> regs_visible e = true -> CExpr e
| CE_call f args d : builtin_params f builtin_table = None -> find_rdef rt f = Some d -> plain_args args (rd_params d) = true ->
    must_return (rd_body d) = true -> CExpr (ECall f args)
| CE_builtin f args ps : builtin_params f builtin_table = Some ps -> plain_args args ps = true -> CExpr (ECall f args)
| CE_bin op a b : CExpr a -> CExpr b -> CExpr (EBin op a b)
| CE_neg a : CExpr a -> CExpr (ENeg a)
| CE_pos a : CExpr a -> CExpr (EPos a)
| CE_paren a : CExpr a -> CExpr (EParen a).

(* a value in the place of a condition: an ordinary value, a call, or an expression with calls *)
Inductive ValOk : rval -> Prop :=
| V_plain v : plain_rval mt v = true -> ValOk v
| V_call f args d : builtin_params f builtin_table = None -> find_rdef rt f = Some d -> plain_args args (rd_params d) = true ->
    must_return (rd_body d) = true -> ValOk (RCall f args)
| V_builtin f args ps : builtin_params f builtin_table = Some ps -> plain_args args ps = true -> ValOk (RCall f args)
| V_expr e : CExpr e -> ValOk (RExpr e).

(* [SimpleB inl inr st]: st is covered; inl = it may contain a break that belongs to an enclosing loop;
   inr = it may contain a return (it lies in the body of a routine).  A call is covered when it names a routine of the table
   and its arguments are ordinary values; [bodies_ok] below says that the body of every routine of the table is covered, so
   routines may call each other and themselves. *)
Inductive SimpleB : bool -> bool -> stmt -> Prop :=
| B_simple inl inr st : Simple mt st -> SimpleB inl inr st
| B_break inr : SimpleB true inr SBreak
| B_return inl v : plain_rval mt v = true -> SimpleB inl true (SReturn (Some v))
| B_return0 inl : SimpleB inl true (SReturn None)
| B_call inl inr f args b d : builtin_params f builtin_table = None -> find_rdef rt f = Some d ->
    plain_args args (rd_params d) = true -> SimpleB inl inr (SCall f args b)
| B_calluse inl inr u f args d : builtin_params f builtin_table = None -> find_rdef rt f = Some d ->
    plain_args args (rd_params d) = true -> must_return (rd_body d) = true -> use_ok u = true -> SimpleB inl inr (use_stmt u (RCall f args))
| B_builtinuse inl inr u f args ps : builtin_params f builtin_table = Some ps -> plain_args args ps = true -> use_ok u = true ->
    SimpleB inl inr (use_stmt u (RCall f args))
| B_builtinret inl f args ps : builtin_params f builtin_table = Some ps -> plain_args args ps = true ->
    SimpleB inl true (SReturn (Some (RCall f args)))
| B_useexpr inl inr u e : CExpr e -> use_ok u = true -> SimpleB inl inr (use_stmt u (RExpr e))
| B_retexpr inl e : CExpr e -> SimpleB inl true (SReturn (Some (RExpr e)))
| B_callret inl f args d : builtin_params f builtin_table = None -> find_rdef rt f = Some d ->
    plain_args args (rd_params d) = true -> must_return (rd_body d) = true -> SimpleB inl true (SReturn (Some (RCall f args)))
| B_printf inl inr fmt args names k : printf_names fmt = Some names -> printf_positional fmt = Some k ->
    forallb (plain_rval mt) args = true -> (zlength args <=? k) = true -> names_visible names = true -> SimpleB inl inr (SPrintf fmt args)
| B_if inl inr c a : ValOk c -> SimpleB inl inr a -> SimpleB inl inr (SIf c a None)
| B_ifelse inl inr c a b : ValOk c -> SimpleB inl inr a -> SimpleB inl inr b -> SimpleB inl inr (SIf c a (Some b))
| B_block inl inr l : SimpleBL inl inr l -> SimpleB inl inr (SBlock l)
| B_while inl inr c a : ValOk c -> SimpleB true inr a -> SimpleB inl inr (SRepeat (LWhile c) a)
| B_count inl inr n a : ValOk n -> SimpleB true inr a -> SimpleB inl inr (SRepeat (LCount n) a)
| B_infinite inl inr a : SimpleB true inr a -> SimpleB inl inr (SRepeat LInfinite a)
| B_idx inl inr l v pre body : idx_form rt mt l v pre -> SimpleB true inr body -> SimpleB inl inr (SRepeat l body)
| B_lights inl inr l x ov pre body : light_form rt mt l x ov pre -> SimpleB true inr body -> SimpleB inl inr (SRepeat l body)
with SimpleBL : bool -> bool -> list stmt -> Prop :=
| BL_nil inl inr : SimpleBL inl inr []
| BL_cons inl inr st r : SimpleB inl inr st -> SimpleBL inl inr r -> SimpleBL inl inr (st :: r).

Scheme SimpleB_ind2 := Induction for SimpleB Sort Prop
with SimpleBL_ind2 := Induction for SimpleBL Sort Prop.
Combined Scheme SimpleB_mutind from SimpleB_ind2, SimpleBL_ind2.

Definition bodies_ok : Prop := forall f d, find_rdef rt f = Some d -> SimpleB false true (rd_body d).

(* ---- the code, for any distance to the end of the enclosing loop ---- *)
Definition blk (after : option Z) (l : list stmt) : program := c_stmt rt mt false after (SBlock l).

Lemma c_break after : c_stmt rt mt false after SBreak = match after with Some a => [jump JC_ALWAYS (a + 1)] | None => [jump JC_ALWAYS 0] end.
Proof. reflexivity. Qed.
Lemma c_block_nil after : c_stmt rt mt false after (SBlock []) = [].
Proof. reflexivity. Qed.
Lemma c_whileB c a : c_stmt rt mt false None (SRepeat (LWhile c) a) =
  [I0 OC_LOOP] ++ c_rval rt mt c (DReg R_RESULT) ++ [jump JC_IF_FALSE (len (c_stmt rt mt false (Some 1) a ++ []) + 2)] ++ (c_stmt rt mt false (Some 1) a ++ []) ++
  [jump JC_ALWAYS (- (len (c_rval rt mt c (DReg R_RESULT)) + 1 + len (c_stmt rt mt false (Some 1) a ++ [])))] ++ [I0 OC_END_LOOP].
Proof. reflexivity. Qed.
Lemma c_infinite a : c_stmt rt mt false None (SRepeat LInfinite a) =
  [I0 OC_LOOP] ++ [I2 OC_MOVEQ (PBool true) (PReg R_RESULT)] ++ [jump JC_IF_FALSE (len (c_stmt rt mt false (Some 1) a ++ []) + 2)] ++ (c_stmt rt mt false (Some 1) a ++ []) ++
  [jump JC_ALWAYS (- (1 + 1 + len (c_stmt rt mt false (Some 1) a ++ [])))] ++ [I0 OC_END_LOOP].
Proof. reflexivity. Qed.
Lemma iterate_idx f ss cnt v incr body : iterate rt mt (S f) false ss None (Some cnt) (Some (v, incr)) None body =
  (let* (go, s1) := lift_res (positive cnt) ss in
   if negb go then ROk SigNormal s1 else
   let* (sig, s3) := Sem.exec rt mt f false s1 body in
   match sig with
   | SigBreak => ROk SigNormal s3
   | SigReturn x => ROk (SigReturn x) s3
   | SigNormal => match (do n' <- sub1 cnt; Ok (Some n')) with
                  | Err e => RErr e s3
                  | Ok cnt' => match idx_next s3 v incr with
                               | Ok nv => iterate rt mt f false (assign s3 v nv) None cnt' (Some (v, incr)) None body
                               | Err e => RErr e s3
                               end
                  end
   end).
Proof. reflexivity. Qed.
Lemma exec_infinite f ss a : Sem.exec rt mt (S (S f)) false ss (SRepeat LInfinite a) = iterate rt mt f false ss None None None None a.
Proof. reflexivity. Qed.
Lemma iterate_infinite f ss a : iterate rt mt (S f) false ss None None None None a =
  (let* (sig, s3) := Sem.exec rt mt f false ss a in
   match sig with SigBreak => ROk SigNormal s3 | SigReturn v => ROk (SigReturn v) s3 | SigNormal => iterate rt mt f false s3 None None None None a end).
Proof. reflexivity. Qed.
Lemma exec_break f ss : Sem.exec rt mt (S f) false ss SBreak = ROk SigBreak ss.
Proof. reflexivity. Qed.

Lemma c_return v after : c_stmt rt mt false after (SReturn (Some v)) = c_rval rt mt v (DReg R_RESULT) ++ [I0 OC_RETURN].
Proof. reflexivity. Qed.
Lemma c_return0 after : c_stmt rt mt false after (SReturn None) = [I2 OC_MOVEQ PNone (PReg R_RESULT); I0 OC_RETURN].
Proof. reflexivity. Qed.
Lemma exec_return f ss v : Sem.exec rt mt (S f) false ss (SReturn (Some v)) =
  (let* (x, s1) := eval_rval rt mt f false ss v in ROk (SigReturn x) s1).
Proof. reflexivity. Qed.
Lemma exec_return0 f ss : Sem.exec rt mt (S f) false ss (SReturn None) = ROk (SigReturn VNone) ss.
Proof. reflexivity. Qed.

(* the code of the arguments of a call *)
Fixpoint c_args (ps : list string) (args : list rval) : program :=
  match ps, args with
  | p :: ps', a :: r => c_rval rt mt a (DReg R_RESULT) ++ [I2 OC_PARAM (PStr p) (PReg R_RESULT)] ++ c_args ps' r
  | _, _ => []
  end.
Lemma c_callB after f args b d : builtin_params f builtin_table = None -> find_rdef rt f = Some d ->
  c_stmt rt mt false after (SCall f args b) = [I0 OC_CTX] ++ c_args (rd_params d) args ++ [I1 OC_JSR (PStr f); I0 OC_END_CTX].
Proof.
  intros Hb Hf. cbn [c_stmt]. unfold c_call, mk_call, params_of_routine. rewrite Hb, Hf. f_equal. f_equal.
  generalize (rd_params d). induction args as [|a r IH]; intros ps; destruct ps as [|p ps]; cbn [map c_args]; try reflexivity.
  rewrite IH. reflexivity.
Qed.
Definition call_code (d : routine_def) (f : string) (args : list rval) : program :=
  [I0 OC_CTX] ++ c_args (rd_params d) args ++ [I1 OC_JSR (PStr f); I0 OC_END_CTX].
(* a call in the place of a value: the same code, then the value is taken from RESULT *)
Lemma c_rcall f args d dd : builtin_params f builtin_table = None -> find_rdef rt f = Some d ->
  c_rval rt mt (RCall f args) dd = call_code d f args ++
    match dd with DPush => [I1 OC_PUSH (PReg R_RESULT)] | DReg R_RESULT => [] | _ => [I2 OC_MOVE (PReg R_RESULT) (dest_param dd)] end.
Proof.
  intros Hb Hf. cbn [c_rval]. unfold call_code, mk_call, params_of_routine. rewrite Hb, Hf. f_equal. f_equal. f_equal.
  generalize (rd_params d). induction args as [|a r IH]; intros ps; destruct ps as [|p ps]; cbn [c_args]; try reflexivity.
  rewrite IH. reflexivity.
Qed.
Lemma c_use after u f args d : builtin_params f builtin_table = None -> find_rdef rt f = Some d -> use_ok u = true ->
  c_stmt rt mt false after (use_stmt u (RCall f args)) = call_code d f args ++ use_tail u.
Proof.
  intros Hb Hf Hok. destruct u as [y|r|nl]; cbn [use_stmt use_tail use_ok] in *.
  - change (c_stmt rt mt false after (SAssign y (RCall f args))) with (c_rval rt mt (RCall f args) (DVar y)). rewrite (c_rcall f args d _ Hb Hf). reflexivity.
  - change (c_stmt rt mt false after (SReg r (RCall f args))) with (c_rval rt mt (RCall f args) (DReg r)). rewrite (c_rcall f args d _ Hb Hf).
    destruct r; try discriminate; reflexivity.
  - destruct nl.
    + change (c_stmt rt mt false after (SPrintln (Some (RCall f args)))) with
        (c_rval rt mt (RCall f args) (DReg R_RESULT) ++ [I2 OC_OUT (PIoOp IO_REGISTER) (PReg R_RESULT); I1 OC_OUT (PIoOp IO_PRINT); I1 OC_OUT (PIoOp IO_PRINT_END)]).
      rewrite (c_rcall f args d _ Hb Hf), app_nil_r. reflexivity.
    + change (c_stmt rt mt false after (SPrint (Some (RCall f args)))) with
        (c_rval rt mt (RCall f args) (DReg R_RESULT) ++ [I2 OC_OUT (PIoOp IO_REGISTER) (PReg R_RESULT); I1 OC_OUT (PIoOp IO_PRINT)]).
      rewrite (c_rcall f args d _ Hb Hf), app_nil_r. reflexivity.
Qed.
Lemma c_retcall after f args d : builtin_params f builtin_table = None -> find_rdef rt f = Some d ->
  c_stmt rt mt false after (SReturn (Some (RCall f args))) = call_code d f args ++ [I0 OC_RETURN].
Proof. intros Hb Hf. rewrite c_return, (c_rcall f args d _ Hb Hf), app_nil_r. reflexivity. Qed.

(* a built-in function: the same shape of code, the parameter names from the table of built-ins *)
Definition bcall_code (ps : list string) (f : string) (args : list rval) : program :=
  [I0 OC_CTX] ++ c_args ps args ++ [I1 OC_JSR (PStr f); I0 OC_END_CTX].
Lemma c_rcall_builtin f args ps dd : builtin_params f builtin_table = Some ps ->
  c_rval rt mt (RCall f args) dd = bcall_code ps f args ++
    match dd with DPush => [I1 OC_PUSH (PReg R_RESULT)] | DReg R_RESULT => [] | _ => [I2 OC_MOVE (PReg R_RESULT) (dest_param dd)] end.
Proof.
  intros Hb. cbn [c_rval]. unfold bcall_code, mk_call, params_of_routine. rewrite Hb. f_equal. f_equal. f_equal.
  generalize ps. induction args as [|a r IH]; intros qs; destruct qs as [|p qs]; cbn [c_args]; try reflexivity.
  rewrite IH. reflexivity.
Qed.
Lemma c_use_builtin after u f args ps : builtin_params f builtin_table = Some ps -> use_ok u = true ->
  c_stmt rt mt false after (use_stmt u (RCall f args)) = bcall_code ps f args ++ use_tail u.
Proof.
  intros Hb Hok. destruct u as [y|r|nl]; cbn [use_stmt use_tail use_ok] in *.
  - change (c_stmt rt mt false after (SAssign y (RCall f args))) with (c_rval rt mt (RCall f args) (DVar y)). rewrite (c_rcall_builtin f args ps _ Hb). reflexivity.
  - change (c_stmt rt mt false after (SReg r (RCall f args))) with (c_rval rt mt (RCall f args) (DReg r)). rewrite (c_rcall_builtin f args ps _ Hb).
    destruct r; try discriminate; reflexivity.
  - destruct nl.
    + change (c_stmt rt mt false after (SPrintln (Some (RCall f args)))) with
        (c_rval rt mt (RCall f args) (DReg R_RESULT) ++ [I2 OC_OUT (PIoOp IO_REGISTER) (PReg R_RESULT); I1 OC_OUT (PIoOp IO_PRINT); I1 OC_OUT (PIoOp IO_PRINT_END)]).
      rewrite (c_rcall_builtin f args ps _ Hb), app_nil_r. reflexivity.
    + change (c_stmt rt mt false after (SPrint (Some (RCall f args)))) with
        (c_rval rt mt (RCall f args) (DReg R_RESULT) ++ [I2 OC_OUT (PIoOp IO_REGISTER) (PReg R_RESULT); I1 OC_OUT (PIoOp IO_PRINT)]).
      rewrite (c_rcall_builtin f args ps _ Hb), app_nil_r. reflexivity.
Qed.
Lemma c_retcall_builtin after f args ps : builtin_params f builtin_table = Some ps ->
  c_stmt rt mt false after (SReturn (Some (RCall f args))) = bcall_code ps f args ++ [I0 OC_RETURN].
Proof. intros Hb. rewrite c_return, (c_rcall_builtin f args ps _ Hb), app_nil_r. reflexivity. Qed.
Lemma yes_builtin f ps : builtin_params f builtin_table = Some ps -> is_builtin f = true.
Proof.
  unfold is_builtin, builtin_names. induction builtin_table as [|[k qs] t IH]; cbn [builtin_params map fst existsb]; [discriminate|].
  rewrite (String.eqb_sym f k). destruct (String.eqb k f); cbn [orb]; intros H; [reflexivity|]. exact (IH H).
Qed.

Lemma exec_call f ss g args b : Sem.exec rt mt (S f) false ss (SCall g args b) = (let* (_, s1) := call rt mt f false ss g args in ROk SigNormal s1).
Proof. reflexivity. Qed.

(* no routine markers, whatever the distance *)
Lemma c_args_no_routine0 args : forall ps, plain_args0 args ps = true -> forallb not_routine (c_args ps args) = true.
Proof.
  induction args as [|a r IH]; intros ps H; destruct ps as [|p ps]; cbn [plain_args0 c_args] in *; try reflexivity; try discriminate.
  apply andb_true_iff in H. destruct H as [Ha Hr].
  rewrite !forallb_app, (c_rval_no_routine rt mt a (DReg R_RESULT) Ha (plain_ok_result mt a Ha)), (IH ps Hr). reflexivity.
Qed.
Lemma call_code_no_routine0 d f args : plain_args0 args (rd_params d) = true -> forallb not_routine (call_code d f args) = true.
Proof. intros Ha. unfold call_code. rewrite !forallb_app, (c_args_no_routine0 args _ Ha). reflexivity. Qed.
Lemma bcall_code_no_routine0 ps f args : plain_args0 args ps = true -> forallb not_routine (bcall_code ps f args) = true.
Proof. intros Ha. unfold bcall_code. rewrite !forallb_app, (c_args_no_routine0 args _ Ha). reflexivity. Qed.
Lemma inner_call_no_routine a : inner_call a = true -> forallb not_routine (c_rval rt mt a (DReg R_RESULT)) = true.
Proof.
  destruct a as [l|l|m|m|y|rg|e|g args']; try discriminate. cbn [inner_call].
  destruct (builtin_params g builtin_table) as [qs|] eqn:Eb.
  - intros Ha. rewrite (c_rcall_builtin g args' qs _ Eb), app_nil_r. exact (bcall_code_no_routine0 qs g args' Ha).
  - destruct (find_rdef rt g) as [d|] eqn:Ef; [|discriminate]. intros Ha. apply andb_true_iff in Ha. destruct Ha as [Ha _].
    rewrite (c_rcall g args' d _ Eb Ef), app_nil_r. exact (call_code_no_routine0 d g args' Ha).
Qed.
Lemma c_args_no_routine args : forall ps, plain_args args ps = true -> forallb not_routine (c_args ps args) = true.
Proof.
  induction args as [|a r IH]; intros ps H; destruct ps as [|p ps]; cbn [plain_args c_args] in *; try reflexivity; try discriminate.
  apply andb_true_iff in H. destruct H as [Ha Hr]. rewrite !forallb_app, (IH ps Hr).
  destruct (plain_rval mt a) eqn:Epl; [rewrite (c_rval_no_routine rt mt a (DReg R_RESULT) Epl (plain_ok_result mt a Epl)); reflexivity|].
  cbn [orb] in Ha. rewrite (inner_call_no_routine a Ha). reflexivity.
Qed.

Lemma call_code_no_routine d f args : plain_args args (rd_params d) = true -> forallb not_routine (call_code d f args) = true.
Proof. intros Ha. unfold call_code. rewrite !forallb_app, (c_args_no_routine args _ Ha). reflexivity. Qed.

Lemma bcall_code_no_routine ps f args : plain_args args ps = true -> forallb not_routine (bcall_code ps f args) = true.
Proof. intros Ha. unfold bcall_code. rewrite !forallb_app, (c_args_no_routine args _ Ha). reflexivity. Qed.

Lemma c_ecall f args d : builtin_params f builtin_table = None -> find_rdef rt f = Some d ->
  c_expr rt mt (ECall f args) = call_code d f args ++ [I1 OC_PUSH (PReg R_RESULT)].
Proof.
  intros Hb Hf. cbn [c_expr]. unfold call_code, mk_call, params_of_routine. rewrite Hb, Hf. f_equal. f_equal. f_equal.
  generalize (rd_params d). induction args as [|a r IH]; intros ps; destruct ps as [|p ps]; cbn [c_args]; try reflexivity.
  rewrite IH. reflexivity.
Qed.
Lemma c_ecall_builtin f args ps : builtin_params f builtin_table = Some ps ->
  c_expr rt mt (ECall f args) = bcall_code ps f args ++ [I1 OC_PUSH (PReg R_RESULT)].
Proof.
  intros Hb. cbn [c_expr]. unfold bcall_code, mk_call, params_of_routine. rewrite Hb. f_equal. f_equal. f_equal.
  generalize ps. induction args as [|a r IH]; intros qs; destruct qs as [|p qs]; cbn [c_args]; try reflexivity.
  rewrite IH. reflexivity.
Qed.

Lemma cexpr_no_routine e : CExpr e -> forallb not_routine (c_expr rt mt e) = true.
Proof.
  induction 1 as [e Hs _|f args d Hb Hf Hp _|f args ps Hb Hp|op a b _ IHa _ IHb|a _ IHa|a _ IHa|a _ IHa].
  - exact (c_expr_no_routine rt mt e Hs).
  - rewrite (c_ecall f args d Hb Hf), forallb_app, (call_code_no_routine d f args Hp). reflexivity.
  - rewrite (c_ecall_builtin f args ps Hb), forallb_app, (bcall_code_no_routine ps f args Hp). reflexivity.
  - cbn [c_expr]. rewrite !forallb_app, IHa, IHb. reflexivity.
  - cbn [c_expr]. rewrite forallb_app, IHa. reflexivity.
  - exact IHa.
  - exact IHa.
Qed.


(* where the value of an expression goes: POP into the variable / register, or POP into RESULT and print *)
Definition use_pop (u : use) : program :=
  match u with
  | UAssign y => [I1 OC_POP (PStr y)]
  | UReg r => [I1 OC_POP (PReg r)]
  | UPrint nl => [I1 OC_POP (PReg R_RESULT)] ++ use_tail (UPrint nl)
  end.
Lemma c_useexpr after u e : c_stmt rt mt false after (use_stmt u (RExpr e)) = c_expr rt mt e ++ use_pop u.
Proof.
  destruct u as [y|r|[|]]; cbn [use_stmt use_pop use_tail].
  - reflexivity.
  - reflexivity.
  - change (c_stmt rt mt false after (SPrintln (Some (RExpr e)))) with
      ((c_expr rt mt e ++ [I1 OC_POP (PReg R_RESULT)]) ++ [I2 OC_OUT (PIoOp IO_REGISTER) (PReg R_RESULT); I1 OC_OUT (PIoOp IO_PRINT); I1 OC_OUT (PIoOp IO_PRINT_END)]).
    rewrite <- app_assoc. reflexivity.
  - change (c_stmt rt mt false after (SPrint (Some (RExpr e)))) with
      ((c_expr rt mt e ++ [I1 OC_POP (PReg R_RESULT)]) ++ [I2 OC_OUT (PIoOp IO_REGISTER) (PReg R_RESULT); I1 OC_OUT (PIoOp IO_PRINT)]).
    rewrite <- app_assoc. reflexivity.
Qed.
Lemma c_retexpr after e : c_stmt rt mt false after (SReturn (Some (RExpr e))) = c_expr rt mt e ++ [I1 OC_POP (PReg R_RESULT); I0 OC_RETURN].
Proof. rewrite c_return, c_rval_expr, <- app_assoc. reflexivity. Qed.
Lemma use_pop_no_routine u : forallb not_routine (use_pop u) = true.
Proof. destruct u as [y|r|[|]]; reflexivity. Qed.

(* ---- printf ---- *)
Definition pf_args_code (args : list rval) : program :=
  flat_map (fun a => c_rval rt mt a (DReg R_RESULT) ++ [I2 OC_OUT (PIoOp IO_REGISTER) (PReg R_RESULT)]) args.
Lemma c_printf after fmt args : c_stmt rt mt false after (SPrintf fmt args) = pf_args_code args ++ [I2 OC_OUT (PIoOp IO_PRINTF) (PStr fmt)].
Proof. reflexivity. Qed.
Lemma exec_printf f ss fmt args : Sem.exec rt mt (S f) false ss (SPrintf fmt args) =
  (let* (vs, s1) := eval_args rt mt f false ss args in
   match printf_names fmt with
   | Some names => ROk SigNormal (s_emit s1 [EvPrintf fmt vs (map (fun n => (n, match register_of_name n with Some r => rreg (s_regs s1) r | None => lookup s1 n end)) names)])
   | None => RErr (EUnsupported "printf format outside the scanned subset") s1
   end).
Proof. reflexivity. Qed.
Lemma pf_args_no_routine args : forallb (plain_rval mt) args = true -> forallb not_routine (pf_args_code args) = true.
Proof.
  induction args as [|a r IH]; intros H; [reflexivity|]. cbn [forallb] in H. apply andb_true_iff in H. destruct H as [Ha Hr].
  unfold pf_args_code in *. cbn [flat_map]. rewrite !forallb_app, (c_rval_no_routine rt mt a (DReg R_RESULT) Ha (plain_ok_result mt a Ha)), (IH Hr). reflexivity.
Qed.

Lemma valok_no_routine v : ValOk v -> forallb not_routine (c_rval rt mt v (DReg R_RESULT)) = true.
Proof.
  intros [v0 Hp|f args d Hb Hf Hp _|f args ps Hb Hp|e He].
  - exact (c_rval_no_routine rt mt v0 (DReg R_RESULT) Hp (plain_ok_result mt v0 Hp)).
  - rewrite (c_rcall f args d _ Hb Hf), app_nil_r. exact (call_code_no_routine d f args Hp).
  - rewrite (c_rcall_builtin f args ps _ Hb), app_nil_r. exact (bcall_code_no_routine ps f args Hp).
  - rewrite c_rval_expr, forallb_app, (cexpr_no_routine e He). reflexivity.
Qed.

Lemma valok_counter_no_routine v : ValOk v -> forallb not_routine (c_rval rt mt v (DLoop LV_COUNTER)) = true.
Proof.
  intros [v0 Hp|f args d Hb Hf Hp _|f args ps Hb Hp|e He].
  - exact (c_rval_counter_no_routine rt mt v0 Hp).
  - rewrite (c_rcall f args d _ Hb Hf), forallb_app, (call_code_no_routine d f args Hp). reflexivity.
  - rewrite (c_rcall_builtin f args ps _ Hb), forallb_app, (bcall_code_no_routine ps f args Hp). reflexivity.
  - rewrite c_rval_expr, forallb_app, (cexpr_no_routine e He). reflexivity.
Qed.

Lemma simpleB_no_routine :
  (forall inl inr st, SimpleB inl inr st -> forall after, forallb not_routine (c_stmt rt mt false after st) = true) /\
  (forall inl inr l, SimpleBL inl inr l -> forall after, forallb not_routine (c_stmt rt mt false after (SBlock l)) = true).
Proof.
  apply SimpleB_mutind.
  - intros inl inr st H after. rewrite (proj1 (simple_after rt mt) st H after). apply (proj1 (simple_no_routine rt mt)). exact H.
  - intros inr after. rewrite c_break. destruct after; reflexivity.
  - intros inl v Hv after. rewrite c_return, forallb_app, (c_rval_no_routine rt mt v (DReg R_RESULT) Hv (plain_ok_result mt v Hv)). reflexivity.
  - intros inl after. reflexivity.
  - intros inl inr f args b d Hb Hf Ha after. rewrite (c_callB after f args b d Hb Hf), !forallb_app, (c_args_no_routine args _ Ha). reflexivity.
  - intros inl inr u f args d Hb Hf Ha _ Hok after. rewrite (c_use after u f args d Hb Hf Hok), forallb_app, (call_code_no_routine d f args Ha), use_tail_no_routine. reflexivity.
  - intros inl inr u f args ps Hb Ha Hok after. rewrite (c_use_builtin after u f args ps Hb Hok), forallb_app, (bcall_code_no_routine ps f args Ha), use_tail_no_routine. reflexivity.
  - intros inl f args ps Hb Ha after. rewrite (c_retcall_builtin after f args ps Hb), forallb_app, (bcall_code_no_routine ps f args Ha). reflexivity.
  - intros inl inr u e He Hok after. rewrite (c_useexpr after u e), forallb_app, (cexpr_no_routine e He), use_pop_no_routine. reflexivity.
  - intros inl e He after. rewrite (c_retexpr after e), forallb_app, (cexpr_no_routine e He). reflexivity.
  - intros inl f args d Hb Hf Ha _ after. rewrite (c_retcall after f args d Hb Hf), forallb_app, (call_code_no_routine d f args Ha). reflexivity.
  - intros inl inr fmt args names k _ _ Hpl _ _ after. rewrite c_printf, forallb_app, (pf_args_no_routine args Hpl). reflexivity.
  - intros inl inr c a Hc _ IHa after. rewrite c_if1_after, !forallb_app, (IHa after), (valok_no_routine c Hc). reflexivity.
  - intros inl inr c a b Hc _ IHa _ IHb after. rewrite c_if2_after, !forallb_app, (IHa _), (IHb after), (valok_no_routine c Hc). reflexivity.
  - intros inl inr l _ IH after. exact (IH after).
  - intros inl inr c a Hc _ IHa after. rewrite c_loop_after, c_whileB, app_nil_r, !forallb_app, (IHa (Some 1)),
      (valok_no_routine c Hc). reflexivity.
  - intros inl inr n a Hn _ IHa after. rewrite c_loop_after, c_count, !forallb_app, (IHa _), (valok_counter_no_routine n Hn). reflexivity.
  - intros inl inr a _ IHa after. rewrite c_loop_after, c_infinite, app_nil_r, !forallb_app, (IHa (Some 1)). reflexivity.
  - intros inl inr l v pre body Hform _ IHa after. destruct Hform as (Hcode & Hnr & _). rewrite c_loop_after, Hcode, !forallb_app, (IHa _), Hnr. reflexivity.
  - intros inl inr l x ov pre body Hform _ IHa after. destruct Hform as (Hcode & Hnr & _). rewrite c_loop_after, Hcode, !forallb_app, (IHa _), Hnr, counter_post_no_routine. reflexivity.
  - intros inl inr after. reflexivity.
  - intros inl inr st r _ IHst _ IHr after. rewrite c_block_cons_after, forallb_app, (IHst _), (IHr after). reflexivity.
Qed.

(* ---- where the machine is afterwards ---- *)
Definition sim_to (im : image) (ss : sstate) (s : mstate) (ss' : sstate) (target : Z) : Prop :=
  exists n s' evs, esteps n im s = Some (s', evs) /\ sim ss' s' /\ m_pc s' = target /\
                   (m_stack s', fr s') = (m_stack s, fr s) /\ rev (s_trace ss') = rev (s_trace ss) ++ evs.

(* after a return: everything corresponds but the variables -- those of the routine are gone with its frame, the
   reference semantics puts the caller's back *)
Definition ret_state (ss' : sstate) (s' : mstate) : Prop :=
  agree (m_regs s') (s_regs ss') /\ regs_full (s_regs ss') /\ m_globals s' = s_globals ss' /\ m_world s' = s_world ss' /\ m_unnamed s' = [] /\
  rf_get (m_regs s') R_DISC_FORWARD = Some (VBool false).

Definition returned (im : image) (ss : sstate) (s : mstate) (ss' : sstate) (v : value) : Prop :=
  exists ret F, call_tail (m_frames s) = Some (ret, F) /\
  exists n s' evs, esteps n im s = Some (s', evs) /\ (ret_state ss' s' /\ rf_get (m_regs s') R_RESULT = Some v) /\ m_pc s' = ret + 1 /\ m_frames s' = F /\ m_stack s' = ret_stack (m_frames s) (m_stack s) /\
                   rev (s_trace ss') = rev (s_trace ss) ++ evs.

Definition outcome (inr : bool) (after : option Z) (im : image) (ss : sstate) (s : mstate) (sig : signal) (ss' : sstate) (code : program) : Prop :=
  (sig = SigNormal /\ sim_to im ss s ss' (m_pc s + zlength code)) \/
  (sig = SigBreak /\ exists a, after = Some a /\ sim_to im ss s ss' (m_pc s + zlength code + a)) \/
  (inr = true /\ exists v, sig = SigReturn v /\ returned im ss s ss' v).

Definition in_loop_ok (inl : bool) (after : option Z) : Prop := inl = true -> exists a, after = Some a.
Definition in_ret_ok (inr : bool) (fs : frames) : Prop := inr = true -> exists ret F, call_tail fs = Some (ret, F).
(* where a return may occur, the loops of the routine in progress were entered with the present stack (what RETURN cuts the stack back to);
   the body of a light loop runs with the names still to visit on the stack: it may not return *)
Definition in_depth_ok (inr : bool) (s : mstate) : Prop := inr = true -> depth_ok (m_frames s) (zlength (m_stack s)).

Lemma in_loop_ok_map inl after f : in_loop_ok inl after -> in_loop_ok inl (option_map f after).
Proof. intros H Hi. destruct (H Hi) as [a ->]. exists (f a). reflexivity. Qed.

(* the routines of the program lie in the image: the body, then END *)
Definition routines_loaded (im : image) : Prop :=
  forall f d, find_rdef rt f = Some d ->
  exists addr r, find_routine (PStr f) (im_routines im) = Some (addr, r) /\
                 code_at im addr (c_stmt rt mt false None (rd_body d) ++ [I1 OC_END (PStr f)]).

(* ---- composing runs ---- *)
Lemma returned_rebase im ss s sa s1 n1 e1 ss' {v} :
  esteps n1 im s = Some (s1, e1) -> call_tail (m_frames s1) = call_tail (m_frames s) ->
  ret_stack (m_frames s1) (m_stack s1) = ret_stack (m_frames s) (m_stack s) ->
  rev (s_trace sa) = rev (s_trace ss) ++ e1 -> returned im sa s1 ss' v -> returned im ss s ss' v.
Proof.
  intros E1 Hct Hsk Ht1 (ret & F & Hc & n & s2 & e2 & E2 & Hr2 & Hpc2 & Hf2 & Hst2 & Ht2).
  exists ret, F. split; [rewrite <- Hct; exact Hc|]. exists (n1 + n)%nat, s2, (e1 ++ e2). split; [eapply esteps_app; eassumption|].
  split; [exact Hr2|]. split; [exact Hpc2|]. split; [exact Hf2|]. split; [rewrite Hst2; exact Hsk|]. rewrite Ht2, Ht1, app_assoc. reflexivity.
Qed.

Lemma fr_eq_facts s1 s : (m_stack s1, fr s1) = (m_stack s, fr s) ->
  m_stack s1 = m_stack s /\ call_tail (m_frames s1) = call_tail (m_frames s) /\
  (forall z, depth_ok (m_frames s) z -> depth_ok (m_frames s1) z) /\
  ret_stack (m_frames s1) (m_stack s1) = ret_stack (m_frames s) (m_stack s).
Proof.
  intros H. injection H as H1 H2. unfold fr in H2. split; [exact H1|]. split; [apply call_tail_fr_eq; exact H2|].
  split; [intros z Hd; apply (depth_ok_fr_eq (m_frames s) (m_frames s1) z); [symmetry; exact H2|exact Hd]|].
  rewrite H1. apply ret_stack_fr_eq. exact H2.
Qed.

(* a state inside a loop that was opened on the stack of s (the names of a loop over lights may lie above it): RETURN would leave
   what it leaves at s *)
Lemma loop_ret_stack s sx lv r extra : m_frames sx = FLoop lv (zlength (m_stack s)) :: r -> erase r = erase (m_frames s) ->
  m_stack sx = extra ++ m_stack s -> depth_ok (m_frames s) (zlength (m_stack s)) ->
  ret_stack (m_frames sx) (m_stack sx) = ret_stack (m_frames s) (m_stack s).
Proof. intros Hf He Hs Hd. rewrite Hf, Hs. apply ret_stack_in_loop; assumption. Qed.
Lemma loop_states_ret_stack s sa sb lva ra lvb rb :
  m_frames sa = FLoop lva (zlength (m_stack s)) :: ra -> erase ra = erase (m_frames s) -> m_stack sa = m_stack s ->
  m_frames sb = FLoop lvb (zlength (m_stack s)) :: rb -> erase rb = erase (m_frames s) -> m_stack sb = m_stack s ->
  depth_ok (m_frames s) (zlength (m_stack s)) ->
  ret_stack (m_frames sa) (m_stack sa) = ret_stack (m_frames sb) (m_stack sb).
Proof.
  intros Hfa Hea Hsa Hfb Heb Hsb Hd.
  rewrite (loop_ret_stack s sa lva ra [] Hfa Hea Hsa Hd), (loop_ret_stack s sb lvb rb [] Hfb Heb Hsb Hd). reflexivity.
Qed.

Lemma outcome_after_steps inr after im ss s sa s1 n1 e1 sig ss' c2 c :
  esteps n1 im s = Some (s1, e1) -> (m_stack s1, fr s1) = (m_stack s, fr s) ->
  rev (s_trace sa) = rev (s_trace ss) ++ e1 -> m_pc s1 + zlength c2 = m_pc s + zlength c ->
  outcome inr after im sa s1 sig ss' c2 -> outcome inr after im ss s sig ss' c.
Proof.
  intros E1 Hst1 Ht1 Hpc [[Hsig (n & s2 & e2 & E2 & Hs2 & Hpc2 & Hst2 & Ht2)]|[[Hsig (a & Ha & n & s2 & e2 & E2 & Hs2 & Hpc2 & Hst2 & Ht2)]|[Hinr [v [Hsig Hret]]]]].
  - left. split; [exact Hsig|]. exists (n1 + n)%nat, s2, (e1 ++ e2). split; [eapply esteps_app; eassumption|]. split; [exact Hs2|].
    split; [rewrite Hpc2; exact Hpc|]. split; [rewrite Hst2; exact Hst1|]. rewrite Ht2, Ht1, app_assoc. reflexivity.
  - right. left. split; [exact Hsig|]. exists a. split; [exact Ha|]. exists (n1 + n)%nat, s2, (e1 ++ e2). split; [eapply esteps_app; eassumption|]. split; [exact Hs2|].
    split; [rewrite Hpc2, Hpc; reflexivity|]. split; [rewrite Hst2; exact Hst1|]. rewrite Ht2, Ht1, app_assoc. reflexivity.
  - right. right. split; [exact Hinr|]. exists v. split; [exact Hsig|]. destruct (fr_eq_facts s1 s Hst1) as [_ [Hct [_ Hrs]]].
    exact (returned_rebase im ss s sa s1 n1 e1 ss' E1 Hct Hrs Ht1 Hret).
Qed.

Lemma sim_to_after_steps im ss s sa s1 n1 e1 ss' t :
  esteps n1 im s = Some (s1, e1) -> (m_stack s1, fr s1) = (m_stack s, fr s) ->
  rev (s_trace sa) = rev (s_trace ss) ++ e1 -> sim_to im sa s1 ss' t -> sim_to im ss s ss' t.
Proof.
  intros E1 Hst1 Ht1 (n & s2 & e2 & E2 & Hs2 & Hpc2 & Hst2 & Ht2).
  exists (n1 + n)%nat, s2, (e1 ++ e2). split; [eapply esteps_app; eassumption|]. split; [exact Hs2|]. split; [exact Hpc2|].
  split; [rewrite Hst2; exact Hst1|]. rewrite Ht2, Ht1, app_assoc. reflexivity.
Qed.

Lemma sim_to_jump im ss s ss' t off :
  sim_to im ss s ss' t -> fetch im t = Some (jump JC_ALWAYS off) -> sim_to im ss s ss' (t + off).
Proof.
  intros (n & s1 & e1 & E1 & Hs1 & Hpc1 & Hst1 & Ht1) Hf. rewrite <- Hpc1 in Hf.
  pose proof (jump_always im s1 off Hf) as Ej.
  exists (n + 1)%nat, (with_pc s1 (m_pc s1 + off)), (e1 ++ []). split; [eapply esteps_app; eassumption|].
  split; [apply sim_with_pc; exact Hs1|]. split; [cbn [with_pc m_pc]; rewrite Hpc1; reflexivity|].
  split; [exact Hst1|]. rewrite app_nil_r. exact Ht1.
Qed.

Lemma sim_to_refl im ss s : sim ss s -> sim_to im ss s ss (m_pc s).
Proof. intros H. exists 0%nat, s, []. split; [reflexivity|]. split; [exact H|]. split; [reflexivity|]. split; [reflexivity|]. rewrite app_nil_r. reflexivity. Qed.

(* ---- the arguments of a call, evaluated while the new frame is under construction ---- *)
Lemma simr_put_reg_hidden ss s r x k : simr ss s -> visible r = false -> register_eqb R_DISC_FORWARD r = false -> simr ss (put_vm s (DReg r) x k).
Proof.
  intros H Hv Hnd. destruct H as [Hr Hf Hg Hvars Hw Hdf]. constructor; cbn; try assumption.
  - apply agree_set_hidden; assumption.
  - rewrite rf_get_set_other; [exact Hdf|exact Hnd].
Qed.

Lemma eval_args_S f ss a r : eval_args rt mt (S f) false ss (a :: r) =
  (let* (v, s1) := eval_rval rt mt f false ss a in let* (vs, s2) := eval_args rt mt f false s1 r in ROk (v :: vs) s2).
Proof. reflexivity. Qed.
Lemma eval_args_nil f ss : eval_args rt mt (S f) false ss [] = ROk [] ss.
Proof. reflexivity. Qed.

Lemma args_run0 : forall args ps, plain_args0 args ps = true ->
  forall fuel im ss s p0 F vs ss', simr ss s -> m_frames s = FCall p0 false None :: F -> code_at im (m_pc s) (c_args ps args) ->
  eval_args rt mt fuel false ss args = ROk vs ss' ->
  ss' = ss /\ exists n s' p1, esteps n im s = Some (s', []) /\ simr ss s' /\ m_pc s' = m_pc s + zlength (c_args ps args) /\
                              m_frames s' = FCall p1 false None :: F /\ m_stack s' = m_stack s /\ bind_params ps vs p0 = Some p1 /\ m_unnamed s' = m_unnamed s.
Proof.
  induction args as [|a r IH]; intros ps Hpl fuel im ss s p0 F vs ss' Hsim Hfr Hc He; destruct ps as [|p ps]; cbn [plain_args0] in Hpl; try discriminate.
  - destruct fuel as [|fuel]; [discriminate|]. rewrite eval_args_nil in He. injection He as Hvs Hss. subst vs ss'. split; [reflexivity|].
    exists 0%nat, s, p0. split; [reflexivity|]. split; [exact Hsim|]. split; [cbn [c_args]; unfold zlength; cbn; lia|]. split; [exact Hfr|]. split; [reflexivity|]. split; reflexivity.
  - apply andb_true_iff in Hpl. destruct Hpl as [Ha Hr].
    destruct fuel as [|fuel]; [discriminate|]. rewrite eval_args_S in He.
    destruct (eval_rval rt mt fuel false ss a) as [v s1|e s1|s1] eqn:Ev; cbn [sbind] in He; try discriminate.
    destruct (eval_args rt mt fuel false s1 r) as [vs' s2|e s2|s2] eqn:Er; cbn [sbind] in He; try discriminate.
    injection He as Hvs Hss. subst vs ss'.
    cbn [c_args] in Hc |- *. apply code_at_app in Hc. destruct Hc as [Hca Hc]. apply code_at_app in Hc. destruct Hc as [Hcp Hcr].
    cbn [code_at] in Hcp. destruct Hcp as [Hfp _]. rewrite zlength1 in Hcr.
    destruct (c_rval_runs_r rt mt a (DReg R_RESULT) Ha (plain_ok_result mt a Ha) im ss s v s1 fuel Hsim Hca Ev) as [Hs1 [n Hn]]. subst s1.
    set (k := zlength (c_rval rt mt a (DReg R_RESULT))) in *.
    set (sa := put_vm s (DReg R_RESULT) v k) in *.
    assert (Hsa : simr ss sa) by (apply simr_put_reg_hidden; [exact Hsim|reflexivity|reflexivity]).
    set (sb := advance (with_frames sa (FCall (env_set p0 p v) false None :: F))).
    assert (Eb : esteps 1 im sa = Some (sb, [])).
    { apply (estep1 im sa _ _ _ Hfp). cbn [Machine.exec i_op i_p0 i_p1 I2].
      assert (Hg : get_reg sa R_RESULT = Ok v) by (unfold sa; cbn [put_vm get_reg m_regs]; rewrite rf_get_set_same; reflexivity).
      rewrite Hg. cbn [bind]. change (m_frames sa) with (m_frames s). rewrite Hfr. reflexivity. }
    assert (Hsb : simr ss sb).
    { destruct Hsa as [Hr' Hf' Hg' Hv' Hw' Hdf]. constructor; cbn [sb advance with_pc with_frames with_vars m_regs m_globals m_frames m_world m_unnamed]; try assumption.
      change (m_frames sa) with (m_frames s) in Hv'. rewrite Hfr in Hv'. exact Hv'. }
    assert (Hcr' : code_at im (m_pc sb) (c_args ps r)) by exact Hcr.
    destruct (IH ps Hr fuel im ss sb (env_set p0 p v) F vs' s2 Hsb eq_refl Hcr' Er) as [Hs2 (n2 & s' & p1 & E2 & Hs' & Hpc' & Hfr' & Hst' & Hb & Hun')]. subst s2.
    split; [reflexivity|]. exists (n + (1 + n2))%nat, s', p1.
    split; [replace (@nil event) with (@nil event ++ (@nil event ++ @nil event)) by reflexivity; eapply esteps_app; [exact Hn|eapply esteps_app; [exact Eb|exact E2]]|].
    split; [exact Hs'|]. split; [rewrite Hpc'; unfold sb, sa; cbn [advance with_pc with_frames with_vars put_vm m_pc]; fold k; unfold zlength; rewrite !app_length, !Nat2Z.inj_add; cbn [length]; unfold k, zlength; lia|].
    split; [exact Hfr'|]. split; [exact Hst'|]. split; [cbn [bind_params]; exact Hb|]. exact Hun'.
Qed.

(* the values wait in the list of unnamed parameters, in the order of the arguments *)
Lemma pf_args_run : forall args fuel im ss s vs ss', forallb (plain_rval mt) args = true -> simr ss s ->
  code_at im (m_pc s) (pf_args_code args) -> eval_args rt mt fuel false ss args = ROk vs ss' ->
  ss' = ss /\ exists n s', esteps n im s = Some (s', []) /\ simr ss s' /\ m_pc s' = m_pc s + zlength (pf_args_code args) /\
                          m_unnamed s' = m_unnamed s ++ vs /\ m_stack s' = m_stack s /\ m_frames s' = m_frames s /\ length vs = length args.
Proof.
  induction args as [|a r IH]; intros fuel im ss s vs ss' Hpl Hsim Hc He.
  - destruct fuel as [|fuel]; [discriminate|]. rewrite eval_args_nil in He. injection He as <- <-. split; [reflexivity|].
    exists 0%nat, s. split; [reflexivity|]. split; [exact Hsim|]. split; [unfold zlength; cbn; lia|]. split; [rewrite app_nil_r; reflexivity|]. repeat split.
  - cbn [forallb] in Hpl. apply andb_true_iff in Hpl. destruct Hpl as [Ha Hr].
    destruct fuel as [|fuel]; [discriminate|]. rewrite eval_args_S in He.
    destruct (eval_rval rt mt fuel false ss a) as [v s1|e s1|s1] eqn:Ev; cbn [sbind] in He; try discriminate.
    destruct (eval_args rt mt fuel false s1 r) as [vs' s2|e s2|s2] eqn:Er; cbn [sbind] in He; try discriminate.
    injection He as Hvs Hss. subst vs ss'.
    unfold pf_args_code in Hc |- *. cbn [flat_map] in Hc |- *. fold (pf_args_code r) in Hc |- *.
    apply code_at_app in Hc. destruct Hc as [Hc1 Hcr]. apply code_at_app in Hc1. destruct Hc1 as [Hca Hco]. cbn [code_at] in Hco. destruct Hco as [Hfo _].
    destruct (c_rval_runs_r rt mt a (DReg R_RESULT) Ha (plain_ok_result mt a Ha) im ss s v s1 fuel Hsim Hca Ev) as [Hs1 [n Hn]]. subst s1.
    set (k := zlength (c_rval rt mt a (DReg R_RESULT))) in *.
    set (sa := put_vm s (DReg R_RESULT) v k) in *.
    assert (Hsa : simr ss sa) by (apply simr_put_reg_hidden; [exact Hsim|reflexivity|reflexivity]).
    set (sb := advance (with_unnamed sa (m_unnamed sa ++ [v]))).
    assert (Eb : esteps 1 im sa = Some (sb, [])).
    { apply (estep1 im sa _ _ _ Hfo). cbn [Machine.exec i_op i_p0 i_p1 I2].
      assert (Hg : get_reg sa R_RESULT = Ok v) by (unfold sa; cbn [put_vm get_reg m_regs]; rewrite rf_get_set_same; reflexivity).
      rewrite Hg. reflexivity. }
    assert (Hsb : simr ss sb) by (destruct Hsa as [H1 H2 H3 H4 H5 H6]; constructor; assumption).
    assert (Hcr' : code_at im (m_pc sb) (pf_args_code r)).
    { unfold sb, sa. cbn [advance with_pc with_unnamed put_vm m_pc]. fold k.
      replace (m_pc s + k + 1) with (m_pc s + zlength (c_rval rt mt a (DReg R_RESULT) ++ [I2 OC_OUT (PIoOp IO_REGISTER) (PReg R_RESULT)])); [exact Hcr|].
      unfold zlength. rewrite app_length, Nat2Z.inj_add. cbn [length]. unfold k, zlength. lia. }
    destruct (IH fuel im ss sb vs' s2 Hr Hsb Hcr' Er) as [Hs2 (n2 & s' & E2 & Hs' & Hpc' & Hun' & Hsk' & Hfr' & Hlen')]. subst s2.
    split; [reflexivity|]. exists (n + (1 + n2))%nat, s'.
    split; [replace (@nil event) with (@nil event ++ (@nil event ++ @nil event)) by reflexivity; eapply esteps_app; [exact Hn|eapply esteps_app; [exact Eb|exact E2]]|].
    split; [exact Hs'|].
    split; [rewrite Hpc'; unfold sb, sa; cbn [advance with_pc with_unnamed put_vm m_pc]; fold k; unfold zlength; rewrite !app_length, !Nat2Z.inj_add; cbn [length]; unfold k, zlength; lia|].
    split; [rewrite Hun'; unfold sb, sa; cbn [advance with_pc with_unnamed put_vm m_unnamed]; rewrite <- app_assoc; reflexivity|].
    split; [rewrite Hsk'; reflexivity|]. split; [rewrite Hfr'; reflexivity|]. cbn [length]. rewrite Hlen'. reflexivity.
Qed.


Lemma printf_step im ss s fmt vs names k : sim ss (with_unnamed s []) -> m_unnamed s = vs ->
  printf_names fmt = Some names -> printf_positional fmt = Some k -> (zlength vs <= k) -> names_visible names = true ->
  fetch im (m_pc s) = Some (I2 OC_OUT (PIoOp IO_PRINTF) (PStr fmt)) ->
  esteps 1 im s = Some (advance (with_unnamed s []),
    [EvPrintf fmt vs (map (fun n => (n, match register_of_name n with Some r => rreg (s_regs ss) r | None => lookup ss n end)) names)] ++ []).
Proof.
  intros Hsim Hun Hn Hk Hle Hvis Hf. cbn [esteps]. rewrite Hf. cbn [Machine.exec i_op i_p0 i_p1 I2]. rewrite Hn, Hk, Hun.
  replace (Z.to_nat (Z.max 0 (zlength vs - k))) with 0%nat by lia. cbn [firstn skipn].
  assert (Hnamed : map (fun n => (n, match register_of_name n with Some r => reg s r | None => get_var (m_globals s) (m_frames s) n end)) names =
                   map (fun n => (n, match register_of_name n with Some r => rreg (s_regs ss) r | None => lookup ss n end)) names).
  { apply map_ext_in. intros n Hin. f_equal. pose proof (proj1 (forallb_forall _ _) Hvis n Hin) as Hv.
    cbv beta in Hv. destruct (register_of_name n) as [r|].
    - unfold reg. change (get_reg s r) with (get_reg (with_unnamed s []) r). rewrite (sim_get_reg ss _ r Hsim Hv). reflexivity.
    - exact (sim_lookup ss (with_unnamed s []) n Hsim). }
  rewrite Hnamed. reflexivity.
Qed.

(* ---- a call of a user routine ---- *)
Lemma call_user f ss g args d : builtin_params g builtin_table = None -> find_rdef rt g = Some d ->
  call rt mt (S f) false ss g args =
  (let* (vs, s1) := eval_args rt mt f false ss args in
   match bind_params (rd_params d) vs [] with
   | Some p =>
       match Sem.exec rt mt f false (s_with_locals s1 (Some p)) (rd_body d) with
       | ROk sig s2 => match sig with SigReturn v => ROk v (s_with_locals s2 (s_locals s1)) | _ => ROk VNone (s_with_locals s2 (s_locals s1)) end
       | RErr e s2 => RErr e s2
       | RFuel s2 => RFuel s2
       end
   | None => RErr (EInternal "arity") s1
   end).
Proof.
  intros Hb Hf.
  assert (E : call rt mt (S f) false ss g args =
    (let* (vs, s1) := eval_args rt mt f false ss args in
     match builtin_params g builtin_table with
     | Some ps => match bind_params ps vs [] with Some p => lift_res (call_builtin g p) s1 | None => RErr (EInternal "arity") s1 end
     | None =>
         match find_rdef rt g with
         | Some d =>
             match bind_params (rd_params d) vs [] with
             | Some p =>
                 match Sem.exec rt mt f false (s_with_locals s1 (Some p)) (rd_body d) with
                 | ROk sig s2 => match sig with SigReturn v => ROk v (s_with_locals s2 (s_locals s1)) | _ => ROk VNone (s_with_locals s2 (s_locals s1)) end
                 | RErr e s2 => RErr e s2
                 | RFuel s2 => RFuel s2
                 end
             | None => RErr (EInternal "arity") s1
             end
         | None => RErr (EInternal "call of a routine that does not exist") s1
         end
     end)) by reflexivity.
  rewrite E, Hb, Hf. reflexivity.
Qed.

(* a call of a built-in function: JSR computes the value, puts it into RESULT and comes back at once *)
Lemma call_builtin_sem f ss g args ps : builtin_params g builtin_table = Some ps ->
  call rt mt (S f) false ss g args =
  (let* (vs, s1) := eval_args rt mt f false ss args in
   match bind_params ps vs [] with Some p => lift_res (call_builtin g p) s1 | None => RErr (EInternal "arity") s1 end).
Proof.
  intros Hb.
  assert (E : call rt mt (S f) false ss g args =
    (let* (vs, s1) := eval_args rt mt f false ss args in
     match builtin_params g builtin_table with
     | Some ps => match bind_params ps vs [] with Some p => lift_res (call_builtin g p) s1 | None => RErr (EInternal "arity") s1 end
     | None =>
         match find_rdef rt g with
         | Some d =>
             match bind_params (rd_params d) vs [] with
             | Some p =>
                 match Sem.exec rt mt f false (s_with_locals s1 (Some p)) (rd_body d) with
                 | ROk sig s2 => match sig with SigReturn v => ROk v (s_with_locals s2 (s_locals s1)) | _ => ROk VNone (s_with_locals s2 (s_locals s1)) end
                 | RErr e s2 => RErr e s2
                 | RFuel s2 => RFuel s2
                 end
             | None => RErr (EInternal "arity") s1
             end
         | None => RErr (EInternal "call of a routine that does not exist") s1
         end
     end)) by reflexivity.
  rewrite E, Hb. reflexivity.
Qed.



(* what the theorem, at a smaller budget, says of the bodies of the routines *)
Definition body_sim (m : nat) : Prop :=
  forall f d, find_rdef rt f = Some d ->
  forall im ss s sig ss', routines_loaded im -> in_ret_ok true (m_frames s) -> in_depth_ok true s -> sim ss s ->
  code_at im (m_pc s) (c_stmt rt mt false None (rd_body d)) ->
  Sem.exec rt mt m false ss (rd_body d) = ROk sig ss' -> outcome true None im ss s sig ss' (c_stmt rt mt false None (rd_body d)).

(* ---- calls: the arguments may themselves be calls (one level: `f [g 1] 2`) ----
   [args_fact fuel args ps]: what running the code of the arguments establishes, the frame under construction on top.  The
   two lemmas about the call itself are stated for any arguments with that property; it is proved first for ordinary values
   ([args_fact0]), which gives the inner calls, then for ordinary values and inner calls ([args_run_gen]). *)
Definition args_fact (fuel : nat) (args : list rval) (ps : list string) : Prop :=
  forall im ss s p0 F vs ssa, routines_loaded im -> simr ss s -> m_unnamed s = [] -> m_frames s = FCall p0 false None :: F ->
  code_at im (m_pc s) (c_args ps args) -> eval_args rt mt fuel false ss args = ROk vs ssa ->
  exists n s' p1 evs, esteps n im s = Some (s', evs) /\ simr ssa s' /\ m_unnamed s' = [] /\ m_pc s' = m_pc s + zlength (c_args ps args) /\
                      m_frames s' = FCall p1 false None :: F /\ m_stack s' = m_stack s /\ bind_params ps vs p0 = Some p1 /\
                      rev (s_trace ssa) = rev (s_trace ss) ++ evs.

Lemma args_fact0 fuel args ps : plain_args0 args ps = true -> args_fact fuel args ps.
Proof.
  intros Hpl im ss s p0 F vs ssa _ Hsim Hun Hfr Hc He.
  destruct (args_run0 args ps Hpl fuel im ss s p0 F vs ssa Hsim Hfr Hc He) as [Hsa (n & s' & p1 & E & Hs' & Hpc & Hfr' & Hsk & Hb & Hun')]. subst ssa.
  exists n, s', p1, []. split; [exact E|]. split; [exact Hs'|]. split; [rewrite Hun'; exact Hun|]. split; [exact Hpc|]. split; [exact Hfr'|]. split; [exact Hsk|].
  split; [exact Hb|]. rewrite app_nil_r. reflexivity.
Qed.

(* the code of a call runs the routine and comes back behind its END_CTX with the stack and the frames it started with; when the
   routine left through a return, RESULT holds the value of the call *)
Lemma call_runs_gen fuel : body_sim fuel -> forall f args d, builtin_params f builtin_table = None -> find_rdef rt f = Some d ->
  args_fact fuel args (rd_params d) ->
  forall im ss s x ss', routines_loaded im -> simr ss s -> m_unnamed s = [] -> code_at im (m_pc s) (call_code d f args) ->
  call rt mt (S fuel) false ss f args = ROk x ss' ->
  exists n s' evs, esteps n im s = Some (s', evs) /\ simr ss' s' /\ m_unnamed s' = [] /\ m_pc s' = m_pc s + zlength (call_code d f args) /\
                   m_stack s' = m_stack s /\ m_frames s' = m_frames s /\ rev (s_trace ss') = rev (s_trace ss) ++ evs /\
                   (must_return (rd_body d) = true -> rf_get (m_regs s') R_RESULT = Some x).
Proof.
  intros Hbody f args d Hb Hf Hargs im ss s x ss' Hload Hsim Hun Hc He.
  rewrite (call_user fuel ss f args d Hb Hf) in He. unfold call_code in Hc |- *.
  set (ps := rd_params d) in *. set (CA := c_args ps args) in *. set (kA := zlength CA) in *.
  apply code_at_app in Hc. destruct Hc as [Hctx Hc]. cbn [code_at] in Hctx. destruct Hctx as [Hfc _]. rewrite zlength1 in Hc.
  apply code_at_app in Hc. destruct Hc as [HcA Hc]. fold kA in Hc. cbn [code_at] in Hc. destruct Hc as [Hfj [Hfe _]].
  destruct (eval_args rt mt fuel false ss args) as [vs sa|e sa|sa] eqn:Ea; cbn [sbind] in He; try discriminate.
  (* CTX *)
  set (F := m_frames s) in *.
  set (s1 := advance (with_frames s (FCall [] false None :: F))).
  assert (E1 : esteps 1 im s = Some (s1, [])) by (apply (estep1 im s _ _ _ Hfc); reflexivity).
  assert (Hs1 : simr ss s1).
  { destruct Hsim as [Hr Hfu Hg Hv Hw Hdf]. constructor; cbn [s1 advance with_pc with_frames with_vars m_regs m_globals m_frames m_world m_unnamed vars_of]; assumption. }
  (* the arguments *)
  assert (HcA1 : code_at im (m_pc s1) CA) by exact HcA.
  destruct (Hargs im ss s1 [] F vs sa Hload Hs1 Hun eq_refl HcA1 Ea) as (n2 & s2 & p1 & ea & E2 & Hs2 & Hun2 & Hpc2 & Hfr2 & Hst2 & Hbind & Hta).
  fold CA in Hpc2. fold kA in Hpc2. rewrite Hbind in He.
  assert (Hpc2' : m_pc s2 = m_pc s + 1 + kA) by (rewrite Hpc2; reflexivity).
  (* JSR *)
  destruct (Hload f d Hf) as (addr & rr & Hfind & Hbc).
  apply code_at_app in Hbc. destruct Hbc as [Hbcode Hbend]. cbn [code_at] in Hbend. destruct Hbend as [Hfend _].
  set (ret := m_pc s2 + 1).
  set (s3 := with_pc (with_frames s2 (FCall p1 true (Some ret) :: F)) addr).
  assert (E3 : esteps 1 im s2 = Some (s3, [])).
  { assert (Hfj' : fetch im (m_pc s2) = Some (I1 OC_JSR (PStr f))) by (rewrite Hpc2'; exact Hfj).
    apply (estep1 im s2 _ _ _ Hfj'). cbn [Machine.exec i_op i_p0 I1]. rewrite Hfr2, (not_builtin f Hb), Hfind. reflexivity. }
  set (ssb := s_with_locals sa (Some p1)) in *.
  assert (Hvars2 : vars_of F = s_locals sa).
  { pose proof (simr_vars _ _ Hs2) as Hv. rewrite Hfr2 in Hv. exact Hv. }
  assert (Hs3 : sim ssb s3).
  { destruct Hs2 as [Hr Hfu Hg Hv Hw Hdf].
    constructor; cbn [s3 ssb with_pc with_frames with_vars s_with_locals m_regs m_globals m_frames m_world m_unnamed s_regs s_globals s_locals s_world vars_of settled]; try assumption; reflexivity. }
  assert (Hct3 : call_tail (m_frames s3) = Some (ret, F)) by reflexivity.
  assert (Hd3 : in_depth_ok true s3) by (intros _; exact I).
  assert (Hir3 : in_ret_ok true (m_frames s3)) by (intros _; exists ret, F; exact Hct3).
  assert (Hbcode3 : code_at im (m_pc s3) (c_stmt rt mt false None (rd_body d))) by exact Hbcode.
  assert (Hfe' : fetch im ret = Some (I0 OC_END_CTX)).
  { unfold ret. rewrite Hpc2'. replace (m_pc s + 1 + kA + 1) with (m_pc s + 1 + kA + Z.of_nat 1) by lia. exact Hfe. }
  assert (Hlen : zlength ([I0 OC_CTX] ++ CA ++ [I1 OC_JSR (PStr f); I0 OC_END_CTX]) = 1 + kA + 2).
  { unfold zlength. rewrite !app_length, !Nat2Z.inj_add. cbn [length]. unfold kA, zlength. lia. }
  assert (Hstk : m_stack s3 = m_stack s) by exact Hst2.
  assert (E13 : esteps (1 + (n2 + 1)) im s = Some (s3, [] ++ (ea ++ []))) by (eapply esteps_app; [exact E1|eapply esteps_app; [exact E2|exact E3]]).
  destruct (Sem.exec rt mt fuel false ssb (rd_body d)) as [sgb sb|eb sb|sb] eqn:Eb; try discriminate.
  set (sfin := s_with_locals sb (s_locals sa)) in *.
  assert (Hss' : ss' = sfin) by (destruct sgb; injection He as H1 H2; congruence).
  subst ss'.
  rewrite Hlen.
  destruct (Hbody f d Hf im ssb s3 sgb sb Hload Hir3 Hd3 Hs3 Hbcode3 Eb)
    as [[Hsgb (n4 & s4 & e4 & E4 & Hs4 & Hpc4 & Hst4 & Ht4)]|[[Hsgb (a' & Ha' & _)]|[_ [v [Hsgb (ret' & F' & Hct' & n4 & s4 & e4 & E4 & Hr4 & Hpc4 & Hfr4 & Hst4 & Ht4)]]]]].
  + (* the body runs into END f: back to the END_CTX of the call *)
    destruct (fr_eq_facts s4 s3 Hst4) as [Hsk4 [Hct4 [Hdp4 Hrs4]]].
    assert (Hrs4' : ret_stack (m_frames s4) (m_stack s4) = m_stack s4) by (rewrite Hrs4, Hsk4; reflexivity).
    rewrite Hct3 in Hct4.
    set (s5 := with_pc (with_stack (with_frames s4 F) (m_stack s4)) ret).
    assert (E5 : esteps 1 im s4 = Some (s5, [])).
    { assert (Hfend' : fetch im (m_pc s4) = Some (I1 OC_END (PStr f))) by (rewrite Hpc4; exact Hfend).
      apply (estep1 im s4 _ _ _ Hfend'). cbn [Machine.exec i_op i_p0 I1]. rewrite (do_return_steps s4 ret F Hct4), Hrs4'. reflexivity. }
    set (s6 := advance s5).
    assert (E6 : esteps 1 im s5 = Some (s6, [])) by (apply (estep1 im s5 _ _ _ Hfe'); reflexivity).
    exists ((1 + (n2 + 1)) + (n4 + (1 + 1)))%nat, s6, (([] ++ (ea ++ [])) ++ (e4 ++ ([] ++ []))).
    split; [eapply esteps_app; [exact E13|eapply esteps_app; [exact E4|eapply esteps_app; [exact E5|exact E6]]]|].
    destruct Hs4 as [Hr Hfu Hg Hv Hse Hw Hu Hdf].
    split; [constructor; cbn [s6 s5 sfin advance with_pc with_stack with_frames with_vars s_with_locals m_regs m_globals m_frames m_world m_unnamed s_regs s_globals s_locals s_world]; assumption|].
    split; [exact Hu|].
    split; [change (m_pc s6) with (ret + 1); unfold ret; rewrite Hpc2'; lia|].
    split; [change (m_stack s6) with (m_stack s4); rewrite Hsk4, Hstk; reflexivity|].
    split; [reflexivity|].
    split; [cbn [app]; rewrite !app_nil_r; change (s_trace sfin) with (s_trace sb); rewrite Ht4; change (s_trace ssb) with (s_trace sa); rewrite Hta, app_assoc; reflexivity|].
    intros Hmr. exfalso. subst sgb. exact (proj1 (must_return_sound rt mt fuel) _ _ _ _ Hmr Eb eq_refl).
  + discriminate.
  + (* the body returns: the machine is behind the END_CTX already *)
    rewrite Hct3 in Hct'. injection Hct' as Hret' HF'. subst ret' F'.
    exists ((1 + (n2 + 1)) + n4)%nat, s4, (([] ++ (ea ++ [])) ++ e4).
    split; [eapply esteps_app; [exact E13|exact E4]|].
    destruct Hr4 as [(Hr & Hfu & Hg & Hw & Hu & Hdf) Hres4].
    split; [constructor; cbn [sfin s_with_locals s_regs s_globals s_locals s_world]; try assumption; rewrite Hfr4; assumption|].
    split; [exact Hu|].
    split; [rewrite Hpc4; unfold ret; rewrite Hpc2'; lia|].
    split; [rewrite Hst4; change (ret_stack (m_frames s3) (m_stack s3)) with (m_stack s3); exact Hstk|].
    split; [exact Hfr4|].
    split; [cbn [app]; rewrite app_nil_r; change (s_trace sfin) with (s_trace sb); rewrite Ht4; change (s_trace ssb) with (s_trace sa); rewrite Hta, app_assoc; reflexivity|].
    intros _. subst sgb. injection He as Hx. subst x. exact Hres4.
Qed.

(* a call of a built-in function: JSR computes the value, puts it into RESULT and comes back at once *)
Lemma builtin_runs_gen fuel f args ps : builtin_params f builtin_table = Some ps -> args_fact fuel args ps ->
  forall im ss s x ss', routines_loaded im -> simr ss s -> m_unnamed s = [] -> code_at im (m_pc s) (bcall_code ps f args) ->
  call rt mt (S fuel) false ss f args = ROk x ss' ->
  exists n s' evs, esteps n im s = Some (s', evs) /\ simr ss' s' /\ m_unnamed s' = [] /\ m_pc s' = m_pc s + zlength (bcall_code ps f args) /\
                   m_stack s' = m_stack s /\ m_frames s' = m_frames s /\ rev (s_trace ss') = rev (s_trace ss) ++ evs /\
                   rf_get (m_regs s') R_RESULT = Some x.
Proof.
  intros Hb Hargs im ss s x ss' Hload Hsim Hun Hc He.
  rewrite (call_builtin_sem fuel ss f args ps Hb) in He. unfold bcall_code in Hc |- *.
  set (CA := c_args ps args) in *. set (kA := zlength CA) in *.
  apply code_at_app in Hc. destruct Hc as [Hctx Hc]. cbn [code_at] in Hctx. destruct Hctx as [Hfc _]. rewrite zlength1 in Hc.
  apply code_at_app in Hc. destruct Hc as [HcA Hc]. fold kA in Hc. cbn [code_at] in Hc. destruct Hc as [Hfj [Hfe _]].
  destruct (eval_args rt mt fuel false ss args) as [vs sa|e sa|sa] eqn:Ea; cbn [sbind] in He; try discriminate.
  set (F := m_frames s) in *.
  set (s1 := advance (with_frames s (FCall [] false None :: F))).
  assert (E1 : esteps 1 im s = Some (s1, [])) by (apply (estep1 im s _ _ _ Hfc); reflexivity).
  assert (Hs1 : simr ss s1).
  { destruct Hsim as [Hr Hfu Hg Hv Hw Hdf]. constructor; cbn [s1 advance with_pc with_frames with_vars m_regs m_globals m_frames m_world m_unnamed vars_of]; assumption. }
  assert (HcA1 : code_at im (m_pc s1) CA) by exact HcA.
  destruct (Hargs im ss s1 [] F vs sa Hload Hs1 Hun eq_refl HcA1 Ea) as (n2 & s2 & p1 & ea & E2 & Hs2 & Hun2 & Hpc2 & Hfr2 & Hst2 & Hbind & Hta).
  fold CA in Hpc2. fold kA in Hpc2. rewrite Hbind in He.
  assert (Hpc2' : m_pc s2 = m_pc s + 1 + kA) by (rewrite Hpc2; reflexivity).
  destruct (call_builtin f p1) as [v|e] eqn:Ecb; cbn [lift_res] in He; [|discriminate]. injection He as Hx Hss. subst v ss'.
  set (ret := m_pc s2 + 1).
  set (sR := with_regs (with_frames s2 (FCall p1 true (Some ret) :: F)) (rf_set (m_regs s2) R_RESULT x)).
  set (s3 := with_pc (with_stack (with_frames sR F) (m_stack s2)) ret).
  assert (E3 : esteps 1 im s2 = Some (s3, [])).
  { assert (Hfj' : fetch im (m_pc s2) = Some (I1 OC_JSR (PStr f))) by (rewrite Hpc2'; exact Hfj).
    apply (estep1 im s2 _ _ _ Hfj'). cbn [Machine.exec i_op i_p0 I1]. rewrite Hfr2, (yes_builtin f ps Hb), Ecb. cbn [set_reg].
    fold ret. change (with_regs (with_frames s2 (FCall p1 true (Some ret) :: F)) (rf_set (m_regs (with_frames s2 (FCall p1 true (Some ret) :: F))) R_RESULT x)) with sR.
    assert (HctR : call_tail (m_frames sR) = Some (ret, F)) by reflexivity.
    rewrite (do_return_steps sR ret F HctR). reflexivity. }
  set (s4 := advance s3).
  assert (Hfe' : fetch im ret = Some (I0 OC_END_CTX)).
  { unfold ret. rewrite Hpc2'. replace (m_pc s + 1 + kA + 1) with (m_pc s + 1 + kA + Z.of_nat 1) by lia. exact Hfe. }
  assert (E4 : esteps 1 im s3 = Some (s4, [])) by (apply (estep1 im s3 _ _ _ Hfe'); reflexivity).
  exists (1 + (n2 + (1 + 1)))%nat, s4, ([] ++ (ea ++ ([] ++ []))).
  split; [eapply esteps_app; [exact E1|eapply esteps_app; [exact E2|eapply esteps_app; [exact E3|exact E4]]]|].
  split.
  { destruct Hs2 as [Hr Hfu Hg Hv Hw Hdf].
    constructor; cbn [s4 s3 sR advance with_pc with_stack with_frames with_regs with_vars m_regs m_globals m_frames m_world m_unnamed]; try assumption.
    - apply agree_set_hidden; [exact Hr|reflexivity].
    - rewrite Hfr2 in Hv. exact Hv.
    - rewrite rf_get_set_other; [exact Hdf|reflexivity]. }
  split; [exact Hun2|].
  split.
  { change (m_pc s4) with (ret + 1). unfold ret. rewrite Hpc2'. unfold zlength. rewrite !app_length, !Nat2Z.inj_add. cbn [length]. unfold kA, zlength. lia. }
  split; [exact Hst2|]. split; [reflexivity|].
  split; [cbn [app]; rewrite !app_nil_r; exact Hta|].
  cbn [s4 s3 sR advance with_pc with_stack with_frames with_regs m_regs]. apply rf_get_set_same.
Qed.

(* the arguments: ordinary values, or calls (of a built-in function, or of a routine that always returns) with ordinary values *)
Lemma args_run_gen : forall args ps fuel, (forall k, (k < fuel)%nat -> body_sim k) -> plain_args args ps = true -> args_fact fuel args ps.
Proof.
  induction args as [|a r IH]; intros ps fuel Hbs Hpl im ss s p0 F vs ssa Hload Hsim Hun Hfr Hc He; destruct ps as [|p ps]; cbn [plain_args] in Hpl; try discriminate.
  - destruct fuel as [|fuel]; [discriminate|]. rewrite eval_args_nil in He. injection He as Hvs Hss. subst vs ssa.
    exists 0%nat, s, p0, []. split; [reflexivity|]. split; [exact Hsim|]. split; [exact Hun|]. split; [cbn [c_args]; unfold zlength; cbn; lia|]. split; [exact Hfr|].
    split; [reflexivity|]. split; [reflexivity|]. rewrite app_nil_r. reflexivity.
  - apply andb_true_iff in Hpl. destruct Hpl as [Ha Hr].
    destruct fuel as [|fuel]; [discriminate|]. rewrite eval_args_S in He.
    destruct (eval_rval rt mt fuel false ss a) as [v s1|e s1|s1] eqn:Ev; cbn [sbind] in He; try discriminate.
    destruct (eval_args rt mt fuel false s1 r) as [vs' s2|e s2|s2] eqn:Er; cbn [sbind] in He; try discriminate.
    injection He as Hvs Hss. subst vs ssa.
    cbn [c_args] in Hc |- *. apply code_at_app in Hc. destruct Hc as [Hca Hc]. apply code_at_app in Hc. destruct Hc as [Hcp Hcr].
    cbn [code_at] in Hcp. destruct Hcp as [Hfp _]. rewrite zlength1 in Hcr.
    set (k := zlength (c_rval rt mt a (DReg R_RESULT))) in *.
    (* the value of the argument arrives in RESULT *)
    assert (Hval : exists n1 sa e1, esteps n1 im s = Some (sa, e1) /\ simr s1 sa /\ m_unnamed sa = [] /\ m_pc sa = m_pc s + k /\
                                    m_frames sa = m_frames s /\ m_stack sa = m_stack s /\ rf_get (m_regs sa) R_RESULT = Some v /\
                                    rev (s_trace s1) = rev (s_trace ss) ++ e1).
    { destruct (plain_rval mt a) eqn:Epl.
      - destruct (c_rval_runs_r rt mt a (DReg R_RESULT) Epl (plain_ok_result mt a Epl) im ss s v s1 fuel Hsim Hca Ev) as [Hs1 [n Hn]]. subst s1.
        exists n, (put_vm s (DReg R_RESULT) v k), []. split; [exact Hn|]. split; [apply simr_put_reg_hidden; [exact Hsim|reflexivity|reflexivity]|].
        split; [exact Hun|]. split; [reflexivity|]. split; [reflexivity|]. split; [reflexivity|]. split; [apply rf_get_set_same|]. rewrite app_nil_r. reflexivity.
      - cbn [orb] in Ha. destruct a as [l|l|m|m|y|rg|e|g args']; try discriminate. cbn [inner_call] in Ha.
        destruct fuel as [|f1]; [discriminate|]. rewrite eval_rval_S in Ev. destruct f1 as [|f2]; [discriminate|].
        destruct (builtin_params g builtin_table) as [qs|] eqn:Eb.
        + assert (Hcode : c_rval rt mt (RCall g args') (DReg R_RESULT) = bcall_code qs g args') by (rewrite (c_rcall_builtin g args' qs _ Eb), app_nil_r; reflexivity).
          unfold k in *. rewrite Hcode in *.
          destruct (builtin_runs_gen f2 g args' qs Eb (args_fact0 f2 args' qs Ha) im ss s v s1 Hload Hsim Hun Hca Ev)
            as (n & sa & e1 & E & Hsa & Huna & Hpca & Hska & Hfra & Hta & Hres).
          exists n, sa, e1. split; [exact E|]. split; [exact Hsa|]. split; [exact Huna|]. split; [exact Hpca|]. split; [exact Hfra|]. split; [exact Hska|].
          split; [exact Hres|exact Hta].
        + destruct (find_rdef rt g) as [d|] eqn:Ef; [|discriminate]. apply andb_true_iff in Ha. destruct Ha as [Ha Hm].
          assert (Hcode : c_rval rt mt (RCall g args') (DReg R_RESULT) = call_code d g args') by (rewrite (c_rcall g args' d _ Eb Ef), app_nil_r; reflexivity).
          unfold k in *. rewrite Hcode in *.
          destruct (call_runs_gen f2 (Hbs f2 ltac:(lia)) g args' d Eb Ef (args_fact0 f2 args' (rd_params d) Ha) im ss s v s1 Hload Hsim Hun Hca Ev)
            as (n & sa & e1 & E & Hsa & Huna & Hpca & Hska & Hfra & Hta & Hres).
          exists n, sa, e1. split; [exact E|]. split; [exact Hsa|]. split; [exact Huna|]. split; [exact Hpca|]. split; [exact Hfra|]. split; [exact Hska|].
          split; [exact (Hres Hm)|exact Hta]. }
    destruct Hval as (n1 & sa & e1 & Ea1 & Hsa & Huna & Hpca & Hfra & Hska & Hresa & Hta).
    set (sb := advance (with_frames sa (FCall (env_set p0 p v) false None :: F))).
    assert (Eb : esteps 1 im sa = Some (sb, [])).
    { assert (Hfp' : fetch im (m_pc sa) = Some (I2 OC_PARAM (PStr p) (PReg R_RESULT))) by (rewrite Hpca; exact Hfp).
      apply (estep1 im sa _ _ _ Hfp'). cbn [Machine.exec i_op i_p0 i_p1 I2].
      assert (Hg : get_reg sa R_RESULT = Ok v) by (unfold get_reg; rewrite Hresa; reflexivity).
      rewrite Hg. cbn [bind]. rewrite Hfra, Hfr. reflexivity. }
    assert (Hsb : simr s1 sb).
    { destruct Hsa as [Hr' Hf' Hg' Hv' Hw' Hdf]. constructor; cbn [sb advance with_pc with_frames with_vars m_regs m_globals m_frames m_world m_unnamed]; try assumption.
      rewrite Hfra, Hfr in Hv'. exact Hv'. }
    assert (Hcr' : code_at im (m_pc sb) (c_args ps r)) by (change (m_pc sb) with (m_pc sa + 1); rewrite Hpca; exact Hcr).
    destruct (IH ps fuel (fun j Hj => Hbs j ltac:(lia)) Hr im s1 sb (env_set p0 p v) F vs' s2 Hload Hsb Huna eq_refl Hcr' Er)
      as (n2 & s' & p1 & e2 & E2 & Hs' & Hun' & Hpc' & Hfr' & Hst' & Hb & Ht2).
    exists (n1 + (1 + n2))%nat, s', p1, (e1 ++ ([] ++ e2)).
    split; [eapply esteps_app; [exact Ea1|eapply esteps_app; [exact Eb|exact E2]]|].
    split; [exact Hs'|]. split; [exact Hun'|].
    split; [rewrite Hpc'; change (m_pc sb) with (m_pc sa + 1); rewrite Hpca; unfold zlength; rewrite !app_length, !Nat2Z.inj_add; cbn [length]; unfold k, zlength; lia|].
    split; [exact Hfr'|]. split; [rewrite Hst'; change (m_stack sb) with (m_stack sa); exact Hska|]. split; [cbn [bind_params]; exact Hb|].
    cbn [app]. rewrite Ht2, Hta, app_assoc. reflexivity.
Qed.

(* the two lemmas at the level of the theorem: corresponding states before and after *)
Lemma call_runs fuel : (forall k, (k <= fuel)%nat -> body_sim k) -> forall f args d, builtin_params f builtin_table = None -> find_rdef rt f = Some d ->
  plain_args args (rd_params d) = true ->
  forall im ss s x ss', routines_loaded im -> sim ss s -> code_at im (m_pc s) (call_code d f args) ->
  call rt mt (S fuel) false ss f args = ROk x ss' ->
  exists n s' evs, esteps n im s = Some (s', evs) /\ sim ss' s' /\ m_pc s' = m_pc s + zlength (call_code d f args) /\
                   (m_stack s', fr s') = (m_stack s, fr s) /\ rev (s_trace ss') = rev (s_trace ss) ++ evs /\
                   (must_return (rd_body d) = true -> rf_get (m_regs s') R_RESULT = Some x).
Proof.
  intros Hbs f args d Hb Hf Hpl im ss s x ss' Hload Hsim Hc He.
  destruct (call_runs_gen fuel (Hbs fuel (le_n _)) f args d Hb Hf (args_run_gen args (rd_params d) fuel (fun k Hk => Hbs k ltac:(lia)) Hpl)
              im ss s x ss' Hload (sim_simr _ _ Hsim) (sim_unnamed _ _ Hsim) Hc He) as (n & s' & evs & E & Hs' & Hun' & Hpc & Hsk & Hfr & Ht & Hres).
  exists n, s', evs. split; [exact E|].
  split; [destruct Hs' as [H1 H2 H3 H4 H5 H6]; constructor; try assumption; rewrite Hfr; exact (sim_settled _ _ Hsim)|].
  split; [exact Hpc|]. split; [unfold fr; rewrite Hsk, Hfr; reflexivity|]. split; [exact Ht|exact Hres].
Qed.
Lemma builtin_runs fuel : (forall k, (k <= fuel)%nat -> body_sim k) -> forall f args ps, builtin_params f builtin_table = Some ps -> plain_args args ps = true ->
  forall im ss s x ss', routines_loaded im -> sim ss s -> code_at im (m_pc s) (bcall_code ps f args) ->
  call rt mt (S fuel) false ss f args = ROk x ss' ->
  exists n s' evs, esteps n im s = Some (s', evs) /\ sim ss' s' /\ m_pc s' = m_pc s + zlength (bcall_code ps f args) /\
                   (m_stack s', fr s') = (m_stack s, fr s) /\ rev (s_trace ss') = rev (s_trace ss) ++ evs /\
                   rf_get (m_regs s') R_RESULT = Some x.
Proof.
  intros Hbs f args ps Hb Hpl im ss s x ss' Hload Hsim Hc He.
  destruct (builtin_runs_gen fuel f args ps Hb (args_run_gen args ps fuel (fun k Hk => Hbs k ltac:(lia)) Hpl)
              im ss s x ss' Hload (sim_simr _ _ Hsim) (sim_unnamed _ _ Hsim) Hc He) as (n & s' & evs & E & Hs' & Hun' & Hpc & Hsk & Hfr & Ht & Hres).
  exists n, s', evs. split; [exact E|].
  split; [destruct Hs' as [H1 H2 H3 H4 H5 H6]; constructor; try assumption; rewrite Hfr; exact (sim_settled _ _ Hsim)|].
  split; [exact Hpc|]. split; [unfold fr; rewrite Hsk, Hfr; reflexivity|]. split; [exact Ht|exact Hres].
Qed.



(* the code of the expression runs to the instruction behind it with the value on top of the stack *)
Definition push_to (im : image) (ss : sstate) (s : mstate) (x : value) (ss1 : sstate) (k : Z) : Prop :=
  exists n s' evs, esteps n im s = Some (s', evs) /\ sim ss1 s' /\ m_pc s' = m_pc s + k /\ m_stack s' = x :: m_stack s /\ fr s' = fr s /\
                   rev (s_trace ss1) = rev (s_trace ss) ++ evs.

Lemma operand_value_ok v s x s1 : operand_value v s = ROk x s1 -> x = v /\ s1 = s /\ v <> VNone.
Proof. destruct v; cbn [operand_value]; intros H; try discriminate; injection H as <- <-; (split; [reflexivity|split; [reflexivity|discriminate]]). Qed.

Lemma push_result im ss s v : sim ss s -> rf_get (m_regs s) R_RESULT = Some v -> v <> VNone ->
  fetch im (m_pc s) = Some (I1 OC_PUSH (PReg R_RESULT)) ->
  esteps 1 im s = Some (advance (with_stack s (v :: m_stack s)), []) /\ sim ss (advance (with_stack s (v :: m_stack s))).
Proof.
  intros Hsim Hr Hn Hf. split; [exact (push_step im s (PReg R_RESULT) v Hf Hr Hn)|].
  destruct Hsim as [H1 H2 H3 H4 H5 H6 H7 H8]. constructor; assumption.
Qed.

Lemma pop_step im s d x st : ok_dest d (RLit (LInt 0)) = true -> m_stack s = x :: st -> fetch im (m_pc s) = Some (I1 OC_POP (dest_param d)) ->
  esteps 1 im s = Some (put_vm (with_stack s st) d x 1, []).
Proof.
  intros Hd0 Hs Hf. apply (estep1 im s _ _ _ Hf). cbn [Machine.exec i_op i_p0 I1]. unfold pop1. rewrite Hs. cbn [bind].
  pose proof (lift_put (with_stack s st) d x Hd0) as Hl.
  destruct d as [r|y|lv|]; cbn [ok_dest] in Hd0; try discriminate; cbn [dest_param] in *; exact Hl.
Qed.

Lemma use_pop_runs u im ss s x st : use_ok u = true -> sim ss s -> m_stack s = x :: st -> code_at im (m_pc s) (use_pop u) ->
  exists n s' evs, esteps n im s = Some (s', evs) /\ sim (use_sem u x ss) s' /\ m_pc s' = m_pc s + zlength (use_pop u) /\
                   m_stack s' = st /\ fr s' = fr s /\ rev (s_trace (use_sem u x ss)) = rev (s_trace ss) ++ evs.
Proof.
  intros Hok Hsim Hsk Hc. pose proof (sim_with_stack ss s st Hsim) as Hsim0.
  destruct u as [y|r|nl]; cbn [use_pop use_sem use_ok] in *.
  - cbn [code_at] in Hc. destruct Hc as [Hf _].
    exists 1%nat, (put_vm (with_stack s st) (DVar y) x 1), []. split; [exact (pop_step im s (DVar y) x st eq_refl Hsk Hf)|].
    split; [apply sim_put_var; exact Hsim0|]. split; [rewrite put_vm_var_pc, zlength1; reflexivity|].
    pose proof (put_vm_var_stack_fr (with_stack s st) y x 1 (sim_settled _ _ Hsim0)) as Hsf. injection Hsf as H1 H2.
    split; [exact H1|]. split; [exact H2|]. rewrite app_nil_r. destruct (assign_other_fields ss y x) as [_ [_ Et]]. rewrite Et. reflexivity.
  - cbn [code_at] in Hc. destruct Hc as [Hf _].
    assert (Hd0 : ok_dest (DReg r) (RLit (LInt 0)) = true) by (destruct r; try discriminate; reflexivity).
    exists 1%nat, (put_vm (with_stack s st) (DReg r) x 1), []. split; [exact (pop_step im s (DReg r) x st Hd0 Hsk Hf)|].
    split; [apply sim_put_reg_visible; [exact Hsim0|apply script_reg_visible; exact Hok]|]. split; [rewrite zlength1; reflexivity|].
    split; [reflexivity|]. split; [reflexivity|]. rewrite app_nil_r. reflexivity.
  - apply code_at_app in Hc. destruct Hc as [Hpop Hct]. cbn [code_at] in Hpop. destruct Hpop as [Hf _].
    set (s1 := put_vm (with_stack s st) (DReg R_RESULT) x 1).
    assert (E1 : esteps 1 im s = Some (s1, [])) by exact (pop_step im s (DReg R_RESULT) x st eq_refl Hsk Hf).
    assert (Hs1 : sim ss s1) by (apply sim_put_reg_hidden; [exact Hsim0|reflexivity|reflexivity]).
    assert (Hr1 : rf_get (m_regs s1) R_RESULT = Some x) by apply rf_get_set_same.
    assert (Hct1 : code_at im (m_pc s1) (use_tail (UPrint nl))) by exact Hct.
    destruct (use_tail_runs (UPrint nl) im ss s1 x eq_refl Hs1 Hr1 Hct1) as (n2 & s2 & e2 & E2 & Hs2 & Hpc2 & Hsf2 & Ht2).
    injection Hsf2 as H1 H2.
    exists (1 + n2)%nat, s2, ([] ++ e2). split; [eapply esteps_app; eassumption|]. split; [exact Hs2|].
    split; [rewrite Hpc2; unfold s1; cbn [put_vm with_stack m_pc]; unfold zlength; rewrite app_length, Nat2Z.inj_add; cbn [length]; lia|].
    split; [rewrite H1; reflexivity|]. split; [rewrite H2; reflexivity|]. exact Ht2.
Qed.

Lemma cexpr_runs e : CExpr e -> forall fuel, (forall k, (k < fuel)%nat -> body_sim k) ->
  forall im ss s x ss1, routines_loaded im -> sim ss s -> code_at im (m_pc s) (c_expr rt mt e) ->
  eval_expr rt mt fuel false ss e = ROk x ss1 -> push_to im ss s x ss1 (zlength (c_expr rt mt e)).
Proof.
  induction 1 as [e Hs Hv|f args d Hb Hf Hp Hm|f args ps Hb Hp|op a b _ IHa _ IHb|a _ IHa|a _ IHa|a _ IHa];
    intros fuel Hbs im ss s x ss1 Hload Hsim Hc He.
  - (* no call inside: ExprCompile *)
    destruct (eval_expr_ok rt mt e Hs fuel false ss x ss1 He) as [Hs1 Ep]. subst ss1.
    rewrite <- (peval_sim mt e ss s Hsim Hs Hv) in Ep.
    destruct (c_expr_pushes_value rt mt e Hs im s x Hc Ep) as [n Hn].
    exists n, (pushed s x (zlength (c_expr rt mt e))), []. split; [apply steps_esteps; exact Hn|].
    split; [destruct Hsim as [H1 H2 H3 H4 H5 H6 H7 H8]; constructor; assumption|].
    split; [reflexivity|]. split; [reflexivity|]. split; [reflexivity|]. rewrite app_nil_r. reflexivity.
  - (* a call of a routine *)
    destruct fuel as [|[|fuel]]; try discriminate.
    change (eval_expr rt mt (S (S fuel)) false ss (ECall f args)) with (let* (v, s1) := call rt mt (S fuel) false ss f args in operand_value v s1) in He.
    destruct (call rt mt (S fuel) false ss f args) as [v s1|e s1|s1] eqn:Ecall; cbn [sbind] in He; try discriminate.
    destruct (operand_value_ok v s1 x ss1 He) as [-> [-> Hn]].
    rewrite (c_ecall f args d Hb Hf) in *. apply code_at_app in Hc. destruct Hc as [Hcc Hpush]. cbn [code_at] in Hpush. destruct Hpush as [Hfp _].
    destruct (call_runs fuel (fun k Hk => Hbs k ltac:(lia)) f args d Hb Hf Hp im ss s v s1 Hload Hsim Hcc Ecall) as (n & s' & evs & E & Hs' & Hpc & Hsf & Ht & Hres).
    assert (Hfp' : fetch im (m_pc s') = Some (I1 OC_PUSH (PReg R_RESULT))) by (rewrite Hpc; exact Hfp).
    destruct (push_result im s1 s' v Hs' (Hres Hm) Hn Hfp') as [E2 Hs2].
    injection Hsf as Hsk Hfr.
    exists (n + 1)%nat, (advance (with_stack s' (v :: m_stack s'))), (evs ++ []). split; [eapply esteps_app; eassumption|]. split; [exact Hs2|].
    split; [cbn [advance with_pc with_stack m_pc]; rewrite Hpc; unfold zlength; rewrite app_length, Nat2Z.inj_add; cbn [length]; lia|].
    split; [cbn [advance with_pc with_stack m_stack]; rewrite Hsk; reflexivity|]. split; [exact Hfr|]. rewrite app_nil_r. exact Ht.
  - (* a built-in function *)
    destruct fuel as [|[|fuel]]; try discriminate.
    change (eval_expr rt mt (S (S fuel)) false ss (ECall f args)) with (let* (v, s1) := call rt mt (S fuel) false ss f args in operand_value v s1) in He.
    destruct (call rt mt (S fuel) false ss f args) as [v s1|e s1|s1] eqn:Ecall; cbn [sbind] in He; try discriminate.
    destruct (operand_value_ok v s1 x ss1 He) as [-> [-> Hn]].
    rewrite (c_ecall_builtin f args ps Hb) in *. apply code_at_app in Hc. destruct Hc as [Hcc Hpush]. cbn [code_at] in Hpush. destruct Hpush as [Hfp _].
    destruct (builtin_runs fuel (fun k Hk => Hbs k ltac:(lia)) f args ps Hb Hp im ss s v s1 Hload Hsim Hcc Ecall) as (n & s' & evs & E & Hs' & Hpc & Hsf & Ht & Hres).
    assert (Hfp' : fetch im (m_pc s') = Some (I1 OC_PUSH (PReg R_RESULT))) by (rewrite Hpc; exact Hfp).
    destruct (push_result im s1 s' v Hs' Hres Hn Hfp') as [E2 Hs2].
    injection Hsf as Hsk Hfr.
    exists (n + 1)%nat, (advance (with_stack s' (v :: m_stack s'))), (evs ++ []). split; [eapply esteps_app; eassumption|]. split; [exact Hs2|].
    split; [cbn [advance with_pc with_stack m_pc]; rewrite Hpc; unfold zlength; rewrite app_length, Nat2Z.inj_add; cbn [length]; lia|].
    split; [cbn [advance with_pc with_stack m_stack]; rewrite Hsk; reflexivity|]. split; [exact Hfr|]. rewrite app_nil_r. exact Ht.
  - (* a op b *)
    destruct fuel as [|fuel]; [discriminate|].
    change (eval_expr rt mt (S fuel) false ss (EBin op a b)) with
      (let* (xa, s1) := eval_expr rt mt fuel false ss a in let* (xb, s2) := eval_expr rt mt fuel false s1 b in lift_res (eval_binop (binop_operator op) xa xb) s2) in He.
    destruct (eval_expr rt mt fuel false ss a) as [xa sa|e sa|sa] eqn:Ea; cbn [sbind] in He; try discriminate.
    destruct (eval_expr rt mt fuel false sa b) as [xb sb|e sb|sb] eqn:Eb; cbn [sbind] in He; try discriminate.
    destruct (eval_binop (binop_operator op) xa xb) as [r|e] eqn:Eop; cbn [lift_res] in He; [|discriminate]. injection He as <- <-.
    cbn [c_expr] in Hc |- *. apply code_at_app in Hc. destruct Hc as [Hca Hc]. apply code_at_app in Hc. destruct Hc as [Hcb Hop].
    cbn [code_at] in Hop. destruct Hop as [Hfop _].
    assert (Hbs' : forall k, (k < fuel)%nat -> body_sim k) by (intros k Hk; apply Hbs; lia).
    destruct (IHa fuel Hbs' im ss s xa sa Hload Hsim Hca Ea) as (n1 & s1 & e1 & E1 & Hs1 & Hpc1 & Hsk1 & Hfr1 & Ht1).
    assert (Hcb' : code_at im (m_pc s1) (c_expr rt mt b)) by (rewrite Hpc1; exact Hcb).
    destruct (IHb fuel Hbs' im sa s1 xb sb Hload Hs1 Hcb' Eb) as (n2 & s2 & e2 & E2 & Hs2 & Hpc2 & Hsk2 & Hfr2 & Ht2).
    assert (Hfop' : fetch im (m_pc s2) = Some (I1 OC_OP (POperator (binop_operator op)))).
    { rewrite Hpc2, Hpc1. replace (m_pc s + zlength (c_expr rt mt a) + zlength (c_expr rt mt b)) with (m_pc s + zlength (c_expr rt mt a) + zlength (c_expr rt mt b)) by reflexivity. exact Hfop. }
    assert (Hsk2' : m_stack s2 = xb :: xa :: m_stack s) by (rewrite Hsk2, Hsk1; reflexivity).
    pose proof (binop_step im s2 (binop_operator op) xa xb (m_stack s) r Hfop' (binop_not_unary op) Hsk2' Eop) as E3.
    exists (n1 + (n2 + 1))%nat, (advance (with_stack s2 (r :: m_stack s))), (e1 ++ (e2 ++ [])).
    split; [eapply esteps_app; [exact E1|eapply esteps_app; [exact E2|exact E3]]|].
    split; [destruct Hs2 as [H1 H2 H3 H4 H5 H6 H7 H8]; constructor; assumption|].
    split; [cbn [advance with_pc with_stack m_pc]; rewrite Hpc2, Hpc1; unfold zlength; rewrite !app_length, !Nat2Z.inj_add; cbn [length]; lia|].
    split; [reflexivity|]. split; [change (fr (advance (with_stack s2 (r :: m_stack s)))) with (fr s2); rewrite Hfr2; exact Hfr1|].
    rewrite app_nil_r, Ht2, Ht1, app_assoc. reflexivity.
  - (* - a *)
    destruct fuel as [|fuel]; [discriminate|].
    change (eval_expr rt mt (S fuel) false ss (ENeg a)) with (let* (xa, s1) := eval_expr rt mt fuel false ss a in lift_res (neg_value xa) s1) in He.
    destruct (eval_expr rt mt fuel false ss a) as [xa sa|e sa|sa] eqn:Ea; cbn [sbind] in He; try discriminate.
    destruct (neg_value xa) as [r|e] eqn:Eop; cbn [lift_res] in He; [|discriminate]. injection He as <- <-.
    cbn [c_expr] in Hc |- *. apply code_at_app in Hc. destruct Hc as [Hca Hc]. cbn [code_at] in Hc. destruct Hc as [Hf1 [Hf2 _]].
    assert (Hbs' : forall k, (k < fuel)%nat -> body_sim k) by (intros k Hk; apply Hbs; lia).
    destruct (IHa fuel Hbs' im ss s xa sa Hload Hsim Hca Ea) as (n1 & s1 & e1 & E1 & Hs1 & Hpc1 & Hsk1 & Hfr1 & Ht1).
    assert (Hf1' : fetch im (m_pc s1) = Some (push_of (PInt (-1)))) by (rewrite Hpc1; exact Hf1).
    pose proof (push_step im s1 (PInt (-1)) (VInt (-1)) Hf1' eq_refl ltac:(discriminate)) as E2.
    set (s2 := advance (with_stack s1 (VInt (-1) :: m_stack s1))) in *.
    assert (Hf2' : fetch im (m_pc s2) = Some (I1 OC_OP (POperator OP_MUL))).
    { unfold s2. cbn [advance with_pc with_stack m_pc]. rewrite Hpc1. replace (m_pc s + zlength (c_expr rt mt a) + 1) with (m_pc s + zlength (c_expr rt mt a) + Z.of_nat 1) by lia. exact Hf2. }
    assert (Hsk2 : m_stack s2 = VInt (-1) :: xa :: m_stack s) by (unfold s2; cbn [advance with_pc with_stack m_stack]; rewrite Hsk1; reflexivity).
    pose proof (binop_step im s2 OP_MUL xa (VInt (-1)) (m_stack s) r Hf2' eq_refl Hsk2 Eop) as E3.
    exists (n1 + (1 + 1))%nat, (advance (with_stack s2 (r :: m_stack s))), (e1 ++ ([] ++ [])).
    split; [eapply esteps_app; [exact E1|eapply esteps_app; [exact E2|exact E3]]|].
    split; [destruct Hs1 as [H1 H2 H3 H4 H5 H6 H7 H8]; constructor; assumption|].
    split; [unfold s2; cbn [advance with_pc with_stack m_pc]; rewrite Hpc1; unfold zlength; rewrite !app_length, !Nat2Z.inj_add; cbn [length]; lia|].
    split; [reflexivity|]. split; [change (fr (advance (with_stack s2 (r :: m_stack s)))) with (fr s1); exact Hfr1|].
    cbn [app]. rewrite app_nil_r. exact Ht1.
  - (* + a *)
    destruct fuel as [|fuel]; [discriminate|]. change (eval_expr rt mt (S fuel) false ss (EPos a)) with (eval_expr rt mt fuel false ss a) in He.
    exact (IHa fuel (fun k Hk => Hbs k ltac:(lia)) im ss s x ss1 Hload Hsim Hc He).
  - (* ( a ) *)
    destruct fuel as [|fuel]; [discriminate|]. change (eval_expr rt mt (S fuel) false ss (EParen a)) with (eval_expr rt mt fuel false ss a) in He.
    exact (IHa fuel (fun k Hk => Hbs k ltac:(lia)) im ss s x ss1 Hload Hsim Hc He).
Qed.

(* a value in the place of a condition arrives in RESULT *)
Lemma val_runs v : ValOk v -> forall fuel, (forall k, (k < fuel)%nat -> body_sim k) -> forall im ss s x ss1, routines_loaded im -> sim ss s ->
  code_at im (m_pc s) (c_rval rt mt v (DReg R_RESULT)) -> eval_rval rt mt fuel false ss v = ROk x ss1 ->
  exists n s' evs, esteps n im s = Some (s', evs) /\ sim ss1 s' /\ m_pc s' = m_pc s + zlength (c_rval rt mt v (DReg R_RESULT)) /\
                   (m_stack s', fr s') = (m_stack s, fr s) /\ rev (s_trace ss1) = rev (s_trace ss) ++ evs /\ rf_get (m_regs s') R_RESULT = Some x.
Proof.
  intros [v0 Hp|f args d Hb Hf Hp Hm|f args ps Hb Hp|e He0] fuel Hbs im ss s x ss1 Hload Hsim Hc He.
  - destruct (c_rval_runs rt mt v0 (DReg R_RESULT) Hp (plain_ok_result mt v0 Hp) im ss s x ss1 fuel Hsim Hc He) as [Hs1 [n Hn]]. subst ss1.
    exists n, (put_vm s (DReg R_RESULT) x (zlength (c_rval rt mt v0 (DReg R_RESULT)))), []. split; [exact Hn|].
    split; [apply sim_put_reg_hidden; [exact Hsim|reflexivity|reflexivity]|]. split; [reflexivity|]. split; [reflexivity|]. split; [rewrite app_nil_r; reflexivity|apply rf_get_set_same].
  - destruct fuel as [|f1]; [discriminate|]. rewrite eval_rval_S in He. destruct f1 as [|f2]; [discriminate|].
    rewrite (c_rcall f args d _ Hb Hf), app_nil_r in *.
    destruct (call_runs f2 (fun k Hk => Hbs k ltac:(lia)) f args d Hb Hf Hp im ss s x ss1 Hload Hsim Hc He) as (n & s' & evs & E & Hs' & Hpc & Hsf & Ht & Hres).
    exists n, s', evs. split; [exact E|]. split; [exact Hs'|]. split; [exact Hpc|]. split; [exact Hsf|]. split; [exact Ht|exact (Hres Hm)].
  - destruct fuel as [|f1]; [discriminate|]. rewrite eval_rval_S in He. destruct f1 as [|f2]; [discriminate|].
    rewrite (c_rcall_builtin f args ps _ Hb), app_nil_r in *.
    destruct (builtin_runs f2 (fun k Hk => Hbs k ltac:(lia)) f args ps Hb Hp im ss s x ss1 Hload Hsim Hc He) as (n & s' & evs & E & Hs' & Hpc & Hsf & Ht & Hres).
    exists n, s', evs. split; [exact E|]. split; [exact Hs'|]. split; [exact Hpc|]. split; [exact Hsf|]. split; [exact Ht|exact Hres].
  - destruct fuel as [|f1]; [discriminate|]. rewrite eval_rval_S in He. rewrite c_rval_expr in *.
    apply code_at_app in Hc. destruct Hc as [Hce Hpop]. cbn [code_at] in Hpop. destruct Hpop as [Hfpop _].
    destruct (cexpr_runs e He0 f1 (fun k Hk => Hbs k ltac:(lia)) im ss s x ss1 Hload Hsim Hce He) as (n & s' & evs & E & Hs' & Hpc & Hsk & Hfr & Ht).
    assert (Hfpop' : fetch im (m_pc s') = Some (I1 OC_POP (dest_param (DReg R_RESULT)))) by (rewrite Hpc; exact Hfpop).
    set (sp := put_vm (with_stack s' (m_stack s)) (DReg R_RESULT) x 1).
    assert (Ep : esteps 1 im s' = Some (sp, [])) by exact (pop_step im s' (DReg R_RESULT) x (m_stack s) eq_refl Hsk Hfpop').
    exists (n + 1)%nat, sp, (evs ++ []). split; [eapply esteps_app; eassumption|].
    split; [apply sim_put_reg_hidden; [apply sim_with_stack; exact Hs'|reflexivity|reflexivity]|].
    split; [unfold sp; cbn [put_vm with_stack m_pc]; rewrite Hpc; unfold zlength; rewrite app_length, Nat2Z.inj_add; cbn [length]; lia|].
    split; [change (m_stack sp, fr sp) with (m_stack s, fr s'); rewrite Hfr; reflexivity|]. split; [rewrite app_nil_r; exact Ht|apply rf_get_set_same].
Qed.

(* a value in the place of a count arrives in the COUNTER of the loop frame on top *)
Lemma move_result_lv im s kk x lv d r : fetch im (m_pc s) = Some (I2 OC_MOVE (PReg R_RESULT) (PLoopVar kk)) ->
  rf_get (m_regs s) R_RESULT = Some x -> m_frames s = FLoop lv d :: r -> esteps 1 im s = Some (with_lv s kk x 1, []).
Proof.
  intros Hf Hr Hfr. apply (estep1 im s _ _ _ Hf). cbn [Machine.exec i_op i_p0 i_p1 I2]. unfold get_reg. rewrite Hr. cbn [bind put_dest].
  rewrite Hfr. cbn [put_loopvar bind lift]. f_equal.
  unfold with_lv, advance, with_pc, with_frames, with_vars. cbn [m_pc m_regs m_globals m_frames m_stack m_unnamed m_world]. rewrite Hfr. reflexivity.
Qed.
Lemma val_counter_runs v : ValOk v -> forall fuel, (forall k, (k < fuel)%nat -> body_sim k) -> forall im ss s x ss1 lv d r, routines_loaded im -> sim ss s ->
  m_frames s = FLoop lv d :: r -> code_at im (m_pc s) (c_rval rt mt v (DLoop LV_COUNTER)) -> eval_rval rt mt fuel false ss v = ROk x ss1 ->
  exists n s' evs r', esteps n im s = Some (s', evs) /\ sim ss1 s' /\ m_pc s' = m_pc s + zlength (c_rval rt mt v (DLoop LV_COUNTER)) /\
                      m_stack s' = m_stack s /\ m_frames s' = FLoop (lv_set lv LV_COUNTER x) d :: r' /\ erase r' = erase r /\
                      rev (s_trace ss1) = rev (s_trace ss) ++ evs.
Proof.
  intros [v0 Hp|f args dd Hb Hf Hp Hm|f args ps Hb Hp|e He0] fuel Hbs im ss s x ss1 lv d r Hload Hsim Hfr Hc He.
  - destruct (counter_init rt mt v0 Hp im ss s x ss1 fuel lv d r Hsim Hfr Hc He) as [Hs1 [n Hn]]. subst ss1.
    exists n, (with_counter s x (zlength (c_rval rt mt v0 (DLoop LV_COUNTER)))), [], r. split; [exact Hn|]. split; [apply sim_with_counter; exact Hsim|].
    split; [reflexivity|]. split; [reflexivity|]. split; [unfold with_counter; cbn [m_frames]; rewrite Hfr; reflexivity|]. split; [reflexivity|]. rewrite app_nil_r. reflexivity.
  - destruct fuel as [|f1]; [discriminate|]. rewrite eval_rval_S in He. destruct f1 as [|f2]; [discriminate|].
    rewrite (c_rcall f args dd _ Hb Hf) in *. cbn [dest_param] in *. apply code_at_app in Hc. destruct Hc as [Hcc Hmv]. cbn [code_at] in Hmv. destruct Hmv as [Hfm _].
    destruct (call_runs f2 (fun k Hk => Hbs k ltac:(lia)) f args dd Hb Hf Hp im ss s x ss1 Hload Hsim Hcc He) as (n & s1 & evs & E & Hs1 & Hpc & Hsf & Ht & Hres).
    injection Hsf as Hsk Hfe. unfold fr in Hfe. rewrite Hfr in Hfe. destruct (erase_loop_inv _ _ _ _ Hfe) as [r1 [Hfr1 Her1]].
    assert (Hfm' : fetch im (m_pc s1) = Some (I2 OC_MOVE (PReg R_RESULT) (PLoopVar LV_COUNTER))) by (rewrite Hpc; exact Hfm).
    pose proof (move_result_lv im s1 LV_COUNTER x lv d r1 Hfm' (Hres Hm) Hfr1) as E2.
    exists (n + 1)%nat, (with_lv s1 LV_COUNTER x 1), (evs ++ []), r1. split; [eapply esteps_app; eassumption|]. split; [apply sim_with_lv; exact Hs1|].
    split; [unfold with_lv; cbn [m_pc]; rewrite Hpc; unfold zlength; rewrite app_length, Nat2Z.inj_add; cbn [length]; lia|]. split; [exact Hsk|].
    split; [unfold with_lv; cbn [m_frames]; rewrite Hfr1; reflexivity|]. split; [exact Her1|]. rewrite app_nil_r. exact Ht.
  - destruct fuel as [|f1]; [discriminate|]. rewrite eval_rval_S in He. destruct f1 as [|f2]; [discriminate|].
    rewrite (c_rcall_builtin f args ps _ Hb) in *. cbn [dest_param] in *. apply code_at_app in Hc. destruct Hc as [Hcc Hmv]. cbn [code_at] in Hmv. destruct Hmv as [Hfm _].
    destruct (builtin_runs f2 (fun k Hk => Hbs k ltac:(lia)) f args ps Hb Hp im ss s x ss1 Hload Hsim Hcc He) as (n & s1 & evs & E & Hs1 & Hpc & Hsf & Ht & Hres).
    injection Hsf as Hsk Hfe. unfold fr in Hfe. rewrite Hfr in Hfe. destruct (erase_loop_inv _ _ _ _ Hfe) as [r1 [Hfr1 Her1]].
    assert (Hfm' : fetch im (m_pc s1) = Some (I2 OC_MOVE (PReg R_RESULT) (PLoopVar LV_COUNTER))) by (rewrite Hpc; exact Hfm).
    pose proof (move_result_lv im s1 LV_COUNTER x lv d r1 Hfm' Hres Hfr1) as E2.
    exists (n + 1)%nat, (with_lv s1 LV_COUNTER x 1), (evs ++ []), r1. split; [eapply esteps_app; eassumption|]. split; [apply sim_with_lv; exact Hs1|].
    split; [unfold with_lv; cbn [m_pc]; rewrite Hpc; unfold zlength; rewrite app_length, Nat2Z.inj_add; cbn [length]; lia|]. split; [exact Hsk|].
    split; [unfold with_lv; cbn [m_frames]; rewrite Hfr1; reflexivity|]. split; [exact Her1|]. rewrite app_nil_r. exact Ht.
  - destruct fuel as [|f1]; [discriminate|]. rewrite eval_rval_S in He. rewrite c_rval_expr in *. cbn [dest_param] in *.
    apply code_at_app in Hc. destruct Hc as [Hce Hpop]. cbn [code_at] in Hpop. destruct Hpop as [Hfpop _].
    destruct (cexpr_runs e He0 f1 (fun k Hk => Hbs k ltac:(lia)) im ss s x ss1 Hload Hsim Hce He) as (n & s1 & evs & E & Hs1 & Hpc & Hsk & Hfe & Ht).
    unfold fr in Hfe. rewrite Hfr in Hfe. destruct (erase_loop_inv _ _ _ _ Hfe) as [r1 [Hfr1 Her1]].
    assert (Hfpop' : fetch im (m_pc s1) = Some (I1 OC_POP (PLoopVar LV_COUNTER))) by (rewrite Hpc; exact Hfpop).
    pose proof (pop_lv_step im s1 LV_COUNTER x (m_stack s) lv d r1 Hfpop' Hsk Hfr1) as E2.
    exists (n + 1)%nat, (with_lv (with_stack s1 (m_stack s)) LV_COUNTER x 1), (evs ++ []), r1. split; [eapply esteps_app; eassumption|].
    split; [apply sim_with_lv; apply sim_with_stack; exact Hs1|].
    split; [unfold with_lv; cbn [with_stack m_pc]; rewrite Hpc; unfold zlength; rewrite app_length, Nat2Z.inj_add; cbn [length]; lia|]. split; [reflexivity|].
    split; [unfold with_lv; cbn [with_stack m_frames]; rewrite Hfr1; reflexivity|]. split; [exact Her1|]. rewrite app_nil_r. exact Ht.
Qed.

Theorem simpleB_simulation_upto : bodies_ok -> forall fuel0 : nat,
  (forall inl inr st, SimpleB inl inr st ->
     forall after im ss s sig ss' fuel, (fuel <= fuel0)%nat -> routines_loaded im -> in_loop_ok inl after -> in_ret_ok inr (m_frames s) ->
     in_depth_ok inr s -> sim ss s -> code_at im (m_pc s) (c_stmt rt mt false after st) ->
     Sem.exec rt mt fuel false ss st = ROk sig ss' -> outcome inr after im ss s sig ss' (c_stmt rt mt false after st)) /\
  (forall inl inr l, SimpleBL inl inr l ->
     forall after im ss s sig ss' fuel, (fuel <= fuel0)%nat -> routines_loaded im -> in_loop_ok inl after -> in_ret_ok inr (m_frames s) ->
     in_depth_ok inr s -> sim ss s -> code_at im (m_pc s) (c_stmt rt mt false after (SBlock l)) ->
     exec_seq rt mt fuel false ss l = ROk sig ss' -> outcome inr after im ss s sig ss' (c_stmt rt mt false after (SBlock l))).
Proof.
  intros Hbodies fuel0. induction fuel0 as [fuel0 IHfuel] using (well_founded_induction lt_wf).
  assert (Hbs : forall m, (m < fuel0)%nat -> body_sim m).
  { intros m Hm f d Hf im ss s sig ss' Hload Hir Hd Hsim Hc He.
    exact (proj1 (IHfuel m Hm) false true (rd_body d) (Hbodies f d Hf) None im ss s sig ss' m (le_n _) Hload (fun H => False_ind _ (Bool.diff_false_true H)) Hir Hd Hsim Hc He). }
  apply SimpleB_mutind.
  - (* a statement without break: Simulation2 *)
    intros inl inr st Hst after im ss s sig ss' fuel Hle _ _ _ _ Hsim Hc He.
    rewrite (proj1 (simple_after rt mt) st Hst after) in *.
    destruct (proj1 (simple_simulation rt mt) st Hst im ss s sig ss' fuel Hsim Hc He) as [Hsig Hsimu].
    left. split; [exact Hsig|exact Hsimu].
  - (* break: the jump to the END_LOOP of the enclosing loop *)
    intros inr after im ss s sig ss' fuel Hle _ Hin _ _ Hsim Hc He.
    destruct fuel as [|fuel]; [discriminate|]. rewrite exec_break in He. injection He as Hsig Hss. subst ss'.
    destruct (Hin eq_refl) as [a Ha]. subst after. rewrite c_break in *. cbn [code_at] in Hc. destruct Hc as [Hf _].
    right. left. split; [auto|]. exists a. split; [reflexivity|].
    exists 1%nat, (with_pc s (m_pc s + (a + 1))), []. split; [exact (jump_always im s (a + 1) Hf)|].
    split; [apply sim_with_pc; exact Hsim|]. split; [cbn [with_pc m_pc]; rewrite zlength1; lia|]. split; [reflexivity|rewrite app_nil_r; reflexivity].
  - (* return v: the value goes to RESULT, RETURN leaves the routine *)
    intros inl v Hv after im ss s sig ss' fuel Hle _ _ Hir Hd Hsim Hc He.
    destruct fuel as [|fuel]; [discriminate|]. rewrite exec_return in He. rewrite c_return in *.
    destruct (eval_rval rt mt fuel false ss v) as [x sa|e sa|sa] eqn:Ev; cbn [sbind] in He; try discriminate.
    injection He as Hsig Hss. subst sig ss'.
    apply code_at_app in Hc. destruct Hc as [Hcv Hr]. cbn [code_at] in Hr. destruct Hr as [Hfr _].
    destruct (c_rval_runs rt mt v (DReg R_RESULT) Hv (plain_ok_result mt v Hv) im ss s x sa fuel Hsim Hcv Ev) as [Hsa [n Hn]]. subst sa.
    set (k := zlength (c_rval rt mt v (DReg R_RESULT))) in *.
    set (s1 := put_vm s (DReg R_RESULT) x k) in *.
    assert (Hs1 : sim ss s1) by (apply sim_put_reg_hidden; [exact Hsim|reflexivity|reflexivity]).
    destruct (Hir eq_refl) as (ret & F & Hct).
    set (s2 := advance (with_pc (with_stack (with_frames s1 F) (ret_stack (m_frames s1) (m_stack s1))) ret)).
    assert (E2 : esteps 1 im s1 = Some (s2, [])).
    { apply (estep1 im s1 _ _ _ Hfr). cbn [Machine.exec i_op I0]. rewrite (do_return_steps s1 ret F Hct). reflexivity. }
    right. right. split; [reflexivity|]. exists x. split; [reflexivity|]. exists ret, F. split; [exact Hct|].
    exists (n + 1)%nat, s2, ([] ++ []). split; [eapply esteps_app; eassumption|].
    split; [split; [destruct Hs1 as [Hr1 Hf1 Hg1 Hv1 Hst1 Hw1 Hu1]; repeat split; assumption|apply rf_get_set_same]|].
    split; [reflexivity|]. split; [reflexivity|]. split; [reflexivity|]. rewrite app_nil_r. reflexivity.
  - (* return without a value *)
    intros inl after im ss s sig ss' fuel Hle _ _ Hir Hd Hsim Hc He.
    destruct fuel as [|fuel]; [discriminate|]. rewrite exec_return0 in He. rewrite c_return0 in *.
    injection He as Hsig Hss. subst sig ss'.
    cbn [code_at] in Hc. destruct Hc as [Hf1 [Hf2 _]].
    set (s1 := put_vm s (DReg R_RESULT) VNone 1) in *.
    assert (E1 : esteps 1 im s = Some (s1, [])).
    { apply (estep1 im s _ _ _ Hf1). change (PReg R_RESULT) with (dest_param (DReg R_RESULT)).
      rewrite (exec_moveq im s PNone (DReg R_RESULT) VNone eq_refl eq_refl). apply lift_put; reflexivity. }
    assert (Hs1 : sim ss s1) by (apply sim_put_reg_hidden; [exact Hsim|reflexivity|reflexivity]).
    destruct (Hir eq_refl) as (ret & F & Hct).
    set (s2 := advance (with_pc (with_stack (with_frames s1 F) (ret_stack (m_frames s1) (m_stack s1))) ret)).
    assert (E2 : esteps 1 im s1 = Some (s2, [])).
    { apply (estep1 im s1 _ _ _ Hf2). cbn [Machine.exec i_op I0]. rewrite (do_return_steps s1 ret F Hct). reflexivity. }
    right. right. split; [reflexivity|]. exists VNone. split; [reflexivity|]. exists ret, F. split; [exact Hct|].
    exists (1 + 1)%nat, s2, ([] ++ []). split; [eapply esteps_app; eassumption|].
    split; [split; [destruct Hs1 as [Hr1 Hf1' Hg1 Hv1 Hst1 Hw1 Hu1]; repeat split; assumption|apply rf_get_set_same]|].
    split; [reflexivity|]. split; [reflexivity|]. split; [reflexivity|]. rewrite app_nil_r. reflexivity.
  - (* call of a user routine *)
    intros inl inr f args b d Hb Hf Hpl after im ss s sig ss' fuel Hle Hload _ _ _ Hsim Hc He.
    destruct fuel as [|[|fuel]]; try discriminate. rewrite exec_call in He. rewrite (c_callB after f args b d Hb Hf) in *.
    destruct (call rt mt (S fuel) false ss f args) as [x s1|e s1|s1] eqn:Ecall; cbn [sbind] in He; try discriminate. injection He as Hsig Hss. subst sig ss'.
    destruct (call_runs fuel (fun k Hk => Hbs k ltac:(lia)) f args d Hb Hf Hpl im ss s x s1 Hload Hsim Hc Ecall) as (n & s' & evs & E & Hs' & Hpc & Hsf & Ht & _).
    left. split; [reflexivity|]. exists n, s', evs. split; [exact E|]. split; [exact Hs'|]. split; [exact Hpc|]. split; [exact Hsf|exact Ht].
  - (* a call whose value is assigned, put into a register or printed: the call, then the value is taken from RESULT *)
    intros inl inr u f args d Hb Hf Hpl Hmr Hok after im ss s sig ss' fuel Hle Hload _ _ _ Hsim Hc He.
    destruct fuel as [|f1]; [discriminate|]. rewrite exec_use in He. destruct f1 as [|f2]; [discriminate|]. rewrite eval_rval_S in He.
    destruct f2 as [|fuel]; [discriminate|]. rewrite (c_use after u f args d Hb Hf Hok) in *.
    destruct (call rt mt (S fuel) false ss f args) as [x s1|e s1|s1] eqn:Ecall; cbn [sbind] in He; try discriminate. injection He as Hsig Hss. subst sig ss'.
    apply code_at_app in Hc. destruct Hc as [Hcc Hct].
    destruct (call_runs fuel (fun k Hk => Hbs k ltac:(lia)) f args d Hb Hf Hpl im ss s x s1 Hload Hsim Hcc Ecall) as (n & s' & evs & E & Hs' & Hpc & Hsf & Ht & Hres).
    assert (Hct' : code_at im (m_pc s') (use_tail u)) by (rewrite Hpc; exact Hct).
    destruct (use_tail_runs u im s1 s' x Hok Hs' (Hres Hmr) Hct') as (n2 & s2 & e2 & E2 & Hs2 & Hpc2 & Hsf2 & Ht2).
    left. split; [reflexivity|]. exists (n + n2)%nat, s2, (evs ++ e2). split; [eapply esteps_app; eassumption|]. split; [exact Hs2|].
    split; [rewrite Hpc2, Hpc; unfold zlength; rewrite app_length, Nat2Z.inj_add; lia|]. split; [rewrite Hsf2; exact Hsf|]. rewrite Ht2, Ht, app_assoc. reflexivity.
  - (* the value of a built-in function, assigned, put into a register or printed *)
    intros inl inr u f args ps Hb Hpl Hok after im ss s sig ss' fuel Hle Hload _ _ _ Hsim Hc He.
    destruct fuel as [|f1]; [discriminate|]. rewrite exec_use in He. destruct f1 as [|f2]; [discriminate|]. rewrite eval_rval_S in He.
    destruct f2 as [|fuel]; [discriminate|]. rewrite (c_use_builtin after u f args ps Hb Hok) in *.
    destruct (call rt mt (S fuel) false ss f args) as [x s1|e s1|s1] eqn:Ecall; cbn [sbind] in He; try discriminate. injection He as Hsig Hss. subst sig ss'.
    apply code_at_app in Hc. destruct Hc as [Hcc Hct].
    destruct (builtin_runs fuel (fun k Hk => Hbs k ltac:(lia)) f args ps Hb Hpl im ss s x s1 Hload Hsim Hcc Ecall) as (n & s' & evs & E & Hs' & Hpc & Hsf & Ht & Hres).
    assert (Hct' : code_at im (m_pc s') (use_tail u)) by (rewrite Hpc; exact Hct).
    destruct (use_tail_runs u im s1 s' x Hok Hs' Hres Hct') as (n2 & s2 & e2 & E2 & Hs2 & Hpc2 & Hsf2 & Ht2).
    left. split; [reflexivity|]. exists (n + n2)%nat, s2, (evs ++ e2). split; [eapply esteps_app; eassumption|]. split; [exact Hs2|].
    split; [rewrite Hpc2, Hpc; unfold zlength; rewrite app_length, Nat2Z.inj_add; lia|]. split; [rewrite Hsf2; exact Hsf|]. rewrite Ht2, Ht, app_assoc. reflexivity.
  - (* return [builtin ...] *)
    intros inl f args ps Hb Hpl after im ss s sig ss' fuel Hle Hload _ Hir _ Hsim Hc He.
    destruct fuel as [|f1]; [discriminate|]. rewrite exec_return in He. destruct f1 as [|f2]; [discriminate|]. rewrite eval_rval_S in He.
    destruct f2 as [|fuel]; [discriminate|]. rewrite (c_retcall_builtin after f args ps Hb) in *.
    destruct (call rt mt (S fuel) false ss f args) as [x s1|e s1|s1] eqn:Ecall; cbn [sbind] in He; try discriminate. injection He as Hsig Hss. subst sig ss'.
    apply code_at_app in Hc. destruct Hc as [Hcc Hr]. cbn [code_at] in Hr. destruct Hr as [Hfr _].
    destruct (builtin_runs fuel (fun k Hk => Hbs k ltac:(lia)) f args ps Hb Hpl im ss s x s1 Hload Hsim Hcc Ecall) as (n & s' & evs & E & Hs' & Hpc & Hsf & Ht & Hres).
    destruct (fr_eq_facts s' s Hsf) as [Hsk1 [Hct1 [_ Hrs1]]].
    destruct (Hir eq_refl) as (ret & F & Hct).
    assert (Hct' : call_tail (m_frames s') = Some (ret, F)) by (rewrite Hct1; exact Hct).
    set (s2 := advance (with_pc (with_stack (with_frames s' F) (ret_stack (m_frames s') (m_stack s'))) ret)).
    assert (E2 : esteps 1 im s' = Some (s2, [])).
    { assert (Hfr' : fetch im (m_pc s') = Some (I0 OC_RETURN)) by (rewrite Hpc; exact Hfr).
      apply (estep1 im s' _ _ _ Hfr'). cbn [Machine.exec i_op I0]. rewrite (do_return_steps s' ret F Hct'). reflexivity. }
    right. right. split; [reflexivity|]. exists x. split; [reflexivity|]. exists ret, F. split; [exact Hct|].
    exists (n + 1)%nat, s2, (evs ++ []). split; [eapply esteps_app; eassumption|].
    split; [split; [destruct Hs' as [Hr1 Hf1 Hg1 Hv1 Hst1 Hw1 Hu1 Hdf1]; repeat split; assumption|exact Hres]|].
    split; [reflexivity|]. split; [reflexivity|]. split; [exact Hrs1|]. rewrite app_nil_r. exact Ht.
  - (* an expression with calls inside, assigned, put into a register or printed *)
    intros inl inr u e He0 Hok after im ss s sig ss' fuel Hle Hload _ _ _ Hsim Hc He.
    destruct fuel as [|f1]; [discriminate|]. rewrite exec_use in He. destruct f1 as [|f2]; [discriminate|]. rewrite eval_rval_S in He.
    rewrite (c_useexpr after u e) in *.
    destruct (eval_expr rt mt f2 false ss e) as [x s1|er s1|s1] eqn:Ee; cbn [sbind] in He; try discriminate. injection He as Hsig Hss. subst sig ss'.
    apply code_at_app in Hc. destruct Hc as [Hce Hct].
    destruct (cexpr_runs e He0 f2 (fun k Hk => Hbs k ltac:(lia)) im ss s x s1 Hload Hsim Hce Ee) as (n & s' & evs & E & Hs' & Hpc & Hsk & Hfr & Ht).
    assert (Hct' : code_at im (m_pc s') (use_pop u)) by (rewrite Hpc; exact Hct).
    destruct (use_pop_runs u im s1 s' x (m_stack s) Hok Hs' Hsk Hct') as (n2 & s2 & e2 & E2 & Hs2 & Hpc2 & Hsk2 & Hfr2 & Ht2).
    left. split; [reflexivity|]. exists (n + n2)%nat, s2, (evs ++ e2). split; [eapply esteps_app; eassumption|]. split; [exact Hs2|].
    split; [rewrite Hpc2, Hpc; unfold zlength; rewrite app_length, Nat2Z.inj_add; lia|]. split; [rewrite Hsk2, Hfr2, Hfr; reflexivity|]. rewrite Ht2, Ht, app_assoc. reflexivity.
  - (* return {expression with calls inside} *)
    intros inl e He0 after im ss s sig ss' fuel Hle Hload _ Hir _ Hsim Hc He.
    destruct fuel as [|f1]; [discriminate|]. rewrite exec_return in He. destruct f1 as [|f2]; [discriminate|]. rewrite eval_rval_S in He.
    rewrite (c_retexpr after e) in *.
    destruct (eval_expr rt mt f2 false ss e) as [x s1|er s1|s1] eqn:Ee; cbn [sbind] in He; try discriminate. injection He as Hsig Hss. subst sig ss'.
    apply code_at_app in Hc. destruct Hc as [Hce Hct]. cbn [code_at] in Hct. destruct Hct as [Hfpop [Hfret _]].
    destruct (cexpr_runs e He0 f2 (fun k Hk => Hbs k ltac:(lia)) im ss s x s1 Hload Hsim Hce Ee) as (n & s' & evs & E & Hs' & Hpc & Hsk & Hfr & Ht).
    assert (Hfpop' : fetch im (m_pc s') = Some (I1 OC_POP (dest_param (DReg R_RESULT)))) by (rewrite Hpc; exact Hfpop).
    set (sp := put_vm (with_stack s' (m_stack s)) (DReg R_RESULT) x 1).
    assert (Ep : esteps 1 im s' = Some (sp, [])) by exact (pop_step im s' (DReg R_RESULT) x (m_stack s) eq_refl Hsk Hfpop').
    assert (Hsp : sim s1 sp) by (apply sim_put_reg_hidden; [apply sim_with_stack; exact Hs'|reflexivity|reflexivity]).
    assert (Hsf : (m_stack sp, fr sp) = (m_stack s, fr s)) by (change (m_stack sp, fr sp) with (m_stack s, fr s'); rewrite Hfr; reflexivity).
    destruct (fr_eq_facts sp s Hsf) as [Hsk1 [Hct1 [_ Hrs1]]].
    destruct (Hir eq_refl) as (ret & F & Hct).
    assert (Hct' : call_tail (m_frames sp) = Some (ret, F)) by (rewrite Hct1; exact Hct).
    set (s2 := advance (with_pc (with_stack (with_frames sp F) (ret_stack (m_frames sp) (m_stack sp))) ret)).
    assert (E2 : esteps 1 im sp = Some (s2, [])).
    { assert (Hfr' : fetch im (m_pc sp) = Some (I0 OC_RETURN)).
      { unfold sp. cbn [put_vm with_stack m_pc]. rewrite Hpc. replace (m_pc s + zlength (c_expr rt mt e) + 1) with (m_pc s + zlength (c_expr rt mt e) + Z.of_nat 1) by lia. exact Hfret. }
      apply (estep1 im sp _ _ _ Hfr'). cbn [Machine.exec i_op I0]. rewrite (do_return_steps sp ret F Hct'). reflexivity. }
    right. right. split; [reflexivity|]. exists x. split; [reflexivity|]. exists ret, F. split; [exact Hct|].
    exists (n + (1 + 1))%nat, s2, (evs ++ ([] ++ [])). split; [eapply esteps_app; [exact E|eapply esteps_app; eassumption]|].
    split; [split; [destruct Hsp as [Hr1 Hf1 Hg1 Hv1 Hst1 Hw1 Hu1 Hdf1]; repeat split; assumption|apply rf_get_set_same]|].
    split; [reflexivity|]. split; [reflexivity|]. split; [exact Hrs1|]. cbn [app]. rewrite app_nil_r. exact Ht.
  - (* return [f ...]: the call, then RETURN with the value still in RESULT *)
    intros inl f args d Hb Hf Hpl Hmr after im ss s sig ss' fuel Hle Hload _ Hir _ Hsim Hc He.
    destruct fuel as [|f1]; [discriminate|]. rewrite exec_return in He. destruct f1 as [|f2]; [discriminate|]. rewrite eval_rval_S in He.
    destruct f2 as [|fuel]; [discriminate|]. rewrite (c_retcall after f args d Hb Hf) in *.
    destruct (call rt mt (S fuel) false ss f args) as [x s1|e s1|s1] eqn:Ecall; cbn [sbind] in He; try discriminate. injection He as Hsig Hss. subst sig ss'.
    apply code_at_app in Hc. destruct Hc as [Hcc Hr]. cbn [code_at] in Hr. destruct Hr as [Hfr _].
    destruct (call_runs fuel (fun k Hk => Hbs k ltac:(lia)) f args d Hb Hf Hpl im ss s x s1 Hload Hsim Hcc Ecall) as (n & s' & evs & E & Hs' & Hpc & Hsf & Ht & Hres).
    destruct (fr_eq_facts s' s Hsf) as [Hsk1 [Hct1 [_ Hrs1]]].
    destruct (Hir eq_refl) as (ret & F & Hct).
    assert (Hct' : call_tail (m_frames s') = Some (ret, F)) by (rewrite Hct1; exact Hct).
    set (s2 := advance (with_pc (with_stack (with_frames s' F) (ret_stack (m_frames s') (m_stack s'))) ret)).
    assert (E2 : esteps 1 im s' = Some (s2, [])).
    { assert (Hfr' : fetch im (m_pc s') = Some (I0 OC_RETURN)) by (rewrite Hpc; exact Hfr).
      apply (estep1 im s' _ _ _ Hfr'). cbn [Machine.exec i_op I0]. rewrite (do_return_steps s' ret F Hct'). reflexivity. }
    right. right. split; [reflexivity|]. exists x. split; [reflexivity|]. exists ret, F. split; [exact Hct|].
    exists (n + 1)%nat, s2, (evs ++ []). split; [eapply esteps_app; eassumption|].
    split; [split; [destruct Hs' as [Hr1 Hf1 Hg1 Hv1 Hst1 Hw1 Hu1 Hdf1]; repeat split; assumption|exact (Hres Hmr)]|].
    split; [reflexivity|]. split; [reflexivity|]. split; [exact Hrs1|]. rewrite app_nil_r. exact Ht.
  - (* printf: the values wait as unnamed parameters; OUT PRINTF takes them and the named fields *)
    intros inl inr fmt args names k Hn Hk Hpl Hlen Hvis after im ss s sig ss' fuel Hle _ _ _ _ Hsim Hc He.
    destruct fuel as [|fuel]; [discriminate|]. rewrite exec_printf in He. rewrite c_printf in *.
    destruct (eval_args rt mt fuel false ss args) as [vs sa|e sa|sa] eqn:Ea; cbn [sbind] in He; try discriminate. rewrite Hn in He.
    injection He as Hsig Hss. subst sig ss'.
    apply code_at_app in Hc. destruct Hc as [Hca Hcp]. cbn [code_at] in Hcp. destruct Hcp as [Hfp _].
    destruct (pf_args_run args fuel im ss s vs sa Hpl (sim_simr _ _ Hsim) Hca Ea) as [Hsa (n & s1 & E1 & Hs1 & Hpc1 & Hun1 & Hsk1 & Hfr1 & Hlen1)]. subst sa.
    rewrite (sim_unnamed _ _ Hsim) in Hun1. cbn [app] in Hun1.
    assert (Hsim1 : sim ss (with_unnamed s1 [])).
    { destruct Hs1 as [H1 H2 H3 H4 H5 H6]. destruct Hsim as [_ _ _ Hv0 Hst0 _ _ _].
      constructor; cbn [with_unnamed m_regs m_globals m_frames m_world m_unnamed]; try assumption; try reflexivity; rewrite Hfr1; assumption. }
    assert (Hle' : zlength vs <= k) by (apply Z.leb_le in Hlen; unfold zlength in *; rewrite Hlen1; exact Hlen).
    assert (Hfp' : fetch im (m_pc s1) = Some (I2 OC_OUT (PIoOp IO_PRINTF) (PStr fmt))) by (rewrite Hpc1; exact Hfp).
    pose proof (printf_step im ss s1 fmt vs names k Hsim1 Hun1 Hn Hk Hle' Hvis Hfp') as E2.
    left. split; [reflexivity|].
    exists (n + 1)%nat, (advance (with_unnamed s1 [])), ([] ++ ([EvPrintf fmt vs (map (fun n0 => (n0, match register_of_name n0 with Some r => rreg (s_regs ss) r | None => lookup ss n0 end)) names)] ++ [])).
    split; [eapply esteps_app; eassumption|].
    split; [apply sim_emit; destruct Hsim1 as [H1 H2 H3 H4 H5 H6 H7 H8]; constructor; assumption|].
    split; [cbn [advance with_pc with_unnamed m_pc]; rewrite Hpc1; unfold zlength; rewrite app_length, Nat2Z.inj_add; cbn [length]; lia|].
    split; [cbn [advance with_pc with_unnamed m_stack]; unfold fr; cbn [advance with_pc with_unnamed m_frames]; rewrite Hsk1, Hfr1; reflexivity|].
    cbn [app]. apply trace_emit.
  - (* if without else *)
    intros inl inr c a Hc Ha IHa after im ss s sig ss' fuel Hle Hload Hin Hir Hd Hsim Hcode He.
    destruct fuel as [|fuel]; [discriminate|]. rewrite exec_if in He. rewrite c_if1_after in *.
    destruct (eval_rval rt mt fuel false ss c) as [x sa|e sa|sa] eqn:Ev; cbn [sbind] in He; try discriminate.
    apply code_at_app in Hcode. destruct Hcode as [Hcc Hrest]. apply code_at_app in Hrest. destruct Hrest as [Hj Hbody]. cbn [code_at] in Hj. destruct Hj as [Hfj _].
    destruct (val_runs c Hc fuel (fun k Hk => Hbs k ltac:(lia)) im ss s x sa Hload Hsim Hcc Ev) as (n & s1 & e1 & Hn & Hs1 & Hpc1 & Hsf1 & Ht1 & Hr1).
    set (k := zlength (c_rval rt mt c (DReg R_RESULT))) in *.
    destruct (fr_eq_facts s1 s Hsf1) as [Hsk1 [Hct1 [Hdp1 _]]].
    assert (Hir1 : in_ret_ok inr (m_frames s1)) by (intros Hi; destruct (Hir Hi) as (ret & F & H); exists ret, F; rewrite Hct1; exact H).
    assert (Hd1 : in_depth_ok inr s1) by (intros Hi; rewrite Hsk1; apply Hdp1; exact (Hd Hi)).
    pose proof (proj1 simpleB_no_routine inl inr a Ha after) as Hnr. rewrite (len_no_routine _ Hnr) in Hfj |- *.
    set (body := c_stmt rt mt false after a) in *.
    assert (Hfj' : fetch im (m_pc s1) = Some (jump JC_IF_FALSE (zlength body + 1))) by (rewrite Hpc1; exact Hfj).
    pose proof (jump_if_false im s1 x (zlength body + 1) Hr1 Hfj') as Ej.
    assert (Hlen : zlength (c_rval rt mt c (DReg R_RESULT) ++ [jump JC_IF_FALSE (zlength body + 1)] ++ body) = k + 1 + zlength body).
    { unfold zlength. rewrite !app_length, !Nat2Z.inj_add. cbn [length]. unfold k, zlength. lia. }
    destruct (truthy x) eqn:Etx.
    + set (s2 := with_pc s1 (m_pc s1 + 1)) in *.
      assert (Hb2 : code_at im (m_pc s2) body).
      { unfold s2. cbn [with_pc m_pc]. rewrite Hpc1. rewrite zlength1 in Hbody. exact Hbody. }
      pose proof (IHa after im sa s2 sig ss' fuel ltac:(lia) Hload Hin Hir1 Hd1 (sim_with_pc sa s1 _ Hs1) Hb2 He) as Ho.
      apply (outcome_after_steps inr after im ss s sa s2 (n + 1)%nat (e1 ++ []) sig ss' body); [eapply esteps_app; eassumption|exact Hsf1|rewrite app_nil_r; exact Ht1| |exact Ho].
      rewrite Hlen. unfold s2. cbn [with_pc m_pc]. rewrite Hpc1. fold k. lia.
    + injection He as Hsig He. subst ss'. left. split; [auto|].
      exists (n + 1)%nat, (with_pc s1 (m_pc s1 + (zlength body + 1))), (e1 ++ []).
      split; [eapply esteps_app; eassumption|]. split; [apply sim_with_pc; exact Hs1|].
      split; [rewrite Hlen; cbn [with_pc m_pc]; rewrite Hpc1; fold k; lia|]. split; [exact Hsf1|rewrite app_nil_r; exact Ht1].
  - (* if with else *)
    intros inl inr c a b Hc Ha IHa Hb IHb after im ss s sig ss' fuel Hle Hload Hin Hir Hd Hsim Hcode He.
    destruct fuel as [|fuel]; [discriminate|]. rewrite exec_if in He. rewrite c_if2_after in *.
    pose proof (proj1 simpleB_no_routine inl inr b Hb after) as Hnrb. rewrite (len_no_routine _ Hnrb) in *.
    set (tb := c_stmt rt mt false after b) in *.
    set (after_a := option_map (fun x0 : Z => x0 + 1 + zlength tb) after) in *.
    pose proof (proj1 simpleB_no_routine inl inr a Ha after_a) as Hnra. rewrite (len_no_routine _ Hnra) in *.
    set (ta := c_stmt rt mt false after_a a) in *.
    destruct (eval_rval rt mt fuel false ss c) as [x sa|e sa|sa] eqn:Ev; cbn [sbind] in He; try discriminate.
    apply code_at_app in Hcode. destruct Hcode as [Hcc Hrest]. apply code_at_app in Hrest. destruct Hrest as [Hj Hrest]. cbn [code_at] in Hj. destruct Hj as [Hfj _].
    apply code_at_app in Hrest. destruct Hrest as [Hthen Hrest]. apply code_at_app in Hrest. destruct Hrest as [Hj2 Helse]. cbn [code_at] in Hj2. destruct Hj2 as [Hfj2 _].
    rewrite !zlength1 in Hthen, Hfj2, Helse.
    destruct (val_runs c Hc fuel (fun k Hk => Hbs k ltac:(lia)) im ss s x sa Hload Hsim Hcc Ev) as (n & s1 & e1 & Hn & Hs1 & Hk & Hsf1 & Ht1 & Hr1).
    set (k := zlength (c_rval rt mt c (DReg R_RESULT))) in *.
    destruct (fr_eq_facts s1 s Hsf1) as [Hsk1 [Hct1 [Hdp1 Hrs1]]].
    assert (Hir1 : in_ret_ok inr (m_frames s1)) by (intros Hi; destruct (Hir Hi) as (ret & F & H); exists ret, F; rewrite Hct1; exact H).
    assert (Hd1 : in_depth_ok inr s1) by (intros Hi; rewrite Hsk1; apply Hdp1; exact (Hd Hi)).
    assert (Hfj' : fetch im (m_pc s1) = Some (jump JC_IF_FALSE (zlength ta + 2))) by (rewrite Hk; exact Hfj).
    pose proof (jump_if_false im s1 x (zlength ta + 2) Hr1 Hfj') as Ej.
    assert (Hlen : zlength (c_rval rt mt c (DReg R_RESULT) ++ [jump JC_IF_FALSE (zlength ta + 2)] ++ ta ++ [jump JC_ALWAYS (zlength tb + 1)] ++ tb)
                   = k + 1 + zlength ta + 1 + zlength tb).
    { unfold zlength. rewrite !app_length, !Nat2Z.inj_add. cbn [length]. unfold k, zlength. lia. }
    destruct (truthy x) eqn:Etx.
    + (* then-branch; when it ends normally, the jump over the else-branch *)
      set (s2 := with_pc s1 (m_pc s1 + 1)) in *.
      assert (Hb2 : code_at im (m_pc s2) ta) by (unfold s2; cbn [with_pc m_pc]; rewrite Hk; exact Hthen).
      assert (E2 : esteps (n + 1) im s = Some (s2, e1 ++ [])) by (eapply esteps_app; eassumption).
      assert (Ht1' : rev (s_trace sa) = rev (s_trace ss) ++ (e1 ++ [])) by (rewrite app_nil_r; exact Ht1).
      destruct (IHa after_a im sa s2 sig ss' fuel ltac:(lia) Hload (in_loop_ok_map inl after _ Hin) Hir1 Hd1 (sim_with_pc sa s1 _ Hs1) Hb2 He) as [[Hsig Hto]|[[Hsig (a' & Ha' & Hto)]|[Hinr [v [Hsig Hret]]]]].
      * left. split; [exact Hsig|]. rewrite Hlen.
        apply (sim_to_after_steps im ss s sa s2 (n + 1)%nat (e1 ++ []) ss'); [exact E2|exact Hsf1|exact Ht1'|].
        replace (m_pc s + (k + 1 + zlength ta + 1 + zlength tb)) with (m_pc s2 + zlength ta + (zlength tb + 1)) by (unfold s2; cbn [with_pc m_pc]; rewrite Hk; fold k; lia).
        apply sim_to_jump; [exact Hto|]. unfold s2. cbn [with_pc m_pc]. rewrite Hk. exact Hfj2.
      * right. left. split; [exact Hsig|]. unfold after_a in Ha'. destruct after as [a0|]; cbn [option_map] in Ha'; [|discriminate]. injection Ha' as Ha'. subst a'.
        exists a0. split; [reflexivity|]. rewrite Hlen.
        apply (sim_to_after_steps im ss s sa s2 (n + 1)%nat (e1 ++ []) ss'); [exact E2|exact Hsf1|exact Ht1'|].
        replace (m_pc s + (k + 1 + zlength ta + 1 + zlength tb) + a0) with (m_pc s2 + zlength ta + (a0 + 1 + zlength tb)) by (unfold s2; cbn [with_pc m_pc]; rewrite Hk; fold k; lia).
        exact Hto.
      * right. right. split; [exact Hinr|]. exists v. split; [exact Hsig|].
        exact (returned_rebase im ss s sa s2 (n + 1)%nat (e1 ++ []) ss' E2 Hct1 Hrs1 Ht1' Hret).
    + (* else-branch *)
      set (s2 := with_pc s1 (m_pc s1 + (zlength ta + 2))) in *.
      assert (Hb2 : code_at im (m_pc s2) tb).
      { unfold s2. cbn [with_pc m_pc]. rewrite Hk. fold k. replace (m_pc s + k + (zlength ta + 2)) with (m_pc s + k + 1 + zlength ta + 1) by lia. exact Helse. }
      pose proof (IHb after im sa s2 sig ss' fuel ltac:(lia) Hload Hin Hir1 Hd1 (sim_with_pc sa s1 _ Hs1) Hb2 He) as Ho.
      apply (outcome_after_steps inr after im ss s sa s2 (n + 1)%nat (e1 ++ []) sig ss' tb); [eapply esteps_app; eassumption|exact Hsf1|rewrite app_nil_r; exact Ht1| |exact Ho].
      rewrite Hlen. unfold s2. cbn [with_pc m_pc]. rewrite Hk. fold k. lia.
  - (* block *)
    intros inl inr l Hl IH after im ss s sig ss' fuel Hle Hload Hin Hir Hd Hsim Hc He. destruct fuel as [|fuel]; [discriminate|].
    rewrite exec_block in He. exact (IH after im ss s sig ss' fuel ltac:(lia) Hload Hin Hir Hd Hsim Hc He).
  - (* while loop *)
    intros inl inr c a Hc Ha IHa after im ss s sig ss' fuel Hle Hload _ Hir Hd Hsim Hcode He.
    destruct fuel as [|[|fuel]]; try discriminate. rewrite exec_while in He.
    rewrite c_loop_after, c_whileB, app_nil_r in *.
    pose proof (proj1 simpleB_no_routine true inr a Ha (Some 1)) as Hnrb.
    pose proof (valok_no_routine c Hc) as Hnrt.
    rewrite (len_no_routine _ Hnrb), (len_no_routine _ Hnrt) in *.
    set (T := c_rval rt mt c (DReg R_RESULT)) in *. set (B := c_stmt rt mt false (Some 1) a) in *.
    set (kT := zlength T) in *. set (kB := zlength B) in *.
    apply code_at_app in Hcode. destruct Hcode as [Hloop Hcode]. cbn [code_at] in Hloop. destruct Hloop as [Hfl _].
    apply code_at_app in Hcode. destruct Hcode as [HcT Hcode].
    apply code_at_app in Hcode. destruct Hcode as [Hj Hcode]. cbn [code_at] in Hj. destruct Hj as [Hfj _].
    apply code_at_app in Hcode. destruct Hcode as [HcB Hcode].
    apply code_at_app in Hcode. destruct Hcode as [Hjb Hend]. cbn [code_at] in Hjb, Hend. destruct Hjb as [Hfjb _]. destruct Hend as [Hfe _].
    rewrite !zlength1 in HcT, Hfj, HcB, Hfjb, Hfe. fold kT in Hfj, HcB, Hfjb, Hfe. fold kB in Hfjb, Hfe.
    set (P0 := m_pc s) in *.
    set (d := zlength (m_stack s)).
    set (s1 := advance (with_frames s (FLoop [] d :: m_frames s))).
    assert (E1 : esteps 1 im s = Some (s1, [])) by (apply (estep1 im s _ _ _ Hfl); reflexivity).
    assert (Hs1 : sim ss s1) by (destruct Hsim; constructor; cbn; assumption).
    assert (Hin1 : in_loop_ok true (Some 1)) by (intros _; exists 1; reflexivity).
    assert (Hiter : forall f ss1 sx sg ssx lv r,
              (f <= fuel0)%nat -> sim ss1 sx -> m_pc sx = P0 + 1 -> m_frames sx = FLoop lv d :: r -> erase r = erase (m_frames s) -> m_stack sx = m_stack s ->
              iterate rt mt f false ss1 (Some c) None None None a = ROk sg ssx ->
              (sg = SigNormal /\ exists n sy evs, esteps n im sx = Some (sy, evs) /\ sim ssx sy /\ m_pc sy = P0 + (kT + kB + 4) /\
                                           (m_stack sy, fr sy) = (m_stack s, fr s) /\ rev (s_trace ssx) = rev (s_trace ss1) ++ evs) \/
              (inr = true /\ exists v, sg = SigReturn v /\ returned im ss1 sx ssx v)).
    { induction f as [|f IHf]; intros ss1 sx sg ssx lv r Hlef Hsx Hpcx Hfrx Herx Hstx Hit; [discriminate|].
      assert (Hctx : call_tail (m_frames sx) = call_tail (m_frames s)) by (rewrite Hfrx; cbn [call_tail]; apply call_tail_fr_eq; exact Herx).
      assert (Hdx : in_depth_ok inr sx).
      { intros Hi. rewrite Hfrx, Hstx. cbn [depth_ok]. split; [apply Z.le_refl|]. apply (depth_ok_fr_eq (m_frames s) r); [symmetry; exact Herx|exact (Hd Hi)]. }
      assert (Hirx : in_ret_ok inr (m_frames sx)) by (intros Hi; destruct (Hir Hi) as (ret & F & H); exists ret, F; rewrite Hctx; exact H).
      rewrite iterate_while in Hit.
      destruct (eval_rval rt mt f false ss1 c) as [x sa|e sa|sa] eqn:Ev; cbn [sbind] in Hit; try discriminate.
      assert (HcTx : code_at im (m_pc sx) T) by (rewrite Hpcx; exact HcT).
      destruct (val_runs c Hc f (fun k Hk => Hbs k ltac:(lia)) im ss1 sx x sa Hload Hsx HcTx Ev) as (n & s2 & e1 & Hn & Hs2 & Hpc2' & Hsf2 & Ht2 & Hr2).
      fold T in Hpc2'. fold kT in Hpc2'.
      assert (Hpc2 : m_pc s2 = P0 + 1 + kT) by (rewrite Hpc2', Hpcx; reflexivity).
      destruct (loop_frame_kept s2 sx s lv d r Hsf2 Hstx Hfrx Herx) as [Hsk2 (r2 & Hfk2 & Her2)].
      assert (Hct2 : call_tail (m_frames s2) = call_tail (m_frames s)) by (rewrite Hfk2; cbn [call_tail]; apply call_tail_fr_eq; exact Her2).
      assert (Hd2 : in_depth_ok inr s2).
      { intros Hi. rewrite Hfk2, Hsk2. cbn [depth_ok]. split; [apply Z.le_refl|]. apply (depth_ok_fr_eq (m_frames s) r2); [symmetry; exact Her2|exact (Hd Hi)]. }
      assert (Hir2 : in_ret_ok inr (m_frames s2)) by (intros Hi; destruct (Hir Hi) as (ret & F & H); exists ret, F; rewrite Hct2; exact H).
      assert (Hfj2 : fetch im (m_pc s2) = Some (jump JC_IF_FALSE (kB + 2))) by (rewrite Hpc2; exact Hfj).
      pose proof (jump_if_false im s2 x (kB + 2) Hr2 Hfj2) as Ej.
      destruct (truthy x) eqn:Etx; cbn [negb] in Hit.
      - destruct (Sem.exec rt mt f false sa a) as [sgb sb|eb sb|sb] eqn:Eb; cbn [sbind] in Hit; try discriminate.
        set (s3 := with_pc s2 (m_pc s2 + 1)) in *.
        assert (HcB3 : code_at im (m_pc s3) B) by (unfold s3; cbn [with_pc m_pc]; rewrite Hpc2; exact HcB).
        assert (Hst3 : m_stack s3 = m_stack s /\ m_frames s3 = FLoop lv d :: r2) by (split; assumption).
        destruct Hst3 as [Hsk3 Hfk3].
        assert (E23 : esteps (n + 1) im sx = Some (s3, e1 ++ [])) by (eapply esteps_app; eassumption).
        destruct (IHa (Some 1) im sa s3 sgb sb f ltac:(lia) Hload Hin1 Hir2 Hd2 (sim_with_pc sa s2 _ Hs2) HcB3 Eb)
          as [[Hsgb (n3 & s4 & e4 & E4 & Hs4 & Hpc4 & Hst4 & Ht4)]|[[Hsgb (a' & Ha' & (n3 & s4 & e4 & E4 & Hs4 & Hpc4 & Hst4 & Ht4))]|[Hinr [v [Hsgb Hret]]]]]; subst sgb.
        + (* the body ends normally: back to the test *)
          assert (Hfjb4 : fetch im (m_pc s4) = Some (jump JC_ALWAYS (- (kT + 1 + kB)))).
          { rewrite Hpc4. unfold s3. cbn [with_pc m_pc]. rewrite Hpc2. fold B. fold kB. exact Hfjb. }
          pose proof (jump_always im s4 (- (kT + 1 + kB)) Hfjb4) as Ejb.
          set (s5 := with_pc s4 (m_pc s4 + - (kT + 1 + kB))) in *.
          destruct (loop_frame_kept s4 s3 s lv d r2 Hst4 Hsk3 Hfk3 Her2) as [Hsk4 (r4 & Hfk4 & Her4)].
          assert (E25 : esteps (n + (1 + (n3 + 1))) im sx = Some (s5, e1 ++ ([] ++ (e4 ++ [])))) by (eapply esteps_app; [exact Hn|eapply esteps_app; [exact Ej|eapply esteps_app; [exact E4|exact Ejb]]]).
          destruct (IHf sb s5 sg ssx lv r4 ltac:(lia) (sim_with_pc sb s4 _ Hs4)) as [[Hsg (n6 & s6 & e6 & E6 & Hs6 & Hpc6 & Hst6 & Ht6)]|[Hinr [v [Hsg Hret]]]].
          { unfold s5. cbn [with_pc m_pc]. rewrite Hpc4. unfold s3. cbn [with_pc m_pc]. rewrite Hpc2. fold B. fold kB. lia. }
          { exact Hfk4. }
          { exact Her4. }
          { exact Hsk4. }
          { exact Hit. }
          * left. split; [exact Hsg|]. exists ((n + (1 + (n3 + 1))) + n6)%nat, s6, ((e1 ++ ([] ++ (e4 ++ []))) ++ e6).
            split; [eapply esteps_app; [exact E25|exact E6]|].
            split; [exact Hs6|]. split; [exact Hpc6|]. split; [exact Hst6|]. cbn [app]. rewrite Ht6, Ht4, Ht2, app_nil_r, !app_assoc. reflexivity.
          * right. split; [exact Hinr|]. exists v. split; [exact Hsg|].
            apply (returned_rebase im ss1 sx sb s5 (n + (1 + (n3 + 1)))%nat (e1 ++ ([] ++ (e4 ++ []))) ssx E25); [|exact (loop_states_ret_stack s s5 sx lv r4 lv r Hfk4 Her4 Hsk4 Hfrx Herx Hstx (Hd Hinr))|cbn [app]; rewrite app_nil_r, Ht4, Ht2, app_assoc; reflexivity|exact Hret].
            change (m_frames s5) with (m_frames s4). rewrite Hfk4, Hctx. cbn [call_tail]. apply call_tail_fr_eq. exact Her4.
        + (* the body breaks: it has jumped to END_LOOP *)
          injection Ha' as Ha'. subst a'. injection Hit as Hsg Hss. subst ssx.
          destruct (loop_frame_kept s4 s3 s lv d r2 Hst4 Hsk3 Hfk3 Her2) as [Hsk4 (r4 & Hfk4 & Her4)].
          assert (Hfe4 : fetch im (m_pc s4) = Some (I0 OC_END_LOOP)).
          { rewrite Hpc4. unfold s3. cbn [with_pc m_pc]. rewrite Hpc2. fold B. fold kB. exact Hfe. }
          destruct (end_loop_step im sb s4 s lv r4 Hs4 Hfe4 Hfk4 Her4 Hsk4) as (s5 & E5 & Hs5 & Hpc5 & Hst5).
          left. split; [auto|]. exists (n + (1 + (n3 + 1)))%nat, s5, (e1 ++ ([] ++ (e4 ++ []))).
          split; [eapply esteps_app; [exact Hn|eapply esteps_app; [exact Ej|eapply esteps_app; [exact E4|exact E5]]]|].
          split; [exact Hs5|]. split; [rewrite Hpc5, Hpc4; unfold s3; cbn [with_pc m_pc]; rewrite Hpc2; fold B; fold kB; lia|].
          split; [exact Hst5|]. cbn [app]. rewrite app_nil_r, Ht4, Ht2, app_assoc. reflexivity.
        + (* the body returns: the machine has left the routine *)
          injection Hit as Hsg Hss. subst sg ssx. right. split; [exact Hinr|]. exists v. split; [reflexivity|].
          apply (returned_rebase im ss1 sx sa s3 (n + 1)%nat (e1 ++ []) sb E23); [exact (eq_trans Hct2 (eq_sym Hctx))|exact (loop_states_ret_stack s s3 sx lv r2 lv r Hfk3 Her2 Hsk3 Hfrx Herx Hstx (Hd Hinr))|rewrite app_nil_r; exact Ht2|exact Hret].
      - (* the condition fails: jump to END_LOOP *)
        injection Hit as Hsg Hss. subst ssx.
        set (s3 := with_pc s2 (m_pc s2 + (kB + 2))) in *.
        assert (Hfe3 : fetch im (m_pc s3) = Some (I0 OC_END_LOOP)).
        { unfold s3. cbn [with_pc m_pc]. rewrite Hpc2. replace (P0 + 1 + kT + (kB + 2)) with (P0 + 1 + kT + 1 + kB + 1) by lia. exact Hfe. }
        destruct (end_loop_step im sa s3 s lv r2 (sim_with_pc sa s2 _ Hs2) Hfe3 Hfk2 Her2 Hsk2) as (s4 & E4 & Hs4 & Hpc4 & Hst4).
        left. split; [auto|]. exists (n + (1 + 1))%nat, s4, (e1 ++ ([] ++ [])).
        split; [eapply esteps_app; [exact Hn|eapply esteps_app; [exact Ej|exact E4]]|].
        split; [exact Hs4|]. split; [rewrite Hpc4; unfold s3; cbn [with_pc m_pc]; rewrite Hpc2; lia|].
        split; [exact Hst4|]. cbn [app]. rewrite app_nil_r. exact Ht2. }
    destruct (Hiter fuel ss s1 sig ss' [] (m_frames s) ltac:(lia) Hs1 eq_refl eq_refl eq_refl eq_refl He) as [[Hsig (n & sy & evs & En & Hsy & Hpcy & Hsty & Hty)]|[Hinr [v [Hsig Hret]]]].
    + left. split; [exact Hsig|]. exists (1 + n)%nat, sy, ([] ++ evs).
      split; [eapply esteps_app; [exact E1|exact En]|]. split; [exact Hsy|].
      split; [rewrite Hpcy; unfold kT, kB, zlength; rewrite !app_length; cbn [length]; rewrite !Nat2Z.inj_add; lia|].
      split; [exact Hsty|exact Hty].
    + right. right. split; [exact Hinr|]. exists v. split; [exact Hsig|].
      exact (returned_rebase im ss s ss s1 1%nat [] ss' E1 eq_refl (loop_ret_stack s s1 [] (m_frames s) [] eq_refl eq_refl eq_refl (Hd Hinr)) (eq_sym (app_nil_r _)) Hret).
  - (* counted loop *)
    intros inl inr cn a Hn Ha IHa after im ss s sig ss' fuel Hle Hload _ Hir Hd Hsim Hcode He.
    destruct fuel as [|[|fuel]]; try discriminate. rewrite exec_count in He.
    rewrite c_loop_after, c_count in *.
    change (len (counter_post None)) with 4 in *.
    pose proof (proj1 simpleB_no_routine true inr a Ha (Some (4 + 1))) as Hnrb.
    assert (Hnri : forallb not_routine (c_stmt rt mt false (Some (4 + 1)) a ++ counter_post None) = true) by (rewrite forallb_app, Hnrb; reflexivity).
    rewrite (len_no_routine _ Hnri) in *. change (len counter_test) with 4 in *.
    set (N := c_rval rt mt cn (DLoop LV_COUNTER)) in *. set (B := c_stmt rt mt false (Some (4 + 1)) a) in *.
    set (kN := zlength N) in *.
    assert (HkI : zlength (B ++ counter_post None) = zlength B + 4) by (unfold zlength; rewrite app_length, Nat2Z.inj_add; reflexivity).
    rewrite HkI in *. set (kB := zlength B) in *.
    apply code_at_app in Hcode. destruct Hcode as [Hloop Hcode]. cbn [code_at] in Hloop. destruct Hloop as [Hfl _].
    apply code_at_app in Hcode. destruct Hcode as [HcN Hcode].
    apply code_at_app in Hcode. destruct Hcode as [HcT Hcode].
    apply code_at_app in Hcode. destruct Hcode as [Hj Hcode]. cbn [code_at] in Hj. destruct Hj as [Hfj _].
    apply code_at_app in Hcode. destruct Hcode as [HcI Hcode]. apply code_at_app in HcI. destruct HcI as [HcB HcP].
    apply code_at_app in Hcode. destruct Hcode as [Hjb Hend]. cbn [code_at] in Hjb, Hend. destruct Hjb as [Hfjb _]. destruct Hend as [Hfe _].
    rewrite !zlength1 in HcN, HcT, Hfj, HcB, HcP, Hfjb, Hfe. rewrite HkI in Hfjb, Hfe.
    change (zlength counter_test) with 4 in Hfj, HcB, HcP, Hfjb, Hfe. fold kN in HcT, Hfj, HcB, HcP, Hfjb, Hfe. fold kB in HcP, Hfjb, Hfe.
    set (P0 := m_pc s) in *.
    destruct (eval_rval rt mt fuel false ss cn) as [cnt sa|e sa|sa] eqn:Ev; cbn [sbind] in He; try discriminate.
    set (d := zlength (m_stack s)).
    set (s1 := advance (with_frames s (FLoop [] d :: m_frames s))).
    assert (E1 : esteps 1 im s = Some (s1, [])) by (apply (estep1 im s _ _ _ Hfl); reflexivity).
    assert (Hs1 : sim ss s1) by (destruct Hsim; constructor; cbn; assumption).
    assert (HcN1 : code_at im (m_pc s1) N) by exact HcN.
    destruct (val_counter_runs cn Hn fuel (fun k Hk => Hbs k ltac:(lia)) im ss s1 cnt sa [] d (m_frames s) Hload Hs1 eq_refl HcN1 Ev)
      as (nN & s2 & eN & r2 & HnN & Hs2 & Hpc2 & Hsk2 & Hfr2 & Her2 & HtN).
    fold N in Hpc2. fold kN in Hpc2.
    assert (Hin1 : in_loop_ok true (Some (4 + 1))) by (intros _; exists (4 + 1); reflexivity).
    assert (Hiter : forall f ss1 sx sg ssx lv c0 r,
              (f <= fuel0)%nat -> sim ss1 sx -> m_pc sx = P0 + 1 + kN -> m_frames sx = FLoop lv d :: r -> erase r = erase (m_frames s) -> lv_get lv LV_COUNTER = Some c0 -> m_stack sx = m_stack s ->
              iterate rt mt f false ss1 None (Some c0) None None a = ROk sg ssx ->
              (sg = SigNormal /\ exists n sy evs, esteps n im sx = Some (sy, evs) /\ sim ssx sy /\ m_pc sy = P0 + (kN + kB + 12) /\
                                           (m_stack sy, fr sy) = (m_stack s, fr s) /\ rev (s_trace ssx) = rev (s_trace ss1) ++ evs) \/
              (inr = true /\ exists v, sg = SigReturn v /\ returned im ss1 sx ssx v)).
    { induction f as [|f IHf]; intros ss1 sx sg ssx lv c0 r Hlef Hsx Hpcx Hfrx Herx Hlvx Hstx Hit; [discriminate|].
      assert (Hctx : call_tail (m_frames sx) = call_tail (m_frames s)) by (rewrite Hfrx; cbn [call_tail]; apply call_tail_fr_eq; exact Herx).
      assert (Hdx : in_depth_ok inr sx).
      { intros Hi. rewrite Hfrx, Hstx. cbn [depth_ok]. split; [apply Z.le_refl|]. apply (depth_ok_fr_eq (m_frames s) r); [symmetry; exact Herx|exact (Hd Hi)]. }
      assert (Hirx : in_ret_ok inr (m_frames sx)) by (intros Hi; destruct (Hir Hi) as (ret & F & H); exists ret, F; rewrite Hctx; exact H).
      rewrite iterate_count in Hit.
      destruct (positive c0) as [go|e] eqn:Epos; cbn [lift_res sbind] in Hit; [|discriminate].
      assert (HcTx : code_at im (m_pc sx) counter_test) by (rewrite Hpcx; exact HcT).
      destruct (counter_test_steps im sx lv d r c0 go Hfrx Hlvx Epos HcTx) as (res & Et & Hres).
      set (s3 := put_vm sx (DReg R_RESULT) res 4) in *.
      assert (Hs3 : sim ss1 s3) by (apply sim_put_reg_hidden; [exact Hsx|reflexivity|reflexivity]).
      assert (Hr3 : rf_get (m_regs s3) R_RESULT = Some res) by (unfold s3; cbn [put_vm m_regs]; apply rf_get_set_same).
      assert (Hpc3 : m_pc s3 = P0 + 1 + kN + 4) by (unfold s3; cbn [put_vm m_pc]; rewrite Hpcx; reflexivity).
      assert (Hfj3 : fetch im (m_pc s3) = Some (jump JC_IF_FALSE (kB + 4 + 2))) by (rewrite Hpc3; exact Hfj).
      pose proof (jump_if_false im s3 res (kB + 4 + 2) Hr3 Hfj3) as Ej. rewrite Hres in Ej.
      destruct go; cbn [negb] in Hit.
      - destruct (Sem.exec rt mt f false ss1 a) as [sgb sb|eb sb|sb] eqn:Eb; cbn [sbind] in Hit; try discriminate.
        set (s4 := with_pc s3 (m_pc s3 + 1)) in *.
        assert (HcB4 : code_at im (m_pc s4) B) by (unfold s4; cbn [with_pc m_pc]; rewrite Hpc3; exact HcB).
        assert (Hst4 : m_stack s4 = m_stack s /\ m_frames s4 = FLoop lv d :: r) by (split; assumption).
        destruct Hst4 as [Hsk4 Hfk4].
        assert (E34 : esteps (4 + 1) im sx = Some (s4, [] ++ [])) by (eapply esteps_app; eassumption).
        destruct (IHa (Some (4 + 1)) im ss1 s4 sgb sb f ltac:(lia) Hload Hin1 Hirx Hdx (sim_with_pc ss1 s3 _ Hs3) HcB4 Eb)
          as [[Hsgb (n5 & s5 & e5 & E5 & Hs5 & Hpc5 & Hst5 & Ht5)]|[[Hsgb (a' & Ha' & (n5 & s5 & e5 & E5 & Hs5 & Hpc5 & Hst5 & Ht5))]|[Hinr [v [Hsgb Hret]]]]]; subst sgb.
        + (* the body ends normally: count down, back to the test *)
          destruct (sub1 c0) as [c1|e] eqn:Esub; cbn [bind] in Hit; [|discriminate].
          destruct (loop_frame_kept s5 s4 s lv d r Hst5 Hsk4 Hfk4 Herx) as [Hsk5 (r5 & Hfk5 & Her5)].
          assert (Hpc5' : m_pc s5 = P0 + 1 + kN + 4 + 1 + kB) by (rewrite Hpc5; unfold s4; cbn [with_pc m_pc]; rewrite Hpc3; fold B; fold kB; reflexivity).
          assert (HcP5 : code_at im (m_pc s5) (counter_post None)) by (rewrite Hpc5'; exact HcP).
          pose proof (counter_post_steps im s5 lv d r5 c0 c1 Hfk5 Hlvx Esub HcP5) as E6.
          set (s6 := with_counter s5 c1 4) in *.
          assert (Hs6 : sim sb s6) by (apply sim_with_counter; exact Hs5).
          assert (Hfjb6 : fetch im (m_pc s6) = Some (jump JC_ALWAYS (- (4 + 1 + (kB + 4))))).
          { unfold s6. cbn [with_counter m_pc]. rewrite Hpc5'. replace (P0 + 1 + kN + 4 + 1 + kB + 4) with (P0 + 1 + kN + 4 + 1 + (kB + 4)) by lia. exact Hfjb. }
          pose proof (jump_always im s6 (- (4 + 1 + (kB + 4))) Hfjb6) as Ejb.
          set (s7 := with_pc s6 (m_pc s6 + - (4 + 1 + (kB + 4)))) in *.
          assert (E37 : esteps (4 + (1 + (n5 + (4 + 1)))) im sx = Some (s7, [] ++ ([] ++ (e5 ++ ([] ++ []))))) by (eapply esteps_app; [exact Et|eapply esteps_app; [exact Ej|eapply esteps_app; [exact E5|eapply esteps_app; [exact E6|exact Ejb]]]]).
          destruct (IHf sb s7 sg ssx (lv_set lv LV_COUNTER c1) c1 r5 ltac:(lia) (sim_with_pc sb s6 _ Hs6)) as [[Hsg (n8 & s8 & e8 & E8 & Hs8 & Hpc8 & Hst8 & Ht8)]|[Hinr [v [Hsg Hret]]]].
          { unfold s7. cbn [with_pc m_pc]. unfold s6. cbn [with_counter m_pc]. rewrite Hpc5'. lia. }
          { unfold s7, s6. cbn [with_pc with_counter m_frames]. rewrite Hfk5. reflexivity. }
          { exact Her5. }
          { apply lv_get_set. }
          { exact Hsk5. }
          { exact Hit. }
          * left. split; [exact Hsg|]. exists ((4 + (1 + (n5 + (4 + 1)))) + n8)%nat, s8, (([] ++ ([] ++ (e5 ++ ([] ++ [])))) ++ e8).
            split; [eapply esteps_app; [exact E37|exact E8]|].
            split; [exact Hs8|]. split; [exact Hpc8|]. split; [exact Hst8|]. cbn [app]. rewrite Ht8, Ht5, app_nil_r, app_assoc. reflexivity.
          * right. split; [exact Hinr|]. exists v. split; [exact Hsg|].
            apply (returned_rebase im ss1 sx sb s7 (4 + (1 + (n5 + (4 + 1))))%nat ([] ++ ([] ++ (e5 ++ ([] ++ [])))) ssx E37); [|refine (loop_states_ret_stack s s7 sx (lv_set lv LV_COUNTER c1) r5 lv r _ Her5 Hsk5 Hfrx Herx Hstx (Hd Hinr)); unfold s7, s6; cbn [with_pc with_counter m_frames]; rewrite Hfk5; reflexivity|cbn [app]; rewrite app_nil_r; exact Ht5|exact Hret].
            unfold s7, s6. cbn [with_pc with_counter m_frames]. rewrite Hfk5, Hctx. cbn [call_tail]. apply call_tail_fr_eq. exact Her5.
        + (* the body breaks: it has jumped over the count-down to END_LOOP *)
          injection Ha' as Ha'. subst a'. injection Hit as Hsg Hss. subst ssx.
          destruct (loop_frame_kept s5 s4 s lv d r Hst5 Hsk4 Hfk4 Herx) as [Hsk5 (r5 & Hfk5 & Her5)].
          assert (Hfe5 : fetch im (m_pc s5) = Some (I0 OC_END_LOOP)).
          { rewrite Hpc5. unfold s4. cbn [with_pc m_pc]. rewrite Hpc3. fold B. fold kB.
            replace (P0 + 1 + kN + 4 + 1 + kB + 5) with (P0 + 1 + kN + 4 + 1 + (kB + 4) + 1) by lia. exact Hfe. }
          destruct (end_loop_step im sb s5 s lv r5 Hs5 Hfe5 Hfk5 Her5 Hsk5) as (s6 & E6 & Hs6 & Hpc6 & Hst6).
          left. split; [auto|]. exists (4 + (1 + (n5 + 1)))%nat, s6, ([] ++ ([] ++ (e5 ++ []))).
          split; [eapply esteps_app; [exact Et|eapply esteps_app; [exact Ej|eapply esteps_app; [exact E5|exact E6]]]|].
          split; [exact Hs6|]. split; [rewrite Hpc6, Hpc5; unfold s4; cbn [with_pc m_pc]; rewrite Hpc3; fold B; fold kB; lia|].
          split; [exact Hst6|]. cbn [app]. rewrite app_nil_r. exact Ht5.
        + (* the body returns *)
          injection Hit as Hsg Hss. subst sg ssx. right. split; [exact Hinr|]. exists v. split; [reflexivity|].
          exact (returned_rebase im ss1 sx ss1 s4 (4 + 1)%nat ([] ++ []) sb E34 eq_refl eq_refl (eq_sym (app_nil_r _)) Hret).
      - (* the count is used up *)
        injection Hit as Hsg Hss. subst ssx.
        set (s4 := with_pc s3 (m_pc s3 + (kB + 4 + 2))) in *.
        assert (Hfe4 : fetch im (m_pc s4) = Some (I0 OC_END_LOOP)).
        { unfold s4. cbn [with_pc m_pc]. rewrite Hpc3. replace (P0 + 1 + kN + 4 + (kB + 4 + 2)) with (P0 + 1 + kN + 4 + 1 + (kB + 4) + 1) by lia. exact Hfe. }
        destruct (end_loop_step im ss1 s4 s lv r (sim_with_pc ss1 s3 _ Hs3) Hfe4 Hfrx Herx Hstx) as (s5 & E5 & Hs5 & Hpc5 & Hst5).
        left. split; [auto|]. exists (4 + (1 + 1))%nat, s5, ([] ++ ([] ++ [])).
        split; [eapply esteps_app; [exact Et|eapply esteps_app; [exact Ej|exact E5]]|].
        split; [exact Hs5|]. split; [rewrite Hpc5; unfold s4; cbn [with_pc m_pc]; rewrite Hpc3; lia|].
        split; [exact Hst5|]. rewrite app_nil_r. reflexivity. }
    destruct (Hiter fuel sa s2 sig ss' (lv_set [] LV_COUNTER cnt) cnt r2 ltac:(lia) Hs2) as [[Hsig (n & sy & evs & En & Hsy & Hpcy & Hsty & Hty)]|[Hinr [v [Hsig Hret]]]].
    { rewrite Hpc2. unfold s1. cbn [advance with_pc with_frames with_vars m_pc]. fold P0. reflexivity. }
    { exact Hfr2. }
    { exact Her2. }
    { apply lv_get_set. }
    { exact Hsk2. }
    { exact He. }
    + left. split; [exact Hsig|]. exists (1 + (nN + n))%nat, sy, ([] ++ (eN ++ evs)).
      split; [eapply esteps_app; [exact E1|eapply esteps_app; [exact HnN|exact En]]|]. split; [exact Hsy|].
      split; [rewrite Hpcy; unfold kN, kB, zlength; rewrite !app_length; cbn [length]; rewrite !Nat2Z.inj_add; change (Z.of_nat (length counter_test)) with 4; change (Z.of_nat (length (counter_post None))) with 4; lia|].
      split; [exact Hsty|]. cbn [app]. rewrite Hty, HtN, app_assoc. reflexivity.
    + right. right. split; [exact Hinr|]. exists v. split; [exact Hsig|].
      assert (E12 : esteps (1 + nN) im s = Some (s2, [] ++ eN)) by (eapply esteps_app; [exact E1|exact HnN]).
      apply (returned_rebase im ss s sa s2 (1 + nN)%nat ([] ++ eN) ss' E12); [|exact (loop_ret_stack s s2 (lv_set [] LV_COUNTER cnt) r2 [] Hfr2 Her2 Hsk2 (Hd Hinr))|exact HtN|exact Hret].
      rewrite Hfr2. cbn [call_tail]. apply call_tail_fr_eq. exact Her2.
  - (* endless repeat: left only by break *)
    intros inl inr a Ha IHa after im ss s sig ss' fuel Hle Hload _ Hir Hd Hsim Hcode He.
    destruct fuel as [|[|fuel]]; try discriminate. rewrite exec_infinite in He.
    rewrite c_loop_after, c_infinite, app_nil_r in *.
    pose proof (proj1 simpleB_no_routine true inr a Ha (Some 1)) as Hnrb.
    rewrite (len_no_routine _ Hnrb) in *.
    set (B := c_stmt rt mt false (Some 1) a) in *. set (kB := zlength B) in *.
    apply code_at_app in Hcode. destruct Hcode as [Hloop Hcode]. cbn [code_at] in Hloop. destruct Hloop as [Hfl _].
    apply code_at_app in Hcode. destruct Hcode as [HcT Hcode]. cbn [code_at] in HcT. destruct HcT as [Hft _].
    apply code_at_app in Hcode. destruct Hcode as [Hj Hcode]. cbn [code_at] in Hj. destruct Hj as [Hfj _].
    apply code_at_app in Hcode. destruct Hcode as [HcB Hcode].
    apply code_at_app in Hcode. destruct Hcode as [Hjb Hend]. cbn [code_at] in Hjb, Hend. destruct Hjb as [Hfjb _]. destruct Hend as [Hfe _].
    rewrite !zlength1 in Hft, Hfj, HcB, Hfjb, Hfe. fold kB in Hfjb, Hfe.
    set (P0 := m_pc s) in *.
    set (d := zlength (m_stack s)).
    set (s1 := advance (with_frames s (FLoop [] d :: m_frames s))).
    assert (E1 : esteps 1 im s = Some (s1, [])) by (apply (estep1 im s _ _ _ Hfl); reflexivity).
    assert (Hs1 : sim ss s1) by (destruct Hsim; constructor; cbn; assumption).
    assert (Hin1 : in_loop_ok true (Some 1)) by (intros _; exists 1; reflexivity).
    assert (Hiter : forall f ss1 sx sg ssx lv r,
              (f <= fuel0)%nat -> sim ss1 sx -> m_pc sx = P0 + 1 -> m_frames sx = FLoop lv d :: r -> erase r = erase (m_frames s) -> m_stack sx = m_stack s ->
              iterate rt mt f false ss1 None None None None a = ROk sg ssx ->
              (sg = SigNormal /\ exists n sy evs, esteps n im sx = Some (sy, evs) /\ sim ssx sy /\ m_pc sy = P0 + (1 + kB + 4) /\
                                           (m_stack sy, fr sy) = (m_stack s, fr s) /\ rev (s_trace ssx) = rev (s_trace ss1) ++ evs) \/
              (inr = true /\ exists v, sg = SigReturn v /\ returned im ss1 sx ssx v)).
    { induction f as [|f IHf]; intros ss1 sx sg ssx lv r Hlef Hsx Hpcx Hfrx Herx Hstx Hit; [discriminate|].
      assert (Hctx : call_tail (m_frames sx) = call_tail (m_frames s)) by (rewrite Hfrx; cbn [call_tail]; apply call_tail_fr_eq; exact Herx).
      assert (Hdx : in_depth_ok inr sx).
      { intros Hi. rewrite Hfrx, Hstx. cbn [depth_ok]. split; [apply Z.le_refl|]. apply (depth_ok_fr_eq (m_frames s) r); [symmetry; exact Herx|exact (Hd Hi)]. }
      assert (Hirx : in_ret_ok inr (m_frames sx)) by (intros Hi; destruct (Hir Hi) as (ret & F & H); exists ret, F; rewrite Hctx; exact H).
      rewrite iterate_infinite in Hit.
      assert (Hftx : fetch im (m_pc sx) = Some (I2 OC_MOVEQ (PBool true) (PReg R_RESULT))) by (rewrite Hpcx; exact Hft).
      set (s2 := put_vm sx (DReg R_RESULT) (VBool true) 1) in *.
      assert (Et : esteps 1 im sx = Some (s2, [])).
      { apply (estep1 im sx _ _ _ Hftx). change (PReg R_RESULT) with (dest_param (DReg R_RESULT)).
        rewrite (exec_moveq im sx (PBool true) (DReg R_RESULT) (VBool true) eq_refl eq_refl). apply lift_put; reflexivity. }
      assert (Hs2 : sim ss1 s2) by (apply sim_put_reg_hidden; [exact Hsx|reflexivity|reflexivity]).
      assert (Hr2 : rf_get (m_regs s2) R_RESULT = Some (VBool true)) by (unfold s2; cbn [put_vm m_regs]; apply rf_get_set_same).
      assert (Hpc2 : m_pc s2 = P0 + 1 + 1) by (unfold s2; cbn [put_vm m_pc]; rewrite Hpcx; reflexivity).
      assert (Hfj2 : fetch im (m_pc s2) = Some (jump JC_IF_FALSE (kB + 2))) by (rewrite Hpc2; exact Hfj).
      pose proof (jump_if_false im s2 (VBool true) (kB + 2) Hr2 Hfj2) as Ej. cbn [truthy] in Ej.
      destruct (Sem.exec rt mt f false ss1 a) as [sgb sb|eb sb|sb] eqn:Eb; cbn [sbind] in Hit; try discriminate.
      set (s3 := with_pc s2 (m_pc s2 + 1)) in *.
      assert (HcB3 : code_at im (m_pc s3) B) by (unfold s3; cbn [with_pc m_pc]; rewrite Hpc2; exact HcB).
      assert (Hst3 : m_stack s3 = m_stack s /\ m_frames s3 = FLoop lv d :: r) by (split; assumption).
      destruct Hst3 as [Hsk3 Hfk3].
      assert (E23 : esteps (1 + 1) im sx = Some (s3, [] ++ [])) by (eapply esteps_app; eassumption).
      destruct (IHa (Some 1) im ss1 s3 sgb sb f ltac:(lia) Hload Hin1 Hirx Hdx (sim_with_pc ss1 s2 _ Hs2) HcB3 Eb)
        as [[Hsgb (n3 & s4 & e4 & E4 & Hs4 & Hpc4 & Hst4 & Ht4)]|[[Hsgb (a' & Ha' & (n3 & s4 & e4 & E4 & Hs4 & Hpc4 & Hst4 & Ht4))]|[Hinr [v [Hsgb Hret]]]]]; subst sgb.
      + assert (Hfjb4 : fetch im (m_pc s4) = Some (jump JC_ALWAYS (- (1 + 1 + kB)))).
        { rewrite Hpc4. unfold s3. cbn [with_pc m_pc]. rewrite Hpc2. fold B. fold kB. exact Hfjb. }
        pose proof (jump_always im s4 (- (1 + 1 + kB)) Hfjb4) as Ejb.
        set (s5 := with_pc s4 (m_pc s4 + - (1 + 1 + kB))) in *.
        destruct (loop_frame_kept s4 s3 s lv d r Hst4 Hsk3 Hfk3 Herx) as [Hsk4 (r4 & Hfk4 & Her4)].
        assert (E25 : esteps (1 + (1 + (n3 + 1))) im sx = Some (s5, [] ++ ([] ++ (e4 ++ [])))) by (eapply esteps_app; [exact Et|eapply esteps_app; [exact Ej|eapply esteps_app; [exact E4|exact Ejb]]]).
        destruct (IHf sb s5 sg ssx lv r4 ltac:(lia) (sim_with_pc sb s4 _ Hs4)) as [[Hsg (n6 & s6 & e6 & E6 & Hs6 & Hpc6 & Hst6 & Ht6)]|[Hinr [v [Hsg Hret]]]].
        { unfold s5. cbn [with_pc m_pc]. rewrite Hpc4. unfold s3. cbn [with_pc m_pc]. rewrite Hpc2. fold B. fold kB. lia. }
        { exact Hfk4. }
        { exact Her4. }
        { exact Hsk4. }
        { exact Hit. }
        * left. split; [exact Hsg|]. exists ((1 + (1 + (n3 + 1))) + n6)%nat, s6, (([] ++ ([] ++ (e4 ++ []))) ++ e6).
          split; [eapply esteps_app; [exact E25|exact E6]|].
          split; [exact Hs6|]. split; [exact Hpc6|]. split; [exact Hst6|]. cbn [app]. rewrite Ht6, Ht4, app_nil_r, app_assoc. reflexivity.
        * right. split; [exact Hinr|]. exists v. split; [exact Hsg|].
          apply (returned_rebase im ss1 sx sb s5 (1 + (1 + (n3 + 1)))%nat ([] ++ ([] ++ (e4 ++ []))) ssx E25); [|exact (loop_states_ret_stack s s5 sx lv r4 lv r Hfk4 Her4 Hsk4 Hfrx Herx Hstx (Hd Hinr))|cbn [app]; rewrite app_nil_r; exact Ht4|exact Hret].
          change (m_frames s5) with (m_frames s4). rewrite Hfk4, Hctx. cbn [call_tail]. apply call_tail_fr_eq. exact Her4.
      + injection Ha' as Ha'. subst a'. injection Hit as Hsg Hss. subst ssx.
        destruct (loop_frame_kept s4 s3 s lv d r Hst4 Hsk3 Hfk3 Herx) as [Hsk4 (r4 & Hfk4 & Her4)].
        assert (Hfe4 : fetch im (m_pc s4) = Some (I0 OC_END_LOOP)).
        { rewrite Hpc4. unfold s3. cbn [with_pc m_pc]. rewrite Hpc2. fold B. fold kB. exact Hfe. }
        destruct (end_loop_step im sb s4 s lv r4 Hs4 Hfe4 Hfk4 Her4 Hsk4) as (s5 & E5 & Hs5 & Hpc5 & Hst5).
        left. split; [auto|]. exists (1 + (1 + (n3 + 1)))%nat, s5, ([] ++ ([] ++ (e4 ++ []))).
        split; [eapply esteps_app; [exact Et|eapply esteps_app; [exact Ej|eapply esteps_app; [exact E4|exact E5]]]|].
        split; [exact Hs5|]. split; [rewrite Hpc5, Hpc4; unfold s3; cbn [with_pc m_pc]; rewrite Hpc2; fold B; fold kB; lia|].
        split; [exact Hst5|]. cbn [app]. rewrite app_nil_r. exact Ht4.
      + (* the body returns *)
        injection Hit as Hsg Hss. subst sg ssx. right. split; [exact Hinr|]. exists v. split; [reflexivity|].
        exact (returned_rebase im ss1 sx ss1 s3 (1 + 1)%nat ([] ++ []) sb E23 eq_refl eq_refl (eq_sym (app_nil_r _)) Hret). }
    destruct (Hiter fuel ss s1 sig ss' [] (m_frames s) ltac:(lia) Hs1 eq_refl eq_refl eq_refl eq_refl He) as [[Hsig (n & sy & evs & En & Hsy & Hpcy & Hsty & Hty)]|[Hinr [v [Hsig Hret]]]].
    + left. split; [exact Hsig|]. exists (1 + n)%nat, sy, ([] ++ evs).
      split; [eapply esteps_app; [exact E1|exact En]|]. split; [exact Hsy|].
      split; [rewrite Hpcy; unfold kB, zlength; rewrite !app_length; cbn [length]; rewrite !Nat2Z.inj_add; lia|].
      split; [exact Hsty|exact Hty].
    + right. right. split; [exact Hinr|]. exists v. split; [exact Hsig|].
      exact (returned_rebase im ss s ss s1 1%nat [] ss' E1 eq_refl (loop_ret_stack s s1 [] (m_frames s) [] eq_refl eq_refl eq_refl (Hd Hinr)) (eq_sym (app_nil_r _)) Hret).
  - (* loops with an index variable: repeat with v from a to b, repeat n with v from a to b, repeat n with v cycle *)
    intros inl inr l v N a Hform Ha IHa after im ss s sig ss' fuel Hle Hload _ Hir Hd Hsim Hcode He.
    destruct Hform as (Hccode & HnrN & Hprep).
    destruct fuel as [|[|fuel]]; try discriminate.
    rewrite c_loop_after, Hccode in *.
    change (len (counter_post (Some v))) with 8 in *.
    pose proof (proj1 simpleB_no_routine true inr a Ha (Some (8 + 1))) as Hnrb.
    assert (Hnri : forallb not_routine (c_stmt rt mt false (Some (8 + 1)) a ++ counter_post (Some v)) = true) by (rewrite forallb_app, Hnrb; reflexivity).
    rewrite (len_no_routine _ Hnri) in *. change (len counter_test) with 4 in *.
    set (B := c_stmt rt mt false (Some (8 + 1)) a) in *.
    set (kN := zlength N) in *.
    assert (HkI : zlength (B ++ counter_post (Some v)) = zlength B + 8) by (unfold zlength; rewrite app_length, Nat2Z.inj_add; reflexivity).
    rewrite HkI in *. set (kB := zlength B) in *.
    apply code_at_app in Hcode. destruct Hcode as [Hloop Hcode]. cbn [code_at] in Hloop. destruct Hloop as [Hfl _].
    apply code_at_app in Hcode. destruct Hcode as [HcN Hcode].
    apply code_at_app in Hcode. destruct Hcode as [HcT Hcode].
    apply code_at_app in Hcode. destruct Hcode as [Hj Hcode]. cbn [code_at] in Hj. destruct Hj as [Hfj _].
    apply code_at_app in Hcode. destruct Hcode as [HcI Hcode]. apply code_at_app in HcI. destruct HcI as [HcB HcP].
    apply code_at_app in Hcode. destruct Hcode as [Hjb Hend]. cbn [code_at] in Hjb, Hend. destruct Hjb as [Hfjb _]. destruct Hend as [Hfe _].
    rewrite !zlength1 in *. fold kN in HcT, Hfj, HcB, HcP, Hfjb, Hfe. change (zlength counter_test) with 4 in *. rewrite HkI in *. fold kB in HcP, Hfjb, Hfe.
    set (P0 := m_pc s) in *.
    set (d := zlength (m_stack s)).
    set (s1 := advance (with_frames s (FLoop [] d :: m_frames s))).
    assert (E1 : esteps 1 im s = Some (s1, [])) by (apply (estep1 im s _ _ _ Hfl); reflexivity).
    assert (Hs1 : sim ss s1) by (destruct Hsim; constructor; cbn; assumption).
    assert (HcN1 : code_at im (m_pc s1) N) by exact HcN.
    destruct (Hprep fuel ss a sig ss' im s1 d (m_frames s) He Hs1 eq_refl HcN1)
      as (cnt & incr & ssp & nN & s2 & lv2 & r2 & He' & Htr0 & HnN & Hs2 & Hpc2 & Hfk2 & Her2 & Hsk2 & HlC2 & HlI2).
    clear He. rename He' into He. fold kN in Hpc2.
    assert (Hin1 : in_loop_ok true (Some (8 + 1))) by (intros _; exists (8 + 1); reflexivity).
    assert (Hiter : forall f ss1 sx sg ssx lv c0 r,
              (f <= fuel0)%nat -> sim ss1 sx -> m_pc sx = P0 + 1 + kN -> m_frames sx = FLoop lv d :: r -> erase r = erase (m_frames s) ->
              lv_get lv LV_COUNTER = Some c0 -> lv_val lv LV_INCR = incr -> m_stack sx = m_stack s ->
              iterate rt mt f false ss1 None (Some c0) (Some (v, incr)) None a = ROk sg ssx ->
              (sg = SigNormal /\ exists n sy evs, esteps n im sx = Some (sy, evs) /\ sim ssx sy /\ m_pc sy = P0 + (kN + kB + 16) /\
                                           (m_stack sy, fr sy) = (m_stack s, fr s) /\ rev (s_trace ssx) = rev (s_trace ss1) ++ evs) \/
              (inr = true /\ exists w, sg = SigReturn w /\ returned im ss1 sx ssx w)).
    { induction f as [|f IHf]; intros ss1 sx sg ssx lv c0 r Hlef Hsx Hpcx Hfrx Herx Hlvx HlvI Hstx Hit; [discriminate|].
      assert (Hctx : call_tail (m_frames sx) = call_tail (m_frames s)) by (rewrite Hfrx; cbn [call_tail]; apply call_tail_fr_eq; exact Herx).
      assert (Hdx : in_depth_ok inr sx).
      { intros Hi. rewrite Hfrx, Hstx. cbn [depth_ok]. split; [apply Z.le_refl|]. apply (depth_ok_fr_eq (m_frames s) r); [symmetry; exact Herx|exact (Hd Hi)]. }
      assert (Hirx : in_ret_ok inr (m_frames sx)) by (intros Hi; destruct (Hir Hi) as (ret & F & H); exists ret, F; rewrite Hctx; exact H).
      rewrite iterate_idx in Hit.
      destruct (positive c0) as [go|e] eqn:Epos; cbn [lift_res sbind] in Hit; [|discriminate].
      assert (HcTx : code_at im (m_pc sx) counter_test) by (rewrite Hpcx; exact HcT).
      destruct (counter_test_steps im sx lv d r c0 go Hfrx Hlvx Epos HcTx) as (res & Et & Hres).
      set (s3 := put_vm sx (DReg R_RESULT) res 4) in *.
      assert (Hs3 : sim ss1 s3) by (apply sim_put_reg_hidden; [exact Hsx|reflexivity|reflexivity]).
      assert (Hr3 : rf_get (m_regs s3) R_RESULT = Some res) by (unfold s3; cbn [put_vm m_regs]; apply rf_get_set_same).
      assert (Hpc3 : m_pc s3 = P0 + 1 + kN + 4) by (unfold s3; cbn [put_vm m_pc]; rewrite Hpcx; reflexivity).
      assert (Hfj3 : fetch im (m_pc s3) = Some (jump JC_IF_FALSE (kB + 8 + 2))) by (rewrite Hpc3; exact Hfj).
      pose proof (jump_if_false im s3 res (kB + 8 + 2) Hr3 Hfj3) as Ej. rewrite Hres in Ej.
      destruct go; cbn [negb] in Hit.
      - destruct (Sem.exec rt mt f false ss1 a) as [sgb sb|eb sb|sb] eqn:Eb; cbn [sbind] in Hit; try discriminate.
        set (s4 := with_pc s3 (m_pc s3 + 1)) in *.
        assert (HcB4 : code_at im (m_pc s4) B) by (unfold s4; cbn [with_pc m_pc]; rewrite Hpc3; exact HcB).
        assert (Hst4 : m_stack s4 = m_stack s /\ m_frames s4 = FLoop lv d :: r) by (split; assumption).
        destruct Hst4 as [Hsk4 Hfk4].
        assert (E34 : esteps (4 + 1) im sx = Some (s4, [] ++ [])) by (eapply esteps_app; eassumption).
        destruct (IHa (Some (8 + 1)) im ss1 s4 sgb sb f ltac:(lia) Hload Hin1 Hirx Hdx (sim_with_pc ss1 s3 _ Hs3) HcB4 Eb)
          as [[Hsgb (n5 & s5 & e5 & E5 & Hs5 & Hpc5 & Hst5 & Ht5)]|[[Hsgb (a' & Ha' & (n5 & s5 & e5 & E5 & Hs5 & Hpc5 & Hst5 & Ht5))]|[Hinr [w [Hsgb Hret]]]]]; subst sgb.
        + (* the body ends normally: count down, step the index variable, back to the test *)
          destruct (sub1 c0) as [c1|e] eqn:Esub; cbn [bind] in Hit; [|discriminate].
          destruct (idx_next sb v incr) as [nv|e] eqn:Eidx; [|discriminate].
          destruct (loop_frame_kept s5 s4 s lv d r Hst5 Hsk4 Hfk4 Herx) as [Hsk5 (r5 & Hfk5 & Her5)].
          assert (Hpc5' : m_pc s5 = P0 + 1 + kN + 4 + 1 + kB) by (rewrite Hpc5; unfold s4; cbn [with_pc m_pc]; rewrite Hpc3; fold B; fold kB; reflexivity).
          assert (HcP5 : code_at im (m_pc s5) (counter_post (Some v))) by (rewrite Hpc5'; exact HcP).
          assert (HlvI' : lv_get lv LV_INCR = Some incr) by (apply (lv_val_some lv LV_INCR incr HlvI); exact (idx_next_incr sb v incr nv Eidx)).
          destruct (range_post_steps im sb s5 v lv d r5 c0 c1 incr nv Hs5 Hfk5 Hlvx HlvI' Esub Eidx HcP5)
            as (s6 & lv6 & r6 & E6 & Hs6 & Hpc6 & Hfk6 & Her6 & Hsk6 & HlC6 & HlI6).
          assert (Hfjb6 : fetch im (m_pc s6) = Some (jump JC_ALWAYS (- (4 + 1 + (kB + 8))))).
          { rewrite Hpc6, Hpc5'. replace (P0 + 1 + kN + 4 + 1 + kB + 8) with (P0 + 1 + kN + 4 + 1 + (kB + 8)) by lia. exact Hfjb. }
          pose proof (jump_always im s6 (- (4 + 1 + (kB + 8))) Hfjb6) as Ejb.
          set (s7 := with_pc s6 (m_pc s6 + - (4 + 1 + (kB + 8)))) in *.
          assert (E37 : esteps (4 + (1 + (n5 + (8 + 1)))) im sx = Some (s7, [] ++ ([] ++ (e5 ++ ([] ++ []))))) by (eapply esteps_app; [exact Et|eapply esteps_app; [exact Ej|eapply esteps_app; [exact E5|eapply esteps_app; [exact E6|exact Ejb]]]]).
          destruct (assign_other_fields sb v nv) as (_ & _ & Htr).
          destruct (IHf (assign sb v nv) s7 sg ssx lv6 c1 r6 ltac:(lia) (sim_with_pc _ s6 _ Hs6)) as [[Hsg (n8 & s8 & e8 & E8 & Hs8 & Hpc8 & Hst8 & Ht8)]|[Hinr [w [Hsg Hret]]]].
          { unfold s7. cbn [with_pc m_pc]. rewrite Hpc6, Hpc5'. lia. }
          { exact Hfk6. }
          { rewrite Her6. exact Her5. }
          { exact HlC6. }
          { unfold lv_val. rewrite HlI6. reflexivity. }
          { unfold s7. cbn [with_pc m_stack]. rewrite Hsk6. exact Hsk5. }
          { exact Hit. }
          * left. split; [exact Hsg|]. exists ((4 + (1 + (n5 + (8 + 1)))) + n8)%nat, s8, (([] ++ ([] ++ (e5 ++ ([] ++ [])))) ++ e8).
            split; [eapply esteps_app; [exact E37|exact E8]|].
            split; [exact Hs8|]. split; [exact Hpc8|]. split; [exact Hst8|]. cbn [app]. rewrite Ht8, Htr, Ht5, app_nil_r, app_assoc. reflexivity.
          * right. split; [exact Hinr|]. exists w. split; [exact Hsg|].
            apply (returned_rebase im ss1 sx (assign sb v nv) s7 (4 + (1 + (n5 + (8 + 1))))%nat ([] ++ ([] ++ (e5 ++ ([] ++ [])))) ssx E37); [|refine (loop_states_ret_stack s s7 sx lv6 r6 lv r Hfk6 _ _ Hfrx Herx Hstx (Hd Hinr)); [rewrite Her6; exact Her5|unfold s7; cbn [with_pc m_stack]; rewrite Hsk6; exact Hsk5]|cbn [app]; rewrite app_nil_r, Htr; exact Ht5|exact Hret].
            unfold s7. cbn [with_pc m_frames]. rewrite Hfk6, Hctx. cbn [call_tail]. apply call_tail_fr_eq. rewrite Her6. exact Her5.
        + (* the body breaks: it has jumped over the count-down to END_LOOP *)
          injection Ha' as Ha'. subst a'. injection Hit as Hsg Hss. subst ssx.
          destruct (loop_frame_kept s5 s4 s lv d r Hst5 Hsk4 Hfk4 Herx) as [Hsk5 (r5 & Hfk5 & Her5)].
          assert (Hfe5 : fetch im (m_pc s5) = Some (I0 OC_END_LOOP)).
          { rewrite Hpc5. unfold s4. cbn [with_pc m_pc]. rewrite Hpc3. fold B. fold kB.
            replace (P0 + 1 + kN + 4 + 1 + kB + 9) with (P0 + 1 + kN + 4 + 1 + (kB + 8) + 1) by lia. exact Hfe. }
          destruct (end_loop_step im sb s5 s lv r5 Hs5 Hfe5 Hfk5 Her5 Hsk5) as (s6 & E6 & Hs6 & Hpc6 & Hst6).
          left. split; [auto|]. exists (4 + (1 + (n5 + 1)))%nat, s6, ([] ++ ([] ++ (e5 ++ []))).
          split; [eapply esteps_app; [exact Et|eapply esteps_app; [exact Ej|eapply esteps_app; [exact E5|exact E6]]]|].
          split; [exact Hs6|]. split; [rewrite Hpc6, Hpc5; unfold s4; cbn [with_pc m_pc]; rewrite Hpc3; fold B; fold kB; lia|].
          split; [exact Hst6|]. cbn [app]. rewrite app_nil_r. exact Ht5.
        + (* the body returns *)
          injection Hit as Hsg Hss. subst sg ssx. right. split; [exact Hinr|]. exists w. split; [reflexivity|].
          exact (returned_rebase im ss1 sx ss1 s4 (4 + 1)%nat ([] ++ []) sb E34 eq_refl eq_refl (eq_sym (app_nil_r _)) Hret).
      - (* the count is used up *)
        injection Hit as Hsg Hss. subst ssx.
        set (s4 := with_pc s3 (m_pc s3 + (kB + 8 + 2))) in *.
        assert (Hfe4 : fetch im (m_pc s4) = Some (I0 OC_END_LOOP)).
        { unfold s4. cbn [with_pc m_pc]. rewrite Hpc3. replace (P0 + 1 + kN + 4 + (kB + 8 + 2)) with (P0 + 1 + kN + 4 + 1 + (kB + 8) + 1) by lia. exact Hfe. }
        destruct (end_loop_step im ss1 s4 s lv r (sim_with_pc ss1 s3 _ Hs3) Hfe4 Hfrx Herx Hstx) as (s5 & E5 & Hs5 & Hpc5 & Hst5).
        left. split; [auto|]. exists (4 + (1 + 1))%nat, s5, ([] ++ ([] ++ [])).
        split; [eapply esteps_app; [exact Et|eapply esteps_app; [exact Ej|exact E5]]|].
        split; [exact Hs5|]. split; [rewrite Hpc5; unfold s4; cbn [with_pc m_pc]; rewrite Hpc3; lia|].
        split; [exact Hst5|]. rewrite app_nil_r. reflexivity. }
    destruct (Hiter fuel ssp s2 sig ss' lv2 cnt r2 ltac:(lia) Hs2) as [[Hsig (n & sy & evs & En & Hsy & Hpcy & Hsty & Hty)]|[Hinr [w [Hsig Hret]]]].
    { rewrite Hpc2. unfold s1. cbn [advance with_pc with_frames with_vars m_pc]. fold P0. lia. }
    { exact Hfk2. }
    { exact Her2. }
    { exact HlC2. }
    { exact HlI2. }
    { exact Hsk2. }
    { exact He. }
    + left. split; [exact Hsig|]. exists (1 + (nN + n))%nat, sy, ([] ++ ([] ++ evs)).
      split; [eapply esteps_app; [exact E1|eapply esteps_app; [exact HnN|exact En]]|]. split; [exact Hsy|].
      split; [rewrite Hpcy; unfold kN, kB, zlength; rewrite !app_length; cbn [length]; rewrite !Nat2Z.inj_add; change (Z.of_nat (length counter_test)) with 4; change (Z.of_nat (length (counter_post (Some v)))) with 8; lia|].
      split; [exact Hsty|]. rewrite Hty, Htr0. reflexivity.
    + right. right. split; [exact Hinr|]. exists w. split; [exact Hsig|].
      assert (E12 : esteps (1 + nN) im s = Some (s2, [] ++ [])) by (eapply esteps_app; [exact E1|exact HnN]).
      apply (returned_rebase im ss s ssp s2 (1 + nN)%nat ([] ++ []) ss' E12); [|exact (loop_ret_stack s s2 lv2 r2 [] Hfk2 Her2 Hsk2 (Hd Hinr))|rewrite Htr0; symmetry; apply app_nil_r|exact Hret].
      rewrite Hfk2. cbn [call_tail]. apply call_tail_fr_eq. exact Her2.
  - (* loops over lights, groups or locations: one name per pass, popped into the loop variable *)
    intros inl inr l x ov N a Hform Ha IHa after im ss s sig ss' fuel Hle Hload _ Hir Hd Hsim Hcode He.
    destruct Hform as (Hccode & HnrN & Hprep).
    rewrite c_loop_after, Hccode in *.
    set (K := zlength (counter_post ov)) in *.
    assert (HlenP : len (counter_post ov) = K) by (apply len_no_routine; apply counter_post_no_routine).
    rewrite HlenP in *.
    pose proof (proj1 simpleB_no_routine true inr a Ha (Some (K + 1))) as Hnrb.
    set (B := c_stmt rt mt false (Some (K + 1)) a) in *.
    assert (Hnri : forallb not_routine ([I1 OC_POP (PStr x)] ++ B ++ counter_post ov) = true) by (rewrite !forallb_app, Hnrb, counter_post_no_routine; reflexivity).
    rewrite (len_no_routine _ Hnri) in *. change (len counter_test) with 4 in *.
    set (kN := zlength N) in *.
    assert (HkI : zlength ([I1 OC_POP (PStr x)] ++ B ++ counter_post ov) = 1 + zlength B + K) by (unfold K, zlength; rewrite !app_length, !Nat2Z.inj_add; cbn [length]; lia).
    rewrite HkI in *. set (kB := zlength B) in *.
    apply code_at_app in Hcode. destruct Hcode as [Hloop Hcode]. cbn [code_at] in Hloop. destruct Hloop as [Hfl _].
    apply code_at_app in Hcode. destruct Hcode as [HcN Hcode].
    apply code_at_app in Hcode. destruct Hcode as [HcT Hcode].
    apply code_at_app in Hcode. destruct Hcode as [Hj Hcode]. cbn [code_at] in Hj. destruct Hj as [Hfj _].
    apply code_at_app in Hcode. destruct Hcode as [HcI Hcode]. apply code_at_app in HcI. destruct HcI as [Hpop HcI]. cbn [code_at] in Hpop. destruct Hpop as [Hfp _].
    apply code_at_app in HcI. destruct HcI as [HcB HcP].
    apply code_at_app in Hcode. destruct Hcode as [Hjb Hend]. cbn [code_at] in Hjb, Hend. destruct Hjb as [Hfjb _]. destruct Hend as [Hfe _].
    rewrite !zlength1 in *. fold kN in HcT, Hfj, Hfp, HcB, HcP, Hfjb, Hfe. change (zlength counter_test) with 4 in *. rewrite HkI in *. fold kB in HcP, Hfjb, Hfe.
    set (P0 := m_pc s) in *.
    set (d := zlength (m_stack s)).
    set (s1 := advance (with_frames s (FLoop [] d :: m_frames s))).
    assert (E1 : esteps 1 im s = Some (s1, [])) by (apply (estep1 im s _ _ _ Hfl); reflexivity).
    assert (Hs1 : sim ss s1) by (destruct Hsim; constructor; cbn; assumption).
    assert (HcN1 : code_at im (m_pc s1) N) by exact HcN.
    destruct (Hprep fuel ss a sig ss' im s1 d (m_frames s) He Hs1 eq_refl HcN1)
      as (f' & names0 & idx & ssp & nN & s2 & lv2 & r2 & Hf' & He' & Hidx2 & Htr0 & HnN & Hs2 & Hpc2 & Hfk2 & Her2 & Hsk2 & HlC2).
    clear He. fold kN in Hpc2.
    assert (Hin1 : in_loop_ok true (Some (K + 1))) by (intros _; exists (K + 1); reflexivity).
    assert (Hiter : forall f ss1 sx sg ssx lv names r,
              (f <= fuel0)%nat -> sim ss1 sx -> m_pc sx = P0 + 1 + kN -> m_frames sx = FLoop lv d :: r -> erase r = erase (m_frames s) ->
              lv_get lv LV_COUNTER = Some (VInt (Z.of_nat (length names))) -> idx_ok ov idx lv -> m_stack sx = names ++ m_stack s ->
              iterate rt mt f false ss1 None (Some (VInt (Z.of_nat (length names)))) idx (Some (x, names)) a = ROk sg ssx ->
              (sg = SigNormal /\ exists n sy evs, esteps n im sx = Some (sy, evs) /\ sim ssx sy /\ m_pc sy = P0 + (kN + kB + K + 9) /\
                                          (m_stack sy, fr sy) = (m_stack s, fr s) /\ rev (s_trace ssx) = rev (s_trace ss1) ++ evs) \/
              (inr = true /\ exists w, sg = SigReturn w /\ returned im ss1 sx ssx w)).
    { induction f as [|f IHf]; intros ss1 sx sg ssx lv names r Hlef Hsx Hpcx Hfrx Herx Hlvx Hidx Hstx Hit; [discriminate|].
      rewrite iterate_lights in Hit.
      set (c0 := VInt (Z.of_nat (length names))) in *.
      destruct (positive c0) as [go|e] eqn:Epos; cbn [lift_res sbind] in Hit; [|discriminate].
      assert (HcTx : code_at im (m_pc sx) counter_test) by (rewrite Hpcx; exact HcT).
      destruct (counter_test_steps im sx lv d r c0 go Hfrx Hlvx Epos HcTx) as (res & Et & Hres).
      set (s3 := put_vm sx (DReg R_RESULT) res 4) in *.
      assert (Hs3 : sim ss1 s3) by (apply sim_put_reg_hidden; [exact Hsx|reflexivity|reflexivity]).
      assert (Hr3 : rf_get (m_regs s3) R_RESULT = Some res) by (unfold s3; cbn [put_vm m_regs]; apply rf_get_set_same).
      assert (Hpc3 : m_pc s3 = P0 + 1 + kN + 4) by (unfold s3; cbn [put_vm m_pc]; rewrite Hpcx; reflexivity).
      assert (Hfj3 : fetch im (m_pc s3) = Some (jump JC_IF_FALSE (1 + kB + K + 2))) by (rewrite Hpc3; exact Hfj).
      pose proof (jump_if_false im s3 res (1 + kB + K + 2) Hr3 Hfj3) as Ej. rewrite Hres in Ej.
      destruct go; cbn [negb] in Hit.
      - (* a pass: the next name goes into x *)
        pose proof (positive_len names Epos) as Hne. destruct names as [|v rest]; [contradiction|]. cbv beta iota zeta in Hit.
        destruct (Sem.exec rt mt f false (assign ss1 x v) a) as [sgb sb|eb sb|sb] eqn:Eb; cbn [sbind] in Hit; try discriminate.
        set (s4 := with_pc s3 (m_pc s3 + 1)) in *.
        assert (Hs4 : sim ss1 s4) by (apply sim_with_pc; exact Hs3).
        assert (Hfp4 : fetch im (m_pc s4) = Some (I1 OC_POP (PStr x))) by (unfold s4; cbn [with_pc m_pc]; rewrite Hpc3; exact Hfp).
        assert (Hst4 : m_stack s4 = v :: (rest ++ m_stack s)) by exact Hstx.
        assert (Hfr4 : m_frames s4 = FLoop lv d :: r) by exact Hfrx.
        destruct (pop_var_step im ss1 s4 x v (rest ++ m_stack s) lv d r Hs4 Hfp4 Hst4 Hfr4) as (s5 & r5 & E5 & Hs5 & Hpc5 & Hfr5 & Her5 & Hst5).
        assert (Hpc5' : m_pc s5 = P0 + 1 + kN + 4 + 1 + 1) by (rewrite Hpc5; unfold s4; cbn [with_pc m_pc]; rewrite Hpc3; reflexivity).
        assert (HcB5 : code_at im (m_pc s5) B) by (rewrite Hpc5'; exact HcB).
        assert (Her5' : erase r5 = erase (m_frames s)) by (rewrite Her5; exact Herx).
        assert (Hct5 : call_tail (m_frames s5) = call_tail (m_frames s)) by (rewrite Hfr5; cbn [call_tail]; apply call_tail_fr_eq; exact Her5').
        assert (Hctx : call_tail (m_frames sx) = call_tail (m_frames s)) by (rewrite Hfrx; cbn [call_tail]; apply call_tail_fr_eq; exact Herx).
        assert (Hir5 : in_ret_ok inr (m_frames s5)) by (intros Hi; destruct (Hir Hi) as (ret & F & H); exists ret, F; rewrite Hct5; exact H).
        assert (Hd5 : in_depth_ok inr s5) by (intros Hi; rewrite Hfr5, Hst5; exact (depth_ok_in_loop lv r5 rest (m_frames s) (m_stack s) Her5' (Hd Hi))).
        assert (E45 : esteps (4 + (1 + 1)) im sx = Some (s5, [] ++ ([] ++ []))) by (eapply esteps_app; [exact Et|eapply esteps_app; [exact Ej|exact E5]]).
        destruct (assign_other_fields ss1 x v) as (_ & _ & Htrx).
        destruct (IHa (Some (K + 1)) im (assign ss1 x v) s5 sgb sb f ltac:(lia) Hload Hin1 Hir5 Hd5 Hs5 HcB5 Eb)
          as [[Hsgb (n6 & s6 & e6 & E6 & Hs6 & Hpc6 & Hst6 & Ht6)]|[[Hsgb (a' & Ha' & (n6 & s6 & e6 & E6 & Hs6 & Hpc6 & Hst6 & Ht6))]|[Hinr [w [Hsgb Hret]]]]]; subst sgb.
        + (* the body ends normally: count down, step the `with` variable, back to the test *)
          destruct (sub1 c0) as [c1|e] eqn:Esub; cbn [bind] in Hit; [|discriminate].
          pose proof (sub1_len v rest c1 Esub) as Hc1. subst c1.
          destruct (idx_step sb idx) as [ssn|e] eqn:Estep; [|discriminate].
          destruct (loop_frame_kept_any s6 s5 lv d r5 Hst6 Hfr5) as [Hsk6 (r6 & Hfr6 & Her6)].
          assert (Hpc6' : m_pc s6 = P0 + 1 + kN + 4 + 1 + 1 + kB) by (rewrite Hpc6, Hpc5'; fold B; fold kB; reflexivity).
          assert (HcP6 : code_at im (m_pc s6) (counter_post ov)) by (rewrite Hpc6'; exact HcP).
          destruct (light_post_steps im sb s6 ov idx lv d r6 c0 _ ssn Hs6 Hfr6 Hlvx Hidx Esub Estep HcP6)
            as (n7 & s7 & lv7 & r7 & E7 & Hs7 & Hpc7 & Hfr7 & Her7 & Hsk7 & HlC7 & Hidx7 & Htr7).
          fold K in Hpc7.
          assert (Hfjb7 : fetch im (m_pc s7) = Some (jump JC_ALWAYS (- (4 + 1 + (1 + kB + K))))).
          { rewrite Hpc7, Hpc6'. replace (P0 + 1 + kN + 4 + 1 + 1 + kB + K) with (P0 + 1 + kN + 4 + 1 + (1 + kB + K)) by lia. exact Hfjb. }
          pose proof (jump_always im s7 (- (4 + 1 + (1 + kB + K))) Hfjb7) as Ejb.
          set (s8 := with_pc s7 (m_pc s7 + - (4 + 1 + (1 + kB + K)))) in *.
          assert (E48 : esteps (4 + (1 + (1 + (n6 + (n7 + 1))))) im sx = Some (s8, [] ++ ([] ++ ([] ++ (e6 ++ ([] ++ [])))))).
          { eapply esteps_app; [exact Et|eapply esteps_app; [exact Ej|eapply esteps_app; [exact E5|eapply esteps_app; [exact E6|eapply esteps_app; [exact E7|exact Ejb]]]]]. }
          destruct (IHf ssn s8 sg ssx lv7 rest r7 ltac:(lia) (sim_with_pc _ s7 _ Hs7)) as [[Hsg (n9 & s9 & e9 & E9 & Hs9 & Hpc9 & Hst9 & Ht9)]|[Hinr [w [Hsg Hret]]]].
          { unfold s8. cbn [with_pc m_pc]. rewrite Hpc7, Hpc6'. lia. }
          { exact Hfr7. }
          { rewrite Her7, Her6, Her5. exact Herx. }
          { exact HlC7. }
          { exact Hidx7. }
          { unfold s8. cbn [with_pc m_stack]. rewrite Hsk7, Hsk6. exact Hst5. }
          { exact Hit. }
          * left. split; [exact Hsg|]. exists ((4 + (1 + (1 + (n6 + (n7 + 1))))) + n9)%nat, s9, (([] ++ ([] ++ ([] ++ (e6 ++ ([] ++ []))))) ++ e9).
            split; [eapply esteps_app; [exact E48|exact E9]|].
            split; [exact Hs9|]. split; [exact Hpc9|]. split; [exact Hst9|]. cbn [app]. rewrite Ht9, Htr7, Ht6, Htrx, app_nil_r, app_assoc. reflexivity.
          * right. split; [exact Hinr|]. exists w. split; [exact Hsg|].
            assert (Her7' : erase r7 = erase (m_frames s)) by (rewrite Her7, Her6; exact Her5').
            assert (Hf8 : m_frames s8 = FLoop lv7 d :: r7) by exact Hfr7.
            assert (Hs8k : m_stack s8 = rest ++ m_stack s) by (unfold s8; cbn [with_pc m_stack]; rewrite Hsk7, Hsk6; exact Hst5).
            apply (returned_rebase im ss1 sx ssn s8 (4 + (1 + (1 + (n6 + (n7 + 1)))))%nat ([] ++ ([] ++ ([] ++ (e6 ++ ([] ++ []))))) ssx E48); [| |cbn [app]; rewrite app_nil_r, Htr7, Ht6, Htrx; reflexivity|exact Hret].
            { rewrite Hf8, Hctx. cbn [call_tail]. apply call_tail_fr_eq. exact Her7'. }
            { rewrite (loop_ret_stack s s8 lv7 r7 rest Hf8 Her7' Hs8k (Hd Hinr)), (loop_ret_stack s sx lv r (v :: rest) Hfrx Herx Hstx (Hd Hinr)). reflexivity. }
        + (* the body breaks: END_LOOP drops the names not yet visited *)
          assert (Ha'' : a' = K + 1) by (injection Ha' as H; rewrite <- H; reflexivity). clear Ha'. subst a'. injection Hit as Hsg Hss. subst ssx.
          destruct (loop_frame_kept_any s6 s5 lv d r5 Hst6 Hfr5) as [Hsk6 (r6 & Hfr6 & Her6)].
          assert (Hfe6 : fetch im (m_pc s6) = Some (I0 OC_END_LOOP)).
          { rewrite Hpc6, Hpc5'. fold B. fold kB.
            replace (P0 + 1 + kN + 4 + 1 + 1 + kB + (K + 1)) with (P0 + 1 + kN + 4 + 1 + (1 + kB + K) + 1) by lia. exact Hfe. }
          assert (Her6' : erase r6 = erase (m_frames s)) by (rewrite Her6, Her5; exact Herx).
          assert (Hsk6' : m_stack s6 = rest ++ m_stack s) by (rewrite Hsk6; exact Hst5).
          destruct (end_loop_step_extra im sb s6 s lv r6 rest Hs6 Hfe6 Hfr6 Her6' Hsk6') as (s7 & E7 & Hs7 & Hpc7 & Hst7).
          left. split; [auto|]. exists (4 + (1 + (1 + (n6 + 1))))%nat, s7, ([] ++ ([] ++ ([] ++ (e6 ++ [])))).
          split; [eapply esteps_app; [exact Et|eapply esteps_app; [exact Ej|eapply esteps_app; [exact E5|eapply esteps_app; [exact E6|exact E7]]]]|].
          split; [exact Hs7|]. split; [rewrite Hpc7, Hpc6, Hpc5'; fold B; fold kB; lia|].
          split; [exact Hst7|]. cbn [app]. rewrite app_nil_r, Ht6, Htrx. reflexivity.
        + (* the body returns: the names not yet visited go with the loop frames *)
          injection Hit as Hsg Hss. subst sg ssx. right. split; [exact Hinr|]. exists w. split; [reflexivity|].
          apply (returned_rebase im ss1 sx (assign ss1 x v) s5 (4 + (1 + 1))%nat ([] ++ ([] ++ [])) sb E45); [| |cbn [app]; rewrite app_nil_r, Htrx; reflexivity|exact Hret].
          { rewrite Hct5, Hctx. reflexivity. }
          { rewrite (loop_ret_stack s s5 lv r5 rest Hfr5 Her5' Hst5 (Hd Hinr)), (loop_ret_stack s sx lv r (v :: rest) Hfrx Herx Hstx (Hd Hinr)). reflexivity. }
      - (* no name is left *)
        injection Hit as Hsg Hss. subst ssx.
        set (s4 := with_pc s3 (m_pc s3 + (1 + kB + K + 2))) in *.
        assert (Hfe4 : fetch im (m_pc s4) = Some (I0 OC_END_LOOP)).
        { unfold s4. cbn [with_pc m_pc]. rewrite Hpc3. replace (P0 + 1 + kN + 4 + (1 + kB + K + 2)) with (P0 + 1 + kN + 4 + 1 + (1 + kB + K) + 1) by lia. exact Hfe. }
        destruct (end_loop_step_extra im ss1 s4 s lv r names (sim_with_pc ss1 s3 _ Hs3) Hfe4 Hfrx Herx Hstx) as (s5 & E5 & Hs5 & Hpc5 & Hst5).
        left. split; [auto|]. exists (4 + (1 + 1))%nat, s5, ([] ++ ([] ++ [])).
        split; [eapply esteps_app; [exact Et|eapply esteps_app; [exact Ej|exact E5]]|].
        split; [exact Hs5|]. split; [rewrite Hpc5; unfold s4; cbn [with_pc m_pc]; rewrite Hpc3; lia|].
        split; [exact Hst5|]. rewrite app_nil_r. reflexivity. }
    destruct (Hiter f' ssp s2 sig ss' lv2 names0 r2 ltac:(lia) Hs2) as [[Hsig (n & sy & evs & En & Hsy & Hpcy & Hsty & Hty)]|[Hinr [w [Hsig Hret]]]].
    { rewrite Hpc2. unfold s1. cbn [advance with_pc with_frames with_vars m_pc]. fold P0. lia. }
    { exact Hfk2. }
    { exact Her2. }
    { exact HlC2. }
    { exact Hidx2. }
    { exact Hsk2. }
    { exact He'. }
    + left. split; [exact Hsig|]. exists (1 + (nN + n))%nat, sy, ([] ++ ([] ++ evs)).
      split; [eapply esteps_app; [exact E1|eapply esteps_app; [exact HnN|exact En]]|]. split; [exact Hsy|].
      split; [rewrite Hpcy; unfold K, kN, kB, zlength; rewrite !app_length; cbn [length]; rewrite !Nat2Z.inj_add; change (Z.of_nat (length counter_test)) with 4; lia|].
      split; [exact Hsty|]. rewrite Hty, Htr0. reflexivity.
    + right. right. split; [exact Hinr|]. exists w. split; [exact Hsig|].
      assert (E12 : esteps (1 + nN) im s = Some (s2, [] ++ [])) by (eapply esteps_app; [exact E1|exact HnN]).
      apply (returned_rebase im ss s ssp s2 (1 + nN)%nat ([] ++ []) ss' E12); [|exact (loop_ret_stack s s2 lv2 r2 names0 Hfk2 Her2 Hsk2 (Hd Hinr))|rewrite Htr0; symmetry; apply app_nil_r|exact Hret].
      rewrite Hfk2. cbn [call_tail]. apply call_tail_fr_eq. exact Her2.
  - (* empty sequence *)
    intros inl inr after im ss s sig ss' fuel Hle _ _ _ _ Hsim Hc He. destruct fuel as [|fuel]; [discriminate|]. rewrite exec_seq_nil in He.
    injection He as Hsig He. subst ss'. left. split; [auto|]. rewrite c_block_nil. unfold zlength. cbn [length]. rewrite Z.add_0_r.
    apply sim_to_refl. exact Hsim.
  - (* sequence *)
    intros inl inr st r Hst IHst Hr IHr after im ss s sig ss' fuel Hle Hload Hin Hir Hd Hsim Hc He.
    destruct fuel as [|fuel]; [discriminate|]. rewrite exec_seq_cons in He. rewrite c_block_cons_after in *.
    pose proof (proj2 simpleB_no_routine inl inr r Hr after) as Hnrr. rewrite (len_no_routine _ Hnrr) in *.
    set (rest := c_stmt rt mt false after (SBlock r)) in *.
    set (after_st := option_map (fun a : Z => a + zlength rest) after) in *.
    set (first := c_stmt rt mt false after_st st) in *.
    destruct (Sem.exec rt mt fuel false ss st) as [sg sa|e sa|sa] eqn:Est; cbn [sbind] in He; try discriminate.
    apply code_at_app in Hc. destruct Hc as [Hc1 Hc2].
    assert (Hlen : zlength (first ++ rest) = zlength first + zlength rest) by (unfold zlength; rewrite app_length, Nat2Z.inj_add; reflexivity).
    destruct (IHst after_st im ss s sg sa fuel ltac:(lia) Hload (in_loop_ok_map inl after _ Hin) Hir Hd Hsim Hc1 Est) as [[Hsg (n1 & s1 & e1 & E1 & Hs1 & Hpc1 & Hst1 & Ht1)]|[[Hsg (a' & Ha' & Hto)]|[Hinr [v [Hsg Hret]]]]].
    + subst sg.
      assert (Hc2' : code_at im (m_pc s1) rest) by (rewrite Hpc1; exact Hc2).
      destruct (fr_eq_facts s1 s Hst1) as [Hsk1 [Hct1 [Hdp1 _]]].
      assert (Hir1 : in_ret_ok inr (m_frames s1)) by (intros Hi; destruct (Hir Hi) as (ret & F & H); exists ret, F; rewrite Hct1; exact H).
      assert (Hd1 : in_depth_ok inr s1) by (intros Hi; rewrite Hsk1; apply Hdp1; exact (Hd Hi)).
      pose proof (IHr after im sa s1 sig ss' fuel ltac:(lia) Hload Hin Hir1 Hd1 Hs1 Hc2' He) as Ho.
      apply (outcome_after_steps inr after im ss s sa s1 n1 e1 sig ss' rest); [exact E1|exact Hst1|exact Ht1| |exact Ho].
      rewrite Hpc1, Hlen. unfold first. ring.
    + subst sg. injection He as Hsig Hss. subst sig ss'.
      right. left. split; [reflexivity|]. unfold after_st in Ha'. destruct after as [a0|]; cbn [option_map] in Ha'; [|discriminate]. injection Ha' as Ha'. subst a'.
      exists a0. split; [reflexivity|]. rewrite Hlen.
      replace (m_pc s + (zlength first + zlength rest) + a0) with (m_pc s + zlength first + (a0 + zlength rest)) by ring. exact Hto.
    + subst sg. injection He as Hsig Hss. subst sig ss'. right. right. split; [exact Hinr|]. exists v. split; [reflexivity|exact Hret].
Qed.

Theorem simpleB_simulation : bodies_ok ->
  (forall inl inr st, SimpleB inl inr st ->
     forall after im ss s sig ss' fuel, routines_loaded im -> in_loop_ok inl after -> in_ret_ok inr (m_frames s) ->
     in_depth_ok inr s -> sim ss s -> code_at im (m_pc s) (c_stmt rt mt false after st) ->
     Sem.exec rt mt fuel false ss st = ROk sig ss' -> outcome inr after im ss s sig ss' (c_stmt rt mt false after st)) /\
  (forall inl inr l, SimpleBL inl inr l ->
     forall after im ss s sig ss' fuel, routines_loaded im -> in_loop_ok inl after -> in_ret_ok inr (m_frames s) ->
     in_depth_ok inr s -> sim ss s -> code_at im (m_pc s) (c_stmt rt mt false after (SBlock l)) ->
     exec_seq rt mt fuel false ss l = ROk sig ss' -> outcome inr after im ss s sig ss' (c_stmt rt mt false after (SBlock l))).
Proof.
  intros Hbodies. split.
  - intros inl inr st Hst after im ss s sig ss' fuel. exact (proj1 (simpleB_simulation_upto Hbodies fuel) inl inr st Hst after im ss s sig ss' fuel (le_n _)).
  - intros inl inr l Hl after im ss s sig ss' fuel. exact (proj2 (simpleB_simulation_upto Hbodies fuel) inl inr l Hl after im ss s sig ss' fuel (le_n _)).
Qed.



End Sim3.

(* where the machine stands afterwards, and that nothing is left dangling (the statement of C05 for this fragment) *)
Theorem structured_control_leads_where_the_source_says :
  forall rt mt, bodies_ok rt mt -> forall inl inr st, SimpleB rt mt inl inr st ->
  forall after im ss s sig ss' fuel, routines_loaded rt mt im -> in_loop_ok inl after -> in_ret_ok inr (m_frames s) ->
  in_depth_ok inr s -> sim ss s -> code_at im (m_pc s) (c_stmt rt mt false after st) ->
  Sem.exec rt mt fuel false ss st = ROk sig ss' ->
  (sig = SigNormal /\ exists n s' evs, esteps n im s = Some (s', evs) /\ m_pc s' = m_pc s + zlength (c_stmt rt mt false after st) /\
                                       (m_stack s', fr s') = (m_stack s, fr s)) \/
  (sig = SigBreak /\ exists a n s' evs, after = Some a /\ esteps n im s = Some (s', evs) /\
                                        m_pc s' = m_pc s + zlength (c_stmt rt mt false after st) + a /\
                                        (m_stack s', fr s') = (m_stack s, fr s)) \/
  (exists v, sig = SigReturn v /\ exists ret F n s' evs, call_tail (m_frames s) = Some (ret, F) /\ esteps n im s = Some (s', evs) /\
                                        m_pc s' = ret + 1 /\ m_frames s' = F /\ m_stack s' = ret_stack (m_frames s) (m_stack s)).
Proof.
  intros rt mt Hbodies inl inr st Hst after im ss s sig ss' fuel Hload Hin Hir Hd Hsim Hc He.
  destruct (proj1 (simpleB_simulation rt mt Hbodies) inl inr st Hst after im ss s sig ss' fuel Hload Hin Hir Hd Hsim Hc He)
    as [[Hsig (n & s' & evs & E & _ & Hpc & Hsf & _)]|[[Hsig (a & Ha & n & s' & evs & E & _ & Hpc & Hsf & _)]|[_ [v [Hsig (ret & F & Hct & n & s' & evs & E & _ & Hpc & Hfr & Hsk & _)]]]]].
  - left. split; [exact Hsig|]. exists n, s', evs. split; [exact E|]. split; [exact Hpc|exact Hsf].
  - right. left. split; [exact Hsig|]. exists a, n, s', evs. split; [exact Ha|]. split; [exact E|]. split; [exact Hpc|exact Hsf].
  - right. right. exists v. split; [exact Hsig|]. exists ret, F, n, s', evs. repeat split; assumption.
Qed.

(* loops with an index variable (C04): the preparation code leaves the count and the increment the reference semantics computes and
   the first value in the variable; the variable is assigned like any other variable (in the routine's own dictionary inside a
   routine); the compiled code leads where the source says *)
Theorem indexed_loop_simulation :
  forall rt mt, bodies_ok rt mt -> forall (inr : bool) l v pre body, idx_form rt mt l v pre -> SimpleB rt mt true inr body ->
  forall after im ss s sig ss' fuel, routines_loaded rt mt im -> in_ret_ok inr (m_frames s) ->
  in_depth_ok inr s -> sim ss s ->
  code_at im (m_pc s) (c_stmt rt mt false after (SRepeat l body)) ->
  Sem.exec rt mt fuel false ss (SRepeat l body) = ROk sig ss' ->
  outcome inr after im ss s sig ss' (c_stmt rt mt false after (SRepeat l body)).
Proof.
  intros rt mt Hbodies inr l v pre body Hform Hbody after im ss s sig ss' fuel Hload Hir Hd Hsim Hc He.
  assert (Hil : in_loop_ok false after) by (intros H; discriminate).
  exact (proj1 (simpleB_simulation rt mt Hbodies) false inr _ (B_idx rt mt false inr l v pre body Hform Hbody) after im ss s sig ss' fuel Hload Hil Hir Hd Hsim Hc He).
Qed.

(* repeat with v from a to b: the count is |b - a| + 1, the step +1 or -1 *)
Theorem range_loop_simulation :
  forall rt mt, bodies_ok rt mt -> forall (inr : bool) v a b body, plain_rval mt a = true -> plain_rval mt b = true -> SimpleB rt mt true inr body ->
  forall after im ss s sig ss' fuel, routines_loaded rt mt im -> in_ret_ok inr (m_frames s) ->
  in_depth_ok inr s -> sim ss s ->
  code_at im (m_pc s) (c_stmt rt mt false after (SRepeat (LRange v a b) body)) ->
  Sem.exec rt mt fuel false ss (SRepeat (LRange v a b) body) = ROk sig ss' ->
  outcome inr after im ss s sig ss' (c_stmt rt mt false after (SRepeat (LRange v a b) body)).
Proof. intros rt mt Hbodies inr v a b body Ha Hb. exact (indexed_loop_simulation rt mt Hbodies inr _ _ _ body (range_idx_form rt mt v a b Ha Hb)). Qed.

(* repeat n with v from a to b: n values, the step (b - a) / (n - 1), or 0 when n is 1 *)
Theorem interpolating_loop_simulation :
  forall rt mt, bodies_ok rt mt -> forall (inr : bool) n v a b body, plain_rval mt n = true -> plain_rval mt a = true -> plain_rval mt b = true -> SimpleB rt mt true inr body ->
  forall after im ss s sig ss' fuel, routines_loaded rt mt im -> in_ret_ok inr (m_frames s) ->
  in_depth_ok inr s -> sim ss s ->
  code_at im (m_pc s) (c_stmt rt mt false after (SRepeat (LCountWith n (WRange v a b)) body)) ->
  Sem.exec rt mt fuel false ss (SRepeat (LCountWith n (WRange v a b)) body) = ROk sig ss' ->
  outcome inr after im ss s sig ss' (c_stmt rt mt false after (SRepeat (LCountWith n (WRange v a b)) body)).
Proof. intros rt mt Hbodies inr n v a b body Hn Ha Hb. exact (indexed_loop_simulation rt mt Hbodies inr _ _ _ body (cw_range_idx_form rt mt n v a b Hn Ha Hb)). Qed.

(* repeat n with v cycle [start]: n values, the step a full turn (360, or 65536 in raw units) / n, from start or 0 *)
Theorem cycle_loop_simulation :
  forall rt mt, bodies_ok rt mt -> forall (inr : bool) n v start body, plain_rval mt n = true -> plain_opt mt start = true -> SimpleB rt mt true inr body ->
  forall after im ss s sig ss' fuel, routines_loaded rt mt im -> in_ret_ok inr (m_frames s) ->
  in_depth_ok inr s -> sim ss s ->
  code_at im (m_pc s) (c_stmt rt mt false after (SRepeat (LCountWith n (WCycle v start)) body)) ->
  Sem.exec rt mt fuel false ss (SRepeat (LCountWith n (WCycle v start)) body) = ROk sig ss' ->
  outcome inr after im ss s sig ss' (c_stmt rt mt false after (SRepeat (LCountWith n (WCycle v start)) body)).
Proof. intros rt mt Hbodies inr n v start body Hn Ha. exact (indexed_loop_simulation rt mt Hbodies inr _ _ _ body (cw_cycle_idx_form rt mt n v start Hn Ha)). Qed.

(* loops over lights (C04): `repeat all as x`, `repeat group as g`, `repeat location as l`, each with or without a `with` clause:
   the preparation code pushes the names -- for every population, an empty name included -- and counts them; every pass binds the
   next name, in name order, each exactly once; the body may break or return (the names not yet visited go with the loop frame: END_LOOP and RETURN cut the stack back) *)
Theorem light_loop_simulation :
  forall rt mt, bodies_ok rt mt -> forall (inr : bool) l x ov pre body, light_form rt mt l x ov pre -> SimpleB rt mt true inr body ->
  forall after im ss s sig ss' fuel, routines_loaded rt mt im -> in_ret_ok inr (m_frames s) -> in_depth_ok inr s -> sim ss s ->
  code_at im (m_pc s) (c_stmt rt mt false after (SRepeat l body)) ->
  Sem.exec rt mt fuel false ss (SRepeat l body) = ROk sig ss' ->
  outcome inr after im ss s sig ss' (c_stmt rt mt false after (SRepeat l body)).
Proof.
  intros rt mt Hbodies inr l x ov pre body Hform Hbody after im ss s sig ss' fuel Hload Hir Hd Hsim Hc He.
  assert (Hil : in_loop_ok false after) by (intros H; discriminate).
  exact (proj1 (simpleB_simulation rt mt Hbodies) false inr _ (B_lights rt mt false inr l x ov pre body Hform Hbody) after im ss s sig ss' fuel Hload Hil Hir Hd Hsim Hc He).
Qed.

(* a call: the arguments are evaluated in the caller's scope, the body runs with the parameters as its own variables (by
   value: assigning to one changes the routine's dictionary only), and afterwards the machine is behind the call with the
   caller's stack and frames as they were (C03); the routine may call other routines and itself, to any depth the reference
   run reaches *)
Theorem call_simulation :
  forall rt mt, bodies_ok rt mt -> forall f args b d, builtin_params f builtin_table = None -> find_rdef rt f = Some d ->
  plain_args rt mt args (rd_params d) = true ->
  forall after im ss s sig ss' fuel, routines_loaded rt mt im -> sim ss s ->
  code_at im (m_pc s) (c_stmt rt mt false after (SCall f args b)) ->
  Sem.exec rt mt fuel false ss (SCall f args b) = ROk sig ss' ->
  sig = SigNormal /\
  exists n s' evs, esteps n im s = Some (s', evs) /\ sim ss' s' /\ m_pc s' = m_pc s + zlength (c_stmt rt mt false after (SCall f args b)) /\
                   (m_stack s', fr s') = (m_stack s, fr s) /\ rev (s_trace ss') = rev (s_trace ss) ++ evs.
Proof.
  intros rt mt Hbodies f args b d Hb Hf Hpl after im ss s sig ss' fuel Hload Hsim Hc He.
  assert (Hd : in_depth_ok false s) by (intros H; discriminate).
  assert (Hsig : sig = SigNormal).
  { destruct fuel as [|fuel]; [discriminate|]. rewrite exec_call in He.
    destruct (call rt mt fuel false ss f args) as [v s1|e s1|s1]; cbn [sbind] in He; try discriminate. injection He as <- _. reflexivity. }
  subst sig. split; [reflexivity|].
  assert (Hir : in_ret_ok false (m_frames s)) by (intros H; discriminate).
  assert (Hin : in_loop_ok false after) by (intros H; discriminate).
  destruct (proj1 (simpleB_simulation rt mt Hbodies) false false (SCall f args b) (B_call rt mt false false f args b d Hb Hf Hpl) after im ss s SigNormal ss' fuel Hload
              Hin Hir Hd Hsim Hc He) as [[_ Hto]|[[H _]|[_ [v [H _]]]]]; try discriminate.
  exact Hto.
Qed.

(* the value of a call, where a statement takes it directly: `assign y [f ...]`, `hue [f ...]`, `print [f ...]`, `println [f ...]` *)
Theorem call_value_simulation :
  forall rt mt, bodies_ok rt mt -> forall u f args d, builtin_params f builtin_table = None -> find_rdef rt f = Some d ->
  plain_args rt mt args (rd_params d) = true -> must_return (rd_body d) = true -> use_ok u = true ->
  forall after im ss s sig ss' fuel, routines_loaded rt mt im -> sim ss s ->
  code_at im (m_pc s) (c_stmt rt mt false after (use_stmt u (RCall f args))) ->
  Sem.exec rt mt fuel false ss (use_stmt u (RCall f args)) = ROk sig ss' ->
  sig = SigNormal /\
  exists n s' evs, esteps n im s = Some (s', evs) /\ sim ss' s' /\ m_pc s' = m_pc s + zlength (c_stmt rt mt false after (use_stmt u (RCall f args))) /\
                   (m_stack s', fr s') = (m_stack s, fr s) /\ rev (s_trace ss') = rev (s_trace ss) ++ evs.
Proof.
  intros rt mt Hbodies u f args d Hb Hf Hpl Hmr Hok after im ss s sig ss' fuel Hload Hsim Hc He.
  assert (Hd : in_depth_ok false s) by (intros H; discriminate).
  assert (Hsig : sig = SigNormal).
  { destruct fuel as [|fuel]; [discriminate|]. rewrite exec_use in He.
    destruct (eval_rval rt mt fuel false ss (RCall f args)) as [v s1|e s1|s1]; cbn [sbind] in He; try discriminate. injection He as <- _. reflexivity. }
  subst sig. split; [reflexivity|].
  assert (Hir : in_ret_ok false (m_frames s)) by (intros H; discriminate).
  assert (Hin : in_loop_ok false after) by (intros H; discriminate).
  destruct (proj1 (simpleB_simulation rt mt Hbodies) false false _ (B_calluse rt mt false false u f args d Hb Hf Hpl Hmr Hok) after im ss s SigNormal ss' fuel Hload
              Hin Hir Hd Hsim Hc He) as [[_ Hto]|[[H _]|[_ [v [H _]]]]]; try discriminate.
  exact Hto.
Qed.

(* the value of a built-in function (round, floor, sqrt, ...) taken directly by a statement *)
Theorem builtin_value_simulation :
  forall rt mt, bodies_ok rt mt -> forall u f args ps, builtin_params f builtin_table = Some ps ->
  plain_args rt mt args ps = true -> use_ok u = true ->
  forall after im ss s sig ss' fuel, routines_loaded rt mt im -> sim ss s ->
  code_at im (m_pc s) (c_stmt rt mt false after (use_stmt u (RCall f args))) ->
  Sem.exec rt mt fuel false ss (use_stmt u (RCall f args)) = ROk sig ss' ->
  sig = SigNormal /\
  exists n s' evs, esteps n im s = Some (s', evs) /\ sim ss' s' /\ m_pc s' = m_pc s + zlength (c_stmt rt mt false after (use_stmt u (RCall f args))) /\
                   (m_stack s', fr s') = (m_stack s, fr s) /\ rev (s_trace ss') = rev (s_trace ss) ++ evs.
Proof.
  intros rt mt Hbodies u f args ps Hb Hpl Hok after im ss s sig ss' fuel Hload Hsim Hc He.
  assert (Hd : in_depth_ok false s) by (intros H; discriminate).
  assert (Hsig : sig = SigNormal).
  { destruct fuel as [|fuel]; [discriminate|]. rewrite exec_use in He.
    destruct (eval_rval rt mt fuel false ss (RCall f args)) as [v s1|e s1|s1]; cbn [sbind] in He; try discriminate. injection He as <- _. reflexivity. }
  subst sig. split; [reflexivity|].
  assert (Hir : in_ret_ok false (m_frames s)) by (intros H; discriminate).
  assert (Hin : in_loop_ok false after) by (intros H; discriminate).
  destruct (proj1 (simpleB_simulation rt mt Hbodies) false false _ (B_builtinuse rt mt false false u f args ps Hb Hpl Hok) after im ss s SigNormal ss' fuel Hload
              Hin Hir Hd Hsim Hc He) as [[_ Hto]|[[H _]|[_ [v [H _]]]]]; try discriminate.
  exact Hto.
Qed.

(* an expression with calls inside -- `assign y {n * [f {n - 1}]}`, `hue {[g] + 10}`, `print {[round x] / 2}` *)
Theorem expression_call_simulation :
  forall rt mt, bodies_ok rt mt -> forall u e, CExpr rt mt e -> use_ok u = true ->
  forall after im ss s sig ss' fuel, routines_loaded rt mt im -> sim ss s ->
  code_at im (m_pc s) (c_stmt rt mt false after (use_stmt u (RExpr e))) ->
  Sem.exec rt mt fuel false ss (use_stmt u (RExpr e)) = ROk sig ss' ->
  sig = SigNormal /\
  exists n s' evs, esteps n im s = Some (s', evs) /\ sim ss' s' /\ m_pc s' = m_pc s + zlength (c_stmt rt mt false after (use_stmt u (RExpr e))) /\
                   (m_stack s', fr s') = (m_stack s, fr s) /\ rev (s_trace ss') = rev (s_trace ss) ++ evs.
Proof.
  intros rt mt Hbodies u e He0 Hok after im ss s sig ss' fuel Hload Hsim Hc He.
  assert (Hd : in_depth_ok false s) by (intros H; discriminate).
  assert (Hsig : sig = SigNormal).
  { destruct fuel as [|fuel]; [discriminate|]. rewrite exec_use in He.
    destruct (eval_rval rt mt fuel false ss (RExpr e)) as [v s1|er s1|s1]; cbn [sbind] in He; try discriminate. injection He as <- _. reflexivity. }
  subst sig. split; [reflexivity|].
  assert (Hir : in_ret_ok false (m_frames s)) by (intros H; discriminate).
  assert (Hin : in_loop_ok false after) by (intros H; discriminate).
  destruct (proj1 (simpleB_simulation rt mt Hbodies) false false _ (B_useexpr rt mt false false u e He0 Hok) after im ss s SigNormal ss' fuel Hload
              Hin Hir Hd Hsim Hc He) as [[_ Hto]|[[H _]|[_ [v [H _]]]]]; try discriminate.
  exact Hto.
Qed.

(* a boolean test for the covered statements (sound for SimpleB / SimpleBL) *)
Section CheckB.
Variable rt : rtable.
Variable mt : mtable.
(* a call in the place of a value: the routine exists, takes ordinary values and always leaves through a return *)
Definition callval_b (v : rval) : bool :=
  match v with
  | RCall g args =>
      match builtin_params g builtin_table, find_rdef rt g with
      | Some ps, _ => plain_args rt mt args ps
      | None, Some d => plain_args rt mt args (rd_params d) && must_return (rd_body d)
      | _, _ => false
      end
  | _ => false
  end.
(* an expression whose calls are calls of built-in functions or of routines that always return, with ordinary values as arguments *)
Fixpoint cexpr_b (e : expr) : bool :=
  (supported mt e && regs_visible e) ||
  match e with
  | ECall g args => callval_b (RCall g args)
  | EBin _ a b => cexpr_b a && cexpr_b b
  | ENeg a | EPos a | EParen a => cexpr_b a
  | _ => false
  end.
Definition valexpr_b (v : rval) : bool := match v with RExpr e => cexpr_b e | _ => false end.
Fixpoint simpleB_b (fuel : nat) (inl inr : bool) (st : stmt) : bool :=
  match fuel with
  | O => false
  | S f =>
      simple_atom mt st ||
      match st with
      | SBreak => inl
      | SAssign _ v | SPrint (Some v) | SPrintln (Some v) => callval_b v || valexpr_b v
      | SReg r v => script_reg r && (callval_b v || valexpr_b v)
      | SReturn (Some v) => inr && (plain_rval mt v || callval_b v || valexpr_b v)
      | SReturn None => inr
      | SCall g args _ =>
          match builtin_params g builtin_table, find_rdef rt g with
          | None, Some d => plain_args rt mt args (rd_params d)
          | _, _ => false
          end
      | SPrintf fmt args =>
          match printf_names fmt, printf_positional fmt with
          | Some names, Some k => forallb (plain_rval mt) args && (zlength args <=? k) && names_visible names
          | _, _ => false
          end
      | SIf c a None => (plain_rval mt c || callval_b c || valexpr_b c) && simpleB_b f inl inr a
      | SIf c a (Some b) => (plain_rval mt c || callval_b c || valexpr_b c) && simpleB_b f inl inr a && simpleB_b f inl inr b
      | SBlock l => forallb (simpleB_b f inl inr) l
      | SRepeat (LWhile c) a => (plain_rval mt c || callval_b c || valexpr_b c) && simpleB_b f true inr a
      | SRepeat (LCount n) a => (plain_rval mt n || callval_b n || valexpr_b n) && simpleB_b f true inr a
      | SRepeat LInfinite a => simpleB_b f true inr a
      | SRepeat (LRange v x y) a => plain_rval mt x && plain_rval mt y && simpleB_b f true inr a
      | SRepeat (LCountWith n (WRange v x y)) a => plain_rval mt n && plain_rval mt x && plain_rval mt y && simpleB_b f true inr a
      | SRepeat (LCountWith n (WCycle v start)) a => plain_rval mt n && plain_opt mt start && simpleB_b f true inr a
      | SRepeat (LAll x w) a => plain_with_opt mt w && simpleB_b f true inr a
      | SRepeat (LGroups x w) a => plain_with_opt mt w && simpleB_b f true inr a
      | SRepeat (LLocations x w) a => plain_with_opt mt w && simpleB_b f true inr a
      | SRepeat (LIn srcs x w) a => forallb (plain_src mt) srcs && plain_with_opt mt w && simpleB_b f true inr a
      | _ => false
      end
  end.

Lemma simpleB_b_sound fuel : forall inl inr st, simpleB_b fuel inl inr st = true -> SimpleB rt mt inl inr st.
Proof.
  induction fuel as [|f IH]; intros inl inr st H; [discriminate|]. cbn [simpleB_b] in H.
  destruct (simple_atom mt st) eqn:Ea; [apply B_simple; apply S_atom; exact Ea|]. cbn [orb] in H.
  assert (Hcv : forall v, callval_b v = true -> exists g args, v = RCall g args /\
             ((exists ps, builtin_params g builtin_table = Some ps /\ plain_args rt mt args ps = true) \/
              (exists d, builtin_params g builtin_table = None /\ find_rdef rt g = Some d /\ plain_args rt mt args (rd_params d) = true /\ must_return (rd_body d) = true))).
  { intros v Hv. destruct v as [l|l|m|m|y|r|e|g args]; try discriminate. cbn [callval_b] in Hv. exists g, args. split; [reflexivity|].
    destruct (builtin_params g builtin_table) as [ps|] eqn:Eb; [left; exists ps; split; [reflexivity|exact Hv]|]. destruct (find_rdef rt g) as [d|] eqn:Ef; [|discriminate].
    apply andb_true_iff in Hv. destruct Hv as [Hp Hm]. right. exists d. repeat split; assumption. }
  assert (Hce : forall e, cexpr_b e = true -> CExpr rt mt e).
  { induction e as [l|m|x|r|g args|op a IHa b IHb|a IHa|a IHa|a IHa]; cbn [cexpr_b]; intros He;
      (destruct (supported mt _ && regs_visible _) eqn:Es; [apply andb_true_iff in Es; destruct Es as [E1 E2]; exact (CE_pure rt mt _ E1 E2)|]);
      cbn [orb] in He; try discriminate.
    - destruct (Hcv (RCall g args) He) as (g' & args' & Heq & [(ps & Hb & Hp)|(d & Hb & Hf & Hp & Hm)]); injection Heq as <- <-.
      + exact (CE_builtin rt mt g args ps Hb Hp).
      + exact (CE_call rt mt g args d Hb Hf Hp Hm).
    - apply andb_true_iff in He. destruct He as [Ha Hb]. apply CE_bin; [apply IHa; exact Ha|apply IHb; exact Hb].
    - apply CE_neg. apply IHa. exact He.
    - apply CE_pos. apply IHa. exact He.
    - apply CE_paren. apply IHa. exact He. }
  assert (Huse : forall u v, callval_b v || valexpr_b v = true -> use_ok u = true -> SimpleB rt mt inl inr (use_stmt u v)).
  { intros u v Hv Hok. apply orb_true_iff in Hv. destruct Hv as [Hv|Hv].
    - destruct (Hcv v Hv) as (g & args & -> & [(ps & Hb & Hp)|(d & Hb & Hf & Hp & Hm)]).
      + exact (B_builtinuse rt mt inl inr u g args ps Hb Hp Hok).
      + exact (B_calluse rt mt inl inr u g args d Hb Hf Hp Hm Hok).
    - destruct v as [l|l|m|m|y|r|e|g args]; try discriminate. exact (B_useexpr rt mt inl inr u e (Hce e Hv) Hok). }
  assert (Hval : forall v, plain_rval mt v || callval_b v || valexpr_b v = true -> ValOk rt mt v).
  { intros v Hv. apply orb_true_iff in Hv. destruct Hv as [Hv|Hv]; [apply orb_true_iff in Hv; destruct Hv as [Hv|Hv]|].
    - exact (V_plain rt mt v Hv).
    - destruct (Hcv v Hv) as (g & args & -> & [(ps & Hb & Hp)|(d & Hb & Hf & Hp & Hm)]); [exact (V_builtin rt mt g args ps Hb Hp)|exact (V_call rt mt g args d Hb Hf Hp Hm)].
    - destruct v as [l|l|m|m|y|r|e|g args]; try discriminate. exact (V_expr rt mt e (Hce e Hv)). }
  destruct st; try discriminate.
  - (* register setting with the value of a call *)
    apply andb_true_iff in H. destruct H as [Hr Hv]. exact (Huse (UReg r) v Hv Hr).
  - (* assignment of the value of a call *)
    exact (Huse (UAssign x) v H eq_refl).
  - (* call *)
    destruct (builtin_params f0 builtin_table) eqn:Eb; [discriminate|]. destruct (find_rdef rt f0) as [d|] eqn:Ef; [|discriminate].
    exact (B_call rt mt inl inr f0 args bracketed d Eb Ef H).
  - (* return *)
    destruct v as [v|].
    + apply andb_true_iff in H. destruct H as [Hr Hv]. subst inr. apply orb_true_iff in Hv. destruct Hv as [Hv|Hv].
      * apply orb_true_iff in Hv. destruct Hv as [Hv|Hv]; [apply B_return; exact Hv|].
        destruct (Hcv v Hv) as (g & args & -> & [(ps & Hb & Hp)|(d & Hb & Hf & Hp & Hm)]).
        -- exact (B_builtinret rt mt inl g args ps Hb Hp).
        -- exact (B_callret rt mt inl g args d Hb Hf Hp Hm).
      * destruct v as [l|l|m|m|y|r|e|g args]; try discriminate. exact (B_retexpr rt mt inl e (Hce e Hv)).
    + subst inr. apply B_return0.
  - destruct s2 as [b|].
    + apply andb_true_iff in H. destruct H as [H Hb]. apply andb_true_iff in H. destruct H as [Hc Ha].
      apply B_ifelse; [exact (Hval c Hc)|apply IH; exact Ha|apply IH; exact Hb].
    + apply andb_true_iff in H. destruct H as [Hc Ha]. apply B_if; [exact (Hval c Hc)|apply IH; exact Ha].
  - destruct l; try discriminate.
    + apply B_infinite. apply IH. exact H.
    + apply andb_true_iff in H. destruct H as [Hc Ha]. apply B_while; [exact (Hval c Hc)|apply IH; exact Ha].
    + apply andb_true_iff in H. destruct H as [Hc Ha]. apply B_count; [exact (Hval n Hc)|apply IH; exact Ha].
    + apply andb_true_iff in H. destruct H as [H Ha]. apply andb_true_iff in H. destruct H as [Hx Hy].
      apply (B_idx rt mt inl inr _ _ _ _ (range_idx_form rt mt _ _ _ Hx Hy)). apply IH. exact Ha.
    + match goal with w : loop_with |- _ => destruct w end.
      * apply andb_true_iff in H. destruct H as [H Ha]. apply andb_true_iff in H. destruct H as [H Hy]. apply andb_true_iff in H. destruct H as [Hn Hx].
        apply (B_idx rt mt inl inr _ _ _ _ (cw_range_idx_form rt mt _ _ _ _ Hn Hx Hy)). apply IH. exact Ha.
      * apply andb_true_iff in H. destruct H as [H Ha]. apply andb_true_iff in H. destruct H as [Hn Hx].
        apply (B_idx rt mt inl inr _ _ _ _ (cw_cycle_idx_form rt mt _ _ _ Hn Hx)). apply IH. exact Ha.
    + apply andb_true_iff in H. destruct H as [Hw Ha]. apply (B_lights rt mt inl inr _ _ _ _ _ (lall_form rt mt _ _ Hw)). apply IH. exact Ha.
    + apply andb_true_iff in H. destruct H as [Hw Ha]. apply (B_lights rt mt inl inr _ _ _ _ _ (lgroups_form rt mt _ _ Hw)). apply IH. exact Ha.
    + apply andb_true_iff in H. destruct H as [Hw Ha]. apply (B_lights rt mt inl inr _ _ _ _ _ (llocations_form rt mt _ _ Hw)). apply IH. exact Ha.
    + apply andb_true_iff in H. destruct H as [H Ha]. apply andb_true_iff in H. destruct H as [Hs Hw].
      apply (B_lights rt mt inl inr _ _ _ _ _ (lin_form rt mt _ _ _ Hs Hw)). apply IH. exact Ha.
  - subst inl. apply B_break.
  - (* print the value of a call *)
    destruct v as [v|]; [|discriminate]. exact (Huse (UPrint false) v H eq_refl).
  - destruct v as [v|]; [|discriminate]. exact (Huse (UPrint true) v H eq_refl).
  - (* printf *)
    destruct (printf_names fmt) as [names|] eqn:En; [|discriminate]. destruct (printf_positional fmt) as [k|] eqn:Ek; [|discriminate].
    apply andb_true_iff in H. destruct H as [H Hv]. apply andb_true_iff in H. destruct H as [Hp Hl].
    exact (B_printf rt mt inl inr fmt args names k En Ek Hp Hl Hv).
  - apply B_block. clear Ea. induction ss as [|x r IHr]; [constructor|]. cbn [forallb] in H. apply andb_true_iff in H. destruct H as [Hx Hr].
    constructor; [apply IH; exact Hx|apply IHr; exact Hr].
Qed.

(* the body of every routine of the table is covered *)
Definition bodies_b (fuel : nat) : bool := forallb (fun fd => simpleB_b fuel false true (rd_body (snd fd))) rt.
Lemma find_rdef_in f : forall (t : rtable) d, find_rdef t f = Some d -> In (f, d) t.
Proof.
  induction t as [|[g e] t IH]; intros d H; [discriminate|]. cbn [find_rdef] in H.
  destruct (String.eqb g f) eqn:E; [apply String.eqb_eq in E; subst g; injection H as H; subst e; left; reflexivity|right; apply IH; exact H].
Qed.
Lemma bodies_b_sound fuel : bodies_b fuel = true -> bodies_ok rt mt.
Proof.
  intros H f d Hf. pose proof (proj1 (forallb_forall _ _) H (f, d) (find_rdef_in f rt d Hf)) as Hb. cbn [snd] in Hb.
  exact (simpleB_b_sound fuel false true (rd_body d) Hb).
Qed.
End CheckB.
