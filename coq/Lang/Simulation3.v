(* C01: the forward simulation of Lang/Simulation2.v extended to `break` (at any depth of if / else and blocks
   inside a loop body) and to the endless `repeat` that only a break leaves: every call-free program made of
   the covered statements, conditionals, blocks, `repeat while`, counted `repeat n`, plain `repeat` and `break`.

   A statement inside a loop is compiled with [after] = the number of instructions between its end and the
   END_LOOP of the innermost loop; `break` is JUMP ALWAYS (after + 1).  The simulation says where the machine
   is when the reference semantics answers SigBreak: at that END_LOOP, stack and frames as at the start. *)
From Coq Require Import ZArith String List Bool Lia.
From Bardolph Require Import Gen.Codes Lang.Value Lang.Instr Lang.Loader Lang.World Lang.Units0 Lang.Regs Lang.Devices
  Lang.Machine Lang.Syntax Lang.Sem Lang.CodeGen Lang.ExprCompile Lang.Simulation Lang.Simulation2.
Open Scope string_scope.
Open Scope list_scope.
Import ListNotations.
Open Scope Z_scope.

Section Sim3.
Variable rt : rtable.
Variable mt : mtable.

(* [SimpleB inl st]: st is covered; inl = it may contain a break that belongs to an enclosing loop *)
Inductive SimpleB : bool -> stmt -> Prop :=
| B_simple inl st : Simple mt st -> SimpleB inl st
| B_break : SimpleB true SBreak
| B_if inl c a : plain_rval mt c = true -> SimpleB inl a -> SimpleB inl (SIf c a None)
| B_ifelse inl c a b : plain_rval mt c = true -> SimpleB inl a -> SimpleB inl b -> SimpleB inl (SIf c a (Some b))
| B_block inl l : SimpleBL inl l -> SimpleB inl (SBlock l)
| B_while inl c a : plain_rval mt c = true -> SimpleB true a -> SimpleB inl (SRepeat (LWhile c) a)
| B_count inl n a : plain_rval mt n = true -> SimpleB true a -> SimpleB inl (SRepeat (LCount n) a)
| B_infinite inl a : SimpleB true a -> SimpleB inl (SRepeat LInfinite a)
with SimpleBL : bool -> list stmt -> Prop :=
| BL_nil inl : SimpleBL inl []
| BL_cons inl st r : SimpleB inl st -> SimpleBL inl r -> SimpleBL inl (st :: r).

Scheme SimpleB_ind2 := Induction for SimpleB Sort Prop
with SimpleBL_ind2 := Induction for SimpleBL Sort Prop.
Combined Scheme SimpleB_mutind from SimpleB_ind2, SimpleBL_ind2.

(* ---- the code, for any distance to the end of the enclosing loop ---- *)
Definition blk (after : option Z) (l : list stmt) : program := c_stmt rt mt false after (SBlock l).

Lemma c_break after : c_stmt rt mt false after SBreak = match after with Some a => [jump JC_ALWAYS (a + 1)] | None => [jump JC_ALWAYS 0] end.
Proof. reflexivity. Qed.
Lemma c_block_nil after : c_stmt rt mt false after (SBlock []) = [].
Proof. reflexivity. Qed.
Lemma c_whileB c a : c_stmt rt mt false None (SRepeat (LWhile c) a) =
  [I0 OC_LOOP] ++ c_rval rt mt c (DReg R_RESULT) ++ [jump JC_IF_FALSE (len (c_stmt rt mt false (Some 1) a ++ []) + 2)] ++ (c_stmt rt mt false (Some 1) a ++ []) ++
  [jump JC_ALWAYS (- (len (c_rval rt mt c (DReg R_RESULT)) + 1 + len (c_stmt rt mt false (Some 1) a ++ [])))] ++ [I0 OC_END_LOOP].
Proof. reflexivity. Qed.
Lemma c_infinite a : c_stmt rt mt false None (SRepeat LInfinite a) =
  [I0 OC_LOOP] ++ [I2 OC_MOVEQ (PBool true) (PReg R_RESULT)] ++ [jump JC_IF_FALSE (len (c_stmt rt mt false (Some 1) a ++ []) + 2)] ++ (c_stmt rt mt false (Some 1) a ++ []) ++
  [jump JC_ALWAYS (- (1 + 1 + len (c_stmt rt mt false (Some 1) a ++ [])))] ++ [I0 OC_END_LOOP].
Proof. reflexivity. Qed.
Lemma exec_infinite f ss a : Sem.exec rt mt (S (S f)) false ss (SRepeat LInfinite a) = iterate rt mt f false ss None None None None a.
Proof. reflexivity. Qed.
Lemma iterate_infinite f ss a : iterate rt mt (S f) false ss None None None None a =
  (let* (sig, s3) := Sem.exec rt mt f false ss a in
   match sig with SigBreak => ROk SigNormal s3 | SigReturn v => ROk (SigReturn v) s3 | SigNormal => iterate rt mt f false s3 None None None None a end).
Proof. reflexivity. Qed.
Lemma exec_break f ss : Sem.exec rt mt (S f) false ss SBreak = ROk SigBreak ss.
Proof. reflexivity. Qed.

(* no routine markers, whatever the distance *)
Lemma simpleB_no_routine :
  (forall inl st, SimpleB inl st -> forall after, forallb not_routine (c_stmt rt mt false after st) = true) /\
  (forall inl l, SimpleBL inl l -> forall after, forallb not_routine (c_stmt rt mt false after (SBlock l)) = true).
Proof.
  apply SimpleB_mutind.
  - intros inl st H after. rewrite (proj1 (simple_after rt mt) st H after). apply (proj1 (simple_no_routine rt mt)). exact H.
  - intros after. rewrite c_break. destruct after; reflexivity.
  - intros inl c a Hc _ IHa after. rewrite c_if1_after, !forallb_app, (IHa after), (c_rval_no_routine rt mt c (DReg R_RESULT) Hc (plain_ok_result mt c Hc)). reflexivity.
  - intros inl c a b Hc _ IHa _ IHb after. rewrite c_if2_after, !forallb_app, (IHa _), (IHb after), (c_rval_no_routine rt mt c (DReg R_RESULT) Hc (plain_ok_result mt c Hc)). reflexivity.
  - intros inl l _ IH after. exact (IH after).
  - intros inl c a Hc _ IHa after. rewrite c_loop_after, c_whileB, app_nil_r, !forallb_app, (IHa (Some 1)),
      (c_rval_no_routine rt mt c (DReg R_RESULT) Hc (plain_ok_result mt c Hc)). reflexivity.
  - intros inl n a Hn _ IHa after. rewrite c_loop_after, c_count, !forallb_app, (IHa _), (c_rval_counter_no_routine rt mt n Hn). reflexivity.
  - intros inl a _ IHa after. rewrite c_loop_after, c_infinite, app_nil_r, !forallb_app, (IHa (Some 1)). reflexivity.
  - intros inl after. reflexivity.
  - intros inl st r _ IHst _ IHr after. rewrite c_block_cons_after, forallb_app, (IHst _), (IHr after). reflexivity.
Qed.

(* ---- where the machine is afterwards ---- *)
Definition sim_to (im : image) (ss : sstate) (s : mstate) (ss' : sstate) (target : Z) : Prop :=
  exists n s' evs, esteps n im s = Some (s', evs) /\ sim ss' s' /\ m_pc s' = target /\
                   (m_stack s', m_frames s') = (m_stack s, m_frames s) /\ rev (s_trace ss') = rev (s_trace ss) ++ evs.

Definition outcome (after : option Z) (im : image) (ss : sstate) (s : mstate) (sig : signal) (ss' : sstate) (code : program) : Prop :=
  (sig = SigNormal /\ sim_to im ss s ss' (m_pc s + zlength code)) \/
  (sig = SigBreak /\ exists a, after = Some a /\ sim_to im ss s ss' (m_pc s + zlength code + a)).

Definition in_loop_ok (inl : bool) (after : option Z) : Prop := inl = true -> exists a, after = Some a.

Lemma in_loop_ok_map inl after f : in_loop_ok inl after -> in_loop_ok inl (option_map f after).
Proof. intros H Hi. destruct (H Hi) as [a ->]. exists (f a). reflexivity. Qed.


(* ---- composing runs ---- *)
Lemma outcome_after_steps after im ss s sa s1 n1 e1 sig ss' c2 c :
  esteps n1 im s = Some (s1, e1) -> (m_stack s1, m_frames s1) = (m_stack s, m_frames s) ->
  rev (s_trace sa) = rev (s_trace ss) ++ e1 -> m_pc s1 + zlength c2 = m_pc s + zlength c ->
  outcome after im sa s1 sig ss' c2 -> outcome after im ss s sig ss' c.
Proof.
  intros E1 Hst1 Ht1 Hpc [[Hsig (n & s2 & e2 & E2 & Hs2 & Hpc2 & Hst2 & Ht2)]|[Hsig (a & Ha & n & s2 & e2 & E2 & Hs2 & Hpc2 & Hst2 & Ht2)]].
  - left. split; [exact Hsig|]. exists (n1 + n)%nat, s2, (e1 ++ e2). split; [eapply esteps_app; eassumption|]. split; [exact Hs2|].
    split; [rewrite Hpc2; exact Hpc|]. split; [rewrite Hst2; exact Hst1|]. rewrite Ht2, Ht1, app_assoc. reflexivity.
  - right. split; [exact Hsig|]. exists a. split; [exact Ha|]. exists (n1 + n)%nat, s2, (e1 ++ e2). split; [eapply esteps_app; eassumption|]. split; [exact Hs2|].
    split; [rewrite Hpc2, Hpc; reflexivity|]. split; [rewrite Hst2; exact Hst1|]. rewrite Ht2, Ht1, app_assoc. reflexivity.
Qed.

Lemma sim_to_after_steps im ss s sa s1 n1 e1 ss' t :
  esteps n1 im s = Some (s1, e1) -> (m_stack s1, m_frames s1) = (m_stack s, m_frames s) ->
  rev (s_trace sa) = rev (s_trace ss) ++ e1 -> sim_to im sa s1 ss' t -> sim_to im ss s ss' t.
Proof.
  intros E1 Hst1 Ht1 (n & s2 & e2 & E2 & Hs2 & Hpc2 & Hst2 & Ht2).
  exists (n1 + n)%nat, s2, (e1 ++ e2). split; [eapply esteps_app; eassumption|]. split; [exact Hs2|]. split; [exact Hpc2|].
  split; [rewrite Hst2; exact Hst1|]. rewrite Ht2, Ht1, app_assoc. reflexivity.
Qed.

Lemma sim_to_jump im ss s ss' t off :
  sim_to im ss s ss' t -> fetch im t = Some (jump JC_ALWAYS off) -> sim_to im ss s ss' (t + off).
Proof.
  intros (n & s1 & e1 & E1 & Hs1 & Hpc1 & Hst1 & Ht1) Hf. rewrite <- Hpc1 in Hf.
  pose proof (jump_always im s1 off Hf) as Ej.
  exists (n + 1)%nat, (with_pc s1 (m_pc s1 + off)), (e1 ++ []). split; [eapply esteps_app; eassumption|].
  split; [apply sim_with_pc; exact Hs1|]. split; [cbn [with_pc m_pc]; rewrite Hpc1; reflexivity|].
  split; [exact Hst1|]. rewrite app_nil_r. exact Ht1.
Qed.

Lemma sim_to_refl im ss s : sim ss s -> sim_to im ss s ss (m_pc s).
Proof. intros H. exists 0%nat, s, []. split; [reflexivity|]. split; [exact H|]. split; [reflexivity|]. split; [reflexivity|]. rewrite app_nil_r. reflexivity. Qed.

(* END_LOOP drops the loop frame and anything the loop left on the stack *)
Lemma end_loop_step im ss s0 s lv :
  sim ss s0 -> loops_only (m_frames s) = true -> fetch im (m_pc s0) = Some (I0 OC_END_LOOP) ->
  m_frames s0 = FLoop lv (zlength (m_stack s)) :: m_frames s -> m_stack s0 = m_stack s ->
  exists s1, esteps 1 im s0 = Some (s1, []) /\ sim ss s1 /\ m_pc s1 = m_pc s0 + 1 /\ (m_stack s1, m_frames s1) = (m_stack s, m_frames s).
Proof.
  intros Hs0 Hlo Hf Hfr Hst.
  set (d := zlength (m_stack s)) in *.
  set (s1 := advance (with_stack (with_frames s0 (m_frames s)) (truncate_to (m_stack s0) d))).
  exists s1.
  assert (Htr : truncate_to (m_stack s0) d = m_stack s).
  { rewrite Hst. unfold d. destruct (m_stack s) as [|v k]; cbn [truncate_to]; [reflexivity|]. rewrite Z.leb_refl. reflexivity. }
  split; [apply (estep1 im s0 _ _ _ Hf); cbn [Machine.exec i_op I0]; rewrite Hfr; reflexivity|].
  split; [destruct Hs0 as [Hr Hfu Hg Hfr' Hl Hw Hu]; constructor; cbn; assumption|].
  split; [reflexivity|]. change (m_stack s1, m_frames s1) with (truncate_to (m_stack s0) d, m_frames s). rewrite Htr. reflexivity.
Qed.


Theorem simpleB_simulation :
  (forall inl st, SimpleB inl st ->
     forall after im ss s sig ss' fuel, in_loop_ok inl after -> sim ss s -> code_at im (m_pc s) (c_stmt rt mt false after st) ->
     Sem.exec rt mt fuel false ss st = ROk sig ss' -> outcome after im ss s sig ss' (c_stmt rt mt false after st)) /\
  (forall inl l, SimpleBL inl l ->
     forall after im ss s sig ss' fuel, in_loop_ok inl after -> sim ss s -> code_at im (m_pc s) (c_stmt rt mt false after (SBlock l)) ->
     exec_seq rt mt fuel false ss l = ROk sig ss' -> outcome after im ss s sig ss' (c_stmt rt mt false after (SBlock l))).
Proof.
  apply SimpleB_mutind.
  - (* a statement without break: Simulation2 *)
    intros inl st Hst after im ss s sig ss' fuel _ Hsim Hc He.
    rewrite (proj1 (simple_after rt mt) st Hst after) in *.
    destruct (proj1 (simple_simulation rt mt) st Hst im ss s sig ss' fuel Hsim Hc He) as [Hsig Hsimu].
    left. split; [exact Hsig|exact Hsimu].
  - (* break: the jump to the END_LOOP of the enclosing loop *)
    intros after im ss s sig ss' fuel Hin Hsim Hc He.
    destruct fuel as [|fuel]; [discriminate|]. rewrite exec_break in He. injection He as Hsig Hss. subst ss'.
    destruct (Hin eq_refl) as [a Ha]. subst after. rewrite c_break in *. cbn [code_at] in Hc. destruct Hc as [Hf _].
    right. split; [auto|]. exists a. split; [reflexivity|].
    exists 1%nat, (with_pc s (m_pc s + (a + 1))), []. split; [exact (jump_always im s (a + 1) Hf)|].
    split; [apply sim_with_pc; exact Hsim|]. split; [cbn [with_pc m_pc]; rewrite zlength1; lia|]. split; [reflexivity|rewrite app_nil_r; reflexivity].
  - (* if without else *)
    intros inl c a Hc Ha IHa after im ss s sig ss' fuel Hin Hsim Hcode He.
    destruct fuel as [|fuel]; [discriminate|]. rewrite exec_if in He. rewrite c_if1_after in *.
    destruct (eval_rval rt mt fuel false ss c) as [x sa|e sa|sa] eqn:Ev; cbn [sbind] in He; try discriminate.
    apply code_at_app in Hcode. destruct Hcode as [Hcc Hrest]. apply code_at_app in Hrest. destruct Hrest as [Hj Hbody]. cbn [code_at] in Hj. destruct Hj as [Hfj _].
    destruct (c_rval_runs rt mt c (DReg R_RESULT) Hc (plain_ok_result mt c Hc) im ss s x sa fuel Hsim Hcc Ev) as [Hsa [n Hn]]. subst sa.
    set (k := zlength (c_rval rt mt c (DReg R_RESULT))) in *.
    set (s1 := put_vm s (DReg R_RESULT) x k) in *.
    assert (Hs1 : sim ss s1) by (apply sim_put_reg_hidden; [exact Hsim|reflexivity]).
    assert (Hr1 : rf_get (m_regs s1) R_RESULT = Some x) by (unfold s1; cbn [put_vm m_regs]; apply rf_get_set_same).
    pose proof (proj1 simpleB_no_routine inl a Ha after) as Hnr. rewrite (len_no_routine _ Hnr) in Hfj |- *.
    set (body := c_stmt rt mt false after a) in *.
    pose proof (jump_if_false im s1 x (zlength body + 1) Hr1 Hfj) as Ej.
    assert (Hlen : zlength (c_rval rt mt c (DReg R_RESULT) ++ [jump JC_IF_FALSE (zlength body + 1)] ++ body) = k + 1 + zlength body).
    { unfold zlength. rewrite !app_length, !Nat2Z.inj_add. cbn [length]. unfold k, zlength. lia. }
    destruct (truthy x) eqn:Etx.
    + set (s2 := with_pc s1 (m_pc s1 + 1)) in *.
      assert (Hb2 : code_at im (m_pc s2) body).
      { unfold s2. cbn [with_pc m_pc]. unfold s1. cbn [put_vm m_pc]. rewrite zlength1 in Hbody. exact Hbody. }
      pose proof (IHa after im ss s2 sig ss' fuel Hin (sim_with_pc ss s1 _ Hs1) Hb2 He) as Ho.
      apply (outcome_after_steps after im ss s ss s2 (n + 1)%nat ([] ++ []) sig ss' body); [eapply esteps_app; eassumption|reflexivity|rewrite app_nil_r; reflexivity| |exact Ho].
      rewrite Hlen. unfold s2, s1. cbn [with_pc put_vm m_pc]. lia.
    + injection He as Hsig He. subst ss'. left. split; [auto|].
      exists (n + 1)%nat, (with_pc s1 (m_pc s1 + (zlength body + 1))), ([] ++ []).
      split; [eapply esteps_app; eassumption|]. split; [apply sim_with_pc; exact Hs1|].
      split; [rewrite Hlen; unfold s1; cbn [with_pc put_vm m_pc]; lia|]. split; [reflexivity|rewrite app_nil_r; reflexivity].
  - (* if with else *)
    intros inl c a b Hc Ha IHa Hb IHb after im ss s sig ss' fuel Hin Hsim Hcode He.
    destruct fuel as [|fuel]; [discriminate|]. rewrite exec_if in He. rewrite c_if2_after in *.
    pose proof (proj1 simpleB_no_routine inl b Hb after) as Hnrb. rewrite (len_no_routine _ Hnrb) in *.
    set (tb := c_stmt rt mt false after b) in *.
    set (after_a := option_map (fun x0 : Z => x0 + 1 + zlength tb) after) in *.
    pose proof (proj1 simpleB_no_routine inl a Ha after_a) as Hnra. rewrite (len_no_routine _ Hnra) in *.
    set (ta := c_stmt rt mt false after_a a) in *.
    destruct (eval_rval rt mt fuel false ss c) as [x sa|e sa|sa] eqn:Ev; cbn [sbind] in He; try discriminate.
    apply code_at_app in Hcode. destruct Hcode as [Hcc Hrest]. apply code_at_app in Hrest. destruct Hrest as [Hj Hrest]. cbn [code_at] in Hj. destruct Hj as [Hfj _].
    apply code_at_app in Hrest. destruct Hrest as [Hthen Hrest]. apply code_at_app in Hrest. destruct Hrest as [Hj2 Helse]. cbn [code_at] in Hj2. destruct Hj2 as [Hfj2 _].
    rewrite !zlength1 in Hthen, Hfj2, Helse.
    destruct (c_rval_runs rt mt c (DReg R_RESULT) Hc (plain_ok_result mt c Hc) im ss s x sa fuel Hsim Hcc Ev) as [Hsa [n Hn]]. subst sa.
    set (k := zlength (c_rval rt mt c (DReg R_RESULT))) in *.
    set (s1 := put_vm s (DReg R_RESULT) x k) in *.
    assert (Hs1 : sim ss s1) by (apply sim_put_reg_hidden; [exact Hsim|reflexivity]).
    assert (Hr1 : rf_get (m_regs s1) R_RESULT = Some x) by (unfold s1; cbn [put_vm m_regs]; apply rf_get_set_same).
    pose proof (jump_if_false im s1 x (zlength ta + 2) Hr1 Hfj) as Ej.
    assert (Hk : m_pc s1 = m_pc s + k) by reflexivity.
    assert (Hlen : zlength (c_rval rt mt c (DReg R_RESULT) ++ [jump JC_IF_FALSE (zlength ta + 2)] ++ ta ++ [jump JC_ALWAYS (zlength tb + 1)] ++ tb)
                   = k + 1 + zlength ta + 1 + zlength tb).
    { unfold zlength. rewrite !app_length, !Nat2Z.inj_add. cbn [length]. unfold k, zlength. lia. }
    destruct (truthy x) eqn:Etx.
    + (* then-branch; when it ends normally, the jump over the else-branch *)
      set (s2 := with_pc s1 (m_pc s1 + 1)) in *.
      assert (Hb2 : code_at im (m_pc s2) ta) by (unfold s2; cbn [with_pc m_pc]; rewrite Hk; exact Hthen).
      assert (E2 : esteps (n + 1) im s = Some (s2, [] ++ [])) by (eapply esteps_app; eassumption).
      destruct (IHa after_a im ss s2 sig ss' fuel (in_loop_ok_map inl after _ Hin) (sim_with_pc ss s1 _ Hs1) Hb2 He) as [[Hsig Hto]|[Hsig (a' & Ha' & Hto)]].
      * left. split; [exact Hsig|]. rewrite Hlen.
        apply (sim_to_after_steps im ss s ss s2 (n + 1)%nat ([] ++ []) ss'); [exact E2|reflexivity|rewrite app_nil_r; reflexivity|].
        replace (m_pc s + (k + 1 + zlength ta + 1 + zlength tb)) with (m_pc s2 + zlength ta + (zlength tb + 1)) by (unfold s2; cbn [with_pc m_pc]; rewrite Hk; lia).
        apply sim_to_jump; [exact Hto|]. unfold s2. cbn [with_pc m_pc]. rewrite Hk. exact Hfj2.
      * right. split; [exact Hsig|]. unfold after_a in Ha'. destruct after as [a0|]; cbn [option_map] in Ha'; [|discriminate]. injection Ha' as Ha'. subst a'.
        exists a0. split; [reflexivity|]. rewrite Hlen.
        apply (sim_to_after_steps im ss s ss s2 (n + 1)%nat ([] ++ []) ss'); [exact E2|reflexivity|rewrite app_nil_r; reflexivity|].
        replace (m_pc s + (k + 1 + zlength ta + 1 + zlength tb) + a0) with (m_pc s2 + zlength ta + (a0 + 1 + zlength tb)) by (unfold s2; cbn [with_pc m_pc]; rewrite Hk; lia).
        exact Hto.
    + (* else-branch *)
      set (s2 := with_pc s1 (m_pc s1 + (zlength ta + 2))) in *.
      assert (Hb2 : code_at im (m_pc s2) tb).
      { unfold s2. cbn [with_pc m_pc]. rewrite Hk. replace (m_pc s + k + (zlength ta + 2)) with (m_pc s + k + 1 + zlength ta + 1) by lia. exact Helse. }
      pose proof (IHb after im ss s2 sig ss' fuel Hin (sim_with_pc ss s1 _ Hs1) Hb2 He) as Ho.
      apply (outcome_after_steps after im ss s ss s2 (n + 1)%nat ([] ++ []) sig ss' tb); [eapply esteps_app; eassumption|reflexivity|rewrite app_nil_r; reflexivity| |exact Ho].
      rewrite Hlen. unfold s2. cbn [with_pc m_pc]. rewrite Hk. lia.
  - (* block *)
    intros inl l Hl IH after im ss s sig ss' fuel Hin Hsim Hc He. destruct fuel as [|fuel]; [discriminate|].
    rewrite exec_block in He. exact (IH after im ss s sig ss' fuel Hin Hsim Hc He).
  - (* while loop *)
    intros inl c a Hc Ha IHa after im ss s sig ss' fuel _ Hsim Hcode He.
    destruct fuel as [|[|fuel]]; try discriminate. rewrite exec_while in He.
    rewrite c_loop_after, c_whileB, app_nil_r in *.
    pose proof (proj1 simpleB_no_routine true a Ha (Some 1)) as Hnrb.
    pose proof (c_rval_no_routine rt mt c (DReg R_RESULT) Hc (plain_ok_result mt c Hc)) as Hnrt.
    rewrite (len_no_routine _ Hnrb), (len_no_routine _ Hnrt) in *.
    set (T := c_rval rt mt c (DReg R_RESULT)) in *. set (B := c_stmt rt mt false (Some 1) a) in *.
    set (kT := zlength T) in *. set (kB := zlength B) in *.
    apply code_at_app in Hcode. destruct Hcode as [Hloop Hcode]. cbn [code_at] in Hloop. destruct Hloop as [Hfl _].
    apply code_at_app in Hcode. destruct Hcode as [HcT Hcode].
    apply code_at_app in Hcode. destruct Hcode as [Hj Hcode]. cbn [code_at] in Hj. destruct Hj as [Hfj _].
    apply code_at_app in Hcode. destruct Hcode as [HcB Hcode].
    apply code_at_app in Hcode. destruct Hcode as [Hjb Hend]. cbn [code_at] in Hjb, Hend. destruct Hjb as [Hfjb _]. destruct Hend as [Hfe _].
    rewrite !zlength1 in HcT, Hfj, HcB, Hfjb, Hfe. fold kT in Hfj, HcB, Hfjb, Hfe. fold kB in Hfjb, Hfe.
    set (P0 := m_pc s) in *.
    set (d := zlength (m_stack s)).
    set (s1 := advance (with_frames s (FLoop [] d :: m_frames s))).
    assert (E1 : esteps 1 im s = Some (s1, [])) by (apply (estep1 im s _ _ _ Hfl); reflexivity).
    assert (Hs1 : sim ss s1) by (destruct Hsim; constructor; cbn; assumption).
    assert (Hin1 : in_loop_ok true (Some 1)) by (intros _; exists 1; reflexivity).
    assert (Hiter : forall f ss1 sx sg ssx lv,
              sim ss1 sx -> m_pc sx = P0 + 1 -> m_frames sx = FLoop lv d :: m_frames s -> m_stack sx = m_stack s ->
              iterate rt mt f false ss1 (Some c) None None None a = ROk sg ssx ->
              sg = SigNormal /\ exists n sy evs, esteps n im sx = Some (sy, evs) /\ sim ssx sy /\ m_pc sy = P0 + (kT + kB + 4) /\
                                           (m_stack sy, m_frames sy) = (m_stack s, m_frames s) /\ rev (s_trace ssx) = rev (s_trace ss1) ++ evs).
    { induction f as [|f IHf]; intros ss1 sx sg ssx lv Hsx Hpcx Hfrx Hstx Hit; [discriminate|].
      rewrite iterate_while in Hit.
      destruct (eval_rval rt mt f false ss1 c) as [x sa|e sa|sa] eqn:Ev; cbn [sbind] in Hit; try discriminate.
      assert (HcTx : code_at im (m_pc sx) T) by (rewrite Hpcx; exact HcT).
      destruct (c_rval_runs rt mt c (DReg R_RESULT) Hc (plain_ok_result mt c Hc) im ss1 sx x sa f Hsx HcTx Ev) as [Hsa [n Hn]]. subst sa.
      fold T in Hn. fold kT in Hn.
      set (s2 := put_vm sx (DReg R_RESULT) x kT) in *.
      assert (Hs2 : sim ss1 s2) by (apply sim_put_reg_hidden; [exact Hsx|reflexivity]).
      assert (Hr2 : rf_get (m_regs s2) R_RESULT = Some x) by (unfold s2; cbn [put_vm m_regs]; apply rf_get_set_same).
      assert (Hpc2 : m_pc s2 = P0 + 1 + kT) by (unfold s2; cbn [put_vm m_pc]; rewrite Hpcx; reflexivity).
      assert (Hfj2 : fetch im (m_pc s2) = Some (jump JC_IF_FALSE (kB + 2))) by (rewrite Hpc2; exact Hfj).
      pose proof (jump_if_false im s2 x (kB + 2) Hr2 Hfj2) as Ej.
      destruct (truthy x) eqn:Etx; cbn [negb] in Hit.
      - destruct (Sem.exec rt mt f false ss1 a) as [sgb sb|eb sb|sb] eqn:Eb; cbn [sbind] in Hit; try discriminate.
        set (s3 := with_pc s2 (m_pc s2 + 1)) in *.
        assert (HcB3 : code_at im (m_pc s3) B) by (unfold s3; cbn [with_pc m_pc]; rewrite Hpc2; exact HcB).
        assert (Hst3 : m_stack s3 = m_stack s /\ m_frames s3 = FLoop lv d :: m_frames s) by (split; assumption).
        destruct Hst3 as [Hsk3 Hfk3].
        destruct (IHa (Some 1) im ss1 s3 sgb sb f Hin1 (sim_with_pc ss1 s2 _ Hs2) HcB3 Eb)
          as [[Hsgb (n3 & s4 & e4 & E4 & Hs4 & Hpc4 & Hst4 & Ht4)]|[Hsgb (a' & Ha' & (n3 & s4 & e4 & E4 & Hs4 & Hpc4 & Hst4 & Ht4))]]; subst sgb.
        + (* the body ends normally: back to the test *)
          assert (Hfjb4 : fetch im (m_pc s4) = Some (jump JC_ALWAYS (- (kT + 1 + kB)))).
          { rewrite Hpc4. unfold s3. cbn [with_pc m_pc]. rewrite Hpc2. fold B. fold kB. exact Hfjb. }
          pose proof (jump_always im s4 (- (kT + 1 + kB)) Hfjb4) as Ejb.
          set (s5 := with_pc s4 (m_pc s4 + - (kT + 1 + kB))) in *.
          assert (Hsk4 : m_stack s4 = m_stack s) by (transitivity (m_stack s3); [exact (f_equal fst Hst4)|exact Hsk3]).
          assert (Hfk4 : m_frames s4 = FLoop lv d :: m_frames s) by (transitivity (m_frames s3); [exact (f_equal snd Hst4)|exact Hfk3]).
          destruct (IHf sb s5 sg ssx lv (sim_with_pc sb s4 _ Hs4)) as [Hsg (n6 & s6 & e6 & E6 & Hs6 & Hpc6 & Hst6 & Ht6)].
          { unfold s5. cbn [with_pc m_pc]. rewrite Hpc4. unfold s3. cbn [with_pc m_pc]. rewrite Hpc2. fold B. fold kB. lia. }
          { exact Hfk4. }
          { exact Hsk4. }
          { exact Hit. }
          split; [exact Hsg|]. exists (n + (1 + (n3 + (1 + n6))))%nat, s6, ([] ++ ([] ++ (e4 ++ ([] ++ e6)))).
          split; [eapply esteps_app; [exact Hn|eapply esteps_app; [exact Ej|eapply esteps_app; [exact E4|eapply esteps_app; [exact Ejb|exact E6]]]]|].
          split; [exact Hs6|]. split; [exact Hpc6|]. split; [exact Hst6|]. cbn [app]. rewrite Ht6, Ht4, app_assoc. reflexivity.
        + (* the body breaks: it has jumped to END_LOOP *)
          injection Ha' as Ha'. subst a'. injection Hit as Hsg Hss. subst ssx.
          assert (Hsk4 : m_stack s4 = m_stack s) by (transitivity (m_stack s3); [exact (f_equal fst Hst4)|exact Hsk3]).
          assert (Hfk4 : m_frames s4 = FLoop lv d :: m_frames s) by (transitivity (m_frames s3); [exact (f_equal snd Hst4)|exact Hfk3]).
          assert (Hfe4 : fetch im (m_pc s4) = Some (I0 OC_END_LOOP)).
          { rewrite Hpc4. unfold s3. cbn [with_pc m_pc]. rewrite Hpc2. fold B. fold kB. exact Hfe. }
          destruct (end_loop_step im sb s4 s lv Hs4 (sim_frames _ _ Hsim) Hfe4 Hfk4 Hsk4) as (s5 & E5 & Hs5 & Hpc5 & Hst5).
          split; [auto|]. exists (n + (1 + (n3 + 1)))%nat, s5, ([] ++ ([] ++ (e4 ++ []))).
          split; [eapply esteps_app; [exact Hn|eapply esteps_app; [exact Ej|eapply esteps_app; [exact E4|exact E5]]]|].
          split; [exact Hs5|]. split; [rewrite Hpc5, Hpc4; unfold s3; cbn [with_pc m_pc]; rewrite Hpc2; fold B; fold kB; lia|].
          split; [exact Hst5|]. cbn [app]. rewrite app_nil_r. exact Ht4.
      - (* the condition fails: jump to END_LOOP *)
        injection Hit as Hsg Hss. subst ssx.
        set (s3 := with_pc s2 (m_pc s2 + (kB + 2))) in *.
        assert (Hfe3 : fetch im (m_pc s3) = Some (I0 OC_END_LOOP)).
        { unfold s3. cbn [with_pc m_pc]. rewrite Hpc2. replace (P0 + 1 + kT + (kB + 2)) with (P0 + 1 + kT + 1 + kB + 1) by lia. exact Hfe. }
        destruct (end_loop_step im ss1 s3 s lv (sim_with_pc ss1 s2 _ Hs2) (sim_frames _ _ Hsim) Hfe3 Hfrx Hstx) as (s4 & E4 & Hs4 & Hpc4 & Hst4).
        split; [auto|]. exists (n + (1 + 1))%nat, s4, ([] ++ ([] ++ [])).
        split; [eapply esteps_app; [exact Hn|eapply esteps_app; [exact Ej|exact E4]]|].
        split; [exact Hs4|]. split; [rewrite Hpc4; unfold s3; cbn [with_pc m_pc]; rewrite Hpc2; lia|].
        split; [exact Hst4|]. rewrite app_nil_r. reflexivity. }
    destruct (Hiter fuel ss s1 sig ss' [] Hs1 eq_refl eq_refl eq_refl He) as [Hsig (n & sy & evs & En & Hsy & Hpcy & Hsty & Hty)].
    left. split; [exact Hsig|]. exists (1 + n)%nat, sy, ([] ++ evs).
    split; [eapply esteps_app; [exact E1|exact En]|]. split; [exact Hsy|].
    split; [rewrite Hpcy; unfold kT, kB, zlength; rewrite !app_length; cbn [length]; rewrite !Nat2Z.inj_add; lia|].
    split; [exact Hsty|exact Hty].
  - (* counted loop *)
    intros inl cn a Hn Ha IHa after im ss s sig ss' fuel _ Hsim Hcode He.
    destruct fuel as [|[|fuel]]; try discriminate. rewrite exec_count in He.
    rewrite c_loop_after, c_count in *.
    change (len (counter_post None)) with 4 in *.
    pose proof (proj1 simpleB_no_routine true a Ha (Some (4 + 1))) as Hnrb.
    assert (Hnri : forallb not_routine (c_stmt rt mt false (Some (4 + 1)) a ++ counter_post None) = true) by (rewrite forallb_app, Hnrb; reflexivity).
    rewrite (len_no_routine _ Hnri) in *. change (len counter_test) with 4 in *.
    set (N := c_rval rt mt cn (DLoop LV_COUNTER)) in *. set (B := c_stmt rt mt false (Some (4 + 1)) a) in *.
    set (kN := zlength N) in *.
    assert (HkI : zlength (B ++ counter_post None) = zlength B + 4) by (unfold zlength; rewrite app_length, Nat2Z.inj_add; reflexivity).
    rewrite HkI in *. set (kB := zlength B) in *.
    apply code_at_app in Hcode. destruct Hcode as [Hloop Hcode]. cbn [code_at] in Hloop. destruct Hloop as [Hfl _].
    apply code_at_app in Hcode. destruct Hcode as [HcN Hcode].
    apply code_at_app in Hcode. destruct Hcode as [HcT Hcode].
    apply code_at_app in Hcode. destruct Hcode as [Hj Hcode]. cbn [code_at] in Hj. destruct Hj as [Hfj _].
    apply code_at_app in Hcode. destruct Hcode as [HcI Hcode]. apply code_at_app in HcI. destruct HcI as [HcB HcP].
    apply code_at_app in Hcode. destruct Hcode as [Hjb Hend]. cbn [code_at] in Hjb, Hend. destruct Hjb as [Hfjb _]. destruct Hend as [Hfe _].
    rewrite !zlength1 in HcN, HcT, Hfj, HcB, HcP, Hfjb, Hfe. rewrite HkI in Hfjb, Hfe.
    change (zlength counter_test) with 4 in Hfj, HcB, HcP, Hfjb, Hfe. fold kN in HcT, Hfj, HcB, HcP, Hfjb, Hfe. fold kB in HcP, Hfjb, Hfe.
    set (P0 := m_pc s) in *.
    destruct (eval_rval rt mt fuel false ss cn) as [cnt sa|e sa|sa] eqn:Ev; cbn [sbind] in He; try discriminate.
    set (d := zlength (m_stack s)).
    set (s1 := advance (with_frames s (FLoop [] d :: m_frames s))).
    assert (E1 : esteps 1 im s = Some (s1, [])) by (apply (estep1 im s _ _ _ Hfl); reflexivity).
    assert (Hs1 : sim ss s1) by (destruct Hsim; constructor; cbn; assumption).
    assert (HcN1 : code_at im (m_pc s1) N) by exact HcN.
    destruct (counter_init rt mt cn Hn im ss s1 cnt sa fuel [] d (m_frames s) Hs1 eq_refl HcN1 Ev) as [Hsa [nN HnN]]. subst sa. fold N in HnN. fold kN in HnN.
    set (s2 := with_counter s1 cnt kN) in *.
    assert (Hs2 : sim ss s2) by (apply sim_with_counter; exact Hs1).
    assert (Hin1 : in_loop_ok true (Some (4 + 1))) by (intros _; exists (4 + 1); reflexivity).
    assert (Hiter : forall f ss1 sx sg ssx lv c0,
              sim ss1 sx -> m_pc sx = P0 + 1 + kN -> m_frames sx = FLoop lv d :: m_frames s -> lv_get lv LV_COUNTER = Some c0 -> m_stack sx = m_stack s ->
              iterate rt mt f false ss1 None (Some c0) None None a = ROk sg ssx ->
              sg = SigNormal /\ exists n sy evs, esteps n im sx = Some (sy, evs) /\ sim ssx sy /\ m_pc sy = P0 + (kN + kB + 12) /\
                                           (m_stack sy, m_frames sy) = (m_stack s, m_frames s) /\ rev (s_trace ssx) = rev (s_trace ss1) ++ evs).
    { induction f as [|f IHf]; intros ss1 sx sg ssx lv c0 Hsx Hpcx Hfrx Hlvx Hstx Hit; [discriminate|].
      rewrite iterate_count in Hit.
      destruct (positive c0) as [go|e] eqn:Epos; cbn [lift_res sbind] in Hit; [|discriminate].
      assert (HcTx : code_at im (m_pc sx) counter_test) by (rewrite Hpcx; exact HcT).
      destruct (counter_test_steps im sx lv d (m_frames s) c0 go Hfrx Hlvx Epos HcTx) as (res & Et & Hres).
      set (s3 := put_vm sx (DReg R_RESULT) res 4) in *.
      assert (Hs3 : sim ss1 s3) by (apply sim_put_reg_hidden; [exact Hsx|reflexivity]).
      assert (Hr3 : rf_get (m_regs s3) R_RESULT = Some res) by (unfold s3; cbn [put_vm m_regs]; apply rf_get_set_same).
      assert (Hpc3 : m_pc s3 = P0 + 1 + kN + 4) by (unfold s3; cbn [put_vm m_pc]; rewrite Hpcx; reflexivity).
      assert (Hfj3 : fetch im (m_pc s3) = Some (jump JC_IF_FALSE (kB + 4 + 2))) by (rewrite Hpc3; exact Hfj).
      pose proof (jump_if_false im s3 res (kB + 4 + 2) Hr3 Hfj3) as Ej. rewrite Hres in Ej.
      destruct go; cbn [negb] in Hit.
      - destruct (Sem.exec rt mt f false ss1 a) as [sgb sb|eb sb|sb] eqn:Eb; cbn [sbind] in Hit; try discriminate.
        set (s4 := with_pc s3 (m_pc s3 + 1)) in *.
        assert (HcB4 : code_at im (m_pc s4) B) by (unfold s4; cbn [with_pc m_pc]; rewrite Hpc3; exact HcB).
        assert (Hst4 : m_stack s4 = m_stack s /\ m_frames s4 = FLoop lv d :: m_frames s) by (split; assumption).
        destruct Hst4 as [Hsk4 Hfk4].
        destruct (IHa (Some (4 + 1)) im ss1 s4 sgb sb f Hin1 (sim_with_pc ss1 s3 _ Hs3) HcB4 Eb)
          as [[Hsgb (n5 & s5 & e5 & E5 & Hs5 & Hpc5 & Hst5 & Ht5)]|[Hsgb (a' & Ha' & (n5 & s5 & e5 & E5 & Hs5 & Hpc5 & Hst5 & Ht5))]]; subst sgb.
        + (* the body ends normally: count down, back to the test *)
          destruct (sub1 c0) as [c1|e] eqn:Esub; cbn [bind] in Hit; [|discriminate].
          assert (Hsk5 : m_stack s5 = m_stack s) by (transitivity (m_stack s4); [exact (f_equal fst Hst5)|exact Hsk4]).
          assert (Hfk5 : m_frames s5 = FLoop lv d :: m_frames s) by (transitivity (m_frames s4); [exact (f_equal snd Hst5)|exact Hfk4]).
          assert (Hpc5' : m_pc s5 = P0 + 1 + kN + 4 + 1 + kB) by (rewrite Hpc5; unfold s4; cbn [with_pc m_pc]; rewrite Hpc3; fold B; fold kB; reflexivity).
          assert (HcP5 : code_at im (m_pc s5) (counter_post None)) by (rewrite Hpc5'; exact HcP).
          pose proof (counter_post_steps im s5 lv d (m_frames s) c0 c1 Hfk5 Hlvx Esub HcP5) as E6.
          set (s6 := with_counter s5 c1 4) in *.
          assert (Hs6 : sim sb s6) by (apply sim_with_counter; exact Hs5).
          assert (Hfjb6 : fetch im (m_pc s6) = Some (jump JC_ALWAYS (- (4 + 1 + (kB + 4))))).
          { unfold s6. cbn [with_counter m_pc]. rewrite Hpc5'. replace (P0 + 1 + kN + 4 + 1 + kB + 4) with (P0 + 1 + kN + 4 + 1 + (kB + 4)) by lia. exact Hfjb. }
          pose proof (jump_always im s6 (- (4 + 1 + (kB + 4))) Hfjb6) as Ejb.
          set (s7 := with_pc s6 (m_pc s6 + - (4 + 1 + (kB + 4)))) in *.
          destruct (IHf sb s7 sg ssx (lv_set lv LV_COUNTER c1) c1 (sim_with_pc sb s6 _ Hs6)) as [Hsg (n8 & s8 & e8 & E8 & Hs8 & Hpc8 & Hst8 & Ht8)].
          { unfold s7. cbn [with_pc m_pc]. unfold s6. cbn [with_counter m_pc]. rewrite Hpc5'. lia. }
          { unfold s7, s6. cbn [with_pc with_counter m_frames]. rewrite Hfk5. reflexivity. }
          { apply lv_get_set. }
          { exact Hsk5. }
          { exact Hit. }
          split; [exact Hsg|]. exists (4 + (1 + (n5 + (4 + (1 + n8)))))%nat, s8, ([] ++ ([] ++ (e5 ++ ([] ++ ([] ++ e8))))).
          split; [eapply esteps_app; [exact Et|eapply esteps_app; [exact Ej|eapply esteps_app; [exact E5|eapply esteps_app; [exact E6|eapply esteps_app; [exact Ejb|exact E8]]]]]|].
          split; [exact Hs8|]. split; [exact Hpc8|]. split; [exact Hst8|]. cbn [app]. rewrite Ht8, Ht5, app_assoc. reflexivity.
        + (* the body breaks: it has jumped over the count-down to END_LOOP *)
          injection Ha' as Ha'. subst a'. injection Hit as Hsg Hss. subst ssx.
          assert (Hsk5 : m_stack s5 = m_stack s) by (transitivity (m_stack s4); [exact (f_equal fst Hst5)|exact Hsk4]).
          assert (Hfk5 : m_frames s5 = FLoop lv d :: m_frames s) by (transitivity (m_frames s4); [exact (f_equal snd Hst5)|exact Hfk4]).
          assert (Hfe5 : fetch im (m_pc s5) = Some (I0 OC_END_LOOP)).
          { rewrite Hpc5. unfold s4. cbn [with_pc m_pc]. rewrite Hpc3. fold B. fold kB.
            replace (P0 + 1 + kN + 4 + 1 + kB + 5) with (P0 + 1 + kN + 4 + 1 + (kB + 4) + 1) by lia. exact Hfe. }
          destruct (end_loop_step im sb s5 s lv Hs5 (sim_frames _ _ Hsim) Hfe5 Hfk5 Hsk5) as (s6 & E6 & Hs6 & Hpc6 & Hst6).
          split; [auto|]. exists (4 + (1 + (n5 + 1)))%nat, s6, ([] ++ ([] ++ (e5 ++ []))).
          split; [eapply esteps_app; [exact Et|eapply esteps_app; [exact Ej|eapply esteps_app; [exact E5|exact E6]]]|].
          split; [exact Hs6|]. split; [rewrite Hpc6, Hpc5; unfold s4; cbn [with_pc m_pc]; rewrite Hpc3; fold B; fold kB; lia|].
          split; [exact Hst6|]. cbn [app]. rewrite app_nil_r. exact Ht5.
      - (* the count is used up *)
        injection Hit as Hsg Hss. subst ssx.
        set (s4 := with_pc s3 (m_pc s3 + (kB + 4 + 2))) in *.
        assert (Hfe4 : fetch im (m_pc s4) = Some (I0 OC_END_LOOP)).
        { unfold s4. cbn [with_pc m_pc]. rewrite Hpc3. replace (P0 + 1 + kN + 4 + (kB + 4 + 2)) with (P0 + 1 + kN + 4 + 1 + (kB + 4) + 1) by lia. exact Hfe. }
        destruct (end_loop_step im ss1 s4 s lv (sim_with_pc ss1 s3 _ Hs3) (sim_frames _ _ Hsim) Hfe4 Hfrx Hstx) as (s5 & E5 & Hs5 & Hpc5 & Hst5).
        split; [auto|]. exists (4 + (1 + 1))%nat, s5, ([] ++ ([] ++ [])).
        split; [eapply esteps_app; [exact Et|eapply esteps_app; [exact Ej|exact E5]]|].
        split; [exact Hs5|]. split; [rewrite Hpc5; unfold s4; cbn [with_pc m_pc]; rewrite Hpc3; lia|].
        split; [exact Hst5|]. rewrite app_nil_r. reflexivity. }
    destruct (Hiter fuel ss s2 sig ss' (lv_set [] LV_COUNTER cnt) cnt Hs2) as [Hsig (n & sy & evs & En & Hsy & Hpcy & Hsty & Hty)].
    { unfold s2, s1. cbn [with_counter advance with_pc with_frames with_vars m_pc]. fold P0. reflexivity. }
    { reflexivity. }
    { apply lv_get_set. }
    { reflexivity. }
    { exact He. }
    left. split; [exact Hsig|]. exists (1 + (nN + n))%nat, sy, ([] ++ ([] ++ evs)).
    split; [eapply esteps_app; [exact E1|eapply esteps_app; [exact HnN|exact En]]|]. split; [exact Hsy|].
    split; [rewrite Hpcy; unfold kN, kB, zlength; rewrite !app_length; cbn [length]; rewrite !Nat2Z.inj_add; change (Z.of_nat (length counter_test)) with 4; change (Z.of_nat (length (counter_post None))) with 4; lia|].
    split; [exact Hsty|exact Hty].
  - (* endless repeat: left only by break *)
    intros inl a Ha IHa after im ss s sig ss' fuel _ Hsim Hcode He.
    destruct fuel as [|[|fuel]]; try discriminate. rewrite exec_infinite in He.
    rewrite c_loop_after, c_infinite, app_nil_r in *.
    pose proof (proj1 simpleB_no_routine true a Ha (Some 1)) as Hnrb.
    rewrite (len_no_routine _ Hnrb) in *.
    set (B := c_stmt rt mt false (Some 1) a) in *. set (kB := zlength B) in *.
    apply code_at_app in Hcode. destruct Hcode as [Hloop Hcode]. cbn [code_at] in Hloop. destruct Hloop as [Hfl _].
    apply code_at_app in Hcode. destruct Hcode as [HcT Hcode]. cbn [code_at] in HcT. destruct HcT as [Hft _].
    apply code_at_app in Hcode. destruct Hcode as [Hj Hcode]. cbn [code_at] in Hj. destruct Hj as [Hfj _].
    apply code_at_app in Hcode. destruct Hcode as [HcB Hcode].
    apply code_at_app in Hcode. destruct Hcode as [Hjb Hend]. cbn [code_at] in Hjb, Hend. destruct Hjb as [Hfjb _]. destruct Hend as [Hfe _].
    rewrite !zlength1 in Hft, Hfj, HcB, Hfjb, Hfe. fold kB in Hfjb, Hfe.
    set (P0 := m_pc s) in *.
    set (d := zlength (m_stack s)).
    set (s1 := advance (with_frames s (FLoop [] d :: m_frames s))).
    assert (E1 : esteps 1 im s = Some (s1, [])) by (apply (estep1 im s _ _ _ Hfl); reflexivity).
    assert (Hs1 : sim ss s1) by (destruct Hsim; constructor; cbn; assumption).
    assert (Hin1 : in_loop_ok true (Some 1)) by (intros _; exists 1; reflexivity).
    assert (Hiter : forall f ss1 sx sg ssx lv,
              sim ss1 sx -> m_pc sx = P0 + 1 -> m_frames sx = FLoop lv d :: m_frames s -> m_stack sx = m_stack s ->
              iterate rt mt f false ss1 None None None None a = ROk sg ssx ->
              sg = SigNormal /\ exists n sy evs, esteps n im sx = Some (sy, evs) /\ sim ssx sy /\ m_pc sy = P0 + (1 + kB + 4) /\
                                           (m_stack sy, m_frames sy) = (m_stack s, m_frames s) /\ rev (s_trace ssx) = rev (s_trace ss1) ++ evs).
    { induction f as [|f IHf]; intros ss1 sx sg ssx lv Hsx Hpcx Hfrx Hstx Hit; [discriminate|].
      rewrite iterate_infinite in Hit.
      assert (Hftx : fetch im (m_pc sx) = Some (I2 OC_MOVEQ (PBool true) (PReg R_RESULT))) by (rewrite Hpcx; exact Hft).
      set (s2 := put_vm sx (DReg R_RESULT) (VBool true) 1) in *.
      assert (Et : esteps 1 im sx = Some (s2, [])).
      { apply (estep1 im sx _ _ _ Hftx). change (PReg R_RESULT) with (dest_param (DReg R_RESULT)).
        rewrite (exec_moveq im sx (PBool true) (DReg R_RESULT) (VBool true) eq_refl eq_refl). apply lift_put; [exact (sim_frames _ _ Hsx)|reflexivity]. }
      assert (Hs2 : sim ss1 s2) by (apply sim_put_reg_hidden; [exact Hsx|reflexivity]).
      assert (Hr2 : rf_get (m_regs s2) R_RESULT = Some (VBool true)) by (unfold s2; cbn [put_vm m_regs]; apply rf_get_set_same).
      assert (Hpc2 : m_pc s2 = P0 + 1 + 1) by (unfold s2; cbn [put_vm m_pc]; rewrite Hpcx; reflexivity).
      assert (Hfj2 : fetch im (m_pc s2) = Some (jump JC_IF_FALSE (kB + 2))) by (rewrite Hpc2; exact Hfj).
      pose proof (jump_if_false im s2 (VBool true) (kB + 2) Hr2 Hfj2) as Ej. cbn [truthy] in Ej.
      destruct (Sem.exec rt mt f false ss1 a) as [sgb sb|eb sb|sb] eqn:Eb; cbn [sbind] in Hit; try discriminate.
      set (s3 := with_pc s2 (m_pc s2 + 1)) in *.
      assert (HcB3 : code_at im (m_pc s3) B) by (unfold s3; cbn [with_pc m_pc]; rewrite Hpc2; exact HcB).
      assert (Hst3 : m_stack s3 = m_stack s /\ m_frames s3 = FLoop lv d :: m_frames s) by (split; assumption).
      destruct Hst3 as [Hsk3 Hfk3].
      destruct (IHa (Some 1) im ss1 s3 sgb sb f Hin1 (sim_with_pc ss1 s2 _ Hs2) HcB3 Eb)
        as [[Hsgb (n3 & s4 & e4 & E4 & Hs4 & Hpc4 & Hst4 & Ht4)]|[Hsgb (a' & Ha' & (n3 & s4 & e4 & E4 & Hs4 & Hpc4 & Hst4 & Ht4))]]; subst sgb.
      + assert (Hfjb4 : fetch im (m_pc s4) = Some (jump JC_ALWAYS (- (1 + 1 + kB)))).
        { rewrite Hpc4. unfold s3. cbn [with_pc m_pc]. rewrite Hpc2. fold B. fold kB. exact Hfjb. }
        pose proof (jump_always im s4 (- (1 + 1 + kB)) Hfjb4) as Ejb.
        set (s5 := with_pc s4 (m_pc s4 + - (1 + 1 + kB))) in *.
        assert (Hsk4 : m_stack s4 = m_stack s) by (transitivity (m_stack s3); [exact (f_equal fst Hst4)|exact Hsk3]).
        assert (Hfk4 : m_frames s4 = FLoop lv d :: m_frames s) by (transitivity (m_frames s3); [exact (f_equal snd Hst4)|exact Hfk3]).
        destruct (IHf sb s5 sg ssx lv (sim_with_pc sb s4 _ Hs4)) as [Hsg (n6 & s6 & e6 & E6 & Hs6 & Hpc6 & Hst6 & Ht6)].
        { unfold s5. cbn [with_pc m_pc]. rewrite Hpc4. unfold s3. cbn [with_pc m_pc]. rewrite Hpc2. fold B. fold kB. lia. }
        { exact Hfk4. }
        { exact Hsk4. }
        { exact Hit. }
        split; [exact Hsg|]. exists (1 + (1 + (n3 + (1 + n6))))%nat, s6, ([] ++ ([] ++ (e4 ++ ([] ++ e6)))).
        split; [eapply esteps_app; [exact Et|eapply esteps_app; [exact Ej|eapply esteps_app; [exact E4|eapply esteps_app; [exact Ejb|exact E6]]]]|].
        split; [exact Hs6|]. split; [exact Hpc6|]. split; [exact Hst6|]. cbn [app]. rewrite Ht6, Ht4, app_assoc. reflexivity.
      + injection Ha' as Ha'. subst a'. injection Hit as Hsg Hss. subst ssx.
        assert (Hsk4 : m_stack s4 = m_stack s) by (transitivity (m_stack s3); [exact (f_equal fst Hst4)|exact Hsk3]).
        assert (Hfk4 : m_frames s4 = FLoop lv d :: m_frames s) by (transitivity (m_frames s3); [exact (f_equal snd Hst4)|exact Hfk3]).
        assert (Hfe4 : fetch im (m_pc s4) = Some (I0 OC_END_LOOP)).
        { rewrite Hpc4. unfold s3. cbn [with_pc m_pc]. rewrite Hpc2. fold B. fold kB. exact Hfe. }
        destruct (end_loop_step im sb s4 s lv Hs4 (sim_frames _ _ Hsim) Hfe4 Hfk4 Hsk4) as (s5 & E5 & Hs5 & Hpc5 & Hst5).
        split; [auto|]. exists (1 + (1 + (n3 + 1)))%nat, s5, ([] ++ ([] ++ (e4 ++ []))).
        split; [eapply esteps_app; [exact Et|eapply esteps_app; [exact Ej|eapply esteps_app; [exact E4|exact E5]]]|].
        split; [exact Hs5|]. split; [rewrite Hpc5, Hpc4; unfold s3; cbn [with_pc m_pc]; rewrite Hpc2; fold B; fold kB; lia|].
        split; [exact Hst5|]. cbn [app]. rewrite app_nil_r. exact Ht4. }
    destruct (Hiter fuel ss s1 sig ss' [] Hs1 eq_refl eq_refl eq_refl He) as [Hsig (n & sy & evs & En & Hsy & Hpcy & Hsty & Hty)].
    left. split; [exact Hsig|]. exists (1 + n)%nat, sy, ([] ++ evs).
    split; [eapply esteps_app; [exact E1|exact En]|]. split; [exact Hsy|].
    split; [rewrite Hpcy; unfold kB, zlength; rewrite !app_length; cbn [length]; rewrite !Nat2Z.inj_add; lia|].
    split; [exact Hsty|exact Hty].
  - (* empty sequence *)
    intros inl after im ss s sig ss' fuel _ Hsim Hc He. destruct fuel as [|fuel]; [discriminate|]. rewrite exec_seq_nil in He.
    injection He as Hsig He. subst ss'. left. split; [auto|]. rewrite c_block_nil. unfold zlength. cbn [length]. rewrite Z.add_0_r.
    apply sim_to_refl. exact Hsim.
  - (* sequence *)
    intros inl st r Hst IHst Hr IHr after im ss s sig ss' fuel Hin Hsim Hc He.
    destruct fuel as [|fuel]; [discriminate|]. rewrite exec_seq_cons in He. rewrite c_block_cons_after in *.
    pose proof (proj2 simpleB_no_routine inl r Hr after) as Hnrr. rewrite (len_no_routine _ Hnrr) in *.
    set (rest := c_stmt rt mt false after (SBlock r)) in *.
    set (after_st := option_map (fun a : Z => a + zlength rest) after) in *.
    set (first := c_stmt rt mt false after_st st) in *.
    destruct (Sem.exec rt mt fuel false ss st) as [sg sa|e sa|sa] eqn:Est; cbn [sbind] in He; try discriminate.
    apply code_at_app in Hc. destruct Hc as [Hc1 Hc2].
    assert (Hlen : zlength (first ++ rest) = zlength first + zlength rest) by (unfold zlength; rewrite app_length, Nat2Z.inj_add; reflexivity).
    destruct (IHst after_st im ss s sg sa fuel (in_loop_ok_map inl after _ Hin) Hsim Hc1 Est) as [[Hsg (n1 & s1 & e1 & E1 & Hs1 & Hpc1 & Hst1 & Ht1)]|[Hsg (a' & Ha' & Hto)]].
    + subst sg.
      assert (Hc2' : code_at im (m_pc s1) rest) by (rewrite Hpc1; exact Hc2).
      pose proof (IHr after im sa s1 sig ss' fuel Hin Hs1 Hc2' He) as Ho.
      apply (outcome_after_steps after im ss s sa s1 n1 e1 sig ss' rest); [exact E1|exact Hst1|exact Ht1| |exact Ho].
      rewrite Hpc1, Hlen. unfold first. ring.
    + subst sg. injection He as Hsig Hss. subst sig ss'.
      right. split; [reflexivity|]. unfold after_st in Ha'. destruct after as [a0|]; cbn [option_map] in Ha'; [|discriminate]. injection Ha' as Ha'. subst a'.
      exists a0. split; [reflexivity|]. rewrite Hlen.
      replace (m_pc s + (zlength first + zlength rest) + a0) with (m_pc s + zlength first + (a0 + zlength rest)) by ring. exact Hto.
Qed.

End Sim3.

(* every call-free program of covered statements, conditionals, blocks, while / counted / endless loops and breaks:
   compiled, loaded and run on the machine model from the initial state it finishes with exactly the events the
   reference semantics gives for its source *)
Theorem structured_program_runs_as_its_source_says (p : script) (w : world) (fuel : nat) (evs : list event) :
  SimpleBL (snd (collect p [] [])) false p ->
  run_src fuel p w = SFinished evs ->
  exists k, run_program k (compile p) w = Finished evs.
Proof.
  intros Hs Hrun. unfold run_src, compile in *. destruct (collect p [] []) as [rt mt] eqn:Ec. cbn [snd] in Hs.
  destruct (exec_seq rt mt fuel false (init_sstate w) p) as [sig ss'|e ss'|ss'] eqn:Ee; try discriminate.
  injection Hrun as Hrun.
  rewrite <- (c_block_flat rt mt p).
  set (code := c_stmt rt mt false None (SBlock p)) in *.
  set (im := load code).
  assert (Him : im_code im = code) by (apply load_no_routine; apply (proj2 (simpleB_no_routine rt mt) false p Hs None)).
  assert (Hc : code_at im (m_pc (init_state w)) code) by (apply (code_at_suffix im [] code); exact Him).
  assert (Hin : in_loop_ok false None) by (intros H; discriminate).
  destruct (proj2 (simpleB_simulation rt mt) false p Hs None im (init_sstate w) (init_state w) sig ss' fuel Hin (sim_init w) Hc Ee)
    as [[_ (n & s' & es & En & Hsim & Hpc & _ & Htr)]|[_ (a & Ha & _)]]; [|discriminate].
  exists (n + 1)%nat. unfold run_program, run_image. fold im.
  rewrite (run_from_esteps n im (init_state w) s' es 1 [] En). cbn [run_from].
  assert (Hend : (zlength (im_code im) <=? m_pc s') = true).
  { apply Z.leb_le. rewrite Him, Hpc. fold code. cbn [init_state m_pc]. lia. }
  rewrite Hend. cbn [fst]. unfold flush_events. rewrite (sim_unnamed _ _ Hsim). cbn [map app].
  rewrite rev_append_rev, app_nil_r, rev_involutive. cbn [init_sstate s_trace rev app] in Htr. rewrite <- Htr. f_equal. exact Hrun.
Qed.

(* where the machine stands afterwards, and that nothing is left dangling (the statement of C05 for this fragment) *)
Theorem structured_control_leads_where_the_source_says :
  forall rt mt inl st, SimpleB mt inl st ->
  forall after im ss s sig ss' fuel, in_loop_ok inl after -> sim ss s -> code_at im (m_pc s) (c_stmt rt mt false after st) ->
  Sem.exec rt mt fuel false ss st = ROk sig ss' ->
  (sig = SigNormal /\ exists n s' evs, esteps n im s = Some (s', evs) /\ m_pc s' = m_pc s + zlength (c_stmt rt mt false after st) /\
                                       (m_stack s', m_frames s') = (m_stack s, m_frames s)) \/
  (sig = SigBreak /\ exists a n s' evs, after = Some a /\ esteps n im s = Some (s', evs) /\
                                        m_pc s' = m_pc s + zlength (c_stmt rt mt false after st) + a /\
                                        (m_stack s', m_frames s') = (m_stack s, m_frames s)).
Proof.
  intros rt mt inl st Hst after im ss s sig ss' fuel Hin Hsim Hc He.
  destruct (proj1 (simpleB_simulation rt mt) inl st Hst after im ss s sig ss' fuel Hin Hsim Hc He)
    as [[Hsig (n & s' & evs & E & _ & Hpc & Hsf & _)]|[Hsig (a & Ha & n & s' & evs & E & _ & Hpc & Hsf & _)]].
  - left. split; [exact Hsig|]. exists n, s', evs. split; [exact E|]. split; [exact Hpc|exact Hsf].
  - right. split; [exact Hsig|]. exists a, n, s', evs. split; [exact Ha|]. split; [exact E|]. split; [exact Hpc|exact Hsf].
Qed.

(* a boolean test for the covered programs (sound for SimpleB / SimpleBL) *)
Section CheckB.
Variable mt : mtable.
Fixpoint simpleB_b (fuel : nat) (inl : bool) (st : stmt) : bool :=
  match fuel with
  | O => false
  | S f =>
      simple_atom mt st ||
      match st with
      | SBreak => inl
      | SIf c a None => plain_rval mt c && simpleB_b f inl a
      | SIf c a (Some b) => plain_rval mt c && simpleB_b f inl a && simpleB_b f inl b
      | SBlock l => forallb (simpleB_b f inl) l
      | SRepeat (LWhile c) a => plain_rval mt c && simpleB_b f true a
      | SRepeat (LCount n) a => plain_rval mt n && simpleB_b f true a
      | SRepeat LInfinite a => simpleB_b f true a
      | _ => false
      end
  end.

Lemma simpleB_b_sound fuel : forall inl st, simpleB_b fuel inl st = true -> SimpleB mt inl st.
Proof.
  induction fuel as [|f IH]; intros inl st H; [discriminate|]. cbn [simpleB_b] in H.
  destruct (simple_atom mt st) eqn:Ea; [apply B_simple; apply S_atom; exact Ea|]. cbn [orb] in H.
  destruct st; try discriminate.
  - destruct s2 as [b|].
    + apply andb_true_iff in H. destruct H as [H Hb]. apply andb_true_iff in H. destruct H as [Hc Ha].
      apply B_ifelse; [exact Hc|apply IH; exact Ha|apply IH; exact Hb].
    + apply andb_true_iff in H. destruct H as [Hc Ha]. apply B_if; [exact Hc|apply IH; exact Ha].
  - destruct l; try discriminate.
    + apply B_infinite. apply IH. exact H.
    + apply andb_true_iff in H. destruct H as [Hc Ha]. apply B_while; [exact Hc|apply IH; exact Ha].
    + apply andb_true_iff in H. destruct H as [Hc Ha]. apply B_count; [exact Hc|apply IH; exact Ha].
  - subst inl. apply B_break.
  - apply B_block. clear Ea. induction ss as [|x r IHr]; [constructor|]. cbn [forallb] in H. apply andb_true_iff in H. destruct H as [Hx Hr].
    constructor; [apply IH; exact Hx|apply IHr; exact Hr].
Qed.

Lemma simpleB_list_sound fuel l : forallb (simpleB_b fuel false) l = true -> SimpleBL mt false l.
Proof.
  induction l as [|x r IH]; intros H; [constructor|]. cbn [forallb] in H. apply andb_true_iff in H. destruct H as [Hx Hr].
  constructor; [apply (simpleB_b_sound fuel); exact Hx|apply IH; exact Hr].
Qed.
End CheckB.
