(* The light population as the VM sees it through LightSet (after one discovery),
   and the observable events of a run. *)
From Coq Require Import ZArith String List Bool PrimFloat.
From Bardolph Require Import Gen.Codes Time.TimeSpec Time.TimeCore Lang.Value.
Open Scope string_scope.
Open Scope list_scope.
Import ListNotations.
Open Scope Z_scope.

Inductive lkind := KPlain | KMulti (zones : Z) | KMatrix (h w : Z).

Record light := mkLight {
  l_name : string; l_group : string; l_loc : string; l_kind : lkind;
  l_color : list Z           (* what get_color answers: the colour last set on the light *)
}.

Definition world := list light.

(* insertion into a code-point-sorted, duplicate-free list (SortedList.add) *)
Fixpoint sorted_insert (x : string) (l : list string) : list string :=
  match l with
  | [] => [x]
  | y :: r => if String.eqb x y then l else if str_ltb x y then x :: l else y :: sorted_insert x r
  end.
Definition sort_names (l : list string) : list string := fold_left (fun acc x => sorted_insert x acc) l [].

Definition light_names (w : world) : list string := sort_names (map l_name w).
Definition group_names (w : world) : list string := sort_names (map l_group w).
Definition location_names (w : world) : list string := sort_names (map l_loc w).

(* dict semantics: the last light discovered under a name is the one kept *)
Definition find_light (w : world) (n : string) : option light :=
  fold_left (fun acc l => if String.eqb (l_name l) n then Some l else acc) w None.

Definition members (sel : light -> string) (w : world) (g : string) : option (list string) :=
  match sort_names (map l_name (filter (fun l => String.eqb (sel l) g) w)) with
  | [] => None
  | l => Some l
  end.
Definition group_lights := members l_group.
Definition location_lights := members l_loc.

Definition set_light_color (n : string) (c : list Z) (w : world) : world :=
  map (fun l => if String.eqb (l_name l) n then mkLight (l_name l) (l_group l) (l_loc l) (l_kind l) c else l) w.
Definition set_all_colors (c : list Z) (w : world) : world :=
  map (fun l => mkLight (l_name l) (l_group l) (l_loc l) (l_kind l) c) w.

(* SortedList.last / first / prev / next on a sorted list of names *)
Definition sl_last (l : list string) : option string := last (map Some l) None.
Definition sl_first (l : list string) : option string := hd_error l.
(* prev: greatest element strictly smaller than the probe (bisect_left) *)
Fixpoint sl_prev (l : list string) (x : string) : option string :=
  match l with
  | [] => None
  | y :: r => if str_ltb y x then (match sl_prev r x with Some z => Some z | None => Some y end) else None
  end.
(* next: least element strictly greater than the probe (bisect_right) *)
Fixpoint sl_next (l : list string) (x : string) : option string :=
  match l with
  | [] => None
  | y :: r => if str_ltb x y then Some y else sl_next r x
  end.

(* ---------- observable events ---------- *)
Inductive event :=
| EvColor (name : string) (c : list Z) (dur : Z)          (* light.set_color *)
| EvPower (name : string) (p : Z) (dur : Z)               (* light.set_power *)
| EvAllColor (c : list Z) (dur : Z)                       (* api.set_color_all_lights *)
| EvAllPower (p : Z) (dur : Z)                            (* api.set_power_all_lights *)
| EvZone (name : string) (a b : Z) (c : list Z) (dur : Z) (* light.set_zone_colors(a, b, ...) : zones [a, b) *)
| EvMatrix (name : string) (cells : list (list Z)) (dur : value)  (* light.set_matrix *)
| EvGet (name : string)                                   (* light.get_color *)
| EvPause (t : value)                                     (* clock.pause_for *)
| EvWaitUntil (p : tp)                                    (* clock.wait_until *)
| EvOut (v : value) | EvNewline | EvFlush                 (* output sink *)
| EvPrintf (fmt : string) (args : list value) (named : list (string * value))
| EvBreakpoint.
