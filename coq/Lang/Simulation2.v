(* C01: the forward simulation of Lang/Simulation.v extended to conditionals (if / else, nested to
   any depth) and begin ... end blocks of covered statements: every loop-free, call-free program. *)
From Coq Require Import ZArith String List Bool Lia.
From Bardolph Require Import Gen.Codes Lang.Value Lang.Instr Lang.Loader Lang.World Lang.Units0 Lang.Regs Lang.Devices
  Lang.Machine Lang.Syntax Lang.Sem Lang.CodeGen Lang.ExprCompile Lang.Simulation.
Open Scope string_scope.
Open Scope list_scope.
Import ListNotations.
Open Scope Z_scope.

Lemma rlen_no_routine p : forallb not_routine p = true -> forall acc, rlen_go p None acc = acc + zlength p.
Proof.
  induction p as [|i r IH]; intros Hp acc; [unfold zlength; cbn; lia|].
  cbn [forallb] in Hp. apply andb_true_iff in Hp. destruct Hp as [Hi Hr]. cbn [rlen_go].
  unfold not_routine in Hi. destruct (i_op i); try discriminate; rewrite (IH Hr); unfold zlength; cbn [length]; lia.
Qed.
Lemma len_no_routine p : forallb not_routine p = true -> len p = zlength p.
Proof. intros H. unfold len. rewrite (rlen_no_routine p H). lia. Qed.

Section Sim.
Variable rt : rtable.
Variable mt : mtable.

Inductive Simple : stmt -> Prop :=
| S_atom st : simple_atom mt st = true -> Simple st
| S_if c a : plain_rval mt c = true -> Simple a -> Simple (SIf c a None)
| S_ifelse c a b : plain_rval mt c = true -> Simple a -> Simple b -> Simple (SIf c a (Some b))
| S_block l : SimpleL l -> Simple (SBlock l)
with SimpleL : list stmt -> Prop :=
| SL_nil : SimpleL []
| SL_cons st r : Simple st -> SimpleL r -> SimpleL (st :: r).

Scheme Simple_ind2 := Induction for Simple Sort Prop
with SimpleL_ind2 := Induction for SimpleL Sort Prop.
Combined Scheme Simple_mutind from Simple_ind2, SimpleL_ind2.

Fixpoint size (st : stmt) : nat :=
  match st with
  | SIf c a None => S (rheight c + size a)
  | SIf c a (Some b) => S (rheight c + size a + size b)
  | SBlock l => S ((fix go (l : list stmt) : nat := match l with [] => 1%nat | x :: r => S (size x + go r) end) l)
  | _ => atom_size st
  end.
Definition sizeL (l : list stmt) : nat := (fix go (l : list stmt) : nat := match l with [] => 1%nat | x :: r => S (size x + go r) end) l.
Lemma size_block l : size (SBlock l) = S (sizeL l). Proof. reflexivity. Qed.
Lemma sizeL_cons x r : sizeL (x :: r) = S (size x + sizeL r). Proof. reflexivity. Qed.
Lemma size_atom st : simple_atom mt st = true -> size st = atom_size st.
Proof. destruct st; cbn; intros H; try reflexivity; discriminate. Qed.

Lemma c_block_cons st r : c_stmt rt mt false None (SBlock (st :: r)) = c_stmt rt mt false None st ++ c_stmt rt mt false None (SBlock r).
Proof. reflexivity. Qed.
Lemma c_if1 c a : c_stmt rt mt false None (SIf c a None) =
  c_rval rt mt c (DReg R_RESULT) ++ [jump JC_IF_FALSE (len (c_stmt rt mt false None a) + 1)] ++ c_stmt rt mt false None a.
Proof. reflexivity. Qed.
Lemma c_if2 c a b : c_stmt rt mt false None (SIf c a (Some b)) =
  c_rval rt mt c (DReg R_RESULT) ++ [jump JC_IF_FALSE (len (c_stmt rt mt false None a) + 2)] ++ c_stmt rt mt false None a ++
  [jump JC_ALWAYS (len (c_stmt rt mt false None b) + 1)] ++ c_stmt rt mt false None b.
Proof. reflexivity. Qed.
Lemma exec_if f ss c a b : Sem.exec rt mt (S f) false ss (SIf c a b) =
  (let* (x, sa) := eval_rval rt mt f false ss c in
   if truthy x then Sem.exec rt mt f false sa a else match b with Some e => Sem.exec rt mt f false sa e | None => ROk SigNormal sa end).
Proof. reflexivity. Qed.
Lemma exec_block f ss l : Sem.exec rt mt (S f) false ss (SBlock l) = exec_seq rt mt f false ss l.
Proof. reflexivity. Qed.

(* no routine markers in the code, so the compiler's relocation-aware length is the length *)
Lemma simple_no_routine :
  (forall st, Simple st -> forallb not_routine (c_stmt rt mt false None st) = true) /\
  (forall l, SimpleL l -> forallb not_routine (c_stmt rt mt false None (SBlock l)) = true).
Proof.
  apply Simple_mutind.
  - intros st H. apply atom_no_routine. exact H.
  - intros c a Hc _ IHa. rewrite c_if1, !forallb_app, IHa, (c_rval_no_routine rt mt c (DReg R_RESULT) Hc (plain_ok_result mt c Hc)). reflexivity.
  - intros c a b Hc _ IHa _ IHb. rewrite c_if2, !forallb_app, IHa, IHb, (c_rval_no_routine rt mt c (DReg R_RESULT) Hc (plain_ok_result mt c Hc)). reflexivity.
  - intros l _ IH. exact IH.
  - reflexivity.
  - intros st r _ IHst _ IHr. rewrite c_block_cons, forallb_app, IHst, IHr. reflexivity.
Qed.

(* the conditional jump after the condition has been stored in RESULT *)
Lemma jump_if_false im s x off :
  rf_get (m_regs s) R_RESULT = Some x -> fetch im (m_pc s) = Some (jump JC_IF_FALSE off) ->
  esteps 1 im s = Some (with_pc s (if truthy x then m_pc s + 1 else m_pc s + off), []).
Proof.
  intros Hr Hf. apply (estep1 im s _ _ _ Hf). cbn [Machine.exec jump i_op i_p0 i_p1 I2]. unfold reg, get_reg. rewrite Hr.
  cbn [jump_taken]. destruct (truthy x); reflexivity.
Qed.
Lemma jump_always im s off : fetch im (m_pc s) = Some (jump JC_ALWAYS off) -> esteps 1 im s = Some (with_pc s (m_pc s + off), []).
Proof. intros Hf. apply (estep1 im s _ _ _ Hf). reflexivity. Qed.

Lemma sim_with_pc ss s pc : sim ss s -> sim ss (with_pc s pc).
Proof. intros H. destruct H. constructor; assumption. Qed.

Theorem simple_simulation :
  (forall st, Simple st ->
     forall im ss s sig ss' fuel, sim ss s -> code_at im (m_pc s) (c_stmt rt mt false None st) -> (size st <= fuel)%nat ->
     Sem.exec rt mt fuel false ss st = ROk sig ss' -> sig = SigNormal /\ simulates im ss s ss' (c_stmt rt mt false None st)) /\
  (forall l, SimpleL l ->
     forall im ss s sig ss' fuel, sim ss s -> code_at im (m_pc s) (c_stmt rt mt false None (SBlock l)) -> (sizeL l <= fuel)%nat ->
     exec_seq rt mt fuel false ss l = ROk sig ss' -> sig = SigNormal /\ simulates im ss s ss' (c_stmt rt mt false None (SBlock l))).
Proof.
  apply Simple_mutind.
  - (* atom *)
    intros st Hst im ss s sig ss' fuel Hsim Hc Hfuel He. rewrite (size_atom st Hst) in Hfuel.
    pose proof (atom_signal rt mt st fuel ss sig ss' Hst He) as Hsig. subst sig. split; [reflexivity|].
    exact (atom_simulation rt mt st Hst im ss s ss' fuel Hsim Hc Hfuel He).
  - (* if without else *)
    intros c a Hc Ha IHa im ss s sig ss' fuel Hsim Hcode Hfuel He. cbn [size] in Hfuel.
    destruct fuel as [|fuel]; [lia|]. rewrite exec_if in He. rewrite c_if1 in *.
    destruct (eval_rval rt mt fuel false ss c) as [x sa|e sa|sa] eqn:Ev; cbn [sbind] in He; try discriminate.
    apply code_at_app in Hcode. destruct Hcode as [Hcc Hrest]. apply code_at_app in Hrest. destruct Hrest as [Hj Hbody]. cbn [code_at] in Hj. destruct Hj as [Hfj _].
    destruct (c_rval_runs rt mt c (DReg R_RESULT) Hc (plain_ok_result mt c Hc) im ss s x sa fuel Hsim Hcc ltac:(lia) Ev) as [Hsa [n Hn]]. subst sa.
    set (k := zlength (c_rval rt mt c (DReg R_RESULT))) in *.
    set (s1 := put_vm s (DReg R_RESULT) x k) in *.
    assert (Hs1 : sim ss s1) by (apply sim_put_reg_hidden; [exact Hsim|reflexivity]).
    assert (Hr1 : rf_get (m_regs s1) R_RESULT = Some x) by (unfold s1; cbn [put_vm m_regs]; apply rf_get_set_same).
    pose proof (proj1 simple_no_routine a Ha) as Hnr. rewrite (len_no_routine _ Hnr) in Hfj |- *.
    set (body := c_stmt rt mt false None a) in *.
    pose proof (jump_if_false im s1 x (zlength body + 1) Hr1 Hfj) as Ej.
    destruct (truthy x) eqn:Etx.
    + (* condition holds: the body runs *)
      set (s2 := with_pc s1 (m_pc s1 + 1)) in *.
      assert (Hb2 : code_at im (m_pc s2) body).
      { unfold s2. cbn [with_pc m_pc]. unfold s1. cbn [put_vm m_pc]. unfold zlength in Hbody. cbn [length] in Hbody. fold k in Hbody.
        replace (m_pc s + k + 1) with (m_pc s + k + Z.of_nat 1) by lia. exact Hbody. }
      destruct (IHa im ss s2 sig ss' fuel (sim_with_pc ss s1 _ Hs1) Hb2 ltac:(lia) He) as [Hsig (n2 & s3 & e3 & E3 & Hs3 & Hpc3 & Hst3 & Ht3)].
      split; [exact Hsig|]. exists (n + (1 + n2))%nat, s3, ([] ++ ([] ++ e3)).
      split; [eapply esteps_app; [exact Hn|eapply esteps_app; [exact Ej|exact E3]]|]. split; [exact Hs3|].
      split; [rewrite Hpc3; unfold s2; cbn [with_pc m_pc]; unfold s1; cbn [put_vm m_pc]; fold k; unfold zlength; rewrite !app_length, !Nat2Z.inj_add; cbn [length]; unfold zlength in k; fold k; lia|].
      split; [rewrite Hst3; reflexivity|exact Ht3].
    + (* condition fails: the body is skipped *)
      injection He as Hsig He. subst ss'. split; [auto|].
      exists (n + 1)%nat, (with_pc s1 (m_pc s1 + (zlength body + 1))), ([] ++ []).
      split; [eapply esteps_app; [exact Hn|exact Ej]|]. split; [apply sim_with_pc; exact Hs1|].
      split; [cbn [with_pc m_pc]; unfold s1; cbn [put_vm m_pc]; fold k; unfold zlength; rewrite !app_length, !Nat2Z.inj_add; cbn [length]; unfold zlength in k; fold k; lia|].
      split; [reflexivity|rewrite app_nil_r; reflexivity].
  - (* if with else *)
    intros c a b Hc Ha IHa Hb IHb im ss s sig ss' fuel Hsim Hcode Hfuel He. cbn [size] in Hfuel.
    destruct fuel as [|fuel]; [lia|]. rewrite exec_if in He. rewrite c_if2 in *.
    destruct (eval_rval rt mt fuel false ss c) as [x sa|e sa|sa] eqn:Ev; cbn [sbind] in He; try discriminate.
    apply code_at_app in Hcode. destruct Hcode as [Hcc Hrest]. apply code_at_app in Hrest. destruct Hrest as [Hj Hrest]. cbn [code_at] in Hj. destruct Hj as [Hfj _].
    apply code_at_app in Hrest. destruct Hrest as [Hthen Hrest]. apply code_at_app in Hrest. destruct Hrest as [Hj2 Helse]. cbn [code_at] in Hj2. destruct Hj2 as [Hfj2 _].
    destruct (c_rval_runs rt mt c (DReg R_RESULT) Hc (plain_ok_result mt c Hc) im ss s x sa fuel Hsim Hcc ltac:(lia) Ev) as [Hsa [n Hn]]. subst sa.
    set (k := zlength (c_rval rt mt c (DReg R_RESULT))) in *.
    set (s1 := put_vm s (DReg R_RESULT) x k) in *.
    assert (Hs1 : sim ss s1) by (apply sim_put_reg_hidden; [exact Hsim|reflexivity]).
    assert (Hr1 : rf_get (m_regs s1) R_RESULT = Some x) by (unfold s1; cbn [put_vm m_regs]; apply rf_get_set_same).
    pose proof (proj1 simple_no_routine a Ha) as Hnra. pose proof (proj1 simple_no_routine b Hb) as Hnrb.
    rewrite (len_no_routine _ Hnra) in Hfj |- *. rewrite (len_no_routine _ Hnrb) in Hfj2 |- *.
    set (ta := c_stmt rt mt false None a) in *. set (tb := c_stmt rt mt false None b) in *.
    pose proof (jump_if_false im s1 x (zlength ta + 2) Hr1 Hfj) as Ej.
    assert (Hk : m_pc s1 = m_pc s + k) by reflexivity.
    destruct (truthy x) eqn:Etx.
    + (* then-branch, then the jump over the else-branch *)
      set (s2 := with_pc s1 (m_pc s1 + 1)) in *.
      assert (Hb2 : code_at im (m_pc s2) ta).
      { unfold s2. cbn [with_pc m_pc]. rewrite Hk. unfold zlength in Hthen. cbn [length] in Hthen. fold k in Hthen.
        replace (m_pc s + k + 1) with (m_pc s + k + Z.of_nat 1) by lia. exact Hthen. }
      destruct (IHa im ss s2 sig ss' fuel (sim_with_pc ss s1 _ Hs1) Hb2 ltac:(lia) He) as [Hsig (n2 & s3 & e3 & E3 & Hs3 & Hpc3 & Hst3 & Ht3)].
      assert (Hfj2' : fetch im (m_pc s3) = Some (jump JC_ALWAYS (zlength tb + 1))).
      { rewrite Hpc3. unfold s2. cbn [with_pc m_pc]. rewrite Hk. unfold zlength in Hfj2 |- *. cbn [length] in Hfj2. fold k in Hfj2.
        replace (m_pc s + k + 1 + Z.of_nat (length ta)) with (m_pc s + k + Z.of_nat 1 + Z.of_nat (length ta)) by lia. exact Hfj2. }
      pose proof (jump_always im s3 (zlength tb + 1) Hfj2') as Ej2.
      split; [exact Hsig|]. exists (n + (1 + (n2 + 1)))%nat, (with_pc s3 (m_pc s3 + (zlength tb + 1))), ([] ++ ([] ++ (e3 ++ []))).
      split; [eapply esteps_app; [exact Hn|eapply esteps_app; [exact Ej|eapply esteps_app; [exact E3|exact Ej2]]]|].
      split; [apply sim_with_pc; exact Hs3|].
      split; [cbn [with_pc m_pc]; rewrite Hpc3; unfold s2; cbn [with_pc m_pc]; rewrite Hk; unfold zlength; rewrite !app_length, !Nat2Z.inj_add; cbn [length]; unfold zlength in k; fold k; lia|].
      split; [cbn [with_pc m_stack]; rewrite Hst3; reflexivity|]. cbn [app]. rewrite app_nil_r. exact Ht3.
    + (* else-branch *)
      set (s2 := with_pc s1 (m_pc s1 + (zlength ta + 2))) in *.
      assert (Hb2 : code_at im (m_pc s2) tb).
      { unfold s2. cbn [with_pc m_pc]. rewrite Hk. unfold zlength in Helse |- *. cbn [length] in Helse. fold k in Helse.
        replace (m_pc s + k + (Z.of_nat (length ta) + 2)) with (m_pc s + k + Z.of_nat 1 + Z.of_nat (length ta) + Z.of_nat 1) by lia. exact Helse. }
      destruct (IHb im ss s2 sig ss' fuel (sim_with_pc ss s1 _ Hs1) Hb2 ltac:(lia) He) as [Hsig (n2 & s3 & e3 & E3 & Hs3 & Hpc3 & Hst3 & Ht3)].
      split; [exact Hsig|]. exists (n + (1 + n2))%nat, s3, ([] ++ ([] ++ e3)).
      split; [eapply esteps_app; [exact Hn|eapply esteps_app; [exact Ej|exact E3]]|]. split; [exact Hs3|].
      split; [rewrite Hpc3; unfold s2; cbn [with_pc m_pc]; rewrite Hk; unfold zlength; rewrite !app_length, !Nat2Z.inj_add; cbn [length]; unfold zlength in k; fold k; lia|].
      split; [rewrite Hst3; reflexivity|exact Ht3].
  - (* block *)
    intros l Hl IH im ss s sig ss' fuel Hsim Hc Hfuel He. rewrite size_block in Hfuel. destruct fuel as [|fuel]; [lia|].
    rewrite exec_block in He. exact (IH im ss s sig ss' fuel Hsim Hc ltac:(lia) He).
  - (* empty sequence *)
    intros im ss s sig ss' fuel Hsim Hc Hfuel He. destruct fuel as [|fuel]; [cbn in Hfuel; lia|]. rewrite exec_seq_nil in He.
    injection He as Hsig He. subst ss'. split; [auto|]. exists 0%nat, s, [].
    split; [reflexivity|]. split; [exact Hsim|]. split; [unfold zlength; cbn; lia|]. split; [reflexivity|rewrite app_nil_r; reflexivity].
  - (* sequence *)
    intros st r Hst IHst Hr IHr im ss s sig ss' fuel Hsim Hc Hfuel He. rewrite sizeL_cons in Hfuel.
    destruct fuel as [|fuel]; [lia|]. rewrite exec_seq_cons in He. rewrite c_block_cons in *.
    destruct (Sem.exec rt mt fuel false ss st) as [sg sa|e sa|sa] eqn:Est; cbn [sbind] in He; try discriminate.
    apply code_at_app in Hc. destruct Hc as [Hc1 Hc2].
    destruct (IHst im ss s sg sa fuel Hsim Hc1 ltac:(lia) Est) as [Hsg (n1 & s1 & e1 & E1 & Hs1 & Hpc1 & Hst1 & Ht1)]. subst sg.
    assert (Hc2' : code_at im (m_pc s1) (c_stmt rt mt false None (SBlock r))) by (rewrite Hpc1; exact Hc2).
    destruct (IHr im sa s1 sig ss' fuel Hs1 Hc2' ltac:(lia) He) as [Hsig (n2 & s2 & e2 & E2 & Hs2 & Hpc2 & Hst2 & Ht2)].
    split; [exact Hsig|]. exists (n1 + n2)%nat, s2, (e1 ++ e2). split; [eapply esteps_app; eassumption|]. split; [exact Hs2|].
    split; [rewrite Hpc2, Hpc1; unfold zlength; rewrite app_length, Nat2Z.inj_add; lia|].
    split; [rewrite Hst2; exact Hst1|]. rewrite Ht2, Ht1, app_assoc. reflexivity.
Qed.
End Sim.

Lemma c_block_flat rt mt l : c_stmt rt mt false None (SBlock l) = flat_map (c_stmt rt mt false None) l.
Proof. induction l as [|st r IH]; [reflexivity|]. rewrite c_block_cons. cbn [flat_map]. rewrite IH. reflexivity. Qed.

(* every program without loops, routines, zones and matrix blocks: compiled, loaded and run on the
   machine model from the initial state it finishes with exactly the events the reference
   semantics gives for its source *)
Theorem loopfree_program_runs_as_its_source_says (p : script) (w : world) (fuel : nat) (evs : list event) :
  SimpleL (snd (collect p [] [])) p -> (sizeL p <= fuel)%nat ->
  run_src fuel p w = SFinished evs ->
  exists k, run_program k (compile p) w = Finished evs.
Proof.
  intros Hs Hfuel Hrun. unfold run_src, compile in *. destruct (collect p [] []) as [rt mt] eqn:Ec. cbn [snd] in Hs.
  destruct (exec_seq rt mt fuel false (init_sstate w) p) as [sig ss'|e ss'|ss'] eqn:Ee; try discriminate.
  injection Hrun as Hrun.
  rewrite <- (c_block_flat rt mt p).
  set (code := c_stmt rt mt false None (SBlock p)) in *.
  set (im := load code).
  assert (Him : im_code im = code) by (apply load_no_routine; apply (proj2 (simple_no_routine rt mt) p Hs)).
  assert (Hc : code_at im (m_pc (init_state w)) code) by (apply (code_at_suffix im [] code); exact Him).
  destruct (proj2 (simple_simulation rt mt) p Hs im (init_sstate w) (init_state w) sig ss' fuel (sim_init w) Hc Hfuel Ee)
    as [_ (n & s' & es & En & Hsim & Hpc & _ & Htr)].
  exists (n + 1)%nat. unfold run_program, run_image. fold im.
  rewrite (run_from_esteps n im (init_state w) s' es 1 [] En). cbn [run_from].
  assert (Hend : (zlength (im_code im) <=? m_pc s') = true).
  { apply Z.leb_le. rewrite Him, Hpc. fold code. cbn [init_state m_pc]. lia. }
  rewrite Hend. cbn [fst]. unfold flush_events. rewrite (sim_unnamed _ _ Hsim). cbn [map app].
  rewrite rev_append_rev, app_nil_r, rev_involutive. cbn [init_sstate s_trace rev app] in Htr. rewrite <- Htr. f_equal. exact Hrun.
Qed.

(* a boolean test for the covered programs (sound for Simple / SimpleL) *)
Section Check.
Variable mt : mtable.
Fixpoint simple_b (fuel : nat) (st : stmt) : bool :=
  match fuel with
  | O => false
  | S f =>
      simple_atom mt st ||
      match st with
      | SIf c a None => plain_rval mt c && simple_b f a
      | SIf c a (Some b) => plain_rval mt c && simple_b f a && simple_b f b
      | SBlock l => forallb (simple_b f) l
      | _ => false
      end
  end.

Lemma simple_b_sound fuel : forall st, simple_b fuel st = true -> Simple mt st.
Proof.
  induction fuel as [|f IH]; intros st H; [discriminate|]. cbn [simple_b] in H.
  destruct (simple_atom mt st) eqn:Ea; [apply S_atom; exact Ea|]. cbn [orb] in H.
  destruct st; try discriminate.
  - destruct s2 as [b|].
    + apply andb_true_iff in H. destruct H as [H Hb]. apply andb_true_iff in H. destruct H as [Hc Ha].
      apply S_ifelse; [exact Hc|apply IH; exact Ha|apply IH; exact Hb].
    + apply andb_true_iff in H. destruct H as [Hc Ha]. apply S_if; [exact Hc|apply IH; exact Ha].
  - apply S_block. clear Ea. induction ss as [|x r IHr]; [constructor|]. cbn [forallb] in H. apply andb_true_iff in H. destruct H as [Hx Hr].
    constructor; [apply IH; exact Hx|apply IHr; exact Hr].
Qed.

Lemma simple_list_sound fuel l : forallb (simple_b fuel) l = true -> SimpleL mt l.
Proof.
  induction l as [|x r IH]; intros H; [constructor|]. cbn [forallb] in H. apply andb_true_iff in H. destruct H as [Hx Hr].
  constructor; [apply (simple_b_sound fuel); exact Hx|apply IH; exact Hr].
Qed.
End Check.
