(* C01: the forward simulation of Lang/Simulation.v extended to conditionals (if / else, nested to
   any depth) and begin ... end blocks of covered statements: every loop-free, call-free program. *)
From Coq Require Import ZArith String List Bool Lia.
From Bardolph Require Import Gen.Codes Lang.Value Lang.Instr Lang.Loader Lang.World Lang.Units0 Lang.Regs Lang.Devices
  Lang.Machine Lang.Syntax Lang.Sem Lang.CodeGen Lang.ExprCompile Lang.Simulation.
Open Scope string_scope.
Open Scope list_scope.
Import ListNotations.
Open Scope Z_scope.

Lemma rlen_no_routine p : forallb not_routine p = true -> forall acc, rlen_go p None acc = acc + zlength p.
Proof.
  induction p as [|i r IH]; intros Hp acc; [unfold zlength; cbn; lia|].
  cbn [forallb] in Hp. apply andb_true_iff in Hp. destruct Hp as [Hi Hr]. cbn [rlen_go].
  unfold not_routine in Hi. destruct (i_op i); try discriminate; rewrite (IH Hr); unfold zlength; cbn [length]; lia.
Qed.
Lemma len_no_routine p : forallb not_routine p = true -> len p = zlength p.
Proof. intros H. unfold len. rewrite (rlen_no_routine p H). lia. Qed.

Section Sim.
Variable rt : rtable.
Variable mt : mtable.

Inductive Simple : stmt -> Prop :=
| S_atom st : simple_atom mt st = true -> Simple st
| S_if c a : plain_rval mt c = true -> Simple a -> Simple (SIf c a None)
| S_ifelse c a b : plain_rval mt c = true -> Simple a -> Simple b -> Simple (SIf c a (Some b))
| S_block l : SimpleL l -> Simple (SBlock l)
| S_while c a : plain_rval mt c = true -> Simple a -> Simple (SRepeat (LWhile c) a)
| S_count n a : plain_rval mt n = true -> Simple a -> Simple (SRepeat (LCount n) a)
with SimpleL : list stmt -> Prop :=
| SL_nil : SimpleL []
| SL_cons st r : Simple st -> SimpleL r -> SimpleL (st :: r).

Scheme Simple_ind2 := Induction for Simple Sort Prop
with SimpleL_ind2 := Induction for SimpleL Sort Prop.
Combined Scheme Simple_mutind from Simple_ind2, SimpleL_ind2.

Fixpoint size (st : stmt) : nat :=
  match st with
  | SIf c a None => S (rheight c + size a)
  | SIf c a (Some b) => S (rheight c + size a + size b)
  | SBlock l => S ((fix go (l : list stmt) : nat := match l with [] => 1%nat | x :: r => S (size x + go r) end) l)
  | _ => atom_size st
  end.
Definition sizeL (l : list stmt) : nat := (fix go (l : list stmt) : nat := match l with [] => 1%nat | x :: r => S (size x + go r) end) l.
Lemma size_block l : size (SBlock l) = S (sizeL l). Proof. reflexivity. Qed.
Lemma sizeL_cons x r : sizeL (x :: r) = S (size x + sizeL r). Proof. reflexivity. Qed.
Lemma size_atom st : simple_atom mt st = true -> size st = atom_size st.
Proof. destruct st; cbn; intros H; try reflexivity; discriminate. Qed.

Lemma c_block_cons st r : c_stmt rt mt false None (SBlock (st :: r)) = c_stmt rt mt false None st ++ c_stmt rt mt false None (SBlock r).
Proof. reflexivity. Qed.
Lemma c_if1 c a : c_stmt rt mt false None (SIf c a None) =
  c_rval rt mt c (DReg R_RESULT) ++ [jump JC_IF_FALSE (len (c_stmt rt mt false None a) + 1)] ++ c_stmt rt mt false None a.
Proof. reflexivity. Qed.
Lemma c_if2 c a b : c_stmt rt mt false None (SIf c a (Some b)) =
  c_rval rt mt c (DReg R_RESULT) ++ [jump JC_IF_FALSE (len (c_stmt rt mt false None a) + 2)] ++ c_stmt rt mt false None a ++
  [jump JC_ALWAYS (len (c_stmt rt mt false None b) + 1)] ++ c_stmt rt mt false None b.
Proof. reflexivity. Qed.
Lemma exec_if f ss c a b : Sem.exec rt mt (S f) false ss (SIf c a b) =
  (let* (x, sa) := eval_rval rt mt f false ss c in
   if truthy x then Sem.exec rt mt f false sa a else match b with Some e => Sem.exec rt mt f false sa e | None => ROk SigNormal sa end).
Proof. reflexivity. Qed.
Lemma exec_block f ss l : Sem.exec rt mt (S f) false ss (SBlock l) = exec_seq rt mt f false ss l.
Proof. reflexivity. Qed.

Lemma c_while c a : c_stmt rt mt false None (SRepeat (LWhile c) a) =
  [I0 OC_LOOP] ++ c_rval rt mt c (DReg R_RESULT) ++ [jump JC_IF_FALSE (len (c_stmt rt mt false (Some 1) a ++ []) + 2)] ++ (c_stmt rt mt false (Some 1) a ++ []) ++
  [jump JC_ALWAYS (- (len (c_rval rt mt c (DReg R_RESULT)) + 1 + len (c_stmt rt mt false (Some 1) a ++ [])))] ++ [I0 OC_END_LOOP].
Proof. reflexivity. Qed.
Lemma c_loop_after after l a : c_stmt rt mt false after (SRepeat l a) = c_stmt rt mt false None (SRepeat l a).
Proof. reflexivity. Qed.
Lemma c_if1_after after c a : c_stmt rt mt false after (SIf c a None) =
  c_rval rt mt c (DReg R_RESULT) ++ [jump JC_IF_FALSE (len (c_stmt rt mt false after a) + 1)] ++ c_stmt rt mt false after a.
Proof. reflexivity. Qed.
Lemma c_if2_after after c a b : c_stmt rt mt false after (SIf c a (Some b)) =
  c_rval rt mt c (DReg R_RESULT) ++ [jump JC_IF_FALSE (len (c_stmt rt mt false (option_map (fun x => x + 1 + len (c_stmt rt mt false after b)) after) a) + 2)] ++
  c_stmt rt mt false (option_map (fun x => x + 1 + len (c_stmt rt mt false after b)) after) a ++
  [jump JC_ALWAYS (len (c_stmt rt mt false after b) + 1)] ++ c_stmt rt mt false after b.
Proof. reflexivity. Qed.
Lemma c_block_cons_after after st r : c_stmt rt mt false after (SBlock (st :: r)) =
  c_stmt rt mt false (option_map (fun a => a + len (c_stmt rt mt false after (SBlock r))) after) st ++ c_stmt rt mt false after (SBlock r).
Proof. reflexivity. Qed.
Lemma exec_while f ss c a : Sem.exec rt mt (S (S f)) false ss (SRepeat (LWhile c) a) = iterate rt mt f false ss (Some c) None None None a.
Proof. reflexivity. Qed.
Lemma iterate_while f ss c a : iterate rt mt (S f) false ss (Some c) None None None a =
  (let* (go, s1) := (let* (x, sa) := eval_rval rt mt f false ss c in ROk (truthy x) sa) in
   if negb go then ROk SigNormal s1 else
   let* (sig, s3) := Sem.exec rt mt f false s1 a in
   match sig with SigBreak => ROk SigNormal s3 | SigReturn v => ROk (SigReturn v) s3 | SigNormal => iterate rt mt f false s3 (Some c) None None None a end).
Proof. reflexivity. Qed.

Lemma c_count n a : c_stmt rt mt false None (SRepeat (LCount n) a) =
  [I0 OC_LOOP] ++ c_rval rt mt n (DLoop LV_COUNTER) ++ counter_test ++ [jump JC_IF_FALSE (len (c_stmt rt mt false (Some (len (counter_post None) + 1)) a ++ counter_post None) + 2)] ++
  (c_stmt rt mt false (Some (len (counter_post None) + 1)) a ++ counter_post None) ++
  [jump JC_ALWAYS (- (len counter_test + 1 + len (c_stmt rt mt false (Some (len (counter_post None) + 1)) a ++ counter_post None)))] ++ [I0 OC_END_LOOP].
Proof. reflexivity. Qed.
Lemma exec_count f ss n a : Sem.exec rt mt (S (S f)) false ss (SRepeat (LCount n) a) =
  (let* (cnt, s1) := eval_rval rt mt f false ss n in iterate rt mt f false s1 None (Some cnt) None None a).
Proof. reflexivity. Qed.
Lemma iterate_count f ss cnt a : iterate rt mt (S f) false ss None (Some cnt) None None a =
  (let* (go, s1) := lift_res (positive cnt) ss in
   if negb go then ROk SigNormal s1 else
   let* (sig, s3) := Sem.exec rt mt f false s1 a in
   match sig with
   | SigBreak => ROk SigNormal s3
   | SigReturn v => ROk (SigReturn v) s3
   | SigNormal => match (do n' <- sub1 cnt; Ok (Some n')) with
                  | Err e => RErr e s3
                  | Ok cnt' => iterate rt mt f false s3 None cnt' None None a
                  end
   end).
Proof. reflexivity. Qed.

(* ---- the loop counter lives in the loop frame ---- *)
Lemma loopvar_eqb_refl k : loopvar_eqb k k = true.
Proof. destruct k; reflexivity. Qed.
Lemma lv_get_set lv k v : lv_get (lv_set lv k v) k = Some v.
Proof.
  induction lv as [|[k' v'] t IH]; cbn [lv_set lv_get]; [rewrite loopvar_eqb_refl; reflexivity|].
  destruct (loopvar_eqb k k') eqn:E; cbn [lv_get]; [rewrite loopvar_eqb_refl; reflexivity|rewrite E; exact IH].
Qed.

Definition with_counter (s : mstate) (x : value) (k : Z) : mstate :=
  mkM (m_pc s + k) (m_regs s) (m_globals s)
      (match m_frames s with FLoop lv d :: r => FLoop (lv_set lv LV_COUNTER x) d :: r | fs => fs end)
      (m_stack s) (m_unnamed s) (m_world s).

Lemma sim_with_counter ss s x k : sim ss s -> sim ss (with_counter s x k).
Proof.
  intros H. destruct H as [Hr Hf Hg Hv Hst Hw Hu Hdf]. constructor; cbn [with_counter m_regs m_globals m_frames m_world m_unnamed]; try assumption;
  destruct (m_frames s) as [|[p b r|lv d] t]; assumption.
Qed.

Lemma put_counter s lv d r x k : m_frames s = FLoop lv d :: r ->
  (do s' <- put_dest s (PLoopVar LV_COUNTER) x; Ok (with_pc s' (m_pc s' + k))) = Ok (with_counter s x k).
Proof. intros Hf. unfold with_counter. cbn [put_dest put_loopvar]. rewrite Hf. reflexivity. Qed.

(* storing the count of a counted loop *)
Lemma counter_init v : plain_rval mt v = true ->
  forall im ss s x ss1 fuel lv d r, sim ss s -> m_frames s = FLoop lv d :: r ->
  code_at im (m_pc s) (c_rval rt mt v (DLoop LV_COUNTER)) -> eval_rval rt mt fuel false ss v = ROk x ss1 ->
  ss1 = ss /\ exists n, esteps n im s = Some (with_counter s x (zlength (c_rval rt mt v (DLoop LV_COUNTER))), []).
Proof.
  intros Hp im ss s x ss1 fuel lv d r Hsim Hfr Hc He.
  destruct fuel as [|fuel]; [destruct v; discriminate|]. rewrite eval_rval_S in He.
  destruct v as [l|l|m|m|y|rg|e|g args]; cbn [plain_rval] in Hp; try discriminate.
  - injection He as Hx Hs; subst x ss1. split; [reflexivity|]. rewrite c_rval_lit in *. cbn [move_const code_at] in Hc |- *. destruct Hc as [Hf _].
    exists 1%nat. apply (estep1 im s _ _ _ Hf). cbn [Machine.exec i_op i_p0 i_p1 I2 dest_param].
    replace (param_value (lit_param l)) with (Some (lit_value l)) by (destruct l; reflexivity).
    unfold advance. rewrite (put_counter s lv d r (lit_value l) 1 Hfr). reflexivity.
  - destruct (neg_plain _ Hp) as (r0 & Hn & Hnpar & Hpv). rewrite Hn in He. cbn [lift_res] in He.
    injection He as Hx Hs; subst x ss1. split; [reflexivity|]. rewrite c_rval_neg in *. rewrite Hnpar in *. cbn [move_const code_at] in Hc |- *. destruct Hc as [Hf _].
    exists 1%nat. apply (estep1 im s _ _ _ Hf). cbn [Machine.exec i_op i_p0 i_p1 I2 dest_param].
    rewrite Hpv. unfold advance. rewrite (put_counter s lv d r r0 1 Hfr). reflexivity.
  - injection He as Hx Hs; subst x ss1. split; [reflexivity|]. rewrite c_rval_macro in *. cbn [move_const code_at] in Hc |- *. destruct Hc as [Hf _].
    exists 1%nat. apply (estep1 im s _ _ _ Hf). cbn [Machine.exec i_op i_p0 i_p1 I2 dest_param]. unfold macro_param.
    rewrite (param_value_of_value (macro mt m) Hp). unfold advance. rewrite (put_counter s lv d r (macro mt m) 1 Hfr). reflexivity.
  - destruct (neg_plain _ Hp) as (r0 & Hn & Hnpar & Hpv). rewrite Hn in He. cbn [lift_res] in He.
    injection He as Hx Hs; subst x ss1. split; [reflexivity|]. rewrite c_rval_negmacro in *. rewrite Hnpar in *. cbn [move_const code_at] in Hc |- *. destruct Hc as [Hf _].
    exists 1%nat. apply (estep1 im s _ _ _ Hf). cbn [Machine.exec i_op i_p0 i_p1 I2 dest_param].
    rewrite Hpv. unfold advance. rewrite (put_counter s lv d r r0 1 Hfr). reflexivity.
  - injection He as Hx Hs; subst x ss1. split; [reflexivity|]. rewrite c_rval_var in *. cbn [move_ref code_at dest_param] in Hc |- *. destruct Hc as [Hf _].
    exists 1%nat. apply (estep1 im s _ _ _ Hf). cbn [Machine.exec i_op i_p0 i_p1 I2 read_name bind].
    rewrite (sim_lookup ss s y Hsim). unfold advance. rewrite (put_counter s lv d r (lookup ss y) 1 Hfr). reflexivity.
  - injection He as Hx Hs; subst x ss1. split; [reflexivity|]. rewrite c_rval_reg in *. cbn [move_ref code_at dest_param] in Hc |- *. destruct Hc as [Hf _].
    exists 1%nat. apply (estep1 im s _ _ _ Hf). cbn [Machine.exec i_op i_p0 i_p1 I2].
    rewrite (sim_get_reg ss s rg Hsim Hp). cbn [bind]. unfold advance. rewrite (put_counter s lv d r _ 1 Hfr). reflexivity.
  - apply andb_true_iff in Hp. destruct Hp as [Hsup Hvis].
    destruct (eval_expr_ok rt mt e Hsup fuel false ss x ss1 He) as [Hs1 Ep]. subst ss1. split; [reflexivity|].
    rewrite c_rval_expr in *. apply code_at_app in Hc. destruct Hc as [Hce Hpop]. cbn [code_at dest_param] in Hpop. destruct Hpop as [Hfp _].
    rewrite <- (peval_sim mt e ss s Hsim Hsup Hvis) in Ep.
    destruct (c_expr_pushes_value rt mt e Hsup im s x Hce Ep) as [n Hn].
    exists (n + 1)%nat. replace (@nil event) with (@nil event ++ @nil event) by reflexivity.
    eapply esteps_app; [apply steps_esteps; exact Hn|].
    apply (estep1 im (pushed s x (zlength (c_expr rt mt e))) _ _ _ Hfp).
    cbn [Machine.exec i_op i_p0 I1]. unfold pop1. cbn [pushed m_stack bind].
    set (s1 := with_stack (pushed s x (zlength (c_expr rt mt e))) (m_stack s)).
    assert (Hf1 : m_frames s1 = FLoop lv d :: r) by exact Hfr.
    unfold advance. cbn [put_dest]. rewrite Hf1. cbn [put_loopvar bind lift]. f_equal.
    unfold with_counter, with_frames, with_vars, with_pc, s1, pushed, with_stack.
    cbn [m_pc m_regs m_globals m_frames m_stack m_unnamed m_world]. rewrite Hfr. f_equal.
    unfold zlength. rewrite app_length, Nat2Z.inj_add. cbn [length]. lia.
Qed.

(* the test and the count-down of a counted loop *)
Lemma counter_test_steps im s lv d r cnt b :
  m_frames s = FLoop lv d :: r -> lv_get lv LV_COUNTER = Some cnt -> positive cnt = Ok b ->
  code_at im (m_pc s) counter_test ->
  exists res, esteps 4 im s = Some (put_vm s (DReg R_RESULT) res 4, []) /\ truthy res = b.
Proof.
  intros Hfr Hlv Hpos Hc. unfold counter_test, test_op in Hc. cbn [push_of code_at] in Hc. destruct Hc as [Hf1 [Hf2 [Hf3 [Hf4 _]]]].
  unfold positive in Hpos. destruct (pushable cnt) as [c'|e] eqn:Ep; cbn [bind] in Hpos; [|discriminate].
  assert (Hc' : c' = cnt /\ cnt <> VNone) by (unfold pushable in Ep; destruct cnt; try discriminate; injection Ep as <-; (split; [reflexivity|discriminate])).
  destruct Hc' as [-> Hnn].
  destruct (ordering CGt cnt (VInt 0)) as [res|e] eqn:Eo; cbn [bind] in Hpos; [|discriminate]. injection Hpos as Hb.
  exists res. split; [|exact Hb].
  set (s1 := advance (with_stack s (cnt :: m_stack s))).
  assert (E1 : esteps 1 im s = Some (s1, [])).
  { apply (estep1 im s _ _ _ Hf1). cbn [Machine.exec i_op i_p0 I1 read_name bind]. unfold get_loopvar. rewrite Hfr, Hlv.
    destruct cnt; try reflexivity. contradiction. }
  set (s2 := advance (with_stack s1 (VInt 0 :: m_stack s1))).
  assert (E2 : esteps 1 im s1 = Some (s2, [])) by (apply (estep1 im s1 _ _ _ Hf2); reflexivity).
  set (s3 := advance (with_stack s2 (res :: m_stack s))).
  assert (E3 : esteps 1 im s2 = Some (s3, [])).
  { assert (Hf3' : fetch im (m_pc s2) = Some (I1 OC_OP (POperator OP_GT))) by exact Hf3.
    apply (estep1 im s2 _ _ _ Hf3'). cbn [Machine.exec i_op i_p0 I1 is_unary]. unfold pop1. cbn [s2 s1 advance with_pc with_stack m_stack bind].
    cbn [eval_binop]. rewrite Eo. reflexivity. }
  assert (E4 : esteps 1 im s3 = Some (put_vm s (DReg R_RESULT) res 4, [])).
  { assert (Hf4' : fetch im (m_pc s3) = Some (I1 OC_POP (PReg R_RESULT))) by exact Hf4.
    apply (estep1 im s3 _ _ _ Hf4'). cbn [Machine.exec i_op i_p0 I1]. unfold pop1. cbn [s3 advance with_pc with_stack m_stack bind put_dest set_reg lift].
    f_equal. unfold put_vm, advance, with_pc, with_regs, with_stack, s2, s1. cbn. f_equal. lia. }
  change 4%nat with (1 + (1 + (1 + 1)))%nat. replace (@nil event) with (@nil event ++ (@nil event ++ (@nil event ++ @nil event))) by reflexivity.
  eapply esteps_app; [exact E1|]. eapply esteps_app; [exact E2|]. eapply esteps_app; [exact E3|exact E4].
Qed.

Lemma counter_post_steps im s lv d r cnt cnt' :
  m_frames s = FLoop lv d :: r -> lv_get lv LV_COUNTER = Some cnt -> sub1 cnt = Ok cnt' ->
  code_at im (m_pc s) (counter_post None) ->
  esteps 4 im s = Some (with_counter s cnt' 4, []).
Proof.
  intros Hfr Hlv Hsub Hc. unfold counter_post, op_equals in Hc. rewrite app_nil_r in Hc. cbn [push_of code_at] in Hc. destruct Hc as [Hf1 [Hf2 [Hf3 [Hf4 _]]]].
  unfold sub1 in Hsub. destruct (pushable cnt) as [c'|e] eqn:Ep; cbn [bind] in Hsub; [|discriminate].
  assert (Hc' : c' = cnt /\ cnt <> VNone) by (unfold pushable in Ep; destruct cnt; try discriminate; injection Ep as <-; (split; [reflexivity|discriminate])).
  destruct Hc' as [-> Hnn].
  set (s1 := advance (with_stack s (cnt :: m_stack s))).
  assert (E1 : esteps 1 im s = Some (s1, [])).
  { apply (estep1 im s _ _ _ Hf1). cbn [Machine.exec i_op i_p0 I1 read_name bind]. unfold get_loopvar. rewrite Hfr, Hlv.
    destruct cnt; try reflexivity. contradiction. }
  set (s2 := advance (with_stack s1 (VInt 1 :: m_stack s1))).
  assert (E2 : esteps 1 im s1 = Some (s2, [])) by (apply (estep1 im s1 _ _ _ Hf2); reflexivity).
  set (s3 := advance (with_stack s2 (cnt' :: m_stack s))).
  assert (E3 : esteps 1 im s2 = Some (s3, [])).
  { assert (Hf3' : fetch im (m_pc s2) = Some (I1 OC_OP (POperator OP_SUB))) by exact Hf3.
    apply (estep1 im s2 _ _ _ Hf3'). cbn [Machine.exec i_op i_p0 I1 is_unary]. unfold pop1. cbn [s2 s1 advance with_pc with_stack m_stack bind].
    rewrite Hsub. reflexivity. }
  assert (E4 : esteps 1 im s3 = Some (with_counter s cnt' 4, [])).
  { assert (Hf4' : fetch im (m_pc s3) = Some (I1 OC_POP (PLoopVar LV_COUNTER))) by exact Hf4.
    apply (estep1 im s3 _ _ _ Hf4'). cbn [Machine.exec i_op i_p0 I1]. unfold pop1. cbn [s3 advance with_pc with_stack m_stack bind put_dest].
    change (m_frames (with_stack s3 (m_stack s))) with (m_frames s). rewrite Hfr. cbn [put_loopvar bind lift]. f_equal. unfold with_counter, advance, with_pc, with_frames, with_vars, with_stack, s3, s2, s1.
    cbn [advance with_pc with_stack m_pc m_regs m_globals m_frames m_stack m_unnamed m_world]. rewrite Hfr. f_equal. lia. }
  change 4%nat with (1 + (1 + (1 + 1)))%nat. replace (@nil event) with (@nil event ++ (@nil event ++ (@nil event ++ @nil event))) by reflexivity.
  eapply esteps_app; [exact E1|]. eapply esteps_app; [exact E2|]. eapply esteps_app; [exact E3|exact E4].
Qed.

(* the covered statements contain no break: the distance to the end of the enclosing loop does not enter their code *)
Lemma atom_after st after : simple_atom mt st = true -> c_stmt rt mt false after st = c_stmt rt mt false None st.
Proof. destruct st as [r v|m|ops|ops|ops| | | | |y v| | | | | | | |[v|]|[v|]| |]; cbn [simple_atom]; intros H; try discriminate; reflexivity. Qed.

Lemma simple_after :
  (forall st, Simple st -> forall after, c_stmt rt mt false after st = c_stmt rt mt false None st) /\
  (forall l, SimpleL l -> forall after, c_stmt rt mt false after (SBlock l) = c_stmt rt mt false None (SBlock l)).
Proof.
  apply Simple_mutind.
  - intros st H after. apply atom_after. exact H.
  - intros c a _ _ IHa after. rewrite c_if1_after, c_if1, (IHa after). reflexivity.
  - intros c a b _ _ IHa _ IHb after. rewrite c_if2_after, c_if2, (IHb after), (IHa _). reflexivity.
  - intros l _ IH after. exact (IH after).
  - intros c a _ _ _ after. apply c_loop_after.
  - intros n a _ _ _ after. apply c_loop_after.
  - intros after. reflexivity.
  - intros st r _ IHst _ IHr after. rewrite c_block_cons_after, c_block_cons, (IHr after), (IHst _). reflexivity.
Qed.

Lemma c_rval_counter_no_routine v : plain_rval mt v = true -> forallb not_routine (c_rval rt mt v (DLoop LV_COUNTER)) = true.
Proof.
  intros Hp. destruct v; cbn [plain_rval] in Hp; try discriminate.
  - rewrite c_rval_lit. reflexivity.
  - rewrite c_rval_neg. reflexivity.
  - rewrite c_rval_macro. reflexivity.
  - rewrite c_rval_negmacro. reflexivity.
  - rewrite c_rval_var. reflexivity.
  - rewrite c_rval_reg. reflexivity.
  - apply andb_true_iff in Hp. destruct Hp as [Hs _]. rewrite c_rval_expr, forallb_app, (c_expr_no_routine rt mt e Hs). reflexivity.
Qed.

(* no routine markers in the code, so the compiler's relocation-aware length is the length *)
Lemma simple_no_routine :
  (forall st, Simple st -> forallb not_routine (c_stmt rt mt false None st) = true) /\
  (forall l, SimpleL l -> forallb not_routine (c_stmt rt mt false None (SBlock l)) = true).
Proof.
  apply Simple_mutind.
  - intros st H. apply atom_no_routine. exact H.
  - intros c a Hc _ IHa. rewrite c_if1, !forallb_app, IHa, (c_rval_no_routine rt mt c (DReg R_RESULT) Hc (plain_ok_result mt c Hc)). reflexivity.
  - intros c a b Hc _ IHa _ IHb. rewrite c_if2, !forallb_app, IHa, IHb, (c_rval_no_routine rt mt c (DReg R_RESULT) Hc (plain_ok_result mt c Hc)). reflexivity.
  - intros l _ IH. exact IH.
  - intros c a Hc Ha IHa. rewrite c_while, app_nil_r, (proj1 simple_after a Ha (Some 1)), !forallb_app, IHa,
      (c_rval_no_routine rt mt c (DReg R_RESULT) Hc (plain_ok_result mt c Hc)). reflexivity.
  - intros n a Hn Ha IHa. rewrite c_count, (proj1 simple_after a Ha _), !forallb_app, IHa, (c_rval_counter_no_routine n Hn). reflexivity.
  - reflexivity.
  - intros st r _ IHst _ IHr. rewrite c_block_cons, forallb_app, IHst, IHr. reflexivity.
Qed.

(* the conditional jump after the condition has been stored in RESULT *)
Lemma jump_if_false im s x off :
  rf_get (m_regs s) R_RESULT = Some x -> fetch im (m_pc s) = Some (jump JC_IF_FALSE off) ->
  esteps 1 im s = Some (with_pc s (if truthy x then m_pc s + 1 else m_pc s + off), []).
Proof.
  intros Hr Hf. apply (estep1 im s _ _ _ Hf). cbn [Machine.exec jump i_op i_p0 i_p1 I2]. unfold reg, get_reg. rewrite Hr.
  cbn [jump_taken]. destruct (truthy x); reflexivity.
Qed.
Lemma jump_always im s off : fetch im (m_pc s) = Some (jump JC_ALWAYS off) -> esteps 1 im s = Some (with_pc s (m_pc s + off), []).
Proof. intros Hf. apply (estep1 im s _ _ _ Hf). reflexivity. Qed.

Lemma sim_with_pc ss s pc : sim ss s -> sim ss (with_pc s pc).
Proof. intros H. destruct H. constructor; assumption. Qed.

(* END_LOOP drops the loop frame and anything the loop left on the stack *)
Lemma end_loop_step im ss s0 s lv r :
  sim ss s0 -> fetch im (m_pc s0) = Some (I0 OC_END_LOOP) ->
  m_frames s0 = FLoop lv (zlength (m_stack s)) :: r -> erase r = erase (m_frames s) -> m_stack s0 = m_stack s ->
  exists s1, esteps 1 im s0 = Some (s1, []) /\ sim ss s1 /\ m_pc s1 = m_pc s0 + 1 /\ (m_stack s1, fr s1) = (m_stack s, fr s).
Proof.
  intros Hs0 Hf Hfr Her Hst.
  set (d := zlength (m_stack s)) in *.
  set (s1 := advance (with_stack (with_frames s0 r) (truncate_to (m_stack s0) d))).
  exists s1.
  assert (Htr : truncate_to (m_stack s0) d = m_stack s).
  { rewrite Hst. unfold d. destruct (m_stack s) as [|v k]; cbn [truncate_to]; [reflexivity|]. rewrite Z.leb_refl. reflexivity. }
  split; [apply (estep1 im s0 _ _ _ Hf); cbn [Machine.exec i_op I0]; rewrite Hfr; reflexivity|].
  split.
  { destruct Hs0 as [Hr Hfu Hg Hv Hse Hw Hu Hdf]. rewrite Hfr in Hv, Hse. constructor; cbn; assumption. }
  split; [reflexivity|]. unfold fr. change (m_stack s1) with (truncate_to (m_stack s0) d). change (m_frames s1) with r. rewrite Htr, Her. reflexivity.
Qed.

(* what a statement leaves of a loop frame: the frame itself, over frames that differ at most in their dictionaries *)
Lemma loop_frame_kept s4 s3 s lv d r :
  (m_stack s4, fr s4) = (m_stack s3, fr s3) -> m_stack s3 = m_stack s -> m_frames s3 = FLoop lv d :: r -> erase r = erase (m_frames s) ->
  m_stack s4 = m_stack s /\ exists r', m_frames s4 = FLoop lv d :: r' /\ erase r' = erase (m_frames s).
Proof.
  intros H Hsk Hfk Her. injection H as H1 H2. split; [rewrite H1; exact Hsk|].
  unfold fr in H2. rewrite Hfk in H2. destruct (erase_loop_inv _ _ _ _ H2) as [r' [Hr' He']]. exists r'. split; [exact Hr'|]. rewrite He'. exact Her.
Qed.

Theorem simple_simulation :
  (forall st, Simple st ->
     forall im ss s sig ss' fuel, sim ss s -> code_at im (m_pc s) (c_stmt rt mt false None st) ->
     Sem.exec rt mt fuel false ss st = ROk sig ss' -> sig = SigNormal /\ simulates im ss s ss' (c_stmt rt mt false None st)) /\
  (forall l, SimpleL l ->
     forall im ss s sig ss' fuel, sim ss s -> code_at im (m_pc s) (c_stmt rt mt false None (SBlock l)) ->
     exec_seq rt mt fuel false ss l = ROk sig ss' -> sig = SigNormal /\ simulates im ss s ss' (c_stmt rt mt false None (SBlock l))).
Proof.
  apply Simple_mutind.
  - (* atom *)
    intros st Hst im ss s sig ss' fuel Hsim Hc He.
    pose proof (atom_signal rt mt st fuel ss sig ss' Hst He) as Hsig. subst sig. split; [reflexivity|].
    exact (atom_simulation rt mt st Hst im ss s ss' fuel Hsim Hc He).
  - (* if without else *)
    intros c a Hc Ha IHa im ss s sig ss' fuel Hsim Hcode He.
    destruct fuel as [|fuel]; [discriminate|]. rewrite exec_if in He. rewrite c_if1 in *.
    destruct (eval_rval rt mt fuel false ss c) as [x sa|e sa|sa] eqn:Ev; cbn [sbind] in He; try discriminate.
    apply code_at_app in Hcode. destruct Hcode as [Hcc Hrest]. apply code_at_app in Hrest. destruct Hrest as [Hj Hbody]. cbn [code_at] in Hj. destruct Hj as [Hfj _].
    destruct (c_rval_runs rt mt c (DReg R_RESULT) Hc (plain_ok_result mt c Hc) im ss s x sa fuel Hsim Hcc Ev) as [Hsa [n Hn]]. subst sa.
    set (k := zlength (c_rval rt mt c (DReg R_RESULT))) in *.
    set (s1 := put_vm s (DReg R_RESULT) x k) in *.
    assert (Hs1 : sim ss s1) by (apply sim_put_reg_hidden; [exact Hsim|reflexivity|reflexivity]).
    assert (Hr1 : rf_get (m_regs s1) R_RESULT = Some x) by (unfold s1; cbn [put_vm m_regs]; apply rf_get_set_same).
    pose proof (proj1 simple_no_routine a Ha) as Hnr. rewrite (len_no_routine _ Hnr) in Hfj |- *.
    set (body := c_stmt rt mt false None a) in *.
    pose proof (jump_if_false im s1 x (zlength body + 1) Hr1 Hfj) as Ej.
    destruct (truthy x) eqn:Etx.
    + (* condition holds: the body runs *)
      set (s2 := with_pc s1 (m_pc s1 + 1)) in *.
      assert (Hb2 : code_at im (m_pc s2) body).
      { unfold s2. cbn [with_pc m_pc]. unfold s1. cbn [put_vm m_pc]. unfold zlength in Hbody. cbn [length] in Hbody. fold k in Hbody.
        replace (m_pc s + k + 1) with (m_pc s + k + Z.of_nat 1) by lia. exact Hbody. }
      destruct (IHa im ss s2 sig ss' fuel (sim_with_pc ss s1 _ Hs1) Hb2 He) as [Hsig (n2 & s3 & e3 & E3 & Hs3 & Hpc3 & Hst3 & Ht3)].
      split; [exact Hsig|]. exists (n + (1 + n2))%nat, s3, ([] ++ ([] ++ e3)).
      split; [eapply esteps_app; [exact Hn|eapply esteps_app; [exact Ej|exact E3]]|]. split; [exact Hs3|].
      split; [rewrite Hpc3; unfold s2; cbn [with_pc m_pc]; unfold s1; cbn [put_vm m_pc]; fold k; unfold zlength; rewrite !app_length, !Nat2Z.inj_add; cbn [length]; unfold zlength in k; fold k; lia|].
      split; [rewrite Hst3; reflexivity|exact Ht3].
    + (* condition fails: the body is skipped *)
      injection He as Hsig He. subst ss'. split; [auto|].
      exists (n + 1)%nat, (with_pc s1 (m_pc s1 + (zlength body + 1))), ([] ++ []).
      split; [eapply esteps_app; [exact Hn|exact Ej]|]. split; [apply sim_with_pc; exact Hs1|].
      split; [cbn [with_pc m_pc]; unfold s1; cbn [put_vm m_pc]; fold k; unfold zlength; rewrite !app_length, !Nat2Z.inj_add; cbn [length]; unfold zlength in k; fold k; lia|].
      split; [reflexivity|rewrite app_nil_r; reflexivity].
  - (* if with else *)
    intros c a b Hc Ha IHa Hb IHb im ss s sig ss' fuel Hsim Hcode He.
    destruct fuel as [|fuel]; [discriminate|]. rewrite exec_if in He. rewrite c_if2 in *.
    destruct (eval_rval rt mt fuel false ss c) as [x sa|e sa|sa] eqn:Ev; cbn [sbind] in He; try discriminate.
    apply code_at_app in Hcode. destruct Hcode as [Hcc Hrest]. apply code_at_app in Hrest. destruct Hrest as [Hj Hrest]. cbn [code_at] in Hj. destruct Hj as [Hfj _].
    apply code_at_app in Hrest. destruct Hrest as [Hthen Hrest]. apply code_at_app in Hrest. destruct Hrest as [Hj2 Helse]. cbn [code_at] in Hj2. destruct Hj2 as [Hfj2 _].
    destruct (c_rval_runs rt mt c (DReg R_RESULT) Hc (plain_ok_result mt c Hc) im ss s x sa fuel Hsim Hcc Ev) as [Hsa [n Hn]]. subst sa.
    set (k := zlength (c_rval rt mt c (DReg R_RESULT))) in *.
    set (s1 := put_vm s (DReg R_RESULT) x k) in *.
    assert (Hs1 : sim ss s1) by (apply sim_put_reg_hidden; [exact Hsim|reflexivity|reflexivity]).
    assert (Hr1 : rf_get (m_regs s1) R_RESULT = Some x) by (unfold s1; cbn [put_vm m_regs]; apply rf_get_set_same).
    pose proof (proj1 simple_no_routine a Ha) as Hnra. pose proof (proj1 simple_no_routine b Hb) as Hnrb.
    rewrite (len_no_routine _ Hnra) in Hfj |- *. rewrite (len_no_routine _ Hnrb) in Hfj2 |- *.
    set (ta := c_stmt rt mt false None a) in *. set (tb := c_stmt rt mt false None b) in *.
    pose proof (jump_if_false im s1 x (zlength ta + 2) Hr1 Hfj) as Ej.
    assert (Hk : m_pc s1 = m_pc s + k) by reflexivity.
    destruct (truthy x) eqn:Etx.
    + (* then-branch, then the jump over the else-branch *)
      set (s2 := with_pc s1 (m_pc s1 + 1)) in *.
      assert (Hb2 : code_at im (m_pc s2) ta).
      { unfold s2. cbn [with_pc m_pc]. rewrite Hk. unfold zlength in Hthen. cbn [length] in Hthen. fold k in Hthen.
        replace (m_pc s + k + 1) with (m_pc s + k + Z.of_nat 1) by lia. exact Hthen. }
      destruct (IHa im ss s2 sig ss' fuel (sim_with_pc ss s1 _ Hs1) Hb2 He) as [Hsig (n2 & s3 & e3 & E3 & Hs3 & Hpc3 & Hst3 & Ht3)].
      assert (Hfj2' : fetch im (m_pc s3) = Some (jump JC_ALWAYS (zlength tb + 1))).
      { rewrite Hpc3. unfold s2. cbn [with_pc m_pc]. rewrite Hk. unfold zlength in Hfj2 |- *. cbn [length] in Hfj2. fold k in Hfj2.
        replace (m_pc s + k + 1 + Z.of_nat (length ta)) with (m_pc s + k + Z.of_nat 1 + Z.of_nat (length ta)) by lia. exact Hfj2. }
      pose proof (jump_always im s3 (zlength tb + 1) Hfj2') as Ej2.
      split; [exact Hsig|]. exists (n + (1 + (n2 + 1)))%nat, (with_pc s3 (m_pc s3 + (zlength tb + 1))), ([] ++ ([] ++ (e3 ++ []))).
      split; [eapply esteps_app; [exact Hn|eapply esteps_app; [exact Ej|eapply esteps_app; [exact E3|exact Ej2]]]|].
      split; [apply sim_with_pc; exact Hs3|].
      split; [cbn [with_pc m_pc]; rewrite Hpc3; unfold s2; cbn [with_pc m_pc]; rewrite Hk; unfold zlength; rewrite !app_length, !Nat2Z.inj_add; cbn [length]; unfold zlength in k; fold k; lia|].
      split; [exact Hst3|]. cbn [app]. rewrite app_nil_r. exact Ht3.
    + (* else-branch *)
      set (s2 := with_pc s1 (m_pc s1 + (zlength ta + 2))) in *.
      assert (Hb2 : code_at im (m_pc s2) tb).
      { unfold s2. cbn [with_pc m_pc]. rewrite Hk. unfold zlength in Helse |- *. cbn [length] in Helse. fold k in Helse.
        replace (m_pc s + k + (Z.of_nat (length ta) + 2)) with (m_pc s + k + Z.of_nat 1 + Z.of_nat (length ta) + Z.of_nat 1) by lia. exact Helse. }
      destruct (IHb im ss s2 sig ss' fuel (sim_with_pc ss s1 _ Hs1) Hb2 He) as [Hsig (n2 & s3 & e3 & E3 & Hs3 & Hpc3 & Hst3 & Ht3)].
      split; [exact Hsig|]. exists (n + (1 + n2))%nat, s3, ([] ++ ([] ++ e3)).
      split; [eapply esteps_app; [exact Hn|eapply esteps_app; [exact Ej|exact E3]]|]. split; [exact Hs3|].
      split; [rewrite Hpc3; unfold s2; cbn [with_pc m_pc]; rewrite Hk; unfold zlength; rewrite !app_length, !Nat2Z.inj_add; cbn [length]; unfold zlength in k; fold k; lia|].
      split; [rewrite Hst3; reflexivity|exact Ht3].
  - (* block *)
    intros l Hl IH im ss s sig ss' fuel Hsim Hc He. destruct fuel as [|fuel]; [discriminate|].
    rewrite exec_block in He. exact (IH im ss s sig ss' fuel Hsim Hc He).
  - (* while loop *)
    intros c a Hc Ha IHa im ss s sig ss' fuel Hsim Hcode He.
    destruct fuel as [|[|fuel]]; try discriminate. rewrite exec_while in He.
    rewrite c_while, app_nil_r, (proj1 simple_after a Ha (Some 1)) in *.
    pose proof (proj1 simple_no_routine a Ha) as Hnrb.
    pose proof (c_rval_no_routine rt mt c (DReg R_RESULT) Hc (plain_ok_result mt c Hc)) as Hnrt.
    rewrite (len_no_routine _ Hnrb), (len_no_routine _ Hnrt) in *.
    set (T := c_rval rt mt c (DReg R_RESULT)) in *. set (B := c_stmt rt mt false None a) in *.
    set (kT := zlength T) in *. set (kB := zlength B) in *.
    apply code_at_app in Hcode. destruct Hcode as [Hloop Hcode]. cbn [code_at] in Hloop. destruct Hloop as [Hfl _].
    apply code_at_app in Hcode. destruct Hcode as [HcT Hcode].
    apply code_at_app in Hcode. destruct Hcode as [Hj Hcode]. cbn [code_at] in Hj. destruct Hj as [Hfj _].
    apply code_at_app in Hcode. destruct Hcode as [HcB Hcode].
    apply code_at_app in Hcode. destruct Hcode as [Hjb Hend]. cbn [code_at] in Hjb, Hend. destruct Hjb as [Hfjb _]. destruct Hend as [Hfe _].
    rewrite !zlength1 in HcT, Hfj, HcB, Hfjb, Hfe.
    set (P0 := m_pc s) in *.
    (* LOOP *)
    set (d := zlength (m_stack s)).
    set (s1 := advance (with_frames s (FLoop [] d :: m_frames s))).
    assert (E1 : esteps 1 im s = Some (s1, [])) by (apply (estep1 im s _ _ _ Hfl); reflexivity).
    assert (Hs1 : sim ss s1) by (destruct Hsim; constructor; cbn; assumption).
    (* the iteration, by induction on the fuel of the reference semantics *)
    assert (Hiter : forall f ss1 sx sg ssx lv r,
              sim ss1 sx -> m_pc sx = P0 + 1 -> m_frames sx = FLoop lv d :: r -> erase r = erase (m_frames s) -> m_stack sx = m_stack s ->
              iterate rt mt f false ss1 (Some c) None None None a = ROk sg ssx ->
              sg = SigNormal /\ exists n sy evs, esteps n im sx = Some (sy, evs) /\ sim ssx sy /\ m_pc sy = P0 + (kT + kB + 4) /\
                                           (m_stack sy, fr sy) = (m_stack s, fr s) /\ rev (s_trace ssx) = rev (s_trace ss1) ++ evs).
    { induction f as [|f IHf]; intros ss1 sx sg ssx lv r Hsx Hpcx Hfrx Herx Hstx Hit; [discriminate|].
      rewrite iterate_while in Hit.
      destruct (eval_rval rt mt f false ss1 c) as [x sa|e sa|sa] eqn:Ev; cbn [sbind] in Hit; try discriminate.
      assert (HcTx : code_at im (m_pc sx) T) by (rewrite Hpcx; exact HcT).
      destruct (c_rval_runs rt mt c (DReg R_RESULT) Hc (plain_ok_result mt c Hc) im ss1 sx x sa f Hsx HcTx Ev) as [Hsa [n Hn]]. subst sa.
      fold T in Hn. fold kT in Hn.
      set (s2 := put_vm sx (DReg R_RESULT) x kT) in *.
      assert (Hs2 : sim ss1 s2) by (apply sim_put_reg_hidden; [exact Hsx|reflexivity|reflexivity]).
      assert (Hr2 : rf_get (m_regs s2) R_RESULT = Some x) by (unfold s2; cbn [put_vm m_regs]; apply rf_get_set_same).
      assert (Hpc2 : m_pc s2 = P0 + 1 + kT) by (unfold s2; cbn [put_vm m_pc]; rewrite Hpcx; reflexivity).
      assert (Hfj2 : fetch im (m_pc s2) = Some (jump JC_IF_FALSE (kB + 2))) by (rewrite Hpc2; exact Hfj).
      pose proof (jump_if_false im s2 x (kB + 2) Hr2 Hfj2) as Ej.
      destruct (truthy x) eqn:Etx; cbn [negb] in Hit.
      - (* the body runs, then back to the test *)
        destruct (Sem.exec rt mt f false ss1 a) as [sgb sb|eb sb|sb] eqn:Eb; cbn [sbind] in Hit; try discriminate.
        set (s3 := with_pc s2 (m_pc s2 + 1)) in *.
        assert (HcB3 : code_at im (m_pc s3) B).
        { unfold s3. cbn [with_pc m_pc]. rewrite Hpc2. exact HcB. }
        destruct (IHa im ss1 s3 sgb sb f (sim_with_pc ss1 s2 _ Hs2) HcB3 Eb) as [Hsgb (n3 & s4 & e4 & E4 & Hs4 & Hpc4 & Hst4 & Ht4)]. subst sgb.
        assert (Hfjb4 : fetch im (m_pc s4) = Some (jump JC_ALWAYS (- (kT + 1 + kB)))).
        { rewrite Hpc4. unfold s3. cbn [with_pc m_pc]. rewrite Hpc2. fold B. fold kB. exact Hfjb. }
        pose proof (jump_always im s4 (- (kT + 1 + kB)) Hfjb4) as Ejb.
        set (s5 := with_pc s4 (m_pc s4 + - (kT + 1 + kB))) in *.
        destruct (loop_frame_kept s4 s3 s lv d r Hst4 Hstx Hfrx Herx) as [Hsk4 (r4 & Hfk4 & Her4)].
        destruct (IHf sb s5 sg ssx lv r4 (sim_with_pc sb s4 _ Hs4)) as [Hsg (n6 & s6 & e6 & E6 & Hs6 & Hpc6 & Hst6 & Ht6)].
        { unfold s5. cbn [with_pc m_pc]. rewrite Hpc4. unfold s3. cbn [with_pc m_pc]. rewrite Hpc2. fold B. fold kB. lia. }
        { exact Hfk4. }
        { exact Her4. }
        { exact Hsk4. }
        { exact Hit. }
        split; [exact Hsg|]. exists (n + (1 + (n3 + (1 + n6))))%nat, s6, ([] ++ ([] ++ (e4 ++ ([] ++ e6)))).
        split; [eapply esteps_app; [exact Hn|eapply esteps_app; [exact Ej|eapply esteps_app; [exact E4|eapply esteps_app; [exact Ejb|exact E6]]]]|].
        split; [exact Hs6|]. split; [exact Hpc6|]. split; [exact Hst6|]. cbn [app]. rewrite Ht6, Ht4, app_assoc. reflexivity.
      - (* the loop ends: jump to END_LOOP, which drops the loop frame *)
        injection Hit as Hsg Hss. subst ssx.
        set (s3 := with_pc s2 (m_pc s2 + (kB + 2))) in *.
        assert (Hfe3 : fetch im (m_pc s3) = Some (I0 OC_END_LOOP)).
        { unfold s3. cbn [with_pc m_pc]. rewrite Hpc2.
          replace (P0 + 1 + kT + (kB + 2)) with (P0 + 1 + kT + 1 + kB + 1) by lia. exact Hfe. }
        destruct (end_loop_step im ss1 s3 s lv r (sim_with_pc ss1 s2 _ Hs2) Hfe3 Hfrx Herx Hstx) as (s4 & E4 & Hs4 & Hpc4 & Hst4).
        split; [auto|]. exists (n + (1 + 1))%nat, s4, ([] ++ ([] ++ [])).
        split; [eapply esteps_app; [exact Hn|eapply esteps_app; [exact Ej|exact E4]]|].
        split; [exact Hs4|].
        split; [rewrite Hpc4; unfold s3; cbn [with_pc m_pc]; rewrite Hpc2; lia|].
        split; [exact Hst4|].
        rewrite app_nil_r. reflexivity. }
    destruct (Hiter fuel ss s1 sig ss' [] (m_frames s) Hs1 eq_refl eq_refl eq_refl eq_refl He) as [Hsig (n & sy & evs & En & Hsy & Hpcy & Hsty & Hty)].
    split; [exact Hsig|]. exists (1 + n)%nat, sy, ([] ++ evs).
    split; [eapply esteps_app; [exact E1|exact En]|]. split; [exact Hsy|].
    split; [rewrite Hpcy; unfold kT, kB, zlength; rewrite !app_length; cbn [length]; rewrite !Nat2Z.inj_add; lia|].
    split; [exact Hsty|exact Hty].
  - (* counted loop *)
    intros cn a Hn Ha IHa im ss s sig ss' fuel Hsim Hcode He.
    destruct fuel as [|[|fuel]]; try discriminate. rewrite exec_count in He.
    rewrite c_count, (proj1 simple_after a Ha _) in *.
    pose proof (proj1 simple_no_routine a Ha) as Hnrb.
    assert (Hnri : forallb not_routine (c_stmt rt mt false None a ++ counter_post None) = true) by (rewrite forallb_app, Hnrb; reflexivity).
    rewrite (len_no_routine _ Hnri) in *. change (len counter_test) with 4 in *.
    set (N := c_rval rt mt cn (DLoop LV_COUNTER)) in *. set (B := c_stmt rt mt false None a) in *.
    set (kN := zlength N) in *.
    assert (HkI : zlength (B ++ counter_post None) = zlength B + 4) by (unfold zlength; rewrite app_length, Nat2Z.inj_add; reflexivity).
    rewrite HkI in *. set (kB := zlength B) in *.
    apply code_at_app in Hcode. destruct Hcode as [Hloop Hcode]. cbn [code_at] in Hloop. destruct Hloop as [Hfl _].
    apply code_at_app in Hcode. destruct Hcode as [HcN Hcode].
    apply code_at_app in Hcode. destruct Hcode as [HcT Hcode].
    apply code_at_app in Hcode. destruct Hcode as [Hj Hcode]. cbn [code_at] in Hj. destruct Hj as [Hfj _].
    apply code_at_app in Hcode. destruct Hcode as [HcI Hcode]. apply code_at_app in HcI. destruct HcI as [HcB HcP].
    apply code_at_app in Hcode. destruct Hcode as [Hjb Hend]. cbn [code_at] in Hjb, Hend. destruct Hjb as [Hfjb _]. destruct Hend as [Hfe _].
    rewrite !zlength1 in HcN, HcT, Hfj, HcB, HcP, Hfjb, Hfe. rewrite HkI in Hfjb, Hfe.
    change (zlength counter_test) with 4 in Hfj, HcB, HcP, Hfjb, Hfe. fold kN in HcT, Hfj, HcB, HcP, Hfjb, Hfe. fold kB in HcP, Hfjb, Hfe.
    set (P0 := m_pc s) in *.
    (* the count is evaluated once *)
    destruct (eval_rval rt mt fuel false ss cn) as [cnt sa|e sa|sa] eqn:Ev; cbn [sbind] in He; try discriminate.
    set (d := zlength (m_stack s)).
    set (s1 := advance (with_frames s (FLoop [] d :: m_frames s))).
    assert (E1 : esteps 1 im s = Some (s1, [])) by (apply (estep1 im s _ _ _ Hfl); reflexivity).
    assert (Hs1 : sim ss s1) by (destruct Hsim; constructor; cbn; assumption).
    assert (HcN1 : code_at im (m_pc s1) N) by exact HcN.
    destruct (counter_init cn Hn im ss s1 cnt sa fuel [] d (m_frames s) Hs1 eq_refl HcN1 Ev) as [Hsa [nN HnN]]. subst sa. fold N in HnN. fold kN in HnN.
    set (s2 := with_counter s1 cnt kN) in *.
    assert (Hs2 : sim ss s2) by (apply sim_with_counter; exact Hs1).
    (* the iteration *)
    assert (Hiter : forall f ss1 sx sg ssx lv c0 r,
              sim ss1 sx -> m_pc sx = P0 + 1 + kN -> m_frames sx = FLoop lv d :: r -> erase r = erase (m_frames s) -> lv_get lv LV_COUNTER = Some c0 -> m_stack sx = m_stack s ->
              iterate rt mt f false ss1 None (Some c0) None None a = ROk sg ssx ->
              sg = SigNormal /\ exists n sy evs, esteps n im sx = Some (sy, evs) /\ sim ssx sy /\ m_pc sy = P0 + (kN + kB + 12) /\
                                           (m_stack sy, fr sy) = (m_stack s, fr s) /\ rev (s_trace ssx) = rev (s_trace ss1) ++ evs).
    { induction f as [|f IHf]; intros ss1 sx sg ssx lv c0 r Hsx Hpcx Hfrx Herx Hlvx Hstx Hit; [discriminate|].
      rewrite iterate_count in Hit.
      destruct (positive c0) as [go|e] eqn:Epos; cbn [lift_res sbind] in Hit; [|discriminate].
      assert (HcTx : code_at im (m_pc sx) counter_test) by (rewrite Hpcx; exact HcT).
      destruct (counter_test_steps im sx lv d r c0 go Hfrx Hlvx Epos HcTx) as (res & Et & Hres).
      set (s3 := put_vm sx (DReg R_RESULT) res 4) in *.
      assert (Hs3 : sim ss1 s3) by (apply sim_put_reg_hidden; [exact Hsx|reflexivity|reflexivity]).
      assert (Hr3 : rf_get (m_regs s3) R_RESULT = Some res) by (unfold s3; cbn [put_vm m_regs]; apply rf_get_set_same).
      assert (Hpc3 : m_pc s3 = P0 + 1 + kN + 4) by (unfold s3; cbn [put_vm m_pc]; rewrite Hpcx; reflexivity).
      assert (Hfj3 : fetch im (m_pc s3) = Some (jump JC_IF_FALSE (kB + 4 + 2))) by (rewrite Hpc3; exact Hfj).
      pose proof (jump_if_false im s3 res (kB + 4 + 2) Hr3 Hfj3) as Ej. rewrite Hres in Ej.
      destruct go; cbn [negb] in Hit.
      - (* the body, the count-down, back to the test *)
        destruct (Sem.exec rt mt f false ss1 a) as [sgb sb|eb sb|sb] eqn:Eb; cbn [sbind] in Hit; try discriminate.
        set (s4 := with_pc s3 (m_pc s3 + 1)) in *.
        assert (HcB4 : code_at im (m_pc s4) B) by (unfold s4; cbn [with_pc m_pc]; rewrite Hpc3; exact HcB).
        destruct (IHa im ss1 s4 sgb sb f (sim_with_pc ss1 s3 _ Hs3) HcB4 Eb) as [Hsgb (n5 & s5 & e5 & E5 & Hs5 & Hpc5 & Hst5 & Ht5)]. subst sgb.
        destruct (sub1 c0) as [c1|e] eqn:Esub; cbn [bind] in Hit; [|discriminate].
        destruct (loop_frame_kept s5 s4 s lv d r Hst5 Hstx Hfrx Herx) as [Hsk5 (r5 & Hfk5 & Her5)].
        assert (Hpc5' : m_pc s5 = P0 + 1 + kN + 4 + 1 + kB) by (rewrite Hpc5; unfold s4; cbn [with_pc m_pc]; rewrite Hpc3; fold B; fold kB; reflexivity).
        assert (HcP5 : code_at im (m_pc s5) (counter_post None)) by (rewrite Hpc5'; exact HcP).
        pose proof (counter_post_steps im s5 lv d r5 c0 c1 Hfk5 Hlvx Esub HcP5) as E6.
        set (s6 := with_counter s5 c1 4) in *.
        assert (Hs6 : sim sb s6) by (apply sim_with_counter; exact Hs5).
        assert (Hfjb6 : fetch im (m_pc s6) = Some (jump JC_ALWAYS (- (4 + 1 + (kB + 4))))).
        { unfold s6. cbn [with_counter m_pc]. rewrite Hpc5'. replace (P0 + 1 + kN + 4 + 1 + kB + 4) with (P0 + 1 + kN + 4 + 1 + (kB + 4)) by lia. exact Hfjb. }
        pose proof (jump_always im s6 (- (4 + 1 + (kB + 4))) Hfjb6) as Ejb.
        set (s7 := with_pc s6 (m_pc s6 + - (4 + 1 + (kB + 4)))) in *.
        destruct (IHf sb s7 sg ssx (lv_set lv LV_COUNTER c1) c1 r5 (sim_with_pc sb s6 _ Hs6)) as [Hsg (n8 & s8 & e8 & E8 & Hs8 & Hpc8 & Hst8 & Ht8)].
        { unfold s7. cbn [with_pc m_pc]. unfold s6. cbn [with_counter m_pc]. rewrite Hpc5'. lia. }
        { unfold s7, s6. cbn [with_pc with_counter m_frames]. rewrite Hfk5. reflexivity. }
        { exact Her5. }
        { apply lv_get_set. }
        { exact Hsk5. }
        { exact Hit. }
        split; [exact Hsg|]. exists (4 + (1 + (n5 + (4 + (1 + n8)))))%nat, s8, ([] ++ ([] ++ (e5 ++ ([] ++ ([] ++ e8))))).
        split; [eapply esteps_app; [exact Et|eapply esteps_app; [exact Ej|eapply esteps_app; [exact E5|eapply esteps_app; [exact E6|eapply esteps_app; [exact Ejb|exact E8]]]]]|].
        split; [exact Hs8|]. split; [exact Hpc8|]. split; [exact Hst8|]. cbn [app]. rewrite Ht8, Ht5, app_assoc. reflexivity.
      - (* the count is used up: END_LOOP drops the loop frame *)
        injection Hit as Hsg Hss. subst ssx.
        set (s4 := with_pc s3 (m_pc s3 + (kB + 4 + 2))) in *.
        assert (Hfe4 : fetch im (m_pc s4) = Some (I0 OC_END_LOOP)).
        { unfold s4. cbn [with_pc m_pc]. rewrite Hpc3. replace (P0 + 1 + kN + 4 + (kB + 4 + 2)) with (P0 + 1 + kN + 4 + 1 + (kB + 4) + 1) by lia. exact Hfe. }
        destruct (end_loop_step im ss1 s4 s lv r (sim_with_pc ss1 s3 _ Hs3) Hfe4 Hfrx Herx Hstx) as (s5 & E5 & Hs5 & Hpc5 & Hst5).
        split; [auto|]. exists (4 + (1 + 1))%nat, s5, ([] ++ ([] ++ [])).
        split; [eapply esteps_app; [exact Et|eapply esteps_app; [exact Ej|exact E5]]|].
        split; [exact Hs5|].
        split; [rewrite Hpc5; unfold s4; cbn [with_pc m_pc]; rewrite Hpc3; lia|].
        split; [exact Hst5|].
        rewrite app_nil_r. reflexivity. }
    destruct (Hiter fuel ss s2 sig ss' (lv_set [] LV_COUNTER cnt) cnt (m_frames s) Hs2) as [Hsig (n & sy & evs & En & Hsy & Hpcy & Hsty & Hty)].
    { unfold s2, s1. cbn [with_counter advance with_pc with_frames with_vars m_pc]. fold P0. reflexivity. }
    { reflexivity. }
    { reflexivity. }
    { apply lv_get_set. }
    { reflexivity. }
    { exact He. }
    split; [exact Hsig|]. exists (1 + (nN + n))%nat, sy, ([] ++ ([] ++ evs)).
    split; [eapply esteps_app; [exact E1|eapply esteps_app; [exact HnN|exact En]]|]. split; [exact Hsy|].
    split; [rewrite Hpcy; unfold kN, kB, zlength; rewrite !app_length; cbn [length]; rewrite !Nat2Z.inj_add; change (Z.of_nat (length counter_test)) with 4; change (Z.of_nat (length (counter_post None))) with 4; lia|].
    split; [exact Hsty|exact Hty].
  - (* empty sequence *)
    intros im ss s sig ss' fuel Hsim Hc He. destruct fuel as [|fuel]; [discriminate|]. rewrite exec_seq_nil in He.
    injection He as Hsig He. subst ss'. split; [auto|]. exists 0%nat, s, [].
    split; [reflexivity|]. split; [exact Hsim|]. split; [unfold zlength; cbn; lia|]. split; [reflexivity|rewrite app_nil_r; reflexivity].
  - (* sequence *)
    intros st r Hst IHst Hr IHr im ss s sig ss' fuel Hsim Hc He.
    destruct fuel as [|fuel]; [discriminate|]. rewrite exec_seq_cons in He. rewrite c_block_cons in *.
    destruct (Sem.exec rt mt fuel false ss st) as [sg sa|e sa|sa] eqn:Est; cbn [sbind] in He; try discriminate.
    apply code_at_app in Hc. destruct Hc as [Hc1 Hc2].
    destruct (IHst im ss s sg sa fuel Hsim Hc1 Est) as [Hsg (n1 & s1 & e1 & E1 & Hs1 & Hpc1 & Hst1 & Ht1)]. subst sg.
    assert (Hc2' : code_at im (m_pc s1) (c_stmt rt mt false None (SBlock r))) by (rewrite Hpc1; exact Hc2).
    destruct (IHr im sa s1 sig ss' fuel Hs1 Hc2' He) as [Hsig (n2 & s2 & e2 & E2 & Hs2 & Hpc2 & Hst2 & Ht2)].
    split; [exact Hsig|]. exists (n1 + n2)%nat, s2, (e1 ++ e2). split; [eapply esteps_app; eassumption|]. split; [exact Hs2|].
    split; [rewrite Hpc2, Hpc1; unfold zlength; rewrite app_length, Nat2Z.inj_add; lia|].
    split; [rewrite Hst2; exact Hst1|]. rewrite Ht2, Ht1, app_assoc. reflexivity.
Qed.
End Sim.

Lemma c_block_flat rt mt l : c_stmt rt mt false None (SBlock l) = flat_map (c_stmt rt mt false None) l.
Proof. induction l as [|st r IH]; [reflexivity|]. rewrite c_block_cons. cbn [flat_map]. rewrite IH. reflexivity. Qed.

(* every program without loops, routines, zones and matrix blocks: compiled, loaded and run on the
   machine model from the initial state it finishes with exactly the events the reference
   semantics gives for its source *)
Theorem loopfree_program_runs_as_its_source_says (p : script) (w : world) (fuel : nat) (evs : list event) :
  SimpleL (snd (collect p [] [])) p ->
  run_src fuel p w = SFinished evs ->
  exists k, run_program k (compile p) w = Finished evs.
Proof.
  intros Hs Hrun. unfold run_src, compile in *. destruct (collect p [] []) as [rt mt] eqn:Ec. cbn [snd] in Hs.
  destruct (exec_seq rt mt fuel false (init_sstate w) p) as [sig ss'|e ss'|ss'] eqn:Ee; try discriminate.
  injection Hrun as Hrun.
  rewrite <- (c_block_flat rt mt p).
  set (code := c_stmt rt mt false None (SBlock p)) in *.
  set (im := load code).
  assert (Him : im_code im = code) by (apply load_no_routine; apply (proj2 (simple_no_routine rt mt) p Hs)).
  assert (Hc : code_at im (m_pc (init_state w)) code) by (apply (code_at_suffix im [] code); exact Him).
  destruct (proj2 (simple_simulation rt mt) p Hs im (init_sstate w) (init_state w) sig ss' fuel (sim_init w) Hc Ee)
    as [_ (n & s' & es & En & Hsim & Hpc & _ & Htr)].
  exists (n + 1)%nat. unfold run_program, run_image. fold im.
  rewrite (run_from_esteps n im (init_state w) s' es 1 [] En). cbn [run_from].
  assert (Hend : (zlength (im_code im) <=? m_pc s') = true).
  { apply Z.leb_le. rewrite Him, Hpc. fold code. cbn [init_state m_pc]. lia. }
  rewrite Hend. cbn [fst]. unfold flush_events. rewrite (sim_unnamed _ _ Hsim). cbn [map app].
  rewrite rev_append_rev, app_nil_r, rev_involutive. cbn [init_sstate s_trace rev app] in Htr. rewrite <- Htr. f_equal. exact Hrun.
Qed.

(* a boolean test for the covered programs (sound for Simple / SimpleL) *)
Section Check.
Variable mt : mtable.
Fixpoint simple_b (fuel : nat) (st : stmt) : bool :=
  match fuel with
  | O => false
  | S f =>
      simple_atom mt st ||
      match st with
      | SIf c a None => plain_rval mt c && simple_b f a
      | SIf c a (Some b) => plain_rval mt c && simple_b f a && simple_b f b
      | SBlock l => forallb (simple_b f) l
      | SRepeat (LWhile c) a => plain_rval mt c && simple_b f a
      | SRepeat (LCount n) a => plain_rval mt n && simple_b f a
      | _ => false
      end
  end.

Lemma simple_b_sound fuel : forall st, simple_b fuel st = true -> Simple mt st.
Proof.
  induction fuel as [|f IH]; intros st H; [discriminate|]. cbn [simple_b] in H.
  destruct (simple_atom mt st) eqn:Ea; [apply S_atom; exact Ea|]. cbn [orb] in H.
  destruct st; try discriminate.
  - destruct s2 as [b|].
    + apply andb_true_iff in H. destruct H as [H Hb]. apply andb_true_iff in H. destruct H as [Hc Ha].
      apply S_ifelse; [exact Hc|apply IH; exact Ha|apply IH; exact Hb].
    + apply andb_true_iff in H. destruct H as [Hc Ha]. apply S_if; [exact Hc|apply IH; exact Ha].
  - destruct l; try discriminate; apply andb_true_iff in H; destruct H as [Hc Ha]; [apply S_while|apply S_count]; (exact Hc || (apply IH; exact Ha)).
  - apply S_block. clear Ea. induction ss as [|x r IHr]; [constructor|]. cbn [forallb] in H. apply andb_true_iff in H. destruct H as [Hx Hr].
    constructor; [apply IH; exact Hx|apply IHr; exact Hr].
Qed.

Lemma simple_list_sound fuel l : forallb (simple_b fuel) l = true -> SimpleL mt l.
Proof.
  induction l as [|x r IH]; intros H; [constructor|]. cbn [forallb] in H. apply andb_true_iff in H. destruct H as [Hx Hr].
  constructor; [apply (simple_b_sound fuel); exact Hx|apply IH; exact Hr].
Qed.
End Check.
