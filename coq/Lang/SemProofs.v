(* Properties of the reference semantics and of the device-command layer. *)
From Coq Require Import ZArith String List Bool PrimFloat Lia.
From Bardolph Require Import Base.PyFloat Gen.Codes Time.TimeSpec Time.TimeCore
  Lang.Value Lang.Units0 Lang.World Lang.Regs Lang.Devices Lang.Builtins Lang.Syntax Lang.Sem.
Open Scope string_scope.
Open Scope list_scope.
Import ListNotations.
Open Scope Z_scope.
Open Scope bool_scope.

(* ---------- a group / location action is the same action on each member ---------- *)

(* the action on one light, given what is to be transmitted *)
Definition one_light (c : list Z) (d : Z) (w : world) (n : string) : list event * world :=
  match find_light w n with
  | Some _ => ([EvColor n c d], set_light_color n c w)
  | None => ([], w)
  end.

Lemma color_each_cons c d w n r :
  color_each (n :: r) c d w =
  let '(e1, w1) := one_light c d w n in
  let '(e2, w2) := color_each r c d w1 in (e1 ++ e2, w2).
Proof.
  cbn [color_each]. unfold one_light. destruct (find_light w n).
  - destruct (color_each r c d (set_light_color n c w)). reflexivity.
  - destruct (color_each r c d w). reflexivity.
Qed.

(* the members' actions, one after the other, in the order of the member list *)
Fixpoint each_member (c : list Z) (d : Z) (w : world) (names : list string) : list event * world :=
  match names with
  | [] => ([], w)
  | n :: r =>
      let '(e1, w1) := one_light c d w n in
      let '(e2, w2) := each_member c d w1 r in (e1 ++ e2, w2)
  end.

Lemma color_each_members c d names : forall w, color_each names c d w = each_member c d w names.
Proof.
  induction names as [|n r IH]; intros w; [reflexivity|].
  rewrite color_each_cons. cbn [each_member]. destruct (one_light c d w n) as [e1 w1].
  rewrite IH. reflexivity.
Qed.

(* do_color_light is one_light with the transmitted colour and duration of the registers *)
Lemma color_light_is_one_light rf w n c d :
  sent_color rf = Ok c -> sent_duration rf = Ok d ->
  do_color_light rf w (VStr n) =
  Ok (let '(e, w') := one_light c d w n in mkDev rf w' e).
Proof.
  intros Hc Hd. unfold do_color_light, one_light. cbn [as_name].
  destruct (find_light w n) eqn:Hf; [|reflexivity].
  unfold do_color_names. rewrite Hc, Hd. cbn [bind color_each]. rewrite Hf. reflexivity.
Qed.

Theorem group_action_is_member_actions k rf w g names c d :
  set_members k w (VStr g) = Some names ->
  sent_color rf = Ok c -> sent_duration rf = Ok d ->
  do_color_set k rf w (VStr g) =
  Ok (let '(e, w') := each_member c d w names in mkDev rf w' e).
Proof.
  intros Hm Hc Hd. unfold do_color_set. rewrite Hm. unfold do_color_names. rewrite Hc, Hd. cbn [bind].
  rewrite color_each_members. destruct (each_member c d w names). reflexivity.
Qed.

(* power: a group's power command is the light command for each member that exists *)
Lemma power_each_members names p d w :
  power_each names p d w = flat_map (fun n => match find_light w n with Some _ => [EvPower n p d] | None => [] end) names.
Proof.
  induction names as [|n r IH]; [reflexivity|]. cbn [power_each flat_map].
  destruct (find_light w n); rewrite IH; reflexivity.
Qed.

(* the member list of a group is sorted by name and duplicate free: order of the actions *)
Lemma sorted_insert_In x y l : In y (sorted_insert x l) <-> y = x \/ In y l.
Proof.
  induction l as [|z r IH]; cbn [sorted_insert In].
  - split; [intros [H|[]]; left; symmetry; exact H | intros [H|[]]; left; symmetry; exact H].
  - destruct (String.eqb x z) eqn:E.
    + apply String.eqb_eq in E. subst z. cbn [In]. split; [intros [H|H]; [left; symmetry; exact H|right; right; exact H]|].
      intros [H|[H|H]]; [left; symmetry; exact H|left; exact H|right; exact H].
    + destruct (str_ltb x z).
      * cbn [In]. split; [intros [H|[H|H]]; [left; symmetry; exact H|right; left; exact H|right; right; exact H]|].
        intros [H|[H|H]]; [left; symmetry; exact H|right; left; exact H|right; right; exact H].
      * cbn [In]. rewrite IH. split; [intros [H|[H|H]]; [right; left; exact H|left; exact H|right; right; exact H]|].
        intros [H|[H|H]]; [right; left; exact H|left; exact H|right; right; exact H].
Qed.

Lemma sort_names_In l : forall acc y, In y (fold_left (fun acc x => sorted_insert x acc) l acc) <-> In y l \/ In y acc.
Proof.
  induction l as [|x r IH]; intros acc y; cbn [fold_left In].
  - tauto.
  - rewrite IH, sorted_insert_In. split; [intros [H|[H|H]]|intros [[H|H]|H]]; subst; tauto.
Qed.

(* a group's members are exactly the lights that report that group *)
Theorem members_exact sel w g names y :
  members sel w g = Some names ->
  (In y names <-> exists l, In l w /\ l_name l = y /\ sel l = g).
Proof.
  unfold members. destruct (sort_names _) as [|a r] eqn:E; [discriminate|]. intros H. inversion H. subst names. clear H.
  rewrite <- E. unfold sort_names. rewrite sort_names_In. cbn [In].
  rewrite in_map_iff. split.
  - intros [[l [Hn Hin]]|[]]. apply filter_In in Hin. destruct Hin as [Hin Hs]. apply String.eqb_eq in Hs.
    exists l. tauto.
  - intros [l [Hin [Hn Hs]]]. left. exists l. split; [exact Hn|]. apply filter_In. split; [exact Hin|].
    apply String.eqb_eq. exact Hs.
Qed.

(* ---------- the operands of one statement share one delay ---------- *)
(* `set a and b and ...` outside a matrix block: exactly one delay request, made before
   the first operand; the operand list itself requests none. *)
Theorem set_requests_one_delay rt mt f s ops :
  exec rt mt (S f) false s (SSet ops) =
  sbind (do_wait s) (fun _ s1 => sbind (exec_ops rt mt f false s1 true ops) (fun _ s2 => ROk SigNormal s2)).
Proof. reflexivity. Qed.

Theorem on_requests_one_delay rt mt f s ops :
  exec rt mt (S f) false s (SOn ops) =
  let s0 := s_with_regs s (rf_set (s_regs s) R_POWER (VBool true)) in
  sbind (do_wait s0) (fun _ s1 => sbind (exec_ops rt mt f false s1 false ops) (fun _ s2 => ROk SigNormal s2)).
Proof. reflexivity. Qed.

(* do_wait emits at most one event *)
Lemma do_wait_one_event s :
  match do_wait s with
  | ROk _ s' => exists evs, s_trace s' = rev_append evs (s_trace s) /\ (length evs <= 1)%nat /\
                            s_regs s' = s_regs s /\ s_world s' = s_world s /\ s_globals s' = s_globals s /\ s_locals s' = s_locals s
  | RErr _ s' => s' = s
  | RFuel _ => False
  end.
Proof.
  unfold do_wait. destruct (rf_wait (s_regs s)) as [[|t|p]|e].
  - exists []. cbn. repeat split; lia.
  - exists [EvPause t]. cbn. repeat split; lia.
  - exists [EvWaitUntil p]. cbn. repeat split; lia.
  - reflexivity.
Qed.
