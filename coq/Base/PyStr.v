(* Python string helpers used by the translated code (ASCII domain).
   Texts are Coq [string]s (bytes).  The correspondence runs keep their
   inputs inside ASCII; DESIGN section 8 lists this as a modelling bound. *)
From Coq Require Import ZArith String Ascii List Bool Lia.
Import ListNotations.
Open Scope Z_scope.

Definition zlen (s : string) : Z := Z.of_nat (String.length s).

(* s[i] for a constant non-negative i, as a one-character string.  Python
   raises IndexError when i is out of range; every translated use is guarded
   by a length test, and the translator validation sweep compares the
   functions on all short strings, so the empty string stands for that case. *)
Definition py_index (s : string) (i : Z) : string :=
  match String.get (Z.to_nat i) s with
  | Some c => String c EmptyString
  | None => EmptyString
  end.

Definition is_digit_ascii (c : ascii) : bool :=
  let n := nat_of_ascii c in (Nat.leb 48 n && Nat.leb n 57)%bool.

Fixpoint all_chars (f : ascii -> bool) (s : string) : bool :=
  match s with
  | EmptyString => true
  | String c r => f c && all_chars f r
  end.

(* str.isdigit / str.isdecimal restricted to ASCII: non-empty, all 0-9. *)
Definition str_isdigit (s : string) : bool :=
  match s with EmptyString => false | _ => all_chars is_digit_ascii s end.
Definition str_isdecimal := str_isdigit.

Fixpoint prefixb (p s : string) : bool :=
  match p, s with
  | EmptyString, _ => true
  | String a p', String b s' => Ascii.eqb a b && prefixb p' s'
  | _, _ => false
  end.

(* Python's  x in s  for strings: substring containment. *)
Fixpoint substr_in (x s : string) : bool :=
  prefixb x s ||
  match s with
  | EmptyString => false
  | String _ r => substr_in x r
  end.

Definition digit_val (c : ascii) : Z := Z.of_nat (nat_of_ascii c) - 48.

Fixpoint py_int_acc (s : string) (acc : Z) : Z :=
  match s with
  | EmptyString => acc
  | String c r => py_int_acc r (acc * 10 + digit_val c)
  end.
(* int(s) for a string of ASCII digits. *)
Definition py_int (s : string) : Z := py_int_acc s 0.

Definition digit_char (d : Z) : ascii := ascii_of_nat (Z.to_nat (48 + d)).

(* "{:02d}".format(n) for 0 <= n < 100. *)
Definition fmt_02d (n : Z) : string :=
  String (digit_char (n / 10)) (String (digit_char (n mod 10)) EmptyString).

Fixpoint zrange_aux (n : nat) (a : Z) : list Z :=
  match n with O => [] | S k => a :: zrange_aux k (a + 1) end.
(* list(range(a, b)) *)
Definition zrange (a b : Z) : list Z := zrange_aux (Z.to_nat (b - a)) a.

Definition zmem (x : Z) (l : list Z) : bool := existsb (Z.eqb x) l.
Definition smem (x : string) (l : list string) : bool := existsb (String.eqb x) l.

Lemma zrange_aux_In n : forall a x, In x (zrange_aux n a) <-> a <= x < a + Z.of_nat n.
Proof.
  induction n as [|n IH]; intros a x; cbn [zrange_aux In].
  - lia.
  - rewrite IH. lia.
Qed.

Lemma zrange_In a b x : In x (zrange a b) <-> a <= x < b.
Proof. unfold zrange. rewrite zrange_aux_In. lia. Qed.
