(* Python numeric built-ins used by the translated arithmetic (units.py, param_helper.py,
   color.py, colorsys), in two interpretations of the same source text:

     * binary64 (PrimFloat) -- bit-exact model of what CPython computes;
     * exact rationals (Q, suffix _Q) -- the formulas read as real arithmetic.

   TREATMENT OF int vs float.  A Bardolph register holds a Python int (`hue 120`) or a
   Python float (`hue 120.5`, anything computed with a float).  Every operation the
   translated code applies to a register value -- `x * 1000.0`, `x / 100.0`,
   `x % 360.0`, `float(x)`, comparison with a float constant, `min(x, 0xffff)`,
   `max(0, x)`, `round(x)` -- gives, for an int x with |x| < 2^53, the same *value* as for
   float(x): CPython converts the int operand exactly (int/float comparisons are exact
   by definition, and round(int) is the int itself, which equals round(float(int))).
   Only the Python *type* of a value that is passed through untouched (kelvin, a raw
   component in raw mode) can differ, and the value that reaches a light goes through
   round(), i.e. is an int in both cases.  The model therefore keeps ONE numeric type
   per interpretation: registers are [float] (resp. [Q]); an int register n stands for
   [z2f n].  Integer constants of the source (0, 65535, 0xffff, 360) are translated as
   [z2f c]; results of round()/int() are [Z] and are converted back with [z2f] where
   the source uses them as numbers.  The harness feeds the generated functions the float
   of each input and checks on every integral input that the Python original returns
   the same value for the int and for the float.  ints of magnitude >= 2^53 are outside
   the model (CPython raises OverflowError beyond the float range and rounds to nearest
   below it); [z2f] is correctly rounded for every integer all the same.

   round() raises ValueError/OverflowError on nan/inf; [py_round] is total and returns 0
   there, [py_round_defined] says when Python's round returns.  int() likewise. *)
From Coq Require Import ZArith QArith Qround Bool Lia.
From Coq Require Import PrimFloat Uint63 SpecFloat FloatOps.
Open Scope Z_scope.

(* ------------------------------------------------------------------ colours *)

Record color4 (T : Type) : Type := mkcolor { c0 : T; c1 : T; c2 : T; c3 : T }.
Arguments mkcolor {T}.
Arguments c0 {T}.
Arguments c1 {T}.
Arguments c2 {T}.
Arguments c3 {T}.

Definition cmap {A B : Type} (f : A -> B) (c : color4 A) : color4 B :=
  mkcolor (f (c0 c)) (f (c1 c)) (f (c2 c)) (f (c3 c)).

Definition call {A : Type} (p : A -> bool) (c : color4 A) : bool :=
  p (c0 c) && p (c1 c) && p (c2 c) && p (c3 c).

Definition color_eqb {A : Type} (e : A -> A -> bool) (a b : color4 A) : bool :=
  e (c0 a) (c0 b) && e (c1 a) (c1 b) && e (c2 a) (c2 b) && e (c3 a) (c3 b).

(* ------------------------------------------------------------------ binary64 *)

(* int -> float, correctly rounded (CPython: exact below 2^53).  Fast path through the
   primitive conversion of 63-bit integers, whose specification
   (FloatAxioms.of_uint63_spec) is the same [binary_normalize]. *)
Definition z2f (z : Z) : float :=
  if (0 <=? z) && (z <? 4611686018427387904) then of_uint63 (of_Z z)
  else if (z <? 0) && (-4611686018427387904 <? z) then PrimFloat.opp (of_uint63 (of_Z (- z)))
  else SF2Prim (binary_normalize prec emax z 0 false).

(* round half to even of m * 2^-k, m >= 0, k > 0 *)
Definition rhe_shift (m k : Z) : Z :=
  let q := Z.shiftr m k in
  let r := m - Z.shiftl q k in
  let half := Z.shiftl 1 (k - 1) in
  if r <? half then q
  else if half <? r then q + 1
  else if Z.even q then q else q + 1.

Definition sf_round (f : spec_float) : Z :=
  match f with
  | S754_finite s m e =>
      let v := if 0 <=? e then Z.shiftl (Zpos m) e else rhe_shift (Zpos m) (- e) in
      if s then - v else v
  | _ => 0
  end.

(* Python round(x) with one argument: nearest integer, ties to even *)
Definition py_round (x : float) : Z := sf_round (Prim2SF x).

Definition sf_is_finite (f : spec_float) : bool :=
  match f with S754_finite _ _ _ | S754_zero _ => true | _ => false end.
Definition py_round_defined (x : float) : bool := sf_is_finite (Prim2SF x).

(* int(x): truncation toward zero *)
Definition sf_trunc (f : spec_float) : Z :=
  match f with
  | S754_finite s m e =>
      let v := if 0 <=? e then Z.shiftl (Zpos m) e else Z.shiftr (Zpos m) (- e) in
      if s then - v else v
  | _ => 0
  end.
Definition py_trunc (x : float) : Z := sf_trunc (Prim2SF x).

(* max(a, b) = b if b > a else a ; min(a, b) = b if b < a else a  (argument order
   matters for nan and for the sign of zero) *)
Definition py_max (a b : float) : float := if PrimFloat.ltb a b then b else a.
Definition py_min (a b : float) : float := if PrimFloat.ltb b a then b else a.

(* C fmod on finite operands with y <> 0: exact, sign of x *)
Definition sf_fmod (x y : spec_float) : spec_float :=
  match x, y with
  | S754_nan, _ | _, S754_nan => S754_nan
  | S754_infinity _, _ => S754_nan
  | _, S754_zero _ => S754_nan
  | S754_zero s, _ => S754_zero s
  | S754_finite _ _ _, S754_infinity _ => x
  | S754_finite sx mx ex, S754_finite _ my ey =>
      let e := Z.min ex ey in
      let X := Z.shiftl (Zpos mx) (ex - e) in
      let Y := Z.shiftl (Zpos my) (ey - e) in
      let R := X mod Y in
      if R =? 0 then S754_zero sx
      else binary_normalize prec emax (if sx then - R else R) e false
  end.

Definition c_fmod (x y : float) : float := SF2Prim (sf_fmod (Prim2SF x) (Prim2SF y)).

(* Python float %: floatobject.c float_rem
     mod = fmod(vx, wx);
     if (mod) { if ((wx < 0) != (mod < 0)) mod += wx; }
     else mod = copysign(0.0, wx);
   (wx == 0 raises ZeroDivisionError; the translated code only divides by constants) *)
Definition py_fmod (x y : float) : float :=
  let m := c_fmod x y in
  if PrimFloat.eqb m zero then (if get_sign y then neg_zero else zero)
  else if xorb (PrimFloat.ltb y zero) (PrimFloat.ltb m zero) then PrimFloat.add m y else m.

(* bit-level identity of two floats (eqb identifies the zeros and separates nans) *)
Definition sf_same (a b : spec_float) : bool :=
  match a, b with
  | S754_nan, S754_nan => true
  | S754_zero s, S754_zero t => Bool.eqb s t
  | S754_infinity s, S754_infinity t => Bool.eqb s t
  | S754_finite s m e, S754_finite t n f => Bool.eqb s t && Pos.eqb m n && Z.eqb e f
  | _, _ => false
  end.
Definition same_float (a b : float) : bool := sf_same (Prim2SF a) (Prim2SF b).

(* injective integer code of a float (all nans identified): used for digests *)
Definition sf_code (f : spec_float) : Z :=
  match f with
  | S754_nan => 1
  | S754_zero s => if s then 3 else 2
  | S754_infinity s => if s then 5 else 4
  | S754_finite s m e => 8 + (if s then 1 else 0) + 2 * (Zpos m + 9007199254740992 * (e + 1074))
  end.
Definition float_code (x : float) : Z := sf_code (Prim2SF x).

(* exact rational value of a finite float (0 for nan and the infinities) *)
Definition sf2q (f : spec_float) : Q :=
  match f with
  | S754_finite s m e =>
      let n := if s then Zneg m else Zpos m in
      if 0 <=? e then inject_Z (Z.shiftl n e) else Qmake n (Z.to_pos (Z.shiftl 1 (- e)))
  | _ => 0%Q
  end.
Definition f2q (x : float) : Q := sf2q (Prim2SF x).

(* ------------------------------------------------------------------ exact rationals *)

Definition Qltb (a b : Q) : bool := negb (Qle_bool b a).
Definition Qleb (a b : Q) : bool := Qle_bool a b.
Definition Qeqb (a b : Q) : bool := Qeq_bool a b.

(* round half to even *)
Definition py_round_Q (q : Q) : Z :=
  let f := Qfloor q in
  let r := (q - inject_Z f)%Q in
  if Qltb r (1 # 2) then f
  else if Qltb (1 # 2) r then f + 1
  else if Z.even f then f else f + 1.

Definition py_trunc_Q (q : Q) : Z := if Qleb 0 q then Qfloor q else Qceiling q.

Definition py_max_Q (a b : Q) : Q := if Qltb a b then b else a.
Definition py_min_Q (a b : Q) : Q := if Qltb b a then b else a.

(* Python %: x - y * floor(x / y); sign of y.  (y = 0: Coq's x / 0 = 0, result x) *)
Definition py_fmod_Q (x y : Q) : Q := (x - y * inject_Z (Qfloor (x / y)))%Q.

Definition z2q (z : Z) : Q := inject_Z z.
