(* List-free bounded quantifier over an integer interval, by binary splitting on a
   [positive] length.  A 65 536-element list (or a [nat] of that size) overflows the
   stack under [vm_compute]; this does not: the recursion depth is the number of
   bits of [n].  [all_range n s f] checks [f] on the [n] integers s, s+1, ..., s+n-1. *)
From Coq Require Import ZArith Bool Lia.
Open Scope Z_scope.

Fixpoint all_range (n : positive) (start : Z) (f : Z -> bool) : bool :=
  match n with
  | xH => f start
  | xO p => all_range p start f && all_range p (start + Zpos p) f
  | xI p => f start && (all_range p (start + 1) f && all_range p (start + 1 + Zpos p) f)
  end.

Lemma all_range_spec : forall n s f,
  all_range n s f = true -> forall z, s <= z < s + Zpos n -> f z = true.
Proof.
  induction n as [p IH | p IH | ]; intros s f H z Hz; simpl in H.
  - apply andb_prop in H. destruct H as [H0 H]. apply andb_prop in H. destruct H as [H1 H2].
    destruct (Z.eq_dec z s) as [-> | Hne]; [exact H0 |].
    destruct (Z_lt_ge_dec z (s + 1 + Zpos p)) as [Hlt | Hge].
    + apply (IH _ _ H1). lia.
    + apply (IH _ _ H2). lia.
  - apply andb_prop in H. destruct H as [H1 H2].
    destruct (Z_lt_ge_dec z (s + Zpos p)) as [Hlt | Hge].
    + apply (IH _ _ H1). lia.
    + apply (IH _ _ H2). lia.
  - assert (z = s) by lia. subst. exact H.
Qed.

(* the converse, so that a sweep that fails is known to have a failing point *)
Lemma all_range_complete : forall n s f,
  (forall z, s <= z < s + Zpos n -> f z = true) -> all_range n s f = true.
Proof.
  induction n as [p IH | p IH | ]; intros s f H; simpl.
  - rewrite H by lia. rewrite !IH; auto; intros; apply H; lia.
  - rewrite !IH; auto; intros; apply H; lia.
  - apply H. lia.
Qed.

(* fold over the same interval, in increasing order, without a list: used for digests *)
Fixpoint fold_range {A} (n : positive) (start : Z) (f : A -> Z -> A) (a : A) : A :=
  match n with
  | xH => f a start
  | xO p => fold_range p (start + Zpos p) f (fold_range p start f a)
  | xI p => fold_range p (start + 1 + Zpos p) f (fold_range p (start + 1) f (f a start))
  end.

(* first failing point, for diagnostics *)
Fixpoint find_range (n : positive) (start : Z) (f : Z -> bool) : option Z :=
  match n with
  | xH => if f start then None else Some start
  | xO p => match find_range p start f with Some z => Some z | None => find_range p (start + Zpos p) f end
  | xI p => if f start then
              match find_range p (start + 1) f with Some z => Some z | None => find_range p (start + 1 + Zpos p) f end
            else Some start
  end.
