(* Python float/int arithmetic helpers on binary64 (PrimFloat), exact where CPython is.
   No proofs here. *)
From Coq Require Import ZArith Bool PrimFloat Uint63 FloatOps SpecFloat.
Open Scope Z_scope.

Definition two53 : Z := 9007199254740992.

(* int -> float, exact for |z| <= 2^53 (the only range the models use; see [z_exact]) *)
Definition z2f (z : Z) : float :=
  match z with
  | Z0 => PrimFloat.zero
  | Zpos _ => PrimFloat.of_uint63 (Uint63.of_Z z)
  | Zneg p => PrimFloat.opp (PrimFloat.of_uint63 (Uint63.of_Z (Zpos p)))
  end.
Definition z_exact (z : Z) : bool := (Z.abs z <=? two53).

(* exact value of a finite float as mantissa * 2^exponent (signed mantissa) *)
Definition f_parts (f : float) : option (Z * Z) :=
  match Prim2SF f with
  | S754_zero _ => Some (0, 0)
  | S754_finite s m e => Some (if s then Zneg m else Zpos m, e)
  | _ => None
  end.

(* Python round(x) to an integer: round half to even.  None for nan / infinities
   (CPython raises ValueError / OverflowError). *)
Definition py_round (f : float) : option Z :=
  match f_parts f with
  | None => None
  | Some (m, e) =>
      if 0 <=? e then Some (m * 2 ^ e)
      else
        let d := 2 ^ (- e) in
        let q := m / d in              (* floor *)
        let r := m mod d in            (* 0 <= r < d *)
        let twice := 2 * r in
        if twice <? d then Some q
        else if d <? twice then Some (q + 1)
        else Some (if Z.even q then q else q + 1)
  end.

(* math.floor / math.ceil / math.trunc *)
Definition py_floor (f : float) : option Z :=
  match f_parts f with
  | None => None
  | Some (m, e) => if 0 <=? e then Some (m * 2 ^ e) else Some (m / 2 ^ (- e))
  end.
Definition py_ceil (f : float) : option Z :=
  match f_parts f with
  | None => None
  | Some (m, e) => if 0 <=? e then Some (m * 2 ^ e) else Some (- ((- m) / 2 ^ (- e)))
  end.
Definition py_trunc (f : float) : option Z :=
  match f_parts f with
  | None => None
  | Some (m, e) => if 0 <=? e then Some (m * 2 ^ e) else Some (Z.quot m (2 ^ (- e)))
  end.

(* float(z * 2^e) for a value known to be representable *)
Definition scaled (z e : Z) : float := Z.ldexp (z2f z) e.

(* Python's float %: fmod, then the sign adjustment done with a float addition.
   None: division by zero (ZeroDivisionError), nan/inf operands (handled by the caller
   as unsupported), or exponents too far apart for the exact integer computation. *)
Inductive fmod_result := FmOk (f : float) | FmZeroDiv | FmUnsupported.
Definition py_fmod (a b : float) : fmod_result :=
  match f_parts a, f_parts b with
  | Some (ma, ea), Some (mb, eb) =>
      if mb =? 0 then FmZeroDiv
      else
        let e := Z.min ea eb in
        if (60 <? Z.abs (ea - eb)) then FmUnsupported
        else
          let A := ma * 2 ^ (ea - e) in
          let B := mb * 2 ^ (eb - e) in
          let r := Z.rem A B in           (* C fmod: sign of the dividend *)
          if r =? 0 then FmOk (if mb <? 0 then PrimFloat.neg_zero else PrimFloat.zero)
          else
            let rf := scaled r e in
            if Bool.eqb (r <? 0) (mb <? 0) then FmOk rf else FmOk (PrimFloat.add rf b)
  | _, _ => FmUnsupported
  end.

(* bit-level equality (distinguishes 0.0 from -0.0, identifies nans) *)
Definition f_same (a b : float) : bool :=
  match Prim2SF a, Prim2SF b with
  | S754_nan, S754_nan => true
  | S754_zero s1, S754_zero s2 => Bool.eqb s1 s2
  | S754_infinity s1, S754_infinity s2 => Bool.eqb s1 s2
  | S754_finite s1 m1 e1, S754_finite s2 m2 e2 => Bool.eqb s1 s2 && Pos.eqb m1 m2 && Z.eqb e1 e2
  | _, _ => false
  end.

Definition f_is_integral (f : float) : option Z :=
  match py_trunc f with
  | Some z => if PrimFloat.eqb (z2f z) f && z_exact z then Some z else None
  | None => None
  end.
