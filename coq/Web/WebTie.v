(* Ties of the C20 model to the text the source has now (Gen/WebGen.v, regenerated from
   web/front_end.py and web/web_app.py on every run), and the theorems of Web/WebProofs.v
   instantiated with the variant and the route table read off that text.  The lemmas in
   the first part are closed by [reflexivity]: they stop compiling when the source changes
   shape (pinned text of D30/D31, another route table, another escaped-field list, an
   edited method). *)
From Coq Require Import ZArith String Ascii List Bool.
From Bardolph Require Import Base.PyStr Web.Html Web.WebSpec Web.WebApp Web.WebProofs Gen.WebGen.
Open Scope string_scope.
Open Scope list_scope.
Import ListNotations.

Lemma variant_current : web_variant = repaired.
Proof. reflexivity. Qed.

Lemma route_table_current : route_table = modelled_route_table.
Proof. reflexivity. Qed.

Lemma escaped_fields_current : escaped_fields = modelled_escaped_fields.
Proof. reflexivity. Qed.

Lemma front_end_text_current : shape_front_end = true.
Proof. reflexivity. Qed.

Lemma web_app_text_current : shape_web_app = true.
Proof. reflexivity. Qed.

Lemma no_unknown_methods : shape_no_unknown_methods = true.
Proof. reflexivity. Qed.

Lemma source_text_current :
  web_variant = repaired /\ route_table = modelled_route_table /\ escaped_fields = modelled_escaped_fields /\
  shape_front_end = true /\ shape_web_app = true /\ shape_no_unknown_methods = true.
Proof. repeat split; reflexivity. Qed.

Lemma dispatch_current : forall url, dispatch route_table url = classify url.
Proof. rewrite route_table_current. exact dispatch_classify. Qed.

Lemma model_refines_spec_current : forall m evs,
  Forall2 obs_match (app_run web_variant route_table m evs) (spec_run m evs).
Proof. rewrite variant_current, route_table_current. exact model_refines_spec. Qed.

Definition reachable_now := reachable web_variant route_table.

Definition only_manifest_files_run_current := only_manifest_files_run web_variant route_table variant_current route_table_current.
Definition controller_holds_manifest_jobs_current := controller_holds_manifest_jobs web_variant route_table variant_current route_table_current.
Definition request_starts_listed_script_current := request_starts_listed_script web_variant route_table variant_current route_table_current.
Definition unknown_path_starts_nothing_current := unknown_path_starts_nothing web_variant route_table variant_current route_table_current.
Definition only_listed_requests_start_current := only_listed_requests_start web_variant route_table variant_current route_table_current.
Definition running_not_restarted_current := running_not_restarted web_variant route_table variant_current route_table_current.
Definition stop_named_exact_current := stop_named_exact web_variant route_table variant_current route_table_current.
Definition stop_current_exact_current := stop_current_exact web_variant route_table variant_current route_table_current.
Definition stop_all_exact_current := stop_all_exact web_variant route_table variant_current route_table_current.
Definition status_and_capture_render_current := status_and_capture_render web_variant route_table variant_current route_table_current.
Definition errors_only_without_special_entry_current := errors_only_without_special_entry web_variant route_table variant_current route_table_current.
Definition pages_get_escaped_fields_current := pages_get_escaped_fields web_variant route_table variant_current route_table_current.
