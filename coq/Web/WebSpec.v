(* C20 specification side: what the property text says, written from the statement and
   docs/web_server.rst, not from web_app.py / front_end.py.  Also the vocabulary shared
   with the model (manifest entries, jobs, the abstract job controller in the simple
   reading of DESIGN C08, effects, events, request classification).
   Independent of Gen/*.  No proofs here. *)
From Coq Require Import ZArith String Ascii List Bool.
From Bardolph Require Import Base.PyStr Web.Html.
Open Scope string_scope.
Open Scope list_scope.
Import ListNotations.
Open Scope Z_scope.
Open Scope bool_scope.

(* ====================================================================== *)
(* 1. "HTML-escaped": no markup character survives                          *)

Definition entities : list string := ["&amp;"; "&lt;"; "&gt;"; "&quot;"; "&#x27;"].
Definition metachars : list ascii := [c_lt; c_gt; c_dq; c_sq].
Definition is_meta (c : ascii) : bool := existsb (Ascii.eqb c) metachars.

(* declarative: position by position *)
Definition escaped_ok (t : string) : Prop :=
  forall i c, String.get i t = Some c ->
    ~ In c metachars /\
    (c = c_amp -> exists e, In e entities /\ String.substring i (String.length e) t = e).

(* executable: the same test as a scan *)
Fixpoint well_escaped (t : string) : bool :=
  match t with
  | EmptyString => true
  | String c r =>
      (if Ascii.eqb c c_amp then existsb (fun e => prefixb e t) entities else negb (is_meta c))
      && well_escaped r
  end.

(* decoding of the five entities, one pass, left to right ([skip] characters of an
   entity already decoded are passed over) *)
Fixpoint unescape_from (skip : nat) (t : string) : string :=
  match t with
  | EmptyString => EmptyString
  | String c r =>
      match skip with
      | S k => unescape_from k r
      | O =>
          if prefixb "&amp;" t then String c_amp (unescape_from 4 r)
          else if prefixb "&lt;" t then String c_lt (unescape_from 3 r)
          else if prefixb "&gt;" t then String c_gt (unescape_from 3 r)
          else if prefixb "&quot;" t then String c_dq (unescape_from 5 r)
          else if prefixb "&#x27;" t then String c_sq (unescape_from 5 r)
          else String c (unescape_from 0 r)
      end
  end.
Definition html_unescape (t : string) : string := unescape_from 0 t.

(* ====================================================================== *)
(* 2. Manifest entries and the documented defaults                          *)

(* One object of manifest.json.  "path", "title", "run_background" and "icon" are
   optional; an empty "path"/"title" counts as missing. *)
Record entry := mk_entry {
  e_file : string;
  e_path : option string;
  e_title : option string;
  e_run_bg : option bool;
  e_background : string;
  e_color : string;
  e_icon : option string }.
Definition manifest := list entry.

Definition given (o : option string) : option string :=
  match o with Some EmptyString => None | _ => o end.

Definition suffixb (suf s : string) : bool :=
  let n := String.length s in
  let k := String.length suf in
  Nat.leb k n && String.eqb (String.substring (n - k) k s) suf.

(* docs/web_server.rst: "The default for "path" is the base name of the file"
   (reading.ls -> reading): the file name without a final ".ls". *)
Definition base_name (f : string) : string :=
  if suffixb ".ls" f then String.substring 0 (String.length f - 3) f else f.

Definition spec_path (e : entry) : string :=
  match given (e_path e) with Some p => p | None => base_name (e_file e) end.

(* docs: "replace any underscore or dash with a space, and capitalize each word"
   (all-off -> "All Off"); a word is a maximal run of letters, as in Python's
   title-casing: a letter is upper-cased when the previous character is not a
   letter and lower-cased otherwise; other characters are kept. *)
Definition spaced_char (c : ascii) : ascii :=
  if Ascii.eqb c "_"%char || Ascii.eqb c "-"%char then " "%char else c.
Definition title_char (prev : option ascii) (c : ascii) : ascii :=
  if is_letter c then
    match prev with
    | Some p => if is_letter p then to_lower c else to_upper c
    | None => to_upper c
    end
  else c.
Fixpoint title_from (prev : option ascii) (s : string) : string :=
  match s with
  | EmptyString => EmptyString
  | String c r => String (title_char prev c) (title_from (Some c) r)
  end.
Definition spec_default_title (name : string) : string := title_from None (str_map spaced_char name).
(* the unit test (tests/web_app_test.py) and the shipped manifest ("retrieve") fix that the
   name is the effective path *)
Definition spec_title (e : entry) : string :=
  match given (e_title e) with Some t => t | None => spec_default_title (spec_path e) end.

Definition spec_run_bg (e : entry) : bool := match e_run_bg e with Some b => b | None => false end.
Definition spec_icon (e : entry) : string := match e_icon e with Some i => i | None => "litBulb" end.

(* the literal reading of the documentation for simple names: split at spaces,
   upper-case the first character of each word *)
Fixpoint split_on (sep : ascii) (s : string) : list string :=
  match s with
  | EmptyString => [EmptyString]
  | String c r =>
      if Ascii.eqb c sep then EmptyString :: split_on sep r
      else match split_on sep r with
           | w :: ws => String c w :: ws
           | [] => [String c EmptyString]
           end
  end.
Fixpoint join_with (sep : string) (l : list string) : string :=
  match l with
  | [] => EmptyString
  | [w] => w
  | w :: ws => String.append w (String.append sep (join_with sep ws))
  end.
Definition capitalize (w : string) : string :=
  match w with EmptyString => EmptyString | String c r => String (to_upper c) r end.
Definition capitalize_words (s : string) : string :=
  join_with " " (map capitalize (split_on " "%char s)).
Definition simple_name_char (c : ascii) : bool :=
  is_lower c || Ascii.eqb c "_"%char || Ascii.eqb c "-"%char.

(* ====================================================================== *)
(* 3. Jobs and the job controller (simple reading of DESIGN C08)            *)

Record job := mk_job { j_id : Z; j_name : string; j_file : string }.

(* queue: waiting jobs in order; current: the one executing queued job; background:
   registered background jobs, keyed by name (a Python dict: a second registration
   under the same name replaces the first in place) *)
Record jc := mk_jc { jc_queue : list job; jc_current : option job; jc_background : list job }.
Definition jc_empty : jc := mk_jc [] None [].

Definition jc_run_next (s : jc) : jc :=
  match jc_current s, jc_queue s with
  | None, h :: t => mk_jc t (Some h) (jc_background s)
  | _, _ => s
  end.
(* add_job appends and starts the head if nothing is executing *)
Definition jc_add (j : job) (s : jc) : jc :=
  jc_run_next (mk_jc (jc_queue s ++ [j]) (jc_current s) (jc_background s)).
Fixpoint bg_put (j : job) (l : list job) : list job :=
  match l with
  | [] => [j]
  | h :: t => if String.eqb (j_name h) (j_name j) then j :: t else h :: bg_put j t
  end.
(* spawn_job registers a background job, which starts at once *)
Definition jc_spawn (j : job) (s : jc) : jc :=
  mk_jc (jc_queue s) (jc_current s) (bg_put j (jc_background s)).
Definition named (name : string) (j : job) : bool := String.eqb (j_name j) name.
Definition jc_is_running (name : string) (s : jc) : bool :=
  match jc_current s with Some j => named name j | None => false end
  || existsb (named name) (jc_background s).
(* completion of the executing queued job: the next one starts *)
Definition jc_done_current (s : jc) : jc :=
  match jc_current s with
  | None => s
  | Some _ => jc_run_next (mk_jc (jc_queue s) None (jc_background s))
  end.
(* completion of the background job registered as [name] *)
Definition jc_done_background (name : string) (s : jc) : jc :=
  mk_jc (jc_queue s) (jc_current s) (filter (fun j => negb (named name j)) (jc_background s)).
Definition jc_clear (s : jc) : jc := mk_jc [] (jc_current s) (jc_background s).
(* who is asked to stop *)
Definition jc_stop_job_targets (name : string) (s : jc) : list job :=
  match jc_current s with
  | Some j => if named name j then [j]
              else match find (named name) (jc_background s) with Some b => [b] | None => [] end
  | None => match find (named name) (jc_background s) with Some b => [b] | None => [] end
  end.
Definition jc_stop_current_targets (s : jc) : list job :=
  match jc_current s with Some j => [j] | None => [] end.
Definition jc_stop_background_targets (s : jc) : list job := jc_background s.

Definition jc_jobs (s : jc) : list job :=
  jc_queue s ++ (match jc_current s with Some j => [j] | None => [] end) ++ jc_background s.

(* what a request does to the controller, in order *)
Inductive effect :=
| EAdd (j : job)            (* add_job: queued *)
| ESpawn (j : job)          (* spawn_job: background *)
| EStop (j : job)           (* request_stop on that job *)
| EClear                    (* clear_queue *)
| ESnapshot.                (* the capture file is written *)

Inductive event :=
| Request (url agent : string)        (* GET url, with that User-Agent header *)
| DoneCurrent                         (* the executing queued job finishes *)
| DoneBackground (name : string).     (* the background job registered as name finishes *)

(* ====================================================================== *)
(* 4. Requests                                                              *)

Inductive route :=
| RtIndex | RtCapture | RtOff | RtStatus | RtStop (p : string) | RtStopCurrent | RtStopAll
| RtRun (p : string) | RtNone.

Definition slash : ascii := "/"%char.
(* "/a/b" -> Some [a; b]; "/" -> Some []; no leading slash -> None *)
Definition url_parts (url : string) : option (list string) :=
  match url with
  | String c rest =>
      if Ascii.eqb c slash then
        match rest with EmptyString => Some [] | _ => Some (split_on slash rest) end
      else None
  | EmptyString => None
  end.

(* The pages with a fixed address come first; /stop/<p> stops p; any other single
   non-empty segment p is "a request for path p". *)
Definition classify (url : string) : route :=
  match url_parts url with
  | Some [] => RtIndex
  | Some [p] =>
      if String.eqb p "" then RtNone
      else if String.eqb p "capture" then RtCapture
      else if String.eqb p "off" then RtOff
      else if String.eqb p "status" then RtStatus
      else if String.eqb p "stop-current" then RtStopCurrent
      else if String.eqb p "stop-all" then RtStopAll
      else RtRun p
  | Some [s; p] => if String.eqb s "stop" && negb (String.eqb p "") then RtStop p else RtNone
  | _ => RtNone
  end.

(* ====================================================================== *)
(* 5. What a page is handed                                                 *)

Record view := mk_view {
  w_file : string; w_path : string; w_title : string; w_background : string; w_color : string;
  w_icon : string; w_run_bg : bool; w_running : bool }.

Inductive page :=
| PIndex (agent_class : string) (scripts : list view)
| PAction (agent_class : string) (script : view) (message : string)
| PStatus (agent_class : string) (background : list string) (current : option string) (queued : list string)
| PError (what : string)      (* an exception escapes the route *)
| PNotFound                   (* no route: 404, nothing is called *)
| PNone.                      (* not a request *)

Definition page_views (p : page) : list view :=
  match p with PIndex _ l => l | PAction _ v _ => [v] | _ => [] end.
Definition page_renders (p : page) : bool :=
  match p with PIndex _ _ | PAction _ _ _ | PStatus _ _ _ _ => true | _ => false end.

(* ====================================================================== *)
(* 6. The specification of the front end                                    *)

(* the script the manifest lists for p: the last entry whose path is p *)
Definition listed (m : manifest) (p : string) : option entry :=
  find (fun e => String.eqb (spec_path e) p) (rev m).

Fixpoint nodup_str (seen : list string) (l : list string) : list string :=
  match l with
  | [] => []
  | x :: r => if smem x seen then nodup_str seen r else x :: nodup_str (x :: seen) r
  end.
Definition listed_paths (m : manifest) : list string := nodup_str [] (map spec_path m).

(* the job of a listed entry is known to the controller under the escaped path *)
Definition spec_job_name (p : string) : string := html_escape p.

Definition spec_view (e : entry) (s : jc) : view :=
  mk_view (html_escape (e_file e)) (html_escape (spec_path e)) (html_escape (spec_title e))
          (html_escape (e_background e)) (html_escape (e_color e))
          (spec_icon e) (spec_run_bg e) (jc_is_running (spec_job_name (spec_path e)) s).

Definition spec_views (m : manifest) (s : jc) : list view :=
  flat_map (fun p => match listed m p with Some e => [spec_view e s] | None => [] end) (listed_paths m).

Record spec_state := mk_ss { ss_jobs : jc; ss_next : Z }.
Definition spec_init : spec_state := mk_ss jc_empty 0.

Record spec_obs := mk_so {
  so_effects : list effect;       (* exactly these, in this order *)
  so_views : list view;           (* every script object handed to a page is one of these *)
  so_must_render : bool }.        (* the request must yield a page *)

(* start the script of entry e, listed for p *)
Definition spec_start (e : entry) (st : spec_state) : spec_state * list effect :=
  let j := mk_job (ss_next st) (spec_job_name (spec_path e)) (e_file e) in
  if spec_run_bg e then (mk_ss (jc_spawn j (ss_jobs st)) (ss_next st + 1), [ESpawn j])
  else (mk_ss (jc_add j (ss_jobs st)) (ss_next st + 1), [EAdd j]).

Definition spec_request (m : manifest) (url : string) (st : spec_state) : spec_state * spec_obs :=
  let s := ss_jobs st in
  let views := spec_views m s in
  match classify url with
  | RtRun p =>
      match listed m p with
      | Some e =>
          if jc_is_running (spec_job_name p) s then (st, mk_so [] views false)
          else let '(st', eff) := spec_start e st in (st', mk_so eff views false)
      | None => (st, mk_so [] views false)
      end
  | RtOff =>
      (* not described by the statement; read as: stop what is executing, then run the
         entry listed for "off" (without one the outcome of the page is not specified) *)
      let stops := map EStop (jc_stop_current_targets s) in
      match listed m "off" with
      | Some e => let '(st', eff) := spec_start e st in (st', mk_so (stops ++ eff) views false)
      | None => (st, mk_so stops views false)
      end
  | RtStop p =>
      match listed m p with
      | Some e =>
          if jc_is_running (spec_job_name p) s
          then (st, mk_so (map EStop (jc_stop_job_targets (spec_job_name p) s)) views false)
          else (st, mk_so [] views false)
      | None => (st, mk_so [] views false)
      end
  | RtStopCurrent => (st, mk_so (map EStop (jc_stop_current_targets s)) views false)
  | RtStopAll =>
      (mk_ss (jc_clear s) (ss_next st),
       mk_so (EClear :: map EStop (jc_stop_current_targets s) ++ map EStop (jc_stop_background_targets s)) views false)
  | RtStatus => (st, mk_so [] views true)
  | RtCapture => (st, mk_so [ESnapshot] views true)
  | RtIndex => (st, mk_so [] views false)
  | RtNone => (st, mk_so [] views false)
  end.

Definition spec_step (m : manifest) (ev : event) (st : spec_state) : spec_state * spec_obs :=
  match ev with
  | Request url _ => spec_request m url st
  | DoneCurrent => (mk_ss (jc_done_current (ss_jobs st)) (ss_next st), mk_so [] [] false)
  | DoneBackground name => (mk_ss (jc_done_background name (ss_jobs st)) (ss_next st), mk_so [] [] false)
  end.

Fixpoint spec_run_from (m : manifest) (evs : list event) (st : spec_state) : list spec_obs :=
  match evs with
  | [] => []
  | ev :: r => let '(st', o) := spec_step m ev st in o :: spec_run_from m r st'
  end.
Definition spec_run (m : manifest) (evs : list event) : list spec_obs := spec_run_from m evs spec_init.

Fixpoint spec_state_after (m : manifest) (evs : list event) (st : spec_state) : spec_state :=
  match evs with
  | [] => st
  | ev :: r => spec_state_after m r (fst (spec_step m ev st))
  end.
