(* Proofs about Web/Html.v, Web/WebSpec.v and Web/WebApp.v (C20).  Independent of Gen/*:
   the theorems are stated for any variant / route table equal to the repaired variant /
   the modelled table; Web/WebTie.v instantiates them with what the translator read off
   the source. *)
From Coq Require Import ZArith String Ascii List Bool Arith Lia.
From Bardolph Require Import Base.PyStr Web.Html Web.WebSpec Web.WebApp.
Open Scope string_scope.
Open Scope list_scope.
Import ListNotations.
Open Scope Z_scope.
Open Scope bool_scope.

(* ====================================================================== *)
(* A. html.escape                                                           *)

Lemma sapp_assoc a : forall b c, String.append a (String.append b c) = String.append (String.append a b) c.
Proof. induction a as [|x a IH]; intros b c; cbn [String.append]; [reflexivity|]. now rewrite IH. Qed.

Lemma sapp_nil_r a : String.append a EmptyString = a.
Proof. induction a as [|x a IH]; cbn [String.append]; [reflexivity|]. now rewrite IH. Qed.

Lemma sapp_length a : forall b, String.length (String.append a b) = (String.length a + String.length b)%nat.
Proof. induction a as [|x a IH]; intros b; cbn [String.append String.length]; [reflexivity|]. now rewrite IH. Qed.

Lemma replace_char_app c rep a b :
  replace_char c rep (String.append a b) = String.append (replace_char c rep a) (replace_char c rep b).
Proof.
  induction a as [|x a IH]; cbn [String.append replace_char]; [reflexivity|].
  destruct (Ascii.eqb x c).
  - rewrite IH. apply sapp_assoc.
  - cbn [String.append]. now rewrite IH.
Qed.

Lemma html_escape_cons a r : html_escape (String a r) = String.append (escape_char a) (html_escape r).
Proof.
  unfold html_escape, escape_char.
  cbn [replace_char].
  destruct (Ascii.eqb_spec a c_amp) as [->|Hamp].
  { rewrite !replace_char_app. reflexivity. }
  cbn [replace_char].
  destruct (Ascii.eqb_spec a c_lt) as [->|Hlt].
  { rewrite !replace_char_app. reflexivity. }
  cbn [replace_char].
  destruct (Ascii.eqb_spec a c_gt) as [->|Hgt].
  { rewrite !replace_char_app. reflexivity. }
  cbn [replace_char].
  destruct (Ascii.eqb_spec a c_dq) as [->|Hdq].
  { rewrite !replace_char_app. reflexivity. }
  cbn [replace_char].
  destruct (Ascii.eqb_spec a c_sq) as [->|Hsq].
  { reflexivity. }
  reflexivity.
Qed.

Lemma html_escape_one_pass s : html_escape s = escape_chars s.
Proof.
  induction s as [|a r IH]; [reflexivity|].
  rewrite html_escape_cons. cbn [escape_chars]. now rewrite IH.
Qed.

(* the shape of one escaped character *)
Lemma escape_char_cases c :
  (c = c_amp /\ escape_char c = "&amp;") \/ (c = c_lt /\ escape_char c = "&lt;") \/
  (c = c_gt /\ escape_char c = "&gt;") \/ (c = c_dq /\ escape_char c = "&quot;") \/
  (c = c_sq /\ escape_char c = "&#x27;") \/
  (c <> c_amp /\ is_meta c = false /\ escape_char c = String c EmptyString).
Proof.
  unfold escape_char, is_meta, metachars. cbn [existsb].
  destruct (Ascii.eqb_spec c c_amp); [left; auto|].
  destruct (Ascii.eqb_spec c c_lt); [right; left; auto|].
  destruct (Ascii.eqb_spec c c_gt); [right; right; left; auto|].
  destruct (Ascii.eqb_spec c c_dq); [right; right; right; left; auto|].
  destruct (Ascii.eqb_spec c c_sq); [right; right; right; right; left; auto|].
  right; right; right; right; right. auto.
Qed.

Lemma well_escaped_escape s : well_escaped (html_escape s) = true.
Proof.
  induction s as [|c r IH]; [reflexivity|].
  rewrite html_escape_cons.
  destruct (escape_char_cases c) as [[_ ->]|[[_ ->]|[[_ ->]|[[_ ->]|[[_ ->]|[Hamp [Hmeta ->]]]]]]];
    cbn [String.append]; try (cbn; exact IH).
  cbn [well_escaped].
  destruct (Ascii.eqb_spec c c_amp) as [E|_]; [contradiction|].
  rewrite Hmeta. cbn. exact IH.
Qed.

Lemma prefixb_substring e : forall t, prefixb e t = true -> String.substring 0 (String.length e) t = e.
Proof.
  induction e as [|a e IH]; intros t H; cbn [String.length].
  - destruct t; reflexivity.
  - destruct t as [|b t]; cbn [prefixb] in H; [discriminate|].
    apply andb_true_iff in H. destruct H as [Hab Hp].
    apply Ascii.eqb_eq in Hab. subst b. cbn [String.substring]. now rewrite (IH t Hp).
Qed.

Lemma well_escaped_sound t : well_escaped t = true -> escaped_ok t.
Proof.
  induction t as [|a t IH]; intros H i c Hget.
  - destruct i; discriminate.
  - cbn [well_escaped] in H. apply andb_true_iff in H. destruct H as [Ha Ht].
    destruct i as [|i]; cbn [String.get] in Hget.
    + inversion Hget. subst c. clear Hget.
      destruct (Ascii.eqb_spec a c_amp) as [->|Hne].
      * split.
        { cbn. intros [E|[E|[E|[E|[]]]]]; discriminate. }
        intros _. apply existsb_exists in Ha. destruct Ha as [e [Hin Hp]].
        exists e. split; [exact Hin|]. apply prefixb_substring. exact Hp.
      * split; [|intros E; contradiction].
        apply negb_true_iff in Ha. intros Hin.
        assert (is_meta a = true) as E.
        { unfold is_meta. apply existsb_exists. exists a. split; [exact Hin|apply Ascii.eqb_refl]. }
        congruence.
    + destruct (IH Ht i c Hget) as [H1 H2]. split; [exact H1|].
      intros E. destruct (H2 E) as [e [Hin Hs]]. exists e. split; [exact Hin|].
      cbn [String.substring]. exact Hs.
Qed.

(* the property's sentence: an escaped string contains no less-than, greater-than, double or single quote character, and every
   ampersand in it starts one of the five entities *)
Theorem escaped_no_metachar : forall s, escaped_ok (html_escape s).
Proof. intros s. apply well_escaped_sound. apply well_escaped_escape. Qed.

Lemma unescape_cons c r : unescape_from 0 (String.append (escape_char c) r) = String c (unescape_from 0 r).
Proof.
  destruct (escape_char_cases c) as [[-> ->]|[[-> ->]|[[-> ->]|[[-> ->]|[[-> ->]|[Hamp [_ ->]]]]]]];
    try reflexivity.
  cbn [String.append unescape_from].
  assert (forall e t, prefixb (String c_amp e) (String c t) = false) as Hp.
  { intros e t. cbn [prefixb]. destruct (Ascii.eqb_spec c_amp c) as [E|_]; [symmetry in E; contradiction|reflexivity]. }
  unfold c_amp in Hp.
  rewrite !Hp. reflexivity.
Qed.

Theorem unescape_escape : forall s, html_unescape (html_escape s) = s.
Proof.
  unfold html_unescape. induction s as [|c r IH]; [reflexivity|].
  rewrite html_escape_cons, unescape_cons, IH. reflexivity.
Qed.

Theorem escape_injective : forall s t, html_escape s = html_escape t -> s = t.
Proof.
  intros s t H. rewrite <- (unescape_escape s), <- (unescape_escape t), H. reflexivity.
Qed.

Lemma is_meta_false_not_in c : is_meta c = false -> ~ In c metachars.
Proof.
  intros H Hin. assert (is_meta c = true); [|congruence].
  unfold is_meta. apply existsb_exists. exists c. split; [exact Hin|apply Ascii.eqb_refl].
Qed.

(* a string without markup characters is left as it is *)
Lemma escape_plain s :
  (forall i c, String.get i s = Some c -> c <> c_amp /\ ~ In c metachars) -> html_escape s = s.
Proof.
  induction s as [|a r IH]; intros H; [reflexivity|].
  rewrite html_escape_cons, IH.
  - destruct (H 0%nat a eq_refl) as [Hamp Hmeta].
    destruct (escape_char_cases a) as [[E _]|[[E _]|[[E _]|[[E _]|[[E _]|[_ [_ ->]]]]]]]; try (subst a; exfalso).
    + now apply Hamp.
    + apply Hmeta. cbn. auto.
    + apply Hmeta. cbn. auto.
    + apply Hmeta. cbn. auto.
    + apply Hmeta. cbn. auto 6.
    + reflexivity.
  - intros i c Hg. apply (H (S i) c). exact Hg.
Qed.

(* a string with a markup character is changed (so the pinned job name / file name differ) *)
Lemma escape_changes s i c :
  String.get i s = Some c -> (c = c_amp \/ In c metachars) -> html_escape s <> s.
Proof.
  intros Hg Hc E.
  assert (escaped_ok s) as Hok by (rewrite <- E; apply escaped_no_metachar).
  destruct (Hok i c Hg) as [Hnm Hamp].
  destruct Hc as [->|Hin]; [|contradiction].
  (* an ampersand of s starts an entity in s; but s = escape s, whose ampersands come doubled... use lengths *)
  clear Hnm Hamp Hok.
  assert (forall t, String.length t <= String.length (html_escape t))%nat as Hle.
  { induction t as [|a t IHt]; [cbn; lia|]. rewrite html_escape_cons.
    destruct (escape_char_cases a) as [[_ ->]|[[_ ->]|[[_ ->]|[[_ ->]|[[_ ->]|[_ [_ ->]]]]]]];
      cbn [String.append String.length]; lia. }
  assert (forall t j, String.get j t = Some c_amp -> String.length t < String.length (html_escape t))%nat as Hlt.
  { induction t as [|a t IHt]; intros j Hj; [destruct j; discriminate|].
    rewrite html_escape_cons. destruct j as [|j]; cbn [String.get] in Hj.
    - inversion Hj. subst a. change (escape_char c_amp) with "&amp;". cbn [String.append String.length]. specialize (Hle t). lia.
    - specialize (IHt j Hj).
      destruct (escape_char_cases a) as [[_ ->]|[[_ ->]|[[_ ->]|[[_ ->]|[[_ ->]|[_ [_ ->]]]]]]];
        cbn [String.append String.length]; lia. }
  specialize (Hlt s i Hg). rewrite E in Hlt. lia.
Qed.

(* ====================================================================== *)
(* B. default path and title                                                *)

Lemma substring_prefix b : forall x, String.substring 0 (String.length b) (String.append b x) = b.
Proof.
  induction b as [|c b IH]; intros x; cbn [String.length String.append String.substring].
  - destruct x; reflexivity.
  - now rewrite IH.
Qed.

Lemma substring_suffix b : forall x, String.substring (String.length b) (String.length x) (String.append b x) = x.
Proof.
  induction b as [|c b IH]; intros x; cbn [String.length String.append String.substring].
  - induction x as [|d x IHx]; cbn [String.length String.substring]; [reflexivity|]. now rewrite IHx.
  - apply IH.
Qed.

Lemma substring_split s : forall i, (i <= String.length s)%nat ->
  s = String.append (String.substring 0 i s) (String.substring i (String.length s - i) s).
Proof.
  induction s as [|c s IH]; intros i Hi; cbn [String.length] in *.
  - destruct i; [reflexivity|lia].
  - destruct i as [|i].
    + cbn [String.substring String.append Nat.sub]. f_equal.
      clear. induction s as [|d s IHs]; cbn [String.length String.substring]; [reflexivity|]. now rewrite <- IHs.
    + cbn [String.substring String.append Nat.sub]. f_equal. apply IH. lia.
Qed.

Lemma suffixb_intro b suf : suffixb suf (String.append b suf) = true.
Proof.
  unfold suffixb. rewrite sapp_length.
  replace (String.length b + String.length suf - String.length suf)%nat with (String.length b) by lia.
  rewrite substring_suffix. rewrite String.eqb_refl.
  apply andb_true_iff. split; [apply Nat.leb_le; lia|reflexivity].
Qed.

Lemma suffixb_elim suf s : suffixb suf s = true ->
  s = String.append (String.substring 0 (String.length s - String.length suf) s) suf.
Proof.
  unfold suffixb. intros H. apply andb_true_iff in H. destruct H as [Hle He].
  apply Nat.leb_le in Hle. apply String.eqb_eq in He.
  assert (String.length s - String.length suf <= String.length s)%nat as Hi by lia.
  pose proof (substring_split s _ Hi) as E.
  replace (String.length s - (String.length s - String.length suf))%nat with (String.length suf) in E by lia.
  rewrite He in E. exact E.
Qed.

(* declarative reading of "the file name without a final .ls" *)
Definition is_base_of (f b : string) : Prop :=
  (f = String.append b ".ls") \/ ((forall x, f <> String.append x ".ls") /\ b = f).

Lemma base_name_spec f : is_base_of f (base_name f).
Proof.
  unfold is_base_of, base_name. destruct (suffixb ".ls" f) eqn:H.
  - left. apply suffixb_elim in H. exact H.
  - right. split; [|reflexivity]. intros x E. subst f. rewrite suffixb_intro in H. discriminate.
Qed.

Lemma is_base_of_unique f b1 b2 : is_base_of f b1 -> is_base_of f b2 -> b1 = b2.
Proof.
  intros [E1|[N1 E1]] [E2|[N2 E2]].
  - subst f. assert (String.substring 0 (String.length b1) (String.append b1 ".ls") = String.substring 0 (String.length b1) (String.append b2 ".ls")) as E by now rewrite E2.
    rewrite substring_prefix in E.
    assert (String.length b1 = String.length b2) as L.
    { assert (String.length (String.append b1 ".ls") = String.length (String.append b2 ".ls")) as L by now rewrite E2.
      rewrite !sapp_length in L. lia. }
    rewrite L, substring_prefix in E. exact E.
  - exfalso. exact (N2 _ E1).
  - exfalso. exact (N1 _ E2).
  - congruence.
Qed.

Lemma strip_ls_app b : strip_ls (String.append b ".ls") = b.
Proof.
  induction b as [|c b IH]; [reflexivity|].
  cbn [String.append strip_ls].
  destruct (String.eqb_spec (String c (String.append b ".ls")) ".ls") as [E|_].
  - exfalso. assert (String.length (String c (String.append b ".ls")) = 3%nat) as L by now rewrite E.
    cbn [String.length] in L. rewrite sapp_length in L. cbn in L. lia.
  - now rewrite IH.
Qed.

Lemma strip_ls_id s : (forall x, s <> String.append x ".ls") -> strip_ls s = s.
Proof.
  induction s as [|c s IH]; intros H; [reflexivity|].
  cbn [strip_ls]. destruct (String.eqb_spec (String c s) ".ls") as [E|_].
  - exfalso. apply (H EmptyString). exact E.
  - rewrite IH; [reflexivity|]. intros x E. apply (H (String c x)). cbn [String.append]. now rewrite E.
Qed.

Lemma strip_ls_spec f : is_base_of f (strip_ls f).
Proof.
  destruct (base_name_spec f) as [E|[N _]].
  - left. remember (base_name f) as b eqn:Hb. clear Hb. subst f. now rewrite strip_ls_app.
  - right. split; [exact N|]. now apply strip_ls_id.
Qed.

Lemma strip_ls_base_name f : strip_ls f = base_name f.
Proof. apply (is_base_of_unique f); [apply strip_ls_spec|apply base_name_spec]. Qed.

Lemma get_script_path_spec e : get_script_path e = spec_path e.
Proof.
  unfold get_script_path, spec_path, cfg_get, given.
  destruct (e_path e) as [[|c p]|]; cbn [String.length Nat.eqb]; try apply strip_ls_base_name. reflexivity.
Qed.

(* ---------- characters ---------- *)

Lemma ascii_all (P : ascii -> Prop) :
  (forall b0 b1 b2 b3 b4 b5 b6 b7, P (Ascii b0 b1 b2 b3 b4 b5 b6 b7)) -> forall c, P c.
Proof. intros H [b0 b1 b2 b3 b4 b5 b6 b7]. apply H. Qed.

Ltac all_ascii :=
  let c := fresh "c" in
  intros c; destruct c as [[] [] [] [] [] [] [] []]; vm_compute; try reflexivity; try discriminate; auto.

Lemma lower_not_upper : forall c, is_lower c = true -> is_upper c = false.
Proof. all_ascii. Qed.
Lemma upper_not_lower : forall c, is_upper c = true -> is_lower c = false.
Proof. all_ascii. Qed.
Lemma to_upper_lower : forall c, is_lower c = true -> is_upper (to_upper c) = true.
Proof. all_ascii. Qed.
Lemma to_lower_upper : forall c, is_upper c = true -> is_lower (to_lower c) = true.
Proof. all_ascii. Qed.
Lemma to_upper_letter : forall c, is_letter (to_upper c) = is_letter c.
Proof. all_ascii. Qed.
Lemma to_lower_letter : forall c, is_letter (to_lower c) = is_letter c.
Proof. all_ascii. Qed.
Lemma to_upper_idem : forall c, to_upper (to_upper c) = to_upper c.
Proof. all_ascii. Qed.
Lemma to_lower_idem : forall c, to_lower (to_lower c) = to_lower c.
Proof. all_ascii. Qed.
Lemma spaced_letter : forall c, is_letter (spaced_char c) = is_letter c.
Proof. all_ascii. Qed.
Lemma spaced_of_letter : forall c, is_letter c = true -> spaced_char c = c.
Proof. all_ascii. Qed.
Lemma spaced_idem : forall c, spaced_char (spaced_char c) = spaced_char c.
Proof. all_ascii. Qed.

Definition prev_cased (prev : option ascii) : bool :=
  match prev with Some p => is_letter p | None => false end.

Lemma title_aux_spec s : forall prev, title_aux (prev_cased prev) s = title_from prev s.
Proof.
  induction s as [|c s IH]; intros prev; [reflexivity|].
  cbn [title_aux title_from]. rewrite <- (IH (Some c)). cbn [prev_cased].
  unfold title_char, is_letter.
  destruct (is_lower c) eqn:Hl.
  - rewrite (lower_not_upper c Hl). cbn [orb]. f_equal.
    unfold to_lower. rewrite (lower_not_upper c Hl).
    destruct prev as [p|]; cbn [prev_cased]; [unfold is_letter; destruct (is_upper p || is_lower p)|]; reflexivity.
  - destruct (is_upper c) eqn:Hu; cbn [orb]; [|reflexivity]. f_equal.
    unfold to_upper. rewrite Hl.
    destruct prev as [p|]; cbn [prev_cased]; [unfold is_letter; destruct (is_upper p || is_lower p)|]; reflexivity.
Qed.

(* str.title() is the documented capitalisation *)
Lemma str_title_spec s : str_title s = title_from None s.
Proof. exact (title_aux_spec s None). Qed.

Lemma replace_spaced s : replace_char "-"%char " " (replace_char "_"%char " " s) = str_map spaced_char s.
Proof.
  induction s as [|c s IH]; [reflexivity|].
  cbn [replace_char str_map]. unfold spaced_char.
  destruct (Ascii.eqb_spec c "_"%char) as [->|H1].
  - cbn [String.append replace_char orb]. cbn. f_equal. exact IH.
  - cbn [replace_char orb]. destruct (Ascii.eqb_spec c "-"%char) as [->|H2].
    + cbn [String.append]. f_equal. exact IH.
    + f_equal. exact IH.
Qed.

Lemma get_script_title_spec e : get_script_title e = spec_title e.
Proof.
  unfold get_script_title, spec_title, cfg_get, given.
  destruct (e_title e) as [[|c t]|]; cbn [String.length Nat.eqb]; try reflexivity;
    rewrite replace_spaced, str_title_spec, get_script_path_spec; reflexivity.
Qed.

(* position-wise reading of the capitalisation *)
Lemma title_from_length s : forall prev, String.length (title_from prev s) = String.length s.
Proof. induction s as [|c s IH]; intros prev; cbn [title_from String.length]; [reflexivity|]. now rewrite IH. Qed.

Lemma title_from_get s : forall prev i c,
  String.get i s = Some c ->
  String.get i (title_from prev s) =
    Some (title_char (match i with O => prev | S j => String.get j s end) c).
Proof.
  induction s as [|a s IH]; intros prev i c Hg; [destruct i; discriminate|].
  destruct i as [|i]; cbn [String.get title_from] in *.
  - inversion Hg. reflexivity.
  - rewrite (IH (Some a) i c Hg). destruct i; reflexivity.
Qed.

(* letters stay letters, everything else is untouched *)
Lemma title_char_letter prev c : is_letter (title_char prev c) = is_letter c.
Proof.
  unfold title_char. destruct (is_letter c) eqn:H; [|exact H].
  destruct prev as [p|]; [destruct (is_letter p)|]; now rewrite ?to_upper_letter, ?to_lower_letter.
Qed.

Lemma title_char_prev_ext p1 p2 c : prev_cased p1 = prev_cased p2 -> title_char p1 c = title_char p2 c.
Proof.
  intros H. unfold title_char. destruct (is_letter c); [|reflexivity].
  destruct p1 as [a|], p2 as [b|]; cbn [prev_cased] in H.
  - rewrite H. reflexivity.
  - rewrite H. reflexivity.
  - rewrite <- H. reflexivity.
  - reflexivity.
Qed.

Lemma title_char_idem prev prev' c :
  prev_cased prev' = prev_cased prev -> title_char prev' (title_char prev c) = title_char prev c.
Proof.
  intros Hp. unfold title_char at 1. rewrite title_char_letter.
  unfold title_char. destruct (is_letter c) eqn:H; [|reflexivity].
  destruct prev as [p|], prev' as [p'|]; cbn [prev_cased] in Hp.
  - rewrite Hp. destruct (is_letter p); now rewrite ?to_upper_idem, ?to_lower_idem.
  - rewrite <- Hp. apply to_upper_idem.
  - rewrite Hp. apply to_upper_idem.
  - apply to_upper_idem.
Qed.

Lemma title_from_idem s : forall prev prev',
  prev_cased prev' = prev_cased prev -> title_from prev' (title_from prev s) = title_from prev s.
Proof.
  induction s as [|c s IH]; intros prev prev' Hp; [reflexivity|].
  cbn [title_from]. rewrite (title_char_idem prev prev' c Hp). f_equal.
  apply IH. cbn [prev_cased]. apply title_char_letter.
Qed.

Theorem str_title_idempotent : forall s, str_title (str_title s) = str_title s.
Proof. intros s. rewrite !str_title_spec. now apply title_from_idem. Qed.

Lemma spaced_title_char prev c :
  spaced_char (title_char prev c) = title_char prev (spaced_char c).
Proof.
  unfold title_char at 2. rewrite spaced_letter.
  unfold title_char. destruct (is_letter c) eqn:H.
  - rewrite (spaced_of_letter c H).
    destruct prev as [p|]; [destruct (is_letter p)|]; apply spaced_of_letter;
      now rewrite ?to_upper_letter, ?to_lower_letter.
  - reflexivity.
Qed.

Lemma spaced_title_from s : forall prev prev',
  prev_cased prev' = prev_cased prev ->
  str_map spaced_char (title_from prev s) = title_from prev' (str_map spaced_char s).
Proof.
  induction s as [|c s IH]; intros prev prev' Hp; [reflexivity|].
  cbn [title_from str_map]. rewrite spaced_title_char. f_equal.
  - apply title_char_prev_ext. now symmetry.
  - apply IH. cbn [prev_cased]. now rewrite spaced_letter.
Qed.

Lemma str_map_spaced_idem s : str_map spaced_char (str_map spaced_char s) = str_map spaced_char s.
Proof. induction s as [|c s IH]; cbn [str_map]; [reflexivity|]. now rewrite spaced_idem, IH. Qed.

(* deriving a title from a derived title changes nothing *)
Theorem default_title_idempotent : forall name,
  spec_default_title (spec_default_title name) = spec_default_title name.
Proof.
  intros name. unfold spec_default_title.
  rewrite (spaced_title_from _ None None eq_refl), str_map_spaced_idem.
  now apply title_from_idem.
Qed.

(* a derived title contains neither underscore nor dash *)
Theorem default_title_no_separator : forall name i c,
  String.get i (spec_default_title name) = Some c -> c <> "_"%char /\ c <> "-"%char.
Proof.
  intros name i c Hg.
  assert (str_map spaced_char (spec_default_title name) = spec_default_title name) as E.
  { unfold spec_default_title. now rewrite (spaced_title_from _ None None eq_refl), str_map_spaced_idem. }
  assert (forall t j d, String.get j (str_map spaced_char t) = Some d -> d <> "_"%char /\ d <> "-"%char) as H.
  { induction t as [|a t IHt]; intros j d Hj; [destruct j; discriminate|].
    destruct j as [|j]; cbn [str_map String.get] in Hj.
    - inversion Hj. clear. revert a. all_ascii; split; discriminate.
    - exact (IHt j d Hj). }
  rewrite <- E in Hg. exact (H _ _ _ Hg).
Qed.

(* ---------- the literal reading of the documentation on simple names ---------- *)

Lemma split_on_nonempty sep s : split_on sep s <> [].
Proof.
  destruct s as [|c s]; cbn [split_on]; [discriminate|].
  destruct (Ascii.eqb c sep); [discriminate|]. destruct (split_on sep s); discriminate.
Qed.

Lemma join_cons_char a w ws : join_with " " (String a w :: ws) = String a (join_with " " (w :: ws)).
Proof. destruct ws; reflexivity. Qed.

Definition lower_or_space (c : ascii) : bool := is_lower c || Ascii.eqb c " "%char.

Lemma lower_or_space_cases : forall c, lower_or_space c = true ->
  (c = " "%char) \/ (is_lower c = true /\ is_letter c = true /\ to_lower c = c /\ Ascii.eqb c " "%char = false).
Proof. all_ascii. Qed.

Lemma title_words t :
  all_chars lower_or_space t = true ->
  title_from (Some " "%char) t = capitalize_words t /\
  title_from None t = capitalize_words t /\
  forall p, is_letter p = true ->
    title_from (Some p) t =
      join_with " " (match split_on " "%char t with w :: ws => w :: map capitalize ws | [] => [] end).
Proof.
  induction t as [|c t IH]; intros H.
  - repeat split; reflexivity.
  - cbn [all_chars] in H. apply andb_true_iff in H. destruct H as [Hc Ht].
    destruct (IH Ht) as [IH1 [IH2 IH3]].
    destruct (lower_or_space_cases c Hc) as [->|[Hl [Hlet [Hlow Hsp]]]].
    + (* a space: a new word starts *)
      assert (forall prev, title_from prev (String " "%char t) = String " "%char (capitalize_words t)) as E.
      { intros prev. cbn [title_from]. rewrite IH1. reflexivity. }
      assert (capitalize_words (String " "%char t) = String " "%char (capitalize_words t)) as E2.
      { unfold capitalize_words. cbn [split_on]. cbn [Ascii.eqb Bool.eqb]. cbn [map capitalize].
        destruct (split_on " "%char t) eqn:Hs; [exfalso; exact (split_on_nonempty _ _ Hs)|]. reflexivity. }
      repeat split.
      * now rewrite E, E2.
      * now rewrite E, E2.
      * intros p Hp. rewrite E. unfold capitalize_words. cbn [split_on]. cbn [Ascii.eqb Bool.eqb].
        destruct (split_on " "%char t) eqn:Hs; [exfalso; exact (split_on_nonempty _ _ Hs)|]. reflexivity.
    + (* a letter *)
      assert (split_on " "%char (String c t) =
              match split_on " "%char t with w :: ws => String c w :: ws | [] => [String c EmptyString] end) as Es.
      { cbn [split_on]. now rewrite Hsp. }
      destruct (split_on " "%char t) as [|w ws] eqn:Hs; [exfalso; exact (split_on_nonempty _ _ Hs)|].
      assert (title_from (Some c) t = join_with " " (w :: map capitalize ws)) as E3 by (now apply IH3).
      assert (capitalize_words (String c t) = String (to_upper c) (join_with " " (w :: map capitalize ws))) as E2.
      { unfold capitalize_words. rewrite Es. cbn [map capitalize]. apply join_cons_char. }
      repeat split.
      * cbn [title_from]. rewrite E3, E2. f_equal. unfold title_char. now rewrite Hlet.
      * cbn [title_from]. rewrite E3, E2. f_equal. unfold title_char. now rewrite Hlet.
      * intros p Hp. cbn [title_from]. rewrite E3, Es. rewrite join_cons_char. f_equal.
        unfold title_char. now rewrite Hlet, Hp.
Qed.

Lemma simple_spaced : forall c, simple_name_char c = true -> lower_or_space (spaced_char c) = true.
Proof. all_ascii. Qed.

(* for names made of lower-case letters, underscores and dashes (the documented examples)
   the title is: dashes and underscores become spaces, each word gets a capital *)
Theorem default_title_simple_names : forall name,
  all_chars simple_name_char name = true ->
  spec_default_title name = capitalize_words (str_map spaced_char name).
Proof.
  intros name H. unfold spec_default_title.
  apply (title_words (str_map spaced_char name)).
  induction name as [|c s IH]; [reflexivity|].
  cbn [all_chars str_map] in *. apply andb_true_iff in H. destruct H as [Hc Hs].
  rewrite (simple_spaced c Hc). now apply IH.
Qed.

(* ====================================================================== *)
(* C. URL resolution over the blueprint's rules = the classification        *)

Lemma parsed_modelled :
  let rules := parsed_rules modelled_route_table in
  filter (fun r => is_static (fst r)) rules ++ filter (fun r => negb (is_static (fst r))) rules =
  [([], "index"); ([SegStatic "capture"], "capture"); ([SegStatic "off"], "off");
   ([SegStatic "status"], "status"); ([SegStatic "stop-current"], "stop_current");
   ([SegStatic "stop-all"], "stop_all");
   ([SegStatic "stop"; SegParam], "stop_script"); ([SegParam], "run_script")].
Proof. reflexivity. Qed.

Theorem dispatch_classify : forall url, dispatch modelled_route_table url = classify url.
Proof.
  intros url. unfold dispatch, resolve, classify.
  destruct (url_parts url) as [parts|]; [|reflexivity].
  rewrite parsed_modelled.
  destruct parts as [|p [|q [|r l]]].
  - reflexivity.
  - cbn [first_match match_segs].
    destruct (String.eqb_spec p "") as [->|Hne]; [reflexivity|].
    destruct (String.eqb p "capture"); [reflexivity|].
    destruct (String.eqb p "off"); [reflexivity|].
    destruct (String.eqb p "status"); [reflexivity|].
    destruct (String.eqb p "stop-current"); [reflexivity|].
    destruct (String.eqb p "stop-all"); [reflexivity|].
    destruct (String.eqb p "stop"); reflexivity.
  - cbn [first_match match_segs].
    destruct (String.eqb p "capture"), (String.eqb p "off"), (String.eqb p "status"),
             (String.eqb p "stop-current"), (String.eqb p "stop-all"), (String.eqb p "stop"), (String.eqb q ""),
             (String.eqb p "");
      reflexivity.
  - cbn [first_match match_segs].
    destruct (String.eqb p "capture"), (String.eqb p "off"), (String.eqb p "status"),
             (String.eqb p "stop-current"), (String.eqb p "stop-all"), (String.eqb p "stop"), (String.eqb q ""),
             (String.eqb p "");
      reflexivity.
Qed.

(* a requested path is one non-empty segment without a slash *)
Lemma split_on_no_sep sep s : forall w, In w (split_on sep s) -> forall i, String.get i w <> Some sep.
Proof.
  induction s as [|c s IH]; intros w Hin i; cbn [split_on] in Hin.
  - destruct Hin as [<-|[]]. destruct i; discriminate.
  - destruct (Ascii.eqb_spec c sep) as [->|Hne].
    + destruct Hin as [<-|Hin]; [destruct i; discriminate|]. now apply IH.
    + destruct (split_on sep s) as [|w0 ws] eqn:Hs.
      * destruct Hin as [<-|[]]. destruct i as [|[|i]]; cbn; congruence.
      * destruct Hin as [<-|Hin].
        -- destruct i as [|i]; cbn [String.get]; [congruence|]. apply IH. now left.
        -- apply IH. now right.
Qed.

Lemma split_on_single sep s : forall p, split_on sep s = [p] -> s = p.
Proof.
  induction s as [|a s IH]; intros p H; cbn [split_on] in H.
  - now inversion H.
  - destruct (Ascii.eqb a sep).
    + inversion H. exfalso. eapply split_on_nonempty. eassumption.
    + destruct (split_on sep s) as [|w ws] eqn:Hw; [exfalso; exact (split_on_nonempty _ _ Hw)|].
      inversion H. subst. f_equal. now apply IH.
Qed.

Lemma classify_run_path url p : classify url = RtRun p ->
  url = String slash p /\ p <> "" /\ forall i, String.get i p <> Some slash.
Proof.
  unfold classify, url_parts. destruct url as [|c rest]; [discriminate|].
  destruct (Ascii.eqb_spec c slash) as [->|]; [|discriminate].
  destruct rest as [|d rest']; [discriminate|].
  remember (String d rest') as rest eqn:Hr.
  destruct (split_on slash rest) as [|p0 [|q [|r l]]] eqn:Hs; try discriminate.
  - destruct (String.eqb_spec p0 ""); [discriminate|].
    destruct (String.eqb p0 "capture"); [discriminate|].
    destruct (String.eqb p0 "off"); [discriminate|].
    destruct (String.eqb p0 "status"); [discriminate|].
    destruct (String.eqb p0 "stop-current"); [discriminate|].
    destruct (String.eqb p0 "stop-all"); [discriminate|].
    intros E. inversion E. subst p0. clear E.
    clear Hr. pose proof (split_on_single _ _ _ Hs) as Hr. subst rest.
    split; [reflexivity|]. split; [exact n|].
    apply (split_on_no_sep slash p p). rewrite Hs. now left.
  - destruct (String.eqb p0 "stop" && negb (String.eqb q "")); discriminate.
Qed.

(* ====================================================================== *)
(* D. the table built from the manifest                                     *)

Lemma dict_get_put {V} k k' (v : V) d :
  dict_get k (dict_put k' v d) = if String.eqb k' k then Some v else dict_get k d.
Proof.
  induction d as [|[k0 v0] d IH]; cbn [dict_put dict_get]; [reflexivity|].
  destruct (String.eqb_spec k0 k') as [->|Hne]; cbn [dict_get].
  - destruct (String.eqb k' k); reflexivity.
  - rewrite IH. destruct (String.eqb_spec k0 k) as [->|]; [|reflexivity].
    destruct (String.eqb_spec k' k) as [->|]; [contradiction|reflexivity].
Qed.

Lemma find_app {A} (f : A -> bool) l1 l2 :
  find f (l1 ++ l2) = match find f l1 with Some x => Some x | None => find f l2 end.
Proof. induction l1 as [|a l1 IH]; cbn [app find]; [reflexivity|]. destruct (f a); [reflexivity|exact IH]. Qed.

Lemma find_ext {A} (f g : A -> bool) l : (forall a, f a = g a) -> find f l = find g l.
Proof. intros H. induction l as [|a l IH]; cbn [find]; [reflexivity|]. rewrite H, IH. reflexivity. Qed.

Lemma fold_put_get {E V} (key : E -> string) (val : E -> V) m : forall d0 k,
  dict_get k (fold_left (fun d e => dict_put (key e) (val e) d) m d0) =
  match find (fun e => String.eqb (key e) k) (rev m) with
  | Some e => Some (val e)
  | None => dict_get k d0
  end.
Proof.
  induction m as [|e m IH]; intros d0 k; cbn [fold_left rev]; [reflexivity|].
  rewrite IH, find_app. destruct (find _ (rev m)); [reflexivity|].
  rewrite dict_get_put. cbn [find]. destruct (String.eqb (key e) k); reflexivity.
Qed.

Lemma load_get m p : dict_get p (load_manifest m) = option_map control_of (listed m p).
Proof.
  unfold load_manifest, listed. rewrite fold_put_get. cbn [dict_get].
  rewrite (find_ext (fun e => String.eqb (get_script_path e) p) (fun e => String.eqb (spec_path e) p)).
  - destruct (find _ (rev m)); reflexivity.
  - intros e. now rewrite get_script_path_spec.
Qed.

Lemma listed_some m p e : listed m p = Some e -> In e m /\ spec_path e = p.
Proof.
  unfold listed. intros H. apply find_some in H. destruct H as [Hin He].
  split; [now apply in_rev|now apply String.eqb_eq].
Qed.

Lemma listed_none m p : listed m p = None -> forall e, In e m -> spec_path e <> p.
Proof.
  unfold listed. intros H e Hin E.
  assert (In e (rev m)) as Hr by (now apply in_rev in Hin).
  pose proof (find_none _ _ H e Hr) as Hf. cbn beta in Hf.
  subst p. now rewrite String.eqb_refl in Hf.
Qed.

Definition keys {V} (d : list (string * V)) : list string := map fst d.

Lemma smem_app x l1 l2 : smem x (l1 ++ l2) = smem x l1 || smem x l2.
Proof. unfold smem. apply existsb_app. Qed.

Lemma smem_In x l : smem x l = true <-> In x l.
Proof.
  unfold smem. rewrite existsb_exists. split.
  - intros [y [Hin E]]. apply String.eqb_eq in E. now subst.
  - intros H. exists x. split; [exact H|apply String.eqb_refl].
Qed.

Lemma keys_put {V} k (v : V) d :
  keys (dict_put k v d) = if smem k (keys d) then keys d else keys d ++ [k].
Proof.
  induction d as [|[k0 v0] d IH]; cbn [dict_put keys map fst smem existsb]; [reflexivity|].
  rewrite (String.eqb_sym k k0).
  destruct (String.eqb_spec k0 k) as [->|Hne]; cbn [orb map fst].
  - reflexivity.
  - fold (keys (dict_put k v d)). fold (keys d). rewrite IH. fold (smem k (keys d)).
    destruct (smem k (keys d)); reflexivity.
Qed.

Lemma nodup_str_ext l : forall s1 s2, (forall x, smem x s1 = smem x s2) -> nodup_str s1 l = nodup_str s2 l.
Proof.
  induction l as [|x l IH]; intros s1 s2 H; cbn [nodup_str]; [reflexivity|].
  rewrite (H x). destruct (smem x s2); [now apply IH|].
  f_equal. apply IH. intros y. unfold smem. cbn [existsb]. f_equal. apply H.
Qed.

Lemma fold_put_keys {E V} (key : E -> string) (val : E -> V) m : forall d0,
  keys (fold_left (fun d e => dict_put (key e) (val e) d) m d0) =
  keys d0 ++ nodup_str (keys d0) (map key m).
Proof.
  induction m as [|e m IH]; intros d0; cbn [fold_left map nodup_str]; [now rewrite app_nil_r|].
  rewrite IH, keys_put. destruct (smem (key e) (keys d0)) eqn:Hm; [reflexivity|].
  rewrite <- app_assoc. cbn [app]. f_equal. f_equal.
  apply nodup_str_ext. intros x. rewrite smem_app. unfold smem. cbn [existsb]. rewrite orb_false_r. apply orb_comm.
Qed.

Lemma nodup_str_props l : forall seen,
  NoDup (nodup_str seen l) /\ forall x, In x (nodup_str seen l) -> smem x seen = false /\ In x l.
Proof.
  induction l as [|a l IH]; intros seen; cbn [nodup_str].
  - split; [constructor|intros x []].
  - destruct (smem a seen) eqn:Ha.
    + destruct (IH seen) as [H1 H2]. split; [exact H1|]. intros x Hx. destruct (H2 x Hx). split; [assumption|now right].
    + destruct (IH (a :: seen)) as [H1 H2]. split.
      * constructor; [|exact H1]. intros Hin. destruct (H2 a Hin) as [Hs _].
        unfold smem in Hs. cbn [existsb] in Hs. now rewrite String.eqb_refl in Hs.
      * intros x [<-|Hx]; [split; [exact Ha|now left]|].
        destruct (H2 x Hx) as [Hs Hin]. split; [|now right].
        unfold smem in Hs. cbn [existsb] in Hs. now apply orb_false_iff in Hs.
Qed.

Lemma nodup_str_complete l : forall seen x, In x l -> smem x seen = false -> In x (nodup_str seen l).
Proof.
  induction l as [|a l IH]; intros seen x Hin Hs; [destruct Hin|].
  cbn [nodup_str]. destruct (String.eqb_spec x a) as [->|Hne].
  - rewrite Hs. now left.
  - destruct Hin as [->|Hin]; [contradiction|].
    destruct (smem a seen); [now apply IH|]. right. apply IH; [exact Hin|].
    unfold smem. cbn [existsb]. apply orb_false_iff. split; [now apply String.eqb_neq|exact Hs].
Qed.

Lemma load_keys m : keys (load_manifest m) = listed_paths m.
Proof.
  unfold load_manifest, listed_paths. rewrite fold_put_keys. cbn [keys map app]. f_equal.
  apply map_ext. intros e. apply get_script_path_spec.
Qed.

Lemma listed_paths_nodup m : NoDup (listed_paths m).
Proof. apply nodup_str_props. Qed.

Lemma listed_in_paths m p e : listed m p = Some e -> In p (listed_paths m).
Proof.
  intros H. apply listed_some in H. destruct H as [Hin <-].
  apply nodup_str_complete; [now apply in_map|reflexivity].
Qed.

Lemma flat_map_ext_in {A B} (f g : A -> list B) l : (forall a, In a l -> f a = g a) -> flat_map f l = flat_map g l.
Proof.
  induction l as [|a l IH]; intros H; cbn [flat_map]; [reflexivity|].
  rewrite (H a (or_introl eq_refl)), IH; [reflexivity|]. intros b Hb. apply H. now right.
Qed.

Lemma dict_canonical {V} (d : list (string * V)) : NoDup (keys d) ->
  d = flat_map (fun k => match dict_get k d with Some v => [(k, v)] | None => [] end) (keys d).
Proof.
  induction d as [|[k0 v0] d IH]; intros Hnd; [reflexivity|].
  cbn [keys map fst flat_map dict_get]. rewrite String.eqb_refl. cbn [app]. f_equal.
  inversion Hnd as [|? ? Hnotin Hnd']. subst.
  rewrite (IH Hnd') at 1. apply flat_map_ext_in. intros k Hk.
  destruct (String.eqb_spec k0 k) as [->|]; [contradiction|reflexivity].
Qed.

Lemma load_canonical m :
  load_manifest m =
  flat_map (fun p => match listed m p with Some e => [(p, control_of e)] | None => [] end) (listed_paths m).
Proof.
  rewrite (dict_canonical (load_manifest m)) at 1.
  - rewrite load_keys. apply flat_map_ext_in. intros p _. rewrite load_get. destruct (listed m p); reflexivity.
  - rewrite load_keys. apply listed_paths_nodup.
Qed.

Lemma view_of_control e s :
  view_of (control_of e) (jc_is_running (c_path (control_of e)) s) = spec_view e s.
Proof.
  unfold view_of, control_of, new_control, spec_view, spec_job_name, spec_run_bg, spec_icon.
  cbn [c_file c_path c_title c_background c_color c_icon c_run_bg].
  rewrite get_script_path_spec, get_script_title_spec. reflexivity.
Qed.

Lemma script_list_spec m st : a_table st = load_manifest m -> get_script_list st = spec_views m (a_jobs st).
Proof.
  intros Ht. unfold get_script_list, spec_views. rewrite Ht, load_canonical.
  induction (listed_paths m) as [|p l IH]; [reflexivity|].
  cbn [flat_map]. rewrite map_app, IH. f_equal.
  destruct (listed m p) as [e|]; [|reflexivity].
  cbn [map snd]. now rewrite view_of_control.
Qed.

Lemma script_control_spec m st p : a_table st = load_manifest m ->
  get_script_control p st =
  match listed m p with
  | Some e => Some (control_of e, jc_is_running (spec_job_name p) (a_jobs st))
  | None => None
  end.
Proof.
  intros Ht. unfold get_script_control. rewrite Ht, load_get.
  destruct (listed m p) as [e|] eqn:Hl; [|reflexivity]. cbn [option_map].
  apply listed_some in Hl. destruct Hl as [_ <-].
  unfold control_of, new_control, spec_job_name. cbn [c_path]. now rewrite get_script_path_spec.
Qed.

(* ====================================================================== *)
(* E. the abstract job controller                                           *)

Lemma in_jc_jobs j s :
  In j (jc_jobs s) <-> In j (jc_queue s) \/ jc_current s = Some j \/ In j (jc_background s).
Proof.
  unfold jc_jobs. rewrite !in_app_iff. destruct (jc_current s) as [c|]; cbn [In]; split.
  - intros [H|[[->|[]]|H]]; auto.
  - intros [H|[H|H]]; auto. inversion H. auto.
  - intros [H|[[]|H]]; auto.
  - intros [H|[H|H]]; auto. discriminate.
Qed.

Lemma run_next_jobs j s : In j (jc_jobs (jc_run_next s)) -> In j (jc_jobs s).
Proof.
  unfold jc_run_next. destruct (jc_current s) as [c|] eqn:Hc; [auto|].
  destruct (jc_queue s) as [|h t] eqn:Hq; [auto|].
  rewrite !in_jc_jobs. cbn [jc_queue jc_current jc_background]. rewrite Hq, Hc.
  intros [H|[H|H]]; [left; now right| |auto]. inversion H. left. now left.
Qed.

Lemma add_jobs j j0 s : In j (jc_jobs (jc_add j0 s)) -> j = j0 \/ In j (jc_jobs s).
Proof.
  unfold jc_add. intros H. apply run_next_jobs in H. revert H.
  rewrite !in_jc_jobs. cbn [jc_queue jc_current jc_background]. rewrite in_app_iff. cbn [In].
  intros [[H|[H|[]]]|[H|H]]; auto.
Qed.

Lemma bg_put_in j j0 l : In j (bg_put j0 l) -> j = j0 \/ In j l.
Proof.
  induction l as [|h t IH]; cbn [bg_put In]; [intros [H|[]]; auto|].
  destruct (String.eqb (j_name h) (j_name j0)); cbn [In].
  - intros [H|H]; auto.
  - intros [H|H]; auto. destruct (IH H); auto.
Qed.

Lemma spawn_jobs j j0 s : In j (jc_jobs (jc_spawn j0 s)) -> j = j0 \/ In j (jc_jobs s).
Proof.
  unfold jc_spawn. rewrite !in_jc_jobs. cbn [jc_queue jc_current jc_background].
  intros [H|[H|H]]; auto. destruct (bg_put_in _ _ _ H); auto.
Qed.

Lemma done_current_jobs j s : In j (jc_jobs (jc_done_current s)) -> In j (jc_jobs s).
Proof.
  unfold jc_done_current. destruct (jc_current s) as [c|] eqn:Hc; [|auto].
  intros H. apply run_next_jobs in H. revert H.
  rewrite !in_jc_jobs. cbn [jc_queue jc_current jc_background]. intros [H|[H|H]]; auto. discriminate.
Qed.

Lemma done_background_jobs j name s : In j (jc_jobs (jc_done_background name s)) -> In j (jc_jobs s).
Proof.
  unfold jc_done_background. rewrite !in_jc_jobs. cbn [jc_queue jc_current jc_background].
  intros [H|[H|H]]; auto. apply filter_In in H. tauto.
Qed.

Lemma clear_jobs j s : In j (jc_jobs (jc_clear s)) -> In j (jc_jobs s).
Proof.
  unfold jc_clear. rewrite !in_jc_jobs. cbn [jc_queue jc_current jc_background]. intros [[]|[H|H]]; auto.
Qed.

Lemma stop_job_targets_in name s j : In j (jc_stop_job_targets name s) -> In j (jc_jobs s) /\ j_name j = name.
Proof.
  unfold jc_stop_job_targets. rewrite in_jc_jobs.
  assert (forall b, find (named name) (jc_background s) = Some b -> In b (jc_background s) /\ j_name b = name) as Hf.
  { intros b Hb. apply find_some in Hb. destruct Hb as [H1 H2]. split; [exact H1|now apply String.eqb_eq]. }
  destruct (jc_current s) as [c|].
  - destruct (named name c) eqn:Hn.
    + intros [<-|[]]. split; [auto|now apply String.eqb_eq].
    + destruct (find (named name) (jc_background s)) as [b|] eqn:Hb; [|intros []].
      intros [<-|[]]. destruct (Hf b eq_refl). auto.
  - destruct (find (named name) (jc_background s)) as [b|] eqn:Hb; [|intros []].
    intros [<-|[]]. destruct (Hf b eq_refl). auto.
Qed.

(* the named job, when it is reported as running, is exactly one job: the executing
   one if it bears the name, otherwise the background job registered under the name *)
Lemma stop_job_targets_running name s : jc_is_running name s = true ->
  exists j, jc_stop_job_targets name s = [j] /\ j_name j = name /\
            (jc_current s = Some j \/ (In j (jc_background s) /\
               forall c, jc_current s = Some c -> j_name c <> name)).
Proof.
  unfold jc_is_running, jc_stop_job_targets. intros H.
  assert (existsb (named name) (jc_background s) = true ->
          exists b, find (named name) (jc_background s) = Some b /\ j_name b = name /\ In b (jc_background s)) as Hb.
  { intros He. destruct (find (named name) (jc_background s)) as [b|] eqn:Hf.
    - exists b. apply find_some in Hf. destruct Hf as [H1 H2]. repeat split; auto. now apply String.eqb_eq.
    - exfalso. apply existsb_exists in He. destruct He as [x [Hx1 Hx2]].
      pose proof (find_none _ _ Hf x Hx1). congruence. }
  destruct (jc_current s) as [c|].
  - destruct (named name c) eqn:Hn.
    + exists c. repeat split; auto. now apply String.eqb_eq.
    + cbn [orb] in H. destruct (Hb H) as [b [-> [Hname Hin]]].
      exists b. repeat split; auto. right. split; [exact Hin|].
      intros c' E. inversion E. subst c'. unfold named in Hn. now apply String.eqb_neq.
  - cbn [orb] in H. destruct (Hb H) as [b [-> [Hname Hin]]].
    exists b. repeat split; auto. right. split; [exact Hin|]. discriminate.
Qed.

Lemma stop_job_targets_not_running name s : jc_is_running name s = false -> jc_stop_job_targets name s = [].
Proof.
  unfold jc_is_running, jc_stop_job_targets. intros H. apply orb_false_iff in H. destruct H as [H1 H2].
  assert (find (named name) (jc_background s) = None) as ->.
  { destruct (find (named name) (jc_background s)) as [b|] eqn:Hf; [|reflexivity].
    apply find_some in Hf. destruct Hf as [Hin Hn].
    assert (existsb (named name) (jc_background s) = true) by (apply existsb_exists; eauto). congruence. }
  destruct (jc_current s); [now rewrite H1|reflexivity].
Qed.

Lemma stop_current_targets_in s j : In j (jc_stop_current_targets s) -> In j (jc_jobs s).
Proof.
  unfold jc_stop_current_targets. rewrite in_jc_jobs. destruct (jc_current s); [|intros []].
  intros [<-|[]]. auto.
Qed.

Lemma stop_background_targets_in s j : In j (jc_stop_background_targets s) -> In j (jc_jobs s).
Proof. unfold jc_stop_background_targets. rewrite in_jc_jobs. auto. Qed.

(* ====================================================================== *)
(* F. the model (repaired text) does what the specification says            *)

Definition started (effs : list effect) (j : job) : Prop := In (EAdd j) effs \/ In (ESpawn j) effs.

(* a job of the manifest: the file of some entry, under that entry's escaped path *)
Definition job_of (m : manifest) (j : job) : Prop :=
  exists e, In e m /\ j_file j = e_file e /\ j_name j = html_escape (spec_path e).

Definition obs_match (resp : response) (o : spec_obs) : Prop :=
  r_effects resp = so_effects o /\
  (forall v, In v (page_views (r_page resp)) -> In v (so_views o)) /\
  (so_must_render o = true -> page_renders (r_page resp) = true).

Section Refinement.
Variable m : manifest.

Definition R (st : app_state) (ss : spec_state) : Prop :=
  a_table st = load_manifest m /\ a_jobs st = ss_jobs ss /\ a_next st = ss_next ss.

Lemma R_init : R (init_app m) spec_init.
Proof. repeat split. Qed.

Lemma queue_script_spec st ss e st' eff ss' eff' : R st ss ->
  queue_script repaired (control_of e) st = (st', eff) ->
  spec_start e ss = (ss', eff') ->
  R st' ss' /\ eff = eff'.
Proof.
  intros [Ht [Hj Hn]]. unfold queue_script, spec_start.
  cbn [v_open_raw repaired]. unfold control_of, new_control. cbn [c_source c_path c_run_bg].
  rewrite get_script_path_spec, Hj, Hn. unfold spec_job_name, spec_run_bg.
  destruct (e_run_bg e) as [[|]|]; intros H1 H2; inversion H1; inversion H2; subst; clear H1 H2;
    (split; [repeat split; cbn [a_table a_jobs a_next ss_jobs ss_next]; auto|reflexivity]).
Qed.

Lemma spec_view_in p e s : listed m p = Some e -> In (spec_view e s) (spec_views m s).
Proof.
  intros H. unfold spec_views. apply in_flat_map. exists p. split; [now apply (listed_in_paths m p e)|].
  rewrite H. now left.
Qed.

Lemma action_view p e s : listed m p = Some e ->
  view_of (control_of e) (jc_is_running (spec_job_name p) s) = spec_view e s.
Proof.
  intros H. apply listed_some in H. destruct H as [_ <-].
  rewrite <- view_of_control. unfold control_of, new_control, spec_job_name. cbn [c_path].
  now rewrite get_script_path_spec.
Qed.

Lemma handle_refines st ss url ua st' resp ss' o : R st ss ->
  handle repaired modelled_route_table url ua st = (st', resp) ->
  spec_request m url ss = (ss', o) ->
  R st' ss' /\ obs_match resp o.
Proof.
  intros HR. pose proof HR as [Ht [Hj Hn]].
  unfold handle, spec_request. rewrite dispatch_classify.
  assert (get_script_list st = spec_views m (ss_jobs ss)) as Hlist by (rewrite <- Hj; now apply script_list_spec).
  destruct (classify url) as [| | | |p| | |p|] eqn:Hc.
  - (* index *)
    intros H1 H2. inversion H1. inversion H2. subst. clear H1 H2. split; [exact HR|].
    unfold obs_match, fe_index. cbn [r_effects r_page so_effects so_views so_must_render page_views].
    rewrite Hlist. repeat split; auto; try discriminate.
  - (* capture *)
    unfold fe_capture. cbn [v_filter repaired].
    intros H1 H2. inversion H1. inversion H2. subst. clear H1 H2. split; [exact HR|].
    unfold obs_match, fe_index. cbn [r_effects r_page so_effects so_views so_must_render page_views page_renders].
    rewrite Hlist. repeat split; auto.
  - (* off *)
    unfold fe_off. rewrite (script_control_spec m st "off" Ht). unfold app_stop_current. rewrite Hj.
    destruct (listed m "off") as [e|] eqn:Hl.
    + cbn [fst snd].
      destruct (queue_script repaired (control_of e) st) as [st1 eff1] eqn:Hq.
      destruct (spec_start e ss) as [ss1 eff2] eqn:Hs.
      destruct (queue_script_spec _ _ _ _ _ _ _ HR Hq Hs) as [HR1 ->].
      intros H1 H2. inversion H1. inversion H2. subst. clear H1 H2. split; [exact HR1|].
      unfold obs_match, render_action. cbn [r_effects r_page so_effects so_views so_must_render page_views fst snd].
      repeat split; auto; try discriminate.
      intros v [<-|[]]. rewrite (action_view "off" e _ Hl). now apply (spec_view_in "off").
    + intros H1 H2. inversion H1. inversion H2. subst. clear H1 H2. split; [exact HR|].
      unfold obs_match. cbn. repeat split; auto; try discriminate; try (intros v []).
  - (* status *)
    unfold fe_status. cbn [v_filter repaired].
    intros H1 H2. inversion H1. inversion H2. subst. clear H1 H2. split; [exact HR|].
    unfold obs_match. cbn. repeat split; auto; try discriminate; try (intros v []).
  - (* stop p *)
    unfold fe_stop_script. rewrite (script_control_spec m st p Ht). rewrite Hj.
    destruct (listed m p) as [e|] eqn:Hl.
    + cbn [fst snd]. destruct (jc_is_running (spec_job_name p) (ss_jobs ss)) eqn:Hrun.
      * intros H1 H2. inversion H1. inversion H2. subst. clear H1 H2. split; [exact HR|].
        unfold obs_match, render_action, app_stop_script.
        cbn [v_stop_table repaired r_effects r_page so_effects so_views so_must_render page_views fst snd].
        rewrite Ht, load_get, Hl. cbn [option_map]. rewrite Hj.
        assert (c_path (control_of e) = spec_job_name p) as ->.
        { apply listed_some in Hl. destruct Hl as [_ <-]. unfold control_of, new_control, spec_job_name.
          cbn [c_path]. now rewrite get_script_path_spec. }
        repeat split; auto; try discriminate.
        intros v [<-|[]]. rewrite <- Hrun. rewrite (action_view p e _ Hl). now apply (spec_view_in p).
      * intros H1 H2. inversion H1. inversion H2. subst. clear H1 H2. split; [exact HR|].
        unfold obs_match, fe_index. cbn [r_effects r_page so_effects so_views so_must_render page_views].
        rewrite Hlist. repeat split; auto; try discriminate.
    + intros H1 H2. inversion H1. inversion H2. subst. clear H1 H2. split; [exact HR|].
      unfold obs_match, fe_index. cbn [r_effects r_page so_effects so_views so_must_render page_views].
      rewrite Hlist. repeat split; auto; try discriminate.
  - (* stop-current *)
    unfold fe_stop_current. rewrite (script_control_spec m st "stop-current" Ht). unfold app_stop_current. rewrite Hj.
    destruct (listed m "stop-current") as [e|] eqn:Hl.
    + intros H1 H2. inversion H1. inversion H2. subst. clear H1 H2. split; [exact HR|].
      unfold obs_match, render_action. cbn [r_effects r_page so_effects so_views so_must_render page_views fst snd].
      repeat split; auto; try discriminate.
      intros v [<-|[]]. rewrite (action_view "stop-current" e _ Hl). now apply (spec_view_in "stop-current").
    + intros H1 H2. inversion H1. inversion H2. subst. clear H1 H2. split; [exact HR|].
      unfold obs_match. cbn. repeat split; auto; try discriminate; try (intros v []).
  - (* stop-all *)
    unfold fe_stop_all, app_stop_all. rewrite (script_control_spec m st "stop-all" Ht). rewrite Hj.
    assert (R (mk_app (a_table st) (jc_clear (ss_jobs ss)) (a_next st)) (mk_ss (jc_clear (ss_jobs ss)) (ss_next ss))) as HR1
      by (repeat split; auto).
    destruct (listed m "stop-all") as [e|] eqn:Hl.
    + intros H1 H2. inversion H1. inversion H2. subst. clear H1 H2. split; [exact HR1|].
      unfold obs_match, render_action. cbn [r_effects r_page so_effects so_views so_must_render page_views fst snd].
      repeat split; auto; try discriminate.
      intros v [<-|[]]. rewrite (action_view "stop-all" e _ Hl). now apply (spec_view_in "stop-all").
    + intros H1 H2. inversion H1. inversion H2. subst. clear H1 H2. split; [exact HR1|].
      unfold obs_match. cbn. repeat split; auto; try discriminate; try (intros v []).
  - (* run p *)
    unfold fe_run_script. rewrite (script_control_spec m st p Ht). rewrite Hj.
    destruct (listed m p) as [e|] eqn:Hl.
    + cbn [fst snd]. destruct (jc_is_running (spec_job_name p) (ss_jobs ss)) eqn:Hrun.
      * intros H1 H2. inversion H1. inversion H2. subst. clear H1 H2. split; [exact HR|].
        unfold obs_match, render_action. cbn [r_effects r_page so_effects so_views so_must_render page_views fst snd].
        repeat split; auto; try discriminate.
        intros v [<-|[]]. rewrite <- Hrun. rewrite (action_view p e _ Hl). now apply (spec_view_in p).
      * destruct (queue_script repaired (control_of e) st) as [st1 eff1] eqn:Hq.
        destruct (spec_start e ss) as [ss1 eff2] eqn:Hs.
        destruct (queue_script_spec _ _ _ _ _ _ _ HR Hq Hs) as [HR1 ->].
        intros H1 H2. inversion H1. inversion H2. subst. clear H1 H2. split; [exact HR1|].
        unfold obs_match, render_action. cbn [r_effects r_page so_effects so_views so_must_render page_views fst snd].
        repeat split; auto; try discriminate.
        intros v [<-|[]]. rewrite <- Hrun. rewrite (action_view p e _ Hl). now apply (spec_view_in p).
    + intros H1 H2. inversion H1. inversion H2. subst. clear H1 H2. split; [exact HR|].
      unfold obs_match, fe_index. cbn [r_effects r_page so_effects so_views so_must_render page_views].
      rewrite Hlist. repeat split; auto; try discriminate.
  - (* no route *)
    intros H1 H2. inversion H1. inversion H2. subst. clear H1 H2. split; [exact HR|].
    unfold obs_match. cbn. repeat split; auto; try discriminate; try (intros v []).
Qed.

Lemma step_refines st ss ev st' resp ss' o : R st ss ->
  app_step repaired modelled_route_table ev st = (st', resp) ->
  spec_step m ev ss = (ss', o) ->
  R st' ss' /\ obs_match resp o.
Proof.
  intros HR. destruct ev as [url ua| |name]; cbn [app_step spec_step].
  - now apply handle_refines.
  - destruct HR as [Ht [Hj Hn]]. intros H1 H2. inversion H1. inversion H2. subst. clear H1 H2.
    rewrite Hj. split; [repeat split; auto|]. unfold obs_match. cbn. repeat split; auto; try discriminate; try (intros v []).
  - destruct HR as [Ht [Hj Hn]]. intros H1 H2. inversion H1. inversion H2. subst. clear H1 H2.
    rewrite Hj. split; [repeat split; auto|]. unfold obs_match. cbn. repeat split; auto; try discriminate; try (intros v []).
Qed.

Lemma run_refines evs : forall st ss, R st ss ->
  Forall2 obs_match (app_run_from repaired modelled_route_table evs st) (spec_run_from m evs ss) /\
  R (app_state_after repaired modelled_route_table evs st) (spec_state_after m evs ss).
Proof.
  induction evs as [|ev evs IH]; intros st ss HR; cbn [app_run_from spec_run_from app_state_after spec_state_after].
  - split; [constructor|exact HR].
  - destruct (app_step repaired modelled_route_table ev st) as [st1 resp] eqn:H1.
    destruct (spec_step m ev ss) as [ss1 o] eqn:H2.
    destruct (step_refines _ _ _ _ _ _ _ HR H1 H2) as [HR1 Hm].
    cbn [fst]. destruct (IH st1 ss1 HR1) as [IH1 IH2]. split; [now constructor|exact IH2].
Qed.

End Refinement.

(* every history: the model's responses are what the specification allows *)
Theorem model_refines_spec : forall m evs,
  Forall2 obs_match (app_run repaired modelled_route_table m evs) (spec_run m evs).
Proof. intros m evs. apply (run_refines m evs). apply R_init. Qed.

(* ====================================================================== *)
(* G. what the specification guarantees about jobs                          *)

Definition jobs_of (m : manifest) (s : jc) : Prop := forall j, In j (jc_jobs s) -> job_of m j.

Lemma spec_start_props m e ss ss' eff : In e m -> spec_start e ss = (ss', eff) ->
  let j0 := mk_job (ss_next ss) (html_escape (spec_path e)) (e_file e) in
  job_of m j0 /\ (eff = [EAdd j0] \/ eff = [ESpawn j0]) /\
  (forall j, In j (jc_jobs (ss_jobs ss')) -> j = j0 \/ In j (jc_jobs (ss_jobs ss))).
Proof.
  intros Hin. unfold spec_start, spec_job_name. destruct (spec_run_bg e); intros H; inversion H; subst; clear H; cbn zeta.
  - split; [exists e; auto|]. split; [now right|]. cbn [ss_jobs]. intros j. apply spawn_jobs.
  - split; [exists e; auto|]. split; [now left|]. cbn [ss_jobs]. intros j. apply add_jobs.
Qed.

Lemma spec_request_jobs m url ss ss' o : jobs_of m (ss_jobs ss) -> spec_request m url ss = (ss', o) ->
  jobs_of m (ss_jobs ss') /\
  (forall j, started (so_effects o) j -> job_of m j) /\
  (forall j, In (EStop j) (so_effects o) -> In j (jc_jobs (ss_jobs ss))).
Proof.
  intros Hok. unfold spec_request.
  assert (forall l j, In (EStop j) (map EStop l) -> In j l) as Hstop.
  { intros l j H. apply in_map_iff in H. destruct H as [x [E Hx]]. now inversion E; subst. }
  assert (forall l j, ~ started (map EStop l) j) as Hnostart.
  { intros l j [H|H]; apply in_map_iff in H; destruct H as [x [E _]]; discriminate. }
  assert (forall e ss1 eff, In e m -> spec_start e ss = (ss1, eff) ->
            jobs_of m (ss_jobs ss1) /\ (forall j, started eff j -> job_of m j) /\ (forall j, ~ In (EStop j) eff)) as Hstart.
  { intros e ss1 eff Hin Hs. destruct (spec_start_props m e ss ss1 eff Hin Hs) as [Hj0 [Heff Hsub]].
    split; [|split].
    - intros j Hj. destruct (Hsub j Hj) as [->|H]; [exact Hj0|now apply Hok].
    - intros j [H|H]; destruct Heff as [-> | ->]; destruct H as [H|[]]; inversion H; subst; exact Hj0.
    - intros j H. destruct Heff as [-> | ->]; destruct H as [H|[]]; discriminate. }
  destruct (classify url) as [| | | |p| | |p|].
  - intros H; inversion H; subst; clear H. cbn. repeat split; auto; [intros j [[]|[]]|intros j []].
  - intros H; inversion H; subst; clear H. cbn. repeat split; auto.
    + intros j [[H|[]]|[H|[]]]; discriminate.
    + intros j [H|[]]; discriminate.
  - destruct (listed m "off") as [e|] eqn:Hl.
    + destruct (spec_start e ss) as [ss1 eff] eqn:Hs.
      apply listed_some in Hl. destruct Hl as [Hin _].
      destruct (Hstart e ss1 eff Hin Hs) as [H1 [H2 H3]].
      intros H; inversion H; subst; clear H. cbn [so_effects]. split; [exact H1|]. split.
      * intros j [H|H]; apply in_app_iff in H; destruct H as [H|H].
        -- exfalso. eapply Hnostart. left. exact H.
        -- apply H2. now left.
        -- exfalso. eapply Hnostart. right. exact H.
        -- apply H2. now right.
      * intros j H. apply in_app_iff in H. destruct H as [H|H]; [|exfalso; exact (H3 j H)].
        apply stop_current_targets_in. now apply Hstop.
    + intros H; inversion H; subst; clear H. cbn [so_effects]. split; [exact Hok|]. split.
      * intros j H. exfalso. exact (Hnostart _ j H).
      * intros j H. apply stop_current_targets_in. now apply Hstop.
  - intros H; inversion H; subst; clear H. cbn. repeat split; auto; [intros j [[]|[]]|intros j []].
  - destruct (listed m p) as [e|]; [destruct (jc_is_running (spec_job_name p) (ss_jobs ss))|].
    + intros H; inversion H; subst; clear H. cbn [so_effects]. split; [exact Hok|]. split.
      * intros j1 H. exfalso. exact (Hnostart _ j1 H).
      * intros j1 H. apply Hstop in H. now apply stop_job_targets_in in H.
    + intros H; inversion H; subst; clear H. cbn. repeat split; auto; [intros j1 [[]|[]]|intros j1 []].
    + intros H; inversion H; subst; clear H. cbn. repeat split; auto; [intros j1 [[]|[]]|intros j1 []].
  - intros H; inversion H; subst; clear H. cbn [so_effects]. split; [exact Hok|]. split.
    + intros j H. exfalso. exact (Hnostart _ j H).
    + intros j H. apply stop_current_targets_in. now apply Hstop.
  - intros H; inversion H; subst; clear H. cbn [so_effects ss_jobs]. split; [|split].
    + intros j Hj. apply Hok. now apply clear_jobs.
    + intros j [[H|H]|[H|H]]; try discriminate; apply in_app_iff in H; destruct H as [H|H];
        apply in_map_iff in H; destruct H as [x [E _]]; discriminate.
    + intros j [H|H]; [discriminate|]. apply in_app_iff in H. destruct H as [H|H]; apply Hstop in H.
      * now apply stop_current_targets_in.
      * now apply stop_background_targets_in.
  - destruct (listed m p) as [e|] eqn:Hl.
    + destruct (jc_is_running (spec_job_name p) (ss_jobs ss)).
      * intros H; inversion H; subst; clear H. cbn. repeat split; auto; [intros j [[]|[]]|intros j []].
      * destruct (spec_start e ss) as [ss1 eff] eqn:Hs.
        apply listed_some in Hl. destruct Hl as [Hin _].
        destruct (Hstart e ss1 eff Hin Hs) as [H1 [H2 H3]].
        intros H; inversion H; subst; clear H. cbn [so_effects]. split; [exact H1|]. split; [exact H2|].
        intros j H. exfalso. exact (H3 j H).
    + intros H; inversion H; subst; clear H. cbn. repeat split; auto; [intros j [[]|[]]|intros j []].
  - intros H; inversion H; subst; clear H. cbn. repeat split; auto; [intros j [[]|[]]|intros j []].
Qed.

Lemma spec_step_jobs m ev ss ss' o : jobs_of m (ss_jobs ss) -> spec_step m ev ss = (ss', o) ->
  jobs_of m (ss_jobs ss') /\
  (forall j, started (so_effects o) j -> job_of m j) /\
  (forall j, In (EStop j) (so_effects o) -> In j (jc_jobs (ss_jobs ss))).
Proof.
  intros Hok. destruct ev as [url ua| |name]; cbn [spec_step].
  - now apply spec_request_jobs.
  - intros H; inversion H; subst; clear H. cbn [ss_jobs so_effects]. split; [|split].
    + intros j Hj. apply Hok. now apply done_current_jobs.
    + intros j [[]|[]].
    + intros j [].
  - intros H; inversion H; subst; clear H. cbn [ss_jobs so_effects]. split; [|split].
    + intros j Hj. apply Hok. now apply done_background_jobs in Hj.
    + intros j [[]|[]].
    + intros j [].
Qed.

Lemma spec_run_jobs m evs : forall ss, jobs_of m (ss_jobs ss) ->
  (forall o, In o (spec_run_from m evs ss) ->
     (forall j, started (so_effects o) j -> job_of m j) /\ (forall j, In (EStop j) (so_effects o) -> job_of m j)) /\
  jobs_of m (ss_jobs (spec_state_after m evs ss)).
Proof.
  induction evs as [|ev evs IH]; intros ss Hok; cbn [spec_run_from spec_state_after].
  - split; [intros o []|exact Hok].
  - destruct (spec_step m ev ss) as [ss1 o1] eqn:Hs. cbn [fst].
    destruct (spec_step_jobs m ev ss ss1 o1 Hok Hs) as [H1 [H2 H3]].
    destruct (IH ss1 H1) as [IH1 IH2]. split; [|exact IH2].
    intros o [<-|Hin]; [|now apply IH1]. split; [exact H2|]. intros j Hj. apply Hok. now apply H3.
Qed.

Lemma Forall2_In_l {A B} (P : A -> B -> Prop) l1 l2 a :
  Forall2 P l1 l2 -> In a l1 -> exists b, In b l2 /\ P a b.
Proof.
  intros H. induction H as [|x y l1 l2 Hxy _ IH]; intros Hin; [destruct Hin|].
  destruct Hin as [<-|Hin]; [exists y; split; [now left|exact Hxy]|].
  destruct (IH Hin) as [b [Hb Hp]]. exists b. split; [now right|exact Hp].
Qed.

(* ====================================================================== *)
(* H. the theorems of the property, for the text the source has now          *)

Section Current.
Variable v : variant.
Variable table : list (string * string).
Hypothesis Hv : v = repaired.
Hypothesis Htab : table = modelled_route_table.

Definition reachable (m : manifest) (st : app_state) : Prop :=
  exists evs, st = app_state_after v table evs (init_app m).

Lemma reachable_R m st : reachable m st -> exists ss, R m st ss /\ jobs_of m (ss_jobs ss).
Proof.
  intros [evs ->]. rewrite ?Hv, ?Htab in *.
  exists (spec_state_after m evs spec_init). split.
  - apply (run_refines m evs). apply R_init.
  - apply (spec_run_jobs m evs spec_init). intros j [].
Qed.

Lemma reachable_table m st : reachable m st -> a_table st = load_manifest m.
Proof. intros H. destruct (reachable_R m st H) as [ss [[Ht _] _]]. exact Ht. Qed.

(* only manifest-listed files can ever be executed: every job ever handed to the
   controller -- and every job ever asked to stop -- has the file of some manifest entry
   and is known under that entry's (escaped) path *)
Theorem only_manifest_files_run : forall m evs resp j,
  In resp (app_run v table m evs) ->
  started (r_effects resp) j \/ In (EStop j) (r_effects resp) ->
  job_of m j.
Proof.
  intros m evs resp j Hin Hj. rewrite ?Hv, ?Htab in *.
  destruct (Forall2_In_l _ _ _ _ (model_refines_spec m evs) Hin) as [o [Ho [He _]]].
  destruct (spec_run_jobs m evs spec_init) as [H _]; [intros x []|].
  destruct (H o Ho) as [H1 H2]. rewrite He in Hj. destruct Hj; auto.
Qed.

(* ... and so is every job the controller holds after any history *)
Theorem controller_holds_manifest_jobs : forall m st j,
  reachable m st -> In j (jc_jobs (a_jobs st)) -> job_of m j.
Proof.
  intros m st j Hr Hj. destruct (reachable_R m st Hr) as [ss [[_ [Hjobs _]] Hok]].
  apply Hok. now rewrite <- Hjobs.
Qed.

(* a request for a listed path starts that entry's script: queued, or in the background if so marked *)
Theorem request_starts_listed_script : forall m st url ua p e,
  reachable m st -> classify url = RtRun p -> listed m p = Some e ->
  jc_is_running (html_escape p) (a_jobs st) = false ->
  let j := mk_job (a_next st) (html_escape p) (e_file e) in
  handle v table url ua st =
    (mk_app (a_table st) (if spec_run_bg e then jc_spawn j (a_jobs st) else jc_add j (a_jobs st)) (a_next st + 1),
     mk_resp [if spec_run_bg e then ESpawn j else EAdd j]
             (PAction (agent_class ua) (spec_view e (a_jobs st)) "Started")).
Proof.
  intros m st url ua p e Hr Hc Hl Hrun j. pose proof (reachable_table m st Hr) as Ht.
  pose proof (action_view m p e (a_jobs st) Hl) as Hview. unfold spec_job_name in Hview. rewrite Hrun in Hview.
  assert (c_path (control_of e) = html_escape p) as Hp.
  { apply listed_some in Hl. destruct Hl as [_ <-]. unfold control_of, new_control. cbn [c_path]. now rewrite get_script_path_spec. }
  rewrite Hv, Htab. unfold handle. rewrite dispatch_classify, Hc. unfold fe_run_script.
  rewrite (script_control_spec m st p Ht), Hl. cbn [fst snd]. unfold spec_job_name. rewrite Hrun.
  unfold queue_script, render_action. cbn [v_open_raw repaired fst snd]. rewrite Hview, Hp.
  unfold control_of, new_control. cbn [c_run_bg c_source]. unfold spec_run_bg. subst j.
  destruct (e_run_bg e) as [[|]|]; reflexivity.
Qed.

(* a request for any other path starts nothing *)
Theorem unknown_path_starts_nothing : forall m st url ua p,
  reachable m st -> classify url = RtRun p -> listed m p = None ->
  handle v table url ua st = (st, mk_resp [] (fe_index ua st)).
Proof.
  intros m st url ua p Hr Hc Hl. pose proof (reachable_table m st Hr) as Ht. rewrite ?Hv, ?Htab in *.
  unfold handle. rewrite dispatch_classify, Hc. unfold fe_run_script.
  now rewrite (script_control_spec m st p Ht), Hl.
Qed.

(* whatever is started is started by a request for the path that lists it *)
Theorem only_listed_requests_start : forall m st url ua j,
  reachable m st -> started (r_effects (snd (handle v table url ua st))) j ->
  exists p e, (classify url = RtRun p \/ (classify url = RtOff /\ p = "off")) /\
              listed m p = Some e /\ j_file j = e_file e /\ j_name j = html_escape p.
Proof.
  intros m st url ua j Hr Hs. destruct (reachable_R m st Hr) as [ss [HR _]]. rewrite ?Hv, ?Htab in *.
  destruct (handle repaired modelled_route_table url ua st) as [st' resp] eqn:Hh.
  destruct (spec_request m url ss) as [ss' o] eqn:Ho.
  destruct (handle_refines m _ _ _ _ _ _ _ _ HR Hh Ho) as [_ [He _]].
  cbn [snd] in Hs. rewrite He in Hs. clear Hh He.
  unfold spec_request in Ho.
  assert (forall l, ~ started (map EStop l) j) as Hnostart.
  { intros l [H|H]; apply in_map_iff in H; destruct H as [x [E _]]; discriminate. }
  assert (forall e ss1 eff, spec_start e ss = (ss1, eff) -> started eff j ->
            j_file j = e_file e /\ j_name j = html_escape (spec_path e)) as Hst.
  { intros e ss1 eff. unfold spec_start, spec_job_name.
    destruct (spec_run_bg e); intros H; inversion H; subst; clear H; intros [[H|[]]|[H|[]]]; inversion H; subst; auto. }
  destruct (classify url) as [| | | |p| | |p|] eqn:Hc.
  - inversion Ho; subst. destruct Hs as [[]|[]].
  - inversion Ho; subst. destruct Hs as [[H|[]]|[H|[]]]; discriminate.
  - destruct (listed m "off") as [e|] eqn:Hl.
    + destruct (spec_start e ss) as [ss1 eff] eqn:Hstart. inversion Ho; subst. cbn [so_effects] in Hs.
      assert (started eff j) as Hs'.
      { destruct Hs as [H|H]; apply in_app_iff in H; destruct H as [H|H].
        - exfalso. eapply Hnostart. left. exact H.
        - now left.
        - exfalso. eapply Hnostart. right. exact H.
        - now right. }
      destruct (Hst e _ _ Hstart Hs') as [H1 H2].
      exists "off", e. repeat split; auto. apply listed_some in Hl. destruct Hl as [_ E]. now rewrite E in H2.
    + inversion Ho; subst. cbn [so_effects] in Hs. exfalso. exact (Hnostart _ Hs).
  - inversion Ho; subst. destruct Hs as [[]|[]].
  - destruct (listed m p) as [e|]; [destruct (jc_is_running (spec_job_name p) (ss_jobs ss))|];
      inversion Ho; subst; cbn [so_effects] in Hs; try (destruct Hs as [[]|[]]). exfalso. exact (Hnostart _ Hs).
  - inversion Ho; subst. cbn [so_effects] in Hs. exfalso. exact (Hnostart _ Hs).
  - inversion Ho; subst. cbn [so_effects] in Hs. exfalso.
    destruct Hs as [[H|H]|[H|H]]; try discriminate; apply in_app_iff in H; destruct H as [H|H];
      apply in_map_iff in H; destruct H as [x [E _]]; discriminate.
  - destruct (listed m p) as [e|] eqn:Hl.
    + destruct (jc_is_running (spec_job_name p) (ss_jobs ss)).
      * inversion Ho; subst. destruct Hs as [[]|[]].
      * destruct (spec_start e ss) as [ss1 eff] eqn:Hstart. inversion Ho; subst. cbn [so_effects] in Hs.
        destruct (Hst e _ _ Hstart Hs) as [H1 H2].
        exists p, e. repeat split; auto. apply listed_some in Hl. destruct Hl as [_ E]. now rewrite E in H2.
    + inversion Ho; subst. destruct Hs as [[]|[]].
  - inversion Ho; subst. destruct Hs as [[]|[]].
Qed.

(* a script reported as running is not started a second time by a repeated request *)
Theorem running_not_restarted : forall m st url ua p e,
  reachable m st -> classify url = RtRun p -> listed m p = Some e ->
  jc_is_running (html_escape p) (a_jobs st) = true ->
  handle v table url ua st =
    (st, mk_resp [] (PAction (agent_class ua) (spec_view e (a_jobs st)) "Started")).
Proof.
  intros m st url ua p e Hr Hc Hl Hrun. pose proof (reachable_table m st Hr) as Ht.
  pose proof (action_view m p e (a_jobs st) Hl) as Hview. unfold spec_job_name in Hview. rewrite Hrun in Hview.
  rewrite Hv, Htab. unfold handle. rewrite dispatch_classify, Hc. unfold fe_run_script.
  rewrite (script_control_spec m st p Ht), Hl. cbn [fst snd]. unfold spec_job_name. rewrite Hrun.
  unfold render_action. cbn [fst snd]. now rewrite Hview.
Qed.

(* stop p: exactly the job named p (if it is reported as running), nothing else changes *)
Theorem stop_named_exact : forall m st url ua p,
  reachable m st -> classify url = RtStop p ->
  fst (handle v table url ua st) = st /\
  r_effects (snd (handle v table url ua st)) =
    match listed m p with
    | Some _ => map EStop (jc_stop_job_targets (html_escape p) (a_jobs st))
    | None => []
    end.
Proof.
  intros m st url ua p Hr Hc. pose proof (reachable_table m st Hr) as Ht. rewrite ?Hv, ?Htab in *.
  unfold handle. rewrite dispatch_classify, Hc. unfold fe_stop_script.
  rewrite (script_control_spec m st p Ht).
  destruct (listed m p) as [e|] eqn:Hl; [|split; reflexivity].
  cbn [fst snd]. unfold spec_job_name.
  destruct (jc_is_running (html_escape p) (a_jobs st)) eqn:Hrun; cbn [fst snd r_effects].
  - split; [reflexivity|]. unfold app_stop_script. cbn [v_stop_table repaired].
    rewrite Ht, load_get, Hl. cbn [option_map].
    apply listed_some in Hl. destruct Hl as [_ <-]. unfold control_of, new_control. cbn [c_path].
    now rewrite get_script_path_spec.
  - split; [reflexivity|]. now rewrite stop_job_targets_not_running.
Qed.

(* stop-current: exactly the executing job *)
Theorem stop_current_exact : forall m st url ua,
  reachable m st -> classify url = RtStopCurrent ->
  fst (handle v table url ua st) = st /\
  r_effects (snd (handle v table url ua st)) = map EStop (jc_stop_current_targets (a_jobs st)).
Proof.
  intros m st url ua Hr Hc. rewrite ?Hv, ?Htab in *.
  unfold handle. rewrite dispatch_classify, Hc. unfold fe_stop_current, app_stop_current.
  destruct (get_script_control "stop-current" st); split; reflexivity.
Qed.

(* stop-all: the queue is cleared, the executing job and every background job are asked to stop *)
Theorem stop_all_exact : forall m st url ua,
  reachable m st -> classify url = RtStopAll ->
  a_jobs (fst (handle v table url ua st)) = jc_clear (a_jobs st) /\
  jc_queue (a_jobs (fst (handle v table url ua st))) = [] /\
  r_effects (snd (handle v table url ua st)) =
    EClear :: map EStop (jc_stop_current_targets (a_jobs st)) ++ map EStop (jc_stop_background_targets (a_jobs st)).
Proof.
  intros m st url ua Hr Hc. rewrite ?Hv, ?Htab in *.
  unfold handle. rewrite dispatch_classify, Hc. unfold fe_stop_all, app_stop_all.
  destruct (get_script_control "stop-all" st); repeat split; reflexivity.
Qed.

(* the status and capture pages render (in the model: they yield a page, never an error) *)
Theorem status_and_capture_render : forall m st url ua,
  reachable m st ->
  (classify url = RtStatus ->
     handle v table url ua st =
       (st, mk_resp [] (PStatus (agent_class ua) (map j_name (jc_background (a_jobs st)))
                                (option_map j_name (jc_current (a_jobs st))) (map j_name (jc_queue (a_jobs st)))))) /\
  (classify url = RtCapture ->
     handle v table url ua st = (st, mk_resp [ESnapshot] (PIndex (agent_class ua) (spec_views m (a_jobs st))))).
Proof.
  intros m st url ua Hr. pose proof (reachable_table m st Hr) as Ht. rewrite ?Hv, ?Htab in *.
  split; intros Hc; unfold handle; rewrite dispatch_classify, Hc.
  - reflexivity.
  - unfold fe_capture, fe_index. cbn [v_filter repaired]. now rewrite (script_list_spec m st Ht).
Qed.

(* an error page arises only from /off, /stop-current, /stop-all without a manifest entry of that path *)
Theorem errors_only_without_special_entry : forall m st url ua w,
  reachable m st -> r_page (snd (handle v table url ua st)) = PError w ->
  (classify url = RtOff /\ listed m "off" = None) \/
  (classify url = RtStopCurrent /\ listed m "stop-current" = None) \/
  (classify url = RtStopAll /\ listed m "stop-all" = None).
Proof.
  intros m st url ua w Hr. pose proof (reachable_table m st Hr) as Ht. rewrite ?Hv, ?Htab in *.
  unfold handle. rewrite dispatch_classify.
  destruct (classify url) as [| | | |p| | |p|].
  - cbn [snd r_page fe_index]. intros H; discriminate H.
  - unfold fe_capture. cbn [v_filter repaired snd r_page fe_index]. intros H; discriminate H.
  - unfold fe_off. rewrite (script_control_spec m st "off" Ht).
    destruct (listed m "off"); [|auto]. destruct (queue_script _ _ _).
    cbn [snd r_page render_action]. intros H; discriminate H.
  - unfold fe_status. cbn [v_filter repaired snd r_page]. intros H; discriminate H.
  - unfold fe_stop_script. destruct (get_script_control p st) as [[c r]|]; [destruct r|];
      cbn [snd r_page render_action fe_index]; intros H; discriminate H.
  - unfold fe_stop_current. rewrite (script_control_spec m st "stop-current" Ht).
    destruct (listed m "stop-current"); [|auto]. cbn [snd r_page render_action]. intros H; discriminate H.
  - unfold fe_stop_all, app_stop_all. rewrite (script_control_spec m st "stop-all" Ht).
    destruct (listed m "stop-all"); [|auto]. cbn [snd r_page render_action]. intros H; discriminate H.
  - unfold fe_run_script. destruct (get_script_control p st) as [[c r]|]; [destruct r|].
    + cbn [snd r_page render_action]. intros H; discriminate H.
    + destruct (queue_script _ _ _). cbn [snd r_page render_action]. intros H; discriminate H.
    + cbn [snd r_page fe_index]. intros H; discriminate H.
  - cbn [snd r_page]. intros H; discriminate H.
Qed.

(* the strings handed to a page: every script object in every template context of every
   history carries the escaped file name, path, title and colours of a manifest entry *)
Theorem pages_get_escaped_fields : forall m evs resp w,
  In resp (app_run v table m evs) -> In w (page_views (r_page resp)) ->
  exists e, In e m /\
    w_file w = html_escape (e_file e) /\ w_path w = html_escape (spec_path e) /\
    w_title w = html_escape (spec_title e) /\
    w_background w = html_escape (e_background e) /\ w_color w = html_escape (e_color e) /\
    escaped_ok (w_file w) /\ escaped_ok (w_path w) /\ escaped_ok (w_title w) /\
    escaped_ok (w_background w) /\ escaped_ok (w_color w).
Proof.
  intros m evs resp w Hin Hw. rewrite ?Hv, ?Htab in *.
  destruct (Forall2_In_l _ _ _ _ (model_refines_spec m evs) Hin) as [o [Ho [_ [Hviews _]]]].
  specialize (Hviews w Hw).
  assert (forall evs ss o, In o (spec_run_from m evs ss) -> In w (so_views o) ->
            exists s, In w (spec_views m s)) as Hs.
  { clear. induction evs as [|ev evs IH]; intros ss o; cbn [spec_run_from]; [intros []|].
    destruct (spec_step m ev ss) as [ss1 o1] eqn:Hst. intros [<-|Hin] Hw; [|now apply (IH ss1 o)].
    destruct ev as [url ua| |name]; cbn [spec_step] in Hst.
    - unfold spec_request in Hst. exists (ss_jobs ss).
      destruct (classify url); try (inversion Hst; subst; exact Hw);
        repeat match type of Hst with
               | context [match ?x with _ => _ end] => destruct x
               | context [if ?x then _ else _] => destruct x
               end; inversion Hst; subst; exact Hw.
    - inversion Hst; subst. destruct Hw.
    - inversion Hst; subst. destruct Hw. }
  destruct (Hs evs spec_init o Ho Hviews) as [s Hsv].
  unfold spec_views in Hsv. apply in_flat_map in Hsv. destruct Hsv as [p [_ Hp]].
  destruct (listed m p) as [e|] eqn:Hl; [|destruct Hp]. destruct Hp as [<-|[]].
  apply listed_some in Hl. destruct Hl as [Hine _].
  exists e. unfold spec_view. cbn [w_file w_path w_title w_background w_color].
  split; [exact Hine|]. repeat (split; [reflexivity|]).
  repeat (split; [apply escaped_no_metachar|]). apply escaped_no_metachar.
Qed.

End Current.

(* ====================================================================== *)
(* I. Non-vacuity: a hostile manifest                                       *)

Definition hostile : manifest :=
  [ mk_entry "a&b<c>.ls" None None None "#222" "Li<nen" None;
    mk_entry "../x""y'.ls" (Some "q""uo'te") (Some "<b>T</b>") (Some true) "x" "y" None;
    mk_entry "off-all.ls" (Some "off") None None "b" "c" None;
    mk_entry "dup_file-name.ls" (Some "a&b<c>") None None "b2" "c2" None ].

Definition hostile_events : list event :=
  [ Request "/a&b<c>" "Mozilla"; Request "/a&b<c>" "Mozilla"; Request "/q""uo'te" "iPhone";
    Request "/q""uo'te" "iPhone"; Request "/nope" "x"; Request "/../x""y'.ls" "x";
    Request "/stop/a&b<c>" "x"; Request "/stop/q""uo'te" "x"; Request "/status" "x"; Request "/capture" "x";
    DoneCurrent; Request "/a&b<c>" "x"; Request "/off" "x"; Request "/stop-all" "x";
    DoneBackground "q&quot;uo&#x27;te"; Request "/q""uo'te" "x" ].

(* the later entry with the same path is the listed one; the path is a request path *)
Example hostile_listed :
  listed hostile "a&b<c>" = Some (mk_entry "dup_file-name.ls" (Some "a&b<c>") None None "b2" "c2" None) /\
  classify "/a&b<c>" = RtRun "a&b<c>" /\ classify "/q""uo'te" = RtRun "q""uo'te" /\
  classify "/../x""y'.ls" = RtNone /\ classify "/stop/a&b<c>" = RtStop "a&b<c>".
Proof. repeat split; reflexivity. Qed.

Example hostile_titles :
  map spec_title hostile = ["A&B<C>"; "<b>T</b>"; "Off"; "A&B<C>"] /\
  spec_default_title "dup_file-name" = "Dup File Name" /\
  map (fun e => html_escape (spec_title e)) hostile = ["A&amp;B&lt;C&gt;"; "&lt;b&gt;T&lt;/b&gt;"; "Off"; "A&amp;B&lt;C&gt;"].
Proof. repeat split; reflexivity. Qed.

(* what the history does under the repaired text: jobs are started with the manifest's
   files under the escaped paths, a running script is not restarted, the stops hit the
   named jobs, status and capture yield pages *)
Example hostile_effects :
  map r_effects (app_run repaired modelled_route_table hostile hostile_events) =
  let a := mk_job 0 "a&amp;b&lt;c&gt;" "dup_file-name.ls" in
  let q := mk_job 1 "q&quot;uo&#x27;te" "../x""y'.ls" in
  let a2 := mk_job 2 "a&amp;b&lt;c&gt;" "dup_file-name.ls" in
  let o := mk_job 3 "off" "off-all.ls" in
  let q2 := mk_job 4 "q&quot;uo&#x27;te" "../x""y'.ls" in
  [ [EAdd a]; []; [ESpawn q]; []; []; []; [EStop a]; [EStop q]; []; [ESnapshot]; [];
    [EAdd a2]; [EStop a2; EAdd o]; [EClear; EStop a2; EStop q]; []; [ESpawn q2] ].
Proof. vm_compute. reflexivity. Qed.

Example hostile_pages_render :
  forallb (fun r => match r_page r with PError _ => false | _ => true end)
          (app_run repaired modelled_route_table hostile
             (filter (fun ev => match ev with Request "/stop-all" _ => false | _ => true end) hostile_events)) = true.
Proof. vm_compute. reflexivity. Qed.

Example hostile_reachable_running :
  let st := app_state_after repaired modelled_route_table (firstn 3 hostile_events) (init_app hostile) in
  jc_is_running (html_escape "a&b<c>") (a_jobs st) = true /\
  jc_is_running (html_escape "q""uo'te") (a_jobs st) = true /\
  jc_is_running (html_escape "off") (a_jobs st) = false.
Proof. repeat split; vm_compute; reflexivity. Qed.

(* the pinned text (D30, D31) on the same history: status and capture are errors, the
   jobs get the escaped file names, the stop requests reach nobody *)
Example pinned_effects :
  map r_effects (app_run pinned modelled_route_table hostile (firstn 10 hostile_events)) =
  let a := mk_job 0 "a&amp;b&lt;c&gt;" "dup_file-name.ls" in
  let q := mk_job 1 "q&quot;uo&#x27;te" "../x&quot;y&#x27;.ls" in
  [ [EAdd a]; []; [ESpawn q]; []; []; []; []; []; []; [] ].
Proof. vm_compute. reflexivity. Qed.

Example pinned_status_capture_error :
  map r_page (app_run pinned modelled_route_table hostile [Request "/status" "x"; Request "/capture" "x"]) =
  [PError "TypeError"; PError "TypeError"].
Proof. vm_compute. reflexivity. Qed.

(* with the pinned text the property's statements fail: a witness for each *)
Theorem pinned_refutes_only_manifest_files : exists m evs resp j,
  In resp (app_run pinned modelled_route_table m evs) /\ started (r_effects resp) j /\
  forall e, In e m -> j_file j <> e_file e.
Proof.
  exists hostile, (firstn 3 hostile_events).
  exists (mk_resp [ESpawn (mk_job 1 "q&quot;uo&#x27;te" "../x&quot;y&#x27;.ls")]
                  (PAction "mobile" (mk_view "../x&quot;y&#x27;.ls" "q&quot;uo&#x27;te" "&lt;b&gt;T&lt;/b&gt;" "x" "y" "litBulb" true false) "Started")).
  exists (mk_job 1 "q&quot;uo&#x27;te" "../x&quot;y&#x27;.ls").
  split; [vm_compute; auto|]. split; [right; now left|].
  intros e [<-|[<-|[<-|[<-|[]]]]]; cbn; discriminate.
Qed.

Theorem pinned_refutes_stop_named : exists m evs url st,
  st = app_state_after pinned modelled_route_table evs (init_app m) /\
  classify url = RtStop "a&b<c>" /\ jc_is_running (html_escape "a&b<c>") (a_jobs st) = true /\
  r_effects (snd (handle pinned modelled_route_table url "x" st)) = [] /\
  jc_stop_job_targets (html_escape "a&b<c>") (a_jobs st) <> [].
Proof.
  exists hostile, (firstn 1 hostile_events), "/stop/a&b<c>". eexists. split; [reflexivity|].
  repeat split; try (vm_compute; reflexivity). vm_compute. discriminate.
Qed.

(* ====================================================================== *)
(* J. the documented derivation, collected                                  *)

Theorem default_path_documented : forall e,
  get_script_path e = spec_path e /\
  (forall p, given (e_path e) = Some p -> get_script_path e = p) /\
  (given (e_path e) = None ->
     (forall b, e_file e = String.append b ".ls" -> get_script_path e = b) /\
     ((forall b, e_file e <> String.append b ".ls") -> get_script_path e = e_file e)).
Proof.
  intros e. split; [apply get_script_path_spec|]. rewrite get_script_path_spec. unfold spec_path.
  split.
  - intros p ->. reflexivity.
  - intros ->. split.
    + intros b Hb. apply (is_base_of_unique (e_file e)); [apply base_name_spec|now left].
    + intros Hn. apply (is_base_of_unique (e_file e)); [apply base_name_spec|right; auto].
Qed.

Theorem default_title_documented : forall e,
  get_script_title e = spec_title e /\
  (forall t, given (e_title e) = Some t -> get_script_title e = t) /\
  (given (e_title e) = None ->
     get_script_title e = title_from None (str_map spaced_char (get_script_path e)) /\
     String.length (get_script_title e) = String.length (get_script_path e) /\
     forall i c, String.get i (str_map spaced_char (get_script_path e)) = Some c ->
       String.get i (get_script_title e) =
         Some (title_char (match i with O => None | S k => String.get k (str_map spaced_char (get_script_path e)) end) c)).
Proof.
  intros e. split; [apply get_script_title_spec|]. rewrite get_script_title_spec, get_script_path_spec.
  unfold spec_title. split.
  - intros t ->. reflexivity.
  - intros ->. unfold spec_default_title. split; [reflexivity|]. split.
    + rewrite title_from_length. clear. induction (spec_path e) as [|c s IH]; cbn [str_map String.length]; [reflexivity|now rewrite IH].
    + intros i c Hg. now apply title_from_get.
Qed.

Example documented_examples :
  let mk f p t := mk_entry f p t None "b" "c" None in
  map (fun e => (get_script_path e, get_script_title e))
      [mk "reading.ls" None None; mk "all-off.ls" None None; mk "all_off.ls" (Some "off") (Some "All Off");
       mk "snapshot.ls" (Some "retrieve") None; mk "test-get_title" None None; mk "x.ls.ls" (Some "") (Some "");
       mk ".ls" None None; mk "ls" None None; mk "on5min.LS" None None] =
  [("reading", "Reading"); ("all-off", "All Off"); ("off", "All Off"); ("retrieve", "Retrieve");
   ("test-get_title", "Test Get Title"); ("x.ls", "X.Ls"); ("", ""); ("ls", "Ls"); ("on5min.LS", "On5Min.Ls")].
Proof. vm_compute. reflexivity. Qed.

Theorem str_title_facts : forall s,
  str_title s = title_from None s /\ str_title (str_title s) = str_title s.
Proof. exact (fun s => conj (str_title_spec s) (str_title_idempotent s)). Qed.

Theorem default_title_stable : forall name,
  spec_default_title (spec_default_title name) = spec_default_title name /\
  forall i c, String.get i (spec_default_title name) = Some c -> c <> "_"%char /\ c <> "-"%char.
Proof. exact (fun name => conj (default_title_idempotent name) (default_title_no_separator name)). Qed.

Theorem escape_loses_nothing : forall s t,
  html_unescape (html_escape s) = s /\ (html_escape s = html_escape t -> s = t).
Proof. exact (fun s t => conj (unescape_escape s) (escape_injective s t)). Qed.

Theorem stop_job_targets_facts : forall name s,
  (jc_is_running name s = true ->
     exists j, jc_stop_job_targets name s = [j] /\ j_name j = name /\
               (jc_current s = Some j \/ (In j (jc_background s) /\
                  forall c, jc_current s = Some c -> j_name c <> name))) /\
  (jc_is_running name s = false -> jc_stop_job_targets name s = []).
Proof. exact (fun name s => conj (stop_job_targets_running name s) (stop_job_targets_not_running name s)). Qed.
