(* Proofs about Web/Html.v, Web/WebSpec.v and Web/WebApp.v (C20).  Independent of Gen/*:
   the theorems are stated for any variant / route table equal to the repaired variant /
   the modelled table; Web/WebTie.v instantiates them with what the translator read off
   the source. *)
From Coq Require Import ZArith String Ascii List Bool Arith Lia.
From Bardolph Require Import Base.PyStr Web.Html Web.WebSpec Web.WebApp.
Open Scope string_scope.
Open Scope list_scope.
Import ListNotations.
Open Scope Z_scope.
Open Scope bool_scope.

(* ====================================================================== *)
(* A. html.escape                                                           *)

Lemma sapp_assoc a : forall b c, String.append a (String.append b c) = String.append (String.append a b) c.
Proof. induction a as [|x a IH]; intros b c; cbn [String.append]; [reflexivity|]. now rewrite IH. Qed.

Lemma sapp_nil_r a : String.append a EmptyString = a.
Proof. induction a as [|x a IH]; cbn [String.append]; [reflexivity|]. now rewrite IH. Qed.

Lemma sapp_length a : forall b, String.length (String.append a b) = (String.length a + String.length b)%nat.
Proof. induction a as [|x a IH]; intros b; cbn [String.append String.length]; [reflexivity|]. now rewrite IH. Qed.

Lemma replace_char_app c rep a b :
  replace_char c rep (String.append a b) = String.append (replace_char c rep a) (replace_char c rep b).
Proof.
  induction a as [|x a IH]; cbn [String.append replace_char]; [reflexivity|].
  destruct (Ascii.eqb x c).
  - rewrite IH. apply sapp_assoc.
  - cbn [String.append]. now rewrite IH.
Qed.

Lemma html_escape_cons a r : html_escape (String a r) = String.append (escape_char a) (html_escape r).
Proof.
  unfold html_escape, escape_char.
  cbn [replace_char].
  destruct (Ascii.eqb_spec a c_amp) as [->|Hamp].
  { rewrite !replace_char_app. reflexivity. }
  cbn [replace_char].
  destruct (Ascii.eqb_spec a c_lt) as [->|Hlt].
  { rewrite !replace_char_app. reflexivity. }
  cbn [replace_char].
  destruct (Ascii.eqb_spec a c_gt) as [->|Hgt].
  { rewrite !replace_char_app. reflexivity. }
  cbn [replace_char].
  destruct (Ascii.eqb_spec a c_dq) as [->|Hdq].
  { rewrite !replace_char_app. reflexivity. }
  cbn [replace_char].
  destruct (Ascii.eqb_spec a c_sq) as [->|Hsq].
  { reflexivity. }
  reflexivity.
Qed.

Lemma html_escape_one_pass s : html_escape s = escape_chars s.
Proof.
  induction s as [|a r IH]; [reflexivity|].
  rewrite html_escape_cons. cbn [escape_chars]. now rewrite IH.
Qed.

(* the shape of one escaped character *)
Lemma escape_char_cases c :
  (c = c_amp /\ escape_char c = "&amp;") \/ (c = c_lt /\ escape_char c = "&lt;") \/
  (c = c_gt /\ escape_char c = "&gt;") \/ (c = c_dq /\ escape_char c = "&quot;") \/
  (c = c_sq /\ escape_char c = "&#x27;") \/
  (c <> c_amp /\ is_meta c = false /\ escape_char c = String c EmptyString).
Proof.
  unfold escape_char, is_meta, metachars. cbn [existsb].
  destruct (Ascii.eqb_spec c c_amp); [left; auto|].
  destruct (Ascii.eqb_spec c c_lt); [right; left; auto|].
  destruct (Ascii.eqb_spec c c_gt); [right; right; left; auto|].
  destruct (Ascii.eqb_spec c c_dq); [right; right; right; left; auto|].
  destruct (Ascii.eqb_spec c c_sq); [right; right; right; right; left; auto|].
  right; right; right; right; right. auto.
Qed.

Lemma well_escaped_escape s : well_escaped (html_escape s) = true.
Proof.
  induction s as [|c r IH]; [reflexivity|].
  rewrite html_escape_cons.
  destruct (escape_char_cases c) as [[_ ->]|[[_ ->]|[[_ ->]|[[_ ->]|[[_ ->]|[Hamp [Hmeta ->]]]]]]];
    cbn [String.append]; try (cbn; exact IH).
  cbn [well_escaped].
  destruct (Ascii.eqb_spec c c_amp) as [E|_]; [contradiction|].
  rewrite Hmeta. cbn. exact IH.
Qed.

Lemma prefixb_substring e : forall t, prefixb e t = true -> String.substring 0 (String.length e) t = e.
Proof.
  induction e as [|a e IH]; intros t H; cbn [String.length].
  - destruct t; reflexivity.
  - destruct t as [|b t]; cbn [prefixb] in H; [discriminate|].
    apply andb_true_iff in H. destruct H as [Hab Hp].
    apply Ascii.eqb_eq in Hab. subst b. cbn [String.substring]. now rewrite (IH t Hp).
Qed.

Lemma well_escaped_sound t : well_escaped t = true -> escaped_ok t.
Proof.
  induction t as [|a t IH]; intros H i c Hget.
  - destruct i; discriminate.
  - cbn [well_escaped] in H. apply andb_true_iff in H. destruct H as [Ha Ht].
    destruct i as [|i]; cbn [String.get] in Hget.
    + inversion Hget. subst c. clear Hget.
      destruct (Ascii.eqb_spec a c_amp) as [->|Hne].
      * split.
        { cbn. intros [E|[E|[E|[E|[]]]]]; discriminate. }
        intros _. apply existsb_exists in Ha. destruct Ha as [e [Hin Hp]].
        exists e. split; [exact Hin|]. apply prefixb_substring. exact Hp.
      * split; [|intros E; contradiction].
        apply negb_true_iff in Ha. intros Hin.
        assert (is_meta a = true) as E.
        { unfold is_meta. apply existsb_exists. exists a. split; [exact Hin|apply Ascii.eqb_refl]. }
        congruence.
    + destruct (IH Ht i c Hget) as [H1 H2]. split; [exact H1|].
      intros E. destruct (H2 E) as [e [Hin Hs]]. exists e. split; [exact Hin|].
      cbn [String.substring]. exact Hs.
Qed.

(* the property's sentence: an escaped string contains no less-than, greater-than, double or single quote character, and every
   ampersand in it starts one of the five entities *)
Theorem escaped_no_metachar : forall s, escaped_ok (html_escape s).
Proof. intros s. apply well_escaped_sound. apply well_escaped_escape. Qed.

Lemma unescape_cons c r : unescape_from 0 (String.append (escape_char c) r) = String c (unescape_from 0 r).
Proof.
  destruct (escape_char_cases c) as [[-> ->]|[[-> ->]|[[-> ->]|[[-> ->]|[[-> ->]|[Hamp [_ ->]]]]]]];
    try reflexivity.
  cbn [String.append unescape_from].
  assert (forall e t, prefixb (String c_amp e) (String c t) = false) as Hp.
  { intros e t. cbn [prefixb]. destruct (Ascii.eqb_spec c_amp c) as [E|_]; [symmetry in E; contradiction|reflexivity]. }
  unfold c_amp in Hp.
  rewrite !Hp. reflexivity.
Qed.

Theorem unescape_escape : forall s, html_unescape (html_escape s) = s.
Proof.
  unfold html_unescape. induction s as [|c r IH]; [reflexivity|].
  rewrite html_escape_cons, unescape_cons, IH. reflexivity.
Qed.

Theorem escape_injective : forall s t, html_escape s = html_escape t -> s = t.
Proof.
  intros s t H. rewrite <- (unescape_escape s), <- (unescape_escape t), H. reflexivity.
Qed.

Lemma is_meta_false_not_in c : is_meta c = false -> ~ In c metachars.
Proof.
  intros H Hin. assert (is_meta c = true); [|congruence].
  unfold is_meta. apply existsb_exists. exists c. split; [exact Hin|apply Ascii.eqb_refl].
Qed.

(* a string without markup characters is left as it is *)
Lemma escape_plain s :
  (forall i c, String.get i s = Some c -> c <> c_amp /\ ~ In c metachars) -> html_escape s = s.
Proof.
  induction s as [|a r IH]; intros H; [reflexivity|].
  rewrite html_escape_cons, IH.
  - destruct (H 0%nat a eq_refl) as [Hamp Hmeta].
    destruct (escape_char_cases a) as [[E _]|[[E _]|[[E _]|[[E _]|[[E _]|[_ [_ ->]]]]]]]; try (subst a; exfalso).
    + now apply Hamp.
    + apply Hmeta. cbn. auto.
    + apply Hmeta. cbn. auto.
    + apply Hmeta. cbn. auto.
    + apply Hmeta. cbn. auto 6.
    + reflexivity.
  - intros i c Hg. apply (H (S i) c). exact Hg.
Qed.

(* a string with a markup character is changed (so the pinned job name / file name differ) *)
Lemma escape_changes s i c :
  String.get i s = Some c -> (c = c_amp \/ In c metachars) -> html_escape s <> s.
Proof.
  intros Hg Hc E.
  assert (escaped_ok s) as Hok by (rewrite <- E; apply escaped_no_metachar).
  destruct (Hok i c Hg) as [Hnm Hamp].
  destruct Hc as [->|Hin]; [|contradiction].
  (* an ampersand of s starts an entity in s; but s = escape s, whose ampersands come doubled... use lengths *)
  clear Hnm Hamp Hok.
  assert (forall t, String.length t <= String.length (html_escape t))%nat as Hle.
  { induction t as [|a t IHt]; [cbn; lia|]. rewrite html_escape_cons.
    destruct (escape_char_cases a) as [[_ ->]|[[_ ->]|[[_ ->]|[[_ ->]|[[_ ->]|[_ [_ ->]]]]]]];
      cbn [String.append String.length]; lia. }
  assert (forall t j, String.get j t = Some c_amp -> String.length t < String.length (html_escape t))%nat as Hlt.
  { induction t as [|a t IHt]; intros j Hj; [destruct j; discriminate|].
    rewrite html_escape_cons. destruct j as [|j]; cbn [String.get] in Hj.
    - inversion Hj. subst a. change (escape_char c_amp) with "&amp;". cbn [String.append String.length]. specialize (Hle t). lia.
    - specialize (IHt j Hj).
      destruct (escape_char_cases a) as [[_ ->]|[[_ ->]|[[_ ->]|[[_ ->]|[[_ ->]|[_ [_ ->]]]]]]];
        cbn [String.append String.length]; lia. }
  specialize (Hlt s i Hg). rewrite E in Hlt. lia.
Qed.

(* ====================================================================== *)
(* B. default path and title                                                *)

Lemma substring_prefix b : forall x, String.substring 0 (String.length b) (String.append b x) = b.
Proof.
  induction b as [|c b IH]; intros x; cbn [String.length String.append String.substring].
  - destruct x; reflexivity.
  - now rewrite IH.
Qed.

Lemma substring_suffix b : forall x, String.substring (String.length b) (String.length x) (String.append b x) = x.
Proof.
  induction b as [|c b IH]; intros x; cbn [String.length String.append String.substring].
  - induction x as [|d x IHx]; cbn [String.length String.substring]; [reflexivity|]. now rewrite IHx.
  - apply IH.
Qed.

Lemma substring_split s : forall i, (i <= String.length s)%nat ->
  s = String.append (String.substring 0 i s) (String.substring i (String.length s - i) s).
Proof.
  induction s as [|c s IH]; intros i Hi; cbn [String.length] in *.
  - destruct i; [reflexivity|lia].
  - destruct i as [|i].
    + cbn [String.substring String.append Nat.sub]. f_equal.
      clear. induction s as [|d s IHs]; cbn [String.length String.substring]; [reflexivity|]. now rewrite <- IHs.
    + cbn [String.substring String.append Nat.sub]. f_equal. apply IH. lia.
Qed.

Lemma suffixb_intro b suf : suffixb suf (String.append b suf) = true.
Proof.
  unfold suffixb. rewrite sapp_length.
  replace (String.length b + String.length suf - String.length suf)%nat with (String.length b) by lia.
  rewrite substring_suffix. rewrite String.eqb_refl.
  apply andb_true_iff. split; [apply Nat.leb_le; lia|reflexivity].
Qed.

Lemma suffixb_elim suf s : suffixb suf s = true ->
  s = String.append (String.substring 0 (String.length s - String.length suf) s) suf.
Proof.
  unfold suffixb. intros H. apply andb_true_iff in H. destruct H as [Hle He].
  apply Nat.leb_le in Hle. apply String.eqb_eq in He.
  assert (String.length s - String.length suf <= String.length s)%nat as Hi by lia.
  pose proof (substring_split s _ Hi) as E.
  replace (String.length s - (String.length s - String.length suf))%nat with (String.length suf) in E by lia.
  rewrite He in E. exact E.
Qed.

(* declarative reading of "the file name without a final .ls" *)
Definition is_base_of (f b : string) : Prop :=
  (f = String.append b ".ls") \/ ((forall x, f <> String.append x ".ls") /\ b = f).

Lemma base_name_spec f : is_base_of f (base_name f).
Proof.
  unfold is_base_of, base_name. destruct (suffixb ".ls" f) eqn:H.
  - left. apply suffixb_elim in H. exact H.
  - right. split; [|reflexivity]. intros x E. subst f. rewrite suffixb_intro in H. discriminate.
Qed.

Lemma is_base_of_unique f b1 b2 : is_base_of f b1 -> is_base_of f b2 -> b1 = b2.
Proof.
  intros [E1|[N1 E1]] [E2|[N2 E2]].
  - subst f. assert (String.substring 0 (String.length b1) (String.append b1 ".ls") = String.substring 0 (String.length b1) (String.append b2 ".ls")) as E by now rewrite E2.
    rewrite substring_prefix in E.
    assert (String.length b1 = String.length b2) as L.
    { assert (String.length (String.append b1 ".ls") = String.length (String.append b2 ".ls")) as L by now rewrite E2.
      rewrite !sapp_length in L. lia. }
    rewrite L, substring_prefix in E. exact E.
  - exfalso. exact (N2 _ E1).
  - exfalso. exact (N1 _ E2).
  - congruence.
Qed.

Lemma strip_ls_app b : strip_ls (String.append b ".ls") = b.
Proof.
  induction b as [|c b IH]; [reflexivity|].
  cbn [String.append strip_ls].
  destruct (String.eqb_spec (String c (String.append b ".ls")) ".ls") as [E|_].
  - exfalso. assert (String.length (String c (String.append b ".ls")) = 3%nat) as L by now rewrite E.
    cbn [String.length] in L. rewrite sapp_length in L. cbn in L. lia.
  - now rewrite IH.
Qed.

Lemma strip_ls_id s : (forall x, s <> String.append x ".ls") -> strip_ls s = s.
Proof.
  induction s as [|c s IH]; intros H; [reflexivity|].
  cbn [strip_ls]. destruct (String.eqb_spec (String c s) ".ls") as [E|_].
  - exfalso. apply (H EmptyString). exact E.
  - rewrite IH; [reflexivity|]. intros x E. apply (H (String c x)). cbn [String.append]. now rewrite E.
Qed.

Lemma strip_ls_spec f : is_base_of f (strip_ls f).
Proof.
  destruct (base_name_spec f) as [E|[N _]].
  - left. remember (base_name f) as b eqn:Hb. clear Hb. subst f. now rewrite strip_ls_app.
  - right. split; [exact N|]. now apply strip_ls_id.
Qed.

Lemma strip_ls_base_name f : strip_ls f = base_name f.
Proof. apply (is_base_of_unique f); [apply strip_ls_spec|apply base_name_spec]. Qed.

Lemma get_script_path_spec e : get_script_path e = spec_path e.
Proof.
  unfold get_script_path, spec_path, cfg_get, given.
  destruct (e_path e) as [[|c p]|]; cbn [String.length Nat.eqb]; try apply strip_ls_base_name. reflexivity.
Qed.

(* ---------- characters ---------- *)

Lemma ascii_all (P : ascii -> Prop) :
  (forall b0 b1 b2 b3 b4 b5 b6 b7, P (Ascii b0 b1 b2 b3 b4 b5 b6 b7)) -> forall c, P c.
Proof. intros H [b0 b1 b2 b3 b4 b5 b6 b7]. apply H. Qed.

Ltac all_ascii :=
  let c := fresh "c" in
  intros c; destruct c as [[] [] [] [] [] [] [] []]; vm_compute; try reflexivity; try discriminate; auto.

Lemma lower_not_upper : forall c, is_lower c = true -> is_upper c = false.
Proof. all_ascii. Qed.
Lemma upper_not_lower : forall c, is_upper c = true -> is_lower c = false.
Proof. all_ascii. Qed.
Lemma to_upper_lower : forall c, is_lower c = true -> is_upper (to_upper c) = true.
Proof. all_ascii. Qed.
Lemma to_lower_upper : forall c, is_upper c = true -> is_lower (to_lower c) = true.
Proof. all_ascii. Qed.
Lemma to_upper_letter : forall c, is_letter (to_upper c) = is_letter c.
Proof. all_ascii. Qed.
Lemma to_lower_letter : forall c, is_letter (to_lower c) = is_letter c.
Proof. all_ascii. Qed.
Lemma to_upper_idem : forall c, to_upper (to_upper c) = to_upper c.
Proof. all_ascii. Qed.
Lemma to_lower_idem : forall c, to_lower (to_lower c) = to_lower c.
Proof. all_ascii. Qed.
Lemma spaced_letter : forall c, is_letter (spaced_char c) = is_letter c.
Proof. all_ascii. Qed.
Lemma spaced_of_letter : forall c, is_letter c = true -> spaced_char c = c.
Proof. all_ascii. Qed.
Lemma spaced_idem : forall c, spaced_char (spaced_char c) = spaced_char c.
Proof. all_ascii. Qed.

Definition prev_cased (prev : option ascii) : bool :=
  match prev with Some p => is_letter p | None => false end.

Lemma title_aux_spec s : forall prev, title_aux (prev_cased prev) s = title_from prev s.
Proof.
  induction s as [|c s IH]; intros prev; [reflexivity|].
  cbn [title_aux title_from]. rewrite <- (IH (Some c)). cbn [prev_cased].
  unfold title_char, is_letter.
  destruct (is_lower c) eqn:Hl.
  - rewrite (lower_not_upper c Hl). cbn [orb]. f_equal.
    unfold to_lower. rewrite (lower_not_upper c Hl).
    destruct prev as [p|]; cbn [prev_cased]; [unfold is_letter; destruct (is_upper p || is_lower p)|]; reflexivity.
  - destruct (is_upper c) eqn:Hu; cbn [orb]; [|reflexivity]. f_equal.
    unfold to_upper. rewrite Hl.
    destruct prev as [p|]; cbn [prev_cased]; [unfold is_letter; destruct (is_upper p || is_lower p)|]; reflexivity.
Qed.

(* str.title() is the documented capitalisation *)
Lemma str_title_spec s : str_title s = title_from None s.
Proof. exact (title_aux_spec s None). Qed.

Lemma replace_spaced s : replace_char "-"%char " " (replace_char "_"%char " " s) = str_map spaced_char s.
Proof.
  induction s as [|c s IH]; [reflexivity|].
  cbn [replace_char str_map]. unfold spaced_char.
  destruct (Ascii.eqb_spec c "_"%char) as [->|H1].
  - cbn [String.append replace_char orb]. cbn. f_equal. exact IH.
  - cbn [replace_char orb]. destruct (Ascii.eqb_spec c "-"%char) as [->|H2].
    + cbn [String.append]. f_equal. exact IH.
    + f_equal. exact IH.
Qed.

Lemma get_script_title_spec e : get_script_title e = spec_title e.
Proof.
  unfold get_script_title, spec_title, cfg_get, given.
  destruct (e_title e) as [[|c t]|]; cbn [String.length Nat.eqb]; try reflexivity;
    rewrite replace_spaced, str_title_spec, get_script_path_spec; reflexivity.
Qed.

(* position-wise reading of the capitalisation *)
Lemma title_from_length s : forall prev, String.length (title_from prev s) = String.length s.
Proof. induction s as [|c s IH]; intros prev; cbn [title_from String.length]; [reflexivity|]. now rewrite IH. Qed.

Lemma title_from_get s : forall prev i c,
  String.get i s = Some c ->
  String.get i (title_from prev s) =
    Some (title_char (match i with O => prev | S j => String.get j s end) c).
Proof.
  induction s as [|a s IH]; intros prev i c Hg; [destruct i; discriminate|].
  destruct i as [|i]; cbn [String.get title_from] in *.
  - inversion Hg. reflexivity.
  - rewrite (IH (Some a) i c Hg). destruct i; reflexivity.
Qed.

(* letters stay letters, everything else is untouched *)
Lemma title_char_letter prev c : is_letter (title_char prev c) = is_letter c.
Proof.
  unfold title_char. destruct (is_letter c) eqn:H; [|exact H].
  destruct prev as [p|]; [destruct (is_letter p)|]; now rewrite ?to_upper_letter, ?to_lower_letter.
Qed.

Lemma title_char_prev_ext p1 p2 c : prev_cased p1 = prev_cased p2 -> title_char p1 c = title_char p2 c.
Proof.
  intros H. unfold title_char. destruct (is_letter c); [|reflexivity].
  destruct p1 as [a|], p2 as [b|]; cbn [prev_cased] in H.
  - rewrite H. reflexivity.
  - rewrite H. reflexivity.
  - rewrite <- H. reflexivity.
  - reflexivity.
Qed.

Lemma title_char_idem prev prev' c :
  prev_cased prev' = prev_cased prev -> title_char prev' (title_char prev c) = title_char prev c.
Proof.
  intros Hp. unfold title_char at 1. rewrite title_char_letter.
  unfold title_char. destruct (is_letter c) eqn:H; [|reflexivity].
  destruct prev as [p|], prev' as [p'|]; cbn [prev_cased] in Hp.
  - rewrite Hp. destruct (is_letter p); now rewrite ?to_upper_idem, ?to_lower_idem.
  - rewrite <- Hp. apply to_upper_idem.
  - rewrite Hp. apply to_upper_idem.
  - apply to_upper_idem.
Qed.

Lemma title_from_idem s : forall prev prev',
  prev_cased prev' = prev_cased prev -> title_from prev' (title_from prev s) = title_from prev s.
Proof.
  induction s as [|c s IH]; intros prev prev' Hp; [reflexivity|].
  cbn [title_from]. rewrite (title_char_idem prev prev' c Hp). f_equal.
  apply IH. cbn [prev_cased]. apply title_char_letter.
Qed.

Theorem str_title_idempotent : forall s, str_title (str_title s) = str_title s.
Proof. intros s. rewrite !str_title_spec. now apply title_from_idem. Qed.

Lemma spaced_title_char prev c :
  spaced_char (title_char prev c) = title_char prev (spaced_char c).
Proof.
  unfold title_char at 2. rewrite spaced_letter.
  unfold title_char. destruct (is_letter c) eqn:H.
  - rewrite (spaced_of_letter c H).
    destruct prev as [p|]; [destruct (is_letter p)|]; apply spaced_of_letter;
      now rewrite ?to_upper_letter, ?to_lower_letter.
  - reflexivity.
Qed.

Lemma spaced_title_from s : forall prev prev',
  prev_cased prev' = prev_cased prev ->
  str_map spaced_char (title_from prev s) = title_from prev' (str_map spaced_char s).
Proof.
  induction s as [|c s IH]; intros prev prev' Hp; [reflexivity|].
  cbn [title_from str_map]. rewrite spaced_title_char. f_equal.
  - apply title_char_prev_ext. now symmetry.
  - apply IH. cbn [prev_cased]. now rewrite spaced_letter.
Qed.

Lemma str_map_spaced_idem s : str_map spaced_char (str_map spaced_char s) = str_map spaced_char s.
Proof. induction s as [|c s IH]; cbn [str_map]; [reflexivity|]. now rewrite spaced_idem, IH. Qed.

(* deriving a title from a derived title changes nothing *)
Theorem default_title_idempotent : forall name,
  spec_default_title (spec_default_title name) = spec_default_title name.
Proof.
  intros name. unfold spec_default_title.
  rewrite (spaced_title_from _ None None eq_refl), str_map_spaced_idem.
  now apply title_from_idem.
Qed.

(* a derived title contains neither underscore nor dash *)
Theorem default_title_no_separator : forall name i c,
  String.get i (spec_default_title name) = Some c -> c <> "_"%char /\ c <> "-"%char.
Proof.
  intros name i c Hg.
  assert (str_map spaced_char (spec_default_title name) = spec_default_title name) as E.
  { unfold spec_default_title. now rewrite (spaced_title_from _ None None eq_refl), str_map_spaced_idem. }
  assert (forall t j d, String.get j (str_map spaced_char t) = Some d -> d <> "_"%char /\ d <> "-"%char) as H.
  { induction t as [|a t IHt]; intros j d Hj; [destruct j; discriminate|].
    destruct j as [|j]; cbn [str_map String.get] in Hj.
    - inversion Hj. clear. revert a. all_ascii; split; discriminate.
    - exact (IHt j d Hj). }
  rewrite <- E in Hg. exact (H _ _ _ Hg).
Qed.

(* ---------- the literal reading of the documentation on simple names ---------- *)

Lemma split_on_nonempty sep s : split_on sep s <> [].
Proof.
  destruct s as [|c s]; cbn [split_on]; [discriminate|].
  destruct (Ascii.eqb c sep); [discriminate|]. destruct (split_on sep s); discriminate.
Qed.

Lemma join_cons_char a w ws : join_with " " (String a w :: ws) = String a (join_with " " (w :: ws)).
Proof. destruct ws; reflexivity. Qed.

Definition lower_or_space (c : ascii) : bool := is_lower c || Ascii.eqb c " "%char.

Lemma lower_or_space_cases : forall c, lower_or_space c = true ->
  (c = " "%char) \/ (is_lower c = true /\ is_letter c = true /\ to_lower c = c /\ Ascii.eqb c " "%char = false).
Proof. all_ascii. Qed.

Lemma title_words t :
  all_chars lower_or_space t = true ->
  title_from (Some " "%char) t = capitalize_words t /\
  title_from None t = capitalize_words t /\
  forall p, is_letter p = true ->
    title_from (Some p) t =
      join_with " " (match split_on " "%char t with w :: ws => w :: map capitalize ws | [] => [] end).
Proof.
  induction t as [|c t IH]; intros H.
  - repeat split; reflexivity.
  - cbn [all_chars] in H. apply andb_true_iff in H. destruct H as [Hc Ht].
    destruct (IH Ht) as [IH1 [IH2 IH3]].
    destruct (lower_or_space_cases c Hc) as [->|[Hl [Hlet [Hlow Hsp]]]].
    + (* a space: a new word starts *)
      assert (forall prev, title_from prev (String " "%char t) = String " "%char (capitalize_words t)) as E.
      { intros prev. cbn [title_from]. rewrite IH1. reflexivity. }
      assert (capitalize_words (String " "%char t) = String " "%char (capitalize_words t)) as E2.
      { unfold capitalize_words. cbn [split_on]. cbn [Ascii.eqb Bool.eqb]. cbn [map capitalize].
        destruct (split_on " "%char t) eqn:Hs; [exfalso; exact (split_on_nonempty _ _ Hs)|]. reflexivity. }
      repeat split.
      * now rewrite E, E2.
      * now rewrite E, E2.
      * intros p Hp. rewrite E. unfold capitalize_words. cbn [split_on]. cbn [Ascii.eqb Bool.eqb].
        destruct (split_on " "%char t) eqn:Hs; [exfalso; exact (split_on_nonempty _ _ Hs)|]. reflexivity.
    + (* a letter *)
      assert (split_on " "%char (String c t) =
              match split_on " "%char t with w :: ws => String c w :: ws | [] => [String c EmptyString] end) as Es.
      { cbn [split_on]. now rewrite Hsp. }
      destruct (split_on " "%char t) as [|w ws] eqn:Hs; [exfalso; exact (split_on_nonempty _ _ Hs)|].
      assert (title_from (Some c) t = join_with " " (w :: map capitalize ws)) as E3 by (now apply IH3).
      assert (capitalize_words (String c t) = String (to_upper c) (join_with " " (w :: map capitalize ws))) as E2.
      { unfold capitalize_words. rewrite Es. cbn [map capitalize]. apply join_cons_char. }
      repeat split.
      * cbn [title_from]. rewrite E3, E2. f_equal. unfold title_char. now rewrite Hlet.
      * cbn [title_from]. rewrite E3, E2. f_equal. unfold title_char. now rewrite Hlet.
      * intros p Hp. cbn [title_from]. rewrite E3, Es. rewrite join_cons_char. f_equal.
        unfold title_char. now rewrite Hlet, Hp.
Qed.

Lemma simple_spaced : forall c, simple_name_char c = true -> lower_or_space (spaced_char c) = true.
Proof. all_ascii. Qed.

(* for names made of lower-case letters, underscores and dashes (the documented examples)
   the title is: dashes and underscores become spaces, each word gets a capital *)
Theorem default_title_simple_names : forall name,
  all_chars simple_name_char name = true ->
  spec_default_title name = capitalize_words (str_map spaced_char name).
Proof.
  intros name H. unfold spec_default_title.
  apply (title_words (str_map spaced_char name)).
  induction name as [|c s IH]; [reflexivity|].
  cbn [all_chars str_map] in *. apply andb_true_iff in H. destruct H as [Hc Hs].
  rewrite (simple_spaced c Hc). now apply IH.
Qed.
