(* Model of Python's html.escape(s, quote=True) on ASCII strings, and the ASCII
   character helpers (case tests and conversions) that str.title / str.lower need.
   No proofs here.

   Lib/html/__init__.py replaces, in this order (the ampersand "must be done first"):
       ampersand -> &amp;   less-than -> &lt;   greater-than -> &gt;
       and, because quote is true, double quote -> &quot;   single quote -> &#x27;
   str.replace with a one-character pattern rewrites every occurrence, left to right. *)
From Coq Require Import String Ascii List Bool Arith.
Import ListNotations.
Open Scope string_scope.

Definition c_amp : ascii := "&"%char.
Definition c_lt : ascii := "<"%char.
Definition c_gt : ascii := ">"%char.
Definition c_dq : ascii := """"%char.
Definition c_sq : ascii := "'"%char.

(* s.replace(c, rep) for a one-character c *)
Fixpoint replace_char (c : ascii) (rep s : string) : string :=
  match s with
  | EmptyString => EmptyString
  | String a r =>
      if Ascii.eqb a c then String.append rep (replace_char c rep r)
      else String a (replace_char c rep r)
  end.

(* the five replacements, in Python's order *)
Definition html_escape (s : string) : string :=
  replace_char c_sq "&#x27;"
    (replace_char c_dq "&quot;"
      (replace_char c_gt "&gt;"
        (replace_char c_lt "&lt;"
          (replace_char c_amp "&amp;" s)))).

(* the same function written as one pass (equality: WebProofs.html_escape_one_pass) *)
Definition escape_char (c : ascii) : string :=
  if Ascii.eqb c c_amp then "&amp;"
  else if Ascii.eqb c c_lt then "&lt;"
  else if Ascii.eqb c c_gt then "&gt;"
  else if Ascii.eqb c c_dq then "&quot;"
  else if Ascii.eqb c c_sq then "&#x27;"
  else String c EmptyString.

Fixpoint escape_chars (s : string) : string :=
  match s with
  | EmptyString => EmptyString
  | String c r => String.append (escape_char c) (escape_chars r)
  end.

(* ---------- ASCII letters ---------- *)

Definition is_upper (c : ascii) : bool :=
  let n := nat_of_ascii c in (Nat.leb 65 n && Nat.leb n 90)%bool.
Definition is_lower (c : ascii) : bool :=
  let n := nat_of_ascii c in (Nat.leb 97 n && Nat.leb n 122)%bool.
Definition is_letter (c : ascii) : bool := (is_upper c || is_lower c)%bool.
Definition to_upper (c : ascii) : ascii :=
  if is_lower c then ascii_of_nat (nat_of_ascii c - 32) else c.
Definition to_lower (c : ascii) : ascii :=
  if is_upper c then ascii_of_nat (nat_of_ascii c + 32) else c.

Fixpoint str_map (f : ascii -> ascii) (s : string) : string :=
  match s with
  | EmptyString => EmptyString
  | String c r => String (f c) (str_map f r)
  end.

(* str.lower() on ASCII *)
Definition str_lower (s : string) : string := str_map to_lower s.
