(* Model of web/web_app.py (ScriptControl, WebApp) and web/front_end.py (FrontEnd and the
   blueprint's route table), over the abstract job controller of Web/WebSpec.v.
   Written from the code; the places where the pinned tree and the repaired tree differ
   (D30, D31) are selected by a [variant], which the translator reads off the source
   (Gen/WebGen.v); so is the route table.  No proofs here. *)
From Coq Require Import ZArith String Ascii List Bool.
From Bardolph Require Import Base.PyStr Web.Html.
From Bardolph Require Export Web.WebSpec.
Open Scope string_scope.
Open Scope list_scope.
Import ListNotations.
Open Scope Z_scope.
Open Scope bool_scope.

(* ---------- which text the source has ---------- *)

Record variant := mk_variant {
  v_open_raw : bool;      (* queue_script joins the unescaped file name (D31 repaired) *)
  v_stop_table : bool;    (* stop_script stops the job under the name it was queued with (D31 repaired) *)
  v_filter : bool }.      (* get_status / snapshot pass the filter argument to generate (D30 repaired) *)
Definition repaired : variant := mk_variant true true true.
Definition pinned : variant := mk_variant false false false.

(* ---------- str.title on ASCII ---------- *)

(* CPython: a cased character is title-cased when the previous character is not cased and
   lower-cased when it is; uncased characters are copied and reset the flag. *)
Fixpoint title_aux (prev_cased : bool) (s : string) : string :=
  match s with
  | EmptyString => EmptyString
  | String c r =>
      if is_lower c then String (if prev_cased then c else to_upper c) (title_aux true r)
      else if is_upper c then String (if prev_cased then to_lower c else c) (title_aux true r)
      else String c (title_aux false r)
  end.
Definition str_title (s : string) : string := title_aux false s.

(* ---------- WebApp.get_script_path / get_script_title ---------- *)

(* path[:-3] if path[-3:] == ".ls" else path *)
Fixpoint strip_ls (s : string) : string :=
  match s with
  | EmptyString => EmptyString
  | String c r => if String.eqb s ".ls" then EmptyString else String c (strip_ls r)
  end.

Definition cfg_get (o : option string) : string := match o with Some s => s | None => EmptyString end.

Definition get_script_path (e : entry) : string :=
  let path := cfg_get (e_path e) in
  if Nat.eqb (String.length path) 0 then strip_ls (e_file e) else path.

Definition get_script_title (e : entry) : string :=
  let title := cfg_get (e_title e) in
  if Nat.eqb (String.length title) 0 then
    let name := get_script_path e in
    let spaced := replace_char "-"%char " " (replace_char "_"%char " " name) in
    str_title spaced
  else title.

(* ---------- ScriptControl ---------- *)

Record control := mk_control {
  c_file : string;         (* escaped *)
  c_source : string;       (* the manifest's file name as written *)
  c_run_bg : bool;
  c_path : string;         (* escaped; also the job name *)
  c_title : string;
  c_background : string;
  c_color : string;
  c_icon : string }.

Definition new_control (file_name : string) (run_background : bool) (title path background color icon : string) : control :=
  mk_control (html_escape file_name) file_name run_background (html_escape path) (html_escape title)
             (html_escape background) (html_escape color) icon.

(* the attributes ScriptControl.__init__ passes through html.escape *)
Definition modelled_escaped_fields : list string := ["file_name"; "path"; "title"; "background"; "color"].

(* ---------- the table: a Python dict keyed by the unescaped path ---------- *)

Fixpoint dict_put {V} (k : string) (v : V) (d : list (string * V)) : list (string * V) :=
  match d with
  | [] => [(k, v)]
  | (k', v') :: r => if String.eqb k' k then (k, v) :: r else (k', v') :: dict_put k v r
  end.
Fixpoint dict_get {V} (k : string) (d : list (string * V)) : option V :=
  match d with
  | [] => None
  | (k', v) :: r => if String.eqb k' k then Some v else dict_get k r
  end.

Definition control_of (e : entry) : control :=
  new_control (e_file e)
              (match e_run_bg e with Some b => b | None => false end)
              (get_script_title e) (get_script_path e) (e_background e) (e_color e)
              (match e_icon e with Some i => i | None => "litBulb" end).

Definition load_manifest (m : manifest) : list (string * control) :=
  fold_left (fun d e => dict_put (get_script_path e) (control_of e) d) m [].

(* ---------- WebApp ---------- *)

Record app_state := mk_app { a_table : list (string * control); a_jobs : jc; a_next : Z }.
Definition init_app (m : manifest) : app_state := mk_app (load_manifest m) jc_empty 0.

Record response := mk_resp { r_effects : list effect; r_page : page }.

Definition view_of (c : control) (running : bool) : view :=
  mk_view (c_file c) (c_path c) (c_title c) (c_background c) (c_color c) (c_icon c) (c_run_bg c) running.

(* copy of the control with running = is_running(control.path) *)
Definition get_script_control (path : string) (st : app_state) : option (control * bool) :=
  match dict_get path (a_table st) with
  | Some c => Some (c, jc_is_running (c_path c) (a_jobs st))
  | None => None
  end.
Definition get_script_list (st : app_state) : list view :=
  map (fun kv => view_of (snd kv) (jc_is_running (c_path (snd kv)) (a_jobs st))) (a_table st).

Definition queue_script (v : variant) (c : control) (st : app_state) : app_state * list effect :=
  let fname := if v_open_raw v then c_source c else c_file c in
  let j := mk_job (a_next st) (c_path c) fname in
  if c_run_bg c then (mk_app (a_table st) (jc_spawn j (a_jobs st)) (a_next st + 1), [ESpawn j])
  else (mk_app (a_table st) (jc_add j (a_jobs st)) (a_next st + 1), [EAdd j]).

Definition app_stop_script (v : variant) (path : string) (st : app_state) : list effect :=
  if v_stop_table v then
    match dict_get path (a_table st) with
    | Some c => map EStop (jc_stop_job_targets (c_path c) (a_jobs st))
    | None => []
    end
  else map EStop (jc_stop_job_targets path (a_jobs st)).
Definition app_stop_current (st : app_state) : list effect := map EStop (jc_stop_current_targets (a_jobs st)).
Definition app_stop_all (st : app_state) : app_state * list effect :=
  (mk_app (a_table st) (jc_clear (a_jobs st)) (a_next st),
   EClear :: map EStop (jc_stop_current_targets (a_jobs st)) ++ map EStop (jc_stop_background_targets (a_jobs st))).

(* ---------- FrontEnd ---------- *)

Definition agent_class (user_agent : string) : string :=
  let header := str_lower user_agent in
  if substr_in "android" header || substr_in "iphone" header then "mobile"
  else if substr_in "smarttv" header then "tv"
  else "desktop".

Definition fe_index (ua : string) (st : app_state) : page := PIndex (agent_class ua) (get_script_list st).
Definition render_action (ua : string) (sc : control * bool) (message : string) : page :=
  PAction (agent_class ua) (view_of (fst sc) (snd sc)) message.
Definition none_has_no_attribute : page := PError "AttributeError".

Definition fe_run_script (v : variant) (path ua : string) (st : app_state) : app_state * response :=
  match get_script_control path st with
  | Some sc =>
      if snd sc then (st, mk_resp [] (render_action ua sc "Started"))
      else let '(st', eff) := queue_script v (fst sc) st in (st', mk_resp eff (render_action ua sc "Started"))
  | None => (st, mk_resp [] (fe_index ua st))
  end.

Definition fe_off (v : variant) (ua : string) (st : app_state) : app_state * response :=
  let stops := app_stop_current st in
  match get_script_control "off" st with
  | Some sc => let '(st', eff) := queue_script v (fst sc) st in (st', mk_resp (stops ++ eff) (render_action ua sc ""))
  | None => (st, mk_resp stops none_has_no_attribute)
  end.

Definition fe_capture (v : variant) (ua : string) (st : app_state) : app_state * response :=
  if v_filter v then (st, mk_resp [ESnapshot] (fe_index ua st))
  else (st, mk_resp [] (PError "TypeError")).

Definition fe_stop_script (v : variant) (path ua : string) (st : app_state) : app_state * response :=
  match get_script_control path st with
  | Some sc =>
      if snd sc then (st, mk_resp (app_stop_script v path st) (render_action ua sc "Stop Requested"))
      else (st, mk_resp [] (fe_index ua st))
  | None => (st, mk_resp [] (fe_index ua st))
  end.

Definition fe_stop_current (ua : string) (st : app_state) : app_state * response :=
  let stops := app_stop_current st in
  match get_script_control "stop-current" st with
  | Some sc => (st, mk_resp stops (render_action ua sc "Requested"))
  | None => (st, mk_resp stops none_has_no_attribute)
  end.

Definition fe_stop_all (ua : string) (st : app_state) : app_state * response :=
  let '(st', eff) := app_stop_all st in
  match get_script_control "stop-all" st with
  | Some sc => (st', mk_resp eff (render_action ua sc "Requested"))
  | None => (st', mk_resp eff none_has_no_attribute)
  end.

Definition fe_status (v : variant) (ua : string) (st : app_state) : app_state * response :=
  if v_filter v then
    (st, mk_resp [] (PStatus (agent_class ua)
                             (map j_name (jc_background (a_jobs st)))
                             (option_map j_name (jc_current (a_jobs st)))
                             (map j_name (jc_queue (a_jobs st)))))
  else (st, mk_resp [] (PError "TypeError")).

(* ---------- the blueprint's rules and URL matching ---------- *)

(* (rule, FrontEnd method the view function calls), in registration order *)
Definition modelled_route_table : list (string * string) :=
  [("/", "index"); ("/capture", "capture"); ("/off", "off"); ("/status", "status");
   ("/stop/<script_path>", "stop_script"); ("/stop-current", "stop_current");
   ("/stop-all", "stop_all"); ("/<script_path>", "run_script")].

Inductive seg := SegStatic (s : string) | SegParam.

Fixpoint last_char (s : string) : option ascii :=
  match s with
  | EmptyString => None
  | String c EmptyString => Some c
  | String _ r => last_char r
  end.
Definition seg_of (part : string) : seg :=
  match part, last_char part with
  | String c _, Some d => if Ascii.eqb c "<"%char && Ascii.eqb d ">"%char then SegParam else SegStatic part
  | _, _ => SegStatic part
  end.
Definition parse_rule (rule : string) : option (list seg) :=
  match url_parts rule with Some parts => Some (map seg_of parts) | None => None end.
Definition is_static (segs : list seg) : bool :=
  forallb (fun s => match s with SegStatic _ => true | SegParam => false end) segs.

(* the default converter matches one or more characters other than '/' *)
Fixpoint match_segs (segs : list seg) (parts : list string) : option (list string) :=
  match segs, parts with
  | [], [] => Some []
  | SegStatic s :: segs', p :: parts' => if String.eqb p s then match_segs segs' parts' else None
  | SegParam :: segs', p :: parts' =>
      if String.eqb p "" then None
      else match match_segs segs' parts' with Some args => Some (p :: args) | None => None end
  | _, _ => None
  end.

Fixpoint first_match (rules : list (list seg * string)) (parts : list string) : option (string * list string) :=
  match rules with
  | [] => None
  | (segs, h) :: r =>
      match match_segs segs parts with
      | Some args => Some (h, args)
      | None => first_match r parts
      end
  end.

Definition parsed_rules (table : list (string * string)) : list (list seg * string) :=
  flat_map (fun rh => match parse_rule (fst rh) with Some segs => [(segs, snd rh)] | None => [] end) table.

(* rules without converters are tried before rules with converters *)
Definition resolve (table : list (string * string)) (url : string) : option (string * list string) :=
  match url_parts url with
  | None => None
  | Some parts =>
      let rules := parsed_rules table in
      first_match (filter (fun r => is_static (fst r)) rules ++ filter (fun r => negb (is_static (fst r))) rules) parts
  end.

Definition route_of (handler : string) (args : list string) : route :=
  match args with
  | [] =>
      if String.eqb handler "index" then RtIndex
      else if String.eqb handler "capture" then RtCapture
      else if String.eqb handler "off" then RtOff
      else if String.eqb handler "status" then RtStatus
      else if String.eqb handler "stop_current" then RtStopCurrent
      else if String.eqb handler "stop_all" then RtStopAll
      else RtNone
  | [p] =>
      if String.eqb handler "stop_script" then RtStop p
      else if String.eqb handler "run_script" then RtRun p
      else RtNone
  | _ => RtNone
  end.

Definition dispatch (table : list (string * string)) (url : string) : route :=
  match resolve table url with
  | Some (h, args) => route_of h args
  | None => RtNone
  end.

(* ---------- one request, one event, a history ---------- *)

Definition handle (v : variant) (table : list (string * string)) (url ua : string) (st : app_state) : app_state * response :=
  match dispatch table url with
  | RtIndex => (st, mk_resp [] (fe_index ua st))
  | RtCapture => fe_capture v ua st
  | RtOff => fe_off v ua st
  | RtStatus => fe_status v ua st
  | RtStop p => fe_stop_script v p ua st
  | RtStopCurrent => fe_stop_current ua st
  | RtStopAll => fe_stop_all ua st
  | RtRun p => fe_run_script v p ua st
  | RtNone => (st, mk_resp [] PNotFound)
  end.

Definition app_step (v : variant) (table : list (string * string)) (ev : event) (st : app_state) : app_state * response :=
  match ev with
  | Request url ua => handle v table url ua st
  | DoneCurrent => (mk_app (a_table st) (jc_done_current (a_jobs st)) (a_next st), mk_resp [] PNone)
  | DoneBackground name => (mk_app (a_table st) (jc_done_background name (a_jobs st)) (a_next st), mk_resp [] PNone)
  end.

Fixpoint app_run_from (v : variant) (table : list (string * string)) (evs : list event) (st : app_state) : list response :=
  match evs with
  | [] => []
  | ev :: r => let '(st', resp) := app_step v table ev st in resp :: app_run_from v table r st'
  end.
Definition app_run (v : variant) (table : list (string * string)) (m : manifest) (evs : list event) : list response :=
  app_run_from v table evs (init_app m).

Fixpoint app_state_after (v : variant) (table : list (string * string)) (evs : list event) (st : app_state) : app_state :=
  match evs with
  | [] => st
  | ev :: r => app_state_after v table r (fst (app_step v table ev st))
  end.
