(* What a time pattern value is, when it matches and how two are joined (bardolph/lib/time_pattern.py: the representation,
   match, union).  Hand-written; tied to the source by the shape booleans of Gen/TimeShape.v (text of __init__ / match / union).
   The language models need no more than this; the construction of a pattern from its text (from_string and the translated
   validity functions of Gen/TimePatternGen.v) is in Time/TimePattern.v. *)
From Coq Require Import ZArith String List Bool.
From Bardolph Require Import Base.PyStr.
From Bardolph Require Export Gen.TimeShape.
Open Scope list_scope.
Import ListNotations.
Open Scope Z_scope.
Open Scope bool_scope.

(* ---------- the pattern object ---------- *)

(* A pattern value is a list of alternatives, each an (hour set, minute set)
   pair.  The pinned representation (one pair, sets merged by union) and the
   repaired one (list of alternatives) are both expressed in it; which one is in
   force is read off the source by the translator (shape_* booleans). *)
Definition tp := list (list Z * list Z).

Definition alt_match (a : list Z * list Z) (h m : Z) : bool := zmem h (fst a) && zmem m (snd a).

Definition tp_match (p : tp) (h m : Z) : bool :=
  if shape_repr_alternatives then existsb (fun a => alt_match a h m) p
  else match p with
       | [a] => alt_match a h m
       | _ => false
       end.

Definition tp_union (p q : tp) : tp :=
  if shape_repr_alternatives then (p ++ q)%list
  else match p, q with
       | [(h1, m1)], [(h2, m2)] => [((h1 ++ h2)%list, (m1 ++ m2)%list)]
       | _, _ => p
       end.

(* `time at p1 or p2 ...`: TIME_PATTERN INIT p1 ; TIME_PATTERN UNION p2 ; ... *)
Definition tp_union_all (p : tp) (ps : list tp) : tp := fold_left tp_union ps p.
