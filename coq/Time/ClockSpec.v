(* C10 specification side: the time line of a script, written from the property text and
   independently of clock.py's structure (no cue/start registers here).  No proofs, nothing
   translated from the code under test is imported.

   A script's timed behaviour is a list of items: a timed delay of d seconds, or a
   time-of-day wait.  What the script thread observes while an item is in progress is the
   list of clock readings it takes: one on entry and one after every wake-up (a tick of the
   clock thread that found it waiting, or a spurious / timed-out wake-up).

   The time line:  origin = the reading taken when the script started, or the reading at
   which the last time-of-day wait ended;  due = sum of the delay values since the origin.
   The delay with deadline origin+due ends at the FIRST of its readings that is >= deadline:
   never earlier, never later (if the entry reading already qualifies it does not wait at
   all, and the deadline of the next delay is still computed from origin and the sum, so
   lateness is not accumulated).  A delay of zero takes no reading and never blocks.  *)
From Coq Require Import QArith ZArith List Bool.
Import ListNotations.
Open Scope Q_scope.

Inductive sitem :=
  | SDelay (d : Q)     (* a timed delay of d seconds, as the script thread was asked to wait *)
  | STimeAt.           (* a wait for a time of day *)

(* observed for one item *)
Record sobs := mkSobs {
  so_readings : list Q;   (* SDelay: readings taken, in order; STimeAt: the reading at which the time line restarted *)
  so_matched : list bool; (* STimeAt: for each look at the time of day, whether it was the awaited one *)
}.

Inductive verdict :=
  | VOk
  | VEarly         (* ended at a reading before the deadline *)
  | VOverslept     (* kept waiting although a reading at or after the deadline had been taken *)
  | VLateAdded     (* was behind schedule on entry and waited all the same *)
  | VZeroBlocked   (* a zero delay looked at the clock / waited *)
  | VNoReading     (* a positive delay ended without consulting the clock *)
  | VTimeAtWrong.  (* a time-of-day wait ended on a non-matching look, or went on after a matching one *)

Definition Qleb (a b : Q) : bool := Qle_bool a b.
Definition Qltb (a b : Q) : bool := negb (Qle_bool b a).

Fixpoint qsum (l : list Q) : Q :=
  match l with [] => 0 | x :: r => x + qsum r end.

(* index of the first reading at or after the deadline *)
Fixpoint first_due (deadline : Q) (rs : list Q) : option nat :=
  match rs with
  | [] => None
  | r :: rest => if Qleb deadline r then Some O
                 else match first_due deadline rest with Some n => Some (S n) | None => None end
  end.

Definition judge_delay (deadline : Q) (rs : list Q) : verdict :=
  match rs with
  | [] => VNoReading
  | r0 :: _ =>
      match first_due deadline rs with
      | None => VEarly                                   (* every reading, the last included, is before the deadline *)
      | Some n =>
          if Nat.eqb (S n) (length rs) then VOk
          else if Qleb deadline r0 then VLateAdded else VOverslept
      end
  end.

(* a time-of-day wait: looks are all false except the last *)
Fixpoint judge_looks (ms : list bool) : bool :=
  match ms with
  | [] => false
  | [b] => b
  | b :: rest => negb b && judge_looks rest
  end.

(* the time line threaded through the items: (origin, due) *)
Fixpoint judge (origin due : Q) (l : list (sitem * sobs)) : list verdict :=
  match l with
  | [] => []
  | (SDelay d, o) :: rest =>
      if Qleb d 0 then
        (match so_readings o with [] => VOk | _ => VZeroBlocked end) :: judge origin due rest
      else
        judge_delay (origin + (due + d)) (so_readings o) :: judge origin (due + d) rest
  | (STimeAt, o) :: rest =>
      match so_readings o with
      | [r] => (if judge_looks (so_matched o) then VOk else VTimeAtWrong) :: judge r 0 rest
      | _ => [VTimeAtWrong]
      end
  end.

Definition all_ok (vs : list verdict) : bool :=
  forallb (fun v => match v with VOk => true | _ => false end) vs.

(* deadlines of the items, for reporting: origin + due after each item *)
Fixpoint deadlines (origin due : Q) (l : list (sitem * sobs)) : list Q :=
  match l with
  | [] => []
  | (SDelay d, o) :: rest =>
      if Qleb d 0 then (origin + due) :: deadlines origin due rest
      else (origin + (due + d)) :: deadlines origin (due + d) rest
  | (STimeAt, o) :: rest =>
      match so_readings o with
      | [r] => r :: deadlines r 0 rest
      | _ => []
      end
  end.

(* "within one tick when the script thread is not held up": when consecutive readings are at
   most L apart, a delay that had to wait ends less than L after its deadline. *)
Definition within_tick (deadline L : Q) (rs : list Q) : bool :=
  match rs with
  | [] | [_] => true
  | _ => Qltb (last rs 0) (deadline + L)
  end.

(* raw units: the time value is a number of milliseconds *)
Definition seconds_of (raw : bool) (t : Q) : Q := if raw then t / 1000 else t.
