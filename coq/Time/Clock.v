(* Model of bardolph/lib/clock.py (Clock.reset / et / pause_for / wait_until) and of
   Machine._wait on a virtual time line, as seen from the script thread.  No proofs here.

   The world outside the script thread -- the system clock, the clock thread and its ticks,
   the requester -- is an ORACLE: a list of observations, one consumed by each look the
   script thread takes at the world:
       rd  the value returned by time.time()        (used by et() and reset())
       hm  the (hour, minute) returned by datetime.now()   (used by wait_until)
       kg  what Clock.wait() returns when the script thread goes to wait after this look
           (the value of _keep_going after the wake-up: false = a stop was requested)
   The interleaving with the clock thread is entirely in that list: a wake-up is a tick (or,
   in the repaired wait(), a time-out) at an arbitrary later reading.  The theorems quantify
   over all such lists; the runs feed the readings the real threads produced under the
   deterministic scheduler.  Exact arithmetic (Q); floating-point accumulation of
   `_cue_time += delay` is outside (DESIGN 9).

   Which text of each method is in force is read from the source by tools/gen_clock.py
   (Gen/ClockGen.v). *)
From Coq Require Import QArith ZArith List Bool.
From Bardolph Require Import Gen.ClockGen.
From Bardolph Require Export Time.ClockSpec.
Import ListNotations.
Open Scope Q_scope.

Record obs := mkObs { rd : Q; hm : Z * Z; kg : bool }.

(* the two registers of Clock: _start_time and _cue_time *)
Record clock := mkClock { c_start : Q; c_cue : Q }.

Inductive outcome :=
  | Returned       (* the wait ran to its end *)
  | Stopped        (* left because wait() reported a stop request *)
  | OutOfOracle.   (* the observation list ran out: the wait is still in progress *)

Record result := mkResult {
  r_clock : clock;
  r_out : outcome;
  r_seen : list Q;      (* readings taken by et() / reset(), in order *)
  r_looks : list bool;  (* wait_until: outcome of each match test *)
  r_waits : nat;        (* number of calls of wait() *)
  r_rest : list obs;    (* observations not consumed *)
}.

(* reset():  self._cue_time = 0.0 ; self._start_time = now() *)
Definition reset (now : Q) : clock := mkClock now 0.

(* et():  time.time() - self._start_time *)
Definition et (c : clock) (now : Q) : Q := now - c_start c.

(* while self.et() < self._cue_time: if not self.wait(): break *)
Fixpoint pause_loop (c : clock) (o : list obs) (seen : list Q) (waits : nat) : result :=
  match o with
  | [] => mkResult c OutOfOracle (rev seen) [] waits []
  | x :: o' =>
      if Qltb (et c (rd x)) (c_cue c)
      then if kg x then pause_loop c o' (rd x :: seen) (S waits)
           else mkResult c Stopped (rev (rd x :: seen)) [] (S waits) o'
      else mkResult c Returned (rev (rd x :: seen)) [] waits o'
  end.

(* pause_for(delay):  self._cue_time += delay ; loop *)
Definition pause_for (c : clock) (delay : Q) (o : list obs) : result :=
  pause_loop (mkClock (c_start c) (c_cue c + delay)) o [] 0.

(* wait_until(pattern): look at the time of day until it matches (pinned text: the result of
   wait() is ignored; repaired text: a stop request ends the loop), then reset(). *)
Definition wu_finish (out : outcome) (o : list obs) (looks : list bool) (waits : nat) (c : clock) : result :=
  match o with
  | [] => mkResult c OutOfOracle [] (rev looks) waits []
  | x :: o' => mkResult (reset (rd x)) out [rd x] (rev looks) waits o'
  end.

Fixpoint wait_until_loop (matches : Z -> Z -> bool) (c : clock) (o : list obs) (looks : list bool) (waits : nat) : result :=
  match o with
  | [] => mkResult c OutOfOracle [] (rev looks) waits []
  | x :: o' =>
      if matches (fst (hm x)) (snd (hm x)) then wu_finish Returned o' (true :: looks) waits c
      else if kg x || negb shape_wait_until_checks_stop
           then wait_until_loop matches c o' (false :: looks) (S waits)
           else wu_finish Stopped o' (false :: looks) (S waits) c
  end.

Definition wait_until (matches : Z -> Z -> bool) (c : clock) (o : list obs) : result :=
  wait_until_loop matches c o [] 0.

(* ---------- Machine._wait ---------- *)

Inductive timeval :=
  | TNum (t : Q)                       (* the time register holds a number *)
  | TPat (matches : Z -> Z -> bool).   (* ... or a time pattern *)

(* time = reg.time
   if isinstance(time, TimePattern): clock.wait_until(time)
   elif time > 0: (raw units: time /= 1000.0) ; clock.pause_for(time)            *)
Definition machine_wait (tv : timeval) (raw : bool) (c : clock) (o : list obs) : result :=
  match tv with
  | TPat f => wait_until f c o
  | TNum t =>
      if Qltb 0 t
      then pause_for c (if raw then t / 1000 else t) o
      else mkResult c Returned [] [] 0 o
  end.

(* ---------- a script's sequence of waits ---------- *)

(* Clock.start() takes the first reading; each WAIT instruction is one machine_wait; the
   run ends at the first wait that does not run to its end. *)
Fixpoint run_waits (c : clock) (ws : list (timeval * bool)) (o : list obs) : list result :=
  match ws with
  | [] => []
  | (tv, raw) :: rest =>
      let r := machine_wait tv raw c o in
      match r_out r with
      | Returned => r :: run_waits (r_clock r) rest (r_rest r)
      | _ => [r]
      end
  end.

Definition run_script (ws : list (timeval * bool)) (o : list obs) : option Q * list result :=
  match o with
  | [] => (None, [])
  | x :: o' => (Some (rd x), run_waits (reset (rd x)) ws o')
  end.

(* ---------- the observations the specification judges ---------- *)

Definition sitem_of (w : timeval * bool) : sitem :=
  match fst w with
  | TNum t => SDelay (seconds_of (snd w) t)
  | TPat _ => STimeAt
  end.

Definition sobs_of (r : result) : sobs := mkSobs (r_seen r) (r_looks r).

Fixpoint observe (ws : list (timeval * bool)) (rs : list result) : list (sitem * sobs) :=
  match ws, rs with
  | w :: ws', r :: rs' => (sitem_of w, sobs_of r) :: observe ws' rs'
  | _, _ => []
  end.

(* ---------- helpers used by the theorem statements ---------- *)

(* the reading at which a wait ended *)
Definition r_at (r : result) : Q := last (r_seen r) 0.

(* a sequence of pause_for calls on one clock (whatever happens in between is in the oracle) *)
Fixpoint run_pauses (c : clock) (ds : list Q) (o : list obs) : list result :=
  match ds with
  | [] => []
  | d :: rest =>
      let r := pause_for c d o in
      r :: match r_out r with
           | OutOfOracle => []
           | _ => run_pauses (r_clock r) rest (r_rest r)
           end
  end.

(* consecutive readings at most L apart *)
Fixpoint gaps_le (L : Q) (rs : list Q) : Prop :=
  match rs with
  | a :: ((b :: _) as rest) => b - a <= L /\ gaps_le L rest
  | _ => True
  end.
