(* Interleaving model for C09: the requester, the job threads and the clock threads of ONE
   machine (one Machine object with its Clock), at shared-access granularity, in the order
   the Python performs the accesses.  No proofs here.

   Shared between the threads: Machine._keep_running, Clock._keep_going, the clock's Event.
   (Clock._cue_time / _start_time are touched by the job thread only; their accesses are kept
   as steps so that the model's steps are exactly the yield points of the real threads under
   harness/sched_clock.py, but they carry no value: whether `et() < cue` holds, and whether
   the time of day matches, comes from a per-job ORACLE list of booleans.)

   Threads:
     TR     the requester: a list of operations -- start a run of the job (Agent.execute),
            Machine.stop() = write _keep_running := False ; Clock.stop() = write _keep_going := False,
            join a job thread
     TJ n   the job thread of the n-th run: ScriptJob.execute = Machine.reset ; Machine.run
     TK n   the n-th clock thread: Clock.run
   A schedule is a list of thread ids; a thread that is not enabled does not move.

   The variants of the source texts (pinned / repaired) are a record [shapes]; the one in
   force is read from the source by tools/gen_clock.py ([current_shapes]). *)
From Coq Require Import List Bool Arith.
From Bardolph Require Import Gen.ClockGen.
From Bardolph Require Export Time.StopSpec.
Import ListNotations.

Record shapes := mkShapes {
  sh_reset_rearms : bool;        (* Machine.reset writes _keep_running := True            (pinned, D21) *)
  sh_run_rearms_start : bool;    (* Machine.run writes it before the loop                  (pinned, D21) *)
  sh_run_rearms_end : bool;      (* Machine.run writes it in `finally`                     (repaired)    *)
  sh_clock_rearms_in_run : bool; (* Clock.run writes _keep_going := True on the clock thread (pinned, D43);
                                    otherwise Clock.start writes it before starting the thread *)
  sh_wait_timeout : bool;        (* Clock.wait: Event.wait(1.0) -- a waiter may wake by itself (repaired, D22) *)
  sh_wu_checks_stop : bool;      (* Clock.wait_until leaves its loop when wait() reports a stop (repaired, D20) *)
}.

Definition pinned_shapes : shapes := mkShapes true true false true false false.
Definition repaired_shapes : shapes := mkShapes false false true false true true.
Definition current_shapes : shapes :=
  mkShapes shape_reset_rearms shape_run_rearms_at_start shape_run_rearms_at_end
           shape_clock_rearms_in_run shape_wait_timeout shape_wait_until_checks_stop.

(* every other text the model was written from is the one in the source *)
Definition stop_texts_modelled : bool :=
  shape_clock_init_std && shape_clock_stop_std && shape_clock_fire_std && shape_clock_reset_std
  && shape_clock_et_std && shape_clock_now_std && shape_pause_for_std && shape_clock_hour_minute_std
  && (shape_clock_rearms_in_run || shape_clock_rearms_in_start)
  && (shape_wait_blocking || shape_wait_timeout)
  && (shape_wait_until_checks_stop || shape_wait_until_ignores_stop)
  && (shape_run_rearms_at_start || shape_run_rearms_at_end) && shape_reset_known
  && shape_machine_stop_std && shape_machine_init_arms && shape_run_flag_writers_known
  && shape_machine_wait_std && shape_job_execute_std && shape_job_request_stop_std
  && (shape_agent_no_prepare || shape_agent_prepares)
  && shape_clock_no_unknown_methods
  (* the job controller's stop methods and WebApp.stop_all, as the runs drive them *)
  && (shape_jc_stop_current_rereads || shape_jc_stop_current_local)
  && (shape_jc_clear_queue_unlocked || shape_jc_clear_queue_locked)
  && shape_jc_stop_job_std && shape_jc_stop_background_std
  && shape_jc_on_execution_done_std && shape_jc_run_next_job_std && shape_web_stop_all_std.

(* ---------- scripts ---------- *)

(* The instruction stream of a run, as far as the shared accesses are concerned. *)
Inductive instr :=
  | IPlain            (* no shared access, no device command *)
  | IDev (n : nat)    (* a device command *)
  | IPause            (* WAIT with a positive time: Clock.pause_for *)
  | IWaitUntil.       (* WAIT with a time pattern: Clock.wait_until *)

(* prefix, then the loop for ever (when it is not empty): straight-line and infinite repeat *)
Record script := mkScript { s_prefix : list instr; s_loop : list instr }.

Definition fetch (s : script) (ip : nat) : option instr :=
  if ip <? length (s_prefix s) then nth_error (s_prefix s) ip
  else match s_loop s with
       | [] => None
       | _ => nth_error (s_loop s) ((ip - length (s_prefix s)) mod length (s_loop s))
       end.

(* ---------- thread states ---------- *)

Inductive wkind := InPause | InUntil.

Inductive jpc :=
  | JBegin
  | JResetRearm | JRunRearm                     (* pinned: writes of _keep_running := True before the loop *)
  | JStartWCue | JStartTime | JStartWStart      (* Clock.start -> reset() *)
  | JStartWGo                                   (* repaired: Clock.start writes _keep_going := True *)
  | JSpawn                                      (* Thread(target=self.run).start() *)
  | JLoop                                       (* while self._keep_running and pc < len: *)
  | JDev (n : nat)                              (* the device command of the instruction in progress *)
  | JPfRCue0 | JPfWCue | JPfTime | JPfRStart | JPfRCue   (* pause_for: cue += delay ; et() < cue *)
  | JWait0 (k : wkind) | JWait1 (k : wkind) | JWait2 (k : wkind) | JWait3 (k : wkind)
                                                (* Clock.wait: read flag ; Event.wait ; (blocked) ; read flag *)
  | JWuNow                                      (* wait_until: datetime.now() ; match *)
  | JWuWCue | JWuTime | JWuWStart               (* wait_until: reset() *)
  | JStopWGo                                    (* clock.stop() at the end of run() *)
  | JEndRRun                                    (* the debug message reads _keep_running *)
  | JEndRearm                                   (* repaired: finally: _keep_running := True *)
  | JDone.

Record jstate := mkJ {
  j_pc : jpc;
  j_ip : nat;                (* index of the instruction in progress / next *)
  j_script : script;
  j_oracle : list bool;      (* answers to `et() < cue` and to `pattern matches now`, in order *)
  j_woken : bool;            (* set by Event.set() while this thread is blocked in Event.wait() *)
}.

Inductive kpc := KBegin | KRearm | KLoop | KSleep | KWake | KSet | KClear | KDone.

Inductive rop :=
  | RBegin
  | RPrep (b : bool)                           (* Agent.execute() -> job.prepare(): _keep_running = True (repaired,
                                                  D44); RPrep false = a starter that does not re-arm: a step without access *)
  | RSpawn (s : script) (oracle : list bool)   (* Agent.execute(): start the job thread *)
  | RNop                                       (* a step without shared access *)
  | RWRun                                      (* Machine.stop(): self._keep_running = False *)
  | RWGo                                       (*                 self._clock.stop(): _keep_going = False *)
  | RJoin (n : nat).                           (* wait for job thread n *)

Record config := mkCfg {
  keep_running : bool;
  keep_going : bool;
  ev_flag : bool;
  rprog : list rop;
  js : list jstate;
  ks : list kpc;
  landed : option bool;   (* ghost: set by the requester's write of the run flag: was job 0 still before the end of its run? *)
  tr : list event;        (* most recent first *)
}.

Definition init (prog : list rop) : config :=
  mkCfg true true false prog [] [] None [].

(* ---------- one step of a job thread ---------- *)

Definition next_oracle (j : jstate) : bool * list bool :=
  match j_oracle j with [] => (false, []) | b :: r => (b, r) end.

Definition set_pc (j : jstate) (pc : jpc) : jstate :=
  mkJ pc (j_ip j) (j_script j) (j_oracle j) (j_woken j).
Definition next_instr (j : jstate) : jstate :=
  mkJ JLoop (S (j_ip j)) (j_script j) (j_oracle j) (j_woken j).

Definition after_begin (sp : shapes) : jpc :=
  if sh_reset_rearms sp then JResetRearm else if sh_run_rearms_start sp then JRunRearm else JStartWCue.
Definition after_reset_rearm (sp : shapes) : jpc :=
  if sh_run_rearms_start sp then JRunRearm else JStartWCue.
Definition after_start_reset (sp : shapes) : jpc :=
  if sh_clock_rearms_in_run sp then JSpawn else JStartWGo.

(* result of a job-thread step: new flags, new thread state, the access, whether a clock
   thread is started.  None = not enabled. *)
Record jres := mkJres { jr_run : bool; jr_go : bool; jr_j : jstate; jr_act : act; jr_spawn : bool }.

Definition jstep (sp : shapes) (run go ev : bool) (j : jstate) : option jres :=
  let same j' a := Some (mkJres run go j' a false) in
  match j_pc j with
  | JBegin => same (set_pc j (after_begin sp)) ANone
  | JResetRearm => Some (mkJres true go (set_pc j (after_reset_rearm sp)) (AWRun true) false)
  | JRunRearm => Some (mkJres true go (set_pc j JStartWCue) (AWRun true) false)
  | JStartWCue => same (set_pc j JStartTime) AWCue
  | JStartTime => same (set_pc j JStartWStart) ATime
  | JStartWStart => same (set_pc j (after_start_reset sp)) AWStart
  | JStartWGo => Some (mkJres run true (set_pc j JSpawn) (AWGo true) false)
  | JSpawn => Some (mkJres run go (set_pc j JLoop) ASpawn true)
  | JLoop =>
      if run then
        match fetch (j_script j) (j_ip j) with
        | None => same (set_pc j JStopWGo) (ARRun true)
        | Some IPlain => same (next_instr j) (ARRun true)
        | Some (IDev n) => same (set_pc j (JDev n)) (ARRun true)
        | Some IPause => same (set_pc j JPfRCue0) (ARRun true)
        | Some IWaitUntil => same (set_pc j JWuNow) (ARRun true)
        end
      else same (set_pc j JStopWGo) (ARRun false)
  | JDev n => same (next_instr j) (ADev n)
  | JPfRCue0 => same (set_pc j JPfWCue) ARCue
  | JPfWCue => same (set_pc j JPfTime) AWCue
  | JPfTime => same (set_pc j JPfRStart) ATime
  | JPfRStart => same (set_pc j JPfRCue) ARStart
  | JPfRCue =>
      let (b, rest) := next_oracle j in
      let j' := mkJ (j_pc j) (j_ip j) (j_script j) rest (j_woken j) in
      if b then same (set_pc j' (JWait0 InPause)) ARCue else same (next_instr j') ARCue
  | JWait0 k => if go then same (set_pc j (JWait1 k)) (ARGo true) else same (set_pc j (JWait3 k)) (ARGo false)
  | JWait1 k =>
      if ev then same (set_pc j (JWait3 k)) (AEvWait true)
      else same (mkJ (JWait2 k) (j_ip j) (j_script j) (j_oracle j) false) (AEvWait false)
  | JWait2 k =>
      if j_woken j || sh_wait_timeout sp then same (set_pc j (JWait3 k)) AEvWake else None
  | JWait3 InPause => if go then same (set_pc j JPfTime) (ARGo true) else same (next_instr j) (ARGo false)
  | JWait3 InUntil =>
      if go || negb (sh_wu_checks_stop sp) then same (set_pc j JWuNow) (ARGo go)
      else same (set_pc j JWuWCue) (ARGo false)
  | JWuNow =>
      let (m, rest) := next_oracle j in
      let j' := mkJ (j_pc j) (j_ip j) (j_script j) rest (j_woken j) in
      if m then same (set_pc j' JWuWCue) ANow else same (set_pc j' (JWait0 InUntil)) ANow
  | JWuWCue => same (set_pc j JWuTime) AWCue
  | JWuTime => same (set_pc j JWuWStart) ATime
  | JWuWStart => same (next_instr j) AWStart
  | JStopWGo => Some (mkJres run false (set_pc j JEndRRun) (AWGo false) false)
  | JEndRRun => same (set_pc j (if sh_run_rearms_end sp then JEndRearm else JDone)) (ARRun run)
  | JEndRearm => Some (mkJres true go (set_pc j JDone) (AWRun true) false)
  | JDone => None
  end.

(* ---------- one step of a clock thread ---------- *)

(* new _keep_going, new event flag, wake the waiters?, new pc, access *)
Definition kstep (sp : shapes) (go ev : bool) (k : kpc) : option (bool * bool * bool * kpc * act) :=
  match k with
  | KBegin => Some (go, ev, false, if sh_clock_rearms_in_run sp then KRearm else KLoop, ANone)
  | KRearm => Some (true, ev, false, KLoop, AWGo true)
  | KLoop => Some (go, ev, false, if go then KSleep else KDone, ARGo go)
  | KSleep => Some (go, ev, false, KWake, ASleep)
  | KWake => Some (go, ev, false, KSet, AWake)
  | KSet => Some (go, true, true, KClear, ASet)
  | KClear => Some (go, false, false, KLoop, AClear)
  | KDone => None
  end.

(* ---------- the configuration step ---------- *)

Fixpoint replace_nth {A} (l : list A) (n : nat) (x : A) : list A :=
  match l, n with
  | [], _ => []
  | _ :: r, O => x :: r
  | a :: r, S m => a :: replace_nth r m x
  end.

Definition job_done (c : config) (n : nat) : bool :=
  match nth_error (js c) n with
  | Some j => match j_pc j with JDone => true | _ => false end
  | None => false
  end.

Definition wake_waiters (l : list jstate) : list jstate :=
  map (fun j => match j_pc j with
                | JWait2 _ => mkJ (j_pc j) (j_ip j) (j_script j) (j_oracle j) true
                | _ => j
                end) l.

Definition new_job (s : script) (o : list bool) : jstate := mkJ JBegin 0 s o false.

Definition step (sp : shapes) (c : config) (t : tid) : option config :=
  match t with
  | TR =>
      match rprog c with
      | [] => None
      | RBegin :: rest =>
          Some (mkCfg (keep_running c) (keep_going c) (ev_flag c) rest (js c) (ks c) (landed c) ((TR, ANone) :: tr c))
      | RNop :: rest =>
          Some (mkCfg (keep_running c) (keep_going c) (ev_flag c) rest (js c) (ks c) (landed c) ((TR, ANone) :: tr c))
      | RPrep b :: rest =>
          Some (mkCfg (if b then true else keep_running c) (keep_going c) (ev_flag c) rest (js c) (ks c) (landed c)
                      ((TR, if b then AWRun true else ANone) :: tr c))
      | RSpawn s o :: rest =>
          Some (mkCfg (keep_running c) (keep_going c) (ev_flag c) rest (js c ++ [new_job s o]) (ks c) (landed c) ((TR, ASpawn) :: tr c))
      | RWRun :: rest =>
          Some (mkCfg false (keep_going c) (ev_flag c) rest (js c) (ks c)
                      (match landed c with None => Some (negb (job_done c 0)) | l => l end) ((TR, AWRun false) :: tr c))
      | RWGo :: rest =>
          Some (mkCfg (keep_running c) false (ev_flag c) rest (js c) (ks c) (landed c) ((TR, AWGo false) :: tr c))
      | RJoin n :: rest =>
          if job_done c n
          then Some (mkCfg (keep_running c) (keep_going c) (ev_flag c) rest (js c) (ks c) (landed c) ((TR, AJoin) :: tr c))
          else None
      end
  | TJ n =>
      match nth_error (js c) n with
      | None => None
      | Some j =>
          match jstep sp (keep_running c) (keep_going c) (ev_flag c) j with
          | None => None
          | Some r =>
              Some (mkCfg (jr_run r) (jr_go r) (ev_flag c) (rprog c) (replace_nth (js c) n (jr_j r))
                          (if jr_spawn r then ks c ++ [KBegin] else ks c) (landed c) ((TJ n, jr_act r) :: tr c))
          end
      end
  | TK n =>
      match nth_error (ks c) n with
      | None => None
      | Some k =>
          match kstep sp (keep_going c) (ev_flag c) k with
          | None => None
          | Some (go, ev, wake, k', a) =>
              Some (mkCfg (keep_running c) go ev (rprog c) (if wake then wake_waiters (js c) else js c)
                          (replace_nth (ks c) n k') (landed c) ((TK n, a) :: tr c))
          end
      end
  end.

(* a schedule: thread ids; a thread that cannot move is skipped *)
Fixpoint exec (sp : shapes) (c : config) (sched : list tid) : config :=
  match sched with
  | [] => c
  | t :: rest => match step sp c t with
                 | Some c' => exec sp c' rest
                 | None => exec sp c rest
                 end
  end.

(* the events in the order they happened *)
Definition trace (c : config) : list event := rev (tr c).

(* ---------- the requester's programs ---------- *)

(* start the job; later stop it; wait for it; start the same job again; wait for it.
   p = the starter re-arms the job (Agent.execute with prepare()); p = false: the same job
   object executed again directly. *)
Definition prog_stop_rerun (p : bool) (s1 : script) (o1 : list bool) (s2 : script) (o2 : list bool) : list rop :=
  [RBegin; RPrep p; RSpawn s1 o1; RNop; RWRun; RWGo; RJoin 0; RPrep p; RSpawn s2 o2; RJoin 1].

Definition enabled (sp : shapes) (c : config) (t : tid) : bool :=
  match step sp c t with Some _ => true | None => false end.
