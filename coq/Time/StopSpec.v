(* C09 specification side: what the property says, at the level of the sequence of events of
   one machine (who did which shared access / issued which device command, in order), and a
   small abstract job controller.  Independent of the structure of machine.py / clock.py /
   job_control.py; imports nothing translated from them.  No proofs here. *)
From Coq Require Import List Bool Arith.
Import ListNotations.

Inductive tid := TR | TJ (n : nat) | TK (n : nat).

Inductive act :=
  | ANone | ASpawn | AJoin
  | AWRun (b : bool) | ARRun (b : bool) | AWGo (b : bool) | ARGo (b : bool)
  | AWCue | ARCue | AWStart | ARStart | ATime | ANow
  | ADev (n : nat)
  | AEvWait (was_set : bool) | AEvWake
  | ASleep | AWake | ASet | AClear.

Definition event := (tid * act)%type.

(* ---------- a stop sticks ----------
   stop() has completed when the requester has done its second write (the clock's flag).
   From then on the job thread of the run (job 0) may still issue the device command(s) of the
   instruction in progress; once it has looked at the run flag again it issues none. *)
Inductive sphase := SBefore | SAllow | SClosed | SBad.

Definition sticks_step (ph : sphase) (e : event) : sphase :=
  match ph, e with
  | SBefore, (TR, AWGo false) => SAllow
  | SAllow, (TJ 0, ARRun _) => SClosed
  | SClosed, (TJ 0, ADev _) => SBad
  | _, _ => ph
  end.

Definition sticks_phase (t : list event) : sphase := fold_left sticks_step t SBefore.
Definition sticks_ok (t : list event) : bool :=
  match sticks_phase t with SBad => false | _ => true end.

(* ---------- promptly ----------
   The job thread's own steps from the completion of stop() on.  `Promptly` = the instruction
   in progress plus at most one wake-up: at most [prompt_bound] own steps. *)
Definition own_step (st : bool * nat) (e : event) : bool * nat :=
  match e with
  | (TR, AWGo false) => (true, snd st)
  | (TJ 0, _) => (fst st, if fst st then S (snd st) else snd st)
  | _ => st
  end.
Definition own_state (t : list event) : bool * nat := fold_left own_step t (false, 0).
Definition own_steps_after_stop (t : list event) : nat := snd (own_state t).

Definition prompt_bound : nat := 17.
Definition prompt_ok (t : list event) : bool := own_steps_after_stop t <=? prompt_bound.

(* ---------- a stop is per run ----------
   Until a second stop request is made, the next run on the same machine (job 1) never sees
   its run flag or its clock flag cleared. *)
Definition per_run_step (st : nat * bool) (e : event) : nat * bool :=
  match e with
  | (TR, AWRun false) => (S (fst st), snd st)
  | (TJ 1, ARRun b) => (fst st, snd st && (b || (1 <? fst st)))
  | (TJ 1, ARGo b) => (fst st, snd st && (b || (1 <? fst st)))
  | _ => st
  end.
Definition per_run_state (t : list event) : nat * bool := fold_left per_run_step t (0, true).
Definition per_run_ok (t : list event) : bool := snd (per_run_state t).

(* number of device commands of a job thread *)
Definition devs_of (n : nat) (t : list event) : nat :=
  length (filter (fun e => match e with (TJ m, ADev _) => Nat.eqb m n | _ => false end) t).

(* ---------- abstract job controller ----------
   What JobControl is for C09: a queue, at most one active job, the set of jobs that were
   asked to stop.  (Its concurrency is C08's subject.) *)
Record ctl := mkCtl { c_queue : list nat; c_active : option nat; c_stopped : list nat }.

Definition ctl_start_next (c : ctl) : ctl :=
  match c_active c, c_queue c with
  | None, h :: t => mkCtl t (Some h) (c_stopped c)
  | _, _ => c
  end.
Definition ctl_add (j : nat) (c : ctl) : ctl :=
  ctl_start_next (mkCtl (c_queue c ++ [j]) (c_active c) (c_stopped c)).
(* the active job's thread has finished: the completion callback *)
Definition ctl_finished (c : ctl) : ctl :=
  ctl_start_next (mkCtl (c_queue c) None (c_stopped c)).
Definition ctl_clear_queue (c : ctl) : ctl := mkCtl [] (c_active c) (c_stopped c).
Definition ctl_stop_current (c : ctl) : ctl :=
  match c_active c with
  | Some j => mkCtl (c_queue c) (c_active c) (j :: c_stopped c)
  | None => c
  end.
(* WebApp.stop_all: clear_queue ; stop_current (; stop_background: no queued job involved) *)
Definition ctl_stop_all (c : ctl) : ctl := ctl_stop_current (ctl_clear_queue c).
