(* C11 specification side: the regular expression REGEX_SPEC written out as an
   ordered-choice matcher, and the declarative meaning of a pattern text.
   Independent of Gen/TimePatternGen.v, so that it stays evaluable as the oracle
   when the translated code no longer compiles.  No proofs here. *)
From Coq Require Import ZArith String Ascii List Bool.
From Bardolph Require Import Base.PyStr Gen.CharClasses.
Open Scope string_scope.
Open Scope list_scope.
Import ListNotations.
Open Scope Z_scope.
Open Scope bool_scope.

(* ---------- the regular expression, written out ---------- *)

(* The text this matcher was written from; [regex_text_current] in
   TimePatternProofs.v requires the generated REGEX_SPEC to be this string. *)
Definition REGEX_SPEC_modelled : string :=
  "(\*|\*\d|\d\*|\d\d?):(\d\d|\d\*|\*\d|\*)(?=(\s|$|#|[\[\]{}()]))".

Inductive pelem := PStar | PDigit.

Definition nat_mem (n : nat) (l : list nat) : bool := existsb (Nat.eqb n) l.
Definition re_is_digit (c : ascii) : bool := nat_mem (nat_of_ascii c) re_digit_codes.
Definition re_is_space (c : ascii) : bool := nat_mem (nat_of_ascii c) re_space_codes.
Definition star : ascii := "*"%char.
Definition colon : ascii := ":"%char.

Definition elem_ok (e : pelem) (c : ascii) : bool :=
  match e with PStar => Ascii.eqb c star | PDigit => re_is_digit c end.

(* match a sequence of elements at the start of s: (matched text, rest) *)
Fixpoint match_elems (es : list pelem) (s : string) : option (string * string) :=
  match es with
  | [] => Some (EmptyString, s)
  | e :: es' =>
      match s with
      | String c r =>
          if elem_ok e c then
            match match_elems es' r with
            | Some (m, rest) => Some (String c m, rest)
            | None => None
            end
          else None
      | EmptyString => None
      end
  end.

(* alternatives in the order the regular expression lists them;
   \d\d? is greedy: two digits are tried before one *)
Definition hour_alts : list (list pelem) :=
  [[PStar]; [PStar; PDigit]; [PDigit; PStar]; [PDigit; PDigit]; [PDigit]].
Definition minute_alts : list (list pelem) :=
  [[PDigit; PDigit]; [PDigit; PStar]; [PStar; PDigit]; [PStar]].

(* (?=(\s|$|#)): white space next, or the end of the string (or a final line feed), or the
   number sign that starts a comment *)
Definition lookahead_ok (rest : string) : bool :=
  match rest with
  | EmptyString => true
  | String c _ => re_is_space c || Ascii.eqb c "#"%char ||
                  (* a bracket, brace or parenthesis may follow directly (D65) *)
                  Ascii.eqb c "["%char || Ascii.eqb c "]"%char || Ascii.eqb c "{"%char || Ascii.eqb c "}"%char || Ascii.eqb c "("%char || Ascii.eqb c ")"%char
  end.

Fixpoint first_some {A B} (f : A -> option B) (l : list A) : option B :=
  match l with
  | [] => None
  | a :: r => match f a with Some b => Some b | None => first_some f r end
  end.

Definition try_minutes (s : string) : option (string * string) :=
  first_some (fun alt =>
    match match_elems alt s with
    | Some (m, rest) => if lookahead_ok rest then Some (m, rest) else None
    | None => None
    end) minute_alts.

(* REGEX.match(s): the two groups and the unmatched rest *)
Definition regex_match (s : string) : option (string * string * string) :=
  first_some (fun alt =>
    match match_elems alt s with
    | Some (h, String c rest) =>
        if Ascii.eqb c colon then
          match try_minutes rest with
          | Some (m, rest') => Some (h, m, rest')
          | None => None
          end
        else None
    | _ => None
    end) hour_alts.

(* ---------- specification: what a pattern denotes ---------- *)

Definition char_agrees (p : ascii) (d : Z) : bool :=
  Ascii.eqb p star || Ascii.eqb p (digit_char d).

(* hour field: "*" any hour; one digit = that hour; two positions compared with
   the two-digit hour *)
Definition denotes_h (hs : string) (h : Z) : bool :=
  match hs with
  | String c EmptyString => Ascii.eqb c star || Ascii.eqb c (digit_char h) && (h <? 10)
  | String c1 (String c2 EmptyString) => char_agrees c1 (h / 10) && char_agrees c2 (h mod 10)
  | _ => false
  end.

Definition denotes_m (ms : string) (m : Z) : bool :=
  match ms with
  | String c EmptyString => Ascii.eqb c star
  | String c1 (String c2 EmptyString) => char_agrees c1 (m / 10) && char_agrees c2 (m mod 10)
  | _ => false
  end.

Definition denotes (hs ms : string) (h m : Z) : bool := denotes_h hs h && denotes_m ms m.

Definition valid_time (h m : Z) : Prop := 0 <= h < 24 /\ 0 <= m < 60.


(* what the statement of C11 says about a whole text, as one function: the text is
   acceptable iff it has the pattern form and denotes at least one time of day *)
Definition spec_fields (s : string) : option (string * string) :=
  match regex_match s with Some (h, m, _) => Some (h, m) | None => None end.
Definition spec_match (s : string) (h m : Z) : bool :=
  match spec_fields s with Some (hs, ms) => denotes hs ms h m | None => false end.
Definition spec_accepts (s : string) : bool :=
  existsb (fun h => existsb (fun m => spec_match s h m) (zrange 0 60)) (zrange 0 24).
