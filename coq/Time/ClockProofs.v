(* Proofs about Time/Clock.v against the time-line specification Time/ClockSpec.v. *)
From Coq Require Import QArith ZArith List Bool Lia Lqa.
From Bardolph Require Import Gen.ClockGen Time.ClockSpec Time.Clock.
Import ListNotations.
Open Scope Q_scope.

(* ---------- ties to the source text (break when the source changes shape) ---------- *)

Definition clock_texts_modelled : bool :=
  shape_clock_now_std && shape_clock_reset_std && shape_clock_et_std && shape_pause_for_std
  && (shape_wait_until_checks_stop || shape_wait_until_ignores_stop)
  && shape_clock_hour_minute_std && shape_machine_wait_std.

Lemma clock_texts_current : clock_texts_modelled = true.
Proof. reflexivity. Qed.

(* ---------- boolean comparisons ---------- *)

Lemma Qleb_true a b : Qleb a b = true <-> a <= b.
Proof. unfold Qleb. apply Qle_bool_iff. Qed.

Lemma Qleb_false a b : Qleb a b = false <-> b < a.
Proof.
  unfold Qleb. split; intros H.
  - apply Qnot_le_lt. intros H1. apply Qle_bool_iff in H1. congruence.
  - destruct (Qle_bool a b) eqn:E; [|reflexivity].
    apply Qle_bool_iff in E. exfalso. apply (Qlt_not_le _ _ H). exact E.
Qed.

Lemma Qltb_true a b : Qltb a b = true <-> a < b.
Proof.
  unfold Qltb. rewrite negb_true_iff. apply Qleb_false.
Qed.

Lemma Qltb_false a b : Qltb a b = false <-> b <= a.
Proof.
  unfold Qltb. rewrite negb_false_iff. apply Qleb_true.
Qed.

(* ---------- the pause loop ---------- *)

(* Everything the loop does, in one statement. *)
Lemma pause_loop_char : forall o c seen waits,
  let res := pause_loop c o seen waits in
  r_clock res = c /\
  exists pre,
    (forall y, In y pre -> et c (rd y) < c_cue c /\ kg y = true) /\
    match r_out res with
    | Returned => exists x, o = pre ++ x :: r_rest res /\ c_cue c <= et c (rd x) /\
                            r_seen res = rev seen ++ map rd pre ++ [rd x] /\ r_waits res = (waits + length pre)%nat
    | Stopped => exists x, o = pre ++ x :: r_rest res /\ et c (rd x) < c_cue c /\ kg x = false /\
                           r_seen res = rev seen ++ map rd pre ++ [rd x] /\ r_waits res = S (waits + length pre)
    | OutOfOracle => o = pre /\ r_rest res = [] /\ r_seen res = rev seen ++ map rd pre /\ r_waits res = (waits + length pre)%nat
    end.
Proof.
  induction o as [|x o IH]; intros c seen waits; cbn [pause_loop].
  - cbn. split; [reflexivity|]. exists []. split; [intros y []|].
    cbn. rewrite app_nil_r. repeat split; lia.
  - destruct (Qltb (et c (rd x)) (c_cue c)) eqn:Hlt.
    + apply Qltb_true in Hlt. destruct (kg x) eqn:Hkg.
      * specialize (IH c (rd x :: seen) (S waits)). cbn zeta in IH.
        destruct IH as [Hc [pre [Hpre Hm]]].
        split; [exact Hc|]. exists (x :: pre). split.
        { intros y [Hy|Hy]; [subst y; split; assumption|apply Hpre; exact Hy]. }
        destruct (r_out (pause_loop c o (rd x :: seen) (S waits))).
        -- destruct Hm as [x' [Ho [Hge [Hseen Hw]]]]. exists x'.
           split; [cbn; rewrite Ho at 1; reflexivity|]. split; [exact Hge|].
           split; [rewrite Hseen; cbn [rev map]; rewrite <- !app_assoc; reflexivity|].
           rewrite Hw. cbn [length]. lia.
        -- destruct Hm as [x' [Ho [Hl [Hk [Hseen Hw]]]]]. exists x'.
           split; [cbn; rewrite Ho at 1; reflexivity|]. split; [exact Hl|]. split; [exact Hk|].
           split; [rewrite Hseen; cbn [rev map]; rewrite <- !app_assoc; reflexivity|].
           rewrite Hw. cbn [length]. lia.
        -- destruct Hm as [Ho [Hr [Hseen Hw]]].
           split; [cbn; rewrite Ho at 1; reflexivity|]. split; [exact Hr|].
           split; [rewrite Hseen; cbn [rev map]; rewrite <- !app_assoc; reflexivity|].
           rewrite Hw. cbn [length]. lia.
      * cbn. split; [reflexivity|]. exists []. split; [intros y []|].
        exists x. cbn. repeat split; try assumption; try lia.
    + apply Qltb_false in Hlt. cbn. split; [reflexivity|]. exists []. split; [intros y []|].
      exists x. cbn. repeat split; try assumption; lia.
Qed.

(* pause_for: the statement at the level of one call *)
Lemma pause_for_char c d o :
  let res := pause_for c d o in
  let due := c_cue c + d in
  c_start (r_clock res) = c_start c /\ c_cue (r_clock res) = due /\
  exists pre,
    (forall y, In y pre -> rd y - c_start c < due /\ kg y = true) /\
    match r_out res with
    | Returned => exists x, o = pre ++ x :: r_rest res /\ due <= rd x - c_start c /\
                            r_seen res = map rd pre ++ [rd x] /\ r_waits res = length pre
    | Stopped => exists x, o = pre ++ x :: r_rest res /\ rd x - c_start c < due /\ kg x = false /\
                           r_seen res = map rd pre ++ [rd x] /\ r_waits res = S (length pre)
    | OutOfOracle => o = pre /\ r_rest res = [] /\ r_seen res = map rd pre /\ r_waits res = length pre
    end.
Proof.
  unfold pause_for. cbn zeta.
  pose proof (pause_loop_char o (mkClock (c_start c) (c_cue c + d)) [] 0%nat) as H.
  cbn zeta in H. destruct H as [Hc [pre [Hpre Hm]]].
  rewrite Hc. cbn [c_start c_cue]. split; [reflexivity|]. split; [reflexivity|].
  exists pre. split; [exact Hpre|]. exact Hm.
Qed.

(* returns_at_first_tick: a pause that runs to its end returns at the first observation --
   the one on entry, or one taken after a wake-up -- at which et >= cue; every earlier one
   found et < cue and was followed by a wait. *)
Lemma returns_at_first_tick c d o :
  r_out (pause_for c d o) = Returned ->
  exists pre x,
    o = pre ++ x :: r_rest (pause_for c d o) /\
    (forall y, In y pre -> rd y - c_start c < c_cue c + d) /\
    c_cue c + d <= rd x - c_start c /\
    r_at (pause_for c d o) = rd x /\
    r_waits (pause_for c d o) = length pre.
Proof.
  intros Hout. destruct (pause_for_char c d o) as [_ [_ [pre [Hpre Hm]]]].
  rewrite Hout in Hm. destruct Hm as [x [Ho [Hge [Hseen Hw]]]].
  exists pre, x. split; [exact Ho|]. split; [intros y Hy; apply Hpre; exact Hy|].
  split; [exact Hge|]. split; [|exact Hw].
  unfold r_at. rewrite Hseen. apply last_last.
Qed.

(* behind schedule on entry: returns at once, without a wait *)
Lemma behind_schedule_no_wait c d x o :
  c_cue c + d <= rd x - c_start c ->
  let res := pause_for c d (x :: o) in
  r_out res = Returned /\ r_waits res = 0%nat /\ r_at res = rd x /\ r_rest res = o /\
  c_cue (r_clock res) = c_cue c + d.
Proof.
  intros H. unfold pause_for. cbn [pause_loop]. unfold et. cbn [c_start c_cue].
  apply Qltb_false in H. rewrite H. cbn. repeat split; reflexivity.
Qed.

Lemma last_gap L x : forall pre,
  gaps_le L (map rd pre ++ [rd x]) -> (0 < length pre)%nat ->
  exists y, In y pre /\ rd x - rd y <= L.
Proof.
  induction pre as [|a pre IH]; intros Hgap Hw; [cbn in Hw; lia|].
  destruct pre as [|b pre'].
  - exists a. split; [left; reflexivity|]. cbn in Hgap. tauto.
  - cbn [map app gaps_le] in Hgap. destruct Hgap as [_ Hgap].
    destruct IH as [y [Hy Hd]]; [exact Hgap|cbn; lia|].
    exists y. split; [right; exact Hy|exact Hd].
Qed.

(* within one tick: when consecutive readings are at most L apart and the pause had to wait,
   it ends less than L after its deadline *)
Lemma within_one_tick c d o L :
  let res := pause_for c d o in
  r_out res = Returned -> gaps_le L (r_seen res) -> (0 < r_waits res)%nat ->
  r_at res - (c_start c + (c_cue c + d)) < L.
Proof.
  cbn zeta. intros Hout Hgap Hw.
  destruct (pause_for_char c d o) as [_ [_ [pre [Hpre Hm]]]].
  rewrite Hout in Hm. destruct Hm as [x [Ho [Hge [Hseen Hwaits]]]].
  unfold r_at. rewrite Hseen in *. rewrite last_last.
  rewrite Hwaits in Hw. clear Ho Hwaits Hout.
  destruct (last_gap L x pre Hgap Hw) as [y [Hy Hd]]. destruct (Hpre y Hy) as [Hlt _]. lra.
Qed.

(* ---------- sequences of pauses on one time line ---------- *)

Lemma run_pauses_char : forall ds c o k res,
  nth_error (run_pauses c ds o) k = Some res ->
  c_start (r_clock res) = c_start c /\
  c_cue (r_clock res) == c_cue c + qsum (firstn (S k) ds) /\
  (r_out res = Returned -> c_cue c + qsum (firstn (S k) ds) <= r_at res - c_start c).
Proof.
  induction ds as [|d ds IH]; intros c o k res Hn.
  - destruct k; discriminate.
  - cbn [run_pauses] in Hn. destruct k as [|k].
    + cbn in Hn. inversion Hn. subst res. clear Hn.
      destruct (pause_for_char c d o) as [Hs [Hc [pre [Hpre Hm]]]].
      split; [exact Hs|]. split; [rewrite Hc; cbn; lra|].
      intros Hout. rewrite Hout in Hm. destruct Hm as [x [_ [Hge [Hseen _]]]].
      unfold r_at. rewrite Hseen, last_last. cbn. lra.
    + cbn [nth_error] in Hn.
      destruct (pause_for_char c d o) as [Hs [Hc _]].
      destruct (r_out (pause_for c d o)) eqn:Hout;
        try (destruct k; discriminate);
        (apply IH in Hn; destruct Hn as [Hs' [Hc' Hr']];
         rewrite Hs in *; rewrite Hc in *;
         split; [exact Hs'|]; split;
         [rewrite Hc'; cbn [firstn qsum]; lra|
          intros Ho; specialize (Hr' Ho); cbn [firstn qsum]; cbn [firstn] in Hr'; lra]).
Qed.

(* never_early *)
Lemma never_early S ds o k res :
  nth_error (run_pauses (reset S) ds o) k = Some res ->
  r_out res = Returned ->
  qsum (firstn (Datatypes.S k) ds) <= r_at res - S.
Proof.
  intros Hn Hout. destruct (run_pauses_char ds (reset S) o k res Hn) as [_ [_ H]].
  specialize (H Hout). change (c_cue (reset S)) with 0 in H. change (c_start (reset S)) with S in H. lra.
Qed.

(* lateness_not_accumulated: the deadline of the k-th delay is start + sum of the first k
   delay values, whatever the readings and return times were *)
Lemma lateness_not_accumulated S ds o k res :
  nth_error (run_pauses (reset S) ds o) k = Some res ->
  c_start (r_clock res) = S /\ c_cue (r_clock res) == qsum (firstn (Datatypes.S k) ds).
Proof.
  intros Hn. destruct (run_pauses_char ds (reset S) o k res Hn) as [Hs [Hc _]].
  split; [exact Hs|]. rewrite Hc. change (c_cue (reset S)) with 0. lra.
Qed.

(* ---------- wait_until ---------- *)

Lemma forallb_rev_compat {A} (f : A -> bool) l : forallb f (rev l) = forallb f l.
Proof.
  induction l as [|a l IH]; [reflexivity|].
  cbn [rev forallb]. rewrite forallb_app, IH. cbn. rewrite andb_true_r. apply andb_comm.
Qed.

Lemma judge_looks_cons b l : l <> [] -> judge_looks (b :: l) = negb b && judge_looks l.
Proof. destruct l; [congruence|reflexivity]. Qed.

Lemma judge_looks_snoc_false looks :
  forallb negb looks = true -> judge_looks (looks ++ [true]) = true.
Proof.
  induction looks as [|b looks IH]; [reflexivity|].
  cbn [forallb]. intros H. apply andb_true_iff in H. destruct H as [Hb H].
  specialize (IH H). cbn [app]. rewrite judge_looks_cons.
  - rewrite Hb, IH. reflexivity.
  - destruct looks; discriminate.
Qed.

Lemma wait_until_loop_char : forall f o c looks waits,
  forallb negb looks = true ->
  let res := wait_until_loop f c o looks waits in
  match r_out res with
  | OutOfOracle => r_clock res = c
  | Returned => (exists t, r_seen res = [t] /\ r_clock res = reset t) /\
                judge_looks (r_looks res) = true
  | Stopped => (exists t, r_seen res = [t] /\ r_clock res = reset t) /\
               shape_wait_until_checks_stop = true /\
               forallb negb (r_looks res) = true
  end.
Proof.
  induction o as [|x o IH]; intros c looks waits Hl; cbn [wait_until_loop].
  - cbn. reflexivity.
  - destruct (f (fst (hm x)) (snd (hm x))) eqn:Hm.
    + unfold wu_finish. destruct o as [|y o']; cbn; [reflexivity|].
      split; [exists (rd y); split; reflexivity|].
      apply judge_looks_snoc_false. rewrite forallb_rev_compat. exact Hl.
    + destruct (kg x || negb shape_wait_until_checks_stop) eqn:Hk.
      * apply IH. cbn [forallb]. rewrite Hl. reflexivity.
      * unfold wu_finish. destruct o as [|y o']; cbn; [reflexivity|].
        split; [exists (rd y); split; reflexivity|].
        apply orb_false_iff in Hk. destruct Hk as [_ Hk]. apply negb_false_iff in Hk.
        split; [exact Hk|].
        rewrite forallb_app. cbn. rewrite forallb_rev_compat, Hl. reflexivity.
Qed.

(* time_at_restarts: when a time-of-day wait is over, the time line has restarted at the
   reading taken at that moment: start = that reading, cue = 0; and if it ran to its end the
   last look at the time of day matched and none before did. *)
Lemma time_at_restarts f c o :
  let res := wait_until f c o in
  r_out res <> OutOfOracle ->
  exists t, r_seen res = [t] /\ c_start (r_clock res) = t /\ c_cue (r_clock res) = 0 /\
            (r_out res = Returned -> judge_looks (r_looks res) = true).
Proof.
  cbn zeta. intros Hout. unfold wait_until in *.
  pose proof (wait_until_loop_char f o c [] 0%nat eq_refl) as H. cbn zeta in H.
  destruct (r_out (wait_until_loop f c o [] 0)) eqn:E.
  - destruct H as [[t [Hs Hc]] Hj]. exists t. rewrite Hc. cbn. repeat split; auto.
  - destruct H as [[t [Hs Hc]] _]. exists t. rewrite Hc. cbn. repeat split; auto. discriminate.
  - congruence.
Qed.

(* with the repaired text a stop request ends a time-of-day wait *)
Lemma wait_until_stops f x o :
  shape_wait_until_checks_stop = true ->
  f (fst (hm x)) (snd (hm x)) = false -> kg x = false -> o <> [] ->
  forall c, r_out (wait_until f c (x :: o)) = Stopped.
Proof.
  intros Hs Hm Hk Ho c. unfold wait_until. cbn [wait_until_loop]. rewrite Hm, Hk, Hs. cbn.
  destruct o; [congruence|reflexivity].
Qed.

(* ---------- Machine._wait ---------- *)

Lemma zero_never_blocks t raw c o :
  t <= 0 -> machine_wait (TNum t) raw c o = mkResult c Returned [] [] 0 o.
Proof.
  intros H. unfold machine_wait. apply Qltb_false in H. rewrite H. reflexivity.
Qed.

Lemma Qltb_0_div1000 t : Qltb 0 (t / 1000) = Qltb 0 t.
Proof.
  destruct (Qltb 0 t) eqn:E.
  - apply Qltb_true in E. apply Qltb_true. apply Qlt_shift_div_l; lra.
  - apply Qltb_false in E. apply Qltb_false. apply Qle_shift_div_r; lra.
Qed.

Lemma raw_is_ms t c o :
  machine_wait (TNum t) true c o = machine_wait (TNum (t / 1000)) false c o.
Proof.
  unfold machine_wait. rewrite Qltb_0_div1000. reflexivity.
Qed.

Lemma logical_is_seconds t c o :
  0 < t -> machine_wait (TNum t) false c o = pause_for c t o.
Proof.
  intros H. unfold machine_wait. apply Qltb_true in H. rewrite H. reflexivity.
Qed.

(* ---------- the model meets the time-line specification ---------- *)

Lemma first_due_app dl : forall pre x,
  (forall y, In y pre -> y < dl) -> dl <= x -> first_due dl (pre ++ [x]) = Some (length pre).
Proof.
  induction pre as [|a pre IH]; intros x Hpre Hx; cbn [app first_due length].
  - apply Qleb_true in Hx. rewrite Hx. reflexivity.
  - assert (Ha : Qleb dl a = false) by (apply Qleb_false; apply Hpre; left; reflexivity).
    rewrite Ha, IH; [reflexivity| |exact Hx]. intros y Hy. apply Hpre. right. exact Hy.
Qed.

Lemma judge_delay_ok dl pre x :
  (forall y, In y pre -> y < dl) -> dl <= x -> judge_delay dl (pre ++ [x]) = VOk.
Proof.
  intros Hpre Hx. unfold judge_delay.
  rewrite (first_due_app dl pre x Hpre Hx).
  rewrite app_length. cbn [length]. replace (length pre + 1)%nat with (S (length pre)) by lia.
  rewrite Nat.eqb_refl. destruct pre; reflexivity.
Qed.

Lemma pause_for_judge c d o :
  r_out (pause_for c d o) = Returned ->
  judge_delay (c_start c + (c_cue c + d)) (r_seen (pause_for c d o)) = VOk.
Proof.
  intros Hout. destruct (pause_for_char c d o) as [_ [_ [pre [Hpre Hm]]]].
  rewrite Hout in Hm. destruct Hm as [x [_ [Hge [Hseen _]]]]. rewrite Hseen.
  apply judge_delay_ok.
  - intros y Hy. apply in_map_iff in Hy. destruct Hy as [z [Hz Hin]]. subst y.
    destruct (Hpre z Hin) as [Hlt _]. lra.
  - lra.
Qed.

Lemma seconds_positive raw t : 0 < t -> Qleb (seconds_of raw t) 0 = false.
Proof.
  intros H. apply Qleb_false. destruct raw; cbn [seconds_of]; [|exact H].
  apply Qlt_shift_div_l; lra.
Qed.

Lemma seconds_nonpositive raw t : t <= 0 -> Qleb (seconds_of raw t) 0 = true.
Proof.
  intros H. apply Qleb_true. destruct raw; cbn [seconds_of]; [|exact H].
  apply Qle_shift_div_r; lra.
Qed.

Lemma run_waits_judge : forall ws c o,
  Forall (fun r => r_out r = Returned) (run_waits c ws o) ->
  all_ok (judge (c_start c) (c_cue c) (observe ws (run_waits c ws o))) = true.
Proof.
  induction ws as [|[tv raw] ws IH]; intros c o Hall; [reflexivity|].
  cbn [run_waits] in *.
  remember (machine_wait tv raw c o) as r eqn:Hr.
  destruct (r_out r) eqn:Hout.
  2:{ inversion Hall as [|? ? H1 _]. congruence. }
  2:{ inversion Hall as [|? ? H1 _]. congruence. }
  inversion Hall as [|? ? _ Hrest]. subst.
  specialize (IH _ _ Hrest).
  cbn [observe sitem_of fst snd judge].
  destruct tv as [t|f]; cbn [machine_wait] in *; unfold sitem_of; cbn [fst snd].
  - destruct (Qltb 0 t) eqn:Ht.
    + apply Qltb_true in Ht. rewrite (seconds_positive raw t Ht).
      assert (Hd : seconds_of raw t = (if raw then t / 1000 else t)) by (destruct raw; reflexivity).
      rewrite Hd. set (d := if raw then t / 1000 else t) in *.
      cbn [sobs_of so_readings]. rewrite (pause_for_judge c d o Hout).
      destruct (pause_for_char c d o) as [Hs [Hc _]].
      rewrite Hs, Hc in IH. cbn [all_ok forallb]. exact IH.
    + apply Qltb_false in Ht. rewrite (seconds_nonpositive raw t Ht).
      cbn [sobs_of so_readings r_seen r_clock r_rest] in *. cbn [all_ok forallb]. exact IH.
  - pose proof (time_at_restarts f c o) as H. cbn zeta in H.
    destruct H as [t [Hseen [Hs [Hc Hj]]]]; [congruence|].
    cbn [sobs_of so_readings so_matched]. rewrite Hseen. rewrite (Hj Hout).
    rewrite Hs, Hc in IH. cbn [all_ok forallb]. exact IH.
Qed.

(* timeline: for every sequence of waits -- delays in logical or raw units, zero delays,
   time-of-day waits at any positions -- and every oracle, a run in which no stop request
   interferes is judged correct by the specification, item by item. *)
Lemma timeline ws o S rs :
  run_script ws o = (Some S, rs) ->
  Forall (fun r => r_out r = Returned) rs ->
  all_ok (judge S 0 (observe ws rs)) = true.
Proof.
  unfold run_script. destruct o as [|x o]; [discriminate|].
  intros H Hall. inversion H. subst.
  apply (run_waits_judge ws (reset (rd x)) o Hall).
Qed.

(* ---------- the hypotheses are satisfiable ---------- *)

Definition ob (r : Q) : obs := mkObs r (0%Z, 0%Z) true.

(* start at 100; `time 2`; readings 100.5, 101.5, 102.25 -> returns at 102.25 after 2 waits;
   then `time 1` with the script late at 103.5 -> no wait, cue = 3 *)
Example timeline_example :
  let rs := run_pauses (reset 100) [2; 1] [ob (201#2); ob (203#2); ob (409#4); ob (207#2)] in
  map r_out rs = [Returned; Returned] /\ map r_waits rs = [2%nat; 0%nat] /\
  map r_at rs = [409#4; 207#2].
Proof. vm_compute. repeat split. Qed.
