(* Proofs about Time/Stop.v against Time/StopSpec.v. *)
From Coq Require Import List Bool Arith Lia.
From Bardolph Require Import Gen.ClockGen Time.StopSpec Time.Stop.
Import ListNotations.

(* ---------- ties to the source text (break when the source changes shape) ---------- *)

Lemma stop_texts_current : stop_texts_modelled = true.
Proof. reflexivity. Qed.

(* the theorems below need the repaired texts *)
Lemma current_is_repaired : current_shapes = repaired_shapes.
Proof. reflexivity. Qed.

(* ---------- views of a configuration ---------- *)

Definition pc_of (c : config) (n : nat) : option jpc := option_map j_pc (nth_error (js c) n).

Definition in_instr (pc : jpc) : bool :=
  match pc with
  | JDev _ | JPfRCue0 | JPfWCue | JPfTime | JPfRStart | JPfRCue
  | JWait0 _ | JWait1 _ | JWait2 _ | JWait3 _ | JWuNow | JWuWCue | JWuTime | JWuWStart => true
  | _ => false
  end.
Definition ending (pc : jpc) : bool :=
  match pc with JStopWGo | JEndRRun | JEndRearm | JDone => true | _ => false end.
Definition running (pc : jpc) : bool :=
  match pc with JSpawn | JLoop => true | _ => in_instr pc end.
Definition jvalid (pc : jpc) : bool :=
  match pc with JResetRearm | JRunRearm => false | _ => true end.
Definition kvalid (k : kpc) : bool := match k with KRearm => false | _ => true end.
Definition is_done (o : option jpc) : bool := match o with Some JDone => true | _ => false end.

(* own steps a job thread still needs once both flags are down *)
Definition rem_pc (pc : jpc) : nat :=
  match pc with
  | JDone => 0 | JEndRearm => 1 | JEndRRun => 2 | JStopWGo => 3 | JLoop => 4
  | JDev _ => 5 | JWuWStart => 5 | JWuTime => 6 | JWuWCue => 7
  | JWait3 _ => 8 | JWait2 _ => 9 | JWait1 _ => 10 | JWait0 _ => 11
  | JWuNow => 12 | JPfRCue => 12 | JPfRStart => 13 | JPfTime => 14 | JPfWCue => 15 | JPfRCue0 => 16
  | JSpawn => 5 | JStartWGo => 6 | JStartWStart => 7 | JStartTime => 8 | JStartWCue => 9
  | JBegin => 10 | JRunRearm => 10 | JResetRearm => 11
  end.
Definition rem_of (o : option jpc) : nat := match o with Some pc => rem_pc pc | None => 0 end.

Lemma rem_pc_bound pc : rem_pc pc <= prompt_bound.
Proof. destruct pc; cbn; unfold prompt_bound; lia. Qed.

Lemma job_done_pc c n : job_done c n = is_done (pc_of c n).
Proof.
  unfold job_done, pc_of. destruct (nth_error (js c) n) as [j|]; cbn; [|reflexivity].
  destruct (j_pc j); reflexivity.
Qed.

(* ---------- list helpers ---------- *)

Lemma nth_error_replace_same {A} : forall (l : list A) n x y,
  nth_error l n = Some y -> nth_error (replace_nth l n x) n = Some x.
Proof.
  induction l as [|a l IH]; intros [|n] x y H; cbn in *; try discriminate; auto.
  eapply IH; eauto.
Qed.

Lemma nth_error_replace_other {A} : forall (l : list A) n m x,
  n <> m -> nth_error (replace_nth l n x) m = nth_error l m.
Proof.
  induction l as [|a l IH]; intros [|n] [|m] x H; cbn; auto; try congruence.
Qed.

Lemma length_replace {A} : forall (l : list A) n x, length (replace_nth l n x) = length l.
Proof. induction l as [|a l IH]; intros [|n] x; cbn; auto. Qed.

Lemma nth_error_wake l n :
  nth_error (wake_waiters l) n = option_map (fun j => match j_pc j with
                | JWait2 _ => mkJ (j_pc j) (j_ip j) (j_script j) (j_oracle j) true
                | _ => j end) (nth_error l n).
Proof. unfold wake_waiters. apply nth_error_map. Qed.

Lemma pc_wake l n : option_map j_pc (nth_error (wake_waiters l) n) = option_map j_pc (nth_error l n).
Proof.
  rewrite nth_error_wake. destruct (nth_error l n) as [j|]; cbn; [|reflexivity].
  destruct (j_pc j) eqn:E; cbn; rewrite ?E; reflexivity.
Qed.

(* ---------- what one step does, seen through the views ---------- *)

Section Steps.
Let sp := repaired_shapes.

(* a clock-thread step (repaired texts): flags, program, job pcs untouched *)
Lemma step_TK c n c' :
  forallb kvalid (ks c) = true ->
  step sp c (TK n) = Some c' ->
  keep_running c' = keep_running c /\ keep_going c' = keep_going c /\ rprog c' = rprog c /\
  landed c' = landed c /\ (forall m, pc_of c' m = pc_of c m) /\ length (js c') = length (js c) /\
  forallb kvalid (ks c') = true /\ exists a, tr c' = (TK n, a) :: tr c.
Proof.
  intros Hk H. unfold step in H.
  destruct (nth_error (ks c) n) as [k|] eqn:En; [|discriminate].
  assert (Hkv : kvalid k = true).
  { rewrite forallb_forall in Hk. apply Hk. eapply nth_error_In; eauto. }
  assert (Hrep : forall k', kvalid k' = true -> forallb kvalid (replace_nth (ks c) n k') = true).
  { intros k' Hk'. apply forallb_forall. intros x Hx. apply In_nth_error in Hx. destruct Hx as [m Hm].
    destruct (Nat.eq_dec n m) as [->|Hne].
    - erewrite nth_error_replace_same in Hm by eauto. inversion Hm. subst. exact Hk'.
    - rewrite nth_error_replace_other in Hm by exact Hne.
      rewrite forallb_forall in Hk. apply Hk. eapply nth_error_In; eauto. }
  destruct k; cbn in H; try discriminate; inversion H; subst c'; clear H; cbn;
    repeat split; auto; try (intros m; unfold pc_of; cbn; try apply pc_wake; reflexivity);
    try (unfold wake_waiters; apply map_length); try (apply Hrep; reflexivity); eauto.
  apply Hrep. destruct (keep_going c); reflexivity.
Qed.


(* a job-thread step at the level of the thread (repaired texts) *)
Lemma jstep_facts run go ev j r :
  jstep sp run go ev j = Some r -> jvalid (j_pc j) = true ->
  let pc := j_pc j in let pc' := j_pc (jr_j r) in
  jvalid pc' = true /\
  jr_run r = (match pc with JEndRearm => true | _ => run end) /\
  jr_go r = (match pc with JStartWGo => true | JStopWGo => false | _ => go end) /\
  (pc' = JDone -> pc = JEndRearm) /\
  (pc = JEndRearm -> pc' = JDone) /\
  (in_instr pc' = true -> in_instr pc = true \/ (pc = JLoop /\ run = true)) /\
  (running pc' = true -> running pc = true \/ pc = JStartWGo) /\
  (ending pc = true -> ending pc' = true /\ forall n, jr_act r <> ADev n) /\
  (forall b, jr_act r = ARRun b ->
     b = run /\ (pc = JLoop \/ pc = JEndRRun) /\ (run = false -> ending pc' = true) /\ (pc = JEndRRun -> ending pc' = true)) /\
  (forall b, jr_act r = ARGo b -> b = go /\ running pc = true) /\
  (run = false -> (in_instr pc = true -> go = false) -> S (rem_pc pc') <= rem_pc pc).
Proof.
  intros H Hv. cbn zeta. unfold jstep in H.
  destruct j as [pc ip scr orc wk]. cbn [j_pc] in *.
  destruct pc; cbn in Hv; try discriminate; cbn in H.
  all: try (inversion H; subst r; clear H; cbn; repeat split; intros; try congruence; try discriminate; auto; try lia; fail).
  all: try discriminate.
  - (* JLoop *)
    destruct run.
    + destruct (fetch scr ip) as [[|n| |]|]; inversion H; subst r; clear H; cbn;
        repeat split; intros; try congruence; try discriminate; auto; try lia;
        try (inversion H; subst; auto).
    + inversion H; subst r; clear H; cbn; repeat split; intros; try congruence; try discriminate; auto; try lia;
        try (inversion H; subst; auto).
  - (* JPfRCue *)
    unfold next_oracle in H. cbn in H.
    destruct orc as [|[|] rest]; inversion H; subst r; clear H; cbn;
      repeat split; intros; try congruence; try discriminate; auto; try lia.
  - (* JWait0 *)
    destruct go; inversion H; subst r; clear H; cbn; repeat split; intros; try congruence; try discriminate; auto; try lia;
      try (inversion H; subst; auto); try (specialize (H0 eq_refl); discriminate).
  - (* JWait1 *)
    destruct ev; inversion H; subst r; clear H; cbn; repeat split; intros; try congruence; try discriminate; auto; try lia.
  - (* JWait2 *)
    rewrite orb_true_r in H. inversion H; subst r; clear H; cbn; repeat split; intros; try congruence; try discriminate; auto; try lia.
  - (* JWait3 *)
    destruct k.
    + destruct go; inversion H; subst r; clear H; cbn; repeat split; intros; try congruence; try discriminate; auto; try lia;
        try (inversion H; subst; auto); try (specialize (H0 eq_refl); discriminate).
    + destruct go; cbn in H; inversion H; subst r; clear H; cbn; repeat split; intros; try congruence; try discriminate; auto; try lia;
        try (inversion H; subst; auto); try (specialize (H0 eq_refl); discriminate).
  - (* JWuNow *)
    unfold next_oracle in H. cbn in H.
    destruct orc as [|[|] rest]; inversion H; subst r; clear H; cbn;
      repeat split; intros; try congruence; try discriminate; auto; try lia.
Qed.


(* a job-thread step at the level of the configuration *)
Lemma step_TJ c n c' :
  step sp c (TJ n) = Some c' ->
  exists j r, nth_error (js c) n = Some j /\
    jstep sp (keep_running c) (keep_going c) (ev_flag c) j = Some r /\
    keep_running c' = jr_run r /\ keep_going c' = jr_go r /\ rprog c' = rprog c /\ landed c' = landed c /\
    pc_of c' n = Some (j_pc (jr_j r)) /\ (forall m, m <> n -> pc_of c' m = pc_of c m) /\
    length (js c') = length (js c) /\ tr c' = (TJ n, jr_act r) :: tr c /\
    (forallb kvalid (ks c) = true -> forallb kvalid (ks c') = true).
Proof.
  intros H. unfold step in H.
  destruct (nth_error (js c) n) as [j|] eqn:En; [|discriminate].
  destruct (jstep sp (keep_running c) (keep_going c) (ev_flag c) j) as [r|] eqn:Er; [|discriminate].
  inversion H; subst c'; clear H. exists j, r. cbn.
  repeat split; auto.
  - unfold pc_of. cbn. erewrite nth_error_replace_same by eauto. reflexivity.
  - intros m Hm. unfold pc_of. cbn. rewrite nth_error_replace_other by auto. reflexivity.
  - apply length_replace.
  - intros Hk. destruct (jr_spawn r); [|exact Hk]. rewrite forallb_app, Hk. reflexivity.
Qed.

(* ---------- traces grow at the end ---------- *)

Lemma trace_cons c c' e : tr c' = e :: tr c -> trace c' = trace c ++ [e].
Proof. unfold trace. intros ->. reflexivity. Qed.

Lemma sticks_phase_snoc t e : sticks_phase (t ++ [e]) = sticks_step (sticks_phase t) e.
Proof. unfold sticks_phase. rewrite fold_left_app. reflexivity. Qed.
Lemma own_state_snoc t e : own_state (t ++ [e]) = own_step (own_state t) e.
Proof. unfold own_state. rewrite fold_left_app. reflexivity. Qed.
Lemma per_run_state_snoc t e : per_run_state (t ++ [e]) = per_run_step (per_run_state t) e.
Proof. unfold per_run_state. rewrite fold_left_app. reflexivity. Qed.

End Steps.

(* ---------- the invariant of the stop-and-rerun programs (repaired texts) ---------- *)

Definition ph (c : config) := sticks_phase (trace c).
Definition ow (c : config) := own_state (trace c).
Definition pr (c : config) := per_run_state (trace c).

Lemma ghost_step c c' e : tr c' = e :: tr c ->
  ph c' = sticks_step (ph c) e /\ ow c' = own_step (ow c) e /\ pr c' = per_run_step (pr c) e.
Proof.
  intros H. unfold ph, ow, pr. rewrite (trace_cons c c' e H).
  rewrite sticks_phase_snoc, own_state_snoc, per_run_state_snoc. auto.
Qed.

Lemma jpc_eq_EndRearm (pc : jpc) : {pc = JEndRearm} + {pc <> JEndRearm}.
Proof. destruct pc; try (right; discriminate). left; reflexivity. Qed.

Lemma act_is_rrun (a : act) : {b | a = ARRun b} + {forall b, a <> ARRun b}.
Proof. destruct a; try (right; intros; discriminate). left. eexists. reflexivity. Qed.

Section Inv.
Variables (p : bool) (s1 : script) (o1 : list bool) (s2 : script) (o2 : list bool).
Let sp := repaired_shapes.
Let prog := prog_stop_rerun p s1 o1 s2 o2.

Definition njobs (k : nat) : nat := if k <? 3 then 0 else if k <? 9 then 1 else 2.

Record InvK (k : nat) (c : config) : Prop := mkInv {
  ik_le : k <= 10;
  ik_prog : rprog c = skipn k prog;
  ik_len : length (js c) = njobs k;
  ik_jvalid : forall n pc, pc_of c n = Some pc -> jvalid pc = true;
  ik_kvalid : forallb kvalid (ks c) = true;
  ik_done0 : 7 <= k -> is_done (pc_of c 0) = true;
  ik_f1 : k <= 4 -> keep_running c = true /\ landed c = None;
  ik_f2 : 5 <= k -> exists l, landed c = Some l /\ (l = false -> is_done (pc_of c 0) = true) /\
            (k <= 7 -> l = true -> keep_running c = is_done (pc_of c 0));
  ik_f2' : 8 <= k -> (p = true \/ landed c = Some true) -> keep_running c = true;
  ik_f3 : 6 <= k -> forall pc, pc_of c 0 = Some pc -> in_instr pc = true -> keep_going c = false;
  ik_f4 : forall pc, pc_of c 1 = Some pc -> running pc = true -> keep_going c = true;
  ik_ta1 : k <= 5 -> ph c = SBefore;
  ik_ta2 : 6 <= k -> (ph c = SAllow \/ ph c = SClosed) /\
            (ph c = SClosed -> exists pc, pc_of c 0 = Some pc /\ ending pc = true);
  ik_tb1 : k <= 5 -> ow c = (false, 0);
  ik_tb2 : 6 <= k -> exists n, ow c = (true, n) /\ n + rem_of (pc_of c 0) <= prompt_bound;
  ik_tc : (p = true \/ landed c <> Some false) -> pr c = ((if 5 <=? k then 1 else 0), true);
}.

Lemma inv_init : InvK 0 (init prog).
Proof.
  constructor; cbn; intros; try lia; auto; try discriminate.
  - destruct n; discriminate.
Qed.

(* clock threads do not disturb it *)
Lemma inv_TK k c n c' : InvK k c -> step sp c (TK n) = Some c' -> InvK k c'.
Proof.
  intros I H. destruct I.
  destruct (step_TK c n c' ik_kvalid0 H) as [Hr [Hg [Hp [Hl [Hpc [Hlen [Hkv [a Htr]]]]]]]].
  destruct (ghost_step c c' _ Htr) as [Hph [How Hpr]].
  assert (Eph : ph c' = ph c) by (rewrite Hph; destruct (ph c); reflexivity).
  assert (Eow : ow c' = ow c) by (rewrite How; reflexivity).
  assert (Epr : pr c' = pr c) by (rewrite Hpr; reflexivity).
  constructor; rewrite ?Hr, ?Hg, ?Hp, ?Hl, ?Hlen, ?Eph, ?Eow, ?Epr; try (setoid_rewrite Hpc); auto.
Qed.


Lemma is_done_some pc : is_done (Some pc) = true -> pc = JDone.
Proof. destruct pc; cbn; congruence. Qed.

Lemma go_same_running pc go :
  running pc = true -> (match pc with JStartWGo => true | JStopWGo => false | _ => go end) = go.
Proof. destruct pc; cbn; congruence. Qed.

Lemma in_instr_running pc : in_instr pc = true -> running pc = true.
Proof. destruct pc; cbn; congruence. Qed.

Lemma jstep_done run go ev j : j_pc j = JDone -> jstep sp run go ev j = None.
Proof. intros H. unfold jstep. rewrite H. reflexivity. Qed.

Lemma sticks_allow_other a : (forall b, a <> ARRun b) -> sticks_step SAllow (TJ 0, a) = SAllow.
Proof. intros H. destruct a; try reflexivity. exfalso. eapply H. reflexivity. Qed.
Lemma sticks_closed_other a : (forall n, a <> ADev n) -> sticks_step SClosed (TJ 0, a) = SClosed.
Proof. intros H. destruct a; try reflexivity. exfalso. eapply H. reflexivity. Qed.

(* the job thread of the first run *)
Lemma inv_TJ0 k c c' : InvK k c -> step sp c (TJ 0) = Some c' -> InvK k c'.
Proof.
  intros I H. destruct I as [Ile Iprog Ilen Ijv Ikv Idone If1 If2 If2' If3 If4 Ita1 Ita2 Itb1 Itb2 Itc].
  destruct (step_TJ c 0 c' H) as [j [r [Hn [Hj [Hr [Hg [Hp [Hl [Hpc0 [Hpcm [Hlen [Htr Hkv]]]]]]]]]]]].
  assert (Hpc : pc_of c 0 = Some (j_pc j)) by (unfold pc_of; rewrite Hn; reflexivity).
  pose proof (jstep_facts _ _ _ _ _ Hj (Ijv 0 _ Hpc)) as F. cbn zeta in F.
  destruct F as [Fv [Frun [Fgo [Fd1 [Fd2 [Fin [Frn [Fend [Frr [Frg Frem]]]]]]]]]].
  set (pc := j_pc j) in *. set (pc' := j_pc (jr_j r)) in *.
  destruct (ghost_step c c' _ Htr) as [Hph [How Hpr]].
  assert (Hnd : pc <> JDone).
  { intros E. rewrite (jstep_done _ _ _ j E) in Hj. discriminate. }
  assert (Hk6 : k <= 6).
  { destruct (le_lt_dec k 6) as [|Hk]; [assumption|]. exfalso. apply Hnd.
    apply is_done_some. rewrite <- Hpc. apply Idone. lia. }
  assert (Hpc1 : pc_of c 1 = None).
  { unfold pc_of. destruct (nth_error (js c) 1) eqn:E; [|reflexivity]. exfalso.
    assert (1 < length (js c)) by (apply nth_error_Some; congruence).
    rewrite Ilen in H0. unfold njobs in H0.
    destruct (k <? 3) eqn:E3; [lia|]. destruct (k <? 9) eqn:E9; [lia|]. apply Nat.ltb_ge in E9. lia. }
  (* when the stop has been written and the job is still going, the run flag is down *)
  assert (Hrun : 5 <= k -> keep_running c = false /\ landed c = Some true).
  { intros Hk. destruct (If2 Hk) as [l [Hland [Hlf Hlt]]]. destruct l.
    - split; [|exact Hland]. rewrite Hlt by (auto; lia). rewrite Hpc. destruct pc; try reflexivity. congruence.
    - exfalso. apply Hnd. apply is_done_some. rewrite <- Hpc. apply Hlf. reflexivity. }
  constructor; rewrite ?Hp, ?Hl, ?Hlen; auto.
  - (* jvalid *) intros n q Hq. destruct n as [|n].
    + rewrite Hpc0 in Hq. inversion Hq. subst q. exact Fv.
    + rewrite Hpcm in Hq by lia. eapply Ijv; eauto.
  - (* done0 *) intros Hk. lia.
  - (* f1 *) intros Hk. destruct (If1 Hk) as [Hr1 Hl1]. split; [|exact Hl1].
    rewrite Hr, Frun, Hr1. destruct pc; reflexivity.
  - (* f2 *) intros Hk. destruct (Hrun Hk) as [Hr0 Hland]. exists true. split; [exact Hland|]. split; [discriminate|].
    intros _ _. rewrite Hr, Frun, Hpc0.
    destruct (jpc_eq_EndRearm pc) as [E|E].
    + rewrite E. rewrite (Fd2 E). reflexivity.
    + assert (pc' <> JDone) by (intros E'; apply E; apply Fd1; exact E').
      rewrite Hr0. destruct pc; try congruence; destruct pc'; try congruence; reflexivity.
  - (* f2' *) intros Hk. lia.
  - (* f3 *) intros Hk q Hq Hin. rewrite Hpc0 in Hq. inversion Hq. subst q.
    destruct (Hrun ltac:(lia)) as [Hr0 _].
    destruct (Fin Hin) as [Hin0|[_ Hr1]]; [|congruence].
    rewrite Hg, Fgo. rewrite (go_same_running _ _ (in_instr_running _ Hin0)).
    eapply If3; eauto.
  - (* f4 *) intros q Hq. rewrite Hpcm in Hq by lia. congruence.
  - (* ta1 *) intros Hk. rewrite Hph, (Ita1 Hk). reflexivity.
  - (* ta2 *) intros Hk. destruct (Ita2 Hk) as [Hcase Hcl].
    destruct (Hrun ltac:(lia)) as [Hr0 _].
    destruct Hcase as [Ea|Ec].
    + rewrite Hph, Ea. destruct (act_is_rrun (jr_act r)) as [[b Eb]|Hno].
      * rewrite Eb. cbn. split; [right; reflexivity|]. intros _. exists pc'. split; [exact Hpc0|].
        destruct (Frr b Eb) as [_ [_ [He _]]]. apply He. exact Hr0.
      * rewrite (sticks_allow_other _ Hno). split; [left; reflexivity|]. discriminate.
    + destruct (Hcl Ec) as [q [Hq Hqe]]. rewrite Hpc in Hq. inversion Hq. subst q.
      destruct (Fend Hqe) as [He Hnd']. rewrite Hph, Ec, (sticks_closed_other _ Hnd').
      split; [right; reflexivity|]. intros _. exists pc'. split; [exact Hpc0|exact He].
  - (* tb1 *) intros Hk. rewrite How, (Itb1 Hk). reflexivity.
  - (* tb2 *) intros Hk. destruct (Itb2 Hk) as [n [Eo Hb]].
    destruct (Hrun ltac:(lia)) as [Hr0 _].
    exists (S n). rewrite How, Eo. cbn. split; [reflexivity|].
    rewrite Hpc0. rewrite Hpc in Hb. cbn [rem_of] in *.
    assert (S (rem_pc pc') <= rem_pc pc).
    { apply Frem; [exact Hr0|]. intros Hin. eapply If3; eauto. }
    lia.
  - (* tc *) intros Hc. rewrite Hpr. rewrite (Itc Hc). reflexivity.
Qed.


Lemma njobs_two k : 1 < njobs k -> 9 <= k.
Proof.
  unfold njobs. destruct (k <? 3) eqn:E3; [lia|]. destruct (k <? 9) eqn:E9; [lia|].
  apply Nat.ltb_ge in E9. lia.
Qed.

Lemma act_is_rgo (a : act) : {b | a = ARGo b} + {forall b, a <> ARGo b}.
Proof. destruct a; try (right; intros; discriminate). left. eexists. reflexivity. Qed.

(* the job thread of the second run *)
Lemma inv_TJ1 k c c' : InvK k c -> step sp c (TJ 1) = Some c' -> InvK k c'.
Proof.
  intros I H. destruct I as [Ile Iprog Ilen Ijv Ikv Idone If1 If2 If2' If3 If4 Ita1 Ita2 Itb1 Itb2 Itc].
  destruct (step_TJ c 1 c' H) as [j [r [Hn [Hj [Hr [Hg [Hp [Hl [Hpc1 [Hpcm [Hlen [Htr Hkv]]]]]]]]]]]].
  assert (Hpc : pc_of c 1 = Some (j_pc j)) by (unfold pc_of; rewrite Hn; reflexivity).
  pose proof (jstep_facts _ _ _ _ _ Hj (Ijv 1 _ Hpc)) as F. cbn zeta in F.
  destruct F as [Fv [Frun [Fgo [Fd1 [Fd2 [Fin [Frn [Fend [Frr [Frg Frem]]]]]]]]]].
  set (pc := j_pc j) in *. set (pc' := j_pc (jr_j r)) in *.
  destruct (ghost_step c c' _ Htr) as [Hph [How Hpr]].
  assert (Hk9 : 9 <= k).
  { apply njobs_two. rewrite <- Ilen. apply nth_error_Some. congruence. }
  assert (Hpc0 : pc_of c' 0 = pc_of c 0) by (apply Hpcm; lia).
  assert (Eph : ph c' = ph c) by (rewrite Hph; destruct (ph c); reflexivity).
  assert (Eow : ow c' = ow c) by (rewrite How; reflexivity).
  constructor; rewrite ?Hp, ?Hl, ?Hlen, ?Eph, ?Eow, ?Hpc0; auto; try (intros; lia).
  - (* jvalid *) intros n q Hq. destruct (Nat.eq_dec n 1) as [->|Hne].
    + rewrite Hpc1 in Hq. inversion Hq. subst q. exact Fv.
    + rewrite Hpcm in Hq by lia. eapply Ijv; eauto.
  - (* f2 *) intros Hk. destruct (If2 Hk) as [l [Hland [Hlf Hlt]]]. exists l. split; [exact Hland|]. split; [exact Hlf|].
    intros; lia.
  - (* f2' *) intros Hk Hc. rewrite Hr, Frun, (If2' Hk Hc). destruct pc; reflexivity.
  - (* f3 *) intros Hk q Hq Hin. exfalso.
    assert (q = JDone) by (apply is_done_some; rewrite <- Hq; apply Idone; lia). subst q. discriminate.
  - (* f4 *) intros q Hq Hrn. rewrite Hpc1 in Hq. inversion Hq. subst q.
    rewrite Hg, Fgo. destruct (Frn Hrn) as [Hrn0|E].
    + rewrite (go_same_running _ _ Hrn0). eapply If4; eauto.
    + rewrite E. reflexivity.
  - (* tc *) intros Hc. rewrite Hpr, (Itc Hc).
    assert (E5 : (5 <=? k) = true) by (apply Nat.leb_le; lia). rewrite E5.
    assert (Hrt : keep_running c = true).
    { apply If2'; [lia|]. destruct Hc as [Hc|Hc]; [left; exact Hc|right].
      destruct (If2 ltac:(lia)) as [l [Hland _]]. rewrite Hland in *. destruct l; [reflexivity|congruence]. }
    destruct (act_is_rrun (jr_act r)) as [[b Eb]|Hno].
    + rewrite Eb. destruct (Frr b Eb) as [Eb' _]. rewrite Eb', Hrt. reflexivity.
    + destruct (act_is_rgo (jr_act r)) as [[b Eb]|Hno'].
      * rewrite Eb. destruct (Frg b Eb) as [Eb' Hrn]. rewrite Eb', (If4 _ Hpc Hrn). reflexivity.
      * destruct (jr_act r); try reflexivity; exfalso; [eapply Hno|eapply Hno']; reflexivity.
Qed.

Lemma inv_TJn k c n c' : InvK k c -> 2 <= n -> step sp c (TJ n) = Some c' -> False.
Proof.
  intros I Hn H. destruct I as [Ile Iprog Ilen _ _ _ _ _ _ _ _ _ _ _ _ _].
  unfold step in H. destruct (nth_error (js c) n) eqn:E; [|discriminate].
  assert (n < length (js c)) by (apply nth_error_Some; congruence).
  rewrite Ilen in H0. unfold njobs in H0. destruct (k <? 3); [lia|]. destruct (k <? 9); lia.
Qed.


Lemma rem_of_bound o : rem_of o <= prompt_bound.
Proof. destruct o; cbn; [apply rem_pc_bound|unfold prompt_bound; lia]. Qed.

Lemma sticks_R_other q a : a <> AWGo false -> sticks_step q (TR, a) = q.
Proof. intros H. destruct q; try reflexivity. destruct a; try reflexivity. destruct b; [reflexivity|congruence]. Qed.

Lemma njobs_one_pc1 k c : length (js c) = njobs k -> k <= 8 -> pc_of c 1 = None.
Proof.
  intros Hl Hk. unfold pc_of. destruct (nth_error (js c) 1) eqn:E; [|reflexivity]. exfalso.
  assert (1 < length (js c)) by (apply nth_error_Some; congruence).
  rewrite Hl in H. apply njobs_two in H. lia.
Qed.

Lemma js_one c : length (js c) = njobs 8 -> exists j0, js c = [j0].
Proof. cbn. destruct (js c) as [|j0 [|]]; try discriminate. eauto. Qed.

(* the requester *)
Lemma inv_TR k c c' : InvK k c -> step sp c TR = Some c' -> InvK (S k) c'.
Proof.
  intros I H. destruct I as [Ile Iprog Ilen Ijv Ikv Idone If1 If2 If2' If3 If4 Ita1 Ita2 Itb1 Itb2 Itc].
  unfold step in H. rewrite Iprog in H. unfold prog, prog_stop_rerun in H.
  assert (Epc : forall cc n, js cc = js c -> pc_of cc n = pc_of c n)
    by (intros cc n E; unfold pc_of; rewrite E; reflexivity).
  destruct k as [|[|[|[|[|[|[|[|[|[|k]]]]]]]]]]; cbn [skipn] in H; [..|exfalso; destruct k; discriminate].
  all: try (destruct (job_done c 0) eqn:Ed0; [|discriminate]).
  all: try (destruct (job_done c 1) eqn:Ed1; [|discriminate]).
  all: inversion H; subst c'; clear H.
  all: match goal with |- InvK _ ?c1 => destruct (ghost_step c c1 _ eq_refl) as [Hph [How Hpr]] end.
  all: constructor; cbn [keep_running keep_going rprog js ks landed]; try (intros; lia); auto.
  (* generic goals *)
  all: try solve [intros _; apply If1; lia].
  all: try solve [intros _; destruct (If1 ltac:(lia)) as [Hr Hl]; split; [destruct p; auto|exact Hl]].
  all: try solve [intros _; rewrite Hph, Ita1 by lia; try destruct p; reflexivity].
  all: try solve [intros _; rewrite How, Itb1 by lia; try destruct p; reflexivity].
  all: try solve [intros Hc; rewrite Hpr, (Itc Hc); try destruct p; reflexivity].
  all: try solve [intros _; destruct (If2 ltac:(lia)) as [l [Hland [Hlf Hlt]]]; exists l;
                  rewrite ?Epc by reflexivity; repeat split; auto; intros; lia].
  all: try solve [intros _; rewrite Hph; rewrite sticks_R_other by (try destruct p; discriminate);
                  rewrite ?Epc by reflexivity; apply Ita2; lia].
  all: try solve [intros _; rewrite How; rewrite ?Epc by reflexivity;
                  try (destruct p); cbn [own_step fst snd]; apply Itb2; lia].
  all: try solve [intros _ q; rewrite ?Epc by reflexivity; apply If3; lia].
  all: try solve [intros _; rewrite ?Epc by reflexivity; first [rewrite <- job_done_pc; exact Ed0 | apply Idone; lia]].
  all: try solve [intros q; rewrite ?Epc by reflexivity; apply If4].
  - (* spawn 1: length *)
    destruct (js c); [reflexivity|discriminate].
  - (* spawn 1: jvalid *)
    assert (Ejs : js c = []) by (destruct (js c); [reflexivity|discriminate]).
    intros n q. unfold pc_of. cbn [js]. rewrite Ejs. destruct n as [|[|n]]; cbn; try discriminate.
    intros E. inversion E. reflexivity.
  - (* spawn 1: f4 *)
    assert (Ejs : js c = []) by (destruct (js c); [reflexivity|discriminate]).
    intros q. unfold pc_of. cbn [js]. rewrite Ejs. cbn. discriminate.
  - (* stop, first write: f2 *)
    intros _. destruct (If1 ltac:(lia)) as [Hr Hl]. rewrite Hl. exists (negb (job_done c 0)). split; [reflexivity|].
    rewrite job_done_pc. unfold pc_of. cbn [js].
    generalize (is_done (option_map j_pc (nth_error (js c) 0))). intros d.
    destruct d; cbn; split; intros; auto; discriminate.
  - (* stop, first write: tc *)
    intros Hc. destruct (If1 ltac:(lia)) as [Hr Hl]. rewrite Hpr, Itc; [reflexivity|]. right. rewrite Hl. discriminate.
  - (* stop, second write: f4 *)
    intros q Hq. rewrite Epc in Hq by reflexivity. rewrite (njobs_one_pc1 5 c Ilen) in Hq by lia. discriminate.
  - (* stop, second write: ta2 *)
    intros _. rewrite Hph, Ita1 by lia. cbn. split; [left; reflexivity|discriminate].
  - (* stop, second write: tb2 *)
    intros _. exists 0. rewrite How, Itb1 by lia. cbn. split; [reflexivity|]. apply rem_of_bound.
  - (* second start, prepare: f2' *)
    intros _ Hc. destruct p; [reflexivity|]. destruct Hc as [Hc|Hc]; [discriminate|].
    destruct (If2 ltac:(lia)) as [l [Hland [Hlf Hlt]]]. rewrite Hland in Hc. inversion Hc. subst l.
    rewrite Hlt by (auto; lia). apply Idone. lia.
  - (* spawn 2: length *)
    rewrite app_length, Ilen. reflexivity.
  - (* spawn 2: jvalid *)
    destruct (js_one c Ilen) as [j0 Ejs].
    intros n q. unfold pc_of. cbn [js]. rewrite Ejs. destruct n as [|[|[|n]]]; cbn; try discriminate.
    + intros E. apply (Ijv 0 q). unfold pc_of. rewrite Ejs. exact E.
    + intros E. inversion E. reflexivity.
  - (* spawn 2: done0 *)
    destruct (js_one c Ilen) as [j0 Ejs]. intros _.
    replace (pc_of _ 0) with (pc_of c 0) by (unfold pc_of; cbn [js]; rewrite Ejs; reflexivity). apply Idone. lia.
  - (* spawn 2: f2 *)
    destruct (js_one c Ilen) as [j0 Ejs]. intros _.
    destruct (If2 ltac:(lia)) as [l [Hland [Hlf Hlt]]]. exists l.
    replace (pc_of _ 0) with (pc_of c 0) by (unfold pc_of; cbn [js]; rewrite Ejs; reflexivity).
    repeat split; auto. intros; lia.
  - (* spawn 2: f3 *)
    destruct (js_one c Ilen) as [j0 Ejs]. intros _ q.
    replace (pc_of _ 0) with (pc_of c 0) by (unfold pc_of; cbn [js]; rewrite Ejs; reflexivity). apply If3. lia.
  - (* spawn 2: f4 *)
    destruct (js_one c Ilen) as [j0 Ejs].
    intros q. unfold pc_of. cbn [js]. rewrite Ejs. cbn. intros E. inversion E. subst q. discriminate.
  - (* spawn 2: ta2 *)
    destruct (js_one c Ilen) as [j0 Ejs]. intros _. rewrite Hph. rewrite sticks_R_other by discriminate.
    replace (pc_of _ 0) with (pc_of c 0) by (unfold pc_of; cbn [js]; rewrite Ejs; reflexivity). apply Ita2. lia.
  - (* spawn 2: tb2 *)
    destruct (js_one c Ilen) as [j0 Ejs]. intros _. rewrite How.
    replace (pc_of _ 0) with (pc_of c 0) by (unfold pc_of; cbn [js]; rewrite Ejs; reflexivity). apply Itb2. lia.
Qed.

End Inv.

(* ---------- all schedules ---------- *)

Section Theorems.
Variables (p : bool) (s1 : script) (o1 : list bool) (s2 : script) (o2 : list bool).
Let sp := repaired_shapes.
Let prog := prog_stop_rerun p s1 o1 s2 o2.

Lemma inv_step k c t c' : InvK p s1 o1 s2 o2 k c -> step sp c t = Some c' ->
  exists k', k <= k' /\ InvK p s1 o1 s2 o2 k' c'.
Proof.
  intros I H. destruct t as [|n|n].
  - exists (S k). split; [lia|]. eapply inv_TR; eauto.
  - destruct n as [|[|n]].
    + exists k. split; [lia|]. eapply inv_TJ0; eauto.
    + exists k. split; [lia|]. eapply inv_TJ1; eauto.
    + exfalso. eapply (inv_TJn p s1 o1 s2 o2 k c (S (S n))); eauto. lia.
  - exists k. split; [lia|]. eapply inv_TK; eauto.
Qed.

Lemma inv_exec : forall sched k c, InvK p s1 o1 s2 o2 k c ->
  exists k', k <= k' /\ InvK p s1 o1 s2 o2 k' (exec sp c sched).
Proof.
  induction sched as [|t rest IH]; intros k c I; cbn [exec].
  - exists k. split; [lia|exact I].
  - destruct (step sp c t) as [c'|] eqn:E.
    + destruct (inv_step k c t c' I E) as [k1 [Hk1 I1]].
      destruct (IH k1 c' I1) as [k2 [Hk2 I2]]. exists k2. split; [lia|exact I2].
    + apply IH. exact I.
Qed.

Lemma inv_reach sched : exists k, InvK p s1 o1 s2 o2 k (exec sp (init prog) sched).
Proof.
  destruct (inv_exec sched 0 (init prog) (inv_init p s1 o1 s2 o2)) as [k [_ I]]. eauto.
Qed.

(* stop_sticks *)
Lemma stop_sticks sched : sticks_ok (trace (exec sp (init prog) sched)) = true.
Proof.
  destruct (inv_reach sched) as [k I]. destruct I as [_ _ _ _ _ _ _ _ _ _ _ Ita1 Ita2 _ _ _].
  unfold sticks_ok. fold (ph (exec sp (init prog) sched)).
  destruct (le_lt_dec k 5) as [Hk|Hk].
  - rewrite (Ita1 Hk). reflexivity.
  - destruct (Ita2 ltac:(lia)) as [[E|E] _]; rewrite E; reflexivity.
Qed.

(* stop_terminates, part 1: never more than prompt_bound own steps after the stop *)
Lemma stop_prompt sched : prompt_ok (trace (exec sp (init prog) sched)) = true.
Proof.
  destruct (inv_reach sched) as [k I]. destruct I as [_ _ _ _ _ _ _ _ _ _ _ _ _ Itb1 Itb2 _].
  unfold prompt_ok, own_steps_after_stop. fold (ow (exec sp (init prog) sched)).
  apply Nat.leb_le. destruct (le_lt_dec k 5) as [Hk|Hk].
  - rewrite (Itb1 Hk). cbn. lia.
  - destruct (Itb2 ltac:(lia)) as [n [E Hb]]. rewrite E. cbn. lia.
Qed.

(* part 2: the job thread can always move: it is never blocked on an event nobody will set *)
Lemma jstep_enabled run go ev j : jvalid (j_pc j) = true -> j_pc j <> JDone -> jstep sp run go ev j <> None.
Proof.
  intros Hv Hd. unfold jstep. destruct j as [pc ip scr orc wk]. cbn [j_pc] in *.
  destruct pc; cbn in *; try discriminate; try congruence.
  - destruct run; [destruct (fetch scr ip) as [[| | |]|]|]; discriminate.
  - unfold next_oracle. cbn. destruct orc as [|[|] ?]; discriminate.
  - destruct go; discriminate.
  - destruct ev; discriminate.
  - rewrite orb_true_r. discriminate.
  - destruct k; destruct go; discriminate.
  - unfold next_oracle. cbn. destruct orc as [|[|] ?]; discriminate.
Qed.

Lemma never_blocked sched n :
  let c := exec sp (init prog) sched in
  n < length (js c) -> job_done c n = false -> enabled sp c (TJ n) = true.
Proof.
  cbn zeta. intros Hn Hd. destruct (inv_reach sched) as [k I].
  set (c := exec sp (init prog) sched) in *.
  destruct I as [_ _ _ Ijv _ _ _ _ _ _ _ _ _ _ _ _].
  unfold enabled, step. destruct (nth_error (js c) n) as [j|] eqn:E.
  - assert (Hv : jvalid (j_pc j) = true) by (apply (Ijv n); unfold pc_of; rewrite E; reflexivity).
    assert (Hnd : j_pc j <> JDone).
    { unfold job_done in Hd. rewrite E in Hd. destruct (j_pc j); congruence. }
    pose proof (jstep_enabled (keep_running c) (keep_going c) (ev_flag c) j Hv Hnd) as He.
    destruct (jstep sp (keep_running c) (keep_going c) (ev_flag c) j); [reflexivity|congruence].
  - apply nth_error_None in E. lia.
Qed.

(* part 3: once the stop has completed, own steps taken + own steps still needed <= prompt_bound *)
Definition stop_completed (c : config) : Prop := fst (ow c) = true.

Lemma stop_measure sched :
  let c := exec sp (init prog) sched in
  stop_completed c -> own_steps_after_stop (trace c) + rem_of (pc_of c 0) <= prompt_bound.
Proof.
  cbn zeta. intros Hs. destruct (inv_reach sched) as [k I].
  destruct I as [_ _ _ _ _ _ _ _ _ _ _ _ _ Itb1 Itb2 _]. unfold stop_completed in Hs.
  destruct (le_lt_dec k 5) as [Hk|Hk].
  - rewrite (Itb1 Hk) in Hs. discriminate.
  - destruct (Itb2 ltac:(lia)) as [n [E Hb]]. unfold own_steps_after_stop.
    fold (ow (exec sp (init prog) sched)). rewrite E. exact Hb.
Qed.

Lemma rem_zero_done c : rem_of (pc_of c 0) = 0 -> 0 < length (js c) -> job_done c 0 = true.
Proof.
  intros H Hl. rewrite job_done_pc. unfold pc_of in *. destruct (nth_error (js c) 0) as [j|] eqn:E.
  - cbn in *. destruct (j_pc j); cbn in H; try discriminate. reflexivity.
  - apply nth_error_None in E. lia.
Qed.

(* stop_is_per_run *)
Lemma stop_is_per_run sched :
  let c := exec sp (init prog) sched in
  p = true \/ landed c <> Some false -> per_run_ok (trace c) = true.
Proof.
  cbn zeta. intros Hc. destruct (inv_reach sched) as [k I].
  destruct I as [_ _ _ _ _ _ _ _ _ _ _ _ _ _ _ Itc].
  unfold per_run_ok. fold (pr (exec sp (init prog) sched)). rewrite (Itc Hc). reflexivity.
Qed.

End Theorems.

(* ---------- the abstract job controller ---------- *)

(* when the stopped (or any) active job's thread finishes, the head of the queue becomes
   the active job: the next queued job starts *)
Lemma next_job_starts c j h t :
  c_active c = Some j -> c_queue c = h :: t ->
  c_active (ctl_finished c) = Some h /\ c_queue (ctl_finished c) = t.
Proof. intros Ha Hq. unfold ctl_finished, ctl_start_next. cbn. rewrite Hq. auto. Qed.

(* stopping the current job leaves the queue alone *)
Lemma stop_current_keeps_queue c : c_queue (ctl_stop_current c) = c_queue c.
Proof. unfold ctl_stop_current. destruct (c_active c); reflexivity. Qed.

(* stop-all: the queue is empty, the active job is marked, and when it finishes nothing starts *)
Lemma stop_all_leaves_queue_empty c :
  c_queue (ctl_stop_all c) = [] /\
  (forall j, c_active c = Some j -> In j (c_stopped (ctl_stop_all c))) /\
  c_active (ctl_finished (ctl_stop_all c)) = None /\ c_queue (ctl_finished (ctl_stop_all c)) = [].
Proof.
  unfold ctl_stop_all, ctl_stop_current, ctl_clear_queue. cbn.
  destruct (c_active c) as [j|]; cbn; repeat split; auto.
  - intros j' E. inversion E. left. reflexivity.
  - intros j' E. discriminate.
Qed.

(* ---------- "finishes within prompt_bound own steps", as a statement about schedules ---------- *)

Lemma exec_app sp c a b : exec sp c (a ++ b) = exec sp (exec sp c a) b.
Proof.
  revert c. induction a as [|t a IH]; intros c; cbn [exec app]; [reflexivity|].
  destruct (step sp c t); apply IH.
Qed.

Definition tid_eqb (a b : tid) : bool :=
  match a, b with
  | TR, TR => true
  | TJ n, TJ m => Nat.eqb n m
  | TK n, TK m => Nat.eqb n m
  | _, _ => false
  end.
Definition count_tid (t : tid) (l : list tid) : nat := length (filter (tid_eqb t) l).

Lemma nth_error_app_0 {A} (l : list A) x : 0 < length l -> nth_error (l ++ [x]) 0 = nth_error l 0.
Proof. destruct l; cbn; [lia|reflexivity]. Qed.

(* a finished job stays finished, whatever the others do *)
Lemma done_step sp c t c' : job_done c 0 = true -> step sp c t = Some c' -> job_done c' 0 = true.
Proof.
  intros Hd H. rewrite job_done_pc in *. unfold pc_of in *.
  destruct (nth_error (js c) 0) as [j|] eqn:E; [|discriminate]. cbn in Hd.
  assert (Hl : 0 < length (js c)) by (apply nth_error_Some; congruence).
  destruct t as [|n|n]; unfold step in H.
  - destruct (rprog c) as [|[| b | s o | | | | m] rest]; try discriminate;
      try (inversion H; subst c'; cbn [js]; rewrite E; exact Hd).
    + inversion H; subst c'; cbn [js]. rewrite nth_error_app_0 by exact Hl. rewrite E. exact Hd.
    + destruct (job_done c m); [|discriminate]. inversion H; subst c'; cbn [js]. rewrite E. exact Hd.
  - destruct (nth_error (js c) n) as [jn|] eqn:En; [|discriminate].
    destruct (jstep sp (keep_running c) (keep_going c) (ev_flag c) jn) as [r|] eqn:Er; [|discriminate].
    inversion H; subst c'; cbn [js]. destruct n as [|n].
    + exfalso. rewrite E in En. inversion En. subst jn.
      assert (Ej : j_pc j = JDone) by (destruct (j_pc j); congruence).
      unfold jstep in Er. rewrite Ej in Er. discriminate.
    + rewrite nth_error_replace_other by lia. rewrite E. exact Hd.
  - destruct (nth_error (ks c) n) as [k|]; [|discriminate].
    destruct (kstep sp (keep_going c) (ev_flag c) k) as [[[[[go ev] wake] k'] a]|]; [|discriminate].
    inversion H; subst c'; cbn [js]. destruct wake; [|rewrite E; exact Hd].
    pose proof (pc_wake (js c) 0) as Hw. rewrite E in Hw.
    destruct (nth_error (wake_waiters (js c)) 0) as [j'|] eqn:Ew; cbn in Hw; [|discriminate Hw].
    inversion Hw as [Hpc]. cbn. rewrite Hpc. exact Hd.
Qed.

Lemma done_exec sp sched : forall c, job_done c 0 = true -> job_done (exec sp c sched) 0 = true.
Proof.
  induction sched as [|t rest IH]; intros c Hd; cbn [exec]; [exact Hd|].
  destruct (step sp c t) as [c'|] eqn:E; [|apply IH; exact Hd].
  apply IH. eapply done_step; eauto.
Qed.

(* own steps never shrink, and a step of job thread 0 after the stop adds one *)
Lemma own_step_mono st e : fst st = true -> fst (own_step st e) = true /\ snd st <= snd (own_step st e).
Proof.
  intros H. destruct st as [f n]. cbn in H. subst f. destruct e as [[|[|m]|m] a]; cbn; auto.
  destruct a; cbn; auto. destruct b; cbn; auto.
Qed.

Lemma step_tr sp c t c' : step sp c t = Some c' -> exists a, tr c' = (t, a) :: tr c.
Proof.
  intros H. destruct t as [|n|n]; unfold step in H.
  - destruct (rprog c) as [|[| b | s o | | | | m] rest]; try discriminate;
      try (inversion H; subst c'; cbn; eauto; fail).
    destruct (job_done c m); [|discriminate]. inversion H; subst c'; cbn; eauto.
  - destruct (nth_error (js c) n); [|discriminate].
    destruct (jstep sp _ _ _ _); [|discriminate]. inversion H; subst c'; cbn; eauto.
  - destruct (nth_error (ks c) n); [|discriminate].
    destruct (kstep sp _ _ _) as [[[[[go ev] wake] k'] a]|]; [|discriminate]. inversion H; subst c'; cbn; eauto.
Qed.

Section Within.
Variables (p : bool) (s1 : script) (o1 : list bool) (s2 : script) (o2 : list bool).
Let sp := repaired_shapes.
Let prog := prog_stop_rerun p s1 o1 s2 o2.

Lemma own_grows : forall sched2 sched1,
  let c1 := exec sp (init prog) sched1 in
  stop_completed c1 ->
  job_done (exec sp c1 sched2) 0 = true \/
  (stop_completed (exec sp c1 sched2) /\
   snd (ow c1) + count_tid (TJ 0) sched2 <= snd (ow (exec sp c1 sched2))).
Proof.
  induction sched2 as [|t rest IH]; intros sched1; cbn zeta; intros Hs.
  - right. cbn. split; [exact Hs|]. unfold count_tid. cbn. lia.
  - set (c1 := exec sp (init prog) sched1) in *.
    cbn [exec]. destruct (step sp c1 t) as [c'|] eqn:E.
    + assert (Ec : c' = exec sp (init prog) (sched1 ++ [t])).
      { rewrite exec_app. fold c1. cbn [exec]. rewrite E. reflexivity. }
      destruct (step_tr sp c1 t c' E) as [a Htr].
      destruct (ghost_step c1 c' _ Htr) as [_ [How _]].
      destruct (own_step_mono (ow c1) (t, a) Hs) as [Hf Hm].
      assert (Hs' : stop_completed c') by (unfold stop_completed; rewrite How; exact Hf).
      specialize (IH (sched1 ++ [t])). cbn zeta in IH. rewrite <- Ec in IH.
      destruct (IH Hs') as [Hd|[Hs2 Hc]]; [left; exact Hd|right]. split; [exact Hs2|].
      assert (Hadd : snd (ow c1) + (if tid_eqb (TJ 0) t then 1 else 0) <= snd (ow c')).
      { rewrite How. destruct (ow c1) as [f n] eqn:Eo. unfold stop_completed in Hs. rewrite Eo in Hs. cbn in Hs. subst f.
        destruct t as [|[|m]|m]; cbn; try lia.
        destruct a; cbn; try lia. destruct b; cbn; lia. }
      unfold count_tid in *. cbn [filter]. destruct (tid_eqb (TJ 0) t); cbn [length]; lia.
    + (* the chosen thread cannot move: either it is not job thread 0, or job 0 is finished *)
      destruct (tid_eqb (TJ 0) t) eqn:Et.
      * destruct t as [|[|m]|m]; cbn in Et; try discriminate.
        destruct (job_done c1 0) eqn:Ed.
        -- left. apply done_exec. exact Ed.
        -- exfalso.
           destruct (Nat.eq_dec (length (js c1)) 0) as [E0|E0].
           ++ (* no job yet: the stop cannot have completed *)
              destruct (inv_reach p s1 o1 s2 o2 sched1) as [k I]. fold sp prog c1 in I.
              destruct I as [_ _ Ilen _ _ _ _ _ _ _ _ _ _ Itb1 _ _].
              unfold stop_completed in Hs. rewrite E0 in Ilen. unfold njobs in Ilen.
              destruct (k <? 3) eqn:E3; [|destruct (k <? 9); discriminate].
              apply Nat.ltb_lt in E3. rewrite Itb1 in Hs by lia. discriminate.
           ++ pose proof (never_blocked p s1 o1 s2 o2 sched1 0) as Hnb. cbn zeta in Hnb. fold sp prog c1 in Hnb.
              unfold enabled in Hnb. rewrite E in Hnb. specialize (Hnb ltac:(lia) Ed). discriminate.
      * specialize (IH sched1 Hs). fold c1 in IH. destruct IH as [Hd|[Hs2 Hc]]; [left; exact Hd|right].
        split; [exact Hs2|]. unfold count_tid in *. cbn [filter]. rewrite Et. exact Hc.
Qed.

(* once the stop has completed, any schedule that gives the job thread prompt_bound steps
   sees it finished -- whatever the other threads do in between *)
Lemma finishes_within sched1 sched2 :
  let c1 := exec sp (init prog) sched1 in
  stop_completed c1 -> prompt_bound <= count_tid (TJ 0) sched2 ->
  job_done (exec sp c1 sched2) 0 = true.
Proof.
  cbn zeta. intros Hs Hn.
  destruct (own_grows sched2 sched1 Hs) as [Hd|[Hs2 Hc]]; [exact Hd|].
  set (c1 := exec sp (init prog) sched1) in *.
  assert (Ec : exec sp c1 sched2 = exec sp (init prog) (sched1 ++ sched2)) by (rewrite exec_app; reflexivity).
  pose proof (stop_measure p s1 o1 s2 o2 (sched1 ++ sched2)) as Hm. cbn zeta in Hm. fold sp prog in Hm.
  rewrite <- Ec in Hm. specialize (Hm Hs2). unfold own_steps_after_stop in Hm. fold (ow (exec sp c1 sched2)) in Hm.
  apply rem_zero_done; [lia|].
  destruct (Nat.eq_dec (length (js (exec sp c1 sched2))) 0) as [E0|E0]; [|lia]. exfalso.
  destruct (inv_reach p s1 o1 s2 o2 (sched1 ++ sched2)) as [k I]. fold sp prog in I. rewrite <- Ec in I.
  destruct I as [_ _ Ilen _ _ _ _ _ _ _ _ _ _ Itb1 _ _].
  rewrite E0 in Ilen. unfold njobs in Ilen. destruct (k <? 3) eqn:E3; [|destruct (k <? 9); discriminate].
  apply Nat.ltb_lt in E3. unfold stop_completed in Hs2. rewrite Itb1 in Hs2 by lia. discriminate.
Qed.

End Within.

(* ---------- what the pinned texts allow (witness schedules; they hold on every tree,
   being statements about [pinned_shapes], and are replayed on the real threads) ---------- *)

Fixpoint rep {A} (n : nat) (x : A) : list A := match n with O => [] | S m => x :: rep m x end.

(* the requester of the pinned tree: Agent.execute does not re-arm *)
Definition prog_stop (s : script) (o : list bool) : list rop :=
  [RBegin; RSpawn s o; RNop; RWRun; RWGo; RJoin 0].

Definition core (c : config) := (keep_running c, keep_going c, ev_flag c, rprog c, js c, ks c).

(* D21: a stop that completes before the job thread's re-arming writes is lost: the script
   runs to its end *)
Definition w_early : list tid := rep 5 TR ++ rep 16 (TJ 0).
Lemma early_stop_lost_refuted :
  exists sched, let c := exec pinned_shapes (init (prog_stop (mkScript [IDev 1; IDev 2] []) [])) sched in
    sticks_ok (trace c) = false /\ devs_of 0 (trace c) = 2.
Proof. exists w_early. vm_compute. split; reflexivity. Qed.

(* D20: a job thread inside wait_until ignores the stop: with both flags down and the clock
   thread gone, it is the only thread that can move, and it moves in a cycle *)
Definition w_time_at : list tid :=
  [TR; TR] ++ rep 7 (TJ 0) ++ rep 3 (TK 0) ++ rep 2 (TJ 0) ++ rep 3 TR ++ rep 5 (TK 0).
Lemma time_at_unstoppable_refuted :
  exists sched loop,
    let c := exec pinned_shapes (init (prog_stop (mkScript [IWaitUntil; IDev 1] []) [])) sched in
    stop_completed c /\ job_done c 0 = false /\
    enabled pinned_shapes c TR = false /\ enabled pinned_shapes c (TK 0) = false /\
    loop <> [] /\ core (exec pinned_shapes c loop) = core c.
Proof.
  exists w_time_at, (rep 3 (TJ 0)). vm_compute. repeat split; try reflexivity; try discriminate.
Qed.

(* D22: flag read, then Event.wait() without time-out after the clock thread's last tick:
   nobody can move, the job thread is not finished *)
Definition w_lost_wakeup : list tid :=
  [TR; TR] ++ rep 7 (TJ 0) ++ rep 2 (TK 0) ++ rep 7 (TJ 0) ++ rep 3 TR ++ [TK 0; TJ 0].
Lemma lost_wakeup_refuted :
  exists sched, let c := exec pinned_shapes (init (prog_stop (mkScript [IPause; IDev 1] []) [true; true])) sched in
    stop_completed c /\ job_done c 0 = false /\
    enabled pinned_shapes c TR = false /\ enabled pinned_shapes c (TJ 0) = false /\
    enabled pinned_shapes c (TK 0) = false /\ length (js c) = 1 /\ length (ks c) = 1.
Proof.
  exists w_lost_wakeup. vm_compute. repeat split; reflexivity.
Qed.

(* D43: the clock thread's own re-arming overwrites the stop: the delay in progress is not cut
   short -- more than prompt_bound own steps after the stop, still not finished *)
Definition w_overwritten : list tid :=
  [TR; TR] ++ rep 14 (TJ 0) ++ rep 3 TR ++ rep 2 (TK 0) ++
  concat (rep 3 ([TJ 0] ++ rep 5 (TK 0) ++ rep 6 (TJ 0))).
Lemma stop_overwritten_by_clock_thread_refuted :
  exists sched, let c := exec pinned_shapes (init (prog_stop (mkScript [IPause; IDev 1] []) (rep 10 true))) sched in
    prompt_ok (trace c) = false /\ job_done c 0 = false /\ keep_going c = true.
Proof. exists w_overwritten. vm_compute. repeat split; reflexivity. Qed.

(* The repaired texts without a re-arming starter (the same ScriptJob executed again directly,
   not through Agent.execute): a stop that arrives as the first run finishes poisons the next. *)
Definition w_late : list tid := rep 3 TR ++ rep 12 (TJ 0) ++ rep 6 TR ++ rep 10 (TJ 1) ++ [TR].
Lemma late_stop_poisons_next_run_refuted :
  exists sched,
    let c := exec repaired_shapes (init (prog_stop_rerun false (mkScript [IDev 1] []) [] (mkScript [IDev 2] []) [])) sched in
    landed c = Some false /\ per_run_ok (trace c) = false /\ devs_of 1 (trace c) = 0 /\ job_done c 1 = true.
Proof. exists w_late. vm_compute. repeat split; reflexivity. Qed.

(* ---------- the statements for the shapes in force ---------- *)

Lemma cur_stop_sticks : forall p s1 o1 s2 o2 sched,
  sticks_ok (trace (exec current_shapes (init (prog_stop_rerun p s1 o1 s2 o2)) sched)) = true.
Proof. rewrite current_is_repaired. exact stop_sticks. Qed.

Lemma cur_stop_prompt : forall p s1 o1 s2 o2 sched,
  prompt_ok (trace (exec current_shapes (init (prog_stop_rerun p s1 o1 s2 o2)) sched)) = true.
Proof. rewrite current_is_repaired. exact stop_prompt. Qed.

Lemma cur_never_blocked : forall p s1 o1 s2 o2 sched n,
  let c := exec current_shapes (init (prog_stop_rerun p s1 o1 s2 o2)) sched in
  n < length (js c) -> job_done c n = false -> enabled current_shapes c (TJ n) = true.
Proof. rewrite current_is_repaired. exact never_blocked. Qed.

Lemma cur_finishes_within : forall p s1 o1 s2 o2 sched1 sched2,
  let c1 := exec current_shapes (init (prog_stop_rerun p s1 o1 s2 o2)) sched1 in
  stop_completed c1 -> prompt_bound <= count_tid (TJ 0) sched2 ->
  job_done (exec current_shapes c1 sched2) 0 = true.
Proof. rewrite current_is_repaired. exact finishes_within. Qed.

Lemma cur_stop_is_per_run : forall s1 o1 s2 o2 sched,
  per_run_ok (trace (exec current_shapes (init (prog_stop_rerun true s1 o1 s2 o2)) sched)) = true.
Proof. rewrite current_is_repaired. intros. apply stop_is_per_run. left. reflexivity. Qed.

Lemma cur_stop_is_per_run_direct : forall s1 o1 s2 o2 sched,
  let c := exec current_shapes (init (prog_stop_rerun false s1 o1 s2 o2)) sched in
  landed c <> Some false -> per_run_ok (trace c) = true.
Proof. rewrite current_is_repaired. intros. apply stop_is_per_run. right. assumption. Qed.

Lemma shapes_repaired : current_shapes = repaired_shapes /\ shape_agent_prepares = true.
Proof. split; [exact current_is_repaired|reflexivity]. Qed.

Lemma next_job_starts_after_stop : forall c j h t,
  c_active c = Some j -> c_queue c = h :: t ->
  c_queue (ctl_stop_current c) = h :: t /\
  c_active (ctl_finished (ctl_stop_current c)) = Some h /\ c_queue (ctl_finished (ctl_stop_current c)) = t.
Proof.
  intros c j h t Ha Hq. split; [rewrite stop_current_keeps_queue; exact Hq|].
  apply (next_job_starts (ctl_stop_current c) j h t).
  - unfold ctl_stop_current. rewrite Ha. reflexivity.
  - rewrite stop_current_keeps_queue. exact Hq.
Qed.
