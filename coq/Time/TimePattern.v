(* Model of bardolph/lib/time_pattern.py around the translated functions of
   Gen/TimePatternGen.v: from_string, match, union.  No proofs here. *)
From Coq Require Import ZArith String Ascii List Bool.
From Bardolph Require Import Base.PyStr Gen.CharClasses Gen.TimePatternGen.
From Bardolph Require Export Time.TimeSpec Time.TimeCore.
Open Scope string_scope.
Open Scope list_scope.
Import ListNotations.
Open Scope Z_scope.
Open Scope bool_scope.

Definition tp_new (hours minutes : string) : tp :=
  [(init_hour_set hours, init_minute_set minutes)].
(* TimePattern(None, None): matches nothing *)
Definition tp_empty : tp := [([], [])].

(* from_string: None models Python's None (the compiler then reports a bad
   time specification); on the pinned tree the function returned an empty
   pattern object instead, which is expressed as Some tp_empty. *)
Definition from_string (s : string) : option tp :=
  match regex_match s with
  | Some (h, m, _) =>
      if patterns_valid h m then Some (tp_new h m)
      else if shape_from_string_none then None else Some tp_empty
  | None => if shape_from_string_none then None else Some tp_empty
  end.


