(* Model of bardolph/lib/time_pattern.py around the translated functions of
   Gen/TimePatternGen.v: from_string, match, union.  No proofs here. *)
From Coq Require Import ZArith String Ascii List Bool.
From Bardolph Require Import Base.PyStr Gen.CharClasses Gen.TimePatternGen.
From Bardolph Require Export Time.TimeSpec.
Open Scope string_scope.
Open Scope list_scope.
Import ListNotations.
Open Scope Z_scope.
Open Scope bool_scope.

(* ---------- the pattern object ---------- *)

(* A pattern value is a list of alternatives, each an (hour set, minute set)
   pair.  The pinned representation (one pair, sets merged by union) and the
   repaired one (list of alternatives) are both expressed in it; which one is in
   force is read off the source by the translator (shape_* booleans). *)
Definition tp := list (list Z * list Z).

Definition tp_new (hours minutes : string) : tp :=
  [(init_hour_set hours, init_minute_set minutes)].
(* TimePattern(None, None): matches nothing *)
Definition tp_empty : tp := [([], [])].

Definition alt_match (a : list Z * list Z) (h m : Z) : bool := zmem h (fst a) && zmem m (snd a).

Definition tp_match (p : tp) (h m : Z) : bool :=
  if shape_repr_alternatives then existsb (fun a => alt_match a h m) p
  else match p with
       | [a] => alt_match a h m
       | _ => false
       end.

Definition tp_union (p q : tp) : tp :=
  if shape_repr_alternatives then (p ++ q)%list
  else match p, q with
       | [(h1, m1)], [(h2, m2)] => [((h1 ++ h2)%list, (m1 ++ m2)%list)]
       | _, _ => p
       end.

(* from_string: None models Python's None (the compiler then reports a bad
   time specification); on the pinned tree the function returned an empty
   pattern object instead, which is expressed as Some tp_empty. *)
Definition from_string (s : string) : option tp :=
  match regex_match s with
  | Some (h, m, _) =>
      if patterns_valid h m then Some (tp_new h m)
      else if shape_from_string_none then None else Some tp_empty
  | None => if shape_from_string_none then None else Some tp_empty
  end.

(* `time at p1 or p2 ...`: TIME_PATTERN INIT p1 ; TIME_PATTERN UNION p2 ; ... *)
Definition tp_union_all (p : tp) (ps : list tp) : tp := fold_left tp_union ps p.
