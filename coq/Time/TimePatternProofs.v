(* Proofs about Time/TimePattern.v and the generated Gen/TimePatternGen.v. *)
From Coq Require Import ZArith String Ascii List Bool Lia.
From Bardolph Require Import Base.PyStr Gen.CharClasses Gen.TimePatternGen Time.TimeSpec Time.TimePattern.
Open Scope string_scope.
Open Scope list_scope.
Import ListNotations.
Open Scope Z_scope.
Open Scope bool_scope.

(* ---------- ties to the source text (break when the source changes shape) ---------- *)

Lemma regex_text_current : REGEX_SPEC = REGEX_SPEC_modelled.
Proof. reflexivity. Qed.

Lemma repr_is_alternatives : shape_repr_alternatives = true.
Proof. reflexivity. Qed.

Lemma from_string_returns_none : shape_from_string_none = true.
Proof. reflexivity. Qed.

Lemma no_unknown_methods : shape_no_unknown_methods = true.
Proof. reflexivity. Qed.

(* ---------- the fields a match can produce form a finite family ---------- *)

Definition digit_chars : list ascii := map (fun n => ascii_of_nat n) re_digit_codes.

Definition elem_chars (e : pelem) : list ascii :=
  match e with PStar => [star] | PDigit => digit_chars end.

Fixpoint expand (es : list pelem) : list string :=
  match es with
  | [] => [EmptyString]
  | e :: r => flat_map (fun c => map (String c) (expand r)) (elem_chars e)
  end.

Lemma re_is_digit_in c : re_is_digit c = true -> In c digit_chars.
Proof.
  unfold re_is_digit, nat_mem, digit_chars. intros H.
  apply existsb_exists in H. destruct H as [n [Hin Heq]].
  apply Nat.eqb_eq in Heq. apply in_map_iff. exists n. split; [|exact Hin].
  rewrite <- Heq. apply ascii_nat_embedding.
Qed.

Lemma elem_ok_in e c : elem_ok e c = true -> In c (elem_chars e).
Proof.
  destruct e; cbn [elem_ok elem_chars].
  - intros H. apply Ascii.eqb_eq in H. left. symmetry. exact H.
  - apply re_is_digit_in.
Qed.

Lemma match_elems_expand es : forall s m r, match_elems es s = Some (m, r) -> In m (expand es).
Proof.
  induction es as [|e es IH]; intros s m r; cbn [match_elems expand].
  - intros H. inversion H. left. reflexivity.
  - destruct s as [|c s']; [discriminate|].
    destruct (elem_ok e c) eqn:Hc; [|discriminate].
    destruct (match_elems es s') as [[m' r']|] eqn:Hm; [|discriminate].
    intros H. inversion H. subst m r. clear H.
    apply in_flat_map. exists c. split; [apply elem_ok_in; exact Hc|].
    apply in_map. eapply IH. exact Hm.
Qed.

Definition hour_forms : list string := flat_map expand hour_alts.
Definition minute_forms : list string := flat_map expand minute_alts.

Lemma first_some_In {A B} (f : A -> option B) l b :
  first_some f l = Some b -> exists a, In a l /\ f a = Some b.
Proof.
  induction l as [|a l IH]; cbn [first_some]; [discriminate|].
  destruct (f a) as [b'|] eqn:Hf.
  - intros H. inversion H. subst b'. exists a. split; [left; reflexivity|exact Hf].
  - intros H. destruct (IH H) as [a' [Hin Ha']]. exists a'. split; [right; exact Hin|exact Ha'].
Qed.

Lemma try_minutes_forms s m r : try_minutes s = Some (m, r) -> In m minute_forms /\ lookahead_ok r = true.
Proof.
  unfold try_minutes. intros H. apply first_some_In in H. destruct H as [alt [Hin H]].
  destruct (match_elems alt s) as [[m' r']|] eqn:Hm; [|discriminate].
  destruct (lookahead_ok r') eqn:Hl; [|discriminate].
  inversion H. subst m' r'. split; [|exact Hl].
  apply in_flat_map. exists alt. split; [exact Hin|]. eapply match_elems_expand. exact Hm.
Qed.

Lemma regex_match_forms s h m r :
  regex_match s = Some (h, m, r) -> In h hour_forms /\ In m minute_forms.
Proof.
  unfold regex_match. intros H. apply first_some_In in H. destruct H as [alt [Hin H]].
  destruct (match_elems alt s) as [[h' r']|] eqn:Hm; [|discriminate].
  destruct r' as [|c r'']; [discriminate|].
  destruct (Ascii.eqb c colon); [|discriminate].
  destruct (try_minutes r'') as [[m' r3]|] eqn:Ht; [|discriminate].
  inversion H. subst h' m' r3. split.
  - apply in_flat_map. exists alt. split; [exact Hin|]. eapply match_elems_expand. exact Hm.
  - apply try_minutes_forms in Ht. tauto.
Qed.

(* ---------- finite sweeps, lifted to forall ---------- *)

Definition hours_list := zrange 0 24.
Definition minutes_list := zrange 0 60.

(* an accepted hour field denotes exactly the hours in its set *)
Definition hour_check (hs : string) : bool :=
  if hours_valid hs then forallb (fun h => Bool.eqb (zmem h (init_hour_set hs)) (denotes_h hs h)) hours_list
  else true.
Definition minute_check (ms : string) : bool :=
  if minutes_valid ms then forallb (fun m => Bool.eqb (zmem m (init_minute_set ms)) (denotes_m ms m)) minutes_list
  else true.

Lemma hour_sweep : forallb hour_check hour_forms = true.
Proof. vm_compute. reflexivity. Qed.
Lemma minute_sweep : forallb minute_check minute_forms = true.
Proof. vm_compute. reflexivity. Qed.

(* validity = denotes at least one hour / minute *)
Definition hour_valid_check (hs : string) : bool :=
  Bool.eqb (hours_valid hs) (existsb (denotes_h hs) hours_list).
Definition minute_valid_check (ms : string) : bool :=
  Bool.eqb (minutes_valid ms) (existsb (denotes_m ms) minutes_list).

Lemma hour_valid_sweep : forallb hour_valid_check hour_forms = true.
Proof. vm_compute. reflexivity. Qed.
Lemma minute_valid_sweep : forallb minute_valid_check minute_forms = true.
Proof. vm_compute. reflexivity. Qed.

Lemma in_hours h : 0 <= h < 24 <-> In h hours_list.
Proof. unfold hours_list. rewrite zrange_In. tauto. Qed.
Lemma in_minutes m : 0 <= m < 60 <-> In m minutes_list.
Proof. unfold minutes_list. rewrite zrange_In. tauto. Qed.

Lemma hour_set_denotes hs h :
  In hs hour_forms -> hours_valid hs = true -> 0 <= h < 24 ->
  zmem h (init_hour_set hs) = denotes_h hs h.
Proof.
  intros Hin Hv Hh. pose proof hour_sweep as S. rewrite forallb_forall in S.
  specialize (S hs Hin). unfold hour_check in S. rewrite Hv in S.
  rewrite forallb_forall in S. apply Bool.eqb_prop. apply S. apply in_hours. exact Hh.
Qed.

Lemma minute_set_denotes ms m :
  In ms minute_forms -> minutes_valid ms = true -> 0 <= m < 60 ->
  zmem m (init_minute_set ms) = denotes_m ms m.
Proof.
  intros Hin Hv Hm. pose proof minute_sweep as S. rewrite forallb_forall in S.
  specialize (S ms Hin). unfold minute_check in S. rewrite Hv in S.
  rewrite forallb_forall in S. apply Bool.eqb_prop. apply S. apply in_minutes. exact Hm.
Qed.

Lemma hours_valid_iff hs :
  In hs hour_forms -> (hours_valid hs = true <-> exists h, 0 <= h < 24 /\ denotes_h hs h = true).
Proof.
  intros Hin. pose proof hour_valid_sweep as S. rewrite forallb_forall in S.
  specialize (S hs Hin). unfold hour_valid_check in S. apply Bool.eqb_prop in S. rewrite S.
  rewrite existsb_exists. split; intros [h [H1 H2]]; exists h; split; try exact H2; apply in_hours; exact H1.
Qed.

Lemma minutes_valid_iff ms :
  In ms minute_forms -> (minutes_valid ms = true <-> exists m, 0 <= m < 60 /\ denotes_m ms m = true).
Proof.
  intros Hin. pose proof minute_valid_sweep as S. rewrite forallb_forall in S.
  specialize (S ms Hin). unfold minute_valid_check in S. apply Bool.eqb_prop in S. rewrite S.
  rewrite existsb_exists. split; intros [m [H1 H2]]; exists m; split; try exact H2; apply in_minutes; exact H1.
Qed.

(* ---------- from_string ---------- *)

Lemma tp_match_alts p h m : tp_match p h m = existsb (fun a => alt_match a h m) p.
Proof. unfold tp_match. rewrite repr_is_alternatives. reflexivity. Qed.

Lemma tp_match_new hs ms h m :
  tp_match (tp_new hs ms) h m = zmem h (init_hour_set hs) && zmem m (init_minute_set ms).
Proof. rewrite tp_match_alts. unfold tp_new, alt_match. cbn [existsb fst snd]. apply orb_false_r. Qed.

(* Accepted text: the fields the expression captured are valid and the pattern
   object matches exactly the times the text denotes. *)
Lemma from_string_sound s p :
  from_string s = Some p ->
  exists hs ms r, regex_match s = Some (hs, ms, r) /\
    forall h m, valid_time h m -> tp_match p h m = denotes hs ms h m.
Proof.
  unfold from_string. rewrite from_string_returns_none.
  destruct (regex_match s) as [[[hs ms] r]|] eqn:Hr; [|discriminate].
  destruct (patterns_valid hs ms) eqn:Hv; [|discriminate].
  intros H. inversion H. subst p. clear H.
  exists hs, ms, r. split; [reflexivity|].
  intros h m [Hh Hm]. apply regex_match_forms in Hr. destruct Hr as [Hhf Hmf].
  unfold patterns_valid in Hv. apply andb_true_iff in Hv. destruct Hv as [Hvh Hvm].
  rewrite tp_match_new. unfold denotes.
  rewrite (hour_set_denotes hs h Hhf Hvh Hh), (minute_set_denotes ms m Hmf Hvm Hm). reflexivity.
Qed.

Lemma from_string_nonempty s p :
  from_string s = Some p -> exists h m, valid_time h m /\ tp_match p h m = true.
Proof.
  intros H. pose proof H as H0. unfold from_string in H. rewrite from_string_returns_none in H.
  destruct (regex_match s) as [[[hs ms] r]|] eqn:Hr; [|discriminate].
  destruct (patterns_valid hs ms) eqn:Hv; [|discriminate].
  pose proof (regex_match_forms _ _ _ _ Hr) as [Hhf Hmf].
  unfold patterns_valid in Hv. apply andb_true_iff in Hv. destruct Hv as [Hvh Hvm].
  apply (hours_valid_iff hs Hhf) in Hvh. destruct Hvh as [h [Hh Hdh]].
  apply (minutes_valid_iff ms Hmf) in Hvm. destruct Hvm as [m [Hm Hdm]].
  exists h, m. split; [split; assumption|].
  destruct (from_string_sound s p H0) as [hs' [ms' [r' [Hr' Hall]]]].
  rewrite Hr in Hr'. inversion Hr'. subst hs' ms' r'.
  rewrite Hall by (split; assumption). unfold denotes. rewrite Hdh, Hdm. reflexivity.
Qed.

(* Rejected exactly when the text is not of the pattern form, or denotes no time. *)
Lemma from_string_rejects s :
  from_string s = None <->
  (regex_match s = None \/
   exists hs ms r, regex_match s = Some (hs, ms, r) /\ forall h m, valid_time h m -> denotes hs ms h m = false).
Proof.
  unfold from_string. rewrite from_string_returns_none.
  destruct (regex_match s) as [[[hs ms] r]|] eqn:Hr.
  - pose proof (regex_match_forms _ _ _ _ Hr) as [Hhf Hmf].
    destruct (patterns_valid hs ms) eqn:Hv.
    + split; [discriminate|]. intros [H|[hs' [ms' [r' [Heq Hnone]]]]]; [discriminate|].
      inversion Heq. subst hs' ms' r'. exfalso.
      unfold patterns_valid in Hv. apply andb_true_iff in Hv. destruct Hv as [Hvh Hvm].
      apply (hours_valid_iff hs Hhf) in Hvh. destruct Hvh as [h [Hh Hdh]].
      apply (minutes_valid_iff ms Hmf) in Hvm. destruct Hvm as [m [Hm Hdm]].
      specialize (Hnone h m (conj Hh Hm)). unfold denotes in Hnone. rewrite Hdh, Hdm in Hnone. discriminate.
    + split; [|reflexivity]. intros _. right. exists hs, ms, r. split; [reflexivity|].
      intros h m [Hh Hm]. unfold denotes.
      unfold patterns_valid in Hv. apply andb_false_iff in Hv. destruct Hv as [Hv|Hv].
      * destruct (denotes_h hs h) eqn:Hd; [|reflexivity]. exfalso.
        assert (hours_valid hs = true) as Ht by (apply (hours_valid_iff hs Hhf); exists h; split; assumption).
        rewrite Ht in Hv. discriminate.
      * destruct (denotes_m ms m) eqn:Hd; [|apply andb_false_r]. exfalso.
        assert (minutes_valid ms = true) as Ht by (apply (minutes_valid_iff ms Hmf); exists m; split; assumption).
        rewrite Ht in Hv. discriminate.
  - split; [intros _; left; reflexivity|reflexivity].
Qed.

(* ---------- alternatives ---------- *)

Lemma tp_union_app p q : tp_union p q = (p ++ q)%list.
Proof. unfold tp_union. rewrite repr_is_alternatives. reflexivity. Qed.

Lemma tp_match_union p q h m : tp_match (tp_union p q) h m = tp_match p h m || tp_match q h m.
Proof. rewrite tp_union_app, !tp_match_alts. apply existsb_app. Qed.

Lemma tp_match_union_all ps : forall p h m,
  tp_match (tp_union_all p ps) h m = tp_match p h m || existsb (fun q => tp_match q h m) ps.
Proof.
  induction ps as [|q ps IH]; intros p h m; unfold tp_union_all in *; cbn [fold_left existsb].
  - symmetry. apply orb_false_r.
  - rewrite IH, tp_match_union. symmetry. apply orb_assoc.
Qed.

(* `time at s1 or s2 or ...` for accepted texts: matches a time exactly when one
   of the texts denotes it. *)
Lemma alternatives_denote ss : forall s p ps,
  from_string s = Some p ->
  Forall2 (fun s' p' => from_string s' = Some p') ss ps ->
  forall h m, valid_time h m ->
    (tp_match (tp_union_all p ps) h m = true <->
     exists t hs ms r, In t (s :: ss) /\ regex_match t = Some (hs, ms, r) /\ denotes hs ms h m = true).
Proof.
  intros s p ps Hs Hall h m Hv. rewrite tp_match_union_all.
  split.
  - intros H. apply orb_true_iff in H. destruct H as [H|H].
    + destruct (from_string_sound s p Hs) as [hs [ms [r [Hr Hd]]]].
      exists s, hs, ms, r. split; [left; reflexivity|]. split; [exact Hr|]. rewrite <- Hd by exact Hv. exact H.
    + apply existsb_exists in H. destruct H as [q [Hq Hm]].
      induction Hall as [|s' p' ss' ps' Hsp Hrest IH]; [destruct Hq|].
      destruct Hq as [->|Hq].
      * destruct (from_string_sound s' q Hsp) as [hs [ms [r [Hr Hd]]]].
        exists s', hs, ms, r. split; [right; left; reflexivity|]. split; [exact Hr|].
        rewrite <- Hd by exact Hv. exact Hm.
      * destruct (IH Hq) as [t [hs [ms [r [Hin Hrest']]]]]. exists t, hs, ms, r. split; [|exact Hrest'].
        destruct Hin as [Hin|Hin]; [left; exact Hin|right; right; exact Hin].
  - intros [t [hs [ms [r [Hin [Hr Hd]]]]]]. apply orb_true_iff.
    destruct Hin as [<-|Hin].
    + left. destruct (from_string_sound s p Hs) as [hs' [ms' [r' [Hr' Hd']]]].
      rewrite Hr in Hr'. inversion Hr'. subst hs' ms' r'. rewrite Hd' by exact Hv. exact Hd.
    + right. apply existsb_exists.
      induction Hall as [|s' p' ss' ps' Hsp Hrest IH]; [destruct Hin|].
      destruct Hin as [->|Hin].
      * exists p'. split; [left; reflexivity|].
        destruct (from_string_sound t p' Hsp) as [hs' [ms' [r' [Hr' Hd']]]].
        rewrite Hr in Hr'. inversion Hr'. subst hs' ms' r'. rewrite Hd' by exact Hv. exact Hd.
      * destruct (IH Hin) as [q [Hq Hm]]. exists q. split; [right; exact Hq|exact Hm].
Qed.

(* non-vacuity *)
Example ex_accept : exists p, from_string "1*:*5" = Some p /\ tp_match p 13 45 = true /\ tp_match p 13 46 = false.
Proof. eexists. split; [vm_compute; reflexivity|]. split; vm_compute; reflexivity. Qed.
Example ex_reject : from_string "24:00" = None /\ from_string "12:60" = None /\ from_string "1:2" = None.
Proof. repeat split; vm_compute; reflexivity. Qed.
Example ex_minute_59 : exists p, from_string "23:59" = Some p /\ tp_match p 23 59 = true.
Proof. eexists. split; vm_compute; reflexivity. Qed.
