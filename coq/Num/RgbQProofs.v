(* C07 over exact rationals: rgb percentages are sent as the hue / saturation / brightness of the
   same colour.  Written so that it does not depend on how rgb_to_raw treats kelvin (passed
   through, or rounded first -- both are the nearest integer once clamped). *)
From Coq Require Import ZArith QArith Qround Qabs Bool List Lia Lqa.
From Bardolph Require Import Base.PyNum Num.UnitsQ Gen.ParamGen Gen.ColorsysGen Gen.UnitsGen Gen.MachineUnitsGen
     Num.UnitsFloat Num.UnitsQProofs Num.ColorsysQProofs.
Open Scope Q_scope.

Lemma in01_pct : forall x, 0 <= x -> x <= 100 -> in01 (x / (100 # 1)).
Proof. intros x H0 H1. unfold in01. qconst. lra. Qed.

Lemma in01_raw : forall x, 0 <= x -> x <= 65535 -> in01 (x / (65535 # 1)).
Proof. intros x H0 H1. unfold in01. qconst. lra. Qed.

Lemma in01_deg : forall x, 0 <= x -> x <= 360 -> in01 (x / (360 # 1)).
Proof. intros x H0 H1. unfold in01. qconst. lra. Qed.

(* the colour components `set` sends in rgb units *)
Lemma rgb_to_raw_Q_sent : forall c : color4 Q,
  param_color_Q (rgb_to_raw_Q c) =
  let '(h, s, v) := guarded_rgb_to_hsv_Q (c0 c / (100 # 1)) (c1 c / (100 # 1)) (c2 c / (100 # 1)) in
  mkcolor (param_16_Q (h * (65535 # 1))) (param_16_Q (s * (65535 # 1))) (param_16_Q (v * (65535 # 1)))
          (param_16_Q (c3 (rgb_to_raw_Q c))).
Proof.
  intro c. unfold rgb_to_raw_Q.
  destruct (guarded_rgb_to_hsv_Q _ _ _) as [[h s] v].
  unfold param_color_Q, cmap; simpl.
  change (py_round_Q (py_max_Q (z2q 0) (py_min_Q (h * (65535 # 1)) (z2q 65535)))) with (param_16_Q (h * (65535 # 1))).
  change (py_round_Q (py_max_Q (z2q 0) (py_min_Q (s * (65535 # 1)) (z2q 65535)))) with (param_16_Q (s * (65535 # 1))).
  change (py_round_Q (py_max_Q (z2q 0) (py_min_Q (v * (65535 # 1)) (z2q 65535)))) with (param_16_Q (v * (65535 # 1))).
  rewrite !param_16_Q_idem. reflexivity.
Qed.

(* clamping an integer *)
Lemma param_16_Q_of_int : forall n, param_16_Q (inject_Z n) = Z.max 0 (Z.min n 65535).
Proof.
  intro n. unfold param_16_Q, py_max_Q, py_min_Q, z2q.
  destruct (Qltb (inject_Z 65535) (inject_Z n)) eqn:E1.
  - apply Qltb_true in E1. rewrite <- Zlt_Qlt in E1.
    assert (B : Qltb (inject_Z 0) (inject_Z 65535) = true) by reflexivity. rewrite B.
    rewrite py_round_Q_int. lia.
  - apply Qltb_false in E1. rewrite <- Zle_Qle in E1.
    destruct (Qltb (inject_Z 0) (inject_Z n)) eqn:E2.
    + apply Qltb_true in E2. rewrite <- Zlt_Qlt in E2. rewrite py_round_Q_int. lia.
    + apply Qltb_false in E2. rewrite <- Zle_Qle in E2. rewrite py_round_Q_int. lia.
Qed.

(* rounding first and clamping afterwards is still the nearest integer, clamped *)
Lemma rounded_then_clamped : forall k, nearest_clamped 0 65535 k (param_16_Q (z2q (py_round_Q k))).
Proof.
  intro k. unfold z2q. rewrite param_16_Q_of_int.
  pose proof (py_round_Q_nearest k) as N. apply Qabs_Qle_condition in N. destruct N as [N1 N2].
  set (n := py_round_Q k) in *.
  unfold nearest_clamped. change (inject_Z 0) with 0. change (inject_Z 65535) with 65535.
  destruct (Qlt_le_dec k 0) as [Kn | Kp].
  - left. split; [exact Kn |].
    assert (A : inject_Z n < inject_Z 1) by (change (inject_Z 1) with 1; lra).
    rewrite <- Zlt_Qlt in A. lia.
  - destruct (Qlt_le_dec 65535 k) as [Kh | Kl].
    + right; left. split; [exact Kh |].
      assert (A : inject_Z 65534 < inject_Z n) by (change (inject_Z 65534) with 65534; lra).
      rewrite <- Zlt_Qlt in A. lia.
    + right; right. split; [exact Kp |]. split; [exact Kl |].
      assert (A : inject_Z (-1) < inject_Z n) by (change (inject_Z (-1)) with (-1 # 1); lra).
      assert (B : inject_Z n < inject_Z 65536) by (change (inject_Z 65536) with 65536; lra).
      rewrite <- Zlt_Qlt in A, B.
      replace (Z.max 0 (Z.min n 65535)) with n by lia.
      apply Qabs_Qle_condition. split; lra.
Qed.

Lemma kelvin_sent_nearest : forall c : color4 Q,
  nearest_clamped 0 65535 (c3 c) (param_16_Q (c3 (rgb_to_raw_Q c))).
Proof.
  intro c. unfold rgb_to_raw_Q. destruct (guarded_rgb_to_hsv_Q _ _ _) as [[h s] v]. simpl c3.
  first [ apply param_16_Q_spec | apply rounded_then_clamped ].
Qed.

(* For rgb percentages within 0..100 there is an HSV triple (fractions in [0,1], hue below 1) that
   (1) denotes exactly the requested colour -- colorsys.hsv_to_rgb maps it back to the three
       percentages / 100 --, and
   (2) is what is transmitted: each colour component handed to the light is the nearest integer
       of 65535 times the corresponding fraction; kelvin is passed through. *)
Theorem rgb_sent_is_same_colour : forall c : color4 Q,
  0 <= c0 c -> c0 c <= 100 -> 0 <= c1 c -> c1 c <= 100 -> 0 <= c2 c -> c2 c <= 100 ->
  exists h s v,
    (0 <= h /\ h < 1) /\ in01 s /\ in01 v /\
    triple_eq (hsv_to_rgb_Q h s v) (c0 c / 100, c1 c / 100, c2 c / 100) /\
    c0 (canonical_color_Q RGB c) = param_16_Q (h * 65535) /\
    c1 (canonical_color_Q RGB c) = param_16_Q (s * 65535) /\
    c2 (canonical_color_Q RGB c) = param_16_Q (v * 65535) /\
    nearest_clamped 0 65535 (h * 65535) (param_16_Q (h * 65535)) /\
    nearest_clamped 0 65535 (s * 65535) (param_16_Q (s * 65535)) /\
    nearest_clamped 0 65535 (v * 65535) (param_16_Q (v * 65535)) /\
    nearest_clamped 0 65535 (c3 c) (c3 (canonical_color_Q RGB c)).
Proof.
  intros c R0 R1 G0 G1 B0 B1.
  pose proof (rgb_to_hsv_Q_range _ _ _ (in01_pct _ R0 R1) (in01_pct _ G0 G1) (in01_pct _ B0 B1)) as Rg.
  pose proof (hsv_rgb_roundtrip _ _ _ (in01_pct _ R0 R1) (in01_pct _ G0 G1) (in01_pct _ B0 B1)) as RT.
  pose proof (kelvin_sent_nearest c) as K.
  unfold canonical_color_Q, as_raw_color_Q, g_as_raw_color. rewrite rgb_to_raw_Q_sent.
  unfold guarded_rgb_to_hsv_Q.
  destruct (Qeqb (py_max_Q (py_max_Q (c0 c / (100 # 1)) (c1 c / (100 # 1))) (c2 c / (100 # 1))) (0 # 1)) eqn:E.
  - (* nothing above zero: the colour is black, sent as (0, 0, 0) *)
    apply Qeq_bool_iff in E.
    assert (Z3 : c0 c / (100 # 1) == 0 /\ c1 c / (100 # 1) == 0 /\ c2 c / (100 # 1) == 0).
    { pose proof (in01_pct _ R0 R1) as [A0 _]. pose proof (in01_pct _ G0 G1) as [A1 _]. pose proof (in01_pct _ B0 B1) as [A2 _].
      revert E. unfold py_max_Q.
      destruct (Qltb (c0 c / (100 # 1)) (c1 c / (100 # 1))) eqn:E1;
      [apply Qltb_true in E1 | apply Qltb_false in E1];
      match goal with |- context [Qltb ?a ?b] => destruct (Qltb a b) eqn:E2; [apply Qltb_true in E2 | apply Qltb_false in E2] end;
      intro E; repeat split; lra. }
    destruct Z3 as [Z0 [Z1 Z2]].
    exists 0, 0, 0. simpl c0; simpl c1; simpl c2; simpl c3.
    repeat split;
      first [ lra | reflexivity | apply param_16_Q_spec | exact K
            | (unfold hsv_to_rgb_Q, triple_eq in *; simpl in *; lra) | idtac ].
    all: try (unfold hsv_to_rgb_Q, triple_eq; simpl; repeat split; lra).
  - destruct (rgb_to_hsv_Q (c0 c / (100 # 1)) (c1 c / (100 # 1)) (c2 c / (100 # 1))) as [[h s] v].
    destruct Rg as [Hh [Hs Hv]].
    exists h, s, v. simpl c0; simpl c1; simpl c2; simpl c3.
    repeat split; try apply Hh; try apply Hs; try apply Hv; try apply RT;
      try reflexivity; try apply param_16_Q_spec. exact K.
Qed.

(* D62: with no component above zero (and none of them positive) the colour sent is black -- the
   wrapper around colorsys answers (0, 0, 0) where colorsys itself would divide by zero *)
Theorem rgb_nothing_positive_is_black : forall c : color4 Q,
  py_max_Q (py_max_Q (c0 c / (100 # 1)) (c1 c / (100 # 1))) (c2 c / (100 # 1)) == 0 ->
  c0 (canonical_color_Q RGB c) = 0%Z /\ c1 (canonical_color_Q RGB c) = 0%Z /\ c2 (canonical_color_Q RGB c) = 0%Z.
Proof.
  intros c E.
  unfold canonical_color_Q, as_raw_color_Q, g_as_raw_color. rewrite rgb_to_raw_Q_sent.
  unfold guarded_rgb_to_hsv_Q.
  assert (B : Qeqb (py_max_Q (py_max_Q (c0 c / (100 # 1)) (c1 c / (100 # 1))) (c2 c / (100 # 1))) (0 # 1) = true)
    by (unfold Qeqb; apply Qeq_bool_iff; exact E).
  rewrite B. simpl. repeat split; reflexivity.
Qed.
