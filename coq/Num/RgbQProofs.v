(* C07 over exact rationals: rgb percentages are sent as the hue / saturation / brightness of the
   same colour. *)
From Coq Require Import ZArith QArith Qround Qabs Bool List Lia Lqa.
From Bardolph Require Import Base.PyNum Num.UnitsQ Gen.ParamGen Gen.ColorsysGen Gen.UnitsGen Gen.MachineUnitsGen
     Num.UnitsFloat Num.UnitsQProofs Num.ColorsysQProofs Num.SwitchQProofs.
Open Scope Q_scope.

(* For rgb percentages within 0..100 there is an HSV triple (fractions in [0,1], hue below 1) that
   (1) denotes exactly the requested colour -- colorsys.hsv_to_rgb maps it back to the three
       percentages / 100 --, and
   (2) is what is transmitted: each colour component handed to the light is the nearest integer
       of 65535 times the corresponding fraction; kelvin is passed through. *)
Theorem rgb_sent_is_same_colour : forall c : color4 Q,
  0 <= c0 c -> c0 c <= 100 -> 0 <= c1 c -> c1 c <= 100 -> 0 <= c2 c -> c2 c <= 100 ->
  exists h s v,
    (0 <= h /\ h < 1) /\ in01 s /\ in01 v /\
    triple_eq (hsv_to_rgb_Q h s v) (c0 c / 100, c1 c / 100, c2 c / 100) /\
    canonical_color_Q RGB c =
      mkcolor (param_16_Q (h * 65535)) (param_16_Q (s * 65535)) (param_16_Q (v * 65535)) (param_16_Q (c3 c)) /\
    nearest_clamped 0 65535 (h * 65535) (param_16_Q (h * 65535)) /\
    nearest_clamped 0 65535 (s * 65535) (param_16_Q (s * 65535)) /\
    nearest_clamped 0 65535 (v * 65535) (param_16_Q (v * 65535)) /\
    nearest_clamped 0 65535 (c3 c) (param_16_Q (c3 c)).
Proof.
  intros c R0 R1 G0 G1 B0 B1.
  pose proof (rgb_to_hsv_Q_range _ _ _ (in01_pct _ R0 R1) (in01_pct _ G0 G1) (in01_pct _ B0 B1)) as Rg.
  pose proof (hsv_rgb_roundtrip _ _ _ (in01_pct _ R0 R1) (in01_pct _ G0 G1) (in01_pct _ B0 B1)) as RT.
  unfold canonical_color_Q, as_raw_color_Q, g_as_raw_color. rewrite rgb_to_raw_Q_sent.
  destruct (rgb_to_hsv_Q (c0 c / (100 # 1)) (c1 c / (100 # 1)) (c2 c / (100 # 1))) as [[h s] v].
  destruct Rg as [Hh [Hs Hv]].
  exists h, s, v. repeat split; try apply Hh; try apply Hs; try apply Hv; try apply RT;
    try reflexivity; apply param_16_Q_spec.
Qed.
