(* SPECIFICATION of C07 / C14 over exact rationals, written from the property text and
   docs/language.rst, independently of the implementation (imports nothing translated).

   What a light must be handed, in exact arithmetic:
     hue         (degrees mod 360) / 360 * 65535
     saturation, brightness      percent / 100 * 65535
     duration / delay            seconds * 1000   (raw units: the number itself)
     kelvin, raw components      the number itself
     rgb percentages             the hue/saturation/brightness of the same colour
   "correct to the nearest integer with out-of-range results clamped":
   [nearest_clamped lo hi q n].  For hue the raw values 0 and 65535 are the same angle
   ([hue_equiv]).  No proofs here. *)
From Coq Require Import ZArith QArith Qround Qabs Bool.
From Bardolph Require Import Base.PyNum.
Open Scope Q_scope.

Definition nearest_clamped (lo hi : Z) (q : Q) (n : Z) : Prop :=
  (q < inject_Z lo /\ n = lo) \/
  (inject_Z hi < q /\ n = hi) \/
  (inject_Z lo <= q /\ q <= inject_Z hi /\ Qabs (inject_Z n - q) <= 1 # 2).

Definition hue_equiv (a b : Z) : Prop :=
  a = b \/ (a = 0%Z /\ b = 65535%Z) \/ (a = 65535%Z /\ b = 0%Z).

Definition hue_nearest (q : Q) (n : Z) : Prop :=
  exists n', hue_equiv n n' /\ nearest_clamped 0 65535 q n'.

Definition u16 (n : Z) : Prop := (0 <= n <= 65535)%Z.
Definition u32 (n : Z) : Prop := (0 <= n <= 4294967295)%Z.

(* ---- exact values *)
Definition qmod (x y : Q) : Q := x - y * inject_Z (Qfloor (x / y)).
Definition hue_exact (deg : Q) : Q := qmod deg 360 / 360 * 65535.
Definition pct_exact (pct : Q) : Q := pct / 100 * 65535.
Definition ms_exact (seconds : Q) : Q := seconds * 1000.

(* textbook RGB -> HSV on fractions (h as a fraction of the circle) *)
Definition qmax (a b : Q) : Q := if Qle_bool a b then b else a.
Definition qmin (a b : Q) : Q := if Qle_bool a b then a else b.
Definition hsv_exact (r g b : Q) : Q * Q * Q :=
  let mx := qmax (qmax r g) b in
  let mn := qmin (qmin r g) b in
  if Qeq_bool mx mn then (0, 0, mx)
  else
    let d := mx - mn in
    let h6 := if Qeq_bool mx r then (g - b) / d
              else if Qeq_bool mx g then 2 + (b - r) / d
              else 4 + (r - g) / d in
    (qmod (h6 / 6) 1, d / mx, mx).

(* textbook HSV -> RGB (what colour a raw HSB triple denotes) *)
Definition rgb_exact (h s v : Q) : Q * Q * Q :=
  let h6 := qmod h 1 * 6 in
  let i := Qfloor h6 in
  let f := h6 - inject_Z i in
  let p := v * (1 - s) in
  let q := v * (1 - s * f) in
  let t := v * (1 - s * (1 - f)) in
  match i with
  | 0%Z => (v, t, p) | 1%Z => (q, v, p) | 2%Z => (p, v, t)
  | 3%Z => (p, q, v) | 4%Z => (t, p, v) | _ => (v, p, q)
  end.

(* ---- unit modes of the specification (its own type: it imports nothing generated) *)
Inductive smode : Set := SLogical | SRaw | SRgb.

(* One transmitted component: the interval, the exact value, and whether any value is
   acceptable (hue of a grey or black, saturation of black), whether it is a hue. *)
Record want : Type := mkwant { w_lo : Z; w_hi : Z; w_exact : Q; w_free : bool; w_hue : bool }.

Definition want16 (q : Q) : want := mkwant 0 65535 q false false.
Definition want_hue (q : Q) (free : bool) : want := mkwant 0 65535 q free true.

Definition spec_color (m : smode) (c : color4 Q) : color4 want :=
  match m with
  | SRaw => mkcolor (want_hue (c0 c) false) (want16 (c1 c)) (want16 (c2 c)) (want16 (c3 c))
  | SLogical => mkcolor (want_hue (hue_exact (c0 c)) false) (want16 (pct_exact (c1 c)))
                        (want16 (pct_exact (c2 c))) (want16 (c3 c))
  | SRgb =>
      let '(h, s, v) := hsv_exact (c0 c / 100) (c1 c / 100) (c2 c / 100) in
      let black := Qle_bool v 0 in
      let grey := Qeq_bool s 0 in
      mkcolor (want_hue (h * 65535) (black || grey)) (mkwant 0 65535 (s * 65535) black false)
              (want16 (v * 65535)) (want16 (c3 c))
  end.

Definition spec_duration (m : smode) (d : Q) : want :=
  mkwant 0 4294967295 (match m with SRaw => d | _ => ms_exact d end) false false.

(* pending delay in milliseconds; None = no wait is due (time <= 0) *)
Definition spec_delay_ms (m : smode) (t : Q) : option Q :=
  if Qle_bool t 0 then None else Some (match m with SRaw => t | _ => ms_exact t end).

(* ---- executable judgement of one transmitted integer against a [want] *)
Inductive verdict : Set := V_ok | V_tol | V_bad.

Definition Qabs_le_b (x b : Q) : bool := Qle_bool x b && Qle_bool (- b) x.

Definition judge1 (tol : Q) (lo hi : Z) (q : Q) (n : Z) : verdict :=
  if negb ((lo <=? n)%Z && (n <=? hi)%Z) then V_bad
  else if negb (Qle_bool (inject_Z lo) q) then (if (n =? lo)%Z then V_ok else V_bad)
  else if negb (Qle_bool q (inject_Z hi)) then (if (n =? hi)%Z then V_ok else V_bad)
  else if Qabs_le_b (inject_Z n - q) (1 # 2) then V_ok
  else if Qabs_le_b (inject_Z n - q) ((1 # 2) + tol) then V_tol
  else V_bad.

Definition best (a b : verdict) : verdict :=
  match a, b with
  | V_ok, _ | _, V_ok => V_ok
  | V_tol, _ | _, V_tol => V_tol
  | _, _ => V_bad
  end.

Definition judge (tol : Q) (w : want) (n : Z) : verdict :=
  if negb ((w_lo w <=? n)%Z && (n <=? w_hi w)%Z) then V_bad
  else if w_free w then V_ok
  else
    let v := judge1 tol (w_lo w) (w_hi w) (w_exact w) n in
    if w_hue w then
      (* 0 and 65535 are the same angle *)
      if (n =? 0)%Z then best v (judge1 tol (w_lo w) (w_hi w) (w_exact w) 65535)
      else if (n =? 65535)%Z then best v (judge1 tol (w_lo w) (w_hi w) (w_exact w) 0)
      else v
    else v.

(* two raw HSBK quadruples are the same colour: component-wise equal (hue modulo
   0 = 65535), or both black, or both without saturation and equally bright *)
Definition hue_equiv_b (a b : Z) : bool :=
  (a =? b)%Z || ((a =? 0)%Z && (b =? 65535)%Z) || ((a =? 65535)%Z && (b =? 0)%Z).

Definition same_colour_b (tol : Z) (a b : color4 Z) : bool :=
  let near x y := (Z.abs (x - y) <=? tol)%Z in
  let hue_near x y := near x y || (65535 - tol <=? Z.abs (x - y))%Z in
  near (c3 a) (c3 b) &&
  (((c2 a <=? tol)%Z && (c2 b <=? tol)%Z)
   || ((c1 a <=? tol)%Z && (c1 b <=? tol)%Z && near (c2 a) (c2 b))
   || (hue_near (c0 a) (c0 b) && near (c1 a) (c1 b) && near (c2 a) (c2 b))).

(* ---- C14: the documentation's table "Changed When Switching Units Mode"
   (docs/language.rst) and "None of the changes in unit mode affect the contents of kelvin" *)
Inductive setting : Set := S_time | S_duration | S_hue | S_saturation | S_brightness
                         | S_red | S_green | S_blue | S_kelvin.

Definition all_settings : list setting :=
  (S_time :: S_duration :: S_hue :: S_saturation :: S_brightness :: S_red :: S_green :: S_blue :: S_kelvin :: nil)%list.

Definition doc_rewritten (from to : smode) (s : setting) : bool :=
  match from, to, s with
  | SLogical, SRaw, (S_time | S_duration | S_hue | S_saturation | S_brightness) => true
  | SRaw, SLogical, (S_time | S_duration | S_hue | S_saturation | S_brightness) => true
  | SRgb, SRaw, (S_time | S_duration | S_hue | S_saturation | S_brightness) => true
  | SRaw, SRgb, (S_time | S_duration | S_red | S_green | S_blue) => true
  | SRgb, SLogical, (S_hue | S_saturation | S_brightness) => true
  | SLogical, SRgb, (S_red | S_green | S_blue) => true
  | _, _, _ => false
  end.

(* documented valid ranges of the settings in each mode (hue 0..360, percentages 0..100,
   raw 0..65535, non-negative times) *)
Definition in_range (lo hi x : Q) : Prop := lo <= x /\ x <= hi.

(* a transmitted integer meets a [want] *)
Definition meets (w : want) (n : Z) : Prop :=
  (w_lo w <= n <= w_hi w)%Z /\
  (w_free w = true \/
   (w_hue w = true /\ hue_nearest (w_exact w) n) \/
   (w_hue w = false /\ nearest_clamped (w_lo w) (w_hi w) (w_exact w) n)).

Definition color_meets (w : color4 want) (c : color4 Z) : Prop :=
  meets (c0 w) (c0 c) /\ meets (c1 w) (c1 c) /\ meets (c2 w) (c2 c) /\ meets (c3 w) (c3 c).

(* ---- C14: what "the same is transmitted" means.  Two raw HSBK quadruples are the same colour
   when they agree component-wise (hue modulo 0 = 65535), or both are black (brightness 0), or
   both are without saturation and equally bright -- in the last two cases the hue (and for
   black the saturation) does not influence the colour (see [rgb_exact]). *)
Definition same_colour (a b : color4 Z) : Prop :=
  c3 a = c3 b /\
  ((c2 a = 0 /\ c2 b = 0)%Z \/
   (c1 a = 0 /\ c1 b = 0 /\ c2 a = c2 b)%Z \/
   (hue_equiv (c0 a) (c0 b) /\ c1 a = c1 b /\ c2 a = c2 b)).

(* component-wise agreement, hue modulo 0 = 65535 (no rgb involved) *)
Definition same_hsbk (a b : color4 Z) : Prop :=
  hue_equiv (c0 a) (c0 b) /\ c1 a = c1 b /\ c2 a = c2 b /\ c3 a = c3 b.

(* pending delays in milliseconds: equal, or the switch rounded a delay below 1/131072 ms to
   none *)
Definition delay_close (after before : Q) : Prop :=
  after == before \/ (after == 0 /\ 0 <= before /\ before < 1 # 131072).
