(* Order tests, floor, round-half-even and float-modulo facts over exact rationals that do not
   depend on any translated code. *)
From Coq Require Import ZArith QArith Qround Qabs Bool Lia Lqa.
From Bardolph Require Import Base.PyNum Num.UnitsQ.
Open Scope Q_scope.

(* ---------------------------------------------------------------- booleans <-> order *)

Lemma Qltb_true : forall a b, Qltb a b = true <-> a < b.
Proof.
  intros a b. unfold Qltb. rewrite negb_true_iff.
  split; intro H.
  - apply Qnot_le_lt. intro Hle. apply Qle_bool_iff in Hle. congruence.
  - destruct (Qle_bool b a) eqn:E; [| reflexivity].
    apply Qle_bool_iff in E. exfalso. apply (Qlt_not_le _ _ H E).
Qed.

Lemma Qltb_false : forall a b, Qltb a b = false <-> b <= a.
Proof.
  intros a b. unfold Qltb. rewrite negb_false_iff. apply Qle_bool_iff.
Qed.

Lemma Qleb_true : forall a b, Qleb a b = true <-> a <= b.
Proof. intros. apply Qle_bool_iff. Qed.

Lemma Qleb_false : forall a b, Qleb a b = false <-> b < a.
Proof.
  intros a b. unfold Qleb. split; intro H.
  - apply Qnot_le_lt. intro Hle. apply Qle_bool_iff in Hle. congruence.
  - destruct (Qle_bool a b) eqn:E; [| reflexivity].
    apply Qle_bool_iff in E. exfalso. apply (Qlt_not_le _ _ H E).
Qed.

Lemma Qeqb_true : forall a b, Qeqb a b = true <-> a == b.
Proof. intros. apply Qeq_bool_iff. Qed.

Lemma Qeqb_false : forall a b, Qeqb a b = false <-> ~ a == b.
Proof.
  intros a b. split; intro H.
  - intro E. apply Qeq_bool_iff in E. unfold Qeqb in H. congruence.
  - destruct (Qeqb a b) eqn:E; [| reflexivity]. apply Qeqb_true in E. contradiction.
Qed.

(* destruct every numeric test in the goal into an order fact *)
Ltac qcase :=
  match goal with
  | |- context [Qltb ?a ?b] =>
      let E := fresh "E" in destruct (Qltb a b) eqn:E;
      [apply Qltb_true in E | apply Qltb_false in E]
  | |- context [Qleb ?a ?b] =>
      let E := fresh "E" in destruct (Qleb a b) eqn:E;
      [apply Qleb_true in E | apply Qleb_false in E]
  | |- context [Qeqb ?a ?b] =>
      let E := fresh "E" in destruct (Qeqb a b) eqn:E;
      [apply Qeqb_true in E | apply Qeqb_false in E]
  end.

Lemma Qltb_comp : forall a a' b b', a == a' -> b == b' -> Qltb a b = Qltb a' b'.
Proof.
  intros a a' b b' Ha Hb.
  destruct (Qltb a b) eqn:E1; destruct (Qltb a' b') eqn:E2; try reflexivity.
  - apply Qltb_true in E1. apply Qltb_false in E2. rewrite Ha, Hb in E1. exfalso. apply (Qlt_not_le _ _ E1 E2).
  - apply Qltb_false in E1. apply Qltb_true in E2. rewrite Ha, Hb in E1. exfalso. apply (Qlt_not_le _ _ E2 E1).
Qed.

(* lra over Q does not see through division by a constant or inject_Z of a constant *)
Ltac qconst :=
  unfold Qdiv in *;
  change (/ 100) with (1 # 100) in *; change (/ 360) with (1 # 360) in *;
  change (/ 1000) with (1 # 1000) in *; change (/ 65535) with (1 # 65535) in *;
  change (/ (100 # 1)) with (1 # 100) in *;
  change (inject_Z 0) with 0 in *; change (inject_Z 1) with 1 in *;
  change (inject_Z (-1)) with (-1 # 1) in *;
  change (inject_Z 65535) with 65535 in *; change (inject_Z 4294967295) with 4294967295 in *;
  change (inject_Z 360) with 360 in *; change (inject_Z 1000) with 1000 in *; change (inject_Z 100) with 100 in *.

(* ---------------------------------------------------------------- floor, rounding *)

Lemma Qfloor_bounds : forall x, inject_Z (Qfloor x) <= x /\ x < inject_Z (Qfloor x) + 1.
Proof.
  intro x. split; [apply Qfloor_le |].
  pose proof (Qlt_floor x) as H. rewrite inject_Z_plus in H. exact H.
Qed.

Lemma Qfloor_unique : forall x n, inject_Z n <= x -> x < inject_Z n + 1 -> Qfloor x = n.
Proof.
  intros x n H1 H2. destruct (Qfloor_bounds x) as [F1 F2].
  assert (I1 : inject_Z (n + 1) == inject_Z n + 1) by (rewrite inject_Z_plus; reflexivity).
  assert (I2 : inject_Z (Qfloor x + 1) == inject_Z (Qfloor x) + 1) by (rewrite inject_Z_plus; reflexivity).
  assert (A : inject_Z (Qfloor x) < inject_Z (n + 1)) by lra.
  assert (B : inject_Z n < inject_Z (Qfloor x + 1)) by lra.
  rewrite <- Zlt_Qlt in A, B. lia.
Qed.

Lemma py_round_Q_comp : forall a b, a == b -> py_round_Q a = py_round_Q b.
Proof.
  intros a b H. unfold py_round_Q.
  assert (Hf : Qfloor a = Qfloor b) by (rewrite H; reflexivity).
  rewrite Hf.
  rewrite (Qltb_comp (a - inject_Z (Qfloor b)) (b - inject_Z (Qfloor b)) (1 # 2) (1 # 2)) by (rewrite ?H; reflexivity).
  rewrite (Qltb_comp (1 # 2) (1 # 2) (a - inject_Z (Qfloor b)) (b - inject_Z (Qfloor b))) by (rewrite ?H; reflexivity).
  reflexivity.
Qed.

(* round-half-even is a nearest integer *)
Lemma py_round_Q_nearest : forall q, Qabs (inject_Z (py_round_Q q) - q) <= 1 # 2.
Proof.
  intro q. unfold py_round_Q. destruct (Qfloor_bounds q) as [F1 F2].
  set (f := Qfloor q) in *.
  assert (I : inject_Z (f + 1) == inject_Z f + 1) by (rewrite inject_Z_plus; reflexivity).
  apply Qabs_Qle_condition.
  destruct (Qltb (q - inject_Z f) (1 # 2)) eqn:E1.
  - apply Qltb_true in E1. split; lra.
  - apply Qltb_false in E1. destruct (Qltb (1 # 2) (q - inject_Z f)) eqn:E2.
    + apply Qltb_true in E2. rewrite I. split; lra.
    + apply Qltb_false in E2. destruct (Z.even f); [split; lra | rewrite I; split; lra].
Qed.

Lemma py_round_Q_int : forall n, py_round_Q (inject_Z n) = n.
Proof.
  intro n. unfold py_round_Q. rewrite Qfloor_Z.
  assert (H : Qltb (inject_Z n - inject_Z n) (1 # 2) = true) by (apply Qltb_true; lra).
  rewrite H. reflexivity.
Qed.

Lemma qmod_small : forall x y, 0 < y -> 0 <= x -> x < y -> qmod x y == x.
Proof.
  intros x y Hy H0 H1. unfold qmod.
  assert (F : Qfloor (x / y) = 0%Z).
  { apply Qfloor_unique; change (inject_Z 0) with 0.
    - apply Qle_shift_div_l; lra.
    - apply Qlt_shift_div_r; lra. }
  rewrite F. change (inject_Z 0) with 0. lra.
Qed.

Lemma qmod_shift : forall x y n, 0 < y -> inject_Z n * y <= x -> x < (inject_Z n + 1) * y ->
  qmod x y == x - inject_Z n * y.
Proof.
  intros x y n Hy H0 H1. unfold qmod.
  assert (F : Qfloor (x / y) = n).
  { apply Qfloor_unique.
    - apply Qle_shift_div_l; lra.
    - apply Qlt_shift_div_r; lra. }
  rewrite F. lra.
Qed.

Lemma py_fmod_Q_small : forall x y, 0 < y -> 0 <= x -> x < y -> py_fmod_Q x y == x.
Proof. exact qmod_small. Qed.

Lemma py_fmod_Q_range : forall x y, 0 < y -> 0 <= py_fmod_Q x y /\ py_fmod_Q x y < y.
Proof.
  intros x y Hy. unfold py_fmod_Q. destruct (Qfloor_bounds (x / y)) as [F1 F2].
  set (f := inject_Z (Qfloor (x / y))) in *.
  assert (E : x == (x / y) * y) by (field; lra).
  split.
  - assert (f * y <= (x / y) * y) by (apply Qmult_le_compat_r; lra). lra.
  - assert ((x / y) * y < (f + 1) * y) by (apply Qmult_lt_compat_r; lra). lra.
Qed.

Lemma fmod1_nonneg : forall x, 0 <= x -> x < 1 -> py_fmod_Q x 1 == x.
Proof. intros. apply qmod_small; lra. Qed.

Lemma fmod1_neg : forall x, -(1) <= x -> x < 0 -> py_fmod_Q x 1 == x + 1.
Proof.
  intros x H0 H1.
  rewrite (qmod_shift x 1 (-1)); change (inject_Z (-1)) with (-1 # 1); lra.
Qed.

Lemma div_range : forall a b, 0 <= a -> a <= b -> 0 < b -> 0 <= a / b /\ a / b <= 1.
Proof.
  intros a b H0 H1 Hb. split.
  - apply Qle_shift_div_l; lra.
  - apply Qle_shift_div_r; lra.
Qed.

(* destruct an innermost numeric test (one whose arguments contain no conditional) *)
Ltac no_if t := lazymatch t with context [if _ then _ else _] => fail | _ => idtac end.
Ltac qcase_inner :=
  match goal with
  | |- context [Qltb ?a ?b] => no_if a; no_if b;
      let E := fresh "E" in destruct (Qltb a b) eqn:E; [apply Qltb_true in E | apply Qltb_false in E]
  | |- context [Qleb ?a ?b] => no_if a; no_if b;
      let E := fresh "E" in destruct (Qleb a b) eqn:E; [apply Qleb_true in E | apply Qleb_false in E]
  | |- context [Qeqb ?a ?b] => no_if a; no_if b;
      let E := fresh "E" in destruct (Qeqb a b) eqn:E; [apply Qeqb_true in E | apply Qeqb_false in E]
  end.
