(* units.py wraps colorsys.rgb_to_hsv (D62: with nothing above zero colorsys divides by zero; the
   wrapper answers black).  Over exact rationals the wrapper has the range and round-trip properties
   of colorsys.rgb_to_hsv itself. *)
From Coq Require Import ZArith QArith Bool Lqa.
From Bardolph Require Import Base.PyNum Gen.ColorsysGen Gen.UnitsGen Num.QBasicsProofs Num.ColorsysQProofs.
Open Scope Q_scope.

Lemma guarded_unfold : forall r g b,
  guarded_rgb_to_hsv_Q r g b =
  if Qeqb (py_max_Q (py_max_Q r g) b) (0 # 1) then (0 # 1, 0 # 1, 0 # 1) else rgb_to_hsv_Q r g b.
Proof. reflexivity. Qed.

(* the brightness colorsys answers is the largest component *)
Lemma rgb_to_hsv_Q_v : forall r g b, snd (rgb_to_hsv_Q r g b) = py_max_Q (py_max_Q r g) b.
Proof. intros r g b. unfold rgb_to_hsv_Q. cbv zeta. destruct (Qeqb _ _); reflexivity. Qed.

Lemma guarded_rgb_to_hsv_Q_range : forall r g b, in01 r -> in01 g -> in01 b ->
  let '(h, s, v) := guarded_rgb_to_hsv_Q r g b in (0 <= h /\ h < 1) /\ in01 s /\ in01 v.
Proof.
  intros r g b Hr Hg Hb. rewrite guarded_unfold.
  destruct (Qeqb _ _).
  - unfold in01. repeat split; lra.
  - apply rgb_to_hsv_Q_range; assumption.
Qed.

Theorem guarded_rgb_hsv_roundtrip : forall h s v r g b, in01 h -> in01 s -> in01 v ->
  triple_eq (r, g, b) (hsv_to_rgb_Q h s v) ->
  let '(h', s', v') := guarded_rgb_to_hsv_Q r g b in
  v' == v /\
  ((s == 0 \/ v == 0) -> h' == 0 /\ s' == 0) /\
  (0 < s -> 0 < v -> s' == s /\ (h' == h \/ (h == 1 /\ h' == 0))).
Proof.
  intros h s v r g b Hh Hs Hv T.
  pose proof (rgb_hsv_roundtrip h s v r g b Hh Hs Hv T) as RT.
  pose proof (rgb_to_hsv_Q_v r g b) as Ev.
  rewrite guarded_unfold.
  destruct (Qeqb (py_max_Q (py_max_Q r g) b) (0 # 1)) eqn:E; [| exact RT].
  unfold Qeqb in E. apply Qeq_bool_iff in E.
  destruct (rgb_to_hsv_Q r g b) as [[h' s'] v']. simpl in Ev. subst v'.
  destruct RT as [Rv _].
  split; [lra |]. split; [intros _; split; reflexivity | intros _ Pv; exfalso; lra].
Qed.

(* hsv -> rgb -> hsv through the wrapper, for components in [0, 1] *)
Theorem guarded_hsv_rgb_roundtrip : forall r g b, in01 r -> in01 g -> in01 b ->
  triple_eq (let '(h, s, v) := guarded_rgb_to_hsv_Q r g b in hsv_to_rgb_Q h s v) (r, g, b).
Proof.
  intros r g b Hr Hg Hb. rewrite guarded_unfold.
  destruct (Qeqb (py_max_Q (py_max_Q r g) b) (0 # 1)) eqn:E; [| apply hsv_rgb_roundtrip; assumption].
  unfold Qeqb in E. apply Qeq_bool_iff in E.
  destruct Hr as [R0 _], Hg as [G0 _], Hb as [B0 _].
  revert E. unfold py_max_Q.
  destruct (Qltb r g) eqn:E1; [apply Qltb_true in E1 | apply Qltb_false in E1];
  match goal with |- context [Qltb ?x ?y] => destruct (Qltb x y) eqn:E2; [apply Qltb_true in E2 | apply Qltb_false in E2] end;
  intro E; unfold hsv_to_rgb_Q, triple_eq; simpl; repeat split; lra.
Qed.
