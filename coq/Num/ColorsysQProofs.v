(* colorsys over exact rationals (Gen/ColorsysGen.v, the ..._Q rendering of the running
   interpreter's colorsys.rgb_to_hsv / hsv_to_rgb): ranges and the two round trips.
   All statements are over Q. *)
From Coq Require Import ZArith QArith Qround Qabs Bool List Lia Lqa.
From Bardolph Require Import Base.PyNum Num.UnitsQ Num.QBasicsProofs Gen.ColorsysGen.
Open Scope Q_scope.

Definition in01 (x : Q) : Prop := 0 <= x /\ x <= 1.

Lemma rgb_to_hsv_Q_range : forall r g b, in01 r -> in01 g -> in01 b ->
  let '(h, s, v) := rgb_to_hsv_Q r g b in (0 <= h /\ h < 1) /\ in01 s /\ in01 v.
Proof.
  intros r g b [R0 R1] [G0 G1] [B0 B1].
  unfold rgb_to_hsv_Q, py_max_Q, py_min_Q, in01.
  repeat qcase_inner; cbv zeta;
  repeat qcase_inner;
  try (split; [lra | split; lra]);
  (split; [apply py_fmod_Q_range; lra | split; [apply div_range; lra | lra]]).
Qed.

(* the six sectors of hsv_to_rgb *)
Definition sector (n : Z) (v p q t : Q) : Q * Q * Q :=
  match n with
  | 0%Z => (v, t, p) | 1%Z => (q, v, p) | 2%Z => (p, v, t)
  | 3%Z => (p, q, v) | 4%Z => (t, p, v) | _ => (v, p, q)
  end.

Lemma hsv_to_rgb_Q_sector : forall h s v n,
  ~ s == 0 -> (0 <= n <= 5)%Z -> inject_Z n <= h * 6 -> h * 6 < inject_Z n + 1 ->
  hsv_to_rgb_Q h s v =
    let f := h * 6 - inject_Z n in
    sector n v (v * (1 - s)) (v * (1 - s * f)) (v * (1 - s * (1 - f))).
Proof.
  intros h s v n Hs Hn H0 H1. unfold hsv_to_rgb_Q.
  assert (E : Qeqb s (0 # 1) = false) by (apply Qeqb_false; exact Hs). rewrite E.
  assert (T : py_trunc_Q (h * (6 # 1)) = n).
  { unfold py_trunc_Q.
    assert (P : Qleb 0 (h * (6 # 1)) = true).
    { apply Qleb_true. assert (0 <= inject_Z n) by (change 0 with (inject_Z 0); rewrite <- Zle_Qle; lia). lra. }
    rewrite P. apply Qfloor_unique; assumption. }
  rewrite T. cbv zeta. unfold z2q.
  assert (M : (n mod 6 = n)%Z) by (apply Z.mod_small; lia). rewrite M.
  assert (C : (n = 0 \/ n = 1 \/ n = 2 \/ n = 3 \/ n = 4 \/ n = 5)%Z) by lia.
  destruct C as [-> | [-> | [-> | [-> | [-> | ->]]]]]; reflexivity.
Qed.

Definition triple_eq (a b : Q * Q * Q) : Prop :=
  fst (fst a) == fst (fst b) /\ snd (fst a) == snd (fst b) /\ snd a == snd b.

(* hsv_to_rgb with everything scaled by d = max - min, so that all side conditions and results
   are linear in the data *)
Lemma hsv_to_rgb_Q_scaled : forall h s mx d H6d n,
  0 < d -> 0 < mx -> s == d / mx -> h * 6 * d == H6d -> (0 <= n <= 5)%Z ->
  inject_Z n * d <= H6d -> H6d < (inject_Z n + 1) * d ->
  triple_eq (hsv_to_rgb_Q h s mx)
            (sector n mx (mx - d) (mx - (H6d - inject_Z n * d)) (mx - d + (H6d - inject_Z n * d))).
Proof.
  intros h s mx d H6d n Hd Hmx Hs H6 Hn L U.
  assert (Hs0 : ~ s == 0).
  { intro Z. rewrite Z in Hs. assert (0 < d / mx) by (apply Qlt_shift_div_l; lra). lra. }
  assert (L' : inject_Z n <= h * 6).
  { apply (Qmult_le_r _ _ d Hd). lra. }
  assert (U' : h * 6 < inject_Z n + 1).
  { apply (Qmult_lt_r _ _ d Hd). lra. }
  rewrite (hsv_to_rgb_Q_sector h s mx n Hs0 Hn L' U'). cbv zeta.
  set (f := h * 6 - inject_Z n).
  assert (Df : d * f == H6d - inject_Z n * d) by (unfold f; rewrite <- H6; ring).
  assert (P : mx * (1 - s) == mx - d) by (rewrite Hs; field; lra).
  assert (Q1 : mx * (1 - s * f) == mx - (H6d - inject_Z n * d)).
  { rewrite <- Df. rewrite Hs. field. lra. }
  assert (T : mx * (1 - s * (1 - f)) == mx - d + (H6d - inject_Z n * d)).
  { rewrite <- Df. rewrite Hs. field. lra. }
  assert (C : (n = 0 \/ n = 1 \/ n = 2 \/ n = 3 \/ n = 4 \/ n = 5)%Z) by lia.
  destruct C as [-> | [-> | [-> | [-> | [-> | ->]]]]]; unfold triple_eq, sector; simpl;
    repeat split; try reflexivity; assumption.
Qed.

(* once the hue is known as a (scaled) linear quantity, the sector is found by its floor *)
Lemma hsv_to_rgb_Q_finish : forall r g b h s mx d H6d,
  0 < d -> 0 < mx -> s == d / mx -> h * 6 * d == H6d -> 0 <= H6d -> H6d < 6 * d ->
  (forall n, (0 <= n <= 5)%Z -> inject_Z n * d <= H6d -> H6d < (inject_Z n + 1) * d ->
     triple_eq (sector n mx (mx - d) (mx - (H6d - inject_Z n * d)) (mx - d + (H6d - inject_Z n * d))) (r, g, b)) ->
  triple_eq (hsv_to_rgb_Q h s mx) (r, g, b).
Proof.
  intros r g b h s mx d H6d Hd Hmx Hs H6 L U K.
  set (n := Qfloor (H6d / d)).
  destruct (Qfloor_bounds (H6d / d)) as [F1 F2]. fold n in F1, F2.
  assert (E : H6d == (H6d / d) * d) by (field; lra).
  assert (L1 : inject_Z n * d <= H6d).
  { assert (inject_Z n * d <= (H6d / d) * d) by (apply Qmult_le_compat_r; lra). lra. }
  assert (U1 : H6d < (inject_Z n + 1) * d).
  { assert ((H6d / d) * d < (inject_Z n + 1) * d) by (apply Qmult_lt_compat_r; lra). lra. }
  assert (Hn : (0 <= n <= 5)%Z).
  { assert (A1 : inject_Z (-1) < inject_Z n).
    { change (inject_Z (-1)) with (-1 # 1).
      apply (Qmult_lt_r _ _ d Hd). lra. }
    assert (A2 : inject_Z n < inject_Z 6).
    { change (inject_Z 6) with 6. apply (Qmult_lt_r _ _ d Hd). lra. }
    rewrite <- Zlt_Qlt in A1, A2. lia. }
  pose proof (hsv_to_rgb_Q_scaled h s mx d H6d n Hd Hmx Hs H6 Hn L1 U1) as S.
  pose proof (K n Hn L1 U1) as T.
  destruct S as [S1 [S2 S3]]. destruct T as [T1 [T2 T3]].
  unfold triple_eq. repeat split; etransitivity; eassumption.
Qed.

Ltac sector_cases :=
  let n := fresh "n" in let Hn := fresh "Hn" in let L := fresh "L" in let U := fresh "U" in
  intros n Hn L U;
  assert (C : (n = 0 \/ n = 1 \/ n = 2 \/ n = 3 \/ n = 4 \/ n = 5)%Z) by lia;
  destruct C as [-> | [-> | [-> | [-> | [-> | ->]]]]];
  unfold triple_eq, sector; simpl fst; simpl snd; unfold inject_Z in *; repeat split; lra.

(* one leaf: the goal is  triple_eq (hsv_to_rgb_Q (py_fmod_Q (X / 6) 1) ((mx - mn) / mx) mx) (r, g, b) *)
Ltac leaf_with r g b mx mn X Y :=
  let d := constr:(mx - mn) in
  let Hd := fresh "Hd" in let Hmx := fresh "Hmx" in let HX := fresh "HX" in
  let X0 := fresh "X0" in let X1 := fresh "X1" in let Hh := fresh "Hh" in
  let Yneg := fresh "Yneg" in let Ypos := fresh "Ypos" in
  assert (Hd : 0 < d) by lra;
  assert (Hmx : 0 < mx) by lra;
  assert (HX : X * d == Y) by (field; lra);
  destruct (Qlt_le_dec Y 0) as [Yneg | Ypos];
  [ assert (X0 : -(6) <= X) by (apply (Qmult_le_r _ _ d Hd); lra);
    assert (X1 : X < 0) by (apply (Qmult_lt_r _ _ d Hd); lra);
    assert (Hh : py_fmod_Q (X / (6 # 1)) (1 # 1) == X / 6 + 1)
      by (apply fmod1_neg; [apply Qle_shift_div_l; lra | apply Qlt_shift_div_r; lra]);
    apply (hsv_to_rgb_Q_finish r g b _ _ mx d (Y + 6 * d) Hd Hmx);
    [ reflexivity
    | rewrite Hh; rewrite <- HX; field; lra
    | lra | lra | sector_cases ]
  | assert (X0 : 0 <= X) by (apply (Qmult_le_r _ _ d Hd); lra);
    assert (X1 : X < 6) by (apply (Qmult_lt_r _ _ d Hd); lra);
    assert (Hh : py_fmod_Q (X / (6 # 1)) (1 # 1) == X / 6)
      by (apply fmod1_nonneg; [apply Qle_shift_div_l; lra | apply Qlt_shift_div_r; lra]);
    apply (hsv_to_rgb_Q_finish r g b _ _ mx d Y Hd Hmx);
    [ reflexivity
    | rewrite Hh; rewrite <- HX; field; lra
    | lra | lra | sector_cases ] ].

Ltac leaf r g b mx mn :=
  match goal with
  | |- triple_eq (hsv_to_rgb_Q (py_fmod_Q (?X / _) _) _ _) _ =>
      first [ leaf_with r g b mx mn X (g - b)
            | leaf_with r g b mx mn X (2 * (mx - mn) + b - r)
            | leaf_with r g b mx mn X (4 * (mx - mn) + r - g) ]
  end.

Theorem hsv_rgb_roundtrip : forall r g b, in01 r -> in01 g -> in01 b ->
  triple_eq (let '(h, s, v) := rgb_to_hsv_Q r g b in hsv_to_rgb_Q h s v) (r, g, b).
Proof.
  intros r g b [R0 R1] [G0 G1] [B0 B1].
  unfold rgb_to_hsv_Q, py_max_Q, py_min_Q.
  repeat qcase_inner; cbv zeta; repeat qcase_inner.
  all: try (unfold hsv_to_rgb_Q; simpl; unfold triple_eq; simpl; repeat split; lra).
  all: try match goal with
       | |- triple_eq (hsv_to_rgb_Q _ ((?mx - ?mn) / ?mx) ?mx) _ => leaf r g b mx mn
       end.
Qed.

(* ---------------------------------------------------------------- hsv -> rgb -> hsv *)

(* rgb_to_hsv on a colour given in sector form: v the largest component, v - P the smallest,
   F the offset of the third (0 <= F < P).  The hue comes out scaled by P. *)
Ltac hue_leaf mx mn P X Y :=
  let Hd := fresh "Hd" in let HX := fresh "HX" in let X0 := fresh "X0" in let X1 := fresh "X1" in
  let Hh := fresh "Hh" in let Yneg := fresh "Yneg" in let Ypos := fresh "Ypos" in
  let D := fresh "D" in let M := fresh "M" in
  assert (Hd : 0 < mx - mn) by lra;
  assert (D : mx - mn == P) by lra;
  assert (HX : X * (mx - mn) == Y) by (field; lra);
  destruct (Qlt_le_dec Y 0) as [Yneg | Ypos];
  [ assert (X0 : -(6) <= X) by (apply (Qmult_le_r _ _ (mx - mn) Hd); lra);
    assert (X1 : X < 0) by (apply (Qmult_lt_r _ _ (mx - mn) Hd); lra);
    assert (Hh : py_fmod_Q (X / (6 # 1)) (1 # 1) == X / 6 + 1)
      by (apply fmod1_neg; [apply Qle_shift_div_l; lra | apply Qlt_shift_div_r; lra]);
    rewrite Hh;
    assert (M : (X / 6 + 1) * 6 * P == X * (mx - mn) + 6 * P) by (rewrite D; field; lra);
    rewrite M, HX; lra
  | assert (X0 : 0 <= X) by (apply (Qmult_le_r _ _ (mx - mn) Hd); lra);
    assert (X1 : X < 6) by (apply (Qmult_lt_r _ _ (mx - mn) Hd); lra);
    assert (Hh : py_fmod_Q (X / (6 # 1)) (1 # 1) == X / 6)
      by (apply fmod1_nonneg; [apply Qle_shift_div_l; lra | apply Qlt_shift_div_r; lra]);
    rewrite Hh;
    assert (M : (X / 6) * 6 * P == X * (mx - mn)) by (rewrite D; field; lra);
    rewrite M, HX; lra ].

Lemma rgb_to_hsv_Q_of_sector : forall r g b v P F n,
  0 < P -> P <= v -> 0 <= F -> F < P -> (0 <= n <= 5)%Z ->
  triple_eq (r, g, b) (sector n v (v - P) (v - F) (v - P + F)) ->
  let '(h', s', v') := rgb_to_hsv_Q r g b in
  h' * 6 * P == inject_Z n * P + F /\ s' == P / v /\ v' == v.
Proof.
  intros r g b v P F n HP HPv HF0 HF1 Hn T.
  assert (C : (n = 0 \/ n = 1 \/ n = 2 \/ n = 3 \/ n = 4 \/ n = 5)%Z) by lia.
  destruct C as [-> | [-> | [-> | [-> | [-> | ->]]]]];
    destruct T as [T1 [T2 T3]]; unfold sector in *; simpl fst in *; simpl snd in *;
    unfold inject_Z;
    unfold rgb_to_hsv_Q, py_max_Q, py_min_Q;
    repeat qcase_inner; cbv zeta; repeat qcase_inner;
    try lra;
    (split; [| split; [| lra]]);
    try match goal with
    | |- (?mx - ?mn) / ?mx == _ =>
        let A := fresh in let B := fresh in
        assert (A : mx - mn == P) by lra; assert (B : mx == v) by lra; rewrite A, B; reflexivity
    end;
    match goal with
    | |- py_fmod_Q (?X / _) _ * _ * _ == _ =>
        match X with
        | context [(?mx - _) / (?mx - ?mn)] =>
            first [ hue_leaf mx mn P X (g - b)
                  | hue_leaf mx mn P X (2 * (mx - mn) + b - r)
                  | hue_leaf mx mn P X (4 * (mx - mn) + r - g) ]
        end
    end.
Qed.

Lemma hsv_to_rgb_Q_grey : forall h s v, s == 0 -> hsv_to_rgb_Q h s v = (v, v, v).
Proof.
  intros h s v H. unfold hsv_to_rgb_Q.
  assert (E : Qeqb s (0 # 1) = true) by (apply Qeqb_true; exact H). rewrite E. reflexivity.
Qed.

Lemma hsv_to_rgb_Q_top : forall h s v, ~ s == 0 -> h == 1 ->
  triple_eq (hsv_to_rgb_Q h s v) (v, v * (1 - s), v * (1 - s)).
Proof.
  intros h s v Hs Hh. unfold hsv_to_rgb_Q.
  assert (E : Qeqb s (0 # 1) = false) by (apply Qeqb_false; exact Hs). rewrite E.
  assert (T : py_trunc_Q (h * (6 # 1)) = 6%Z).
  { unfold py_trunc_Q.
    assert (P : Qleb 0 (h * (6 # 1)) = true) by (apply Qleb_true; lra). rewrite P.
    apply Qfloor_unique; change (inject_Z 6) with 6; lra. }
  rewrite T. cbv zeta. change (6 mod 6)%Z with 0%Z. simpl.
  unfold triple_eq, z2q; simpl. change (inject_Z 6) with 6.
  repeat split; try reflexivity.
  rewrite Hh. ring.
Qed.

(* hsv_to_rgb in sector form *)
Lemma hsv_to_rgb_Q_repr : forall h s v, 0 <= h -> h <= 1 -> 0 < s -> 0 < v ->
  exists n F, (0 <= n <= 5)%Z /\ 0 <= F /\ F < v * s /\
    triple_eq (hsv_to_rgb_Q h s v) (sector n v (v - v * s) (v - F) (v - v * s + F)) /\
    ((h < 1 /\ h * 6 * (v * s) == inject_Z n * (v * s) + F) \/ (h == 1 /\ n = 0%Z /\ F == 0)).
Proof.
  intros h s v H0 H1 Hs Hv.
  assert (Hs0 : ~ s == 0) by lra.
  assert (HP : 0 < v * s) by (apply Qmult_lt_0_compat; assumption).
  destruct (Qlt_le_dec h 1) as [Hlt | Hge].
  - set (n := Qfloor (h * 6)).
    destruct (Qfloor_bounds (h * 6)) as [F1 F2]. fold n in F1, F2.
    assert (Hn : (0 <= n <= 5)%Z).
    { assert (A1 : inject_Z (-1) < inject_Z n) by (change (inject_Z (-1)) with (-1 # 1); lra).
      assert (A2 : inject_Z n < inject_Z 6) by (change (inject_Z 6) with 6; lra).
      rewrite <- Zlt_Qlt in A1, A2. lia. }
    set (f := h * 6 - inject_Z n).
    assert (f0 : 0 <= f) by (unfold f; lra). assert (f1 : f < 1) by (unfold f; lra).
    exists n, (v * s * f). split; [exact Hn |]. split; [| split; [| split]].
    + apply Qmult_le_0_compat; lra.
    + assert (v * s * f < v * s * 1) by (apply (Qmult_lt_l _ _ (v * s) HP); exact f1). lra.
    + rewrite (hsv_to_rgb_Q_sector h s v n Hs0 Hn F1 F2). cbv zeta. fold f.
      assert (C : (n = 0 \/ n = 1 \/ n = 2 \/ n = 3 \/ n = 4 \/ n = 5)%Z) by lia.
      destruct C as [-> | [-> | [-> | [-> | [-> | ->]]]]]; unfold triple_eq, sector; simpl;
        repeat split; ring.
    + left. split; [exact Hlt |]. unfold f. ring.
  - assert (Hh : h == 1) by lra.
    exists 0%Z, 0. split; [lia |]. split; [lra |]. split; [lra |]. split.
    + destruct (hsv_to_rgb_Q_top h s v Hs0 Hh) as [A [B C]].
      unfold triple_eq, sector in *; simpl in *. repeat split; [exact A | rewrite B; ring | rewrite C; ring].
    + right. split; [exact Hh | split; reflexivity].
Qed.

(* the components hsv_to_rgb produces are in [0, 1] *)
Lemma hsv_to_rgb_Q_range : forall h s v, in01 h -> in01 s -> in01 v ->
  let '(r, g, b) := hsv_to_rgb_Q h s v in in01 r /\ in01 g /\ in01 b.
Proof.
  intros h s v [H0 H1] [S0 S1] [V0 V1].
  destruct (Qeq_dec s 0) as [Es | Es].
  - rewrite (hsv_to_rgb_Q_grey h s v Es). unfold in01. repeat split; lra.
  - destruct (Qeq_dec v 0) as [Ev | Ev].
    + (* black *)
      unfold hsv_to_rgb_Q. assert (E : Qeqb s (0 # 1) = false) by (apply Qeqb_false; exact Es). rewrite E.
      cbv zeta.
      set (i := (py_trunc_Q (h * (6 # 1)) mod 6)%Z).
      assert (Hi : (0 <= i < 6)%Z) by (apply Z.mod_pos_bound; lia).
      assert (C : (i = 0 \/ i = 1 \/ i = 2 \/ i = 3 \/ i = 4 \/ i = 5)%Z) by lia.
      destruct C as [-> | [-> | [-> | [-> | [-> | ->]]]]]; simpl; unfold in01;
        repeat split; rewrite ?Ev; lra.
    + assert (Hs : 0 < s) by (destruct (Qlt_le_dec 0 s); [assumption | exfalso; apply Es; lra]).
      assert (Hv : 0 < v) by (destruct (Qlt_le_dec 0 v); [assumption | exfalso; apply Ev; lra]).
      destruct (hsv_to_rgb_Q_repr h s v H0 H1 Hs Hv) as [n [F [Hn [F0 [F1 [T _]]]]]].
      assert (Pv : v * s <= v).
      { assert (v * s <= v * 1) by (apply (Qmult_le_l _ _ v Hv); exact S1). lra. }
      destruct (hsv_to_rgb_Q h s v) as [[r g] b].
      assert (C : (n = 0 \/ n = 1 \/ n = 2 \/ n = 3 \/ n = 4 \/ n = 5)%Z) by lia.
      destruct C as [-> | [-> | [-> | [-> | [-> | ->]]]]]; destruct T as [T1 [T2 T3]];
        unfold sector in *; simpl in *; unfold in01; repeat split; lra.
Qed.

Lemma triple_eq_trans : forall a b c, triple_eq a b -> triple_eq b c -> triple_eq a c.
Proof.
  intros a b c [A1 [A2 A3]] [B1 [B2 B3]]. unfold triple_eq.
  repeat split; etransitivity; eassumption.
Qed.

Lemma hsv_to_rgb_Q_black : forall h s v, v == 0 -> triple_eq (hsv_to_rgb_Q h s v) (0, 0, 0).
Proof.
  intros h s v Ev. unfold hsv_to_rgb_Q.
  destruct (Qeqb s (0 # 1)).
  - unfold triple_eq; simpl. repeat split; exact Ev.
  - cbv zeta.
    set (i := (py_trunc_Q (h * (6 # 1)) mod 6)%Z).
    assert (Hi : (0 <= i < 6)%Z) by (apply Z.mod_pos_bound; lia).
    assert (C : (i = 0 \/ i = 1 \/ i = 2 \/ i = 3 \/ i = 4 \/ i = 5)%Z) by lia.
    destruct C as [-> | [-> | [-> | [-> | [-> | ->]]]]]; unfold triple_eq; simpl;
      repeat split; rewrite ?Ev; ring.
Qed.

(* rgb_to_hsv of a grey (all components equal) *)
Lemma rgb_to_hsv_Q_grey : forall r g b x, r == x -> g == x -> b == x ->
  let '(h', s', v') := rgb_to_hsv_Q r g b in h' == 0 /\ s' == 0 /\ v' == x.
Proof.
  intros r g b x Hr Hg Hb.
  unfold rgb_to_hsv_Q, py_max_Q, py_min_Q.
  repeat qcase_inner; cbv zeta; repeat qcase_inner; try lra;
    repeat split; try reflexivity; lra.
Qed.

(* hsv -> rgb -> hsv: brightness always comes back; saturation unless the colour is black; hue
   unless it is black or grey (h = 1 comes back as 0, the same angle) *)
Theorem rgb_hsv_roundtrip : forall h s v r g b, in01 h -> in01 s -> in01 v ->
  triple_eq (r, g, b) (hsv_to_rgb_Q h s v) ->
  let '(h', s', v') := rgb_to_hsv_Q r g b in
  v' == v /\
  ((s == 0 \/ v == 0) -> h' == 0 /\ s' == 0) /\
  (0 < s -> 0 < v -> s' == s /\ (h' == h \/ (h == 1 /\ h' == 0))).
Proof.
  intros h s v r g b [H0 H1] [S0 S1] [V0 V1] T.
  destruct (Qeq_dec s 0) as [Es | Es].
  - rewrite (hsv_to_rgb_Q_grey h s v Es) in T. destruct T as [T1 [T2 T3]]. simpl in *.
    pose proof (rgb_to_hsv_Q_grey r g b v T1 T2 T3) as G.
    destruct (rgb_to_hsv_Q r g b) as [[h' s'] v']. destruct G as [G1 [G2 G3]].
    split; [exact G3 |]. split; [intros _; split; assumption | intros; lra].
  - destruct (Qeq_dec v 0) as [Ev | Ev].
    + pose proof (triple_eq_trans _ _ _ T (hsv_to_rgb_Q_black h s v Ev)) as [T1 [T2 T3]]. simpl in *.
      pose proof (rgb_to_hsv_Q_grey r g b 0 T1 T2 T3) as G.
      destruct (rgb_to_hsv_Q r g b) as [[h' s'] v']. destruct G as [G1 [G2 G3]].
      split; [lra |]. split; [intros _; split; assumption | intros; lra].
    + assert (Hs : 0 < s) by (destruct (Qlt_le_dec 0 s); [assumption | exfalso; apply Es; lra]).
      assert (Hv : 0 < v) by (destruct (Qlt_le_dec 0 v); [assumption | exfalso; apply Ev; lra]).
      destruct (hsv_to_rgb_Q_repr h s v H0 H1 Hs Hv) as [n [F [Hn [F0 [F1 [R K]]]]]].
      assert (HP : 0 < v * s) by (apply Qmult_lt_0_compat; assumption).
      assert (Pv : v * s <= v).
      { assert (v * s <= v * 1) by (apply (Qmult_le_l _ _ v Hv); exact S1). lra. }
      pose proof (rgb_to_hsv_Q_of_sector r g b v (v * s) F n HP Pv F0 F1 Hn (triple_eq_trans _ _ _ T R)) as G.
      destruct (rgb_to_hsv_Q r g b) as [[h' s'] v']. destruct G as [G1 [G2 G3]].
      split; [exact G3 |]. split; [intros [A | A]; exfalso; [apply Es | apply Ev]; exact A |].
      intros _ _. split.
      * rewrite G2. field. lra.
      * destruct K as [[K1 K2] | [K1 [K2 K3]]].
        -- left.
           assert (A : h' == (inject_Z n * (v * s) + F) / (6 * (v * s))) by (rewrite <- G1; field; lra).
           assert (B : h == (inject_Z n * (v * s) + F) / (6 * (v * s))) by (rewrite <- K2; field; lra).
           rewrite A, B. reflexivity.
        -- right. split; [exact K1 |]. subst n.
           assert (A : h' == (inject_Z 0 * (v * s) + F) / (6 * (v * s))) by (rewrite <- G1; field; lra).
           rewrite A, K3. change (inject_Z 0) with 0. field. lra.
Qed.
