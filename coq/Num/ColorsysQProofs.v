(* colorsys over exact rationals (Gen/ColorsysGen.v, the ..._Q rendering of the running
   interpreter's colorsys.rgb_to_hsv / hsv_to_rgb): ranges and the two round trips.
   All statements are over Q. *)
From Coq Require Import ZArith QArith Qround Qabs Bool List Lia Lqa.
From Bardolph Require Import Base.PyNum Num.UnitsQ Num.QBasicsProofs Gen.ColorsysGen.
Open Scope Q_scope.

Definition in01 (x : Q) : Prop := 0 <= x /\ x <= 1.

Lemma rgb_to_hsv_Q_range : forall r g b, in01 r -> in01 g -> in01 b ->
  let '(h, s, v) := rgb_to_hsv_Q r g b in (0 <= h /\ h < 1) /\ in01 s /\ in01 v.
Proof.
  intros r g b [R0 R1] [G0 G1] [B0 B1].
  unfold rgb_to_hsv_Q, py_max_Q, py_min_Q, in01.
  repeat qcase_inner; cbv zeta;
  repeat qcase_inner;
  try (split; [lra | split; lra]);
  (split; [apply py_fmod_Q_range; lra | split; [apply div_range; lra | lra]]).
Qed.

(* the six sectors of hsv_to_rgb *)
Definition sector (n : Z) (v p q t : Q) : Q * Q * Q :=
  match n with
  | 0%Z => (v, t, p) | 1%Z => (q, v, p) | 2%Z => (p, v, t)
  | 3%Z => (p, q, v) | 4%Z => (t, p, v) | _ => (v, p, q)
  end.

Lemma hsv_to_rgb_Q_sector : forall h s v n,
  ~ s == 0 -> (0 <= n <= 5)%Z -> inject_Z n <= h * 6 -> h * 6 < inject_Z n + 1 ->
  hsv_to_rgb_Q h s v =
    let f := h * 6 - inject_Z n in
    sector n v (v * (1 - s)) (v * (1 - s * f)) (v * (1 - s * (1 - f))).
Proof.
  intros h s v n Hs Hn H0 H1. unfold hsv_to_rgb_Q.
  assert (E : Qeqb s (0 # 1) = false) by (apply Qeqb_false; exact Hs). rewrite E.
  assert (T : py_trunc_Q (h * (6 # 1)) = n).
  { unfold py_trunc_Q.
    assert (P : Qleb 0 (h * (6 # 1)) = true).
    { apply Qleb_true. assert (0 <= inject_Z n) by (change 0 with (inject_Z 0); rewrite <- Zle_Qle; lia). lra. }
    rewrite P. apply Qfloor_unique; assumption. }
  rewrite T. cbv zeta. unfold z2q.
  assert (M : (n mod 6 = n)%Z) by (apply Z.mod_small; lia). rewrite M.
  assert (C : (n = 0 \/ n = 1 \/ n = 2 \/ n = 3 \/ n = 4 \/ n = 5)%Z) by lia.
  destruct C as [-> | [-> | [-> | [-> | [-> | ->]]]]]; reflexivity.
Qed.

Definition triple_eq (a b : Q * Q * Q) : Prop :=
  fst (fst a) == fst (fst b) /\ snd (fst a) == snd (fst b) /\ snd a == snd b.

(* hsv_to_rgb with everything scaled by d = max - min, so that all side conditions and results
   are linear in the data *)
Lemma hsv_to_rgb_Q_scaled : forall h s mx d H6d n,
  0 < d -> 0 < mx -> s == d / mx -> h * 6 * d == H6d -> (0 <= n <= 5)%Z ->
  inject_Z n * d <= H6d -> H6d < (inject_Z n + 1) * d ->
  triple_eq (hsv_to_rgb_Q h s mx)
            (sector n mx (mx - d) (mx - (H6d - inject_Z n * d)) (mx - d + (H6d - inject_Z n * d))).
Proof.
  intros h s mx d H6d n Hd Hmx Hs H6 Hn L U.
  assert (Hs0 : ~ s == 0).
  { intro Z. rewrite Z in Hs. assert (0 < d / mx) by (apply Qlt_shift_div_l; lra). lra. }
  assert (L' : inject_Z n <= h * 6).
  { apply (Qmult_le_r _ _ d Hd). lra. }
  assert (U' : h * 6 < inject_Z n + 1).
  { apply (Qmult_lt_r _ _ d Hd). lra. }
  rewrite (hsv_to_rgb_Q_sector h s mx n Hs0 Hn L' U'). cbv zeta.
  set (f := h * 6 - inject_Z n).
  assert (Df : d * f == H6d - inject_Z n * d) by (unfold f; rewrite <- H6; ring).
  assert (P : mx * (1 - s) == mx - d) by (rewrite Hs; field; lra).
  assert (Q1 : mx * (1 - s * f) == mx - (H6d - inject_Z n * d)).
  { rewrite <- Df. rewrite Hs. field. lra. }
  assert (T : mx * (1 - s * (1 - f)) == mx - d + (H6d - inject_Z n * d)).
  { rewrite <- Df. rewrite Hs. field. lra. }
  assert (C : (n = 0 \/ n = 1 \/ n = 2 \/ n = 3 \/ n = 4 \/ n = 5)%Z) by lia.
  destruct C as [-> | [-> | [-> | [-> | [-> | ->]]]]]; unfold triple_eq, sector; simpl;
    repeat split; try reflexivity; assumption.
Qed.

(* once the hue is known as a (scaled) linear quantity, the sector is found by its floor *)
Lemma hsv_to_rgb_Q_finish : forall r g b h s mx d H6d,
  0 < d -> 0 < mx -> s == d / mx -> h * 6 * d == H6d -> 0 <= H6d -> H6d < 6 * d ->
  (forall n, (0 <= n <= 5)%Z -> inject_Z n * d <= H6d -> H6d < (inject_Z n + 1) * d ->
     triple_eq (sector n mx (mx - d) (mx - (H6d - inject_Z n * d)) (mx - d + (H6d - inject_Z n * d))) (r, g, b)) ->
  triple_eq (hsv_to_rgb_Q h s mx) (r, g, b).
Proof.
  intros r g b h s mx d H6d Hd Hmx Hs H6 L U K.
  set (n := Qfloor (H6d / d)).
  destruct (Qfloor_bounds (H6d / d)) as [F1 F2]. fold n in F1, F2.
  assert (E : H6d == (H6d / d) * d) by (field; lra).
  assert (L1 : inject_Z n * d <= H6d).
  { assert (inject_Z n * d <= (H6d / d) * d) by (apply Qmult_le_compat_r; lra). lra. }
  assert (U1 : H6d < (inject_Z n + 1) * d).
  { assert ((H6d / d) * d < (inject_Z n + 1) * d) by (apply Qmult_lt_compat_r; lra). lra. }
  assert (Hn : (0 <= n <= 5)%Z).
  { assert (A1 : inject_Z (-1) < inject_Z n).
    { change (inject_Z (-1)) with (-1 # 1).
      apply (Qmult_lt_r _ _ d Hd). lra. }
    assert (A2 : inject_Z n < inject_Z 6).
    { change (inject_Z 6) with 6. apply (Qmult_lt_r _ _ d Hd). lra. }
    rewrite <- Zlt_Qlt in A1, A2. lia. }
  pose proof (hsv_to_rgb_Q_scaled h s mx d H6d n Hd Hmx Hs H6 Hn L1 U1) as S.
  pose proof (K n Hn L1 U1) as T.
  destruct S as [S1 [S2 S3]]. destruct T as [T1 [T2 T3]].
  unfold triple_eq. repeat split; etransitivity; eassumption.
Qed.

Ltac sector_cases :=
  let n := fresh "n" in let Hn := fresh "Hn" in let L := fresh "L" in let U := fresh "U" in
  intros n Hn L U;
  assert (C : (n = 0 \/ n = 1 \/ n = 2 \/ n = 3 \/ n = 4 \/ n = 5)%Z) by lia;
  destruct C as [-> | [-> | [-> | [-> | [-> | ->]]]]];
  unfold triple_eq, sector; simpl fst; simpl snd; unfold inject_Z in *; repeat split; lra.

(* one leaf: the goal is  triple_eq (hsv_to_rgb_Q (py_fmod_Q (X / 6) 1) ((mx - mn) / mx) mx) (r, g, b) *)
Ltac leaf_with r g b mx mn X Y :=
  let d := constr:(mx - mn) in
  let Hd := fresh "Hd" in let Hmx := fresh "Hmx" in let HX := fresh "HX" in
  let X0 := fresh "X0" in let X1 := fresh "X1" in let Hh := fresh "Hh" in
  let Yneg := fresh "Yneg" in let Ypos := fresh "Ypos" in
  assert (Hd : 0 < d) by lra;
  assert (Hmx : 0 < mx) by lra;
  assert (HX : X * d == Y) by (field; lra);
  destruct (Qlt_le_dec Y 0) as [Yneg | Ypos];
  [ assert (X0 : -(6) <= X) by (apply (Qmult_le_r _ _ d Hd); lra);
    assert (X1 : X < 0) by (apply (Qmult_lt_r _ _ d Hd); lra);
    assert (Hh : py_fmod_Q (X / (6 # 1)) (1 # 1) == X / 6 + 1)
      by (apply fmod1_neg; [apply Qle_shift_div_l; lra | apply Qlt_shift_div_r; lra]);
    apply (hsv_to_rgb_Q_finish r g b _ _ mx d (Y + 6 * d) Hd Hmx);
    [ reflexivity
    | rewrite Hh; rewrite <- HX; field; lra
    | lra | lra | sector_cases ]
  | assert (X0 : 0 <= X) by (apply (Qmult_le_r _ _ d Hd); lra);
    assert (X1 : X < 6) by (apply (Qmult_lt_r _ _ d Hd); lra);
    assert (Hh : py_fmod_Q (X / (6 # 1)) (1 # 1) == X / 6)
      by (apply fmod1_nonneg; [apply Qle_shift_div_l; lra | apply Qlt_shift_div_r; lra]);
    apply (hsv_to_rgb_Q_finish r g b _ _ mx d Y Hd Hmx);
    [ reflexivity
    | rewrite Hh; rewrite <- HX; field; lra
    | lra | lra | sector_cases ] ].

Ltac leaf r g b mx mn :=
  match goal with
  | |- triple_eq (hsv_to_rgb_Q (py_fmod_Q (?X / _) _) _ _) _ =>
      first [ leaf_with r g b mx mn X (g - b)
            | leaf_with r g b mx mn X (2 * (mx - mn) + b - r)
            | leaf_with r g b mx mn X (4 * (mx - mn) + r - g) ]
  end.

Theorem hsv_rgb_roundtrip : forall r g b, in01 r -> in01 g -> in01 b ->
  triple_eq (let '(h, s, v) := rgb_to_hsv_Q r g b in hsv_to_rgb_Q h s v) (r, g, b).
Proof.
  intros r g b [R0 R1] [G0 G1] [B0 B1].
  unfold rgb_to_hsv_Q, py_max_Q, py_min_Q.
  repeat qcase_inner; cbv zeta; repeat qcase_inner.
  all: try (unfold hsv_to_rgb_Q; simpl; unfold triple_eq; simpl; repeat split; lra).
  all: try match goal with
       | |- triple_eq (hsv_to_rgb_Q _ ((?mx - ?mn) / ?mx) ?mx) _ => leaf r g b mx mn
       end.
Qed.
