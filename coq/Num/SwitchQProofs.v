(* C14 over exact rationals (Q): for registers within the documented ranges a `units X`
   statement does not change the colour and duration a following `set` transmits, nor the
   pending delay; chains of transitions by induction.  All statements here are over Q. *)
From Coq Require Import ZArith QArith Qround Qabs Bool List Lia Lqa.
From Bardolph Require Import Base.PyNum Num.UnitsQ Gen.ParamGen Gen.ColorsysGen Gen.UnitsGen Gen.MachineUnitsGen
     Num.UnitsFloat Num.Switch Num.UnitsQProofs Num.SwitchProofs Num.ColorsysQProofs Num.GuardedRgb Num.RgbQProofs.
Import ListNotations.
Open Scope Q_scope.

(* ---------------------------------------------------------------- small facts *)

Lemma py_max_Q_nonneg : forall k, 0 <= k -> py_max_Q k (Qmake 0 1) = k.
Proof.
  intros k H. unfold py_max_Q.
  assert (E : Qltb k (Qmake 0 1) = false) by (apply Qltb_false; exact H). rewrite E. reflexivity.
Qed.

Lemma py_max_Q_ge : forall a, 0 <= py_max_Q a (Qmake 0 1) /\ (0 <= a -> py_max_Q a (Qmake 0 1) = a).
Proof.
  intro a. unfold py_max_Q. destruct (Qltb a (Qmake 0 1)) eqn:E.
  - apply Qltb_true in E. split; [lra | intro; lra].
  - apply Qltb_false in E. split; [exact E | reflexivity].
Qed.

Lemma param_32_Q_comp : forall a b, a == b -> param_32_Q a = param_32_Q b.
Proof.
  intros a b H. unfold param_32_Q, py_max_Q, py_min_Q.
  rewrite (Qltb_comp (z2q 4294967295) (z2q 4294967295) a b) by (rewrite ?H; reflexivity).
  destruct (Qltb (z2q 4294967295) b); [reflexivity |].
  rewrite (Qltb_comp (z2q 0) (z2q 0) a b) by (rewrite ?H; reflexivity).
  destruct (Qltb (z2q 0) b); [apply py_round_Q_comp; exact H | reflexivity].
Qed.

(* values that round to the ends of the range *)
Lemma param_16_Q_small : forall q, 0 <= q -> q < 1 # 2 -> param_16_Q q = 0%Z.
Proof.
  intros q H0 H1. pose proof (param_16_Q_spec q) as S.
  destruct S as [[A _] | [[A _] | [_ [_ A]]]].
  - change (inject_Z 0) with 0 in A. lra.
  - change (inject_Z 65535) with 65535 in A. lra.
  - apply Qabs_Qle_condition in A. destruct A as [A B].
    set (n := param_16_Q q) in *.
    assert (P : inject_Z n < inject_Z 1) by (change (inject_Z 1) with 1; lra).
    assert (R : inject_Z (-1) < inject_Z n) by (change (inject_Z (-1)) with (-1 # 1); lra).
    rewrite <- Zlt_Qlt in P, R. lia.
Qed.

Lemma param_16_Q_top : forall q, 65535 - (1 # 2) < q -> param_16_Q q = 65535%Z.
Proof.
  intros q H. pose proof (param_16_Q_spec q) as S. pose proof (param_16_Q_range q) as Rg.
  destruct S as [[A _] | [[_ A] | [_ [_ A]]]].
  - change (inject_Z 0) with 0 in A. lra.
  - exact A.
  - apply Qabs_Qle_condition in A. destruct A as [A B].
    set (n := param_16_Q q) in *.
    assert (P : inject_Z 65534 < inject_Z n) by (change (inject_Z 65534) with 65534; lra).
    rewrite <- Zlt_Qlt in P. lia.
Qed.

Lemma param_32_Q_small : forall q, 0 <= q -> q < 1 # 2 -> param_32_Q q = 0%Z.
Proof.
  intros q H0 H1. pose proof (param_32_Q_spec q) as S.
  destruct S as [[A _] | [[A _] | [_ [_ A]]]].
  - change (inject_Z 0) with 0 in A. lra.
  - change (inject_Z 4294967295) with 4294967295 in A. lra.
  - apply Qabs_Qle_condition in A. destruct A as [A B].
    set (n := param_32_Q q) in *.
    assert (P : inject_Z n < inject_Z 1) by (change (inject_Z 1) with 1; lra).
    assert (R : inject_Z (-1) < inject_Z n) by (change (inject_Z (-1)) with (-1 # 1); lra).
    rewrite <- Zlt_Qlt in P, R. lia.
Qed.

(* ---------------------------------------------------------------- one component back *)

(* the hue formula of logical_to_raw applied to the degrees of a raw hue x *)
Definition hue_formula (H : Q) : Q :=
  if (Qltb (Qopp EPSILON_Q) H && Qltb H EPSILON_Q)
     || (Qltb (Qminus (z2q 360) EPSILON_Q) H && Qltb H (Qplus (z2q 360) EPSILON_Q))
  then Qmake 0 1
  else Qmult (Qdiv (py_fmod_Q H (Qmake 360 1)) (Qmake 360 1)) (Qmake 65535 1).

Lemma logical_to_raw_Q_hue : forall c, c0 (logical_to_raw_Q c) = hue_formula (c0 c).
Proof. reflexivity. Qed.

(* degrees H of a raw hue x in 0..65535 convert back to x (65535 = 0) *)
Lemma hue_back : forall H x, 0 <= x -> x <= 65535 -> H == x / 65535 * 360 ->
  hue_equiv (param_16_Q (hue_formula H)) (param_16_Q x).
Proof.
  intros H x X0 X1 HH. unfold hue_formula, z2q.
  pose proof EPSILON_Q_val as He. qconst.
  assert (H0 : 0 <= H) by lra. assert (H1 : H <= 360) by lra.
  match goal with |- context [if ?b then _ else _] => destruct b eqn:E end.
  - change (param_16_Q (0 # 1)) with (param_16_Q (inject_Z 0)). rewrite param_16_Q_int by lia.
    apply orb_prop in E. destruct E as [E | E]; apply andb_prop in E; destruct E as [E1 E2];
      apply Qltb_true in E1, E2.
    + left. symmetry. apply param_16_Q_small; lra.
    + right; left. split; [reflexivity |]. apply param_16_Q_top. lra.
  - left. apply param_16_Q_comp.
    apply orb_false_elim in E. destruct E as [Ea Eb].
    assert (Hlt : H < 360).
    { apply andb_false_elim in Eb. destruct Eb as [Eb | Eb]; apply Qltb_false in Eb; lra. }
    rewrite (py_fmod_Q_small H (360 # 1)) by lra. lra.
Qed.

(* percent P of a raw value x in 0..65535 converts back to x *)
Lemma pct_back : forall P x, 0 <= x -> x <= 65535 -> P == x / 65535 * 100 ->
  param_16_Q (pct_to_raw_Q P) = param_16_Q x.
Proof.
  intros P x X0 X1 HP. unfold pct_to_raw_Q.
  pose proof EPSILON_Q_val as He. qconst.
  match goal with |- context [if ?b then _ else _] => destruct b eqn:E end.
  - apply andb_prop in E. destruct E as [E1 E2]. apply Qltb_true in E1, E2.
    change (param_16_Q (0 # 1)) with (param_16_Q (inject_Z 0)). rewrite param_16_Q_int by lia.
    symmetry. apply param_16_Q_small; lra.
  - apply param_16_Q_comp. lra.
Qed.

(* ---------------------------------------------------------------- registers in range *)

Definition valid_regs (r : regs Q) : Prop :=
  0 <= r_kelvin r /\ 0 <= r_duration r /\ 0 <= r_time r /\
  match r_mode r with
  | LOGICAL => 0 <= r_hue r /\ r_hue r <= 360 /\ 0 <= r_saturation r /\ r_saturation r <= 100 /\
               0 <= r_brightness r /\ r_brightness r <= 100
  | RAW => 0 <= r_hue r /\ r_hue r <= 65535 /\ 0 <= r_saturation r /\ r_saturation r <= 65535 /\
           0 <= r_brightness r /\ r_brightness r <= 65535
  | RGB => 0 <= r_red r /\ r_red r <= 100 /\ 0 <= r_green r /\ r_green r <= 100 /\
           0 <= r_blue r /\ r_blue r <= 100
  end.

(* the observables *)
Definition sent_color (s : sent) : color4 Z :=
  match s_color s with Some c => c | None => mkcolor 0%Z 0%Z 0%Z 0%Z end.
Definition delay_ms (r : regs Q) : Q :=
  match pending_wait_Q r with None => 0 | Some s => s * 1000 end.

Lemma color_eta_Q : forall (c : color4 Q), mkcolor (c0 c) (c1 c) (c2 c) (c3 c) = c.
Proof. intros [a b c d]. reflexivity. Qed.

Ltac unfold_regs :=
  cbv beta iota delta [g_get_color g_store_color set_mode map_times r_mode r_hue r_saturation r_brightness
                       r_kelvin r_red r_green r_blue r_duration r_time get_color_Q].

Lemma set_transmits_Q_eq : forall r,
  set_transmits_Q r = mksent (Some (param_color_Q (as_raw_color_Q (r_mode r) (get_color_Q r)))) None
                             (param_32_Q (as_raw_time_Q (r_mode r) (r_duration r))).
Proof. intro r. reflexivity. Qed.

(* ---------------------------------------------------------------- switching TO raw units *)

Theorem switch_to_raw_preserves_Q : forall r : regs Q,
  set_transmits_Q (switch_Q r RAW) = set_transmits_Q r.
Proof.
  intros [h s b k rd gr bl d t m]. rewrite !set_transmits_Q_eq.
  unfold switch_Q, g_switch; simpl.
  destruct m; simpl; try reflexivity; unfold_regs;
    unfold as_raw_color_Q, g_as_raw_color, as_raw_time_Q, g_as_raw_time; rewrite color_eta_Q; reflexivity.
Qed.

Theorem switch_to_raw_delay_Q : forall r : regs Q, r_mode r <> RAW ->
  delay_ms (switch_Q r RAW) == delay_ms r.
Proof.
  intros [h s b k rd gr bl d t m] Hm. unfold delay_ms, pending_wait_Q, wait_seconds_Q, switch_Q, g_switch; simpl.
  destruct m; simpl; try (contradiction Hm; reflexivity); unfold_regs;
    unfold time_raw_Q, z2q; change (inject_Z 0) with 0; change (inject_Z 1000) with (1000 # 1).
  - destruct (Qltb 0 t) eqn:E1; destruct (Qltb 0 (t * (1000 # 1))) eqn:E2;
      try apply Qltb_true in E1; try apply Qltb_false in E1;
      try apply Qltb_true in E2; try apply Qltb_false in E2; try lra.
    field.
  - destruct (Qltb 0 t) eqn:E1; destruct (Qltb 0 (t * (1000 # 1))) eqn:E2;
      try apply Qltb_true in E1; try apply Qltb_false in E1;
      try apply Qltb_true in E2; try apply Qltb_false in E2; try lra.
    field.
Qed.

(* ---------------------------------------------------------------- raw -> logical *)

Theorem switch_raw_to_logical_Q : forall r : regs Q, r_mode r = RAW -> valid_regs r ->
  same_hsbk (sent_color (set_transmits_Q (switch_Q r LOGICAL))) (sent_color (set_transmits_Q r)) /\
  s_duration (set_transmits_Q (switch_Q r LOGICAL)) = s_duration (set_transmits_Q r) /\
  delay_close (delay_ms (switch_Q r LOGICAL)) (delay_ms r).
Proof.
  intros [h s b k rd gr bl d t m] Hm V. simpl in Hm. subst m.
  destruct V as [Vk [Vd [Vt [Vh0 [Vh1 [Vs0 [Vs1 [Vb0 Vb1]]]]]]]]. simpl in *.
  rewrite !set_transmits_Q_eq.
  unfold switch_Q, g_switch; simpl. unfold_regs.
  unfold sent_color; simpl.
  unfold as_raw_color_Q, g_as_raw_color, as_raw_time_Q, g_as_raw_time.
  pose proof EPSILON_Q_val as He.
  split; [| split].
  - (* colour *)
    unfold same_hsbk, param_color_Q, cmap; simpl.
    unfold raw_to_logical_Q; simpl.
    split; [| split; [| split]].
    + (* hue *)
      apply hue_back; try assumption.
      destruct (py_max_Q_ge (h / (65535 # 1) * (360 # 1))) as [_ G]. rewrite G; [reflexivity |].
      qconst. lra.
    + (* saturation *)
      apply pct_back; try assumption.
      destruct (Qleb (65535 # 1) s) eqn:E.
      * apply Qleb_true in E. rewrite py_max_Q_nonneg by lra. qconst. lra.
      * apply Qleb_false in E.
        destruct (py_max_Q_ge (s / (65535 # 1) * (100 # 1))) as [_ G]. rewrite G; [reflexivity |]. qconst. lra.
    + apply pct_back; try assumption.
      destruct (Qleb (65535 # 1) b) eqn:E.
      * apply Qleb_true in E. rewrite py_max_Q_nonneg by lra. qconst. lra.
      * apply Qleb_false in E.
        destruct (py_max_Q_ge (b / (65535 # 1) * (100 # 1))) as [_ G]. rewrite G; [reflexivity |]. qconst. lra.
    + rewrite py_max_Q_nonneg by assumption. reflexivity.
  - (* duration *)
    unfold time_logical_Q, time_raw_Q.
    match goal with |- context [if ?c then _ else _] => destruct c eqn:E end.
    + apply andb_prop in E. destruct E as [E1 E2]. apply Qltb_true in E1, E2.
      rewrite (param_32_Q_comp ((0 # 1) * (1000 # 1)) (inject_Z 0)) by (change (inject_Z 0) with 0; lra).
      rewrite param_32_Q_int by lia. symmetry. apply param_32_Q_small; lra.
    + apply param_32_Q_comp. field.
  - (* delay *)
    unfold delay_close, delay_ms, pending_wait_Q, wait_seconds_Q; simpl.
    unfold time_logical_Q, z2q. change (inject_Z 0) with 0. change (inject_Z 1000) with (1000 # 1).
    match goal with |- context [if (Qltb (Qopp EPSILON_Q) t && _)%bool then _ else _] =>
      destruct (Qltb (Qopp EPSILON_Q) t && Qltb t EPSILON_Q)%bool eqn:E end.
    + apply andb_prop in E. destruct E as [E1 E2]. apply Qltb_true in E1, E2.
      assert (Z0 : Qltb 0 (0 # 1) = false) by reflexivity. rewrite Z0.
      destruct (Qltb 0 t) eqn:E3.
      * right. split; [reflexivity |]. apply Qltb_true in E3. split; [| rewrite <- He]; field_simplify; lra.
      * left. reflexivity.
    + destruct (Qltb 0 t) eqn:E3.
      * apply Qltb_true in E3.
        assert (P : Qltb 0 (t / (1000 # 1)) = true).
        { apply Qltb_true. apply Qlt_shift_div_l; lra. }
        rewrite P. left. reflexivity.
      * apply Qltb_false in E3.
        assert (P : Qltb 0 (t / (1000 # 1)) = false).
        { apply Qltb_false. apply Qle_shift_div_r; lra. }
        rewrite P. left. reflexivity.
Qed.

(* ---------------------------------------------------------------- relations between runs *)

Definition sent_rel (a b : sent) : Prop :=
  same_colour (sent_color a) (sent_color b) /\ s_duration a = s_duration b.

Lemma hue_equiv_sym : forall a b, hue_equiv a b -> hue_equiv b a.
Proof. intros a b [H | [[H1 H2] | [H1 H2]]]; [left; auto | right; right; auto | right; left; auto]. Qed.

Lemma hue_equiv_trans : forall a b c, hue_equiv a b -> hue_equiv b c -> hue_equiv a c.
Proof.
  intros a b c [H | [[H1 H2] | [H1 H2]]] [G | [[G1 G2] | [G1 G2]]]; subst; unfold hue_equiv; try lia;
    try (left; reflexivity); try (right; left; split; reflexivity); try (right; right; split; reflexivity).
Qed.

Lemma same_hsbk_colour : forall a b, same_hsbk a b -> same_colour a b.
Proof. intros a b [H0 [H1 [H2 H3]]]. split; [exact H3 | right; right; auto]. Qed.

Lemma same_colour_refl : forall a, same_colour a a.
Proof. intro a. split; [reflexivity | right; right; repeat split; left; reflexivity]. Qed.

Lemma same_colour_trans : forall a b c, same_colour a b -> same_colour b c -> same_colour a c.
Proof.
  intros a b c [K1 H1] [K2 H2]. split; [congruence |].
  destruct H1 as [[A1 A2] | [[A1 [A2 A3]] | [A1 [A2 A3]]]];
  destruct H2 as [[B1 B2] | [[B1 [B2 B3]] | [B1 [B2 B3]]]].
  - left; split; assumption.
  - left; split; [assumption | lia].
  - left; split; [assumption | lia].
  - left; split; lia.
  - right; left; repeat split; lia.
  - right; left; repeat split; lia.
  - left; split; lia.
  - right; left; repeat split; lia.
  - right; right. repeat split; try lia. eapply hue_equiv_trans; eassumption.
Qed.

Lemma sent_rel_refl : forall a, sent_rel a a.
Proof. intro a. split; [apply same_colour_refl | reflexivity]. Qed.

Lemma sent_rel_trans : forall a b c, sent_rel a b -> sent_rel b c -> sent_rel a c.
Proof. intros a b c [H1 H2] [G1 G2]. split; [eapply same_colour_trans; eassumption | congruence]. Qed.

Lemma delay_close_refl : forall a, delay_close a a.
Proof. intro a. left. reflexivity. Qed.

Lemma delay_close_trans : forall a b c, delay_close a b -> delay_close b c -> delay_close a c.
Proof.
  intros a b c [H | [H1 [H2 H3]]] [G | [G1 [G2 G3]]].
  - left. rewrite H. exact G.
  - right. rewrite H. auto.
  - right. rewrite <- G. auto.
  - right. auto.
Qed.

(* ---------------------------------------------------------------- chains *)

(* one transition does what the property asks, and leaves the registers in range *)
Definition step_ok (from to : unit_mode) : Prop :=
  forall r : regs Q, r_mode r = from -> valid_regs r ->
    valid_regs (switch_Q r to) /\
    sent_rel (set_transmits_Q (switch_Q r to)) (set_transmits_Q r) /\
    delay_close (delay_ms (switch_Q r to)) (delay_ms r).

Lemma switch_Q_mode : forall r to, r_mode (switch_Q r to) = to.
Proof. intros r to. apply (g_switch_mode Q apply_conv_Q time_raw_Q time_logical_Q). Qed.

(* any chain of transitions among modes for which every single transition is in order *)
Theorem chain_from_steps : forall (allowed : unit_mode -> Prop),
  (forall from to, allowed from -> allowed to -> step_ok from to) ->
  forall (l : list unit_mode) (r : regs Q),
    allowed (r_mode r) -> Forall allowed l -> valid_regs r ->
    valid_regs (switch_chain_Q r l) /\
    sent_rel (set_transmits_Q (switch_chain_Q r l)) (set_transmits_Q r) /\
    delay_close (delay_ms (switch_chain_Q r l)) (delay_ms r).
Proof.
  intros allowed Hstep l. induction l as [| to l IH]; intros r Ha Hl V.
  - simpl. split; [exact V |]. split; [apply sent_rel_refl | apply delay_close_refl].
  - inversion Hl as [| x l' Hto Hl']; subst.
    destruct (Hstep (r_mode r) to Ha Hto r eq_refl V) as [V1 [S1 D1]].
    unfold switch_chain_Q, g_switch_chain. simpl.
    change (fold_left (g_switch Q apply_conv_Q time_raw_Q time_logical_Q) l
              (g_switch Q apply_conv_Q time_raw_Q time_logical_Q r to))
      with (switch_chain_Q (switch_Q r to) l).
    assert (Ha1 : allowed (r_mode (switch_Q r to))) by (rewrite switch_Q_mode; exact Hto).
    destruct (IH (switch_Q r to) Ha1 Hl' V1) as [V2 [S2 D2]].
    split; [exact V2 |]. split.
    + eapply sent_rel_trans; eassumption.
    + eapply delay_close_trans; eassumption.
Qed.

(* ---------------------------------------------------------------- the single transitions *)

Lemma step_same : forall m, step_ok m m.
Proof.
  intros m r Hm V. unfold switch_Q. rewrite <- Hm.
  rewrite (g_switch_same_mode Q apply_conv_Q time_raw_Q time_logical_Q r).
  split; [exact V |]. split; [apply sent_rel_refl | apply delay_close_refl].
Qed.

Lemma hue_formula_range : forall H, 0 <= hue_formula H /\ hue_formula H <= 65535.
Proof.
  intro H. unfold hue_formula.
  match goal with |- context [if ?b then _ else _] => destruct b end; [lra |].
  destruct (py_fmod_Q_range H (360 # 1) ltac:(lra)) as [A B]. qconst. lra.
Qed.

Lemma pct_to_raw_Q_range : forall P, 0 <= P -> P <= 100 -> 0 <= pct_to_raw_Q P /\ pct_to_raw_Q P <= 65535.
Proof.
  intros P H0 H1. unfold pct_to_raw_Q.
  match goal with |- context [if ?b then _ else _] => destruct b end; [lra |]. qconst. lra.
Qed.

Lemma step_logical_to_raw : step_ok LOGICAL RAW.
Proof.
  intros r Hm V. split; [| split].
  - destruct r as [h s b k rd gr bl d t m]. simpl in Hm. subst m.
    destruct V as [Vk [Vd [Vt [Vh0 [Vh1 [Vs0 [Vs1 [Vb0 Vb1]]]]]]]]. simpl in *.
    unfold switch_Q, g_switch, valid_regs; simpl. unfold_regs.
    unfold logical_to_raw_Q; simpl. fold (hue_formula h).
    destruct (hue_formula_range h) as [A B].
    destruct (pct_to_raw_Q_range s Vs0 Vs1) as [C D].
    destruct (pct_to_raw_Q_range b Vb0 Vb1) as [E F].
    unfold time_raw_Q. repeat split; try assumption; try lra.
  - rewrite switch_to_raw_preserves_Q. apply sent_rel_refl.
  - left. apply switch_to_raw_delay_Q. rewrite Hm. discriminate.
Qed.

Lemma step_raw_to_logical : step_ok RAW LOGICAL.
Proof.
  intros r Hm V. destruct (switch_raw_to_logical_Q r Hm V) as [S [D W]].
  split; [| split].
  - destruct r as [h s b k rd gr bl d t m]. simpl in Hm. subst m.
    destruct V as [Vk [Vd [Vt [Vh0 [Vh1 [Vs0 [Vs1 [Vb0 Vb1]]]]]]]]. simpl in *.
    unfold switch_Q, g_switch, valid_regs; simpl. unfold_regs.
    unfold raw_to_logical_Q; simpl.
    rewrite (py_max_Q_nonneg k Vk).
    assert (T : forall x, 0 <= x -> 0 <= time_logical_Q x).
    { intros x Hx. unfold time_logical_Q.
      match goal with |- context [if ?c then _ else _] => destruct c end; [lra | qconst; lra]. }
    assert (P : forall x, 0 <= x -> x <= 65535 ->
              0 <= py_max_Q (if Qleb (65535 # 1) x then 100 # 1 else x / (65535 # 1) * (100 # 1)) (0 # 1) /\
              py_max_Q (if Qleb (65535 # 1) x then 100 # 1 else x / (65535 # 1) * (100 # 1)) (0 # 1) <= 100).
    { intros x X0 X1. destruct (Qleb (65535 # 1) x).
      - rewrite py_max_Q_nonneg by lra. lra.
      - rewrite py_max_Q_nonneg by (qconst; lra). qconst. lra. }
    destruct (P s Vs0 Vs1) as [P1 P2]. destruct (P b Vb0 Vb1) as [P3 P4].
    rewrite (py_max_Q_nonneg (h / (65535 # 1) * (360 # 1))) by (qconst; lra).
    repeat split; try assumption; try (apply T; assumption); qconst; lra.
  - split; [apply same_hsbk_colour; exact S | exact D].
  - exact W.
Qed.

Definition no_rgb (m : unit_mode) : Prop := m <> RGB.

Lemma steps_without_rgb : forall from to, no_rgb from -> no_rgb to -> step_ok from to.
Proof.
  intros from to Hf Ht. destruct from, to; try (contradiction Hf; reflexivity); try (contradiction Ht; reflexivity).
  - apply step_same.
  - apply step_logical_to_raw.
  - apply step_raw_to_logical.
  - apply step_same.
Qed.

(* any chain of `units logical` / `units raw` statements *)
Theorem switch_chain_logical_raw_Q : forall (l : list unit_mode) (r : regs Q),
  r_mode r <> RGB -> Forall no_rgb l -> valid_regs r ->
  sent_rel (set_transmits_Q (switch_chain_Q r l)) (set_transmits_Q r) /\
  delay_close (delay_ms (switch_chain_Q r l)) (delay_ms r).
Proof.
  intros l r Hm Hl V.
  destruct (chain_from_steps no_rgb steps_without_rgb l r Hm Hl V) as [_ H]. exact H.
Qed.

(* ---------------------------------------------------------------- transitions involving rgb *)

(* rgb_to_raw hands kelvin through untouched (the statement that a rounding of kelvin breaks) *)
Lemma rgb_to_raw_Q_kelvin : forall c : color4 Q, c3 (rgb_to_raw_Q c) = c3 c.
Proof. intro c. unfold rgb_to_raw_Q. destruct (guarded_rgb_to_hsv_Q _ _ _) as [[h s] v]. reflexivity. Qed.

Lemma param_16_Q_zero : forall q, q == 0 -> param_16_Q q = 0%Z.
Proof. intros q H. rewrite (param_16_Q_comp q (inject_Z 0)) by (rewrite H; reflexivity). apply param_16_Q_int. lia. Qed.

Lemma step_rgb_to_raw : step_ok RGB RAW.
Proof.
  intros r Hm V. split; [| split].
  - destruct r as [h s b k rd gr bl d t m]. simpl in Hm. subst m.
    destruct V as [Vk [Vd [Vt _]]]. simpl in *.
    unfold switch_Q, g_switch, valid_regs; simpl. unfold_regs.
    unfold rgb_to_raw_Q; simpl.
    destruct (guarded_rgb_to_hsv_Q _ _ _) as [[h' s'] v']. simpl.
    assert (R : forall x, 0 <= z2q (py_round_Q (py_max_Q (z2q 0) (py_min_Q x (z2q 65535)))) /\
                          z2q (py_round_Q (py_max_Q (z2q 0) (py_min_Q x (z2q 65535)))) <= 65535).
    { intro x. pose proof (param_16_Q_range x) as [A B]. unfold param_16_Q in A, B. unfold z2q at 1 3.
      change 0 with (inject_Z 0). change 65535 with (inject_Z 65535). rewrite <- !Zle_Qle. split; assumption. }
    destruct (R (h' * (65535 # 1))) as [A1 A2]. destruct (R (s' * (65535 # 1))) as [B1 B2].
    destruct (R (v' * (65535 # 1))) as [C1 C2].
    unfold time_raw_Q. repeat split; try assumption; lra.
  - rewrite switch_to_raw_preserves_Q. apply sent_rel_refl.
  - left. apply switch_to_raw_delay_Q. rewrite Hm. discriminate.
Qed.

Lemma step_rgb_to_logical : step_ok RGB LOGICAL.
Proof.
  intros r Hm V.
  destruct r as [h0 s0 b0 k rd gr bl d t m]. simpl in Hm. subst m.
  destruct V as [Vk [Vd [Vt [Vr0 [Vr1 [Vg0 [Vg1 [Vb0 Vb1]]]]]]]]. simpl in *.
  pose proof (guarded_rgb_to_hsv_Q_range _ _ _ (in01_pct rd Vr0 Vr1) (in01_pct gr Vg0 Vg1) (in01_pct bl Vb0 Vb1)) as Rg.
  rewrite !set_transmits_Q_eq.
  unfold switch_Q, g_switch; simpl. unfold_regs.
  unfold as_raw_color_Q, g_as_raw_color, as_raw_time_Q, g_as_raw_time.
  rewrite rgb_to_raw_Q_sent, rgb_to_raw_Q_kelvin. simpl c0; simpl c1; simpl c2; simpl c3.
  unfold valid_regs, sent_rel, sent_color, delay_ms, pending_wait_Q; simpl.
  unfold rgb_to_logical_Q; simpl.
  destruct (guarded_rgb_to_hsv_Q (rd / (100 # 1)) (gr / (100 # 1)) (bl / (100 # 1))) as [[h s] v].
  destruct Rg as [[Hh0 Hh1] [[Hs0 Hs1] [Hv0 Hv1]]]. simpl.
  split; [| split].
  - repeat split; try assumption; lra.
  - split; [| reflexivity].
    apply same_hsbk_colour. unfold same_hsbk, param_color_Q, cmap; simpl.
    split; [| split; [| split]].
    + change (hue_equiv (param_16_Q (hue_formula (h * (360 # 1)))) (param_16_Q (h * (65535 # 1)))).
      apply hue_back; [lra | lra | field].
    + apply pct_back; [lra | lra | field].
    + apply pct_back; [lra | lra | field].
    + reflexivity.
  - apply delay_close_refl.
Qed.

Lemma dur_back : forall d, 0 <= d -> param_32_Q (time_raw_Q (time_logical_Q d)) = param_32_Q d.
Proof.
  intros d Vd. pose proof EPSILON_Q_val as He. unfold time_logical_Q, time_raw_Q.
  match goal with |- context [if ?c then _ else _] => destruct c eqn:E end.
  - apply andb_prop in E. destruct E as [E1 E2]. apply Qltb_true in E1, E2.
    rewrite (param_32_Q_comp ((0 # 1) * (1000 # 1)) (inject_Z 0)) by (change (inject_Z 0) with 0; lra).
    rewrite param_32_Q_int by lia. symmetry. apply param_32_Q_small; lra.
  - apply param_32_Q_comp. field.
Qed.

Definition wait_ms (m : unit_mode) (t : Q) : Q :=
  match wait_seconds_Q m t with None => 0 | Some s => s * 1000 end.

Lemma delay_ms_eq : forall r, delay_ms r = wait_ms (r_mode r) (r_time r).
Proof. reflexivity. Qed.

Lemma delay_back : forall m t, m <> RAW -> 0 <= t ->
  delay_close (wait_ms m (time_logical_Q t)) (wait_ms RAW t).
Proof.
  intros m t Hm Vt. pose proof EPSILON_Q_val as He.
  assert (W : wait_ms m (time_logical_Q t) = wait_ms LOGICAL (time_logical_Q t)).
  { destruct m; try reflexivity. contradiction Hm; reflexivity. }
  rewrite W. unfold delay_close, wait_ms, wait_seconds_Q.
  unfold time_logical_Q, z2q. change (inject_Z 0) with 0. change (inject_Z 1000) with (1000 # 1).
  destruct (Qltb (Qopp EPSILON_Q) t && Qltb t EPSILON_Q)%bool eqn:E.
  - apply andb_prop in E. destruct E as [E1 E2]. apply Qltb_true in E1, E2.
    assert (Z0 : Qltb 0 (0 # 1) = false) by reflexivity. rewrite Z0.
    destruct (Qltb 0 t) eqn:E3.
    + right. split; [reflexivity |]. apply Qltb_true in E3. split; [| rewrite <- He]; field_simplify; lra.
    + left. reflexivity.
  - destruct (Qltb 0 t) eqn:E3.
    + apply Qltb_true in E3.
      assert (P : Qltb 0 (t / (1000 # 1)) = true).
      { apply Qltb_true. apply Qlt_shift_div_l; lra. }
      rewrite P. left. reflexivity.
    + apply Qltb_false in E3.
      assert (P : Qltb 0 (t / (1000 # 1)) = false).
      { apply Qltb_false. apply Qle_shift_div_r; lra. }
      rewrite P. left. reflexivity.
Qed.

Lemma time_logical_Q_nonneg : forall x, 0 <= x -> 0 <= time_logical_Q x.
Proof.
  intros x Hx. unfold time_logical_Q.
  match goal with |- context [if ?c then _ else _] => destruct c end; [lra | qconst; lra].
Qed.

Lemma hue_equiv_0_top : hue_equiv 0 65535.
Proof. right; left; split; reflexivity. Qed.

(* what rgb_to_raw (i.e. `set` in rgb units) sends for an rgb colour that came from an hsv triple *)
Lemma sent_after_to_rgb : forall h s v (R G B k : Q),
  in01 h -> in01 s -> in01 v ->
  triple_eq (R / (100 # 1), G / (100 # 1), B / (100 # 1)) (hsv_to_rgb_Q h s v) ->
  same_colour (param_color_Q (rgb_to_raw_Q (mkcolor R G B k)))
              (mkcolor (param_16_Q (h * (65535 # 1))) (param_16_Q (s * (65535 # 1)))
                       (param_16_Q (v * (65535 # 1))) (param_16_Q k)).
Proof.
  intros h s v R G B k Hh Hs Hv T.
  rewrite rgb_to_raw_Q_sent, rgb_to_raw_Q_kelvin. simpl c0; simpl c1; simpl c2; simpl c3.
  pose proof (guarded_rgb_hsv_roundtrip h s v _ _ _ Hh Hs Hv T) as RT.
  destruct (guarded_rgb_to_hsv_Q (R / (100 # 1)) (G / (100 # 1)) (B / (100 # 1))) as [[h' s'] v'].
  destruct RT as [Rv [Rdeg Rgen]].
  destruct Hh as [Hh0 Hh1]. destruct Hs as [Hs0 Hs1]. destruct Hv as [Hv0 Hv1].
  unfold same_colour; simpl. split; [reflexivity |].
  assert (Ev : param_16_Q (v' * (65535 # 1)) = param_16_Q (v * (65535 # 1))) by (apply param_16_Q_comp; rewrite Rv; reflexivity).
  destruct (Qeq_dec v 0) as [Zv | Nv].
  - (* black *)
    left. split; [rewrite Ev |]; apply param_16_Q_zero; rewrite Zv; ring.
  - destruct (Qeq_dec s 0) as [Zs | Ns].
    + (* grey *)
      right; left. destruct (Rdeg (or_introl Zs)) as [_ Ds].
      split; [apply param_16_Q_zero; rewrite Ds; ring |].
      split; [apply param_16_Q_zero; rewrite Zs; ring | exact Ev].
    + assert (Ps : 0 < s) by (destruct (Qlt_le_dec 0 s); [assumption | exfalso; apply Ns; lra]).
      assert (Pv : 0 < v) by (destruct (Qlt_le_dec 0 v); [assumption | exfalso; apply Nv; lra]).
      destruct (Rgen Ps Pv) as [Es Eh].
      right; right. split; [| split; [apply param_16_Q_comp; rewrite Es; reflexivity | exact Ev]].
      destruct Eh as [Eh | [Eh1 Eh0]].
      * left. apply param_16_Q_comp. rewrite Eh. reflexivity.
      * (* h = 1: the hue comes back as 0, the same angle *)
        rewrite (param_16_Q_zero (h' * (65535 # 1))) by (rewrite Eh0; ring).
        rewrite (param_16_Q_comp (h * (65535 # 1)) (inject_Z 65535)) by (rewrite Eh1; reflexivity).
        rewrite param_16_Q_int by lia. apply hue_equiv_0_top.
Qed.

Lemma same_colour_sym : forall a b, same_colour a b -> same_colour b a.
Proof.
  intros a b [K H]. split; [congruence |].
  destruct H as [[A1 A2] | [[A1 [A2 A3]] | [A1 [A2 A3]]]].
  - left; auto.
  - right; left; repeat split; congruence.
  - right; right. repeat split; try congruence. apply hue_equiv_sym; exact A1.
Qed.

Lemma step_raw_to_rgb : step_ok RAW RGB.
Proof.
  intros r Hm V.
  destruct r as [h s b k rd gr bl d t m]. simpl in Hm. subst m.
  destruct V as [Vk [Vd [Vt [Vh0 [Vh1 [Vs0 [Vs1 [Vb0 Vb1]]]]]]]]. simpl in *.
  pose proof (in01_raw h Vh0 Vh1) as Ih. pose proof (in01_raw s Vs0 Vs1) as Is. pose proof (in01_raw b Vb0 Vb1) as Ib.
  pose proof (hsv_to_rgb_Q_range _ _ _ Ih Is Ib) as Rg.
  rewrite !set_transmits_Q_eq. rewrite !delay_ms_eq.
  unfold switch_Q, g_switch; simpl. unfold_regs.
  unfold as_raw_color_Q, g_as_raw_color, as_raw_time_Q, g_as_raw_time.
  unfold valid_regs, sent_rel, sent_color; simpl.
  unfold raw_to_rgb_Q; simpl.
  pose proof (sent_after_to_rgb (h / (65535 # 1)) (s / (65535 # 1)) (b / (65535 # 1))) as SA.
  destruct (hsv_to_rgb_Q (h / (65535 # 1)) (s / (65535 # 1)) (b / (65535 # 1))) as [[R G] B].
  destruct Rg as [[R0 R1] [[G0 G1] [B0 B1]]]. simpl.
  split; [| split].
  - repeat split; try assumption; try (apply time_logical_Q_nonneg; assumption); lra.
  - split; [| apply dur_back; exact Vd].
    eapply same_colour_trans.
    + apply (SA (R * (100 # 1)) (G * (100 # 1)) (B * (100 # 1)) k Ih Is Ib).
      unfold triple_eq; simpl. repeat split; field.
    + unfold param_color_Q, cmap; simpl.
      split; [reflexivity |]. right; right. simpl.
      repeat split; try (apply param_16_Q_comp; field). left. apply param_16_Q_comp. field.
  - apply delay_back; [discriminate | exact Vt].
Qed.

Lemma step_logical_to_rgb : step_ok LOGICAL RGB.
Proof.
  intros r Hm V.
  destruct r as [h s b k rd gr bl d t m]. simpl in Hm. subst m.
  destruct V as [Vk [Vd [Vt [Vh0 [Vh1 [Vs0 [Vs1 [Vb0 Vb1]]]]]]]]. simpl in *.
  pose proof (in01_deg h Vh0 Vh1) as Ih. pose proof (in01_pct s Vs0 Vs1) as Is. pose proof (in01_pct b Vb0 Vb1) as Ib.
  pose proof (hsv_to_rgb_Q_range _ _ _ Ih Is Ib) as Rg.
  rewrite !set_transmits_Q_eq. rewrite !delay_ms_eq.
  unfold switch_Q, g_switch; simpl. unfold_regs.
  unfold as_raw_color_Q, g_as_raw_color, as_raw_time_Q, g_as_raw_time.
  unfold valid_regs, sent_rel, sent_color; simpl.
  unfold logical_to_rgb_Q; simpl.
  pose proof (sent_after_to_rgb (h / (360 # 1)) (s / (100 # 1)) (b / (100 # 1))) as SA.
  destruct (hsv_to_rgb_Q (h / (360 # 1)) (s / (100 # 1)) (b / (100 # 1))) as [[R G] B].
  destruct Rg as [[R0 R1] [[G0 G1] [B0 B1]]]. simpl.
  split; [| split].
  - repeat split; try assumption; lra.
  - split; [| reflexivity].
    eapply same_colour_trans.
    + apply (SA (R * (100 # 1)) (G * (100 # 1)) (B * (100 # 1)) k Ih Is Ib).
      unfold triple_eq; simpl. repeat split; field.
    + (* the logical registers themselves send the same integers *)
      apply same_colour_sym. apply same_hsbk_colour.
      unfold same_hsbk, param_color_Q, cmap; simpl.
      split; [| split; [| split]].
      * change (hue_equiv (param_16_Q (hue_formula h)) (param_16_Q (h / (360 # 1) * (65535 # 1)))).
        apply hue_back; [qconst; lra | qconst; lra | field].
      * apply pct_back; [qconst; lra | qconst; lra | field].
      * apply pct_back; [qconst; lra | qconst; lra | field].
      * reflexivity.
  - apply delay_close_refl.
Qed.

(* ---------------------------------------------------------------- all six, and all chains *)

Theorem switch_preserves_transmission_Q : forall from to, step_ok from to.
Proof.
  intros from to. destruct from, to.
  - apply step_same.
  - apply step_logical_to_raw.
  - apply step_logical_to_rgb.
  - apply step_raw_to_logical.
  - apply step_same.
  - apply step_raw_to_rgb.
  - apply step_rgb_to_logical.
  - apply step_rgb_to_raw.
  - apply step_same.
Qed.

Theorem switch_preserves_transmission_chain : forall (l : list unit_mode) (r : regs Q),
  valid_regs r ->
  valid_regs (switch_chain_Q r l) /\
  sent_rel (set_transmits_Q (switch_chain_Q r l)) (set_transmits_Q r) /\
  delay_close (delay_ms (switch_chain_Q r l)) (delay_ms r).
Proof.
  intros l r V.
  apply (chain_from_steps (fun _ => True)); auto.
  - intros. apply switch_preserves_transmission_Q.
  - apply Forall_forall. auto.
Qed.
