(* Range safety over binary64, for ALL floats (nan, infinities, zeros, subnormals included):
   whatever number a register holds, param_8/16/32, param_color, _standardize_raw and hence
   every command path hand the device integers the protocol can carry.  Proved from the
   specification of the primitive comparison (FloatAxioms.ltb_spec) and the validity of the
   [Prim2SF] view (FloatAxioms.Prim2SF_valid); everything else is integer arithmetic. *)
From Coq Require Import ZArith Bool Lia PrimFloat Uint63 SpecFloat FloatOps FloatAxioms.
From Bardolph Require Import Base.PyNum Gen.ParamGen Gen.ColorsysGen Gen.UnitsGen Gen.MachineUnitsGen Num.UnitsFloat.
Open Scope Z_scope.

(* ---------------------------------------------------------------- integers *)

Lemma digits2_pos_bound : forall m, Zpos m < 2 ^ Zpos (digits2_pos m).
Proof.
  induction m as [p IH | p IH | ]; simpl digits2_pos.
  - rewrite Pos2Z.inj_succ, Z.pow_succ_r by lia. lia.
  - rewrite Pos2Z.inj_succ, Z.pow_succ_r by lia. lia.
  - reflexivity.
Qed.

Lemma valid_digits : forall s m e,
  valid_binary (S754_finite s m e) = true -> Zpos m < 2 ^ 53.
Proof.
  intros s m e H. unfold valid_binary, bounded, canonical_mantissa in H.
  apply andb_prop in H. destruct H as [H _].
  apply Zeq_bool_eq in H. unfold fexp, FloatOps.prec in H.
  assert (Hd : Zpos (digits2_pos m) <= 53) by lia.
  eapply Z.lt_le_trans; [apply digits2_pos_bound |].
  apply Z.pow_le_mono_r; lia.
Qed.

Lemma shiftr_div : forall m k, 0 <= k -> Z.shiftr m k = m / 2 ^ k.
Proof. intros. apply Z.shiftr_div_pow2; lia. Qed.
Lemma shiftl_mul : forall m k, 0 <= k -> Z.shiftl m k = m * 2 ^ k.
Proof. intros. apply Z.shiftl_mul_pow2; lia. Qed.

(* rounding m * 2^-k half-even never exceeds an integer bound of the exact value *)
Lemma rhe_shift_le : forall m k C, 0 < k -> 0 <= m -> m <= C * 2 ^ k -> rhe_shift m k <= C.
Proof.
  intros m k C Hk Hm Hle. unfold rhe_shift.
  rewrite shiftr_div, !shiftl_mul by lia.
  assert (Hp : 0 < 2 ^ k) by (apply Z.pow_pos_nonneg; lia).
  assert (Hh : 0 < 1 * 2 ^ (k - 1)) by (rewrite Z.mul_1_l; apply Z.pow_pos_nonneg; lia).
  pose proof (Z.div_mod m (2 ^ k) ltac:(lia)) as Hdm.
  pose proof (Z.mod_pos_bound m (2 ^ k) Hp) as Hmb.
  set (q := m / 2 ^ k) in *.
  assert (Hq : q <= C) by (apply Z.div_le_upper_bound; lia).
  destruct (Z.eq_dec q C) as [-> | Hne].
  - assert (Hr : m - C * 2 ^ k = 0) by nia.
    rewrite Hr. destruct (0 <? 1 * 2 ^ (k - 1)) eqn:E; [lia | apply Z.ltb_ge in E; lia].
  - destruct (m - q * 2 ^ k <? 1 * 2 ^ (k - 1)); [lia |].
    destruct (1 * 2 ^ (k - 1) <? m - q * 2 ^ k); [lia |].
    destruct (Z.even q); lia.
Qed.

Lemma rhe_shift_nonneg : forall m k, 0 < k -> 0 <= m -> 0 <= rhe_shift m k.
Proof.
  intros m k Hk Hm. unfold rhe_shift. rewrite shiftr_div by lia.
  assert (0 <= m / 2 ^ k) by (apply Z.div_pos; [lia | apply Z.pow_pos_nonneg; lia]).
  destruct (_ <? _); [lia |]. destruct (_ <? _); [lia |]. destruct (Z.even _); lia.
Qed.

(* ---------------------------------------------------------------- one bound *)

(* [c] is a float constant whose view is (+, mc, ec), a normalised mantissa, with the integer
   value C.  A valid positive finite float that is not greater than c rounds into [0, C]. *)
Section Bound.
  Variables (mc : positive) (ec C : Z).
  Hypothesis Hec : ec <= 0.
  Hypothesis HC : Zpos mc = C * 2 ^ (- ec).
  Hypothesis Hnorm : 2 ^ 52 <= Zpos mc.

  Lemma sf_round_le_const : forall m e,
    valid_binary (S754_finite false m e) = true ->
    SFltb (S754_finite false mc ec) (S754_finite false m e) = false ->
    0 <= sf_round (S754_finite false m e) <= C.
  Proof.
    intros m e Hv Hlt.
    pose proof (valid_digits _ _ _ Hv) as Hd.
    assert (HC0 : 0 <= C).
    { destruct (Z_lt_ge_dec C 0) as [Hneg | ]; [| lia].
      assert (0 < 2 ^ (- ec)) by (apply Z.pow_pos_nonneg; lia). nia. }
    unfold SFltb, SFcompare in Hlt.
    assert (Hcmp : e < ec \/ (e = ec /\ Zpos m <= Zpos mc)).
    { destruct (Z.compare ec e) eqn:E.
      - apply Z.compare_eq in E. right. split; [lia |].
        change (Pos.compare_cont Eq mc m) with (Pos.compare mc m) in Hlt.
        destruct (Pos.compare mc m) eqn:E2; try discriminate.
        + apply Pos.compare_eq in E2. subst. lia.
        + apply Pos.compare_gt_iff in E2. lia.
      - discriminate.
      - apply Z.compare_gt_iff in E. left. lia. }
    assert (Hval : Zpos m <= C * 2 ^ (- e)).
    { destruct Hcmp as [Hlt' | [-> Hm]]; [| lia].
      replace (- e) with ((- ec) + (ec - e)) by lia.
      rewrite Z.pow_add_r by lia. rewrite Z.mul_assoc, <- HC.
      assert (2 <= 2 ^ (ec - e)).
      { change 2 with (2 ^ 1) at 1. apply Z.pow_le_mono_r; lia. }
      change (2 ^ 53) with (2 ^ 52 * 2) in Hd. nia. }
    unfold sf_round.
    destruct (0 <=? e) eqn:E0.
    - apply Z.leb_le in E0. assert (e = 0) by lia. subst e.
      rewrite shiftl_mul by lia. simpl Z.opp in Hval. rewrite Z.pow_0_r in *. lia.
    - apply Z.leb_gt in E0. split.
      + apply rhe_shift_nonneg; lia.
      + apply rhe_shift_le; lia.
  Qed.
End Bound.

(* ---------------------------------------------------------------- param_N *)

Definition clamp_round (hi x : float) : Z := py_round (py_max zero (py_min x hi)).

Lemma clamp_round_range : forall (hi : float) (mc : positive) (ec C : Z),
  Prim2SF hi = S754_finite false mc ec ->
  ec <= 0 -> Zpos mc = C * 2 ^ (- ec) -> 2 ^ 52 <= Zpos mc ->
  py_round hi = C ->
  forall x, 0 <= clamp_round hi x <= C.
Proof.
  intros hi mc ec C Hhi Hec HC Hn Hr x.
  assert (HC0 : 0 <= C).
  { destruct (Z_lt_ge_dec C 0) as [Hneg | ]; [| lia].
    assert (0 < 2 ^ (- ec)) by (apply Z.pow_pos_nonneg; lia). nia. }
  unfold clamp_round, py_max, py_min.
  destruct (PrimFloat.ltb hi x) eqn:E1.
  - (* x above the bound: the bound itself *)
    assert (Hz : PrimFloat.ltb zero hi = true).
    { rewrite ltb_spec, Hhi. reflexivity. }
    rewrite Hz. rewrite Hr. lia.
  - destruct (PrimFloat.ltb zero x) eqn:E2.
    + rewrite ltb_spec in E1, E2. rewrite Hhi in E1.
      pose proof (Prim2SF_valid x) as Hv.
      unfold py_round.
      change (Prim2SF zero) with (S754_zero false) in E2.
      destruct (Prim2SF x) as [sx | sx | | sx mx ex].
      * discriminate.
      * destruct sx; simpl in E1, E2; discriminate.
      * discriminate.
      * destruct sx; [simpl in E2; discriminate |].
        eapply sf_round_le_const; eauto.
    + change (py_round zero) with 0. lia.
Qed.

Lemma param_8_eq : forall x, param_8 x = clamp_round (z2f 255) x.
Proof. reflexivity. Qed.
Lemma param_16_eq : forall x, param_16 x = clamp_round (z2f 65535) x.
Proof. reflexivity. Qed.
Lemma param_32_eq : forall x, param_32 x = clamp_round (z2f 4294967295) x.
Proof. reflexivity. Qed.

Theorem param_8_range : forall x : float, 0 <= param_8 x <= 255.
Proof.
  intro x. rewrite param_8_eq.
  eapply (clamp_round_range (z2f 255) 8972014882652160 (-45) 255); try reflexivity; lia.
Qed.

Theorem param_16_range : forall x : float, 0 <= param_16 x <= 65535.
Proof.
  intro x. rewrite param_16_eq.
  eapply (clamp_round_range (z2f 65535) 9007061815787520 (-37) 65535); try reflexivity; lia.
Qed.

Theorem param_32_range : forall x : float, 0 <= param_32 x <= 4294967295.
Proof.
  intro x. rewrite param_32_eq.
  eapply (clamp_round_range (z2f 4294967295) 9007199252643840 (-21) 4294967295); try reflexivity; lia.
Qed.

Definition zu16 (n : Z) : Prop := 0 <= n <= 65535.
Definition zu32 (n : Z) : Prop := 0 <= n <= 4294967295.
Definition color_u16 (c : color4 Z) : Prop := zu16 (c0 c) /\ zu16 (c1 c) /\ zu16 (c2 c) /\ zu16 (c3 c).

Theorem param_color_range : forall c : color4 float, color_u16 (param_color c).
Proof.
  intro c. unfold color_u16, zu16, param_color, cmap; simpl.
  repeat split; apply param_16_range.
Qed.

(* ColorMatrix._standardize_raw on one component (Python raises on nan; the model's 0 is in
   range as well) *)
Theorem standardize_raw_range : forall x : float, 0 <= standardize_raw x <= 65535.
Proof.
  intro x. unfold standardize_raw, g_standardize_raw.
  destruct (PrimFloat.ltb x (z2f 0)) eqn:E1; [lia |].
  destruct (PrimFloat.ltb (z2f 65535) x) eqn:E2; [lia |].
  pose proof (param_16_range x) as H. rewrite param_16_eq in H.
  unfold clamp_round, py_max, py_min in H. rewrite E2 in H.
  destruct (PrimFloat.ltb zero x) eqn:E3; [exact H |].
  (* not below zero, not above zero: a zero or nan *)
  rewrite ltb_spec in E1, E3. unfold py_round.
  change (Prim2SF (z2f 0)) with (S754_zero false) in E1.
  change (Prim2SF zero) with (S754_zero false) in E3.
  destruct (Prim2SF x) as [sx | sx | | sx mx ex]; simpl; try lia.
  destruct sx; simpl in E1, E3; discriminate.
Qed.

(* ---------------------------------------------------------------- every command path *)

Definition sent_in_range (s : sent) : Prop :=
  match s_color s with Some c => color_u16 c | None => True end /\
  match s_power s with Some p => zu16 p | None => True end /\
  zu32 (s_duration s).

(* every colour component, power level and duration handed to a light by any command kind, in
   any unit mode, for ANY register contents (all 2^64 bit patterns per register), whichever of
   the known texts of the command handlers is in force *)
Theorem transmit_in_range : forall k m (c : color4 float) on (d : float),
  sent_in_range (transmit k m c on d).
Proof.
  intros k m c on d. unfold sent_in_range, transmit, g_transmit.
  assert (Hstd : forall x : color4 float, color_u16 (cmap standardize_raw x)).
  { intro x. unfold color_u16, zu16, cmap; simpl. repeat split; apply standardize_raw_range. }
  destruct k; simpl; (split; [| split]); try exact I;
    try (unfold zu32; apply param_32_range);
    try (unfold zu16; apply param_16_range);
    try apply param_color_range;
    try apply Hstd.
Qed.

(* what rgb_to_raw itself stores in the registers on `units raw` is in range as well *)
Theorem make_raw_range : forall x : float,
  0 <= py_round (py_max (z2f 0) (py_min (PrimFloat.mul x (z2f 65535)) (z2f 65535))) <= 65535.
Proof. intro x. apply (param_16_range (PrimFloat.mul x (z2f 65535))). Qed.
