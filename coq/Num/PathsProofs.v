(* Every command path is the canonical pipeline: convert to raw units once (_as_raw_color /
   _as_raw_time / _as_raw_matrix), then clamp and round once (param_color / param_32).  This is
   where a path that forgets the conversion (seconds handed over as milliseconds), converts
   after rounding, or lacks a clamp breaks a proof: the statements have no hypotheses about the
   path_* / shape_* booleans read off the source, they are proved by evaluating them.
   Binary64 statements are bit-exact; the _Q statements are over exact rationals. *)
From Coq Require Import ZArith QArith Qround Qabs Bool Lia Lqa PrimFloat SpecFloat FloatOps FloatAxioms.
From Bardolph Require Import Base.PyNum Num.UnitsQ Gen.ParamGen Gen.ColorsysGen Gen.UnitsGen Gen.MachineUnitsGen
     Num.UnitsFloat Num.FloatProofs Num.SweepDefs Num.SweepProofs Num.UnitsQProofs.
Close Scope Q_scope.
Open Scope Z_scope.

(* ---------------------------------------------------------------- binary64 *)

(* ColorMatrix._standardize_raw clamps and rounds exactly like param_16 (in the model, which
   gives round(nan) = 0 where Python raises) *)
Lemma negative_facts : forall x : float,
  PrimFloat.ltb x zero = true -> PrimFloat.ltb (z2f 65535) x = false /\ PrimFloat.ltb zero x = false.
Proof.
  intros x H. rewrite !ltb_spec in *.
  change (Prim2SF zero) with (S754_zero false) in *.
  change (Prim2SF (z2f 65535)) with (S754_finite false 9007061815787520 (-37)).
  destruct (Prim2SF x) as [sx | sx | | sx mx ex]; try destruct sx; simpl in *; try discriminate; split; reflexivity.
Qed.

Lemma neither_sign_rounds_to_zero : forall x : float,
  PrimFloat.ltb x zero = false -> PrimFloat.ltb zero x = false -> py_round x = 0.
Proof.
  intros x H1 H2. rewrite !ltb_spec in *. unfold py_round.
  change (Prim2SF zero) with (S754_zero false) in *.
  destruct (Prim2SF x) as [sx | sx | | sx mx ex]; try destruct sx; simpl in *; try discriminate; reflexivity.
Qed.

Lemma standardize_raw_param_16 : forall x : float, standardize_raw x = param_16 x.
Proof.
  intro x. rewrite param_16_eq.
  unfold standardize_raw, g_standardize_raw, clamp_round, py_max, py_min.
  change (z2f 0) with zero.
  destruct (PrimFloat.ltb x zero) eqn:E1.
  - destruct (negative_facts x E1) as [E2 E3]. rewrite E2, E3. reflexivity.
  - destruct (PrimFloat.ltb (z2f 65535) x) eqn:E2.
    + reflexivity.
    + destruct (PrimFloat.ltb zero x) eqn:E3; [reflexivity |].
      rewrite (neither_sign_rounds_to_zero x E1 E3). reflexivity.
Qed.

Lemma standardize_color : forall c : color4 float, cmap standardize_raw c = param_color c.
Proof.
  intro c. unfold param_color, cmap. rewrite !standardize_raw_param_16. reflexivity.
Qed.

(* clamping twice, with the integers converted back to numbers in between, is clamping once *)
Lemma param_16_idem : forall x : float, param_16 (z2f (param_16 x)) = param_16 x.
Proof. intro x. apply (ints_pass_65536 (param_16 x)). apply param_16_range. Qed.

Lemma round_param_16 : forall x : float, py_round (z2f (param_16 x)) = param_16 x.
Proof. intro x. apply (ints_pass_65536 (param_16 x)). apply param_16_range. Qed.

Lemma all_lights_color_once : forall c : color4 float,
  param_color (ints float z2f (rounded_color (ints float z2f (param_color c)))) = param_color c.
Proof.
  intro c. unfold param_color, rounded_color, ints, cmap; simpl.
  rewrite !round_param_16, !param_16_idem. reflexivity.
Qed.

Lemma raw_cell_is_as_raw_color : forall m c,
  g_raw_cell float z2f apply_conv PrimFloat.ltb py_round m c = as_raw_color m c.
Proof. intros m c. destruct m; reflexivity. Qed.

Definition is_all (k : kind) : bool := match k with K_all | P_all => true | _ => false end.

(* colour commands: light, group, location, all, zone, matrix cell *)
Theorem paths_all_clamp : forall k m (c : color4 float) on (d : float),
  kind_is_power k = false ->
  s_color (transmit k m c on d) = Some (canonical_color m c) /\
  s_power (transmit k m c on d) = None /\
  s_duration (transmit k m c on d) =
    (if is_all k then param_32 (z2f (canonical_duration m d)) else canonical_duration m d).
Proof.
  intros k m c on d Hk. unfold transmit, g_transmit. rewrite Hk.
  unfold canonical_color, canonical_duration.
  destruct k; try discriminate; simpl; repeat split;
    unfold g_wire_color, g_machine_color; simpl;
    try rewrite all_lights_color_once;
    try rewrite raw_cell_is_as_raw_color;
    try rewrite standardize_color; reflexivity.
Qed.

(* power commands: the duration goes through the same conversion and clamp; the level is
   65535 / 0 (through LightSet.set_power_all_lights: 1 / 0) *)
Theorem paths_power_clamp : forall k m (c : color4 float) on (d : float),
  kind_is_power k = true ->
  s_color (transmit k m c on d) = None /\
  s_power (transmit k m c on d) = Some (if on then (if is_all k then 1 else 65535) else 0) /\
  s_duration (transmit k m c on d) =
    (if is_all k then param_32 (z2f (canonical_duration m d)) else canonical_duration m d).
Proof.
  intros k m c on d Hk. unfold transmit, g_transmit. rewrite Hk.
  unfold canonical_duration.
  destruct k; try discriminate; destruct on; simpl; repeat split; reflexivity.
Qed.

(* ---------------------------------------------------------------- exact rationals *)

Open Scope Q_scope.

Lemma standardize_raw_param_16_Q : forall x : Q, standardize_raw_Q x = param_16_Q x.
Proof.
  intro x. unfold standardize_raw_Q, g_standardize_raw, param_16_Q, py_max_Q, py_min_Q, z2q.
  change (inject_Z 0) with 0. change (inject_Z 65535) with 65535.
  destruct (Qltb x 0) eqn:E1.
  - apply Qltb_true in E1.
    assert (A : Qltb 65535 x = false) by (apply Qltb_false; lra). rewrite A.
    assert (B : Qltb 0 x = false) by (apply Qltb_false; lra). rewrite B.
    symmetry. apply (py_round_Q_int 0).
  - apply Qltb_false in E1.
    destruct (Qltb 65535 x) eqn:E2.
    + assert (B : Qltb 0 65535 = true) by reflexivity. rewrite B.
      symmetry. apply (py_round_Q_int 65535).
    + destruct (Qltb 0 x) eqn:E3; [reflexivity |].
      apply Qltb_false in E3. apply py_round_Q_comp. lra.
Qed.


Lemma all_lights_color_once_Q : forall c : color4 Q,
  param_color_Q (ints Q z2q (rounded_color_Q (ints Q z2q (param_color_Q c)))) = param_color_Q c.
Proof.
  intro c. unfold param_color_Q, rounded_color_Q, ints, cmap, z2q; simpl.
  rewrite !py_round_Q_int. fold (z2q (param_16_Q (c0 c))). fold (z2q (param_16_Q (c1 c))).
  fold (z2q (param_16_Q (c2 c))). fold (z2q (param_16_Q (c3 c))).
  rewrite !param_16_Q_idem. reflexivity.
Qed.


(* over exact rationals every path, `all` included, is exactly the canonical pipeline *)
Theorem paths_all_clamp_Q : forall k m (c : color4 Q) on (d : Q),
  kind_is_power k = false ->
  transmit_Q k m c on d = mksent (Some (canonical_color_Q m c)) None (canonical_duration_Q m d).
Proof.
  intros k m c on d Hk. unfold transmit_Q, g_transmit. rewrite Hk.
  unfold canonical_color_Q, canonical_duration_Q.
  destruct k; try discriminate; simpl;
    unfold g_wire_color, g_machine_color, g_wire_duration, g_machine_duration; simpl;
    try rewrite all_lights_color_once_Q;
    try (fold (z2q (param_32_Q (as_raw_time_Q m d))); rewrite param_32_Q_idem);
    try reflexivity.
  (* matrix cell *)
  assert (R : g_raw_cell Q z2q apply_conv_Q Qltb py_round_Q m c = as_raw_color_Q m c) by (destruct m; reflexivity).
  rewrite R. unfold param_color_Q, cmap.
  fold standardize_raw_Q. rewrite !standardize_raw_param_16_Q. reflexivity.
Qed.

Theorem paths_power_clamp_Q : forall k m (c : color4 Q) on (d : Q),
  kind_is_power k = true ->
  transmit_Q k m c on d =
    mksent None (Some (if on then (if is_all k then 1 else 65535) else 0)%Z) (canonical_duration_Q m d).
Proof.
  intros k m c on d Hk. unfold transmit_Q, g_transmit. rewrite Hk.
  unfold canonical_duration_Q.
  destruct k; try discriminate; destruct on; simpl;
    unfold g_wire_duration, g_machine_duration; simpl;
    try (fold (z2q (param_32_Q (as_raw_time_Q m d))); rewrite param_32_Q_idem);
    reflexivity.
Qed.

(* hence, over exact rationals, what any colour command hands a light in logical or raw units
   meets the specification of Num/UnitsQ.v, whatever the registers hold *)
Theorem transmit_meets_spec_Q : forall k (c : color4 Q) on (d : Q),
  kind_is_power k = false ->
  (exists col, s_color (transmit_Q k LOGICAL c on d) = Some col /\ color_meets (spec_color SLogical c) col) /\
  (exists col, s_color (transmit_Q k RAW c on d) = Some col /\ color_meets (spec_color SRaw c) col) /\
  meets (spec_duration SLogical d) (s_duration (transmit_Q k LOGICAL c on d)) /\
  meets (spec_duration SRaw d) (s_duration (transmit_Q k RAW c on d)) /\
  meets (spec_duration SRgb d) (s_duration (transmit_Q k RGB c on d)).
Proof.
  intros k c on d Hk. rewrite !paths_all_clamp_Q by exact Hk. simpl.
  split; [eexists; split; [reflexivity | apply logical_meets_spec] |].
  split; [eexists; split; [reflexivity | apply raw_meets_spec] |].
  split; [apply (duration_meets_spec LOGICAL) |].
  split; [apply (duration_meets_spec RAW) | apply (duration_meets_spec RGB)].
Qed.
