(* The transmit pipelines: what reaches a light for each command kind, as the composition of
   the Machine's unit handling (_as_raw_color / _as_raw_time / _as_raw_matrix) with the
   clamping/rounding the device wrappers apply (param_color, param_16, param_32,
   rounded_color, _standardize_raw).  The arithmetic is the translated code of Gen/*; the
   plumbing written here follows the methods whose text / argument shapes are recorded in
   Gen/MachineUnitsGen.v (shape_* and path_* booleans), and agrees with either variant where
   two are known (pinned / repaired).  One generic definition, instantiated over binary64
   (names without suffix) and over exact rationals (suffix _Q).  No proofs here. *)
From Coq Require Import ZArith QArith Bool PrimFloat.
From Bardolph Require Import Base.PyNum Gen.ParamGen Gen.ColorsysGen Gen.UnitsGen Gen.MachineUnitsGen.
Close Scope Q_scope.
Open Scope Z_scope.
Open Scope bool_scope.

(* command kinds that transmit a colour or a duration *)
Inductive kind : Set :=
  | K_light | K_group | K_location | K_all | K_zone | K_matrix      (* set ... *)
  | P_light | P_group | P_location | P_all.                         (* on / off ... *)

Definition kind_is_power (k : kind) : bool :=
  match k with P_light | P_group | P_location | P_all => true | _ => false end.

(* what arrives at the device object: colour (or power level) and duration *)
Record sent : Type := mksent { s_color : option (color4 Z); s_power : option Z; s_duration : Z }.

Section Pipeline.
  Variable T : Type.
  Variable of_Z : Z -> T.
  Variables (v_logical_to_raw v_rgb_to_raw v_raw_to_logical v_raw_to_rgb : color4 T -> color4 T).
  Variable v_apply_conv : conv -> color4 T -> color4 T.
  Variable v_time_raw : T -> T.
  Variables (v_param_16 v_param_32 v_param_bool : T -> Z).
  Variables (v_param_color v_rounded_color : color4 T -> color4 Z).
  Variable v_ltb : T -> T -> bool.
  Variable v_round : T -> Z.

  (* Machine._as_raw_color / _as_raw_time / _assure_units *)
  Definition g_as_raw_color (m : unit_mode) (c : color4 T) : color4 T :=
    match m with RAW => c | RGB => v_rgb_to_raw c | LOGICAL => v_logical_to_raw c end.
  Definition g_as_raw_time (m : unit_mode) (t : T) : T :=
    match m with RAW => t | _ => v_time_raw t end.
  Definition g_assure_units (m : unit_mode) (c : color4 T) : color4 T :=
    match m with RAW => c | LOGICAL => v_raw_to_logical c | RGB => v_raw_to_rgb c end.

  (* ColorMatrix._standardize_raw on one component *)
  Definition g_standardize_raw (x : T) : Z :=
    if v_ltb x (of_Z 0) then 0 else if v_ltb (of_Z 65535) x then 65535 else v_round x.

  (* Machine._as_raw_matrix on one staged cell *)
  Definition g_raw_cell (m : unit_mode) (c : color4 T) : color4 T :=
    match m with
    | RAW => c
    | _ => let src := if shape_as_raw_matrix_cells_prerounded
                      then cmap (fun x => of_Z (g_standardize_raw x)) c else c in
           match convert_fn m RAW with Some f => v_apply_conv f src | None => src end
    end.

  Definition ints (c : color4 Z) : color4 T := cmap of_Z c.

  (* arguments the Machine hands to the light object / light set *)
  Definition g_machine_color (k : kind) (m : unit_mode) (c : color4 T) : color4 T :=
    let conv (flag : bool) := if flag then g_as_raw_color m c else c in
    match k with
    | K_light => conv path_color_light_color_raw
    | K_group | K_location => conv path_color_multiple_color_raw
    | K_all => conv path_color_all_color_raw
    | K_zone => conv path_color_mz_light_color_raw
    | K_matrix => if path_color_matrix_light_matrix_raw then g_raw_cell m c else c
    | _ => c
    end.

  Definition g_machine_duration (k : kind) (m : unit_mode) (d : T) : T :=
    let conv (flag : bool) := if flag then g_as_raw_time m d else d in
    match k with
    | K_light => conv path_color_light_time_raw
    | K_group | K_location => conv path_color_multiple_time_raw
    | K_all => conv path_color_all_time_raw
    | K_zone => conv path_color_mz_light_time_raw
    | K_matrix => conv path_color_matrix_light_time_raw
    | P_light => conv path_power_light_time_raw
    | P_group | P_location => conv path_power_multiple_time_raw
    | P_all => conv path_power_all_time_raw
    end.

  (* the wrappers between the Machine and the lifxlan device object *)
  Definition g_wire_color (k : kind) (c : color4 T) : color4 Z :=
    match k with
    | K_all =>
        (* LightSet.set_color_all_lights: param_color, rounded_color; LifxLanApi: param_color *)
        v_param_color (ints (v_rounded_color (ints (v_param_color c))))
    | K_matrix => cmap g_standardize_raw c         (* MatrixLight.set_matrix: matrix.get_colors() *)
    | _ => v_param_color c                          (* Light.set_color, MultizoneLight.set_zone_colors *)
    end.

  Definition g_wire_duration (k : kind) (d : T) : Z :=
    match k with
    | K_all | P_all => v_param_32 (of_Z (v_param_32 d))    (* LightSet, then LifxLanApi *)
    | _ => v_param_32 d
    end.

  (* Registers.get_power, then Light.set_power (param_16) resp. LightSet (param_bool) and
     LifxLanApi (param_16) *)
  Definition g_wire_power (k : kind) (on : bool) : Z :=
    let level := of_Z (if on then 65535 else 0) in
    match k with
    | P_all => v_param_16 (of_Z (v_param_bool level))
    | _ => v_param_16 level
    end.

  Definition g_transmit (k : kind) (m : unit_mode) (c : color4 T) (on : bool) (d : T) : sent :=
    let dur := g_wire_duration k (g_machine_duration k m d) in
    if kind_is_power k then mksent None (Some (g_wire_power k on)) dur
    else mksent (Some (g_wire_color k (g_machine_color k m c))) None dur.
End Pipeline.

Definition std_lt_F := PrimFloat.ltb.

Definition as_raw_color := g_as_raw_color float logical_to_raw rgb_to_raw.
Definition as_raw_time := g_as_raw_time float time_raw.
Definition assure_units := g_assure_units float raw_to_logical raw_to_rgb.
Definition standardize_raw := g_standardize_raw float z2f PrimFloat.ltb py_round.
Definition transmit : kind -> unit_mode -> color4 float -> bool -> float -> sent :=
  g_transmit float z2f logical_to_raw rgb_to_raw apply_conv time_raw
             param_16 param_32 param_bool param_color rounded_color PrimFloat.ltb py_round.

Definition as_raw_color_Q := g_as_raw_color Q logical_to_raw_Q rgb_to_raw_Q.
Definition as_raw_time_Q := g_as_raw_time Q time_raw_Q.
Definition assure_units_Q := g_assure_units Q raw_to_logical_Q raw_to_rgb_Q.
Definition standardize_raw_Q := g_standardize_raw Q z2q Qltb py_round_Q.
Definition transmit_Q : kind -> unit_mode -> color4 Q -> bool -> Q -> sent :=
  g_transmit Q z2q logical_to_raw_Q rgb_to_raw_Q apply_conv_Q time_raw_Q
             param_16_Q param_32_Q param_bool_Q param_color_Q rounded_color_Q Qltb py_round_Q.

(* the canonical pipeline every colour path is meant to be: convert, then param_color /
   param_32 once *)
Definition canonical_color (m : unit_mode) (c : color4 float) : color4 Z := param_color (as_raw_color m c).
Definition canonical_duration (m : unit_mode) (d : float) : Z := param_32 (as_raw_time m d).
Definition canonical_color_Q (m : unit_mode) (c : color4 Q) : color4 Z := param_color_Q (as_raw_color_Q m c).
Definition canonical_duration_Q (m : unit_mode) (d : Q) : Z := param_32_Q (as_raw_time_Q m d).

(* Machine._wait: the argument of Clock.pause_for in seconds, None when no pause is made *)
Definition wait_seconds (m : unit_mode) (t : float) : option float :=
  if PrimFloat.ltb zero t then Some (match m with RAW => PrimFloat.div t (z2f 1000) | _ => t end) else None.
Definition wait_seconds_Q (m : unit_mode) (t : Q) : option Q :=
  if Qltb (z2q 0) t then Some (match m with RAW => Qdiv t (z2q 1000) | _ => t end) else None.
