(* C14: `units X` re-expresses the settings.  Part 1: statements that hold for any numeric type
   (same-mode identity, frame), kelvin, and the bit-exact binary64 statements (switching TO raw
   units changes nothing that is transmitted, for all register contents; raw -> logical for all
   integer raw registers by the 65 536-point sweeps). *)
From Coq Require Import ZArith QArith Bool List Lia PrimFloat SpecFloat FloatOps FloatAxioms.
From Bardolph Require Import Base.PyNum Num.UnitsQ Gen.ParamGen Gen.ColorsysGen Gen.UnitsGen Gen.MachineUnitsGen
     Num.UnitsFloat Num.Switch Num.FloatProofs Num.SweepDefs Num.SweepProofs.
Import ListNotations.
Close Scope Q_scope.
Open Scope Z_scope.

(* ---------------------------------------------------------------- any numeric type *)

Section Generic.
  Variable T : Type.
  Variable cv : conv -> color4 T -> color4 T.
  Variables (tr tl : T -> T).

  Notation sw := (g_switch T cv tr tl).

  Lemma unit_mode_eqb_refl : forall m, unit_mode_eqb m m = true.
  Proof. destruct m; reflexivity. Qed.

  (* a switch to the mode already in force changes nothing *)
  Lemma g_switch_same_mode : forall r, sw r (r_mode r) = r.
  Proof. intro r. unfold g_switch. rewrite unit_mode_eqb_refl. reflexivity. Qed.

  Lemma g_switch_mode : forall r to, r_mode (sw r to) = to.
  Proof.
    intros [h s b k rd gr bl d t m] to. unfold g_switch; simpl.
    destruct m, to; reflexivity.
  Qed.

  (* settings the implementation does not assign keep their value *)
  Lemma g_switch_frame : forall r to s,
    assigned (r_mode r) to s = false -> get_setting s (sw r to) = get_setting s r.
  Proof.
    intros [h s0 b k rd gr bl d t m] to s H. unfold g_switch; simpl in *.
    destruct m, to, s; simpl in *; try discriminate; reflexivity.
  Qed.

  (* kelvin receives the fourth component of the converted colour *)
  Lemma g_switch_kelvin : forall r to c,
    machine_convert_units_fn (r_mode r) to = Some c ->
    unit_mode_eqb (r_mode r) to = false ->
    r_kelvin (sw r to) = c3 (cv c (g_get_color T r)).
  Proof.
    intros [h s0 b k rd gr bl d t m] to c Hc Hne. unfold g_switch; simpl in *.
    rewrite Hne, Hc. destruct m, to; simpl in *; try discriminate; reflexivity.
  Qed.
End Generic.

(* apart from kelvin the implementation assigns exactly the settings the documentation lists *)
Lemma assigned_is_documented : forall from to s,
  s <> S_kelvin -> assigned from to s = documented_rewrite from to s.
Proof. intros from to s H. destruct from, to, s; try reflexivity; contradiction H; reflexivity. Qed.

Lemma kelvin_never_documented : forall from to, documented_rewrite from to S_kelvin = false.
Proof. destruct from, to; reflexivity. Qed.

(* ---------------------------------------------------------------- binary64 *)

(* every converter hands kelvin through bit for bit, unless it is below zero *)
Lemma apply_conv_keeps_kelvin : forall c (col : color4 float),
  PrimFloat.ltb (c3 col) zero = false -> c3 (apply_conv c col) = c3 col.
Proof.
  intros c col H. destruct c; unfold apply_conv.
  - reflexivity.
  - unfold logical_to_rgb. destruct (hsv_to_rgb _ _ _) as [[r g] b]. reflexivity.
  - unfold raw_to_logical, py_max; simpl. change zero with 0%float in H. rewrite H. reflexivity.
  - unfold raw_to_rgb. destruct (hsv_to_rgb _ _ _) as [[r g] b]. reflexivity.
  - unfold rgb_to_logical. destruct (guarded_rgb_to_hsv _ _ _) as [[h s] v]. reflexivity.
  - unfold rgb_to_raw. destruct (guarded_rgb_to_hsv _ _ _) as [[h s] v]. reflexivity.
Qed.

Theorem switch_keeps_kelvin : forall (r : regs float) to,
  PrimFloat.ltb (r_kelvin r) zero = false -> r_kelvin (switch r to) = r_kelvin r.
Proof.
  intros r to H. unfold switch.
  destruct (unit_mode_eqb (r_mode r) to) eqn:E.
  - unfold g_switch. rewrite E. reflexivity.
  - destruct (machine_convert_units_fn (r_mode r) to) as [c |] eqn:Ec.
    + rewrite (g_switch_kelvin float apply_conv time_raw time_logical r to c Ec E).
      rewrite apply_conv_keeps_kelvin.
      * destruct r as [h s0 b k rd gr bl d t m]; destruct m; reflexivity.
      * destruct r as [h s0 b k rd gr bl d t m]; destruct m; exact H.
    + unfold g_switch. rewrite E, Ec. reflexivity.
Qed.

Theorem switch_same_mode_id : forall r : regs float, switch r (r_mode r) = r.
Proof. intro r. apply g_switch_same_mode. Qed.

Theorem switch_frame : forall (r : regs float) to s,
  documented_rewrite (r_mode r) to s = false -> s <> S_kelvin ->
  get_setting s (switch r to) = get_setting s r.
Proof.
  intros r to s H Hk. apply g_switch_frame. rewrite assigned_is_documented; assumption.
Qed.

Lemma color_eta : forall T (c : color4 T), mkcolor (c0 c) (c1 c) (c2 c) (c3 c) = c.
Proof. intros T [a b c d]. reflexivity. Qed.

(* switching TO raw units: the registers now hold what `set` would have computed, so the
   transmitted colour and duration are bit for bit the same -- for all register contents *)
Theorem switch_to_raw_preserves : forall r : regs float,
  set_transmits (switch r RAW) = set_transmits r.
Proof.
  intros [h s b k rd gr bl d t m]. unfold set_transmits, switch, g_switch, get_color; simpl.
  destruct m; simpl; try reflexivity; unfold transmit, g_transmit; simpl;
    unfold g_wire_color, g_machine_color, g_as_raw_color; simpl; rewrite color_eta; reflexivity.
Qed.

(* raw -> logical, all integer raw registers (the 65 536 values of each colour component, 2^18
   millisecond durations): the same colour (hue 65535 = 0) and duration are transmitted *)
Definition raw_regs (h s b k d t : Z) (rd gr bl : float) : regs float :=
  mkregs (z2f h) (z2f s) (z2f b) (z2f k) rd gr bl (z2f d) (z2f t) RAW.

Theorem switch_preserves_transmission_raw65536 : forall h s b k d t rd gr bl,
  0 <= h <= 65535 -> 0 <= s <= 65535 -> 0 <= b <= 65535 -> 0 <= k <= 65535 -> 0 <= d < 262144 ->
  set_transmits (raw_regs h s b k d t rd gr bl) = mksent (Some (mkcolor h s b k)) None d /\
  set_transmits (switch (raw_regs h s b k d t rd gr bl) LOGICAL)
    = mksent (Some (mkcolor (hue_norm h) s b k)) None d.
Proof.
  intros h s b k d t rd gr bl Hh Hs Hb Hk Hd. split.
  - unfold set_transmits, raw_regs, get_color, transmit, g_transmit; simpl.
    unfold g_wire_color, g_machine_color, g_as_raw_color, g_wire_duration, g_machine_duration, g_as_raw_time; simpl.
    unfold param_color, cmap; simpl.
    destruct (ints_pass_65536 h Hh) as [-> _]. destruct (ints_pass_65536 s Hs) as [-> _].
    destruct (ints_pass_65536 b Hb) as [-> _]. destruct (ints_pass_65536 k Hk) as [-> _].
    destruct (roundtrip_time_262144 d Hd) as [_ Hd32].
    rewrite Hd32. reflexivity.
  - unfold set_transmits, switch, g_switch, raw_regs, get_color; simpl.
    unfold transmit, g_transmit; simpl.
    unfold g_wire_color, g_machine_color, g_as_raw_color, g_wire_duration, g_machine_duration, g_as_raw_time; simpl.
    cbv beta iota delta [g_get_color g_store_color set_mode map_times r_mode r_hue r_saturation r_brightness
                         r_kelvin r_red r_green r_blue r_duration r_time].
    rewrite color_eta.
    rewrite (roundtrip_raw_logical_raw h s b k Hh Hs Hb Hk).
    destruct (roundtrip_time_262144 d Hd) as [-> _]. reflexivity.
Qed.
