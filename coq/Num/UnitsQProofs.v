(* Exact-arithmetic (Q) correctness of the conversions: the translated formulas, read as real
   arithmetic (Gen/..._Q), send the nearest integer of the exact value of Num/UnitsQ.v, clamped
   exactly when that value is out of range.  All statements in this file are over Q. *)
From Coq Require Import ZArith QArith Qround Qabs Bool Lia Lqa.
From Bardolph Require Export Num.QBasicsProofs.
From Bardolph Require Import Base.PyNum Num.UnitsQ Gen.ParamGen Gen.ColorsysGen Gen.UnitsGen
     Gen.MachineUnitsGen Num.UnitsFloat.
Open Scope Q_scope.

(* ---------------------------------------------------------------- clamping *)

Definition clamp_round_Q (hi : Z) (x : Q) : Z := py_round_Q (py_max_Q (z2q 0) (py_min_Q x (z2q hi))).

Lemma clamp_round_Q_spec : forall hi q, (0 <= hi)%Z -> nearest_clamped 0 hi q (clamp_round_Q hi q).
Proof.
  intros hi q Hhi. unfold nearest_clamped, clamp_round_Q, py_max_Q, py_min_Q, z2q.
  assert (Hh : inject_Z 0 <= inject_Z hi) by (rewrite <- Zle_Qle; exact Hhi).
  destruct (Qltb (inject_Z hi) q) eqn:E1.
  - (* above the range *)
    apply Qltb_true in E1. right; left. split; [exact E1 |].
    destruct (Qltb (inject_Z 0) (inject_Z hi)) eqn:E2.
    + apply py_round_Q_int.
    + apply Qltb_false in E2. rewrite <- Zle_Qle in E2. assert (hi = 0%Z) by lia. subst.
      apply py_round_Q_int.
  - apply Qltb_false in E1.
    destruct (Qltb (inject_Z 0) q) eqn:E2.
    + apply Qltb_true in E2. right; right. change (inject_Z 0) with 0 in *.
      repeat split; try lra. apply py_round_Q_nearest.
    + apply Qltb_false in E2. rewrite py_round_Q_int. change (inject_Z 0) with 0 in *.
      destruct (Qlt_le_dec q 0) as [Hneg | Hpos].
      * left. split; [exact Hneg | reflexivity].
      * right; right. repeat split; try lra.
        apply Qabs_Qle_condition. split; lra.
Qed.

Lemma param_16_Q_spec : forall q, nearest_clamped 0 65535 q (param_16_Q q).
Proof. intro q. apply (clamp_round_Q_spec 65535). lia. Qed.

Lemma param_32_Q_spec : forall q, nearest_clamped 0 4294967295 q (param_32_Q q).
Proof. intro q. apply (clamp_round_Q_spec 4294967295). lia. Qed.

Lemma param_8_Q_spec : forall q, nearest_clamped 0 255 q (param_8_Q q).
Proof. intro q. apply (clamp_round_Q_spec 255). lia. Qed.

Lemma nearest_clamped_range : forall lo hi q n, (lo <= hi)%Z -> nearest_clamped lo hi q n -> (lo <= n <= hi)%Z.
Proof.
  intros lo hi q n Hlh [[_ ->] | [[_ ->] | [H1 [H2 H3]]]]; try lia.
  apply Qabs_Qle_condition in H3. destruct H3 as [A B].
  assert (P : inject_Z lo - 1 < inject_Z n) by lra.
  assert (R : inject_Z n < inject_Z hi + 1) by lra.
  change 1 with (inject_Z 1) in P, R. rewrite <- inject_Z_plus in R.
  unfold Qminus in P. rewrite <- inject_Z_opp, <- inject_Z_plus in P.
  rewrite <- Zlt_Qlt in P, R. lia.
Qed.

Lemma param_16_Q_range : forall q, (0 <= param_16_Q q <= 65535)%Z.
Proof. intro q. apply (nearest_clamped_range 0 65535 q); [lia | apply param_16_Q_spec]. Qed.

Lemma param_32_Q_range : forall q, (0 <= param_32_Q q <= 4294967295)%Z.
Proof. intro q. apply (nearest_clamped_range 0 4294967295 q); [lia | apply param_32_Q_spec]. Qed.

Lemma param_16_Q_comp : forall a b, a == b -> param_16_Q a = param_16_Q b.
Proof.
  intros a b H. unfold param_16_Q, py_max_Q, py_min_Q.
  rewrite (Qltb_comp (z2q 65535) (z2q 65535) a b) by (rewrite ?H; reflexivity).
  destruct (Qltb (z2q 65535) b); [reflexivity |].
  rewrite (Qltb_comp (z2q 0) (z2q 0) a b) by (rewrite ?H; reflexivity).
  destruct (Qltb (z2q 0) b); [apply py_round_Q_comp; exact H | reflexivity].
Qed.

Lemma param_16_Q_int : forall n, (0 <= n <= 65535)%Z -> param_16_Q (inject_Z n) = n.
Proof.
  intros n Hn. unfold param_16_Q, py_max_Q, py_min_Q, z2q.
  assert (A : Qltb (inject_Z 65535) (inject_Z n) = false) by (apply Qltb_false; rewrite <- Zle_Qle; lia).
  rewrite A.
  destruct (Qltb (inject_Z 0) (inject_Z n)) eqn:B.
  - apply py_round_Q_int.
  - apply Qltb_false in B. rewrite <- Zle_Qle in B. assert (n = 0%Z) by lia. subst. apply py_round_Q_int.
Qed.

Lemma param_32_Q_int : forall n, (0 <= n <= 4294967295)%Z -> param_32_Q (inject_Z n) = n.
Proof.
  intros n Hn. unfold param_32_Q, py_max_Q, py_min_Q, z2q.
  assert (A : Qltb (inject_Z 4294967295) (inject_Z n) = false) by (apply Qltb_false; rewrite <- Zle_Qle; lia).
  rewrite A.
  destruct (Qltb (inject_Z 0) (inject_Z n)) eqn:B.
  - apply py_round_Q_int.
  - apply Qltb_false in B. rewrite <- Zle_Qle in B. assert (n = 0%Z) by lia. subst. apply py_round_Q_int.
Qed.

Lemma param_16_Q_idem : forall x : Q, param_16_Q (z2q (param_16_Q x)) = param_16_Q x.
Proof. intro x. apply param_16_Q_int. apply param_16_Q_range. Qed.

Lemma param_32_Q_idem : forall x : Q, param_32_Q (z2q (param_32_Q x)) = param_32_Q x.
Proof. intro x. apply param_32_Q_int. apply param_32_Q_range. Qed.

(* ---------------------------------------------------------------- the conversions *)

Lemma EPSILON_Q_val : EPSILON_Q == 1 # 131072.
Proof. reflexivity. Qed.

(* durations and delays: seconds * 1000 *)
Theorem time_nearest : forall d, nearest_clamped 0 4294967295 (ms_exact d) (param_32_Q (time_raw_Q d)).
Proof. intro d. apply param_32_Q_spec. Qed.

(* raw-unit values and kelvin pass through unscaled *)
Theorem raw_passthrough : forall q, nearest_clamped 0 65535 q (param_16_Q q).
Proof. exact param_16_Q_spec. Qed.

(* saturation and brightness: percent / 100 * 65535 *)
Theorem pct_nearest : forall p, nearest_clamped 0 65535 (pct_exact p) (param_16_Q (pct_to_raw_Q p)).
Proof.
  intro p. unfold pct_to_raw_Q.
  pose proof EPSILON_Q_val as He.
  destruct (Qltb (Qopp EPSILON_Q) p && Qltb p EPSILON_Q) eqn:E.
  - apply andb_prop in E. destruct E as [E1 E2]. apply Qltb_true in E1, E2.
    change (param_16_Q (Qmake 0 1)) with (param_16_Q (inject_Z 0)). rewrite param_16_Q_int by lia.
    unfold nearest_clamped, pct_exact. qconst.
    destruct (Qlt_le_dec p 0) as [Hn | Hp].
    + left. split; [| reflexivity]. lra.
    + right; right. repeat split; try lra. apply Qabs_Qle_condition. split; lra.
  - apply param_16_Q_spec.
Qed.

Lemma hue_equiv_refl : forall n, hue_equiv n n.
Proof. intro n. left. reflexivity. Qed.

(* hue: (degrees mod 360) / 360 * 65535, with 0 and 65535 the same angle *)
Theorem hue_nearest_thm : forall (c : color4 Q),
  hue_nearest (hue_exact (c0 c)) (c0 (param_color_Q (logical_to_raw_Q c))).
Proof.
  intro c. unfold param_color_Q, logical_to_raw_Q, cmap; simpl c0.
  set (h := c0 c).
  pose proof EPSILON_Q_val as He.
  match goal with |- context [if ?b then _ else _] => destruct b eqn:E end.
  - (* within 1/131072 of 0 or of 360 degrees: sent as 0 *)
    change (param_16_Q (Qmake 0 1)) with (param_16_Q (inject_Z 0)). rewrite param_16_Q_int by lia.
    unfold hue_nearest, hue_exact.
    apply orb_prop in E. destruct E as [E | E]; apply andb_prop in E; destruct E as [E1 E2];
      apply Qltb_true in E1, E2; unfold z2q in *; unfold inject_Z in *.
    + destruct (Qlt_le_dec h 0) as [Hn | Hp].
      * (* just below 0: the exact value is just below 65535 *)
        exists 65535%Z. split; [right; left; split; reflexivity |].
        assert (M : qmod h 360 == h + 360).
        { rewrite (qmod_shift h 360 (-1)); unfold inject_Z; lra. }
        unfold nearest_clamped. right; right. rewrite M. qconst. unfold inject_Z.
        repeat split; try lra. apply Qabs_Qle_condition. split; lra.
      * exists 0%Z. split; [apply hue_equiv_refl |].
        assert (M : qmod h 360 == h) by (apply qmod_small; lra).
        unfold nearest_clamped. right; right. rewrite M. qconst. unfold inject_Z.
        repeat split; try lra. apply Qabs_Qle_condition. split; lra.
    + destruct (Qlt_le_dec h 360) as [Hn | Hp].
      * exists 65535%Z. split; [right; left; split; reflexivity |].
        assert (M : qmod h 360 == h) by (apply qmod_small; lra).
        unfold nearest_clamped. right; right. rewrite M. qconst. unfold inject_Z.
        repeat split; try lra. apply Qabs_Qle_condition. split; lra.
      * exists 0%Z. split; [apply hue_equiv_refl |].
        assert (M : qmod h 360 == h - 360).
        { rewrite (qmod_shift h 360 1); unfold inject_Z; lra. }
        unfold nearest_clamped. right; right. rewrite M. qconst. unfold inject_Z.
        repeat split; try lra. apply Qabs_Qle_condition. split; lra.
  - (* the general case: the translated formula is the exact one *)
    exists (param_16_Q (py_fmod_Q h (Qmake 360 1) / Qmake 360 1 * Qmake 65535 1)).
    split; [apply hue_equiv_refl |]. apply param_16_Q_spec.
Qed.

(* ---------------------------------------------------------------- whole colours vs the spec *)

Lemma meets_nearest : forall q n, nearest_clamped 0 65535 q n -> meets (want16 q) n.
Proof.
  intros q n H. split.
  - apply (nearest_clamped_range 0 65535 q n); [lia | exact H].
  - right; right. split; [reflexivity | exact H].
Qed.

Lemma hue_nearest_range : forall q n, hue_nearest q n -> (0 <= n <= 65535)%Z.
Proof.
  intros q n [n' [He Hn]].
  pose proof (nearest_clamped_range 0 65535 q n' ltac:(lia) Hn).
  destruct He as [-> | [[-> _] | [-> _]]]; lia.
Qed.

Lemma meets_hue : forall q n, hue_nearest q n -> meets (want_hue q false) n.
Proof.
  intros q n H. split.
  - apply (hue_nearest_range q n H).
  - right; left. split; [reflexivity | exact H].
Qed.

(* logical units: what `set` sends meets the specification, for all register contents *)
Theorem logical_meets_spec : forall c : color4 Q,
  color_meets (spec_color SLogical c) (canonical_color_Q LOGICAL c).
Proof.
  intro c. unfold color_meets, spec_color, canonical_color_Q, as_raw_color_Q, g_as_raw_color.
  simpl c0; simpl c1; simpl c2; simpl c3.
  split; [| split; [| split]].
  - apply meets_hue. apply hue_nearest_thm.
  - apply meets_nearest. apply (pct_nearest (c1 c)).
  - apply meets_nearest. apply (pct_nearest (c2 c)).
  - apply meets_nearest. apply param_16_Q_spec.
Qed.

(* raw units: every component is passed through *)
Theorem raw_meets_spec : forall c : color4 Q,
  color_meets (spec_color SRaw c) (canonical_color_Q RAW c).
Proof.
  intro c. unfold color_meets, spec_color, canonical_color_Q, as_raw_color_Q, g_as_raw_color, param_color_Q, cmap.
  simpl c0; simpl c1; simpl c2; simpl c3.
  split; [| split; [| split]]; try (apply meets_nearest; apply param_16_Q_spec).
  apply meets_hue. exists (param_16_Q (c0 c)). split; [apply hue_equiv_refl | apply param_16_Q_spec].
Qed.

Theorem duration_meets_spec : forall m d,
  meets (spec_duration (match m with LOGICAL => SLogical | RAW => SRaw | RGB => SRgb end) d)
        (canonical_duration_Q m d).
Proof.
  intros m d. unfold canonical_duration_Q, as_raw_time_Q, g_as_raw_time, spec_duration.
  split; simpl.
  - destruct m; apply param_32_Q_range.
  - right; right. split; [reflexivity |]. destruct m; simpl; apply param_32_Q_spec.
Qed.
