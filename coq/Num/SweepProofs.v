(* The finite sweeps lifted to universally quantified statements (Range.all_range_spec).
   All statements here are bit-exact over binary64. *)
From Coq Require Import ZArith Bool Lia PrimFloat.
From Bardolph Require Import Base.PyNum Base.Range Gen.ParamGen Gen.ColorsysGen Gen.UnitsGen
     Num.SweepDefs Num.SweepHueProofs Num.SweepSatProofs Num.SweepBriProofs Num.SweepKelProofs
     Num.SweepIntProofs Num.SweepTime0Proofs Num.SweepTime1Proofs Num.SweepTime2Proofs Num.SweepTime3Proofs.
Open Scope Z_scope.

Ltac lift n f H := intros r Hr; pose proof (all_range_spec n 0 f H r ltac:(lia)) as Hs.

Theorem roundtrip_hue_65536 : forall r, 0 <= r <= 65535 -> param_16 (rt_hue (z2f r)) = hue_norm r.
Proof. lift 65536%positive hue_ok sweep_hue_true. apply Z.eqb_eq in Hs. exact Hs. Qed.

Theorem roundtrip_sat_65536 : forall r, 0 <= r <= 65535 -> param_16 (rt_sat (z2f r)) = r.
Proof. lift 65536%positive sat_ok sweep_sat_true. apply Z.eqb_eq in Hs. exact Hs. Qed.

Theorem roundtrip_bri_65536 : forall r, 0 <= r <= 65535 -> param_16 (rt_bri (z2f r)) = r.
Proof. lift 65536%positive bri_ok sweep_bri_true. apply Z.eqb_eq in Hs. exact Hs. Qed.

Theorem roundtrip_kel_65536 : forall r, 0 <= r <= 65535 -> param_16 (rt_kel (z2f r)) = r.
Proof. lift 65536%positive kel_ok sweep_kel_true. apply Z.eqb_eq in Hs. exact Hs. Qed.

Theorem ints_pass_65536 : forall r, 0 <= r <= 65535 ->
  param_16 (z2f r) = r /\ py_round (z2f r) = r /\ param_32 (z2f r) = r.
Proof.
  lift 65536%positive int_ok sweep_int_true. unfold int_ok in Hs. apply andb_prop in Hs. destruct Hs as [Hs H3].
  apply andb_prop in Hs. destruct Hs as [H1 H2].
  apply Z.eqb_eq in H1, H2, H3. auto.
Qed.

Theorem roundtrip_time_262144 : forall d, 0 <= d < 262144 ->
  param_32 (time_raw (time_logical (z2f d))) = d /\ param_32 (z2f d) = d.
Proof.
  intros r Hr.
  assert (Hs : time_ok r = true).
  { destruct (Z_lt_ge_dec r 65536); [apply (all_range_spec _ _ _ sweep_time0_true r); lia |].
    destruct (Z_lt_ge_dec r 131072); [apply (all_range_spec _ _ _ sweep_time1_true r); lia |].
    destruct (Z_lt_ge_dec r 196608); [apply (all_range_spec _ _ _ sweep_time2_true r); lia |].
    apply (all_range_spec _ _ _ sweep_time3_true r); lia. }
  unfold time_ok in Hs.
  apply andb_prop in Hs. destruct Hs as [H1 H2]. apply Z.eqb_eq in H1, H2. auto.
Qed.

(* components of the round trip depend on their own component only *)
Lemma rt_components : forall a b c d,
  rt_color (mkcolor a b c d) = mkcolor (rt_hue a) (rt_sat b) (rt_bri c) (rt_kel d).
Proof. reflexivity. Qed.

(* A raw colour read from a light, expressed in logical units (`get`), converts back to the
   same raw colour when set: all 65536^4 raw colours. *)
Theorem roundtrip_raw_logical_raw : forall r0 r1 r2 k,
  0 <= r0 <= 65535 -> 0 <= r1 <= 65535 -> 0 <= r2 <= 65535 -> 0 <= k <= 65535 ->
  param_color (logical_to_raw (raw_to_logical (mkcolor (z2f r0) (z2f r1) (z2f r2) (z2f k))))
  = mkcolor (hue_norm r0) r1 r2 k.
Proof.
  intros r0 r1 r2 k H0 H1 H2 H3.
  change (logical_to_raw (raw_to_logical ?c)) with (rt_color c).
  rewrite rt_components. unfold param_color, cmap; simpl.
  rewrite roundtrip_hue_65536, roundtrip_sat_65536, roundtrip_bri_65536, roundtrip_kel_65536 by assumption.
  reflexivity.
Qed.
