(* Components of the raw -> logical -> raw round trip as functions of one raw component, so that
   the 65 536-point sweeps can be run per component.  No proofs here. *)
From Coq Require Import ZArith Bool PrimFloat.
From Bardolph Require Import Base.PyNum Base.Range Gen.ParamGen Gen.ColorsysGen Gen.UnitsGen.
Open Scope Z_scope.

Definition rt_color (c : color4 float) : color4 float := logical_to_raw (raw_to_logical c).
Definition rt_hue (x : float) : float := c0 (rt_color (mkcolor x x x x)).
Definition rt_sat (x : float) : float := c1 (rt_color (mkcolor x x x x)).
Definition rt_bri (x : float) : float := c2 (rt_color (mkcolor x x x x)).
Definition rt_kel (x : float) : float := c3 (rt_color (mkcolor x x x x)).

(* hue 65535 and hue 0 are the same angle *)
Definition hue_norm (r : Z) : Z := if r =? 65535 then 0 else r.

Definition hue_ok (r : Z) : bool := param_16 (rt_hue (z2f r)) =? hue_norm r.
Definition sat_ok (r : Z) : bool := param_16 (rt_sat (z2f r)) =? r.
Definition bri_ok (r : Z) : bool := param_16 (rt_bri (z2f r)) =? r.
Definition kel_ok (r : Z) : bool := param_16 (rt_kel (z2f r)) =? r.
Definition int_ok (r : Z) : bool :=
  (param_16 (z2f r) =? r) && (py_round (z2f r) =? r) && (param_32 (z2f r) =? r).
(* raw -> logical -> raw on durations and delays: 2^18 integer millisecond values *)
Definition time_ok (d : Z) : bool :=
  (param_32 (time_raw (time_logical (z2f d))) =? d) && (param_32 (z2f d) =? d).
