(* Model of the unit-related registers (Registers.get_color / store_color), of
   Machine._switch_unit_mode, and of what a following `set` / wait transmits.  Generic in
   the numeric type; instantiated over binary64 and over exact rationals.  Follows the
   texts recorded by shape_Registers_*, shape_Machine_switch_unit_mode,
   shape_convert_units_fn_lookup in Gen/MachineUnitsGen.v.  No proofs here. *)
From Coq Require Import ZArith QArith Bool List PrimFloat.
From Bardolph Require Import Base.PyNum Num.UnitsQ Gen.ParamGen Gen.ColorsysGen Gen.UnitsGen Gen.MachineUnitsGen Num.UnitsFloat.
Import ListNotations.
Close Scope Q_scope.
Open Scope Z_scope.

Record regs (T : Type) : Type := mkregs {
  r_hue : T; r_saturation : T; r_brightness : T; r_kelvin : T;
  r_red : T; r_green : T; r_blue : T;
  r_duration : T; r_time : T;
  r_mode : unit_mode }.
Arguments mkregs {T}.
Arguments r_hue {T}. Arguments r_saturation {T}. Arguments r_brightness {T}. Arguments r_kelvin {T}.
Arguments r_red {T}. Arguments r_green {T}. Arguments r_blue {T}.
Arguments r_duration {T}. Arguments r_time {T}. Arguments r_mode {T}.

Definition to_smode (m : unit_mode) : smode :=
  match m with LOGICAL => SLogical | RAW => SRaw | RGB => SRgb end.

Definition get_setting {T} (s : setting) (r : regs T) : T :=
  match s with
  | S_time => r_time r | S_duration => r_duration r
  | S_hue => r_hue r | S_saturation => r_saturation r | S_brightness => r_brightness r
  | S_red => r_red r | S_green => r_green r | S_blue => r_blue r | S_kelvin => r_kelvin r
  end.

(* the documentation's table (Num/UnitsQ.doc_rewritten) on the generated mode type *)
Definition documented_rewrite (from to : unit_mode) (s : setting) : bool :=
  doc_rewritten (to_smode from) (to_smode to) s.

(* which settings the implementation assigns (kelvin is assigned too -- with the value the
   converter returns for it -- so that it is "not altered" only if that value is the old one) *)
Definition assigned (from to : unit_mode) (s : setting) : bool :=
  if unit_mode_eqb from to then false
  else match s with
       | S_hue | S_saturation | S_brightness => negb (unit_mode_eqb to RGB)
       | S_red | S_green | S_blue => unit_mode_eqb to RGB
       | S_kelvin => true
       | S_time | S_duration => unit_mode_eqb to RAW || unit_mode_eqb from RAW
       end.

Section Switch.
  Variable T : Type.
  Variable v_apply_conv : conv -> color4 T -> color4 T.
  Variables (v_time_raw v_time_logical : T -> T).

  Definition g_get_color (r : regs T) : color4 T :=
    match r_mode r with
    | RGB => mkcolor (r_red r) (r_green r) (r_blue r) (r_kelvin r)
    | _ => mkcolor (r_hue r) (r_saturation r) (r_brightness r) (r_kelvin r)
    end.

  Definition g_store_color (r : regs T) (c : color4 T) : regs T :=
    match r_mode r with
    | RGB => mkregs (r_hue r) (r_saturation r) (r_brightness r) (c3 c) (c0 c) (c1 c) (c2 c)
                    (r_duration r) (r_time r) (r_mode r)
    | _ => mkregs (c0 c) (c1 c) (c2 c) (c3 c) (r_red r) (r_green r) (r_blue r)
                  (r_duration r) (r_time r) (r_mode r)
    end.

  Definition set_mode (r : regs T) (m : unit_mode) : regs T :=
    mkregs (r_hue r) (r_saturation r) (r_brightness r) (r_kelvin r) (r_red r) (r_green r) (r_blue r)
           (r_duration r) (r_time r) m.

  Definition map_times (f : T -> T) (r : regs T) : regs T :=
    mkregs (r_hue r) (r_saturation r) (r_brightness r) (r_kelvin r) (r_red r) (r_green r) (r_blue r)
           (f (r_duration r)) (f (r_time r)) (r_mode r).

  (* Machine._switch_unit_mode; a missing table entry is a KeyError in Python: the model
     leaves the registers alone and the correspondence runs would show the difference.
     The time register is a number here; a time-of-day pattern in it (`time at ...`) is not
     a number and is outside this model -- both accepted texts of the method (with and without
     the isinstance(..., TimePattern) guard) do the same on numbers. *)
  Definition g_switch (r : regs T) (to : unit_mode) : regs T :=
    let from := r_mode r in
    if unit_mode_eqb from to then r
    else
      let original := g_get_color r in
      let r1 := set_mode r to in
      match machine_convert_units_fn from to with
      | None => r
      | Some cv =>
          let r2 := g_store_color r1 (v_apply_conv cv original) in
          if unit_mode_eqb to RAW then map_times v_time_raw r2
          else if unit_mode_eqb from RAW then map_times v_time_logical r2
          else r2
      end.

  Definition g_switch_chain (r : regs T) (l : list unit_mode) : regs T := fold_left g_switch l r.
End Switch.

Definition get_color := g_get_color float.
Definition switch := g_switch float apply_conv time_raw time_logical.
Definition switch_chain := g_switch_chain float apply_conv time_raw time_logical.
Definition get_color_Q := g_get_color Q.
Definition switch_Q := g_switch Q apply_conv_Q time_raw_Q time_logical_Q.
Definition switch_chain_Q := g_switch_chain Q apply_conv_Q time_raw_Q time_logical_Q.

(* what `set "light"` (colour, duration) and the wait before it (pause in seconds) hand over *)
Definition set_transmits (r : regs float) : sent := transmit K_light (r_mode r) (get_color r) false (r_duration r).
Definition set_transmits_Q (r : regs Q) : sent := transmit_Q K_light (r_mode r) (get_color_Q r) false (r_duration r).
Definition pending_wait (r : regs float) : option float := wait_seconds (r_mode r) (r_time r).
Definition pending_wait_Q (r : regs Q) : option Q := wait_seconds_Q (r_mode r) (r_time r).
