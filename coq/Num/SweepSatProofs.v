(* Finite PrimFloat sweep by reflection (vm_compute), one file per sweep so that they build in
   parallel. *)
From Coq Require Import ZArith Bool.
From Bardolph Require Import Base.Range Num.SweepDefs.
Open Scope Z_scope.
Lemma sweep_sat_true : all_range 65536 0 sat_ok = true.
Proof. vm_compute. reflexivity. Qed.
