(* C04 -- every repeat form runs the documented number of times with the documented values.
   Statements only; proofs in Lang/Loops.v.  The statements are about the reference
   semantics (Lang/Sem.v), which the implementation is compared with on every run. *)
From Coq Require Import ZArith String List Bool QArith Sorted.
From Bardolph Require Import Gen.Codes Lang.Value Lang.Instr Lang.Loader Lang.World Lang.Regs Lang.Machine Lang.Syntax Lang.Sem Lang.CodeGen
  Lang.Loops Lang.ExprCompile Lang.Simulation Lang.CallFrames Lang.RangeLoop Lang.CountWith Lang.LightScan Lang.LightLoop Lang.Simulation3.
Import ListNotations.
Open Scope Z_scope.

(* `repeat n`: a body that completes normally is run exactly n times (n was evaluated once,
   before the loop), for every n and every start state. *)
Theorem C04_counted_runs_n : forall rt mt m body f0 B, body_total rt mt m body f0 B ->
  forall (n : nat) f s, (f0 + n + 1 <= f)%nat ->
  iterate rt mt f m s None (Some (VInt (Z.of_nat n))) None None body = ROk SigNormal (Nat.iter n B s).
Proof. exact counted_runs_n. Qed.
Print Assumptions C04_counted_runs_n.

Theorem C04_counted_zero : forall rt mt m body f s n, n <= 0 ->
  iterate rt mt (S f) m s None (Some (VInt n)) None None body = ROk SigNormal s.
Proof. exact counted_zero. Qed.
Print Assumptions C04_counted_zero.

(* `repeat with v from a to b`: count |b - a| + 1, step +-1; v takes each integer from a to b
   in order, either direction, and nothing outside [min a b, max a b]. *)
Theorem C04_range_prep : forall a b,
  (do y' <- pushable (VInt b); do x' <- pushable (VInt a);
   do d <- eval_binop OP_SUB y' x';
   do neg <- ordering CLt d (VInt 0);
   do cnt0 <- (if truthy neg then eval_binop OP_MUL d (VInt (-1)) else Ok d);
   do cnt <- eval_binop OP_ADD cnt0 (VInt 1);
   Ok (cnt, if truthy neg then VInt (-1) else VInt 1))
  = Ok (VInt (range_count a b), VInt (range_incr a b)).
Proof. exact Loops.range_prep. Qed.
Print Assumptions C04_range_prep.

Theorem C04_range_values_are_a_to_b : forall a b,
  let n := Z.to_nat (range_count a b) in
  let vals := int_values a (range_incr a b) n in
  length vals = n /\ nth 0 vals 0 = a /\ nth (n - 1) vals 0 = b /\
  (forall k, (S k < n)%nat -> nth (S k) vals 0 - nth k vals 0 = range_incr a b) /\
  (forall k, (k < n)%nat -> Z.min a b <= nth k vals 0 <= Z.max a b).
Proof. exact range_values_are_a_to_b. Qed.
Print Assumptions C04_range_values_are_a_to_b.

(* `repeat n with v from a to b` (exact arithmetic): n evenly spaced values including both
   ends; `... with v cycle s`: s + k * turn / n for k = 0 .. n-1. *)
Theorem C04_interpolation_includes_both_ends : forall (a b : Q) (n : nat), (2 <= n)%nat ->
  let incr := ((b - a) / inject_Z (Z.of_nat n - 1))%Q in
  (nth 0 (q_values a incr n) 0 == a)%Q /\ (nth (n - 1) (q_values a incr n) 0 == b)%Q.
Proof. exact interpolation_includes_both_ends. Qed.
Print Assumptions C04_interpolation_includes_both_ends.

Theorem C04_values_evenly_spaced : forall a incr n k, (k < n)%nat ->
  (nth k (q_values a incr n) 0 == a + inject_Z (Z.of_nat k) * incr)%Q.
Proof. exact q_values_nth. Qed.
Print Assumptions C04_values_evenly_spaced.

Theorem C04_cycle_values_closed_form : forall (s turn : Q) (n : nat), (1 <= n)%nat ->
  let incr := (turn / inject_Z (Z.of_nat n))%Q in
  forall k, (k < n)%nat -> (nth k (q_values s incr n) 0 == s + inject_Z (Z.of_nat k) * turn / inject_Z (Z.of_nat n))%Q.
Proof. exact cycle_values_closed_form. Qed.
Print Assumptions C04_cycle_values_closed_form.

(* `repeat while c` re-tests c before every pass. *)
Theorem C04_while_false_ends : forall rt mt f m s c x s1 body,
  eval_rval rt mt f m s c = ROk x s1 -> truthy x = false ->
  iterate rt mt (S f) m s (Some c) None None None body = ROk SigNormal s1.
Proof. exact while_false_ends. Qed.
Print Assumptions C04_while_false_ends.

Theorem C04_while_true_runs_body_then_retests : forall rt mt f m s c x s1 body s2,
  eval_rval rt mt f m s c = ROk x s1 -> truthy x = true ->
  Sem.exec rt mt f m s1 body = ROk SigNormal s2 ->
  iterate rt mt (S f) m s (Some c) None None None body = iterate rt mt f m s2 (Some c) None None None body.
Proof. exact while_true_runs_body_then_retests. Qed.
Print Assumptions C04_while_true_runs_body_then_retests.

(* `break` ends the innermost loop, whichever kind, and only it: the loop statement itself
   completes normally, so an enclosing loop or statement list goes on. *)
Theorem C04_break_ends_innermost_only : forall rt mt f m s cond cnt idx lights body s1,
  (match cond, cnt with
   | Some c, _ => sbind (eval_rval rt mt f m s c) (fun x sa => ROk (truthy x) sa)
   | None, Some n => lift_res (positive n) s
   | None, None => ROk true s
   end) = ROk true s1 ->
  forall s2 lights', (s2, lights') = match lights with
                                     | Some (x, v :: r) => (assign s1 x v, Some (x, r))
                                     | Some (x, []) => (assign s1 x VNone, Some (x, []))
                                     | None => (s1, None)
                                     end ->
  forall s3, Sem.exec rt mt f m s2 body = ROk SigBreak s3 ->
  iterate rt mt (S f) m s cond cnt idx lights body = ROk SigNormal s3.
Proof. exact break_ends_innermost_only. Qed.
Print Assumptions C04_break_ends_innermost_only.

(* Light loops bind the variable to each name exactly once, in name order: the name lists
   are strictly sorted (hence duplicate free) and name exactly the known lights; member
   lists of groups and locations likewise, and they are never empty. *)
Theorem C04_light_names_each_once : forall w,
  StronglySorted str_lt (light_names w) /\ NoDup (light_names w) /\
  (forall n, In n (light_names w) <-> exists l, In l w /\ l_name l = n).
Proof. exact light_names_each_once. Qed.
Print Assumptions C04_light_names_each_once.

Theorem C04_members_each_once : forall sel w g names,
  members sel w g = Some names -> StronglySorted str_lt names /\ NoDup names /\ names <> [].
Proof. exact members_each_once. Qed.
Print Assumptions C04_members_each_once.

(* The compiled loop, not only the reference semantics: for `repeat with v from a to b` whose bounds are ordinary values and whose
   body is made of the covered statements (Lang/Simulation3.v: conditionals, blocks, loops, break, calls, return), anywhere in a
   loaded image, inside a routine or not, the machine running LOOP; first; last; the count and increment arithmetic; the test;
   the body; the count-down and the step of the variable; END_LOOP ends where the source says with the events the source says:
   behind the loop when it ends or is broken out of, behind the call when the body returns.  The statement [Sem.exec ... = ROk sig ss']
   is the reference run whose count and values the theorems above describe. *)
Theorem C04_range_loop_compiled_runs_as_its_source_says :
  forall rt mt, bodies_ok rt mt -> forall (inr : bool) v a b body, plain_rval mt a = true -> plain_rval mt b = true -> SimpleB rt mt true inr body ->
  forall after im ss s sig ss' fuel, routines_loaded rt mt im -> in_ret_ok inr (m_frames s) ->
  in_depth_ok inr s -> sim ss s ->
  code_at im (m_pc s) (c_stmt rt mt false after (SRepeat (LRange v a b) body)) ->
  Sem.exec rt mt fuel false ss (SRepeat (LRange v a b) body) = ROk sig ss' ->
  outcome inr after im ss s sig ss' (c_stmt rt mt false after (SRepeat (LRange v a b) body)).
Proof. exact range_loop_simulation. Qed.
Print Assumptions C04_range_loop_compiled_runs_as_its_source_says.

(* the same for `repeat n with v from a to b` (the preparation code computes the step (b - a) / (n - 1), 0 for a single pass) ... *)
Theorem C04_interpolating_loop_compiled_runs_as_its_source_says :
  forall rt mt, bodies_ok rt mt -> forall (inr : bool) n v a b body, plain_rval mt n = true -> plain_rval mt a = true -> plain_rval mt b = true -> SimpleB rt mt true inr body ->
  forall after im ss s sig ss' fuel, routines_loaded rt mt im -> in_ret_ok inr (m_frames s) ->
  in_depth_ok inr s -> sim ss s ->
  code_at im (m_pc s) (c_stmt rt mt false after (SRepeat (LCountWith n (WRange v a b)) body)) ->
  Sem.exec rt mt fuel false ss (SRepeat (LCountWith n (WRange v a b)) body) = ROk sig ss' ->
  outcome inr after im ss s sig ss' (c_stmt rt mt false after (SRepeat (LCountWith n (WRange v a b)) body)).
Proof. exact interpolating_loop_simulation. Qed.
Print Assumptions C04_interpolating_loop_compiled_runs_as_its_source_says.

(* ... and for `repeat n with v cycle [start]` (the step is a full turn in the current units / n; with n = 0 no step is computed
   and the body never runs) *)
Theorem C04_cycle_loop_compiled_runs_as_its_source_says :
  forall rt mt, bodies_ok rt mt -> forall (inr : bool) n v start body, plain_rval mt n = true -> plain_opt mt start = true -> SimpleB rt mt true inr body ->
  forall after im ss s sig ss' fuel, routines_loaded rt mt im -> in_ret_ok inr (m_frames s) ->
  in_depth_ok inr s -> sim ss s ->
  code_at im (m_pc s) (c_stmt rt mt false after (SRepeat (LCountWith n (WCycle v start)) body)) ->
  Sem.exec rt mt fuel false ss (SRepeat (LCountWith n (WCycle v start)) body) = ROk sig ss' ->
  outcome inr after im ss s sig ss' (c_stmt rt mt false after (SRepeat (LCountWith n (WCycle v start)) body)).
Proof. exact cycle_loop_simulation. Qed.
Print Assumptions C04_cycle_loop_compiled_runs_as_its_source_says.

(* The loops over lights in the compiled code: `repeat all as x`, `repeat group as g`, `repeat location as l` and
   `repeat in <lights, groups, locations joined by and> as x` (the sources are compiled last to first, so the names of the first source end on
   top; a single light is any value, a group or location contributes its members in name order), each with or without a
   `with v from a to b` / `with v cycle [start]` clause, have the shape [light_form]: LOOP; the scan that pushes every name -- DISC
   and DNEXT walk the sorted list from its last name to its first, so the first name ends on top -- and counts them; the `with` code;
   the test of the counter; POP x; the body; the count-down and the step of the `with` variable; END_LOOP ... *)
Theorem C04_repeat_all_is_a_light_loop : forall rt mt x w, plain_with_opt mt w = true ->
  light_form rt mt (LAll x w) x (with_ov rt mt w) (scan_pre rt mt OD_LIGHT (PLoopVar LV_CURRENT) w).
Proof. exact lall_form. Qed.
Print Assumptions C04_repeat_all_is_a_light_loop.
Theorem C04_repeat_group_is_a_light_loop : forall rt mt x w, plain_with_opt mt w = true ->
  light_form rt mt (LGroups x w) x (with_ov rt mt w) (scan_pre rt mt OD_GROUP (PReg R_RESULT) w).
Proof. exact lgroups_form. Qed.
Print Assumptions C04_repeat_group_is_a_light_loop.
Theorem C04_repeat_location_is_a_light_loop : forall rt mt x w, plain_with_opt mt w = true ->
  light_form rt mt (LLocations x w) x (with_ov rt mt w) (scan_pre rt mt OD_LOCATION (PReg R_RESULT) w).
Proof. exact llocations_form. Qed.
Print Assumptions C04_repeat_location_is_a_light_loop.

Theorem C04_repeat_in_is_a_light_loop : forall rt mt srcs x w, forallb (plain_src mt) srcs = true -> plain_with_opt mt w = true ->
  light_form rt mt (LIn srcs x w) x (with_ov rt mt w) (lin_pre rt mt srcs w).
Proof. exact lin_form. Qed.
Print Assumptions C04_repeat_in_is_a_light_loop.

(* ... and every loop of that shape, its body made of the covered statements (it may break or, inside a routine, return: the names not yet
   visited go with the loop frame, END_LOOP and RETURN cut the stack back to where the loop was opened), run on the machine model, binds x to each name exactly once in name order and ends where
   the reference semantics says with the same events -- for every population, the empty one and one with an empty label included. *)
Theorem C04_light_loop_compiled_runs_as_its_source_says :
  forall rt mt, bodies_ok rt mt -> forall (inr : bool) l x ov pre body, light_form rt mt l x ov pre -> SimpleB rt mt true inr body ->
  forall after im ss s sig ss' fuel, routines_loaded rt mt im -> in_ret_ok inr (m_frames s) -> in_depth_ok inr s -> sim ss s ->
  code_at im (m_pc s) (c_stmt rt mt false after (SRepeat l body)) ->
  Sem.exec rt mt fuel false ss (SRepeat l body) = ROk sig ss' ->
  outcome inr after im ss s sig ss' (c_stmt rt mt false after (SRepeat l body)).
Proof. exact light_loop_simulation. Qed.
Print Assumptions C04_light_loop_compiled_runs_as_its_source_says.
