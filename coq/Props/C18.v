(* C18 -- Replaying a captured snapshot script restores the captured light state exactly.
   Statements only; proofs are in Lang/SnapshotProofs.v and Front/LexerProofs.v.
   Lang/Snapshot.v gives the script ScriptSnapshot.generate writes as text (snapshot_text) and as the
   tree it denotes (snapshot_ast), and the device commands the tree means (replay_events); the
   harness checks on every run that the real generator writes snapshot_text, that the parser model
   turns snapshot_text into snapshot_ast's instructions, that the reference semantics runs
   snapshot_ast to replay_events, and that the real machine does the same to the devices. *)
From Coq Require Import ZArith String Ascii List Bool.
From Bardolph Require Import Gen.Codes Lang.Value Lang.World Lang.Syntax Lang.Units0 Lang.Regs Lang.Devices
  Lang.Snapshot Lang.SnapshotProofs Front.Lexer Front.LexerProofs.
Open Scope string_scope.
Open Scope list_scope.
Import ListNotations.
Open Scope Z_scope.

(* for every population with distinct names -- any mix of plain, multizone and matrix lights, any zone
   counts and matrix sizes, any captured values -- and every state q the same devices are in at
   replay time: the commands of the snapshot leave the devices in the captured state p *)
Theorem C18_replay_restores :
  forall p q : population, NoDup (map dv_name p) -> same_shape p q -> apply_events q (replay_events p) = p.
Proof. exact replay_restores. Qed.
Print Assumptions C18_replay_restores.

(* the replay addresses captured devices only *)
Theorem C18_replay_addresses_captured_devices_only :
  forall p e, In e (replay_events p) -> exists d, In d p /\ event_target e = Some (dv_name d).
Proof. exact replay_addresses_exactly. Qed.
Print Assumptions C18_replay_addresses_captured_devices_only.

(* after `units raw`, registers holding captured raw integers are transmitted as they are:
   no conversion from degrees / percentages, no clamping, no rounding *)
Theorem C18_raw_registers_sent_unchanged :
  forall rf h s b k,
    rf_unit_mode rf = Ok UM_RAW ->
    rreg rf R_HUE = VInt h -> rreg rf R_SATURATION = VInt s -> rreg rf R_BRIGHTNESS = VInt b -> rreg rf R_KELVIN = VInt k ->
    0 <= h <= 65535 -> 0 <= s <= 65535 -> 0 <= b <= 65535 -> 0 <= k <= 65535 ->
    sent_color rf = Ok [h; s; b; k].
Proof. exact raw_registers_sent_unchanged. Qed.
Print Assumptions C18_raw_registers_sent_unchanged.

(* whatever characters a light name contains apart from the double quote (a line break cannot
   occur inside a line), "name" followed by the rest of its line is one string token ... *)
Theorem C18_quoted_name_is_one_token :
  forall name rest, no_quote name = true -> no_quote rest = true ->
    alt_string (String.append dq (String.append name (String (ascii_of_nat quote) rest)))
    = Some (String.append dq (String.append name dq), rest).
Proof. exact quoted_string_is_one_token. Qed.
Print Assumptions C18_quoted_name_is_one_token.

(* ... whose content is the name *)
Theorem C18_quoted_name_content :
  forall name, no_quote name = true -> string_content (String.append dq (String.append name dq)) = name.
Proof. exact quoted_string_content. Qed.
Print Assumptions C18_quoted_name_content.

(* for a population of plain lights the snapshot script is a straight-line program, so the forward
   simulation of C01 applies: compiled, loaded and run on the machine model from the initial state it
   finishes with exactly the events the reference semantics gives for the generated tree, whatever
   the names, the captured values and the population at replay time *)
From Bardolph Require Import Lang.Instr Lang.Loader Lang.Machine Lang.Sem Lang.CodeGen Lang.Simulation.
Theorem C18_plain_snapshot_runs_as_its_source_says :
  forall (p : population) (w : world) (fuel : nat) (evs : list event),
    plain_only p = true ->
    run_src fuel (snapshot_ast p) w = SFinished evs ->
    exists k, run_program k (compile (snapshot_ast p)) w = Finished evs.
Proof. exact plain_snapshot_runs_as_its_source_says. Qed.
Print Assumptions C18_plain_snapshot_runs_as_its_source_says.

(* the whole chain for plain lights, in the models: for every population of plain lights with captured raw
   values in range, replayed against any population that still has lights of those names (in any state,
   possibly with more lights): the reference semantics of the generated tree is exactly the replay commands,
   and so is what the compiled script does on the machine model -- and those commands restore the
   captured state (C18_replay_restores) *)
Theorem C18_plain_snapshot_semantics :
  forall (p : population) (w : world) (fuel : nat),
    Forall (good_plain (map l_name w)) p -> (6 * length p + 6 <= fuel)%nat ->
    run_src fuel (snapshot_ast p) w = SFinished (replay_events p ++ [EvFlush]).
Proof. exact plain_snapshot_semantics. Qed.
Print Assumptions C18_plain_snapshot_semantics.

Theorem C18_plain_snapshot_on_the_machine :
  forall (p : population) (w : world),
    plain_only p = true -> Forall (good_plain (map l_name w)) p ->
    exists k, run_program k (compile (snapshot_ast p)) w = Finished (replay_events p ++ [EvFlush]).
Proof. exact plain_snapshot_on_the_machine. Qed.
Print Assumptions C18_plain_snapshot_on_the_machine.

(* the hypotheses are satisfiable and the conclusion is about a real state *)
Example C18_nonvacuous :
  let p := [mkDevice "a b" (DPlain [1; 2; 3; 4] true); mkDevice "m" (DMatrix 1 2 [[5; 6; 7; 8]; [9; 10; 11; 12]]); mkDevice "z" (DMulti [[1; 1; 1; 1]; [2; 2; 2; 2]])] in
  let q := [mkDevice "a b" (DPlain [9; 9; 9; 9] false); mkDevice "m" (DMatrix 1 2 [[0; 0; 0; 0]; [0; 0; 0; 0]]); mkDevice "z" (DMulti [[7; 7; 7; 7]; [7; 7; 7; 7]])] in
  apply_events q (replay_events p) = p.
Proof. reflexivity. Qed.
