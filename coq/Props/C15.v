(* C15 -- zone and row/column addressing hits exactly the addressed cells, once each.
   Statements only; proofs live in Lang/MatrixProofs.v. *)
From Coq Require Import ZArith List Bool.
From Bardolph Require Import Base.PyStr Gen.MatrixShape Lang.MatrixSpec Lang.Matrix Lang.MatrixProofs.
Open Scope Z_scope.

Theorem C15_code_shape_current : shape_matrix_code_modelled = true.
Proof. exact code_shape_current. Qed.
Print Assumptions C15_code_shape_current.
