(* C15 -- zone and row/column addressing hits exactly the addressed cells, once each.
   Statements only; proofs live in Lang/MatrixProofs.v.

   The statements are about the command-level machine of Lang/Matrix.v (the instruction
   templates of parse.py / matrix_parser.py followed by Machine._matrix / _color_matrix /
   _color_matrix_light / _color_mz_light / _color_default / _color_light, ColorMatrix and
   the wrappers' param_16 / get_colors), for an arbitrary colour type C with
     std     = ColorMatrix._standardize_raw = param_color   (clamp, round)
     conv m  = Machine._as_raw_color in unit mode m         (identity in raw mode)
   and relate what the devices receive ([out]) to Lang/MatrixSpec.v.  [stage_ok] /
   [zone_ok] / [stmt_ok] delimit the domain: every range empty (reversed) or inside the
   matrix, zone numbers inside 0..65535; the behaviour outside is stated separately. *)
From Coq Require Import ZArith List Bool.
From Bardolph Require Import Base.PyStr Gen.MatrixShape Lang.MatrixSpec Lang.Matrix Lang.MatrixProofs.
Import ListNotations.
Open Scope Z_scope.

(* The model was written from the texts the modelled functions have now. *)
Theorem C15_code_shape_current : shape_matrix_code_modelled = true.
Proof. exact code_shape_current. Qed.
Print Assumptions C15_code_shape_current.

(* Any script of unit switches, `set default`, plain sets, zone commands, one-line and
   block matrix commands (any number of statements and of stages) whose ranges are in the
   domain runs to its end, and the devices receive exactly the events the specification
   lists, in order: nothing more, nothing less, nothing twice. *)
Theorem C15_script_meets_spec :
  forall (C : Type) (std : C -> C) (conv : mode -> C -> C) (switch : mode -> mode -> C -> C) (black : C)
         (prog : list (stmt C)) (st : state C),
  forallb (stmt_ok C) prog = true ->
  exists st', run C std conv switch black (compile C prog) st = (st', true) /\
    out st' = out st ++ map (embed C)
      (spec_run C (set_tx C std conv) (black_tx C std black) prog (unit_mode st) (option_map std (default st))).
Proof. exact script_meets_spec. Qed.
Print Assumptions C15_script_meets_spec.

(* `set L zone a b` sends one zone message [a, b+1) (b := a when omitted), i.e. exactly
   zones a..b inclusive, with the colour a plain set would send. *)
Theorem C15_zone_exact :
  forall (C : Type) (std : C -> C) (conv : mode -> C -> C) (switch : mode -> mode -> C -> C) (black : C)
         (l : Z) (c : C) (a : num) (b : option num) (st : state C),
  zone_ok a b = true ->
  let e := match b with Some y => y | None => a end in
  exists st', run C std conv switch black (compile C [SZone l c a b]) st = (st', true) /\
    out st' = out st ++ [EZone l (index_of a) (index_of e + 1) (std (as_raw_color C conv (unit_mode st) c))] /\
    forall z, In z (zrange (index_of a) (index_of e + 1)) <-> index_of a <= z <= index_of e.
Proof. exact zone_exact. Qed.
Print Assumptions C15_zone_exact.

(* A block with any number of stages on a matrix of any height and width transmits one
   tile message of height*width cells; the cell at (r, c) carries the colour of the LAST
   stage whose normalised rectangle contains (r, c), converted as a plain set converts
   it, else the saved default (black if none). *)
Theorem C15_matrix_cells :
  forall (C : Type) (std : C -> C) (conv : mode -> C -> C) (switch : mode -> mode -> C -> C) (black : C)
         (l h w : Z) (ss : list (stage C)) (st : state C),
  0 <= h -> 0 <= w -> forallb (stage_ok C h w) ss = true ->
  exists st' cells, run C std conv switch black (compile C [SBlock l h w ss]) st = (st', true) /\
    out st' = out st ++ [EMatrix l h w cells] /\
    length cells = Z.to_nat (h * w) /\
    forall r c, 0 <= r < h -> 0 <= c < w ->
      nth (Z.to_nat (r * w + c)) cells None =
      Some (match last_covering C h w ss r c with
            | Some col => std (as_raw_color C conv (unit_mode st) col)
            | None => match default st with Some x => std x | None => std black end
            end).
Proof. exact matrix_cells. Qed.
Print Assumptions C15_matrix_cells.

(* Either matrix form transmits the whole matrix exactly once and nothing else. *)
Theorem C15_matrix_sent_once :
  forall (C : Type) (std : C -> C) (conv : mode -> C -> C) (switch : mode -> mode -> C -> C) (black : C)
         (s : stmt C) (st : state C),
  (exists l h w ss, s = SBlock l h w ss) \/ (exists l h w sg, s = SInline l h w sg) ->
  stmt_ok C s = true ->
  exists st' l h w cells, run C std conv switch black (compile C [s]) st = (st', true) /\
    out st' = out st ++ [EMatrix l h w cells] /\ length cells = Z.to_nat (h * w).
Proof. exact matrix_sent_once. Qed.
Print Assumptions C15_matrix_sent_once.

(* The one-line form is the block with that single stage (whatever the ranges). *)
Theorem C15_inline_equals_block :
  forall (C : Type) (std : C -> C) (conv : mode -> C -> C) (switch : mode -> mode -> C -> C) (black : C)
         (l h w : Z) (sg : stage C) (st : state C),
  run C std conv switch black (compile C [SInline l h w sg]) st =
  run C std conv switch black (compile C [SBlock l h w [sg]]) st.
Proof. exact inline_equals_block. Qed.
Print Assumptions C15_inline_equals_block.

(* An omitted row (column) clause means all rows (columns); the order of the clauses
   (cf, cf') is immaterial. *)
Theorem C15_omitted_means_full_extent :
  forall (C : Type) (std : C -> C) (conv : mode -> C -> C) (switch : mode -> mode -> C -> C) (black : C)
         (l h w : Z) (ss1 ss2 : list (stage C)) (rows cols : option clause) (cf cf' : bool) (col : C) (st : state C),
  0 <= h -> 0 <= w ->
  let full n := Some (mkClause (NInt 0) (Some (NInt (n - 1)))) in
  forall s s', (s = mkStage None cols cf col /\ s' = mkStage (full h) cols cf' col) \/
               (s = mkStage rows None cf col /\ s' = mkStage rows (full w) cf' col) ->
  forallb (stage_ok C h w) (ss1 ++ s :: ss2) = true ->
  exists st1 st2, run C std conv switch black (compile C [SBlock l h w (ss1 ++ s :: ss2)]) st = (st1, true) /\
    run C std conv switch black (compile C [SBlock l h w (ss1 ++ s' :: ss2)]) st = (st2, true) /\ out st1 = out st2.
Proof. exact omitted_means_full_extent. Qed.
Print Assumptions C15_omitted_means_full_extent.

(* An omitted end equals the start: `row a` = `row a a`. *)
Theorem C15_omitted_end_equals_start :
  forall (C : Type) (std : C -> C) (conv : mode -> C -> C) (switch : mode -> mode -> C -> C) (black : C)
         (l h w : Z) (ss1 ss2 : list (stage C)) (a : num) (rows cols : option clause) (cf cf' : bool) (col : C) (st : state C),
  0 <= h -> 0 <= w ->
  let one := Some (mkClause a None) in let two := Some (mkClause a (Some a)) in
  forall s s', (s = mkStage one cols cf col /\ s' = mkStage two cols cf' col) \/
               (s = mkStage rows one cf col /\ s' = mkStage rows two cf' col) ->
  forallb (stage_ok C h w) (ss1 ++ s :: ss2) = true ->
  exists st1 st2, run C std conv switch black (compile C [SBlock l h w (ss1 ++ s :: ss2)]) st = (st1, true) /\
    run C std conv switch black (compile C [SBlock l h w (ss1 ++ s' :: ss2)]) st = (st2, true) /\ out st1 = out st2.
Proof. exact omitted_end_equals_start. Qed.
Print Assumptions C15_omitted_end_equals_start.

(* A covered cell carries exactly what a plain `set` of the covering stage's colour
   transmits in the same unit mode: std (conv colour), never conv (std colour). *)
Theorem C15_cell_conversion_is_set_conversion :
  forall (C : Type) (std : C -> C) (conv : mode -> C -> C) (switch : mode -> mode -> C -> C) (black : C)
         (l l' h w : Z) (ss : list (stage C)) (st st0 : state C) (r c : Z) (col : C),
  0 <= h -> 0 <= w -> forallb (stage_ok C h w) ss = true ->
  unit_mode st0 = unit_mode st -> 0 <= r < h -> 0 <= c < w ->
  last_covering C h w ss r c = Some col ->
  exists st' cells stp tx,
    run C std conv switch black (compile C [SBlock l h w ss]) st = (st', true) /\
    out st' = out st ++ [EMatrix l h w cells] /\
    run C std conv switch black (compile C [SPlain l' col]) st0 = (stp, true) /\
    out stp = out st0 ++ [ESet l' tx] /\
    nth (Z.to_nat (r * w + c)) cells None = Some tx /\
    tx = std (as_raw_color C conv (unit_mode st) col).
Proof. exact cell_conversion_is_set_conversion. Qed.
Print Assumptions C15_cell_conversion_is_set_conversion.

(* A float row/column number denotes the nearest integer, ties to even. *)
Theorem C15_float_index_is_rounded :
  forall n d, 0 < d ->
  let z := round_half_even n d in
  - d <= 2 * n - 2 * d * z <= d /\ ((2 * n - 2 * d * z = d \/ 2 * n - 2 * d * z = - d) -> Z.even z = true).
Proof. exact round_half_even_nearest. Qed.
Print Assumptions C15_float_index_is_rounded.

(* Outside the domain (what the code does, not what the property demands):
   a non-empty rectangle with a number outside [-h, h) x [-w, w) aborts the script
   (IndexError) and the block transmits nothing; *)
Theorem C15_out_of_range_aborts :
  forall (C : Type) (std : C -> C) (conv : mode -> C -> C) (switch : mode -> mode -> C -> C) (black : C)
         (l h w : Z) (ss1 ss2 : list (stage C)) (s : stage C) (st : state C) (t b le ri : Z),
  0 <= h -> 0 <= w -> forallb (stage_ok C h w) ss1 = true ->
  clause_range (s_rows s) h = (t, b) -> clause_range (s_cols s) w = (le, ri) ->
  t <= b -> le <= ri -> (t < - h \/ h <= b \/ le < - w \/ w <= ri) ->
  exists st', run C std conv switch black (compile C [SBlock l h w (ss1 ++ s :: ss2)]) st = (st', false) /\
    out st' = out st.
Proof. exact out_of_range_aborts. Qed.
Print Assumptions C15_out_of_range_aborts.

(* numbers in [-h, 0) and [-w, 0) count from the end (Python list indexing); *)
Theorem C15_negative_index_wraps :
  forall (C : Type) (m : cmatrix C) (top bottom left right : option num) (col : C) (t b le ri : Z),
  let h := m_height m in let w := m_width m in
  wf C h w (m_rows m) ->
  norm_pair (option_map index_of top) (option_map index_of bottom) h = (t, b) ->
  norm_pair (option_map index_of left) (option_map index_of right) w = (le, ri) ->
  - h <= t -> b < h -> - w <= le -> ri < w ->
  exists m', overlay_color C m top bottom left right col = Some m' /\
    forall rr cc, 0 <= rr < h -> 0 <= cc < w ->
      ((exists x y, t <= x <= b /\ le <= y <= ri /\ rr = wrap h x /\ cc = wrap w y) ->
         cell C (m_rows m') rr cc = Some col) /\
      (~ (exists x y, t <= x <= b /\ le <= y <= ri /\ rr = wrap h x /\ cc = wrap w y) ->
         cell C (m_rows m') rr cc = cell C (m_rows m) rr cc).
Proof. exact negative_index_wraps. Qed.
Print Assumptions C15_negative_index_wraps.

(* a reversed range addresses nothing. *)
Theorem C15_reversed_range_colours_nothing :
  forall (C : Type) (std : C -> C) (conv : mode -> C -> C) (switch : mode -> mode -> C -> C) (black : C)
         (l h w : Z) (ss1 ss2 : list (stage C)) (s : stage C) (st : state C),
  0 <= h -> 0 <= w -> forallb (stage_ok C h w) (ss1 ++ s :: ss2) = true ->
  (range_empty (clause_range (s_rows s) h) = true \/ range_empty (clause_range (s_cols s) w) = true) ->
  exists st1 st2, run C std conv switch black (compile C [SBlock l h w (ss1 ++ s :: ss2)]) st = (st1, true) /\
    run C std conv switch black (compile C [SBlock l h w (ss1 ++ ss2)]) st = (st2, true) /\ out st1 = out st2.
Proof. exact reversed_range_colours_nothing. Qed.
Print Assumptions C15_reversed_range_colours_nothing.
