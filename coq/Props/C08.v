(* C08 -- queued jobs run one at a time, in order, exactly once, and the queue drains.
   Statements only; proofs live in Jobs/JobControlInv*.v, Jobs/JobControlProofs.v,
   Jobs/JobControlMeasure.v, Jobs/JobControlExamples.v.

   Everything is about the access programs of Jobs/JobControl.v (the model of
   bardolph/lib/job_control.py at shared-access granularity, tied to the code by
   harness/props/c08.py), for EVERY assignment of job bodies (finish | raise | run until
   stopped), EVERY list of client programs creating distinct jobs (any number of clients,
   calls and jobs: add_job, insert_job, spawn_job, clear_queue, stop requests, has_jobs,
   is_running, get_current, get_queued), every variant (pinned / repaired is_running and clear_queue), and EVERY schedule:
   [jc_reachable] is the set of configurations reachable by firing one shared access of one
   enabled thread at a time, in any order.  The 1 s lock time-out is modelled as blocking.
   The predicates (mutex, fifo, at_most_once, all_executed, background_window) are those of
   Jobs/JobControlSpec.v over the history of observable events. *)
From Coq Require Import ZArith List Bool.
From Bardolph Require Import Jobs.Threads Jobs.JobVocab Jobs.JobControl Jobs.JobControlSpec
  Jobs.JobControlSpecFacts Jobs.JobControlInv3 Jobs.JobControlProofs Jobs.JobControlMeasure Jobs.JobControlExamples.
Import ListNotations.
Open Scope Z_scope.

(* Schedules are lists of thread ids (and the harness's choice lists): whatever they are, the
   configuration they lead to is covered by the theorems below. *)
Theorem C08_every_schedule_is_covered : forall bodies (once : variant) clients schedule choices,
  jc_reachable bodies once clients (jc_run bodies once (jc_init clients) schedule) /\
  jc_reachable bodies once clients (run_model bodies once clients choices).
Proof. exact (fun b o cl s ch => conj (final_every_schedule b o cl s) (final_run_model b o cl ch)). Qed.
Print Assumptions C08_every_schedule_is_covered.

(* At most one queued job is between entering and leaving execute(), at any instant. *)
Theorem C08_mutex : forall bodies once clients, NoDup (created_jobs clients) ->
  forall c, jc_reachable bodies once clients c -> mutex (events (hist c)).
Proof. exact final_mutex. Qed.
Print Assumptions C08_mutex.

(* Each start takes the head of the queue as it is at that moment (appends, front insertions,
   clears and takes linearised in the order of the history = of their lock acquisitions), and
   jobs begin in the order in which they were taken. *)
Theorem C08_fifo : forall bodies once clients, NoDup (created_jobs clients) ->
  forall c, jc_reachable bodies once clients c -> fifo (events (hist c)).
Proof. exact final_fifo. Qed.
Print Assumptions C08_fifo.

(* No job is executed twice. *)
Theorem C08_at_most_once : forall bodies once clients, NoDup (created_jobs clients) ->
  forall c, jc_reachable bodies once clients c -> at_most_once (events (hist c)).
Proof. exact final_at_most_once. Qed.
Print Assumptions C08_at_most_once.

(* When every thread has finished, every job that was queued and not explicitly cleared has been
   executed exactly once and its execution is over. *)
Theorem C08_exactly_once_at_the_end : forall bodies once clients, NoDup (created_jobs clients) ->
  forall c, jc_reachable bodies once clients c -> quiescent pc (code bodies once) c ->
  all_executed (events (hist c)).
Proof. exact final_all_executed. Qed.
Print Assumptions C08_exactly_once_at_the_end.

(* A job that ended by raising does not hold up the jobs behind it. *)
Theorem C08_raise_does_not_block : forall bodies once clients, NoDup (created_jobs clients) ->
  forall c, jc_reachable bodies once clients c -> quiescent pc (code bodies once) c ->
  forall j j', In (SRaise j) (events (hist c)) -> enqueued (events (hist c)) j' ->
               ~ In j' (cleared (events (hist c))) ->
               exec_count (events (hist c)) j' = 1%nat /\ left (events (hist c)) j'.
Proof. exact final_raise. Qed.
Print Assumptions C08_raise_does_not_block.

(* When everything has finished the queue is empty, nothing is active, no background job is
   registered: has_jobs() is False. *)
Theorem C08_drains : forall bodies once clients, NoDup (created_jobs clients) ->
  forall c, jc_reachable bodies once clients c -> quiescent pc (code bodies once) c ->
  queue_of c = [] /\ active_of c = VNone /\ background_of c = [] /\ has_jobs_of c = false.
Proof. exact final_drained. Qed.
Print Assumptions C08_drains.

(* No deadlock: if no thread can move, every thread has finished or is a job body waiting for
   a stop request that nobody has made (the controller's own code never blocks for ever). *)
Theorem C08_no_deadlock : forall bodies once clients, NoDup (created_jobs clients) ->
  forall c, jc_reachable bodies once clients c ->
  (forall t, jc_step bodies once c t = None) ->
  forall t p, nth_error (thr c) t = Some p ->
    finished pc (code bodies once) p = true \/ waiting_for_stop bodies c p.
Proof. exact final_no_deadlock. Qed.
Print Assumptions C08_no_deadlock.

(* Every execution is finite: under any schedule at most mu_init clients accesses are
   performed (waiting for a stop is not an access), whatever the job bodies are. *)
Theorem C08_terminates : forall bodies once clients schedule,
  (moves bodies once (jc_init clients) schedule <= mu_init clients)%nat.
Proof. exact (fun b o cl s => eq_ind _ (fun n => (moves b o (jc_init cl) s <= n)%nat) (moves_bounded b o s (jc_init cl)) _ (mu_jc_init cl)). Qed.
Print Assumptions C08_terminates.

(* Background jobs (DESIGN's reading): a background job that is executing is registered under
   its name; a name is removed only after the job's execution is over; `name in background`
   answers exactly "registered and not yet removed". *)
Theorem C08_background_visible_exactly_while_running : forall bodies once clients, NoDup (created_jobs clients) ->
  forall c, jc_reachable bodies once clients c -> background_window (events (hist c)).
Proof. exact final_background. Qed.
Print Assumptions C08_background_visible_exactly_while_running.

(* ... and a name is registered only while a thread stands for it: spawn_job between the
   registration and the thread start, then the job thread until its completion callback has
   removed the name (so the excess over the execution is thread start-up and callback only,
   and nothing stays registered when everything has finished: C08_drains). *)
Theorem C08_background_forgotten_when_ended : forall bodies once clients, NoDup (created_jobs clients) ->
  forall c, jc_reachable bodies once clients c ->
  forall j, dict_has (background_of c) j = true ->
    exists u pt k, nth_error (thr c) u = Some (pt, k) /\ bg_of pt = Some j.
Proof. exact final_registered_alive. Qed.
Print Assumptions C08_background_forgotten_when_ended.

(* clear_queue, repaired tree (it takes the lock, D46): the controller never finds the queue empty
   between `len(queue) > 0` and `popleft()`, so no call raises IndexError for that reason. *)
Theorem C08_locked_clear_cannot_empty_under_a_start : forall bodies once clients, NoDup (created_jobs clients) ->
  clear_locked once = true ->
  forall c, jc_reachable bodies once clients c -> ~ In SDeqEmpty (events (hist c)).
Proof. exact final_no_empty_take. Qed.
Print Assumptions C08_locked_clear_cannot_empty_under_a_start.

(* is_running, repaired tree (one read of _active_agent into a local): the second unlocked read
   does not exist, in no reachable configuration. *)
Theorem C08_is_running_reads_active_once : forall bodies once clients c,
  isr_once once = true -> jc_reachable bodies once clients c ->
  forall u q n, nth_error (thr c) u = Some q -> fst q <> Isr1 n.
Proof. exact is_running_single_read. Qed.
Print Assumptions C08_is_running_reads_active_once.

(* is_running, pinned tree (two unlocked reads): there is a schedule on which is_running(name)
   raises AttributeError while the background job of that name is registered. *)
Theorem C08_is_running_refuted :
  exists clients schedule older,
    NoDup (created_jobs clients) /\
    hist (jc_run (fun _ => BFinish) pinned (jc_init clients) schedule) =
      (0%nat, LMark mk_exc (VExc AttributeError), VExc AttributeError) :: older /\
    nth_error clients 0 = Some [OAdd 1; OIsRunning 2] /\
    registered (events older) 2.
Proof. exact is_running_refuted. Qed.
Print Assumptions C08_is_running_refuted.

(* What the oracle means: the executable monitor that the harness runs (in Coq) on the event log
   of the REAL JobControl accepts only histories that satisfy mutual exclusion, never-twice,
   "each start takes the head of the queue" and "jobs begin in the order in which they were taken". *)
Theorem C08_oracle_is_sound : forall h, accepted h ->
  mutex (events h) /\ at_most_once (events h) /\
  (forall older j, earlier (SDeq j :: older) (events h) -> hd_error (aqueue older) = Some j) /\
  (exists pending, deq_order (events h) = begin_order (events h) ++ pending).
Proof. exact accepted_sound. Qed.
Print Assumptions C08_oracle_is_sound.

(* The hypotheses are satisfiable: 2 clients x 2 jobs (add, add | insert, spawn; one job
   raises), interleaved access by access, reach a quiescent configuration after 68 accesses;
   the queued jobs began in the order 1, 3, 2 and the background job ran. *)
Theorem C08_nonvacuous :
  NoDup (created_jobs ex_clients) /\
  jc_reachable ex_bodies repaired ex_clients ex_final /\
  quiescent pc (code ex_bodies repaired) ex_final /\
  begin_order (events (hist ex_final)) = [1; 3; 2] /\ In (SRaise 2) (events (hist ex_final)) /\
  In (SBegin 4 false) (events (hist ex_final)) /\ length (hist ex_final) = 68%nat.
Proof. exact nonvacuous. Qed.
Print Assumptions C08_nonvacuous.
