(* C08 -- queued jobs run one at a time, in order, exactly once, and the queue drains.
   Statements only (placeholder while the proofs are being built). *)
From Coq Require Import ZArith List Bool.
From Bardolph Require Import Jobs.Threads Jobs.JobVocab Jobs.JobControl Jobs.JobControlSpec.
