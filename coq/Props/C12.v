(* C12 -- device faults and wrong-type targets never abort a script or disturb others.
   Statements only; models in Lights/Retry.v, Lights/Faults.v, specification in
   Lights/FaultsSpec.v, proofs in Lights/FaultsProofs.v.

   Level: command sequences (what the VM's device instructions do with the register values),
   any length; all directories, all fault plans, all starting registers and light colours.
   `current` is the shape of the code as read from the tree under test by tools/gen_faults.py. *)
From Coq Require Import ZArith String List Bool.
From Bardolph Require Import Gen.FaultsGen Lights.Retry Lights.FaultsSpec Lights.Faults Lights.FaultsProofs.
Import ListNotations.
Open Scope Z_scope.

(* The hand-written model was written from the texts the source has now (retry.tries, the
   wrapper methods, LifxLanApi, LightSet.discover, the VM's device handlers, Machine.run's
   blanket except). *)
Theorem C12_source_texts_current :
  shape_tries_loop = true /\ shape_wrapper_bodies = true /\ other_fail_values_none = true /\
  shape_lan_api = true /\ shape_light_set = true /\ shape_vm_handlers = true /\
  shape_run_blanket_except = true.
Proof. exact source_texts_current. Qed.
Print Assumptions C12_source_texts_current.

(* What the theorems below need from the code and read off it: retry bound 3, every request
   method of the wrappers AND both broadcasts of LifxLanApi decorated with @tries (D47), a
   usable fail value for get_color, the capability check in Machine._color_matrix_light (D23),
   the guarded zone count in MultizoneLight.__init__ (D24), the size guard in Machine._matrix /
   _color_matrix_light (D48). *)
Theorem C12_shapes_current :
  sh_max_tries current = 3%nat /\ (forall k, sh_wrapped current k = wrapped_all k) /\
  sh_get_fail_ok current = true /\ sh_matrix_checked current = true /\ sh_mz_guarded current = true /\
  sh_size_guarded current = true.
Proof. exact current_good. Qed.
Print Assumptions C12_shapes_current.

(* tries_bound: for every bound n, every outcome stream: at most n attempts are made, and the
   fail value is returned exactly when the first n outcomes all fail (otherwise the call's
   own result); the outcomes not consumed remain. *)
Theorem C12_tries_bound : forall (A : Type) (n : nat) (call fail_value : A) (s : stream),
  let '(r, attempts, rest) := tries n call fail_value s in
  (attempts <= n)%nat /\ (r = GaveUp fail_value <-> all_fail n s) /\
  (r <> GaveUp fail_value -> r = Answered call) /\ rest = skipn attempts s.
Proof. exact @tries_bound_all. Qed.
Print Assumptions C12_tries_bound.

(* ... instantiated on every request of every run: whatever the plan, the directory and the
   commands, no request is attempted more than three times and nothing is sent again after
   an answer. *)
Theorem C12_attempts_at_most_three : forall dir st cs,
  let '(_, _, t) := run current dir st cs in attempts_bounded t /\ well_retried t.
Proof. exact (run_attempts_bounded current current_good). Qed.
Print Assumptions C12_attempts_at_most_three.

(* faults_do_not_abort: for every directory (matrix lights of unknown size included), every
   plan (broadcasts included), state and command list the run ends in Continue -- unless one
   of the script's own row/column commands addresses cells outside the matrix it is staged on
   (IndexError; matrix_ready = false for that command).  No device outcome, unknown name or
   capability mismatch is among the causes; how the run ends does not depend on the plan at all. *)
Theorem C12_faults_do_not_abort : forall dir st cs,
  let '(_, res, _) := run current dir st cs in
  res = Continue \/ (res = Abort AbIndex /\ exists c, In c cs /\ matrix_ready dir c = false).
Proof. exact (run_survives current current_good). Qed.
Print Assumptions C12_faults_do_not_abort.

Theorem C12_scripts_keep_running : forall dir st cs,
  Forall (fun c => matrix_ready dir c = true) cs ->
  let '(_, res, _) := run current dir st cs in res = Continue.
Proof. exact (run_continues current current_good). Qed.
Print Assumptions C12_scripts_keep_running.

Theorem C12_end_of_run_independent_of_faults : forall dir cs st1 st2,
  snd (fst (run current dir st1 cs)) = snd (fst (run current dir st2 cs)).
Proof. exact (run_result_independent current current_good). Qed.
Print Assumptions C12_end_of_run_independent_of_faults.

(* Commands aimed at unknown lights, groups or locations, zone commands to lights without
   zones, row/column commands to lights without a matrix, `get` from multi-colour lights:
   deleting them changes neither the requests, nor the registers, nor how the run ends. *)
Theorem C12_unknown_and_wrong_type_targets_change_nothing : forall dir cs st,
  Forall (fun c => addressable c = true) cs ->
  run current dir st cs = run current dir st (filter (fun c => negb (idle dir c)) cs).
Proof. exact (run_without_idle current current_good). Qed.
Print Assumptions C12_unknown_and_wrong_type_targets_change_nothing.

(* non_interference: both runs end the same way, and every device the plan leaves alone
   (healthy; the LAN counts as a device for the broadcasts) receives exactly the calls of the
   run in which every request is answered and the commands aimed at unknown / wrong-type
   targets are deleted.  Excluded from the second part: runs in which a `get` was abandoned or
   read a light at which an earlier request (or an earlier broadcast) had been abandoned
   (s_dirty); C12_get_exclusion_necessary shows that both exclusions are needed. *)
Theorem C12_non_interference : forall dir cs (p : plan) regs colors,
  Forall (fun c => addressable c = true) cs ->
  let '(st1, res1, t1) := run current dir (init_state p regs colors) cs in
  let '(st2, res2, t2) := run current dir (init_state no_faults regs colors)
                              (filter (fun c => negb (idle dir c)) cs) in
  res1 = res2 /\ (s_dirty st1 = false -> undisturbed (healthy p) t1 t2).
Proof. exact non_interference_current. Qed.
Print Assumptions C12_non_interference.

Theorem C12_get_exclusion_necessary :
  (exists dir cs p regs colors h,
     healthy p h /\ healthy p lan /\
     dirty_of (run current dir (init_state p regs colors) cs) = true /\
     exists k, In (CGet k) cs /\ p 0 KGetColor = [false; false; false] /\
     received h (trace_of (run current dir (init_state p regs colors) cs)) <>
     received h (trace_of (run current dir (init_state no_faults regs colors) cs))) /\
  (exists dir cs p regs colors h,
     healthy p h /\ healthy p lan /\ p 0 KGetColor = [] /\
     dirty_of (run current dir (init_state p regs colors) cs) = true /\
     received h (trace_of (run current dir (init_state p regs colors) cs)) <>
     received h (trace_of (run current dir (init_state no_faults regs colors) cs))).
Proof. exact get_exclusion_necessary. Qed.
Print Assumptions C12_get_exclusion_necessary.

(* discover_total: discovery reports a boolean, for every previous directory, network and
   plan; its requests too are attempted at most three times. *)
Theorem C12_discover_total : forall dir st net,
  let '(_, e, _, t) := discover current dir st net in
  discover_never_raises e /\ attempts_bounded t.
Proof. exact discover_total_current. Qed.
Print Assumptions C12_discover_total.

(* failed_discover_keeps_directory *)
Theorem C12_failed_discover_keeps_directory : forall dir st net,
  let '(_, e, dir', _) := discover current dir st net in
  e = Reported false -> dir' = dir /\ failed_discover_keeps e (view dir) (view dir').
Proof. exact (failed_discover_keeps_directory current). Qed.
Print Assumptions C12_failed_discover_keeps_directory.

(* The two repairs are needed: with the pinned texts (D23, D24) the model aborts / raises. *)
Theorem C12_matrix_on_plain_refuted :
  exists dir st cs, result_of (run pinned dir st cs) = Abort AbAttribute /\
                    result_of (run repaired dir st cs) = Continue.
Proof. exact matrix_on_plain_refuted. Qed.
Print Assumptions C12_matrix_on_plain_refuted.

Theorem C12_silent_multizone_refuted :
  exists dir st net, discover_end_of (discover pinned dir st net) = Raised /\
                     discover_end_of (discover repaired dir st net) = Reported true.
Proof. exact silent_multizone_refuted. Qed.
Print Assumptions C12_silent_multizone_refuted.

(* ... and so are the two later ones: with the pinned LifxLanApi (broadcasts not retried, D47)
   a broadcast that cannot be sent ends the script; with the pinned Machine._matrix /
   _color_matrix_light (no size guard, D48) a row/column command aimed at a matrix light that
   did not answer the size query while it was discovered ends the script. *)
Theorem C12_broadcast_failure_refuted :
  exists dir st cs, result_of (run pinned dir st cs) = Abort AbWorkflow /\
                    result_of (run repaired dir st cs) = Continue.
Proof. exact broadcast_failure_refuted. Qed.
Print Assumptions C12_broadcast_failure_refuted.

Theorem C12_silent_matrix_refuted :
  exists net p cs,
    let d := discover repaired [] (init_state p [] (fun _ => [])) net in
    let st := init_state no_faults [0; 0; 0; 0] (fun _ => [0; 0; 0; 0]) in
    discover_end_of d = Reported true /\
    result_of (run pinned (directory_of d) st cs) = Abort AbSize /\
    result_of (run repaired (directory_of d) st cs) = Continue.
Proof. exact silent_matrix_refuted. Qed.
Print Assumptions C12_silent_matrix_refuted.
