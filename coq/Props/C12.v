(* placeholder while the harness is brought up *)
From Coq Require Import ZArith.
From Bardolph Require Import Lights.Faults.
Theorem C12_placeholder : True.
Proof. exact I. Qed.
Print Assumptions C12_placeholder.
