(* C19 -- print, println and printf write exactly the documented text to standard output.
   Statements only; proofs live in Io/OutputProofs.v.  [current_cfg] is the set of source
   texts read from the tree under test on this run (Gen/OutputGen.v); [render_spec],
   [marks_spec], [fill], [fill_in_order] are the specification (Io/OutputSpec.v);
   [run_io], [run_job], [run_jobs], [vm_out], [vm_flush] are the model (Io/Output.v).
   The specification is [None] exactly for scripts containing a printf whose format is
   malformed, outside the modelled subset (header of Io/Format.v), fails to format, or
   is given a number of values other than its number of positional fields. *)
From Coq Require Import ZArith String List Bool.
From Bardolph Require Import Run.Show Io.Format Io.OutputSpec Io.Output Io.OutputProofs.
Open Scope string_scope.
Open Scope list_scope.
Import ListNotations.

(* The source has the texts the theorems are about (one sink object for the process,
   a line break inside the text ends the line, ...), and every modelled method has a
   text the model was written from. *)
Theorem C19_source_texts_current : current_cfg = repaired_cfg /\ source_known = true.
Proof. exact (conj cfg_current source_is_known). Qed.
Print Assumptions C19_source_texts_current.

(* Every sequence of print / println / printf statements and device commands, of any
   length, with any values, including statements run by routines that are called while
   a value list is being evaluated: the bytes on standard output when the job ends are
   the specification's text, and the run has not aborted. *)
Theorem C19_stdout_text : forall events t,
  render_spec events = Some t ->
  written (run_io current_cfg events) = t /\ aborted (run_io current_cfg events) = false.
Proof. exact stdout_text. Qed.
Print Assumptions C19_stdout_text.

(* The text OUT PRINTF writes (the "\n" replacement, the scan that collects the named
   fields from registers and variables, str.format over the pending values) is the
   specification's filling: the i-th "{}" takes the i-th value, "{n}" value number n,
   "{name}" the register or variable of that name, "\n" is a line break. *)
Theorem C19_printf_fields : forall fmt vals e t,
  printf_text fmt vals e = FOk t <-> fill fmt vals e = FOk t.
Proof. exact printf_fields. Qed.
Print Assumptions C19_printf_fields.

(* ... and the instruction writes it as one output, removing exactly its own values
   from the pending list (whatever is pending below them stays). *)
Theorem C19_printf_instruction : forall fmt e u vals t st,
  aborted st = false -> unnamed st = u ++ vals ->
  compile_count fmt = Some (length vals) -> fill fmt vals e = FOk t ->
  vm_out current_cfg (OpPrintf fmt e) st = set_unnamed (sink_out current_cfg t st) u.
Proof. exact printf_instruction. Qed.
Print Assumptions C19_printf_instruction.

(* For every format string the compiler accepts (any text): the number of values
   io_parser.printf takes is the number of positional fields of the text the run-time
   formats; when no field is numbered, each "{}" takes the next value off the front of
   the value list, the values never run out and none is left over. *)
Theorem C19_field_count_matches : forall fmt k,
  compile_count fmt = Some k ->
  exists ps, parse_format (unescape_nl fmt) = POk ps /\ positional_count ps = k /\
    (has_index ps = false -> forall vals e, length vals = k ->
       exists x, fill_in_order ps vals e = Some (x, []) /\ fill fmt vals e = x).
Proof. exact field_count_matches_lemma. Qed.
Print Assumptions C19_field_count_matches.

(* "{}" and "{n}" in one format string: str.format rejects the call (the compiler
   counts both kinds, the run then aborts); a "{n}" beyond the values fails likewise. *)
Theorem C19_mixed_numbering_rejected : forall fmt ps vals e t,
  parse_format (unescape_nl fmt) = POk ps -> has_auto ps = true -> has_index ps = true ->
  py_format (unescape_nl fmt) vals (build_named ps e) <> FOk t.
Proof. exact mixed_numbering_rejected. Qed.
Print Assumptions C19_mixed_numbering_rejected.

Theorem C19_index_out_of_range : forall e vals name spec i ps next t,
  In (Field name spec) ps -> classify name = NIndex i -> nth_z vals i = None ->
  fill_pieces ps next vals e <> FOk t.
Proof. exact index_out_of_range. Qed.
Print Assumptions C19_index_out_of_range.

(* When the script ends nothing is pending any more: no value, no separator ... *)
Theorem C19_flush_writes_everything : forall events t,
  render_spec events = Some t ->
  unnamed (run_io current_cfg events) = [] /\ line_pending (run_io current_cfg events) = false.
Proof. exact flush_writes_everything. Qed.
Print Assumptions C19_flush_writes_everything.

(* ... and in any state the final flush writes every pending value as one more output
   of the current line. *)
Theorem C19_flush_pending_values : forall s st,
  rel s st ->
  written (vm_flush current_cfg st) = text_of (fold_left (fun s v => add_output (py_str v) s) (unnamed st) s) /\
  unnamed (vm_flush current_cfg st) = [] /\ line_pending (vm_flush current_cfg st) = false.
Proof. exact flush_pending_values. Qed.
Print Assumptions C19_flush_pending_values.

(* The io model consumes the events in program order: at every device command, the
   text on standard output is exactly the text of the statements before it.  (That
   the VM executes OUT and device instructions in program order is the VM model's
   theorem, C01 compile_correct; here the order is that of the event list.) *)
Theorem C19_output_order : forall events m,
  marks_spec events = Some m -> marks (run_io current_cfg events) = m.
Proof. exact output_order. Qed.
Print Assumptions C19_output_order.

(* A job started in a process where earlier jobs have left ANY sink state (text, a
   pending separator, pending values, an aborted run) adds exactly its own text ... *)
Theorem C19_job_independent_of_history : forall evs st t,
  render_spec evs = Some t ->
  written (run_job current_cfg evs st) = (written st +++ t)%string /\
  line_pending (run_job current_cfg evs st) = false /\
  unnamed (run_job current_cfg evs st) = [] /\
  aborted (run_job current_cfg evs st) = false.
Proof. exact job_text. Qed.
Print Assumptions C19_job_independent_of_history.

(* ... so jobs run one after the other write the concatenation of their texts. *)
Theorem C19_jobs_text : forall jobs t,
  render_jobs_spec jobs = Some t -> written (run_jobs current_cfg jobs) = t.
Proof. exact jobs_text. Qed.
Print Assumptions C19_jobs_text.
