(* C20 -- the web front end runs only the manifest's scripts, escaped, without duplicates.
   Statements only; proofs live in Web/WebProofs.v, the ties to the current source text in
   Web/WebTie.v.  [web_variant] and [route_table] are regenerated from web/web_app.py and
   web/front_end.py on every run (Gen/WebGen.v); [reachable_now m st] says that st is the
   state of the application built from manifest m after some sequence of requests and job
   completions, of any length. *)
From Coq Require Import ZArith String Ascii List Bool.
From Bardolph Require Import Base.PyStr Web.Html Web.WebSpec Web.WebApp Web.WebProofs Gen.WebGen Web.WebTie.
Open Scope string_scope.
Open Scope list_scope.
Import ListNotations.
Open Scope Z_scope.

(* The model was written from the text the source has now: repaired queue_script /
   stop_script / get_status / snapshot, the blueprint's eight rules, the five escaped
   attributes, and every other modelled method unchanged. *)
Theorem C20_source_text_current :
  web_variant = repaired /\ route_table = modelled_route_table /\ escaped_fields = modelled_escaped_fields /\
  shape_front_end = true /\ shape_web_app = true /\ shape_no_unknown_methods = true.
Proof. exact source_text_current. Qed.
Print Assumptions C20_source_text_current.

(* URL resolution over the blueprint's rules (static rules first) is the classification
   of request paths the specification uses, for every URL. *)
Theorem C20_dispatch_is_classification : forall url, dispatch route_table url = classify url.
Proof. exact dispatch_current. Qed.
Print Assumptions C20_dispatch_is_classification.

(* Every history: each response has exactly the effects the specification prescribes, hands
   pages only script objects the specification lists, and renders where it must. *)
Theorem C20_model_refines_spec : forall m evs,
  Forall2 obs_match (app_run web_variant route_table m evs) (spec_run m evs).
Proof. exact model_refines_spec_current. Qed.
Print Assumptions C20_model_refines_spec.

(* Only manifest-listed files can ever be executed: in every history, every job handed to
   the controller (and every job asked to stop) has the file of some manifest entry and is
   known under that entry's escaped path. *)
Theorem C20_only_manifest_files_run : forall m evs resp j,
  In resp (app_run web_variant route_table m evs) ->
  started (r_effects resp) j \/ In (EStop j) (r_effects resp) ->
  exists e, In e m /\ j_file j = e_file e /\ j_name j = html_escape (spec_path e).
Proof. exact only_manifest_files_run_current. Qed.
Print Assumptions C20_only_manifest_files_run.

(* ... and so is every job the controller holds (queued, executing, background) after any history. *)
Theorem C20_controller_holds_manifest_jobs : forall m st j,
  reachable_now m st -> In j (jc_jobs (a_jobs st)) ->
  exists e, In e m /\ j_file j = e_file e /\ j_name j = html_escape (spec_path e).
Proof. exact controller_holds_manifest_jobs_current. Qed.
Print Assumptions C20_controller_holds_manifest_jobs.

(* A request for path p starts the script the manifest lists for p (the last entry of that
   path) -- queued, or in the background if so marked -- when it is not reported as running. *)
Theorem C20_request_starts_listed_script : forall m st url ua p e,
  reachable_now m st -> classify url = RtRun p -> listed m p = Some e ->
  jc_is_running (html_escape p) (a_jobs st) = false ->
  let j := mk_job (a_next st) (html_escape p) (e_file e) in
  handle web_variant route_table url ua st =
    (mk_app (a_table st) (if spec_run_bg e then jc_spawn j (a_jobs st) else jc_add j (a_jobs st)) (a_next st + 1),
     mk_resp [if spec_run_bg e then ESpawn j else EAdd j]
             (PAction (agent_class ua) (spec_view e (a_jobs st)) "Started")).
Proof. exact request_starts_listed_script_current. Qed.
Print Assumptions C20_request_starts_listed_script.

(* A request for any other path starts nothing (and changes nothing): the index page. *)
Theorem C20_unknown_path_starts_nothing : forall m st url ua p,
  reachable_now m st -> classify url = RtRun p -> listed m p = None ->
  handle web_variant route_table url ua st = (st, mk_resp [] (fe_index ua st)).
Proof. exact unknown_path_starts_nothing_current. Qed.
Print Assumptions C20_unknown_path_starts_nothing.

(* Whatever any request starts is the script listed for the requested path (or for "off",
   by the /off page). *)
Theorem C20_only_listed_requests_start : forall m st url ua j,
  reachable_now m st -> started (r_effects (snd (handle web_variant route_table url ua st))) j ->
  exists p e, (classify url = RtRun p \/ (classify url = RtOff /\ p = "off")) /\
              listed m p = Some e /\ j_file j = e_file e /\ j_name j = html_escape p.
Proof. exact only_listed_requests_start_current. Qed.
Print Assumptions C20_only_listed_requests_start.

(* A script reported as running is not started a second time by a repeated request. *)
Theorem C20_running_not_restarted : forall m st url ua p e,
  reachable_now m st -> classify url = RtRun p -> listed m p = Some e ->
  jc_is_running (html_escape p) (a_jobs st) = true ->
  handle web_variant route_table url ua st =
    (st, mk_resp [] (PAction (agent_class ua) (spec_view e (a_jobs st)) "Started")).
Proof. exact running_not_restarted_current. Qed.
Print Assumptions C20_running_not_restarted.

(* Default path: the given path, else the file name without a final ".ls"
   (docs/web_server.rst: "the base name of the file"); model = documented derivation. *)
Theorem C20_default_path : forall e,
  get_script_path e = spec_path e /\
  (forall p, given (e_path e) = Some p -> get_script_path e = p) /\
  (given (e_path e) = None ->
     (forall b, e_file e = String.append b ".ls" -> get_script_path e = b) /\
     ((forall b, e_file e <> String.append b ".ls") -> get_script_path e = e_file e)).
Proof. exact default_path_documented. Qed.
Print Assumptions C20_default_path.

(* Default title: the given title, else the path with '_' and '-' turned into spaces and
   every word capitalised -- position by position: a letter is upper-cased when the previous
   character is not a letter and lower-cased otherwise, every other character is kept. *)
Theorem C20_default_title : forall e,
  get_script_title e = spec_title e /\
  (forall t, given (e_title e) = Some t -> get_script_title e = t) /\
  (given (e_title e) = None ->
     get_script_title e = title_from None (str_map spaced_char (get_script_path e)) /\
     String.length (get_script_title e) = String.length (get_script_path e) /\
     forall i c, String.get i (str_map spaced_char (get_script_path e)) = Some c ->
       String.get i (get_script_title e) =
         Some (title_char (match i with O => None | S k => String.get k (str_map spaced_char (get_script_path e)) end) c)).
Proof. exact default_title_documented. Qed.
Print Assumptions C20_default_title.

(* The model's str.title is that capitalisation, and it is idempotent. *)
Theorem C20_str_title : forall s,
  str_title s = title_from None s /\ str_title (str_title s) = str_title s.
Proof. exact str_title_facts. Qed.
Print Assumptions C20_str_title.

(* Deriving a title from a derived title changes nothing, and a derived title contains
   neither underscore nor dash. *)
Theorem C20_default_title_stable : forall name,
  spec_default_title (spec_default_title name) = spec_default_title name /\
  forall i c, String.get i (spec_default_title name) = Some c -> c <> "_"%char /\ c <> "-"%char.
Proof. exact default_title_stable. Qed.
Print Assumptions C20_default_title_stable.

(* For names of lower-case letters, '_' and '-' (the documented examples) the derived title is
   literally: separators become spaces, the first letter of each word becomes a capital. *)
Theorem C20_default_title_simple_names : forall name,
  all_chars simple_name_char name = true ->
  spec_default_title name = capitalize_words (str_map spaced_char name).
Proof. exact default_title_simple_names. Qed.
Print Assumptions C20_default_title_simple_names.

(* html.escape: the five replacements in Python's order equal one pass over the characters. *)
Theorem C20_escape_one_pass : forall s, html_escape s = escape_chars s.
Proof. exact html_escape_one_pass. Qed.
Print Assumptions C20_escape_one_pass.

(* For every string: its escaped form contains no less-than, greater-than, double-quote or
   single-quote character, and every ampersand in it starts one of the five entities. *)
Theorem C20_escaped_no_metachar : forall s, escaped_ok (html_escape s).
Proof. exact escaped_no_metachar. Qed.
Print Assumptions C20_escaped_no_metachar.

(* Escaping loses nothing: decoding the entities gives the string back, so distinct strings
   (paths, hence job names) stay distinct. *)
Theorem C20_escape_injective : forall s t,
  html_unescape (html_escape s) = s /\ (html_escape s = html_escape t -> s = t).
Proof. exact escape_loses_nothing. Qed.
Print Assumptions C20_escape_injective.

(* In every history, every script object handed to a page carries the escaped file name,
   path, title and colour strings of a manifest entry (and so none of the markup characters). *)
Theorem C20_pages_get_escaped_fields : forall m evs resp w,
  In resp (app_run web_variant route_table m evs) -> In w (page_views (r_page resp)) ->
  exists e, In e m /\
    w_file w = html_escape (e_file e) /\ w_path w = html_escape (spec_path e) /\
    w_title w = html_escape (spec_title e) /\
    w_background w = html_escape (e_background e) /\ w_color w = html_escape (e_color e) /\
    escaped_ok (w_file w) /\ escaped_ok (w_path w) /\ escaped_ok (w_title w) /\
    escaped_ok (w_background w) /\ escaped_ok (w_color w).
Proof. exact pages_get_escaped_fields_current. Qed.
Print Assumptions C20_pages_get_escaped_fields.

(* Stop p asks exactly the job named p to stop -- when p is listed; nothing else changes. *)
Theorem C20_stop_named_exact : forall m st url ua p,
  reachable_now m st -> classify url = RtStop p ->
  fst (handle web_variant route_table url ua st) = st /\
  r_effects (snd (handle web_variant route_table url ua st)) =
    match listed m p with
    | Some _ => map EStop (jc_stop_job_targets (html_escape p) (a_jobs st))
    | None => []
    end.
Proof. exact stop_named_exact_current. Qed.
Print Assumptions C20_stop_named_exact.

(* "The job named p": when it is reported as running it is exactly one job, the executing
   one if it bears the name, otherwise the background job registered under it; when it is
   not reported as running nobody is asked. *)
Theorem C20_stop_job_targets : forall name s,
  (jc_is_running name s = true ->
     exists j, jc_stop_job_targets name s = [j] /\ j_name j = name /\
               (jc_current s = Some j \/ (In j (jc_background s) /\
                  forall c, jc_current s = Some c -> j_name c <> name))) /\
  (jc_is_running name s = false -> jc_stop_job_targets name s = []).
Proof. exact stop_job_targets_facts. Qed.
Print Assumptions C20_stop_job_targets.

(* Stop-current asks exactly the executing job. *)
Theorem C20_stop_current_exact : forall m st url ua,
  reachable_now m st -> classify url = RtStopCurrent ->
  fst (handle web_variant route_table url ua st) = st /\
  r_effects (snd (handle web_variant route_table url ua st)) = map EStop (jc_stop_current_targets (a_jobs st)).
Proof. exact stop_current_exact_current. Qed.
Print Assumptions C20_stop_current_exact.

(* Stop-all clears the queue and asks the executing job and every background job. *)
Theorem C20_stop_all_exact : forall m st url ua,
  reachable_now m st -> classify url = RtStopAll ->
  a_jobs (fst (handle web_variant route_table url ua st)) = jc_clear (a_jobs st) /\
  jc_queue (a_jobs (fst (handle web_variant route_table url ua st))) = [] /\
  r_effects (snd (handle web_variant route_table url ua st)) =
    EClear :: map EStop (jc_stop_current_targets (a_jobs st)) ++ map EStop (jc_stop_background_targets (a_jobs st)).
Proof. exact stop_all_exact_current. Qed.
Print Assumptions C20_stop_all_exact.

(* The status and capture pages render: in the model they yield a page, never an error
   (partial: exceptions of the implementation are exhibited only by the differential runs). *)
Theorem C20_status_and_capture_render : forall m st url ua,
  reachable_now m st ->
  (classify url = RtStatus ->
     handle web_variant route_table url ua st =
       (st, mk_resp [] (PStatus (agent_class ua) (map j_name (jc_background (a_jobs st)))
                                (option_map j_name (jc_current (a_jobs st))) (map j_name (jc_queue (a_jobs st)))))) /\
  (classify url = RtCapture ->
     handle web_variant route_table url ua st = (st, mk_resp [ESnapshot] (PIndex (agent_class ua) (spec_views m (a_jobs st))))).
Proof. exact status_and_capture_render_current. Qed.
Print Assumptions C20_status_and_capture_render.

(* The only error pages of the model: /off, /stop-current, /stop-all when the manifest has no
   entry of that path (DESIGN 7 C20: not counted against the property). *)
Theorem C20_errors_only_without_special_entry : forall m st url ua w,
  reachable_now m st -> r_page (snd (handle web_variant route_table url ua st)) = PError w ->
  (classify url = RtOff /\ listed m "off" = None) \/
  (classify url = RtStopCurrent /\ listed m "stop-current" = None) \/
  (classify url = RtStopAll /\ listed m "stop-all" = None).
Proof. exact errors_only_without_special_entry_current. Qed.
Print Assumptions C20_errors_only_without_special_entry.
