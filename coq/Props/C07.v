(* C07 -- transmitted colours and durations are in protocol range and numerically exact.
   Statements only; proofs live in Num/FloatProofs.v, Num/SweepProofs.v, Num/UnitsQProofs.v,
   Num/PathsProofs.v, Num/ColorsysQProofs.v, Num/RgbQProofs.v.

   Two arithmetics are used, and every statement says which:
     [binary64]  the translated code over PrimFloat -- bit-exact model of what CPython computes;
     [Q]         the same translated code read over exact rationals (definitions ..._Q), i.e. the
                 formulas as real arithmetic, against the specification Num/UnitsQ.v.
   The gap between the two (float rounding before the final round()) is not closed by a theorem
   (DESIGN section 9); the harness measures it on every run (oracle comparison, with the number of
   results that needed the 1e-9 tie tolerance). *)
From Coq Require Import ZArith QArith Bool PrimFloat.
From Bardolph Require Import Base.PyNum Num.UnitsQ Gen.ParamGen Gen.ColorsysGen Gen.UnitsGen Gen.MachineUnitsGen
     Num.UnitsFloat Num.FloatProofs Num.SweepDefs Num.SweepProofs Num.UnitsQProofs Num.PathsProofs
     Num.ColorsysQProofs Num.RgbQProofs.
Close Scope Q_scope.
Open Scope Z_scope.

(* The hand-written plumbing (Num/UnitsFloat.v, Num/Switch.v) was written from the texts the
   small unit-handling methods of machine.py, light_set.py, lifx_lan_light.py, lifx_lan_api.py
   and color_matrix.py have now. *)
Theorem C07_shapes_current : c07_shapes_ok = true.
Proof. reflexivity. Qed.
Print Assumptions C07_shapes_current.

(* (a) [binary64] Range safety for ALL floats -- every bit pattern, nan and the infinities
   included: param_16 / param_32 / param_8 / param_color always yield protocol integers. *)
Theorem C07_param_16_range : forall x : float, 0 <= param_16 x <= 65535.
Proof. exact param_16_range. Qed.
Print Assumptions C07_param_16_range.

Theorem C07_param_32_range : forall x : float, 0 <= param_32 x <= 4294967295.
Proof. exact param_32_range. Qed.
Print Assumptions C07_param_32_range.

Theorem C07_param_color_range : forall c : color4 float, color_u16 (param_color c).
Proof. exact param_color_range. Qed.
Print Assumptions C07_param_color_range.

(* (a) [binary64] Every colour component, power level and duration that any command kind (set /
   on / off on a light, group, location, all, zone, matrix cell) hands a light, in any unit mode,
   whatever the registers contain, is in 0..65535 resp. 0..2^32-1. *)
Theorem C07_transmit_in_range : forall k m (c : color4 float) on (d : float),
  sent_in_range (transmit k m c on d).
Proof. exact transmit_in_range. Qed.
Print Assumptions C07_transmit_in_range.

(* [binary64] Every colour path is the canonical pipeline "convert to raw units once, clamp and
   round once", and every path converts its duration (for `all` the clamp is applied twice,
   which over Q is the same thing: C07_paths_all_clamp_Q).  This is the statement that a
   seconds/milliseconds slip or a conversion after rounding on one path breaks. *)
Theorem C07_paths_all_clamp : forall k m (c : color4 float) on (d : float),
  kind_is_power k = false ->
  s_color (transmit k m c on d) = Some (canonical_color m c) /\
  s_power (transmit k m c on d) = None /\
  s_duration (transmit k m c on d) =
    (if is_all k then param_32 (z2f (canonical_duration m d)) else canonical_duration m d).
Proof. exact paths_all_clamp. Qed.
Print Assumptions C07_paths_all_clamp.

Theorem C07_paths_power_clamp : forall k m (c : color4 float) on (d : float),
  kind_is_power k = true ->
  s_color (transmit k m c on d) = None /\
  s_power (transmit k m c on d) = Some (if on then (if is_all k then 1 else 65535) else 0) /\
  s_duration (transmit k m c on d) =
    (if is_all k then param_32 (z2f (canonical_duration m d)) else canonical_duration m d).
Proof. exact paths_power_clamp. Qed.
Print Assumptions C07_paths_power_clamp.

(* (b) [Q] durations and delays: seconds * 1000 to the nearest integer, clamped exactly when the
   exact value is outside 0..2^32-1 *)
Theorem C07_time_nearest : forall d : Q,
  nearest_clamped 0 4294967295 (ms_exact d) (param_32_Q (time_raw_Q d)).
Proof. exact time_nearest. Qed.
Print Assumptions C07_time_nearest.

(* (b) [Q] saturation and brightness: percent / 100 * 65535 *)
Theorem C07_pct_nearest : forall p : Q,
  nearest_clamped 0 65535 (pct_exact p) (param_16_Q (pct_to_raw_Q p)).
Proof. exact pct_nearest. Qed.
Print Assumptions C07_pct_nearest.

(* (b) [Q] hue: (degrees mod 360) / 360 * 65535, the raw values 0 and 65535 being the same angle *)
Theorem C07_hue_nearest : forall c : color4 Q,
  hue_nearest (hue_exact (c0 c)) (c0 (param_color_Q (logical_to_raw_Q c))).
Proof. exact hue_nearest_thm. Qed.
Print Assumptions C07_hue_nearest.

(* (b) [Q] kelvin and raw-unit values pass through unscaled *)
Theorem C07_raw_passthrough : forall q : Q, nearest_clamped 0 65535 q (param_16_Q q).
Proof. exact raw_passthrough. Qed.
Print Assumptions C07_raw_passthrough.

(* (b) [Q] every command kind, logical and raw units, all register contents: what arrives at
   the light meets the specification (colour components and duration) *)
Theorem C07_transmit_meets_spec_Q : forall k (c : color4 Q) on (d : Q),
  kind_is_power k = false ->
  (exists col, s_color (transmit_Q k LOGICAL c on d) = Some col /\ color_meets (spec_color SLogical c) col) /\
  (exists col, s_color (transmit_Q k RAW c on d) = Some col /\ color_meets (spec_color SRaw c) col) /\
  meets (spec_duration SLogical d) (s_duration (transmit_Q k LOGICAL c on d)) /\
  meets (spec_duration SRaw d) (s_duration (transmit_Q k RAW c on d)) /\
  meets (spec_duration SRgb d) (s_duration (transmit_Q k RGB c on d)).
Proof. exact transmit_meets_spec_Q. Qed.
Print Assumptions C07_transmit_meets_spec_Q.

(* [Q] over exact rationals every path, `all` included, is exactly the canonical pipeline *)
Theorem C07_paths_all_clamp_Q : forall k m (c : color4 Q) on (d : Q),
  kind_is_power k = false ->
  transmit_Q k m c on d = mksent (Some (canonical_color_Q m c)) None (canonical_duration_Q m d).
Proof. exact paths_all_clamp_Q. Qed.
Print Assumptions C07_paths_all_clamp_Q.

(* (c) [binary64, finite sweeps by reflection through Range.all_range_spec] a raw colour read
   from a light and expressed in logical units converts back to the same raw colour: all 65 536
   values of each component, hence all 65536^4 raw colours; hue 65535 comes back as 0 *)
Theorem C07_roundtrip_hue_65536 : forall r, 0 <= r <= 65535 -> param_16 (rt_hue (z2f r)) = hue_norm r.
Proof. exact roundtrip_hue_65536. Qed.
Print Assumptions C07_roundtrip_hue_65536.

Theorem C07_roundtrip_pct_65536 : forall r, 0 <= r <= 65535 ->
  param_16 (rt_sat (z2f r)) = r /\ param_16 (rt_bri (z2f r)) = r.
Proof. intros r H. split; [apply roundtrip_sat_65536 | apply roundtrip_bri_65536]; exact H. Qed.
Print Assumptions C07_roundtrip_pct_65536.

Theorem C07_roundtrip_raw_logical_raw : forall r0 r1 r2 k,
  0 <= r0 <= 65535 -> 0 <= r1 <= 65535 -> 0 <= r2 <= 65535 -> 0 <= k <= 65535 ->
  param_color (logical_to_raw (raw_to_logical (mkcolor (z2f r0) (z2f r1) (z2f r2) (z2f k))))
  = mkcolor (hue_norm r0) r1 r2 k.
Proof. exact roundtrip_raw_logical_raw. Qed.
Print Assumptions C07_roundtrip_raw_logical_raw.

(* [binary64, sweep] integers 0..65535 pass param_16 / round / param_32 unchanged *)
Theorem C07_ints_pass_65536 : forall r, 0 <= r <= 65535 ->
  param_16 (z2f r) = r /\ py_round (z2f r) = r /\ param_32 (z2f r) = r.
Proof. exact ints_pass_65536. Qed.
Print Assumptions C07_ints_pass_65536.

(* (d) [Q] colorsys: converting an rgb colour to hsv and back gives the same colour, for every
   colour of the unit cube (the full statement, not a partial one) *)
Theorem C07_hsv_rgb_roundtrip : forall r g b : Q, in01 r -> in01 g -> in01 b ->
  triple_eq (let '(h, s, v) := rgb_to_hsv_Q r g b in hsv_to_rgb_Q h s v) (r, g, b).
Proof. exact hsv_rgb_roundtrip. Qed.
Print Assumptions C07_hsv_rgb_roundtrip.

(* (d) [Q] rgb percentages are sent as the hue/saturation/brightness of the same colour: the
   transmitted integers are the nearest integers of 65535 * (h, s, v) for an hsv triple that
   colorsys.hsv_to_rgb maps back to exactly the requested percentages *)
Theorem C07_rgb_sent_is_same_colour : forall c : color4 Q,
  (0 <= c0 c)%Q -> (c0 c <= 100)%Q -> (0 <= c1 c)%Q -> (c1 c <= 100)%Q -> (0 <= c2 c)%Q -> (c2 c <= 100)%Q ->
  exists h s v,
    ((0 <= h)%Q /\ (h < 1)%Q) /\ in01 s /\ in01 v /\
    triple_eq (hsv_to_rgb_Q h s v) (c0 c / 100, c1 c / 100, c2 c / 100)%Q /\
    c0 (canonical_color_Q RGB c) = param_16_Q (h * 65535) /\
    c1 (canonical_color_Q RGB c) = param_16_Q (s * 65535) /\
    c2 (canonical_color_Q RGB c) = param_16_Q (v * 65535) /\
    nearest_clamped 0 65535 (h * 65535) (param_16_Q (h * 65535)) /\
    nearest_clamped 0 65535 (s * 65535) (param_16_Q (s * 65535)) /\
    nearest_clamped 0 65535 (v * 65535) (param_16_Q (v * 65535)) /\
    nearest_clamped 0 65535 (c3 c) (c3 (canonical_color_Q RGB c)).
Proof. exact rgb_sent_is_same_colour. Qed.
Print Assumptions C07_rgb_sent_is_same_colour.

(* (d) [Q] whatever the register contents: an rgb colour with no component above zero (zero or negative
   percentages) is sent as black -- colorsys alone would divide by its largest component, zero (D62) *)
Theorem C07_rgb_nothing_positive_is_black : forall c : color4 Q,
  (py_max_Q (py_max_Q (c0 c / (100 # 1)) (c1 c / (100 # 1))) (c2 c / (100 # 1)) == 0)%Q ->
  c0 (canonical_color_Q RGB c) = 0 /\ c1 (canonical_color_Q RGB c) = 0 /\ c2 (canonical_color_Q RGB c) = 0.
Proof. exact rgb_nothing_positive_is_black. Qed.
Print Assumptions C07_rgb_nothing_positive_is_black.
