(* C13 -- the light directory stays self-consistent over any discovery/expiry history.
   Statements only; models in Lights/SortedList.v and Lights/Directory.v, the
   specification in Lights/DirectorySpec.v, proofs in Lights/DirectoryProofs.v. *)
From Coq Require Import ZArith String List Bool Sorted.
From Bardolph Require Import Lights.SortedList Lights.Directory Lights.DirectorySpec Lights.DirectoryProofs.
Import ListNotations.
Open Scope string_scope.
Open Scope list_scope.
Open Scope Z_scope.

(* Python's < on (ASCII) strings, as modelled, is a strict total order. *)
Theorem C13_string_order :
  (forall a, ~ str_lt a a) /\
  (forall a b c, str_lt a b -> str_lt b c -> str_lt a c) /\
  (forall a b, str_lt a b \/ a = b \/ str_lt b a).
Proof. exact (conj str_lt_irrefl (conj str_lt_trans str_lt_trichotomy)). Qed.
Print Assumptions C13_string_order.

(* The invariant holds after ANY history (any length, any names, groups, locations,
   times and ages; snapshots may repeat a name; times need not increase). *)
Theorem C13_dir_inv_reachable : forall history : list step,
  dir_inv (fold_left do_step history empty_dir).
Proof. exact dir_inv_reachable. Qed.
Print Assumptions C13_dir_inv_reachable.

(* The executable check evaluated on the real LightSet's state decides the invariant. *)
Theorem C13_dir_invb_iff : forall d, dir_invb d = true <-> dir_inv d.
Proof. exact dir_invb_iff. Qed.
Print Assumptions C13_dir_invb_iff.

(* What the invariant says, in the words of the property. *)
Theorem C13_directory_consistent : forall d, dir_inv d ->
  sorted (get_light_names d) /\ NoDup (get_light_names d) /\
  (forall n, In n (get_light_names d) <-> get_light d n <> None) /\
  get_light_count d = Z.of_nat (length (get_light_names d)) /\
  (forall n v, get_light d n = Some v ->
     (forall g, listed (d_groups d) g n <-> g = l_group v) /\
     (forall g, listed (d_locs d) g n <-> g = l_loc v)) /\
  (forall g l, get_group_lights d g = Some l ->
     sorted l /\ l <> [] /\ forall n, In n l <-> exists v, get_light d n = Some v /\ l_group v = g) /\
  (forall g l, get_location_lights d g = Some l ->
     sorted l /\ l <> [] /\ forall n, In n l <-> exists v, get_light d n = Some v /\ l_loc v = g) /\
  sorted (get_group_names d) /\
  (forall g, In g (get_group_names d) <-> exists n, listed (d_groups d) g n) /\
  (forall g, In g (get_group_names d) <-> get_group_lights d g <> None) /\
  sorted (get_location_names d) /\
  (forall g, In g (get_location_names d) <-> exists n, listed (d_locs d) g n) /\
  (forall g, In g (get_location_names d) <-> get_location_lights d g <> None).
Proof. exact directory_consistent. Qed.
Print Assumptions C13_directory_consistent.

(* Expiry removes exactly the lights not seen for longer than max_age, with all their
   memberships; nothing else changes. *)
Theorem C13_expire_exact : forall d now max_age, dir_inv d ->
  let d' := expire d now max_age in
  let gone n := exists v, In (n, v) (d_lights d) /\ a_expired now max_age v in
  d_lights d' = filter (fun e => negb (a_expiredb now max_age (snd e))) (d_lights d) /\
  (forall n v, In (n, v) (d_lights d') <-> In (n, v) (d_lights d) /\ ~ a_expired now max_age v) /\
  (forall n, In n (d_names d') <-> In n (d_names d) /\ ~ gone n) /\
  (forall g n, listed (d_groups d') g n <-> listed (d_groups d) g n /\ ~ gone n) /\
  (forall g n, listed (d_locs d') g n <-> listed (d_locs d) g n /\ ~ gone n) /\
  d_ok d' = d_ok d /\ d_fail d' = d_fail d /\
  dir_inv d'.
Proof. exact expire_exact. Qed.
Print Assumptions C13_expire_exact.

(* Refinement: after any history every getter returns what the abstract directory
   (finite map name -> group, location, last seen; discovery overwrites the reported
   names, expiry drops the entries older than max_age) determines. *)
Theorem C13_getters_refine : forall h,
  let d := run h in let m := a_run h in
  (forall n, get_light d n = a_get n m) /\
  get_light_names d = spec_light_names m /\
  get_light_count d = spec_light_count m /\
  (forall g, get_group_lights d g = spec_group_lights m g) /\
  get_group_names d = spec_group_names m /\
  (forall g, get_location_lights d g = spec_location_lights m g) /\
  get_location_names d = spec_location_names m /\
  get_successful_discovers d = spec_successes h /\
  get_failed_discovers d = spec_failures h.
Proof. exact getters_refine. Qed.
Print Assumptions C13_getters_refine.

(* SortedList: add / remove / has on any sorted duplicate-free list. *)
Theorem C13_add_remove_has : forall l x, sorted l ->
  sorted (sl_add l x) /\ (forall y, In y (sl_add l x) <-> y = x \/ In y l) /\
  sorted (sl_remove l x) /\ (forall y, In y (sl_remove l x) <-> In y l /\ y <> x) /\
  (sl_has l x = true <-> In x l).
Proof. exact add_remove_has. Qed.
Print Assumptions C13_add_remove_has.

(* next(x) is the least element above x, for ANY probe x, present or not; None iff none. *)
Theorem C13_next_is_least_greater : forall l x, sorted l ->
  match sl_next l x with
  | Some y => In y l /\ str_lt x y /\ forall z, In z l -> str_lt x z -> ~ str_lt z y
  | None => forall z, In z l -> ~ str_lt x z
  end.
Proof. exact next_is_least_greater. Qed.
Print Assumptions C13_next_is_least_greater.

Theorem C13_prev_is_greatest_smaller : forall l x, sorted l ->
  match sl_prev l x with
  | Some y => In y l /\ str_lt y x /\ forall z, In z l -> str_lt z x -> ~ str_lt y z
  | None => forall z, In z l -> ~ str_lt z x
  end.
Proof. exact prev_is_greatest_smaller. Qed.
Print Assumptions C13_prev_is_greatest_smaller.

Theorem C13_first_is_least : forall l, sorted l ->
  match sl_first l with
  | Some y => In y l /\ forall z, In z l -> ~ str_lt z y
  | None => l = []
  end.
Proof. exact first_spec. Qed.
Print Assumptions C13_first_is_least.

Theorem C13_last_is_greatest : forall l, sorted l ->
  match sl_last l with
  | Some y => In y l /\ forall z, In z l -> ~ str_lt y z
  | None => l = []
  end.
Proof. exact last_spec. Qed.
Print Assumptions C13_last_is_greatest.

(* Iterating first/next while ARBITRARY removals happen between the steps ([sched i] is
   removed before step i): the iteration ends within |l|+1 steps; every step goes to the
   nearest element above the previous one in the list as it is at that moment (so no
   element present when passed is skipped) and it ends only when nothing is left above;
   the visited names strictly increase (none twice); every name still present at the
   end -- in particular every name never removed -- was visited. *)
Theorem C13_iteration_visits_remaining_once : forall sched l, sorted l ->
  exists tr final, iterate (S (length l)) sched l = Some (tr, final) /\
    trace_ok str_lt None tr final /\
    sorted (map snd tr) /\ NoDup (map snd tr) /\
    (forall z, In z final -> In z (map snd tr)) /\
    (forall z, In z (map snd tr) -> In z l) /\
    (forall z, In z l -> (forall j, ~ In z (sched j)) -> In z final) /\
    incl final l.
Proof. exact iteration_visits_remaining_once. Qed.
Print Assumptions C13_iteration_visits_remaining_once.

(* The same backwards (last/prev). *)
Theorem C13_iteration_back_visits_remaining_once : forall sched l, sorted l ->
  exists tr final, iterate_back (S (length l)) sched l = Some (tr, final) /\
    trace_ok str_gt None tr final /\
    StronglySorted str_gt (map snd tr) /\ NoDup (map snd tr) /\
    (forall z, In z final -> In z (map snd tr)) /\
    (forall z, In z (map snd tr) -> In z l) /\
    (forall z, In z l -> (forall j, ~ In z (sched j)) -> In z final) /\
    incl final l.
Proof. exact iteration_back_visits_remaining_once. Qed.
Print Assumptions C13_iteration_back_visits_remaining_once.

(* The VM's stepping over lights, groups or locations (vm_discover.dnext) from any name
   yields the nearest remaining name in the direction of travel, NULL when none -- for every directory, a light, group or
   location named by the empty string included (D63: on the pinned tree `x or Operand.NULL` turned that name into NULL and the
   theorem needed the hypothesis that no name is empty). *)
Theorem C13_vm_dnext_nearest : forall d op fwd cur, dir_inv d ->
  exists r, vm_dnext d op fwd cur = to_result r /\ nearest fwd (names_by_oper d op) cur r.
Proof. exact vm_dnext_nearest. Qed.
Print Assumptions C13_vm_dnext_nearest.

(* ... and over the members of a group or location, as long as it is still listed. *)
Theorem C13_vm_dnextm_nearest_while_listed : forall d op name fwd cur l, dir_inv d ->
  set_by_oper d op name = Some l ->
  exists r, vm_dnextm d op name fwd cur = to_result r /\ nearest fwd l cur r.
Proof. exact vm_dnextm_nearest_while_listed. Qed.
Print Assumptions C13_vm_dnextm_nearest_while_listed.

(* FINDING (pinned tree): when the group being iterated loses its last light between two
   steps (here: light "a" re-reports group "h"), dnextm does not end the iteration with
   NULL but calls .next on None -- AttributeError, the script is aborted. *)
Theorem C13_member_iteration_group_vanished_refuted :
  exists h s g cur,
    vm_discm (run h) OGroup g true = DName cur /\
    get_group_lights (run (h ++ [s])) g = None /\
    vm_dnextm (run (h ++ [s])) OGroup g true cur = DFault.
Proof. exact member_iteration_group_vanished_refuted. Qed.
Print Assumptions C13_member_iteration_group_vanished_refuted.

(* The repaired dnextm (a vanished group or location is an exhausted one): nearest remaining
   member, NULL when none is left, never a fault.  The correspondence runs report which of
   vm_dnextm / vm_dnextm_fixed the tree under test implements. *)
Theorem C13_vm_dnextm_fixed_nearest : forall d op name fwd cur, dir_inv d ->
  exists r, vm_dnextm_fixed d op name fwd cur = to_result r /\ nearest fwd (members_now d op name) cur r.
Proof. exact vm_dnextm_fixed_nearest. Qed.
Print Assumptions C13_vm_dnextm_fixed_nearest.

(* CPython's binary searches (bisect_left, bisect = bisect_right) return, on every sorted
   list, the positions the model's definitions use. *)
Theorem C13_bisect_left_bin_correct : forall l x, sorted l -> bisect_left_bin l x = bisect_left l x.
Proof. exact bisect_left_bin_correct. Qed.
Print Assumptions C13_bisect_left_bin_correct.

Theorem C13_bisect_right_bin_correct : forall l x, sorted l -> bisect_right_bin l x = bisect_right l x.
Proof. exact bisect_right_bin_correct. Qed.
Print Assumptions C13_bisect_right_bin_correct.

(* Non-vacuity: a history in which a light moves, one vanishes and reappears elsewhere. *)
Theorem C13_example_history :
  (let d := run (firstn 2 ex_history) in
   get_light_names d = ["a"; "b"] /\ get_group_names d = ["g1"; "g2"] /\
   get_group_lights d "g1" = Some ["b"] /\ get_group_lights d "g2" = Some ["a"] /\
   get_location_lights d "l1" = Some ["a"; "b"]) /\
  (let d := run (firstn 3 ex_history) in
   get_light_names d = ["a"] /\ get_group_names d = ["g2"] /\ get_group_lights d "g1" = None /\
   get_location_lights d "l1" = Some ["a"] /\ get_light_count d = 1) /\
  (let d := run (firstn 5 ex_history) in
   get_light_names d = ["a"; "b"] /\ get_group_lights d "g2" = Some ["a"; "b"] /\
   get_location_names d = ["l1"; "l2"] /\ get_light d "b" = Some (mkLight "g2" "l2" 200) /\
   get_successful_discovers d = 3 /\ get_failed_discovers d = 1).
Proof. exact (conj ex_after_move (conj ex_after_vanish ex_after_reappear)). Qed.
Print Assumptions C13_example_history.
