(* C17 -- Compiles and runs are independent of what was compiled or run before.
   Statements only; proofs are in Lang/HistoryProofs.v.  The functions compile_on / run_on take
   the state an earlier compile / run left in the object and bring back exactly the fields that
   the current source resets (Gen/ResetGen.v, regenerated from /repo on every run). *)
From Coq Require Import ZArith String List Bool.
From Bardolph Require Import Gen.ResetGen Lang.Value Lang.Instr Lang.Loader Lang.World Lang.Regs Lang.Machine
  Lang.Syntax Front.Lexer Front.Parser Lang.History Lang.HistoryProofs.
Open Scope string_scope.
Open Scope list_scope.
Import ListNotations.

(* every field that a compile or a run writes is re-initialised by Parser.parse / Context.clear /
   CodeGen.clear / Machine.reset / Registers.reset / VmIo.reset / VmMath.reset, and the owners call
   the sub-objects' reset methods *)
Theorem C17_every_field_is_reset : reset_gaps = [].
Proof. exact no_reset_gaps. Qed.
Print Assumptions C17_every_field_is_reset.

(* whatever state [old] earlier compiles -- accepted, or rejected half-way through a loop,
   routine or matrix block -- left in the compiler object, the result is that of a fresh one *)
Theorem C17_compile_is_history_free : forall (old : pst) (text : string), compile_on old text = parse_text text.
Proof. exact compile_history_free. Qed.
Print Assumptions C17_compile_is_history_free.

Theorem C17_compile_after_any_sequence :
  forall (earlier : list string) (leftover : list string -> pst) (text : string),
    compile_on (leftover earlier) text = compile_on (leftover []) text.
Proof. exact compile_after_any_history. Qed.
Print Assumptions C17_compile_after_any_sequence.

(* whatever state [old] an earlier run left in the machine, the next run of an image is the run
   of that image on a new machine: same commands, delays and output *)
Theorem C17_run_is_history_free : forall fuel (im : image) (old : mstate) (w : world), run_on fuel im old w = run_image fuel im w.
Proof. exact run_history_free. Qed.
Print Assumptions C17_run_is_history_free.

(* in particular after the same job was stopped after any number k of instructions (or ran to
   its end: k large), ... *)
Theorem C17_rerun_after_stop_or_finish :
  forall fuel k (im : image) (w0 w : world), run_on fuel im (stopped_after k im w0) w = run_image fuel im w.
Proof. exact rerun_after_stop. Qed.
Print Assumptions C17_rerun_after_stop_or_finish.

(* ... and after any other job *)
Theorem C17_nothing_carries_over_between_jobs :
  forall fuel k (im other : image) (w0 w : world), run_on fuel im (stopped_after k other w0) w = run_image fuel im w.
Proof. exact rerun_after_other_job. Qed.
Print Assumptions C17_nothing_carries_over_between_jobs.
