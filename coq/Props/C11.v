(* C11 -- time-of-day patterns match exactly the times they denote; alternatives mean OR.
   Statements only; proofs live in Time/TimePatternProofs.v and Time/TimeUse.v. *)
From Coq Require Import ZArith String List Bool.
From Bardolph Require Import Base.PyStr Gen.TimePatternGen Time.TimeSpec Time.TimePattern Time.TimePatternProofs.
Open Scope Z_scope.

(* The model was written from the regular expression text the source has now. *)
Theorem C11_regex_text_current : REGEX_SPEC = REGEX_SPEC_modelled.
Proof. exact regex_text_current. Qed.
Print Assumptions C11_regex_text_current.

(* An accepted text yields a pattern that matches a time of day exactly when the
   captured hour and minute fields denote it, for every text of any length. *)
Theorem C11_match_iff_denotes : forall s p,
  from_string s = Some p ->
  exists hs ms r, regex_match s = Some (hs, ms, r) /\
    forall h m, valid_time h m -> tp_match p h m = denotes hs ms h m.
Proof. exact from_string_sound. Qed.
Print Assumptions C11_match_iff_denotes.

(* Every accepted pattern matches at least one time of day. *)
Theorem C11_accepted_nonempty : forall s p,
  from_string s = Some p -> exists h m, valid_time h m /\ tp_match p h m = true.
Proof. exact from_string_nonempty. Qed.
Print Assumptions C11_accepted_nonempty.

(* A text is rejected exactly when it is malformed or denotes no time of day. *)
Theorem C11_rejects_exactly : forall s,
  from_string s = None <->
  (regex_match s = None \/
   exists hs ms r, regex_match s = Some (hs, ms, r) /\ forall h m, valid_time h m -> denotes hs ms h m = false).
Proof. exact from_string_rejects. Qed.
Print Assumptions C11_rejects_exactly.

(* `time at s or s1 or ... or sn` (any n) waits for a time matched by at least one
   of the listed patterns and by no other combination of their fields. *)
Theorem C11_alternatives_are_union : forall ss s p ps,
  from_string s = Some p ->
  Forall2 (fun s' p' => from_string s' = Some p') ss ps ->
  forall h m, valid_time h m ->
    (tp_match (tp_union_all p ps) h m = true <->
     exists t hs ms r, In t (s :: ss) /\ regex_match t = Some (hs, ms, r) /\ denotes hs ms h m = true).
Proof. exact alternatives_denote. Qed.
Print Assumptions C11_alternatives_are_union.
