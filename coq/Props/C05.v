(* C05 -- on every path, compiled control transfers stay in the script and frames balance.
   Statements only; proofs in Lang/Wf.v (checker and soundness) and Lang/LoaderProofs.v.
   The checker [wf_image] is run, inside Coq, on the image the real compiler and loader
   produce for every generated script (translation validation); these theorems say what a
   positive answer means for all executions of the machine model, whatever the data. *)
From Coq Require Import ZArith String List Bool.
From Bardolph Require Import Gen.Codes Lang.Value Lang.Instr Lang.Loader Lang.World Lang.Machine Lang.CodeGen
  Lang.Wf Lang.LoaderProofs.
Import ListNotations.
Open Scope Z_scope.

(* Every step of the machine is among the control successors read off the instruction alone. *)
Theorem C05_exec_abstracts : forall im i s s' evs,
  no_pc_write i = true -> exec im i s = Next s' evs ->
  In (m_pc s', shape_of (m_frames s')) (anext im i (m_pc s) (shape_of (m_frames s))).
Proof. exact exec_abstracts. Qed.
Print Assumptions C05_exec_abstracts.

(* SOUNDNESS: on a checked image every reachable state is a consistent point -- its pc has a
   label (d, c) and its frame stack is exactly c pending call contexts on d loop frames on
   the frame of the routine in progress (nothing in the main program), recursively. *)
Theorem C05_wf_image_sound : forall im, wf_image im = true ->
  forall s, reach im s -> ok_state im (m_pc s) (shape_of (m_frames s)).
Proof. exact wf_image_sound. Qed.
Print Assumptions C05_wf_image_sound.

(* never outside the program *)
Theorem C05_pc_in_program : forall im, wf_image im = true ->
  forall pc sh, ok_state im pc sh -> 0 <= pc <= zlength (im_code im).
Proof. exact ok_pc_in_program. Qed.
Print Assumptions C05_pc_in_program.

(* never in the body of a routine that was not called, and never out of it other than by
   returning: inside a routine's segment the frame of a call in progress is on the stack,
   under exactly the loops and contexts opened inside the body, and its return address is
   again a consistent point of the caller *)
Theorem C05_in_routine_only_while_called : forall im, wf_image im = true ->
  forall pc sh a r, ok_state im pc sh -> seg_of im pc = Some (SegRtn a r) ->
  exists c d ret rest, lab im pc = Some (d, c) /\ sh = pend c ++ loops d ++ ShCall true (Some ret) :: rest /\
                       ok_state im ret rest /\ ok_state im (ret + 1) rest.
Proof. exact (fun im _ => ok_in_routine im). Qed.
Print Assumptions C05_in_routine_only_while_called.

(* every loop or call entered in the main program is accounted for ... *)
Theorem C05_main_frames_balanced : forall im, wf_image im = true ->
  forall pc sh, ok_state im pc sh -> seg_of im pc = Some SegMain ->
  exists c d, lab im pc = Some (d, c) /\ sh = pend c ++ loops d.
Proof. exact (fun im _ => ok_in_main im). Qed.
Print Assumptions C05_main_frames_balanced.

(* ... and left again on every path: at the end of the program nothing is dangling *)
Theorem C05_nothing_dangling_at_end : forall im, wf_image im = true ->
  forall sh, ok_state im (zlength (im_code im)) sh -> in_main im (zlength (im_code im)) = true -> sh = [].
Proof. exact ok_at_end. Qed.
Print Assumptions C05_nothing_dangling_at_end.

(* Loading moves the routine blocks out of line, keeps the order of everything else and
   prepends the jump over the routine segment ... *)
Theorem C05_load_partitions : forall p,
  let '(R, M) := split_go p None in
  im_code (load p) = match R with [] => M | _ => mkI OC_JUMP (PJump JC_ALWAYS) (PInt (zlength R + 1)) :: R ++ M end /\
  im_nroutine (load p) = zlength R.
Proof. exact load_partitions. Qed.
Print Assumptions C05_load_partitions.

(* ... so the distance the code generator counts with (instructions outside routine bodies)
   is the distance in the loaded main segment: loading does not change where a branch leads. *)
Theorem C05_relocatable_length_is_image_distance : forall p, len p = zlength (snd (split_go p None)).
Proof. exact relocatable_length_is_image_distance. Qed.
Print Assumptions C05_relocatable_length_is_image_distance.

Theorem C05_load_without_routines_is_identity : forall p,
  forallb (fun i => negb (opcode_eqb (i_op i) OC_ROUTINE)) p = true -> im_code (load p) = p /\ im_nroutine (load p) = 0.
Proof. exact load_without_routines_is_identity. Qed.
Print Assumptions C05_load_without_routines_is_identity.

(* Every branch, loop exit, break, call and return of the compiled code leads where the source says, for every program of the
   covered statements, if / else, blocks, while / counted / endless loops, breaks, calls of routines (also of the routine itself)
   and returns, nested to any depth (Lang/Simulation3.v): whatever values the conditions take, when the source semantics says the
   statement ends normally the machine stands directly behind the statement's code, when it says `break` the machine stands at the
   END_LOOP of the innermost enclosing loop -- in both cases with the evaluation stack it was entered with and with frames that
   differ at most in the dictionary of the routine in progress ([fr] forgets that dictionary and nothing else): every loop that was
   entered has been left, every call that was made has returned, nothing dangling; when it says `return` the machine stands
   behind the call that entered the routine, the routine's loop frames and call frame gone and the stack cut back to where the outermost
   loop of the routine was opened (as it was, unless names of a loop over lights were still waiting on it). *)
From Bardolph Require Import Lang.Syntax Lang.Sem Lang.ExprCompile Lang.Simulation Lang.CallFrames Lang.Simulation3.

Theorem C05_structured_control_leads_where_the_source_says :
  forall rt mt, bodies_ok rt mt -> forall inl inr st, SimpleB rt mt inl inr st ->
  forall after im ss s sig ss' fuel, routines_loaded rt mt im -> in_loop_ok inl after -> in_ret_ok inr (m_frames s) ->
  in_depth_ok inr s -> sim ss s -> code_at im (m_pc s) (c_stmt rt mt false after st) ->
  Sem.exec rt mt fuel false ss st = ROk sig ss' ->
  (sig = SigNormal /\ exists n s' evs, esteps n im s = Some (s', evs) /\ m_pc s' = m_pc s + zlength (c_stmt rt mt false after st) /\
                                       (m_stack s', fr s') = (m_stack s, fr s)) \/
  (sig = SigBreak /\ exists a n s' evs, after = Some a /\ esteps n im s = Some (s', evs) /\
                                        m_pc s' = m_pc s + zlength (c_stmt rt mt false after st) + a /\
                                        (m_stack s', fr s') = (m_stack s, fr s)) \/
  (exists v, sig = SigReturn v /\ exists ret F n s' evs, call_tail (m_frames s) = Some (ret, F) /\ esteps n im s = Some (s', evs) /\
                                        m_pc s' = ret + 1 /\ m_frames s' = F /\ m_stack s' = ret_stack (m_frames s) (m_stack s)).
Proof. exact structured_control_leads_where_the_source_says. Qed.
Print Assumptions C05_structured_control_leads_where_the_source_says.
