(* C02 -- expressions follow the documented precedence, associativity and arithmetic.
   Statements only; proofs in Lang/ExprProofs.v.  The operator table is regenerated from
   parser/token.py on every run (Gen/TokenTables.v), so these statements are about what
   the code says now.  That the parser groups operators by that table, and that a value
   is the same in every position of the grammar, is established per run by comparing the
   compiler with the tree-directed compiler model and the implementation with the
   reference semantics on generated expression trees (harness/props/c02.py). *)
From Coq Require Import ZArith String List Bool.
From Bardolph Require Import Base.PyFloat Gen.Codes Gen.TokenTables Lang.Value Lang.Syntax Lang.ExprProofs.
Import ListNotations.
Open Scope Z_scope.

Theorem C02_prec_table_documented :
  prec_table = documented_prec /\ right_assoc = ["not"%string; "^"%string] /\ shape_is_binop = true.
Proof. exact prec_table_documented. Qed.
Print Assumptions C02_prec_table_documented.

Theorem C02_precedence_levels :
  prec_of BPow > prec_of BMul /\ prec_of BMul = prec_of BDiv /\ prec_of BDiv = prec_of BMod /\
  prec_of BMul > prec_of BAdd /\ prec_of BAdd = prec_of BSub /\
  prec_of BAdd > prec_of BEq /\
  (forall c, In c [BEq; BNe; BLt; BLe; BGt; BGe] -> prec_of c = prec_of BEq) /\
  prec_of BEq > prec_of BAnd /\ prec_of BAnd > prec_of BOr /\
  is_right BPow = true /\ (forall b, b <> BPow -> is_right b = false).
Proof. exact precedence_levels. Qed.
Print Assumptions C02_precedence_levels.

Theorem C02_int_arith : forall a b,
  eval_binop OP_ADD (VInt a) (VInt b) = Ok (VInt (a + b)) /\
  eval_binop OP_SUB (VInt a) (VInt b) = Ok (VInt (a - b)) /\
  eval_binop OP_MUL (VInt a) (VInt b) = Ok (VInt (a * b)) /\
  (b <> 0 -> eval_binop OP_MOD (VInt a) (VInt b) = Ok (VInt (a mod b))) /\
  eval_binop OP_LT (VInt a) (VInt b) = Ok (VBool (a <? b)) /\
  eval_binop OP_LTE (VInt a) (VInt b) = Ok (VBool (a <=? b)) /\
  eval_binop OP_GT (VInt a) (VInt b) = Ok (VBool (b <? a)) /\
  eval_binop OP_GTE (VInt a) (VInt b) = Ok (VBool (b <=? a)) /\
  eval_binop OP_EQ (VInt a) (VInt b) = Ok (VBool (a =? b)) /\
  eval_binop OP_NOTEQ (VInt a) (VInt b) = Ok (VBool (negb (a =? b))).
Proof. exact int_arith. Qed.
Print Assumptions C02_int_arith.

Theorem C02_logical_positions : forall a b,
  truthy (VInt a) = negb (a =? 0) /\
  eval_binop OP_AND (VInt a) (VInt b) = Ok (VBool (negb (a =? 0) && negb (b =? 0))) /\
  eval_binop OP_OR (VInt a) (VInt b) = Ok (VBool (negb (a =? 0) || negb (b =? 0))).
Proof. exact logical_positions. Qed.
Print Assumptions C02_logical_positions.

Theorem C02_minus_negates : forall a, eval_binop OP_MUL (VInt a) (VInt (-1)) = Ok (VInt (- a)).
Proof. exact minus_negates. Qed.
Print Assumptions C02_minus_negates.

Theorem C02_randint_is_documented_range : forall a b n, randint_results a b n <-> a <= n <= b.
Proof. exact randint_is_documented_range. Qed.
Print Assumptions C02_randint_is_documented_range.

Theorem C02_randrange_misses_upper_bound : forall a b, a <= b -> ~ randrange_results a b b.
Proof. exact randrange_misses_upper_bound. Qed.
Print Assumptions C02_randrange_misses_upper_bound.

(* ---- the stack-machine lemma (Lang/ExprCompile.v): for every call-free numeric expression tree of
   any size, in any machine state and wherever the code sits, the emitted code runs silently,
   changes nothing but the evaluation stack and the pc, and pushes the value of the tree ---- *)
From Bardolph Require Import Lang.Instr Lang.Loader Lang.World Lang.Regs Lang.Machine Lang.Sem Lang.CodeGen Lang.ExprCompile.

Theorem C02_expression_code_pushes_value :
  forall rt mt e, supported mt e = true ->
  forall im s v, code_at im (m_pc s) (c_expr rt mt e) -> peval mt (rd_vm s) (rg_vm s) e = Ok v ->
  exists n, steps n im s = Some (pushed s v (zlength (c_expr rt mt e))).
Proof. exact c_expr_pushes_value. Qed.
Print Assumptions C02_expression_code_pushes_value.

(* the reference semantics computes that same tree value, leaving its state unchanged *)
Theorem C02_semantics_is_tree_value :
  forall rt mt e, supported mt e = true ->
  forall fuel in_matrix ss, (height e <= fuel)%nat ->
  eval_expr rt mt fuel in_matrix ss e = lift_res (peval mt (rd_sem ss) (rg_sem ss) e) ss.
Proof. exact eval_expr_is_peval. Qed.
Print Assumptions C02_semantics_is_tree_value.

Theorem C02_expression_code_computes_the_tree :
  forall rt mt e, supported mt e = true ->
  forall im s ss v fuel in_matrix,
    (forall x, rd_vm s x = lookup ss x) ->
    (forall r, register_eqb r R_PC = false -> rg_vm s r = Ok (rreg (s_regs ss) r)) ->
    code_at im (m_pc s) (c_expr rt mt e) -> (height e <= fuel)%nat ->
    eval_expr rt mt fuel in_matrix ss e = ROk v ss ->
    exists n, steps n im s = Some (pushed s v (zlength (c_expr rt mt e))).
Proof. exact expression_code_computes_the_tree. Qed.
Print Assumptions C02_expression_code_computes_the_tree.

(* and the whole-run function of the machine model takes exactly those steps *)
Theorem C02_run_takes_those_steps :
  forall n im s s' f acc, steps n im s = Some s' -> run_from (n + f) im s acc = run_from f im s' acc.
Proof. exact run_from_steps. Qed.
Print Assumptions C02_run_takes_those_steps.

(* the hypotheses are satisfiable: 10 - 2 * 3 - 4 groups as (10 - (2 * 3)) - 4 and is 0 *)
Example C02_stack_lemma_nonvacuous :
  let e := EBin BSub (EBin BSub (ELit (LInt 10)) (EBin BMul (ELit (LInt 2)) (ELit (LInt 3)))) (ELit (LInt 4)) in
  supported [] e = true /\ peval [] (fun _ => VNone) (fun _ => Ok VNone) e = Ok (VInt 0).
Proof. split; reflexivity. Qed.
