(* C02 -- expressions follow the documented precedence, associativity and arithmetic.
   Statements only; proofs in Lang/ExprProofs.v.  The operator table is regenerated from
   parser/token.py on every run (Gen/TokenTables.v), so these statements are about what
   the code says now.  That the parser groups operators by that table, and that a value
   is the same in every position of the grammar, is established per run by comparing the
   compiler with the tree-directed compiler model and the implementation with the
   reference semantics on generated expression trees (harness/props/c02.py). *)
From Coq Require Import ZArith String List Bool.
From Bardolph Require Import Base.PyFloat Gen.Codes Gen.TokenTables Lang.Value Lang.Syntax Lang.ExprProofs.
Import ListNotations.
Open Scope Z_scope.

Theorem C02_prec_table_documented :
  prec_table = documented_prec /\ right_assoc = ["not"%string; "^"%string] /\ shape_is_binop = true.
Proof. exact prec_table_documented. Qed.
Print Assumptions C02_prec_table_documented.

Theorem C02_precedence_levels :
  prec_of BPow > prec_of BMul /\ prec_of BMul = prec_of BDiv /\ prec_of BDiv = prec_of BMod /\
  prec_of BMul > prec_of BAdd /\ prec_of BAdd = prec_of BSub /\
  prec_of BAdd > prec_of BEq /\
  (forall c, In c [BEq; BNe; BLt; BLe; BGt; BGe] -> prec_of c = prec_of BEq) /\
  prec_of BEq > prec_of BAnd /\ prec_of BAnd > prec_of BOr /\
  is_right BPow = true /\ (forall b, b <> BPow -> is_right b = false).
Proof. exact precedence_levels. Qed.
Print Assumptions C02_precedence_levels.

Theorem C02_int_arith : forall a b,
  eval_binop OP_ADD (VInt a) (VInt b) = Ok (VInt (a + b)) /\
  eval_binop OP_SUB (VInt a) (VInt b) = Ok (VInt (a - b)) /\
  eval_binop OP_MUL (VInt a) (VInt b) = Ok (VInt (a * b)) /\
  (b <> 0 -> eval_binop OP_MOD (VInt a) (VInt b) = Ok (VInt (a mod b))) /\
  eval_binop OP_LT (VInt a) (VInt b) = Ok (VBool (a <? b)) /\
  eval_binop OP_LTE (VInt a) (VInt b) = Ok (VBool (a <=? b)) /\
  eval_binop OP_GT (VInt a) (VInt b) = Ok (VBool (b <? a)) /\
  eval_binop OP_GTE (VInt a) (VInt b) = Ok (VBool (b <=? a)) /\
  eval_binop OP_EQ (VInt a) (VInt b) = Ok (VBool (a =? b)) /\
  eval_binop OP_NOTEQ (VInt a) (VInt b) = Ok (VBool (negb (a =? b))).
Proof. exact int_arith. Qed.
Print Assumptions C02_int_arith.

Theorem C02_logical_positions : forall a b,
  truthy (VInt a) = negb (a =? 0) /\
  eval_binop OP_AND (VInt a) (VInt b) = Ok (VBool (negb (a =? 0) && negb (b =? 0))) /\
  eval_binop OP_OR (VInt a) (VInt b) = Ok (VBool (negb (a =? 0) || negb (b =? 0))).
Proof. exact logical_positions. Qed.
Print Assumptions C02_logical_positions.

Theorem C02_minus_negates : forall a, eval_binop OP_MUL (VInt a) (VInt (-1)) = Ok (VInt (- a)).
Proof. exact minus_negates. Qed.
Print Assumptions C02_minus_negates.

Theorem C02_randint_is_documented_range : forall a b n, randint_results a b n <-> a <= n <= b.
Proof. exact randint_is_documented_range. Qed.
Print Assumptions C02_randint_is_documented_range.

Theorem C02_randrange_misses_upper_bound : forall a b, a <= b -> ~ randrange_results a b b.
Proof. exact randrange_misses_upper_bound. Qed.
Print Assumptions C02_randrange_misses_upper_bound.
