(* C01 -- running a script issues exactly the commands, waits and output its source says.
   Statements only.  "What the source says" is Lang.Sem.run_src (the reference semantics);
   the machine model is Lang.Machine.run_program of the compiled program (Lang.CodeGen.compile). *)
From Coq Require Import ZArith String List Bool.
From Bardolph Require Import Gen.Codes Lang.Value Lang.World Lang.Regs Lang.Devices Lang.Syntax Lang.Sem Lang.SemProofs.
Open Scope Z_scope.

(* An action on a group or location is the same action on each of its members, in name
   order: the events and the resulting light states are those of the single-light action
   applied to the members one after the other, for every population and every registers. *)
Theorem C01_group_action_is_member_actions : forall k rf w g names c d,
  set_members k w (VStr g) = Some names ->
  sent_color rf = Ok c -> sent_duration rf = Ok d ->
  do_color_set k rf w (VStr g) =
  Ok (let '(e, w') := each_member c d w names in mkDev rf w' e).
Proof. exact group_action_is_member_actions. Qed.
Print Assumptions C01_group_action_is_member_actions.

Theorem C01_light_action : forall rf w n c d,
  sent_color rf = Ok c -> sent_duration rf = Ok d ->
  do_color_light rf w (VStr n) = Ok (let '(e, w') := one_light c d w n in mkDev rf w' e).
Proof. exact color_light_is_one_light. Qed.
Print Assumptions C01_light_action.

(* The members of a group (location) are exactly the lights that report it. *)
Theorem C01_members_exact : forall sel w g names y,
  members sel w g = Some names ->
  (In y names <-> exists l, In l w /\ l_name l = y /\ sel l = g).
Proof. exact members_exact. Qed.
Print Assumptions C01_members_exact.

(* Lights joined with `and` share a single delay: one request before the first operand. *)
Theorem C01_and_shares_delay : forall rt mt f s ops,
  exec rt mt (S f) false s (SSet ops) =
  sbind (do_wait s) (fun _ s1 => sbind (exec_ops rt mt f false s1 true ops) (fun _ s2 => ROk SigNormal s2)).
Proof. exact set_requests_one_delay. Qed.
Print Assumptions C01_and_shares_delay.

(* ---- forward simulation for straight-line programs (Lang/Simulation.v) ----
   For every script made of register settings, unit switches, assignments, print / println, wait and
   set / on / off of all lights or of lists of lights, groups and locations -- every value an ordinary
   rvalue or a call-free numeric expression, of any size -- and every population: if the reference
   semantics runs the source to its end with events evs, then the code the compiler model emits,
   loaded and run on the machine model from the initial state, finishes with exactly evs.
   (Conditionals, loops, routines, zones and matrix blocks are not covered by this theorem: for
   them the agreement of the three models with each other and with the implementation is
   established per run by the correspondence and oracle comparisons.) *)
From Bardolph Require Import Lang.Instr Lang.Loader Lang.Machine Lang.CodeGen Lang.ExprCompile Lang.Simulation.
Import ListNotations.
Open Scope string_scope.
Open Scope list_scope.

Theorem C01_straightline_program_runs_as_its_source_says :
  forall (p : script) (w : world) (fuel : nat) (evs : list event),
    forallb (simple_atom (snd (collect p [] []))) p = true ->
    run_src fuel p w = SFinished evs ->
    exists k, run_program k (compile p) w = Finished evs.
Proof. exact straightline_program_runs_as_its_source_says. Qed.
Print Assumptions C01_straightline_program_runs_as_its_source_says.

(* the same, statement by statement, for code placed anywhere in an image and any pair of corresponding states *)
Theorem C01_script_simulation :
  forall rt mt p, forallb (simple_atom mt) p = true ->
  forall im ss s ss' fuel, sim ss s -> code_at im (m_pc s) (flat_map (c_stmt rt mt false None) p) ->
  exec_seq rt mt fuel false ss p = ROk SigNormal ss' -> simulates im ss s ss' (flat_map (c_stmt rt mt false None) p).
Proof. exact script_simulation. Qed.
Print Assumptions C01_script_simulation.

(* the hypotheses are satisfiable: a script with every covered statement form *)
Example C01_simulation_nonvacuous :
  let p := [SUnits UM_RAW; SReg R_HUE (RLit (LInt 5)); SAssign "x" (RExpr (EBin BAdd (ELit (LInt 1)) (EBin BMul (EReg R_HUE) (ELit (LInt 2)))));
            SReg R_DURATION (RVar "x"); SSet (OpList [Target TLight (NStr "a"); Target TGroup (NStr "g")]); SOn OpAll; SWait;
            SPrintln (Some (RVar "x")); SOff (OpList [Target TLocation (NStr "l")])] in
  let w := [mkLight "a" "g" "l" KPlain [0; 0; 0; 0]; mkLight "b" "g" "l" KPlain [0; 0; 0; 0]] in
  forallb (simple_atom (snd (collect p [] []))) p = true /\
  exists evs, run_src 200 p w = SFinished evs /\ (3 <= length evs)%nat.
Proof. split; [vm_compute; reflexivity|]. eexists. split; [vm_compute; reflexivity|]. cbn. repeat constructor. Qed.

(* ---- extended to conditionals, blocks, `repeat while` and counted `repeat n` loops (Lang/Simulation2.v), nested to any depth ---- *)
From Bardolph Require Import Lang.Simulation2.

Theorem C01_loopfree_program_runs_as_its_source_says :
  forall (p : script) (w : world) (fuel : nat) (evs : list event),
    SimpleL (snd (collect p [] [])) p ->
    run_src fuel p w = SFinished evs ->
    exists k, run_program k (compile p) w = Finished evs.
Proof. exact loopfree_program_runs_as_its_source_says. Qed.
Print Assumptions C01_loopfree_program_runs_as_its_source_says.

(* if / else choose by the truth of their condition, statement by statement, anywhere in an image *)
Theorem C01_conditional_simulation :
  forall rt mt st, Simple mt st ->
  forall im ss s sig ss' fuel, sim ss s -> code_at im (m_pc s) (c_stmt rt mt false None st) ->
  Sem.exec rt mt fuel false ss st = ROk sig ss' -> sig = SigNormal /\ simulates im ss s ss' (c_stmt rt mt false None st).
Proof. intros rt mt. exact (proj1 (simple_simulation rt mt)). Qed.
Print Assumptions C01_conditional_simulation.

Example C01_loopfree_nonvacuous :
  let p := [SAssign "x" (RLit (LInt 3));
            SIf (RExpr (EBin BLt (EVar "x") (ELit (LInt 5))))
                (SBlock [SReg R_HUE (RVar "x"); SIf (RVar "x") (SOn OpAll) (Some (SOff OpAll))])
                (Some (SPrint (Some (RLit (LInt 0)))));
            SIf (RLit (LInt 0)) (SPrintln (Some (RVar "x"))) None;
            SRepeat (LWhile (RExpr (EBin BGt (EVar "x") (ELit (LInt 0)))))
                    (SBlock [SPrint (Some (RVar "x")); SAssign "x" (RExpr (EBin BSub (EVar "x") (ELit (LInt 1))));
                             SRepeat (LWhile (RExpr (EBin BLt (EReg R_HUE) (ELit (LInt 5))))) (SReg R_HUE (RExpr (EBin BAdd (EReg R_HUE) (ELit (LInt 1)))))]);
            SRepeat (LCount (RExpr (EBin BAdd (EVar "x") (ELit (LInt 2)))))
                    (SBlock [SPrintln (Some (RReg R_HUE)); SRepeat (LCount (RLit (LInt 2))) (SOn OpAll)]);
            SSet OpAll] in
  let w := [mkLight "a" "g" "l" KPlain [0; 0; 0; 0]] in
  SimpleL (snd (collect p [] [])) p /\ exists evs, run_src 200 p w = SFinished evs /\ (5 <= length evs)%nat.
Proof.
  split; [apply (simple_list_sound _ 10); vm_compute; reflexivity|].
  eexists. split; [vm_compute; reflexivity|]. cbn. repeat constructor.
Qed.

(* ---- extended to `break`, the endless `repeat`, calls of routines and `return` (Lang/Simulation3.v, SimulationTop.v) ----
   Every program made of routine definitions (at the top level, each name once; routines may call each other and themselves) and of the covered
   statements (settings, assignments, constants, print, wait, commands), if / else, blocks, `repeat while`, counted `repeat n`, `repeat with v from a to b`, `repeat n with v from a to b`, `repeat n with v cycle`, `repeat all / group / location as x [with ...]`, `repeat in ... and ... as x [with ...]`, plain `repeat`, `break`, calls `f a b ...` whose arguments
   are ordinary values, and `return`, nested to any depth: the compiled code, loaded (routine bodies moved out of line) and run
   on the machine model from the initial state, finishes with exactly the events of the reference semantics. *)
From Bardolph Require Import Lang.Builtins Lang.CallFrames Lang.Simulation3 Lang.SimulationTop.

Theorem C01_program_with_routines_runs_as_its_source_says :
  forall (p : script) (w : world) (fuel : nat) (evs : list event),
    Forall (top_stmt_ok (fst (collect p [] [])) (snd (collect p [] []))) p ->     (* each top-level statement: a routine definition with a covered body, or a covered statement *)
    NoDup (map fst (defs_of p)) ->                                                (* no routine defined twice *)
    run_src fuel p w = SFinished evs ->
    exists k, run_program k (compile p) w = Finished evs.
Proof. exact covered_program_runs_as_its_source_says. Qed.
Print Assumptions C01_program_with_routines_runs_as_its_source_says.

(* statement by statement, anywhere in an image whose routine table holds the compiled routine bodies, at any distance [after]
   from the END_LOOP of the enclosing loop, inside a routine or not: when the source says the statement ends normally the machine
   is behind its code; when the source says it breaks the machine is at that END_LOOP -- in both cases with the stack it started
   with and frames that differ at most in the dictionary of the routine in progress; when the source says it returns, the machine
   is behind the call, the loop frames and the call frame of the routine gone *)
Theorem C01_statement_simulation :
  forall rt mt, bodies_ok rt mt -> forall inl inr st, SimpleB rt mt inl inr st ->
  forall after im ss s sig ss' fuel, routines_loaded rt mt im -> in_loop_ok inl after -> in_ret_ok inr (m_frames s) ->
  in_depth_ok inr s -> sim ss s -> code_at im (m_pc s) (c_stmt rt mt false after st) ->
  Sem.exec rt mt fuel false ss st = ROk sig ss' -> outcome inr after im ss s sig ss' (c_stmt rt mt false after st).
Proof. intros rt mt Hb. exact (proj1 (simpleB_simulation rt mt Hb)). Qed.
Print Assumptions C01_statement_simulation.

(* the value of a built-in function (round, floor, ceil, sqrt, trigonometry, cycle, random is excluded by the reference semantics), taken
   directly by a statement: CTX; arguments; JSR computes the value into RESULT and returns at once; END_CTX; then the value is taken *)
From Bardolph Require Import Lang.CallValue.
Theorem C01_value_of_a_builtin_function :
  forall rt mt, bodies_ok rt mt -> forall u f args ps, builtin_params f builtin_table = Some ps ->
  plain_args rt mt args ps = true -> use_ok u = true ->
  forall after im ss s sig ss' fuel, routines_loaded rt mt im -> sim ss s ->
  code_at im (m_pc s) (c_stmt rt mt false after (use_stmt u (RCall f args))) ->
  Sem.exec rt mt fuel false ss (use_stmt u (RCall f args)) = ROk sig ss' ->
  sig = SigNormal /\
  exists n s' evs, esteps n im s = Some (s', evs) /\ sim ss' s' /\ m_pc s' = m_pc s + zlength (c_stmt rt mt false after (use_stmt u (RCall f args))) /\
                   (m_stack s', fr s') = (m_stack s, fr s) /\ rev (s_trace ss') = rev (s_trace ss) ++ evs.
Proof. exact builtin_value_simulation. Qed.
Print Assumptions C01_value_of_a_builtin_function.

(* ---- the compiled zone command (Lang/Simulation.v, sim_one_zone) ----
   `set L zone a b` / `set L zone a` with L a string, a constant or a variable and a, b ordinary values or call-free expressions:
   whenever the reference semantics runs the statement (the delay, then the zone command of the device model with the values
   of a and b at that moment: zones a .. b inclusive as one message, nothing for a light that has no zones), the compiled code
   -- WAIT; the name; a into FIRST_ZONE; b (or None) into LAST_ZONE; the multi-zone operand; COLOR -- runs on the machine model
   to the instruction behind it with exactly the same events, and the states correspond again. *)
Theorem C01_zone_command_compiled_runs_as_its_source_says :
  forall rt mt n a b, zone_ok mt n a b = true ->
  forall im ss s ss' fuel, sim ss s -> code_at im (m_pc s) (c_stmt rt mt false None (SSet (OpList [Zone n a b]))) ->
  Sem.exec rt mt fuel false ss (SSet (OpList [Zone n a b])) = ROk SigNormal ss' ->
  simulates im ss s ss' (c_stmt rt mt false None (SSet (OpList [Zone n a b]))).
Proof.
  intros rt mt n a b Hz. apply atom_simulation. cbn [simple_atom simple_ops forallb simple_opnd andb]. rewrite Hz. reflexivity.
Qed.
Print Assumptions C01_zone_command_compiled_runs_as_its_source_says.

(* `set L row a b column c d` (one clause or both, in either order; L a string, a constant or a variable; bounds ordinary values or
   call-free expressions, `b` / `d` may be left out): whenever the reference semantics runs the statement -- a fresh matrix of
   the light's size, the rectangle staged with the colour registers, the whole matrix sent once (cells not staged carry the
   default colour) -- the compiled code (WAIT; name; MATRIX; the matrix operand; the two ranges in the order written into the
   row / column registers; COLOR; END; the matrix-light operand; COLOR) runs on the machine model to the instruction behind it
   with exactly the same events, and the states correspond again (the matrix register included). *)
Theorem C01_matrix_command_compiled_runs_as_its_source_says :
  forall rt mt n rows cols rows_first, inline_ok mt n rows cols = true ->
  forall im ss s ss' fuel, sim ss s -> code_at im (m_pc s) (c_stmt rt mt false None (SSet (OpList [MatrixInline n rows cols rows_first]))) ->
  Sem.exec rt mt fuel false ss (SSet (OpList [MatrixInline n rows cols rows_first])) = ROk SigNormal ss' ->
  simulates im ss s ss' (c_stmt rt mt false None (SSet (OpList [MatrixInline n rows cols rows_first]))).
Proof.
  intros rt mt n rows cols rows_first Hz. apply atom_simulation. cbn [simple_atom simple_ops forallb simple_opnd andb]. rewrite Hz. reflexivity.
Qed.
Print Assumptions C01_matrix_command_compiled_runs_as_its_source_says.

Example C01_program_nonvacuous :
  let p := [SDefineRoutine "blink" ["n"; "h"]
              (SBlock [SReg R_HUE (RVar "h");
                       SRepeat (LCount (RVar "n")) (SBlock [SOn OpAll; SIf (RExpr (EBin BGt (EVar "total") (ELit (LInt 2)))) (SReturn (Some (RVar "total"))) None;
                                                            SAssign "total" (RExpr (EBin BAdd (EVar "total") (ELit (LInt 1)))); SOff OpAll]);
                       SPrintln (Some (RVar "n"))]);
            SDefineRoutine "twice" ["k"] (SBlock [SCall "blink" [RVar "k"; RLit (LInt 120)] false; SAssign "k" (RLit (LInt 0)); SCall "blink" [RLit (LInt 1); RVar "k"] true; SReturn None]);
            SDefineRoutine "down" ["n"]
              (SBlock [SIf (RExpr (EBin BLt (EVar "n") (ELit (LInt 1)))) (SReturn None) None; SPrintln (Some (RVar "n"));
                       SCall "up" [RExpr (EBin BSub (EVar "n") (ELit (LInt 1)))] false; SPrintln (Some (RVar "n"))]);
            SDefineRoutine "first_in" ["grp"]
              (SBlock [SRepeat (LIn [SrcGroup (RVar "grp")] "cand" None)
                               (SBlock [SRepeat (LCount (RLit (LInt 2))) (SBlock [SIf (RExpr (EBin BGt (EVar "total") (ELit (LInt 0)))) (SReturn (Some (RVar "cand"))) None; SPrint (Some (RVar "cand"))])]);
                       SReturn (Some (RLit (LStr "nobody")))]);
            SDefineRoutine "up" ["m"] (SBlock [SCall "down" [RVar "m"] false; SAssign "m" (RLit (LInt 99))]);
            SDefineRoutine "sq" ["n"] (SBlock [SIf (RExpr (EBin BLt (EVar "n") (ELit (LInt 0)))) (SReturn (Some (RLit (LInt 0)))) (Some (SReturn (Some (RExpr (EBin BMul (EVar "n") (EVar "n"))))))]);
            SDefineRoutine "pick" ["g2"] (SBlock [SPrintln (Some (RCall "sq" [RLit (LInt 3)])); SReturn (Some (RCall "first_in" [RVar "g2"]))]);
            SDefineRoutine "fact" ["n"]
              (SBlock [SIf (RExpr (EBin BLt (EVar "n") (ELit (LInt 2)))) (SReturn (Some (RLit (LInt 1)))) None;
                       SReturn (Some (RExpr (EBin BMul (EVar "n") (ECall "fact" [RExpr (EBin BSub (EVar "n") (ELit (LInt 1)))]))))]);
            SDefineMacro "turn" (MLit (LInt 120));
            SDefineMacro "lamp" (MLit (LStr "b"));
            SAssign "total" (RLit (LInt 0));
            SAssign "x" (RLit (LInt 0));
            SReg R_HUE (RMacro "turn"); SOn (OpList [Target TLight (NMacro "lamp")]); SPrint None; SPrintln None;
            SCall "down" [RLit (LInt 3)] false;
            SCall "first_in" [RLit (LStr "g")] false;
            SRepeat LInfinite
                    (SBlock [SAssign "x" (RExpr (EBin BAdd (EVar "x") (ELit (LInt 1))));
                             SIf (RExpr (EBin BGt (EVar "x") (ELit (LInt 2)))) SBreak None;
                             SCall "twice" [RVar "x"] false;
                             SPrintln (Some (RVar "x"))]);
            SCall "blink" [RLit (LInt 2); RLit (LInt 5)] false;
            SRepeat (LRange "i" (RVar "total") (RLit (LInt 1)))
                    (SBlock [SIf (RExpr (EBin BLt (EVar "i") (ELit (LInt 2)))) SBreak None; SCall "blink" [RLit (LInt 1); RVar "i"] false; SPrintln (Some (RVar "i"))]);
            SRepeat (LCountWith (RLit (LInt 3)) (WRange "h" (RLit (LInt 10)) (RVar "total"))) (SBlock [SReg R_HUE (RVar "h"); SSet OpAll]);
            SRepeat (LCountWith (RVar "total") (WCycle "c" None)) (SBlock [SReg R_HUE (RVar "c"); SSet OpAll]);
            SRepeat (LAll "x" (Some (WRange "b" (RLit (LInt 10)) (RLit (LInt 90)))))
                    (SBlock [SReg R_BRIGHTNESS (RVar "b"); SSet (OpList [Target TLight (NVar "x")]); SIf (RExpr (EBin BGt (EVar "b") (ELit (LInt 60)))) SBreak None;
                             SRepeat (LGroups "g" None) (SBlock [SPrint (Some (RVar "g")); SOn (OpList [Target TGroup (NVar "g")])])]);
            SRepeat (LIn [SrcLight (RLit (LStr "b")); SrcGroup (RLit (LStr "g")); SrcLight (RVar "x"); SrcLocation (RLit (LStr "nowhere"))] "y" (Some (WRange "s" (RLit (LInt 0)) (RLit (LInt 100)))))
                    (SBlock [SReg R_SATURATION (RVar "s"); SSet (OpList [Target TLight (NVar "y")])]);
            SRepeat (LLocations "q" (Some (WCycle "h" None))) (SBlock [SReg R_HUE (RVar "h"); SSet (OpList [Target TLocation (NVar "q")]); SCall "down" [RLit (LInt 1)] false]);
            SAssign "total" (RLit (LInt 5));
            SCall "first_in" [RLit (LStr "g")] false;
            STimeAt [TPat "8:00" [([8%Z], [0%Z])]; TPat "9:3*" [([9%Z], [30%Z; 31%Z; 32%Z])]]; SSet OpAll;
            SGet (RLit (LStr "a")); SPrintln (Some (RReg R_HUE)); SSet OpDefault;
            SAssign "who" (RCall "pick" [RLit (LStr "g")]); SPrintln (Some (RVar "who"));
            SPrintln (Some (RExpr (EBin BAdd (ECall "fact" [RLit (LInt 5)]) (ENeg (ECall "round" [RVar "total"])))));
            SPrintf "{} of {total} at {hue}, {}" [RVar "x"; RExpr (EBin BMul (EVar "total") (ELit (LInt 2)))];
            SPrintln (Some (RCall "sq" [RCall "round" [RVar "total"]])); SCall "down" [RCall "sq" [RLit (LInt 1)]] false;
            SIf (RExpr (EBin BGt (ECall "sq" [RLit (LInt 3)]) (ELit (LInt 5)))) (SPrintln (Some (RLit (LInt 1)))) (Some (SPrintln (Some (RLit (LInt 0)))));
            SIf (RCall "sq" [RLit (LInt 0)]) (SPrintln (Some (RLit (LInt 1)))) None;
            SAssign "w" (RLit (LInt 0));
            SRepeat (LWhile (RExpr (EBin BLt (ECall "sq" [RVar "w"]) (ELit (LInt 5))))) (SBlock [SAssign "w" (RExpr (EBin BAdd (EVar "w") (ELit (LInt 1)))); SPrintln (Some (RVar "w"))]);
            SSet (OpList [Zone (NStr "strip") (RLit (LInt 1)) (Some (RVar "total")); Target TLight (NStr "a"); Zone (NVar "x") (RExpr (EBin BSub (EVar "total") (ELit (LInt 3)))) None]);
            SRepeat (LCount (RCall "sq" [RLit (LInt 2)])) (SBlock [SPrint (Some (RLit (LInt 7)))]);
            SRepeat (LCount (RExpr (EBin BSub (ECall "round" [RVar "total"]) (ELit (LInt 3))))) (SBlock [SPrintln (Some (RLit (LInt 8)))]);
            SReg R_KELVIN (RReg R_KELVIN);
            SSet (OpList [MatrixInline (NStr "candle") (Some (RLit (LInt 2), None)) None true; MatrixInline (NStr "candle") None (Some (RLit (LInt 0), Some (RLit (LInt 1)))) false]);
            SSet (OpList [MatrixInline (NStr "candle") (Some (RLit (LInt 1), Some (RVar "w"))) (Some (RLit (LInt 0), None)) true;
                          MatrixInline (NVar "who") (Some (RLit (LInt 0), None)) (Some (RExpr (EBin BSub (EVar "total") (ELit (LInt 4))), Some (RLit (LInt 1)))) false]);
            SAssign "r" (RCall "round" [RVar "total"]); SPrintln (Some (RCall "floor" [RExpr (EBin BDiv (EVar "total") (ELit (LInt 2)))]));
            SReg R_HUE (RCall "sq" [RVar "total"]); SPrint (Some (RCall "sq" [RExpr (EBin BSub (EVar "total") (ELit (LInt 7)))]));
            SPrintln (Some (RVar "total"))] in
  let w := [mkLight "a" "g" "l" KPlain [0; 0; 0; 0]; mkLight "" "g" "m" KPlain [0; 0; 0; 0]; mkLight "c" "" "l" KPlain [0; 0; 0; 0]; mkLight "b" "h" "l" KPlain [0; 0; 0; 0]; mkLight "strip" "h" "m" (KMulti 8) [0; 0; 0; 0]; mkLight "candle" "h" "m" (KMatrix 4 2) [0; 0; 0; 0]] in
  Forall (top_stmt_ok (fst (collect p [] [])) (snd (collect p [] []))) p /\ NoDup (map fst (defs_of p)) /\
  exists evs, run_src 400 p w = SFinished evs /\ (12 <= length evs)%nat.
Proof.
  intros p w.
  assert (H : top_ok (fst (collect p [] [])) (snd (collect p [] [])) p) by (apply (top_ok_check _ _ 12); vm_compute; reflexivity).
  destruct H as (H1 & H2 & _). split; [exact H1|]. split; [exact H2|].
  eexists. split; [vm_compute; reflexivity|]. cbn. repeat constructor.
Qed.
