(* C01 -- running a script issues exactly the commands, waits and output its source says.
   Statements only.  "What the source says" is Lang.Sem.run_src (the reference semantics);
   the machine model is Lang.Machine.run_program of the compiled program (Lang.CodeGen.compile). *)
From Coq Require Import ZArith String List Bool.
From Bardolph Require Import Gen.Codes Lang.Value Lang.World Lang.Regs Lang.Devices Lang.Syntax Lang.Sem Lang.SemProofs.
Open Scope Z_scope.

(* An action on a group or location is the same action on each of its members, in name
   order: the events and the resulting light states are those of the single-light action
   applied to the members one after the other, for every population and every registers. *)
Theorem C01_group_action_is_member_actions : forall k rf w g names c d,
  set_members k w (VStr g) = Some names ->
  sent_color rf = Ok c -> sent_duration rf = Ok d ->
  do_color_set k rf w (VStr g) =
  Ok (let '(e, w') := each_member c d w names in mkDev rf w' e).
Proof. exact group_action_is_member_actions. Qed.
Print Assumptions C01_group_action_is_member_actions.

Theorem C01_light_action : forall rf w n c d,
  sent_color rf = Ok c -> sent_duration rf = Ok d ->
  do_color_light rf w (VStr n) = Ok (let '(e, w') := one_light c d w n in mkDev rf w' e).
Proof. exact color_light_is_one_light. Qed.
Print Assumptions C01_light_action.

(* The members of a group (location) are exactly the lights that report it. *)
Theorem C01_members_exact : forall sel w g names y,
  members sel w g = Some names ->
  (In y names <-> exists l, In l w /\ l_name l = y /\ sel l = g).
Proof. exact members_exact. Qed.
Print Assumptions C01_members_exact.

(* Lights joined with `and` share a single delay: one request before the first operand. *)
Theorem C01_and_shares_delay : forall rt mt f s ops,
  exec rt mt (S f) false s (SSet ops) =
  sbind (do_wait s) (fun _ s1 => sbind (exec_ops rt mt f false s1 true ops) (fun _ s2 => ROk SigNormal s2)).
Proof. exact set_requests_one_delay. Qed.
Print Assumptions C01_and_shares_delay.
