(* C14 -- switching units re-expresses settings without changing what the lights get.
   Statements only; proofs live in Num/SwitchProofs.v (binary64 and type-generic statements)
   and Num/SwitchQProofs.v (exact rationals).

     [binary64]  bit-exact over PrimFloat (the translated code of units.py, param_helper.py);
     [Q]         the same translated code read over exact rationals (definitions ..._Q).
   The model of Registers / _switch_unit_mode (Num/Switch.v) is tied to machine.py by the
   shape booleans of Gen/MachineUnitsGen.v and by the correspondence runs. *)
From Coq Require Import ZArith QArith Bool List PrimFloat.
From Bardolph Require Import Base.PyNum Num.UnitsQ Gen.ParamGen Gen.ColorsysGen Gen.UnitsGen Gen.MachineUnitsGen
     Num.UnitsFloat Num.Switch Num.SweepDefs Num.SwitchProofs Num.SwitchQProofs.
Close Scope Q_scope.
Open Scope Z_scope.

Theorem C14_shapes_current : c14_shapes_ok = true.
Proof. reflexivity. Qed.
Print Assumptions C14_shapes_current.

(* [binary64, all register contents] a switch to the mode already in force changes nothing *)
Theorem C14_switch_same_mode_id : forall r : regs float, switch r (r_mode r) = r.
Proof. exact switch_same_mode_id. Qed.
Print Assumptions C14_switch_same_mode_id.

(* [binary64, all register contents] frame: a setting that the documentation's table does not
   list for the transition keeps its value bit for bit ... *)
Theorem C14_switch_frame : forall (r : regs float) to s,
  documented_rewrite (r_mode r) to s = false -> s <> S_kelvin ->
  get_setting s (switch r to) = get_setting s r.
Proof. exact switch_frame. Qed.
Print Assumptions C14_switch_frame.

(* ... and the settings that are assigned are exactly the listed ones (kelvin is assigned the
   fourth component of the converted colour, which is the old kelvin: next theorem) *)
Theorem C14_assigned_is_documented : forall from to s,
  s <> S_kelvin -> assigned from to s = documented_rewrite from to s.
Proof. exact assigned_is_documented. Qed.
Print Assumptions C14_assigned_is_documented.

(* [binary64] kelvin is never altered, by any transition, unless it is negative (raw -> logical
   stores max(kelvin, 0.0)) *)
Theorem C14_switch_keeps_kelvin : forall (r : regs float) to,
  PrimFloat.ltb (r_kelvin r) zero = false -> r_kelvin (switch r to) = r_kelvin r.
Proof. exact switch_keeps_kelvin. Qed.
Print Assumptions C14_switch_keeps_kelvin.

(* [binary64, all register contents] logical -> raw and rgb -> raw: the colour and duration a
   following `set` transmits are bit for bit those it would have transmitted without the switch *)
Theorem C14_switch_to_raw_preserves : forall r : regs float,
  set_transmits (switch r RAW) = set_transmits r.
Proof. exact switch_to_raw_preserves. Qed.
Print Assumptions C14_switch_to_raw_preserves.

(* [binary64, finite sweeps] raw -> logical on all integer raw registers (65 536 values per colour
   component, 262 144 millisecond durations): the same colour (hue 65535 = 0) and duration *)
Theorem C14_switch_preserves_transmission_raw65536 : forall h s b k d t rd gr bl,
  0 <= h <= 65535 -> 0 <= s <= 65535 -> 0 <= b <= 65535 -> 0 <= k <= 65535 -> 0 <= d < 262144 ->
  set_transmits (raw_regs h s b k d t rd gr bl) = mksent (Some (mkcolor h s b k)) None d /\
  set_transmits (switch (raw_regs h s b k d t rd gr bl) LOGICAL)
    = mksent (Some (mkcolor (hue_norm h) s b k)) None d.
Proof. exact switch_preserves_transmission_raw65536. Qed.
Print Assumptions C14_switch_preserves_transmission_raw65536.

(* [Q, all register contents] switching to raw units: transmitted colour and duration identical,
   pending delay equal *)
Theorem C14_switch_to_raw_preserves_Q : forall r : regs Q,
  set_transmits_Q (switch_Q r RAW) = set_transmits_Q r /\
  (r_mode r <> RAW -> Qeq (delay_ms (switch_Q r RAW)) (delay_ms r)).
Proof. intro r. split; [apply switch_to_raw_preserves_Q | apply switch_to_raw_delay_Q]. Qed.
Print Assumptions C14_switch_to_raw_preserves_Q.

(* [Q, registers within the documented ranges] raw -> logical: same colour (hue 65535 = 0), same
   duration, pending delay equal or a delay below 1/131072 ms dropped *)
Theorem C14_switch_raw_to_logical_Q : forall r : regs Q, r_mode r = RAW -> valid_regs r ->
  same_hsbk (sent_color (set_transmits_Q (switch_Q r LOGICAL))) (sent_color (set_transmits_Q r)) /\
  s_duration (set_transmits_Q (switch_Q r LOGICAL)) = s_duration (set_transmits_Q r) /\
  delay_close (delay_ms (switch_Q r LOGICAL)) (delay_ms r).
Proof. exact switch_raw_to_logical_Q. Qed.
Print Assumptions C14_switch_raw_to_logical_Q.

(* [Q] chains: for any set of modes among which every single transition does what the property
   asks (step_ok: registers stay in range, same colour as colours, same duration, delay close),
   every chain of such transitions, of any length, does -- by induction on the chain *)
Theorem C14_chain_from_steps : forall (allowed : unit_mode -> Prop),
  (forall from to, allowed from -> allowed to -> step_ok from to) ->
  forall (l : list unit_mode) (r : regs Q),
    allowed (r_mode r) -> Forall allowed l -> valid_regs r ->
    valid_regs (switch_chain_Q r l) /\
    sent_rel (set_transmits_Q (switch_chain_Q r l)) (set_transmits_Q r) /\
    delay_close (delay_ms (switch_chain_Q r l)) (delay_ms r).
Proof. exact chain_from_steps. Qed.
Print Assumptions C14_chain_from_steps.

(* [Q, registers within the documented ranges] ALL SIX transitions (and the three switches to
   the mode in force): after `units X` the registers are again within the documented ranges, a
   following `set` transmits the same colour (as colours: component-wise with hue 0 = 65535, or
   both black, or both without saturation and equally bright) and the same duration, and the
   pending delay is the same (or a delay below 1/131072 ms was dropped) *)
Theorem C14_switch_preserves_transmission_Q : forall from to (r : regs Q),
  r_mode r = from -> valid_regs r ->
  valid_regs (switch_Q r to) /\
  sent_rel (set_transmits_Q (switch_Q r to)) (set_transmits_Q r) /\
  delay_close (delay_ms (switch_Q r to)) (delay_ms r).
Proof. exact switch_preserves_transmission_Q. Qed.
Print Assumptions C14_switch_preserves_transmission_Q.

(* [Q] ... and so does every chain of `units` statements, of any length *)
Theorem C14_switch_preserves_transmission_chain : forall (l : list unit_mode) (r : regs Q),
  valid_regs r ->
  valid_regs (switch_chain_Q r l) /\
  sent_rel (set_transmits_Q (switch_chain_Q r l)) (set_transmits_Q r) /\
  delay_close (delay_ms (switch_chain_Q r l)) (delay_ms r).
Proof. exact switch_preserves_transmission_chain. Qed.
Print Assumptions C14_switch_preserves_transmission_chain.

(* the hypotheses are satisfiable: the documentation's example registers are in range *)
Example C14_valid_regs_example :
  valid_regs (mkregs (120 # 1) (100 # 1) (100 # 1) (2500 # 1) (0 # 1) (0 # 1) (0 # 1) (3 # 2) (3 # 2) LOGICAL)%Q.
Proof. unfold valid_regs; simpl. repeat split; discriminate. Qed.
