(* C14 -- placeholder while the harness is being brought up; replaced below. *)
From Coq Require Import Bool.
From Bardolph Require Import Gen.MachineUnitsGen.
Theorem C14_shapes_current : small_shapes_ok = true.
Proof. reflexivity. Qed.
Print Assumptions C14_shapes_current.
