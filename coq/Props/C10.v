(* C10 -- delays run on one time line from script start; time-of-day waits restart it.
   Statements only; proofs live in Time/ClockProofs.v.  Model: Time/Clock.v (clock.py's
   reset/et/pause_for/wait_until and Machine._wait as seen from the script thread; the rest of
   the world -- clock readings, ticks of the clock thread, spurious wake-ups, stop requests,
   all their interleavings -- is an arbitrary list of observations).  Specification:
   Time/ClockSpec.v.  Arithmetic is exact (Q). *)
From Coq Require Import QArith ZArith List Bool.
From Bardolph Require Import Gen.ClockGen Time.ClockSpec Time.Clock Time.ClockProofs.
Import ListNotations.
Open Scope Q_scope.

(* The model was written from the texts of now/reset/et/pause_for/wait_until/_hour_minute and
   Machine._wait that the source has now. *)
Theorem C10_source_texts_current : clock_texts_modelled = true.
Proof. exact clock_texts_current. Qed.
Print Assumptions C10_source_texts_current.

(* If the k-th pause_for of a script returns without a stop at reading t, then
   t - start >= d_1 + ... + d_k.  All delay sequences, all observation lists. *)
Theorem C10_never_early : forall S ds o k res,
  nth_error (run_pauses (reset S) ds o) k = Some res ->
  r_out res = Returned ->
  qsum (firstn (Datatypes.S k) ds) <= r_at res - S.
Proof. exact never_early. Qed.
Print Assumptions C10_never_early.

(* A pause that runs to its end returns at the first observation -- on entry or after a
   wake-up -- at which et >= cue; every earlier one was before the deadline and was followed
   by exactly one wait. *)
Theorem C10_returns_at_first_tick : forall c d o,
  r_out (pause_for c d o) = Returned ->
  exists pre x,
    o = pre ++ x :: r_rest (pause_for c d o) /\
    (forall y, In y pre -> rd y - c_start c < c_cue c + d) /\
    c_cue c + d <= rd x - c_start c /\
    r_at (pause_for c d o) = rd x /\
    r_waits (pause_for c d o) = length pre.
Proof. exact returns_at_first_tick. Qed.
Print Assumptions C10_returns_at_first_tick.

(* Behind schedule on entry: the delay ends at once, without waiting, and the cue advances by
   the delay value only. *)
Theorem C10_behind_schedule_no_wait : forall c d x o,
  c_cue c + d <= rd x - c_start c ->
  let res := pause_for c d (x :: o) in
  r_out res = Returned /\ r_waits res = 0%nat /\ r_at res = rd x /\ r_rest res = o /\
  c_cue (r_clock res) = c_cue c + d.
Proof. exact behind_schedule_no_wait. Qed.
Print Assumptions C10_behind_schedule_no_wait.

(* When consecutive readings are at most L apart (the script thread is not held up for more
   than a tick) a pause that had to wait ends less than L after its deadline. *)
Theorem C10_within_one_tick : forall c d o L,
  let res := pause_for c d o in
  r_out res = Returned -> gaps_le L (r_seen res) -> (0 < r_waits res)%nat ->
  r_at res - (c_start c + (c_cue c + d)) < L.
Proof. exact within_one_tick. Qed.
Print Assumptions C10_within_one_tick.

(* The cue of the k-th delay is the sum of the first k delay values and the start is the
   script's start, whatever the readings and the return times were (and whether or not
   earlier delays were cut short): lateness is not accumulated. *)
Theorem C10_lateness_not_accumulated : forall S ds o k res,
  nth_error (run_pauses (reset S) ds o) k = Some res ->
  c_start (r_clock res) = S /\ c_cue (r_clock res) == qsum (firstn (Datatypes.S k) ds).
Proof. exact lateness_not_accumulated. Qed.
Print Assumptions C10_lateness_not_accumulated.

(* After wait_until is over the time line has restarted: start = the reading taken at that
   moment, cue = 0; if it ran to its end, the last look at the time of day matched and no
   earlier one did. *)
Theorem C10_time_at_restarts : forall f c o,
  let res := wait_until f c o in
  r_out res <> OutOfOracle ->
  exists t, r_seen res = [t] /\ c_start (r_clock res) = t /\ c_cue (r_clock res) = 0 /\
            (r_out res = Returned -> judge_looks (r_looks res) = true).
Proof. exact time_at_restarts. Qed.
Print Assumptions C10_time_at_restarts.

(* A zero (or negative) time value never reaches the clock: nothing is observed, nothing waits. *)
Theorem C10_zero_never_blocks : forall t raw c o,
  t <= 0 -> machine_wait (TNum t) raw c o = mkResult c Returned [] [] 0 o.
Proof. exact zero_never_blocks. Qed.
Print Assumptions C10_zero_never_blocks.

(* In raw units the time value is a number of milliseconds. *)
Theorem C10_raw_is_ms : forall t c o,
  machine_wait (TNum t) true c o = machine_wait (TNum (t / 1000)) false c o.
Proof. exact raw_is_ms. Qed.
Print Assumptions C10_raw_is_ms.

Theorem C10_logical_is_seconds : forall t c o,
  0 < t -> machine_wait (TNum t) false c o = pause_for c t o.
Proof. exact logical_is_seconds. Qed.
Print Assumptions C10_logical_is_seconds.

(* The whole statement at once: for every sequence of waits (delays in either unit mode, zero
   delays, time-of-day waits at any positions) and every observation list, a run that no stop
   request cuts short is judged correct by the time-line specification, item by item: each
   delay ends at the first reading at or after origin + sum of the delays since the origin,
   the origin being the script start or the end of the last time-of-day wait. *)
Theorem C10_timeline : forall ws o S rs,
  run_script ws o = (Some S, rs) ->
  Forall (fun r => r_out r = Returned) rs ->
  all_ok (judge S 0 (observe ws rs)) = true.
Proof. exact timeline. Qed.
Print Assumptions C10_timeline.
