(* C06 -- the compiler always ends in accept or a line-numbered rejection, never a crash.
   Statements only.  Proofs: Front/ParserProofs.v (the documented rule violations are
   rejected by the parser model, at the line of the offending token) and Lang/Wf.v (an
   image the control-flow checker accepts never hits an internal control fault).  The
   parser model is a total function: every text is Accepted, Rejected with a line,
   or outside the modelled language; that the Python never raises is exhibited by the
   differential runs of harness/props/c06.py only. *)
From Coq Require Import ZArith String List Bool.
From Bardolph Require Import Gen.Codes Gen.TokenTables Time.TimeSpec Time.TimePattern Lang.Value Lang.Syntax
  Lang.Builtins Lang.Instr Lang.Loader Lang.Machine Lang.Wf Front.Lexer Front.Parser Front.ParserProofs.
Import ListNotations.
Open Scope Z_scope.
Open Scope string_scope.

(* ---- rejected rule violations, for every parser state (any tokens before and after) ---- *)
Theorem C06_reject_break_outside_loop : forall f s,
  ctype s = TT_BREAK -> p_loops s = O -> p_command (S f) s = PErr (cline s).
Proof. exact reject_break_outside_loop. Qed.
Print Assumptions C06_reject_break_outside_loop.

Theorem C06_reject_return_outside_routine : forall f s,
  ctype s = TT_RETURN -> p_in_routine s = false -> p_command (S f) s = PErr (cline s).
Proof. exact reject_return_outside_routine. Qed.
Print Assumptions C06_reject_return_outside_routine.

Theorem C06_reject_assign_to_macro : forall f s,
  ctype s = TT_ASSIGN -> ctype (next s) = TT_NAME -> sym_is_macro (next s) (ctext (next s)) = true ->
  p_command (S f) s = PErr (cline (next s)).
Proof. exact reject_assign_to_macro. Qed.
Print Assumptions C06_reject_assign_to_macro.

Theorem C06_reject_macro_redefined : forall f s v,
  ctype s = TT_DEFINE -> ctype (next s) = TT_NAME ->
  let s2 := next (next s) in
  (routine_start s2)%bool = false ->
  global_macro s2 (ctext (next s)) = Some v ->
  p_command (S f) s = PErr (cline s2).
Proof. exact reject_macro_redefined. Qed.
Print Assumptions C06_reject_macro_redefined.

Theorem C06_reject_macro_redefined_as_routine : forall f s v,
  ctype s = TT_DEFINE -> ctype (next s) = TT_NAME ->
  let s2 := next (next s) in
  (routine_start s2)%bool = true ->
  global_macro s2 (ctext (next s)) = Some v ->
  p_command (S f) s = PErr (cline s2).
Proof. exact reject_macro_redefined_as_routine. Qed.
Print Assumptions C06_reject_macro_redefined_as_routine.

Theorem C06_reject_routine_redefined : forall f s,
  ctype s = TT_DEFINE -> ctype (next s) = TT_NAME ->
  let s2 := next (next s) in
  has_routine s2 (ctext (next s)) = true ->
  p_command (S f) s = PErr (cline s2).
Proof. exact reject_routine_redefined. Qed.
Print Assumptions C06_reject_routine_redefined.

Theorem C06_reject_nested_routine : forall f s,
  ctype s = TT_DEFINE -> ctype (next s) = TT_NAME ->
  let s2 := next (next s) in
  (routine_start s2)%bool = true ->
  p_in_routine s2 = true ->
  p_command (S f) s = PErr (cline s2).
Proof. exact reject_nested_routine. Qed.
Print Assumptions C06_reject_nested_routine.

(* one whole text per documented rule, including a break in a routine that is defined inside a loop *)
Theorem C06_rule_breakers_rejected :
  map parse_text
    ["break"; "repeat 2 begin define f begin break end end"; "define m 5 assign m 6"; "define m 5 define m 6";
     "define m 5 define m begin hue 1 end"; "define f begin hue 1 end define f 5"; "hue x"; "define f begin define g begin hue 1 end end";
     "repeat 2 begin hue 1"; "hue {1 + 2"; "hue {(1 + 2}"; "define f with a begin hue a end hue [f 1"; "time at 25:00"; "time at 8:00 or 12:75"]
  = [Rejected 1; Rejected 1; Rejected 1; Rejected 1; Rejected 1; Rejected 1; Rejected 1; Rejected 1; Rejected 0; Rejected 0; Rejected 1; Rejected 0; Rejected 1; Rejected 1].
Proof. exact rule_breakers_rejected. Qed.
Print Assumptions C06_rule_breakers_rejected.

Theorem C06_reject_undefined_name : forall f s,
  ctype s = TT_NAME -> get_symbol s (ctext s) = None -> st_get (p_globals s) (t_text (cur s)) = None ->
  p_rvalue (S f) s = PErr (cline s).
Proof. exact reject_undefined_name. Qed.
Print Assumptions C06_reject_undefined_name.

Theorem C06_reject_undefined_routine : forall f s,
  is_mark s "[" = false -> get_routine s (ctext s) = None -> p_call (S f) s = PErr (cline s).
Proof. exact reject_undefined_routine. Qed.
Print Assumptions C06_reject_undefined_routine.

Theorem C06_reject_missing_end : forall f s, ctype s = TT_EOF -> p_compound (S f) s = PErr (cline s).
Proof. exact reject_missing_end. Qed.
Print Assumptions C06_reject_missing_end.

Theorem C06_reject_unbalanced_brace : forall f s e s1,
  is_mark s "{" = true -> p_expression f (next s) = POk e s1 -> is_mark s1 "}" = false ->
  p_rvalue (S f) s = PErr (cline s1).
Proof. exact reject_unbalanced_brace. Qed.
Print Assumptions C06_reject_unbalanced_brace.

Theorem C06_reject_unbalanced_paren : forall f s e s1,
  is_mark s "(" = true -> p_expression f (next s) = POk e s1 -> is_mark s1 ")" = false ->
  p_atom (S f) s = PErr (cline s1).
Proof. exact reject_unbalanced_paren. Qed.
Print Assumptions C06_reject_unbalanced_paren.

Theorem C06_reject_unbalanced_bracket : forall f s params args s1,
  is_mark s "[" = true -> get_routine (next s) (ctext (next s)) = Some params ->
  p_args f params (next (next s)) = POk args s1 -> is_mark s1 "]" = false ->
  p_call (S f) s = PErr (cline s1).
Proof. exact reject_unbalanced_bracket. Qed.
Print Assumptions C06_reject_unbalanced_bracket.

Theorem C06_reject_bad_time_pattern : forall f s, time_ref_of s = None -> p_time_list (S f) s = PErr (cline s).
Proof. exact reject_bad_time_pattern. Qed.
Print Assumptions C06_reject_bad_time_pattern.

Theorem C06_bad_time_pattern_token : forall s,
  ctype s = TT_TIME_PATTERN -> from_string (t_text (cur s)) = None -> time_ref_of s = None.
Proof. exact bad_time_pattern_token. Qed.
Print Assumptions C06_bad_time_pattern_token.

(* ---- every accepted script is executable: no internal control fault on a checked image ---- *)
Theorem C06_no_routine_marker_executed : forall im, wf_image im = true ->
  forall s i, reach im s -> fetch im (m_pc s) = Some i -> i_op i <> OC_ROUTINE.
Proof. exact no_routine_marker_executed. Qed.
Print Assumptions C06_no_routine_marker_executed.

Theorem C06_pc_never_outside : forall im, wf_image im = true ->
  forall s, reach im s -> 0 <= m_pc s <= zlength (im_code im).
Proof. exact pc_never_outside. Qed.
Print Assumptions C06_pc_never_outside.

Theorem C06_end_loop_finds_frame : forall im, wf_image im = true ->
  forall s i, reach im s -> fetch im (m_pc s) = Some i -> i_op i = OC_END_LOOP -> exists s', exec im i s = Next s' [].
Proof. exact end_loop_finds_frame. Qed.
Print Assumptions C06_end_loop_finds_frame.

Theorem C06_jsr_finds_routine : forall im, wf_image im = true ->
  forall s i, reach im s -> fetch im (m_pc s) = Some i -> i_op i = OC_JSR ->
  exists p e rt t n, m_frames s = FCall p e rt :: t /\ i_p0 i = PStr n /\
    (is_builtin n = true \/ exists addr ret, find_routine (PStr n) (im_routines im) = Some (addr, ret)).
Proof. exact jsr_finds_routine. Qed.
Print Assumptions C06_jsr_finds_routine.

Theorem C06_return_finds_call : forall im, wf_image im = true ->
  forall s i, reach im s -> fetch im (m_pc s) = Some i -> i_op i = OC_RETURN \/ is_named_end i = true ->
  exists s', do_return s = Next s' [].
Proof. exact return_finds_call. Qed.
Print Assumptions C06_return_finds_call.
