(* C16 -- Compilation depends only on the token sequence; every documented name is usable.
   Statements only; proofs are in Front/LexerProofs.v and Front/LayoutProofs.v. *)
From Coq Require Import ZArith String Ascii List Bool.
From Bardolph Require Import Base.PyStr Gen.TokenTables Gen.LexGen Lang.Value Lang.Instr Lang.Regs Lang.World Lang.Syntax Lang.Sem
  Lang.CodeGen Front.Lexer Front.LexerProofs Front.LayoutProofs.
Open Scope string_scope.
Open Scope list_scope.
Import ListNotations.

(* the pieces of lex.py the lexer model is built from are the ones in the current source *)
Theorem C16_lexer_model_is_current :
  lex_pieces_modelled = true /\ lex_alternation_order_modelled = true /\ lex_tokens_modelled = true /\
  lex_token_type_modelled = true /\ lex_keywords_lowercase_only = true /\ lex_unabbreviate_modelled = true.
Proof. exact lex_source_current. Qed.
Print Assumptions C16_lexer_model_is_current.

(* any white-space character between tokens is skipped *)
Theorem C16_white_space_is_skipped :
  forall f c r line, is_space c = true -> lex_line (S f) (String c r) line = lex_line f r line.
Proof. exact whitespace_is_skipped. Qed.
Print Assumptions C16_white_space_is_skipped.

Theorem C16_comment_runs_to_end_of_line : forall f r line, lex_line (S f) (String "#"%char r) line = [].
Proof. exact comment_ends_line. Qed.
Print Assumptions C16_comment_runs_to_end_of_line.

Theorem C16_abbreviations :
  unabbreviate "H" = "hue" /\ unabbreviate "S" = "saturation" /\ unabbreviate "B" = "brightness" /\ unabbreviate "K" = "kelvin" /\
  word_type "hue" = TT_REGISTER /\ word_type "saturation" = TT_REGISTER /\ word_type "brightness" = TT_REGISTER /\ word_type "kelvin" = TT_REGISTER.
Proof. exact abbreviations. Qed.
Print Assumptions C16_abbreviations.

(* the words a script cannot use as names are the documented keywords -- and `not` and
   `breakpoint`, which the reference does not list (known finding D36) *)
Theorem C16_reserved_words :
  forall w, In w reserved_words <-> In w documented_keywords \/ In w undocumented_reserved.
Proof. exact reserved_words_are. Qed.
Print Assumptions C16_reserved_words.

(* every other name of the documented form is lexed as a NAME with exactly its spelling:
   in particular names that differ from a keyword only in case, and the names of the
   compiler's internal token classes *)
Theorem C16_names_are_free :
  forall w, name_form w = true -> ~ In w reserved_words -> ~ In w lex_reg_list -> ~ In w ["H"; "S"; "B"; "K"] ->
    first_match w = Some (w, EmptyString) /\ unabbreviate w = w /\ is_mark_word w = false /\ word_type w = TT_NAME.
Proof. exact names_are_free. Qed.
Print Assumptions C16_names_are_free.

Theorem C16_call_brackets_same_code :
  forall rt mt in_matrix after f args,
    c_stmt rt mt in_matrix after (SCall f args true) = c_stmt rt mt in_matrix after (SCall f args false).
Proof. exact call_brackets_same_code. Qed.
Print Assumptions C16_call_brackets_same_code.

Theorem C16_braces_round_literal :
  forall rt mt fuel in_matrix s l,
    eval_rval rt mt (S (S fuel)) in_matrix s (RExpr (ELit l)) = eval_rval rt mt (S fuel) in_matrix s (RLit l).
Proof. exact braces_round_literal. Qed.
Print Assumptions C16_braces_round_literal.

Theorem C16_braces_round_variable :
  forall rt mt fuel in_matrix s x, lookup s x <> VNone ->
    eval_rval rt mt (S (S fuel)) in_matrix s (RExpr (EVar x)) = eval_rval rt mt (S fuel) in_matrix s (RVar x).
Proof. exact braces_round_variable. Qed.
Print Assumptions C16_braces_round_variable.

Theorem C16_braces_round_macro :
  forall rt mt fuel in_matrix s m, macro mt m <> VNone ->
    eval_rval rt mt (S (S fuel)) in_matrix s (RExpr (EMacro m)) = eval_rval rt mt (S fuel) in_matrix s (RMacro m).
Proof. exact braces_round_macro. Qed.
Print Assumptions C16_braces_round_macro.

Theorem C16_braces_round_register :
  forall rt mt fuel in_matrix s r, rreg (s_regs s) r <> VNone ->
    eval_rval rt mt (S (S fuel)) in_matrix s (RExpr (EReg r)) = eval_rval rt mt (S fuel) in_matrix s (RReg r).
Proof. exact braces_round_register. Qed.
Print Assumptions C16_braces_round_register.

(* a quoted string may contain any characters other than a double quote: followed on its line by
   text without a double quote it is one token whose content is the text between the quotes.
   (When another quoted string follows on the same line and the text ends in a backslash, the
   implementation joins the two: known finding D34.) *)
Theorem C16_quoted_string_is_one_token :
  forall s rest, no_quote s = true -> no_quote rest = true ->
    alt_string (String.append dq (String.append s (String (ascii_of_nat quote) rest)))
    = Some (String.append dq (String.append s dq), rest).
Proof. exact quoted_string_is_one_token. Qed.
Print Assumptions C16_quoted_string_is_one_token.

Theorem C16_quoted_string_content :
  forall s, no_quote s = true -> string_content (String.append dq (String.append s dq)) = s.
Proof. exact quoted_string_content. Qed.
Print Assumptions C16_quoted_string_content.
