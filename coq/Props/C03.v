(* C03 -- parameters are by-value locals hiding globals; return works from any depth.
   Statements only; proofs in Lang/Scope.v.  The first group is about the reference
   semantics (what the source says), the second relates the machine's call stack to it. *)
From Coq Require Import ZArith String List Bool.
From Bardolph Require Import Gen.Codes Lang.Value Lang.Regs Lang.Builtins Lang.Syntax Lang.Sem
  Lang.Instr Lang.Loader Lang.Machine Lang.Scope.
Import ListNotations.
Open Scope Z_scope.

(* A parameter (or local) hides a global of the same name for the whole body: reads see
   it, assignment changes it, and the global keeps its value. *)
Theorem C03_param_hides_global : forall s l x v,
  s_locals s = Some l -> env_has l x = true ->
  lookup s x = match env_get l x with Some y => y | None => VNone end /\
  s_globals (assign s x v) = s_globals s /\
  lookup (assign s x v) x = v.
Proof. exact param_hides_global. Qed.
Print Assumptions C03_param_hides_global.

(* Assigning to a parameter changes no other name, caller's or global. *)
Theorem C03_assign_param_frame : forall s l x v y,
  s_locals s = Some l -> env_has l x = true -> y <> x ->
  lookup (assign s x v) y = lookup s y.
Proof. exact assign_param_frame. Qed.
Print Assumptions C03_assign_param_frame.

(* Assigning to a name that is a global (and not a parameter/local) updates the global. *)
Theorem C03_assign_global_updates_global : forall s l x v,
  s_locals s = Some l -> env_has l x = false -> env_has (s_globals s) x = true ->
  s_locals (assign s x v) = Some l /\ env_get (s_globals (assign s x v)) x = Some v.
Proof. exact assign_global_updates_global. Qed.
Print Assumptions C03_assign_global_updates_global.

(* Any other name is local to the call: the globals are untouched. *)
Theorem C03_fresh_name_is_local : forall s l x v,
  s_locals s = Some l -> env_has l x = false -> env_has (s_globals s) x = false ->
  s_globals (assign s x v) = s_globals s /\ s_locals (assign s x v) = Some (env_set l x v).
Proof. exact fresh_name_is_local. Qed.
Print Assumptions C03_fresh_name_is_local.

(* Arguments are evaluated in the caller's scope, and every value position, call --
   nested, recursive, used as argument or as operand -- comes back with the caller's own
   parameters and locals exactly as they were: the callee's are gone. *)
Theorem C03_values_keep_caller_scope : forall rt mt fuel,
  (forall m s r, keeps s (eval_rval rt mt fuel m s r)) /\
  (forall m s e, keeps s (eval_expr rt mt fuel m s e)) /\
  (forall m s args, keeps s (eval_args rt mt fuel m s args)) /\
  (forall m s g args, keeps s (call rt mt fuel m s g args)).
Proof. exact values_keep_caller_scope. Qed.
Print Assumptions C03_values_keep_caller_scope.

(* `return v` ends the current call from any depth and delivers v to the point of call. *)
Theorem C03_return_skips_rest : forall rt mt f m s st r v s1,
  Sem.exec rt mt f m s st = ROk (SigReturn v) s1 ->
  exec_seq rt mt (S f) m s (st :: r) = ROk (SigReturn v) s1.
Proof. exact return_skips_rest. Qed.
Print Assumptions C03_return_skips_rest.

Theorem C03_call_delivers_return : forall rt mt f m s g args vs s1 d p v s2,
  eval_args rt mt f m s args = ROk vs s1 ->
  builtin_params g builtin_table = None ->
  find_rdef rt g = Some d ->
  bind_params (rd_params d) vs [] = Some p ->
  Sem.exec rt mt f false (s_with_locals s1 (Some p)) (rd_body d) = ROk (SigReturn v) s2 ->
  call rt mt (S f) m s g args = ROk v (s_with_locals s2 (s_locals s1)).
Proof. exact call_delivers_return. Qed.
Print Assumptions C03_call_delivers_return.

(* The machine's call stack refines that scoping: reads... *)
Theorem C03_get_var_refines : forall g fs x, get_var g fs x = scope_lookup (scope_of g fs) x.
Proof. exact get_var_refines. Qed.
Print Assumptions C03_get_var_refines.

(* ... loop frames are transparent, a frame under construction is invisible to argument evaluation ... *)
Theorem C03_loop_frames_transparent : forall g fs lv d x, get_var g (FLoop lv d :: fs) x = get_var g fs x.
Proof. exact loop_frames_transparent. Qed.
Print Assumptions C03_loop_frames_transparent.

Theorem C03_frame_under_construction_invisible : forall g fs p x,
  get_var g (FCall p false None :: fs) x = get_var g fs x.
Proof. exact frame_under_construction_invisible. Qed.
Print Assumptions C03_frame_under_construction_invisible.

(* ... writes ... *)
Theorem C03_put_var_refines : forall g fs x v, settled fs = true ->
  let '(g', fs') := put_var g fs x v in
  scope_of g' fs' = scope_assign (scope_of g fs) x v /\ settled fs' = true.
Proof. exact put_var_refines. Qed.
Print Assumptions C03_put_var_refines.

(* ... and return pops exactly the loop frames of the current call and the call itself. *)
Theorem C03_return_restores_caller : forall s loops p e ret caller,
  Forall (fun f => match f with FLoop _ _ => True | _ => False end) loops ->
  m_frames s = loops ++ FCall p e (Some ret) :: caller ->
  exists s', do_return s = Next s' [] /\ m_frames s' = caller /\ m_pc s' = ret /\
             m_globals s' = m_globals s /\ m_regs s' = m_regs s.
Proof. exact return_restores_caller. Qed.
Print Assumptions C03_return_restores_caller.

(* ---- forward simulation of calls (Lang/Simulation3.v) ----
   A call `f a b ...` of a user routine, the bodies of all routines covered (settings, assignments, print, wait, set / on / off,
   if / else, blocks, while / counted / indexed / endless loops, break, further calls -- of other routines and of the routine itself,
   to any depth the reference run reaches -- and return), arguments ordinary values or themselves calls with ordinary values
   (`f [g 1] 2`: `plain_args`, `inner_call` -- the inner call runs while the frame of the outer one is under construction: `args_run_gen`),
   anywhere in an image that holds the compiled routine bodies, inside a routine or not: whenever the reference semantics runs the
   call (arguments evaluated in the caller's scope, parameters bound by value as the routine's own variables hiding the globals of
   the same name, the body run, `return` from any depth of loops) the compiled CTX / PARAM / JSR / END_CTX sequence and the
   routine's code run on the machine model to the instruction behind the call, with exactly the same events, the caller's
   evaluation stack as it was and the caller's frames as they were (up to the dictionary of the caller's own routine, which
   assignments in the callee cannot reach), and the correspondence of registers, globals, variables and lights holds again. *)
From Bardolph Require Import Lang.Instr Lang.Loader Lang.CodeGen Lang.ExprCompile Lang.Simulation Lang.CallFrames Lang.Simulation3.

Theorem C03_call_runs_as_its_source_says :
  forall rt mt, bodies_ok rt mt ->                                        (* the body of every routine of the table is covered *)
  forall f args b d, builtin_params f builtin_table = None -> find_rdef rt f = Some d ->
  plain_args rt mt args (rd_params d) = true ->
  forall after im ss s sig ss' fuel, routines_loaded rt mt im -> sim ss s ->
  code_at im (m_pc s) (c_stmt rt mt false after (SCall f args b)) ->
  Sem.exec rt mt fuel false ss (SCall f args b) = ROk sig ss' ->
  sig = SigNormal /\
  exists n s' evs, esteps n im s = Some (s', evs) /\ sim ss' s' /\ m_pc s' = m_pc s + zlength (c_stmt rt mt false after (SCall f args b)) /\
                   (m_stack s', fr s') = (m_stack s, fr s) /\ rev (s_trace ss') = rev (s_trace ss) ++ evs.
Proof. exact call_simulation. Qed.
Print Assumptions C03_call_runs_as_its_source_says.

(* The value of a call, where a statement takes it directly -- `assign y [f a b]`, `hue [f a b]`, `print [f a b]`,
   `println [f a b]` (and `return [f a b]`, which the general theorem covers: `Lang/Simulation3.v`, `B_callret`): the routine's
   body ends in a `return` on every path (`must_return`; a routine that runs into its END leaves RESULT as it was, and the
   documentation does not say what such a call is worth).  Whenever the reference semantics runs the statement -- arguments in
   the caller's scope, the body, the value of the `return` delivered to the point of call and assigned / stored / printed there
   -- the compiled call, the routine's code and the instruction that takes the value from RESULT run on the machine model to
   the instruction behind the statement, with the same events, stack and frames, and the states correspond again: the variable,
   register or output holds the value the `return` gave. *)
From Bardolph Require Import Lang.CallValue.
Theorem C03_value_of_a_call_is_what_return_gave :
  forall rt mt, bodies_ok rt mt ->
  forall u f args d, builtin_params f builtin_table = None -> find_rdef rt f = Some d ->
  plain_args rt mt args (rd_params d) = true -> must_return (rd_body d) = true -> use_ok u = true ->
  forall after im ss s sig ss' fuel, routines_loaded rt mt im -> sim ss s ->
  code_at im (m_pc s) (c_stmt rt mt false after (use_stmt u (RCall f args))) ->
  Sem.exec rt mt fuel false ss (use_stmt u (RCall f args)) = ROk sig ss' ->
  sig = SigNormal /\
  exists n s' evs, esteps n im s = Some (s', evs) /\ sim ss' s' /\ m_pc s' = m_pc s + zlength (c_stmt rt mt false after (use_stmt u (RCall f args))) /\
                   (m_stack s', fr s') = (m_stack s, fr s) /\ rev (s_trace ss') = rev (s_trace ss) ++ evs.
Proof. exact call_value_simulation. Qed.
Print Assumptions C03_value_of_a_call_is_what_return_gave.

(* Calls inside expressions -- `assign y {n * [f {n - 1}]}`, `hue {[g] + 10}`, `print {[round x] / 2}`, and `return {...}` with
   such an expression (`B_retexpr`: the recursive function of the language reference).  [CExpr e]: the calls in e are calls of
   built-in functions or of routines whose body always ends in a return, their arguments ordinary values; the rest of e any
   supported arithmetic.  The operands already computed wait on the evaluation stack while a call runs; the routine's code
   leaves the stack as it found it (`call_runs`), pushes RESULT, and the operators combine the values as the reference semantics
   does, events of the calls in the order of evaluation, left to right. *)
Theorem C03_calls_inside_expressions :
  forall rt mt, bodies_ok rt mt -> forall u e, CExpr rt mt e -> use_ok u = true ->
  forall after im ss s sig ss' fuel, routines_loaded rt mt im -> sim ss s ->
  code_at im (m_pc s) (c_stmt rt mt false after (use_stmt u (RExpr e))) ->
  Sem.exec rt mt fuel false ss (use_stmt u (RExpr e)) = ROk sig ss' ->
  sig = SigNormal /\
  exists n s' evs, esteps n im s = Some (s', evs) /\ sim ss' s' /\ m_pc s' = m_pc s + zlength (c_stmt rt mt false after (use_stmt u (RExpr e))) /\
                   (m_stack s', fr s') = (m_stack s, fr s) /\ rev (s_trace ss') = rev (s_trace ss) ++ evs.
Proof. exact expression_call_simulation. Qed.
Print Assumptions C03_calls_inside_expressions.
