(* C09 -- a stop request ends a running script promptly in every state and is never lost.
   Statements only; proofs live in Time/StopProofs.v.

   Model (Time/Stop.v): the requester, the job threads and the clock threads of one machine at
   shared-access granularity, in the order the Python performs the accesses; a schedule is any
   list of thread ids; scripts are any instruction streams (straight-line prefix, optional
   infinite loop; plain instructions, device commands, timed delays, time-of-day waits) with
   any answers to `et() < cue` and `does the time of day match`.  The requester starts the job
   (Agent.execute: re-arm, start the thread), at ANY later point of the schedule calls stop()
   (write _keep_running := False ; write _keep_going := False), waits for the job thread, and
   starts the same job on the same machine again.  Specification: Time/StopSpec.v.

   `Promptly` is proved as: at most [prompt_bound] = 17 steps of the job thread itself after
   stop() has completed (the instruction in progress, at most one wake-up, the way out of
   run()), whatever the other threads do; real-time latency and OS scheduling are not modelled. *)
From Coq Require Import List Bool Arith.
From Bardolph Require Import Gen.ClockGen Time.StopSpec Time.Stop Time.StopProofs.
Import ListNotations.

(* The model was written from the texts the source has now ... *)
Theorem C09_source_texts_current : stop_texts_modelled = true.
Proof. exact stop_texts_current. Qed.
Print Assumptions C09_source_texts_current.

(* ... and those are the repaired ones: no re-arming of the run flag on the job thread before
   the loop, re-arming by the starter and in `finally`; the clock re-armed by start(); wait()
   with a time-out; wait_until leaving its loop on a stop. *)
Theorem C09_shapes_repaired :
  current_shapes = repaired_shapes /\ shape_agent_prepares = true.
Proof. exact shapes_repaired. Qed.
Print Assumptions C09_shapes_repaired.

(* stop_sticks: in every schedule, once stop() has completed the job thread issues no device
   command after it has looked at the run flag again (only those of the instruction in
   progress) -- whether the stop arrives before the first instruction, between two
   instructions, inside a delay, inside a time-of-day wait, or as the script finishes. *)
Theorem C09_stop_sticks : forall p s1 o1 s2 o2 sched,
  sticks_ok (trace (exec current_shapes (init (prog_stop_rerun p s1 o1 s2 o2)) sched)) = true.
Proof. exact cur_stop_sticks. Qed.
Print Assumptions C09_stop_sticks.

(* stop_terminates (1): in every schedule the job thread takes at most prompt_bound steps of
   its own after stop() has completed. *)
Theorem C09_stop_terminates_bound : forall p s1 o1 s2 o2 sched,
  prompt_ok (trace (exec current_shapes (init (prog_stop_rerun p s1 o1 s2 o2)) sched)) = true.
Proof. exact cur_stop_prompt. Qed.
Print Assumptions C09_stop_terminates_bound.

(* stop_terminates (2): in every reachable configuration every unfinished job thread can move:
   it is never blocked on an event nobody will set (the repaired wait() wakes by time-out). *)
Theorem C09_never_blocked : forall p s1 o1 s2 o2 sched n,
  let c := exec current_shapes (init (prog_stop_rerun p s1 o1 s2 o2)) sched in
  n < length (js c) -> job_done c n = false -> enabled current_shapes c (TJ n) = true.
Proof. exact cur_never_blocked. Qed.
Print Assumptions C09_never_blocked.

(* stop_terminates (3): from any reachable configuration in which stop() has completed, every
   continuation that gives the job thread prompt_bound steps -- in particular every fair one --
   sees it finished, whatever the requester and the clock threads do in between. *)
Theorem C09_stop_terminates : forall p s1 o1 s2 o2 sched1 sched2,
  let c1 := exec current_shapes (init (prog_stop_rerun p s1 o1 s2 o2)) sched1 in
  stop_completed c1 -> prompt_bound <= count_tid (TJ 0) sched2 ->
  job_done (exec current_shapes c1 sched2) 0 = true.
Proof. exact cur_finishes_within. Qed.
Print Assumptions C09_stop_terminates.

(* stop_is_per_run: a run started afterwards through Agent.execute (which re-arms the job) on
   the same machine never finds its run flag or its clock flag cleared by the earlier stop --
   in every schedule, wherever the stop landed. *)
Theorem C09_stop_is_per_run : forall s1 o1 s2 o2 sched,
  per_run_ok (trace (exec current_shapes (init (prog_stop_rerun true s1 o1 s2 o2)) sched)) = true.
Proof. exact cur_stop_is_per_run. Qed.
Print Assumptions C09_stop_is_per_run.

(* ... and when the same job object is executed again directly (no re-arming starter) the same
   holds provided the stop's write of the run flag came before the end of the first run. *)
Theorem C09_stop_is_per_run_direct : forall s1 o1 s2 o2 sched,
  let c := exec current_shapes (init (prog_stop_rerun false s1 o1 s2 o2)) sched in
  landed c <> Some false -> per_run_ok (trace c) = true.
Proof. exact cur_stop_is_per_run_direct. Qed.
Print Assumptions C09_stop_is_per_run_direct.

(* Without that proviso it fails: witness schedule. *)
Theorem C09_late_stop_poisons_next_run_refuted :
  exists sched,
    let c := exec repaired_shapes (init (prog_stop_rerun false (mkScript [IDev 1] []) [] (mkScript [IDev 2] []) [])) sched in
    landed c = Some false /\ per_run_ok (trace c) = false /\ devs_of 1 (trace c) = 0 /\ job_done c 1 = true.
Proof. exact late_stop_poisons_next_run_refuted. Qed.
Print Assumptions C09_late_stop_poisons_next_run_refuted.

(* next_job_starts / stop_all_leaves_queue_empty, over the abstract job controller: when the
   stopped job's thread finishes (C09_stop_terminates) its completion callback makes the head
   of the queue the active job; stop-all empties the queue first, so nothing further starts. *)
Theorem C09_next_job_starts : forall c j h t,
  c_active c = Some j -> c_queue c = h :: t ->
  c_queue (ctl_stop_current c) = h :: t /\
  c_active (ctl_finished (ctl_stop_current c)) = Some h /\ c_queue (ctl_finished (ctl_stop_current c)) = t.
Proof. exact next_job_starts_after_stop. Qed.
Print Assumptions C09_next_job_starts.

Theorem C09_stop_all_leaves_queue_empty : forall c,
  c_queue (ctl_stop_all c) = [] /\
  (forall j, c_active c = Some j -> In j (c_stopped (ctl_stop_all c))) /\
  c_active (ctl_finished (ctl_stop_all c)) = None /\ c_queue (ctl_finished (ctl_stop_all c)) = [].
Proof. exact stop_all_leaves_queue_empty. Qed.
Print Assumptions C09_stop_all_leaves_queue_empty.

(* ---------- the pinned texts (D20, D21, D22, D43): witness schedules ---------- *)

Theorem C09_early_stop_lost_refuted :
  exists sched, let c := exec pinned_shapes (init (prog_stop (mkScript [IDev 1; IDev 2] []) [])) sched in
    sticks_ok (trace c) = false /\ devs_of 0 (trace c) = 2.
Proof. exact early_stop_lost_refuted. Qed.
Print Assumptions C09_early_stop_lost_refuted.

Theorem C09_time_at_unstoppable_refuted :
  exists sched loop,
    let c := exec pinned_shapes (init (prog_stop (mkScript [IWaitUntil; IDev 1] []) [])) sched in
    stop_completed c /\ job_done c 0 = false /\
    enabled pinned_shapes c TR = false /\ enabled pinned_shapes c (TK 0) = false /\
    loop <> [] /\ core (exec pinned_shapes c loop) = core c.
Proof. exact time_at_unstoppable_refuted. Qed.
Print Assumptions C09_time_at_unstoppable_refuted.

Theorem C09_lost_wakeup_refuted :
  exists sched, let c := exec pinned_shapes (init (prog_stop (mkScript [IPause; IDev 1] []) [true; true])) sched in
    stop_completed c /\ job_done c 0 = false /\
    enabled pinned_shapes c TR = false /\ enabled pinned_shapes c (TJ 0) = false /\
    enabled pinned_shapes c (TK 0) = false /\ length (js c) = 1 /\ length (ks c) = 1.
Proof. exact lost_wakeup_refuted. Qed.
Print Assumptions C09_lost_wakeup_refuted.

Theorem C09_stop_overwritten_by_clock_thread_refuted :
  exists sched, let c := exec pinned_shapes (init (prog_stop (mkScript [IPause; IDev 1] []) (rep 10 true))) sched in
    prompt_ok (trace c) = false /\ job_done c 0 = false /\ keep_going c = true.
Proof. exact stop_overwritten_by_clock_thread_refuted. Qed.
Print Assumptions C09_stop_overwritten_by_clock_thread_refuted.
