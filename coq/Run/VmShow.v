(* One-line renderings of values, events and run outcomes for the cases files. *)
From Coq Require Import ZArith String Ascii List Bool PrimFloat FloatOps SpecFloat.
From Bardolph Require Import Base.PyFloat Run.Show Gen.Codes Time.TimeSpec Time.TimeCore
  Lang.Value Lang.Instr Lang.Loader Lang.World Lang.Machine.
Open Scope string_scope.
Open Scope list_scope.
Import ListNotations.
Open Scope Z_scope.

(* floats as sign, odd mantissa, exponent: f-5p-3 ; special values by name *)
Fixpoint strip_twos (fuel : nat) (m e : Z) : Z * Z :=
  match fuel with
  | O => (m, e)
  | S f => if Z.even m && negb (m =? 0) then strip_twos f (m / 2) (e + 1) else (m, e)
  end.
Definition show_float (f : float) : string :=
  match Prim2SF f with
  | S754_nan => "fnan"
  | S754_zero s => if s then "f-0" else "f0"
  | S754_infinity s => if s then "f-inf" else "finf"
  | S754_finite s m e =>
      let '(m', e') := strip_twos 64 (Zpos m) e in
      "f" +++ (if s then "-" else "") +++ show_Z m' +++ "p" +++ show_Z e'
  end.

Definition show_tp (p : tp) : string :=
  sconcat (map (fun a => sconcat (map (fun z => show_Z z +++ ".") (fst a)) +++ ":" +++
                         sconcat (map (fun z => show_Z z +++ ".") (snd a)) +++ "+") p).

Fixpoint show_value (fuel : nat) (v : value) : string :=
  match v with
  | VInt z => "i" +++ show_Z z
  | VFlt f => show_float f
  | VBool b => if b then "bT" else "bF"
  | VStr s => "s" +++ show_str s
  | VNone => "n"
  | VOperand o => "o" +++ operand_name o
  | VMode m => "u" +++ unit_mode_name m
  | VTime p => "t" +++ show_tp p
  | VList l => match fuel with
               | O => "l?"
               | S f => "l[" +++ sconcat (map (fun x => show_value f x +++ ",") l) +++ "]"
               end
  | VMatrix h w _ => "m" +++ show_Z h +++ "x" +++ show_Z w
  end.
Definition show_val := show_value 3.

Definition show_zs (l : list Z) : string := sconcat (map (fun z => show_Z z +++ ",") l).

Definition show_event (e : event) : string :=
  match e with
  | EvColor n c d => "C|" +++ show_str n +++ "|" +++ show_zs c +++ "|" +++ show_Z d
  | EvPower n p d => "P|" +++ show_str n +++ "|" +++ show_Z p +++ "|" +++ show_Z d
  | EvAllColor c d => "AC|" +++ show_zs c +++ "|" +++ show_Z d
  | EvAllPower p d => "AP|" +++ show_Z p +++ "|" +++ show_Z d
  | EvZone n a b c d => "Z|" +++ show_str n +++ "|" +++ show_Z a +++ "|" +++ show_Z b +++ "|" +++ show_zs c +++ "|" +++ show_Z d
  | EvMatrix n cells d => "M|" +++ show_str n +++ "|" +++ sconcat (map (fun c => show_zs c +++ "/") cells) +++ "|" +++ show_val d
  | EvGet n => "G|" +++ show_str n
  | EvPause t => "W|" +++ show_val t
  | EvWaitUntil p => "U|" +++ show_tp p
  | EvOut v => "O|" +++ show_val v
  | EvNewline => "NL"
  | EvFlush => "FL"
  | EvPrintf fmt args named =>
      "F|" +++ show_str fmt +++ "|" +++ sconcat (map (fun v => show_val v +++ ",") args) +++ "|" +++
      sconcat (map (fun p => show_str (fst p) +++ "=" +++ show_val (snd p) +++ ",") named)
  | EvBreakpoint => "BP"
  end.

Definition show_err (e : err) : string :=
  match e with
  | ETypeError => "type"
  | EZeroDiv => "zerodiv"
  | EIndex => "index"
  | EValue => "value"
  | EAssert => "assert"
  | EInternal w => "internal:" +++ w
  | EUnsupported w => "unsupported:" +++ w
  end.

Definition show_events (evs : list event) : string := sconcat (map (fun e => show_event e +++ ";") evs).

Definition show_final (f : final) : string :=
  match f with
  | Finished evs => "FIN#" +++ show_events evs
  | Aborted e evs => "ABORT:" +++ show_err e +++ "#" +++ show_events evs
  | OutOfFuel evs => "FUEL#" +++ show_events evs
  end.

(* entry point: run a compiled (pre-load) program on a world *)
Definition vm_case (fuel : nat) (p : program) (w : world) : string := show_final (run_program fuel p w).

(* loader correspondence: the loaded image as text *)
Definition show_param (p : param) : string :=
  match p with
  | PNone => "-"
  | PInt z => "i" +++ show_Z z
  | PFlt f => show_float f
  | PBool b => if b then "bT" else "bF"
  | PStr s => "s" +++ show_str s
  | PReg r => "R" +++ register_name r
  | PLoopVar v => "L" +++ loopvar_name v
  | POperand o => "o" +++ operand_name o
  | PMode m => "u" +++ unit_mode_name m
  | POperator o => "X" +++ operator_name o
  | PJump c => "J" +++ jumpcond_name c
  | PIoOp o => "I" +++ ioop_name o
  | PSetOp o => "S" +++ setop_name o
  | PTime p => "t" +++ show_tp p
  | POpCode o => "C" +++ opcode_name o
  | POther w => "?" +++ w
  end.
Definition show_instr (i : instr) : string :=
  opcode_name (i_op i) +++ " " +++ show_param (i_p0 i) +++ " " +++ show_param (i_p1 i).
Definition show_program (p : program) : string := sconcat (map (fun i => show_instr i +++ ";") p).
Definition show_image (im : image) : string :=
  show_program (im_code im) +++ "#" +++
  sconcat (map (fun e => show_param (fst e) +++ "@" +++ show_Z (fst (snd e)) +++ "," +++ show_Z (snd (snd e)) +++ ";") (im_routines im)).
Definition load_case (p : program) : string := show_image (load p).
