(* Entry points evaluated by the generated cases files: C08 model side.  A case is a scenario
   (job bodies, client programs), the scheduler's choices, and what the real JobControl did
   under harness/sched.py with these choices: its event log, whether every thread finished,
   and has_jobs() afterwards.  The comparison is made here; only differences are printed. *)
From Coq Require Import ZArith String List Bool.
From Bardolph Require Import Run.Show Jobs.Threads Jobs.JobVocab Jobs.JobControl.
Open Scope string_scope.
Open Scope list_scope.
Import ListNotations.
Open Scope Z_scope.

Definition bodies_of (l : list (Z * body)) : Z -> body :=
  fun j => match find (fun p => fst p =? j) l with Some (_, b) => b | None => BFinish end.

Definition exc_eqb (a b : exc) : bool :=
  match a, b with
  | IndexError, IndexError | KeyError, KeyError | AttributeError, AttributeError
  | RuntimeError, RuntimeError | UserError, UserError => true
  | _, _ => false
  end.
Fixpoint zlist_eqb (a b : list Z) : bool :=
  match a, b with [], [] => true | x :: r, y :: s => (x =? y) && zlist_eqb r s | _, _ => false end.
Definition val_eqb (a b : val) : bool :=
  match a, b with
  | VNone, VNone | VUnit, VUnit => true
  | VRef x, VRef y | VNum x, VNum y => x =? y
  | VBool x, VBool y => Bool.eqb x y
  | VExc x, VExc y => exc_eqb x y
  | VList x, VList y => zlist_eqb x y
  | _, _ => false
  end.
Definition label_eqb (a b : label) : bool :=
  match a, b with
  | LAcquire x, LAcquire y | LRelease x, LRelease y | LRead x, LRead y
  | LDqPopLeft x, LDqPopLeft y | LDqPop x, LDqPop y | LDqLen x, LDqLen y
  | LDqClear x, LDqClear y | LDqList x, LDqList y | LDictLen x, LDictLen y => Nat.eqb x y
  | LWrite x v, LWrite y w | LDqAppend x v, LDqAppend y w | LDqAppendLeft x v, LDqAppendLeft y w
  | LMark x v, LMark y w => Nat.eqb x y && val_eqb v w
  | LDictSet x k v, LDictSet y l w => Nat.eqb x y && (k =? l) && val_eqb v w
  | LDictDel x k, LDictDel y l | LDictHas x k, LDictHas y l | LDictGet x k, LDictGet y l => Nat.eqb x y && (k =? l)
  | LFlagSet x, LFlagSet y | LFlagClear x, LFlagClear y | LFlagTest x, LFlagTest y
  | LFlagWait x, LFlagWait y => x =? y
  | LStart, LStart => true
  | _, _ => false
  end.
Definition entry_eqb (a b : entry) : bool :=
  match a, b with (t, l, v), (u, m, w) => Nat.eqb t u && label_eqb l m && val_eqb v w end.
Fixpoint log_eqb (a b : list entry) : bool :=
  match a, b with [] , [] => true | x :: r, y :: s => entry_eqb x y && log_eqb r s | _, _ => false end.

Definition show_nat (n : nat) : string := show_Z (Z.of_nat n).
Definition show_exc (e : exc) : string :=
  match e with IndexError => "IndexError" | KeyError => "KeyError" | AttributeError => "AttributeError"
  | RuntimeError => "RuntimeError" | UserError => "UserError" end.
Definition show_val (v : val) : string :=
  match v with
  | VNone => "None" | VUnit => "-" | VRef r => "j" +++ show_Z r | VNum n => show_Z n
  | VBool b => show_bool b | VExc e => "!" +++ show_exc e
  | VList l => "[" +++ sconcat (map (fun z => show_Z z +++ ",") l) +++ "]"
  end.
Definition show_label (l : label) : string :=
  match l with
  | LAcquire x => "acquire" +++ show_nat x | LRelease x => "release" +++ show_nat x
  | LRead x => "read" +++ show_nat x | LWrite x v => "write" +++ show_nat x +++ ":" +++ show_val v
  | LDqAppend x v => "append" +++ show_nat x +++ ":" +++ show_val v
  | LDqAppendLeft x v => "appendleft" +++ show_nat x +++ ":" +++ show_val v
  | LDqPopLeft x => "popleft" +++ show_nat x | LDqPop x => "pop" +++ show_nat x
  | LDqLen x => "len" +++ show_nat x | LDqClear x => "clear" +++ show_nat x | LDqList x => "list" +++ show_nat x
  | LDictSet x k v => "dset" +++ show_nat x +++ ":" +++ show_Z k
  | LDictDel x k => "ddel" +++ show_nat x +++ ":" +++ show_Z k
  | LDictHas x k => "dhas" +++ show_nat x +++ ":" +++ show_Z k
  | LDictLen x => "dlen" +++ show_nat x | LDictGet x k => "dget" +++ show_nat x +++ ":" +++ show_Z k
  | LFlagSet x => "fset" +++ show_Z x | LFlagClear x => "fclear" +++ show_Z x
  | LFlagTest x => "ftest" +++ show_Z x | LFlagWait x => "fwait" +++ show_Z x
  | LStart => "start" | LMark k v => "mark" +++ show_nat k +++ ":" +++ show_val v
  end.
Definition show_entry (e : entry) : string :=
  match e with (t, l, v) => "t" +++ show_nat t +++ " " +++ show_label l +++ "=" +++ show_val v end.
Definition show_log (l : list entry) : string := sconcat (map (fun e => show_entry e +++ "; ") l).

Record case := {
  c_variant : variant; c_bodies : list (Z * body); c_clients : list (list op); c_choices : list Z;
  c_log : list entry; c_finished : bool; c_has_jobs : bool }.

Fixpoint first_diff (n : Z) (a b : list entry) : Z :=
  match a, b with
  | x :: r, y :: s => if entry_eqb x y then first_diff (n + 1) r s else n
  | _, _ => n
  end.

(* "=" when the model reproduces the real run, else where and what the model did *)
Definition model_case (c : case) : string :=
  let m := run_model (bodies_of (c_bodies c)) (c_variant c) (c_clients c) (c_choices c) in
  let ml := log m in
  let fin := quiescentb pc (code (bodies_of (c_bodies c)) (c_variant c)) m in
  if log_eqb ml (c_log c) && Bool.eqb fin (c_finished c) && Bool.eqb (has_jobs_of m) (c_has_jobs c)
  then "="
  else let d := first_diff 0 ml (c_log c) in
       "DIFF at " +++ show_Z d +++ " finished=" +++ show_bool fin
       +++ " has_jobs=" +++ show_bool (has_jobs_of m) +++ " model log from " +++ show_Z (Z.max 0 (d - 4)) +++ ": "
       +++ show_log (firstn 14 (skipn (Z.to_nat (d - 4)) ml)).
Definition model_cases (l : list case) : string := sconcat (map (fun c => model_case c +++ "|") l).

(* the model's own run, printed (replay, diagnostics) *)
Definition model_show (once : variant) (bs : list (Z * body)) (cl : list (list op)) (ch : list Z) : string :=
  show_log (log (run_model (bodies_of bs) once cl ch)).

(* which branches of the access programs a run exercised: (point before, point after) of every
   step, recovered by replaying the thread ids of the model's own log *)
Definition show_point (p : point) : string :=
  match p with
  | Ret => "Ret" | RetV _ => "RetV" | RelV _ => "RelV" | Unw _ => "Unw"
  | Enq0 _ f => if f then "Ins0" else "Add0" | Enq1 _ f => if f then "Ins1" else "Add1" | Enq2 => "Enq2"
  | Run0 => "Run0" | Run1 => "Run1" | Run2 => "Run2" | Run3 => "Run3" | Run4 _ => "Run4" | Run5 _ => "Run5" | Run6 _ => "Run6"
  | Done0 _ => "Done0" | Done1 _ => "Done1" | Done2 => "Done2"
  | Sp0 _ => "Sp0" | Sp1 _ => "Sp1" | Sp2 _ => "Sp2" | Bg0 _ => "Bg0" | Bg1 _ => "Bg1"
  | Job0 _ q => if q then "Job0q" else "Job0b" | Job1 _ q => if q then "Job1q" else "Job1b"
  | Job2 _ q => if q then "Job2q" else "Job2b"
  | Clear0 => "Clear0" | Clear1 => "Clear1" | Has0 => "Has0" | Has1 => "Has1" | Has2 => "Has2"
  | Isr0 _ => "Isr0" | Isr1 _ => "Isr1" | Isr2 _ => "Isr2" | Cur0 => "Cur0" | Qd0 => "Qd0" | Stop0 _ => "Stop0"
  | Sj0 _ => "Sj0" | Sj1 _ => "Sj1" | Sj2 _ => "Sj2" | Sj3 => "Sj3" | Sj4 _ => "Sj4" | Sj5 _ => "Sj5" | Sj6 _ => "Sj6"
  end.
Definition kont_tag (k : kont) : string :=
  match k with KClient [] => "end" | KClient _ => "" | KJob => "job" | KRel _ => "rel" | KRetV _ _ => "val" end.
Definition show_pc (p : pc) : string :=
  match fst p with
  | Ret | Unw _ => show_point (fst p) +++ "." +++ kont_tag (snd p)
  | _ => show_point (fst p)
  end.
Definition pc_at (c : config pc) (t : nat) : string :=
  match nth_error (thr c) t with Some p => show_pc p | None => "?" end.
Fixpoint edges (bd : Z -> body) (once : variant) (c : config pc) (tids : list nat) : string :=
  match tids with
  | [] => ""
  | t :: r =>
      match step pc (code bd once) c t with
      | Some c' => pc_at c t +++ ">" +++ pc_at c' t +++ ";" +++ edges bd once c' r
      | None => ""
      end
  end.
Definition model_edges (c : case) : string :=
  let bd := bodies_of (c_bodies c) in
  edges bd (c_variant c) (jc_init (c_clients c)) (map (fun e => fst (fst e)) (c_log c)).
Definition model_edges_cases (l : list case) : string := sconcat (map (fun c => model_edges c +++ "|") l).
