(* Entry points evaluated by the generated cases files: C14 model side (Num/Switch.v). *)
From Coq Require Import ZArith QArith String Ascii List Bool PrimFloat.
From Bardolph Require Import Base.PyNum Run.Show Gen.UnitsGen Num.UnitsFloat Num.Switch.
From Bardolph Require Export Run.C07Model.
Open Scope string_scope.
Open Scope list_scope.
Import ListNotations.
Close Scope Q_scope.
Open Scope Z_scope.

(* registers in the order hue saturation brightness kelvin red green blue duration time *)
Definition regs_of_list (m : Z) (l : list float) : regs float :=
  let g i := nth i l PrimFloat.zero in
  mkregs (g 0%nat) (g 1%nat) (g 2%nat) (g 3%nat) (g 4%nat) (g 5%nat) (g 6%nat) (g 7%nat) (g 8%nat) (mode_of m).

Definition reg_codes (r : regs float) : list Z :=
  map float_code [r_hue r; r_saturation r; r_brightness r; r_kelvin r; r_red r; r_green r; r_blue r; r_duration r; r_time r].

(* initial mode, registers, chain of `units` statements: the registers afterwards, what a
   following `set "light"` hands over, and the pending pause *)
Definition switch_case (c : Z * list float * list Z) : string :=
  let '(m, l, chain) := c in
  let r := switch_chain (regs_of_list m l) (map mode_of chain) in
  show_zs (reg_codes r) +++ "|" +++ show_sent (set_transmits r) +++ "|" +++
  match pending_wait r with None => "N" | Some s => show_Z (float_code s) end.
Definition switch_cases (l : list (Z * list float * list Z)) : string :=
  sconcat (map (fun c => switch_case c +++ ";") l).
