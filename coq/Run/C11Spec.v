(* Entry points evaluated by the generated cases files: C11 specification side. *)
From Coq Require Import ZArith String Ascii List Bool.
From Bardolph Require Import Base.PyStr Run.Show Time.TimeSpec.
Open Scope string_scope.
Open Scope list_scope.
Import ListNotations.
Open Scope Z_scope.

(* digest of a 24x60 truth table: number of true entries, sum and sum of squares of
   their indices h*60+m+1 *)
Definition digest (f : Z -> Z -> bool) : string :=
  let idxs := flat_map (fun h => map (fun m => (h, m)) (zrange 0 60)) (zrange 0 24) in
  let '(n, s1, s2) := fold_left (fun acc hm =>
      let '(n, s1, s2) := acc in
      let i := fst hm * 60 + snd hm + 1 in
      if f (fst hm) (snd hm) then (n + 1, s1 + i, s2 + i * i) else acc) idxs (0, 0, 0) in
  show_Z n +++ "," +++ show_Z s1 +++ "," +++ show_Z s2.

Definition table (f : Z -> Z -> bool) : string :=
  sconcat (map (fun h => sconcat (map (fun m => if f h m then "1" else "0") (zrange 0 60))) (zrange 0 24)).

(* truth tables as lists of 1440 booleans (h*60+m), computed from the two field vectors *)
Definition field_table (s : string) : option (list bool) :=
  match spec_fields s with
  | None => None
  | Some (hs, ms) =>
      let mv := map (denotes_m ms) (zrange 0 60) in
      Some (flat_map (fun h => if denotes_h hs h then mv else map (fun _ => false) mv) (zrange 0 24))
  end.

Definition digest_tab (t : list bool) : string :=
  let '(_, n, s1, s2) := fold_left (fun acc b =>
      let '(i, n, s1, s2) := acc in
      if b : bool then (i + 1, n + 1, s1 + i, s2 + i * i) else (i + 1, n, s1, s2)) t (1, 0, 0, 0) in
  show_Z n +++ "," +++ show_Z s1 +++ "," +++ show_Z s2.

Definition show_tab (t : list bool) : string :=
  fold_right (fun (b : bool) acc => String (if b then "1" else "0")%char acc) EmptyString t.

Definition spec_case (s : string) : string :=
  match field_table s with
  | None => "N"
  | Some t => let d := digest_tab t in if String.eqb d "0,0,0" then "N" else "A" +++ d
  end.

Fixpoint or_tab (a b : list bool) : list bool :=
  match a, b with
  | x :: a', y :: b' => (x || y)%bool :: or_tab a' b'
  | _, _ => []
  end.
Definition empty_tab : list bool := map (fun _ => false) (zrange 0 1440).
Definition spec_or_tab (ss : list string) : list bool :=
  fold_left (fun acc s => match field_table s with Some t => or_tab acc t | None => acc end) ss empty_tab.
Definition spec_or_case (ss : list string) : string := digest_tab (spec_or_tab ss).
Definition spec_or_table (ss : list string) : string := show_tab (spec_or_tab ss).

Definition spec_cases (l : list string) : string := sconcat (map (fun s => spec_case s +++ ";") l).
Definition spec_or_cases (l : list (list string)) : string := sconcat (map (fun s => spec_or_case s +++ ";") l).
