(* Entry points evaluated by the generated cases files: C12 model side. *)
From Coq Require Import ZArith String Ascii List Bool.
From Bardolph Require Import Run.Show Gen.FaultsGen Lights.Retry Lights.Faults Run.C12Spec.
Open Scope string_scope.
Open Scope list_scope.
Import ListNotations.
Open Scope Z_scope.

Definition show_reason (r : abort_reason) : string :=
  match r with
  | AbWorkflow => "workflow" | AbAttribute => "attribute" | AbType => "type" | AbSize => "size" | AbIndex => "index"
  end.
Definition show_result (r : result) : string :=
  match r with Continue => "C" | Abort a => "A" +++ show_reason a end.
Definition show_end (e : discover_end) : string :=
  match e with Reported true => "T" | Reported false => "F" | Raised => "R" end.
Definition show_view (v : dir_view) : string :=
  sconcat (map (fun x => show_str (fst x) +++ ":" +++ show_Z (fst (snd x)) +++ ":" +++ show_Z (snd (snd x)) +++ ";") v).

Definition zero_colors : dev -> list Z := fun _ => [0; 0; 0; 0].
Definition colors_of (l : list (dev * list Z)) : dev -> list Z :=
  fun d => match find (fun x => fst x =? d) l with Some x => snd x | None => [0; 0; 0; 0] end.

(* one group of cases: the network is discovered once (from an empty directory, under its own
   plan); then every run of the group executes its commands under its own plan with fresh
   occurrence counters and device colours *)
Record mrun : Type := mkrun {
  m_id : Z;
  m_rplan : list (dev * rkind * stream);
  m_cmds : list cmd;
  m_expect : string          (* what the implementation did: "<result>|<requests>" *)
}.
Record mgroup : Type := mkgroup {
  g_id : Z;
  g_net : network;
  g_colors : list (dev * list Z);     (* what each light answers to get_color initially *)
  g_dplan : list (dev * rkind * stream);
  g_expect : string;         (* "D<end>|<discovery requests>|<directory>|" *)
  g_runs : list mrun
}.

Definition model_run (dir : directory) (colors : dev -> list Z) (r : mrun) : string :=
  let '(_, res, t) := run current dir (init_state (plan_of_list (m_rplan r)) [0; 0; 0; 0] colors) (m_cmds r) in
  show_result res +++ "|" +++ show_trace t.

(* compare inside Coq: print only the cases whose model value differs from what the
   implementation did *)
Definition model_group (g : mgroup) : string :=
  let '(_, e, dir, dt) := discover current [] (init_state (plan_of_list (g_dplan g)) [0; 0; 0; 0] zero_colors) (g_net g) in
  let head := "D" +++ show_end e +++ "|" +++ show_trace dt +++ "|" +++ show_view (view dir) +++ "|" in
  (if String.eqb head (g_expect g) then "" else show_Z (g_id g) +++ "=" +++ head +++ "#") +++
  match e with
  | Reported true =>
      sconcat (map (fun r =>
        let got := model_run dir (colors_of (g_colors g)) r in
        if String.eqb got (m_expect r) then "" else show_Z (m_id r) +++ "=" +++ got +++ "#") (g_runs g))
  | _ => ""
  end.
Definition model_check (l : list mgroup) : string := sconcat (map model_group l).

(* a second discovery on top of a directory obtained from a first one *)
Definition model_rediscover (net1 net2 : network) (p2 : list (dev * rkind * stream)) : string :=
  let '(_, _, dir1, _) := discover current [] (init_state no_faults [0; 0; 0; 0] zero_colors) net1 in
  let '(_, e, dir2, t) := discover current dir1 (init_state (plan_of_list p2) [0; 0; 0; 0] zero_colors) net2 in
  "D" +++ show_end e +++ "|" +++ show_trace t +++ "|" +++ show_view (view dir1) +++ "|" +++ show_view (view dir2).
Definition model_rediscover_check (l : list (Z * network * network * list (dev * rkind * stream) * string)) : string :=
  sconcat (map (fun x =>
    let '(i, n1, n2, p2, want) := x in
    let got := model_rediscover n1 n2 p2 in
    if String.eqb got want then "" else show_Z i +++ "=" +++ got +++ "#") l).

(* retry.tries itself, for the direct comparison with bardolph.lib.retry.tries: the call
   would return 1, the fail value is 0; printed: G|A (gave up / answered), value, attempts,
   outcomes left *)
Definition model_tries_case (c : nat * list bool) : string :=
  let '(r, attempts, rest) := tries (fst c) 1 0 (snd c) in
  (if gave_up r then "G" else "A") +++ show_Z (tried_value r) +++ "," +++ show_Z (Z.of_nat attempts) +++ ","
  +++ show_Z (Z.of_nat (length rest)) +++ "," +++ show_outs (tries_outcomes (fst c) (snd c)) +++ ";".
Definition model_tries_cases (l : list (nat * list bool)) : string := sconcat (map model_tries_case l).
