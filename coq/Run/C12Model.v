(* Entry points evaluated by the generated cases files: C12 model side. *)
From Coq Require Import ZArith String Ascii List Bool.
From Bardolph Require Import Run.Show Gen.FaultsGen Lights.Retry Lights.Faults Run.C12Spec.
Open Scope string_scope.
Open Scope list_scope.
Import ListNotations.
Open Scope Z_scope.

Definition show_reason (r : abort_reason) : string :=
  match r with
  | AbWorkflow => "workflow" | AbAttribute => "attribute" | AbType => "type" | AbSize => "size" | AbIndex => "index"
  end.
Definition show_result (r : result) : string :=
  match r with Continue => "C" | Abort a => "A" +++ show_reason a end.
Definition show_end (e : discover_end) : string :=
  match e with Reported true => "T" | Reported false => "F" | Raised => "R" end.
Definition show_view (v : dir_view) : string :=
  sconcat (map (fun x => show_str (fst x) +++ ":" +++ show_Z (fst (snd x)) +++ ":" +++ show_Z (snd (snd x)) +++ ";") v).

Definition zero_colors : dev -> list Z := fun _ => [0; 0; 0; 0].
Definition colors_of (l : list (dev * list Z)) : dev -> list Z :=
  fun d => match find (fun x => fst x =? d) l with Some x => snd x | None => [0; 0; 0; 0] end.

(* one case: the network is discovered (from an empty directory, under its own plan), then
   the commands run under the run's plan with fresh occurrence counters *)
Record mcase : Type := mkcase {
  m_id : Z;
  m_net : network;
  m_colors : list (dev * list Z);     (* what each light answers to get_color initially *)
  m_dplan : list (dev * rkind * stream);
  m_rplan : list (dev * rkind * stream);
  m_cmds : list cmd
}.

Definition model_case (c : mcase) : string :=
  let '(_, e, dir, dt) := discover current [] (init_state (plan_of_list (m_dplan c)) [0; 0; 0; 0] zero_colors) (m_net c) in
  let head := "D" +++ show_end e +++ "|" +++ show_trace dt +++ "|" +++ show_view (view dir) +++ "|" in
  match e with
  | Raised => head
  | Reported _ =>
      let '(_, res, t) := run current dir (init_state (plan_of_list (m_rplan c)) [0; 0; 0; 0] (colors_of (m_colors c))) (m_cmds c) in
      head +++ show_result res +++ "|" +++ show_trace t
  end.

(* compare inside Coq: print only the cases whose model value differs from what the
   implementation did (written by the harness as the expected string) *)
Definition model_check (l : list (mcase * string)) : string :=
  sconcat (map (fun ce =>
    let got := model_case (fst ce) in
    if String.eqb got (snd ce) then "" else show_Z (m_id (fst ce)) +++ "=" +++ got +++ "#") l).

(* a second discovery on top of a directory obtained from a first one *)
Definition model_rediscover (net1 net2 : network) (p2 : list (dev * rkind * stream)) : string :=
  let '(_, _, dir1, _) := discover current [] (init_state no_faults [0; 0; 0; 0] zero_colors) net1 in
  let '(_, e, dir2, t) := discover current dir1 (init_state (plan_of_list p2) [0; 0; 0; 0] zero_colors) net2 in
  "D" +++ show_end e +++ "|" +++ show_trace t +++ "|" +++ show_view (view dir1) +++ "|" +++ show_view (view dir2).
Definition model_rediscover_check (l : list (Z * network * network * list (dev * rkind * stream) * string)) : string :=
  sconcat (map (fun x =>
    let '(i, n1, n2, p2, want) := x in
    let got := model_rediscover n1 n2 p2 in
    if String.eqb got want then "" else show_Z i +++ "=" +++ got +++ "#") l).
