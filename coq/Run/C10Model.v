(* Entry points evaluated by the generated cases files: C10 model side. *)
From Coq Require Import QArith ZArith String Ascii List Bool.
From Bardolph Require Import Base.PyStr Run.Show Time.TimeSpec Time.TimePattern Time.ClockSpec Time.Clock Run.C10Spec.
Open Scope string_scope.
Open Scope list_scope.
Import ListNotations.
Open Scope Z_scope.

(* the pattern object `time at t1 or t2 ...` builds (model of C11), as a match function *)
Definition pattern_of (texts : list string) : Z -> Z -> bool :=
  match map from_string texts with
  | Some p :: rest =>
      tp_match (tp_union_all p (flat_map (fun o => match o with Some q => [q] | None => [] end) rest))
  | _ => fun _ _ => false
  end.

Definition model_wait (i : citem) : timeval * bool :=
  match i with
  | CD raw t => (TNum t, raw)
  | CT texts => (TPat (pattern_of texts), false)
  end.

Definition mk_obs (x : Q * Z * Z * bool) : obs :=
  match x with (r, h, m, k) => mkObs r (h, m) k end.

Definition show_outcome (o : outcome) : string :=
  match o with Returned => "R" | Stopped => "S" | OutOfOracle => "O" end.

Definition show_result (r : result) : string :=
  show_outcome (r_out r) +++ "," +++ show_Z (Z.of_nat (r_waits r)) +++ "," +++
  show_Z (Z.of_nat (length (r_seen r) + length (r_looks r))) +++ "," +++
  show_Q (c_start (r_clock r)) +++ "," +++ show_Q (c_cue (r_clock r)) +++ ";".

(* a whole script: start reading, then per WAIT: outcome, number of wait() calls, number of
   looks taken, _start_time and _cue_time afterwards; finally the number of unused observations *)
Definition model_case (items : list citem) (oracle : list (Q * Z * Z * bool)) : string :=
  match run_script (map model_wait items) (map mk_obs oracle) with
  | (None, _) => "no-start"
  | (Some S0, rs) =>
      show_Q S0 +++ ";" +++ sconcat (map show_result rs) +++
      "rest=" +++ show_Z (Z.of_nat (match rev rs with r :: _ => length (r_rest r) | [] => length oracle - 1 end))
  end.
