(* Entry point: the lexer model. *)
From Coq Require Import ZArith String List Bool.
From Bardolph Require Import Run.Show Gen.TokenTables Front.Lexer.
Open Scope string_scope.
Definition show_token (t : token) : string :=
  token_type_name (t_type t) +++ "|" +++ show_str (t_text t) +++ "|" +++ show_Z (t_line t).
Definition lex_case (text : string) : string := sconcat (map (fun t => show_token t +++ ";") (lex text)).
