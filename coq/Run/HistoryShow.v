(* C17 entry point: compile a text with a compiler object that earlier work left dirty. *)
From Coq Require Import ZArith String List Bool.
From Bardolph Require Import Run.Show Run.VmShow Lang.Syntax Lang.Instr Lang.CodeGen Front.Lexer Front.Parser Lang.History Gen.TokenTables.
Open Scope string_scope.
Import ListNotations.
(* an object state as a compile rejected inside a routine, a matrix block and two loops leaves it *)
Definition dirty_parser : pst :=
  mkP [mkTok TT_END "end" 3; mkTok TT_EOF "" 0] [] [("a", SyVar); ("print", SyVar)] true true 2.
Definition history_case (text : string) : string :=
  match compile_on dirty_parser text with
  | Accepted p => "A#" +++ show_program (compile p)
  | Rejected l => "R#" +++ show_Z l
  | Unmodelled w => "U#" +++ w
  | Parser.OutOfFuel => "F#"
  end.
