(* Entry points for the reference semantics. *)
From Coq Require Import ZArith String List Bool PrimFloat.
From Bardolph Require Import Run.Show Run.VmShow Gen.Codes Time.TimeSpec Time.TimePattern
  Lang.Value Lang.World Lang.Syntax Lang.Sem.
Open Scope string_scope.
Open Scope list_scope.
Import ListNotations.
Open Scope Z_scope.

Definition show_sfinal (f : sfinal) : string :=
  match f with
  | SFinished evs => "FIN#" +++ show_events evs
  | SAborted e evs => "ABORT:" +++ show_err e +++ "#" +++ show_events evs
  | SOutOfFuel evs => "FUEL#" +++ show_events evs
  end.

Definition sem_case (fuel : nat) (p : script) (w : world) : string := show_sfinal (run_src fuel p w).

From Bardolph Require Import Lang.Instr Lang.CodeGen.
Definition compile_case (p : script) : string := show_program (compile p).
