(* Entry points for the reference semantics. *)
From Coq Require Import ZArith String List Bool PrimFloat.
From Bardolph Require Import Run.Show Run.VmShow Gen.Codes Time.TimeSpec Time.TimeCore
  Lang.Value Lang.World Lang.Syntax Lang.Sem.
Open Scope string_scope.
Open Scope list_scope.
Import ListNotations.
Open Scope Z_scope.

Definition show_sfinal (f : sfinal) : string :=
  match f with
  | SFinished evs => "FIN#" +++ show_events evs
  | SAborted e evs => "ABORT:" +++ show_err e +++ "#" +++ show_events evs
  | SOutOfFuel evs => "FUEL#" +++ show_events evs
  end.

Definition sem_case (fuel : nat) (p : script) (w : world) : string := show_sfinal (run_src fuel p w).

From Bardolph Require Import Lang.Instr Lang.CodeGen.
Definition compile_case (p : script) : string := show_program (compile p).

(* whether the script lies in the fragment for which the forward simulation is a theorem
   (Lang/SimulationTop.v, covered_program_runs_as_its_source_says: every top-level statement a routine definition with a covered body
   or a covered statement, no routine defined twice) -- reported by the language checks as the share of their generated scripts
   for which reference semantics and machine model agree by proof rather than by the run *)
From Bardolph Require Import Lang.Simulation3 Lang.SimulationTop.
Definition covered_case (p : script) : string :=
  let c := collect p [] [] in
  if forallb (top_stmt_b (fst c) (snd c) 40) p && nodup_b (map fst (defs_of p)) then "covered" else "outside".
