(* Entry points evaluated by the generated cases files: C15 specification side.
   Colours are identifiers (Z) chosen by the harness, one per colour setting of the
   script; "what a plain `set` transmits for it" is resolved by the harness from the
   real pipeline (relational oracle), so set_tx is the identity here and black is -1. *)
From Coq Require Import ZArith String List Bool.
From Bardolph Require Import Base.PyStr Run.Show Lang.MatrixSpec.
Open Scope string_scope.
Open Scope list_scope.
Import ListNotations.
Open Scope Z_scope.

Definition id_tx (m : mode) (c : Z) : Z := c.
Definition black_id : Z := -1.

Definition show_cells (l : list Z) : string := sconcat (map (fun z => show_Z z +++ " ") l).

Definition show_sevent (e : sevent Z) : string :=
  match e with
  | SESet l tx => "S," +++ show_Z l +++ "," +++ show_Z tx
  | SEZone l a b tx => "Z," +++ show_Z l +++ "," +++ show_Z a +++ "," +++ show_Z b +++ "," +++ show_Z tx
  | SEMatrix l h w cells => "M," +++ show_Z l +++ "," +++ show_Z h +++ "," +++ show_Z w +++ "," +++ show_cells cells
  end.

(* one script: its events separated by "|" *)
Definition spec_script (prog : list (stmt Z)) : string :=
  sconcat (map (fun e => show_sevent e +++ "|") (spec_run Z id_tx black_id prog Logical None)).

(* is every statement inside the domain the theorems cover? *)
Definition spec_in_domain (prog : list (stmt Z)) : string :=
  show_bool (forallb (stmt_ok Z) prog).

Definition spec_script1 (p : list (stmt Z)) : string := spec_in_domain p +++ spec_script p.
