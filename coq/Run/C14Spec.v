(* Entry points evaluated by the generated cases files: C14 specification side. *)
From Coq Require Import ZArith QArith String Ascii List Bool PrimFloat.
From Bardolph Require Import Base.PyNum Run.Show Num.UnitsQ.
From Bardolph Require Export Run.C07Spec.
Open Scope string_scope.
Open Scope list_scope.
Import ListNotations.
Close Scope Q_scope.
Open Scope Z_scope.

(* settings in the order the harness prints them *)
Definition setting_of (z : Z) : setting :=
  match z with
  | 0 => S_hue | 1 => S_saturation | 2 => S_brightness | 3 => S_kelvin
  | 4 => S_red | 5 => S_green | 6 => S_blue | 7 => S_duration | _ => S_time
  end.

(* one transition: from, to, the nine settings before and after.  For each setting: "=" it may
   have been rewritten (documented) or it is bit-for-bit the same number; "!" it is not in the
   documented list and changed.  A switch to the mode in force may change nothing. *)
Definition frame_case (c : Z * Z * list float * list float) : string :=
  let '(f, t, before, after) := c in
  let same i := let a := nth i before PrimFloat.nan in let b := nth i after PrimFloat.nan in
                same_float a b || PrimFloat.eqb a b in
  sconcat (map (fun i =>
    if (f =? t) then (if same (Z.to_nat i) then "=" else "!")
    else if doc_rewritten (smode_of f) (smode_of t) (setting_of i) then "="
    else if same (Z.to_nat i) then "=" else "!") [0; 1; 2; 3; 4; 5; 6; 7; 8]).
Definition frame_cases (l : list (Z * Z * list float * list float)) : string :=
  sconcat (map (fun c => frame_case c +++ ";") l).

(* pending delays (seconds handed to the clock; None = no pause) agree to within one millisecond *)
Definition same_delay_case (c : option float * option float) : string :=
  match c with
  | (None, None) => "="
  | (Some a, Some b) => if Qabs_le_b (Qminus (Qmult (f2q a) (Qmake 1000 1)) (Qmult (f2q b) (Qmake 1000 1))) (Qmake 1 1) then "=" else "!"
  | (Some a, None) | (None, Some a) => if Qabs_le_b (Qmult (f2q a) (Qmake 1000 1)) (Qmake 1 1) then "=" else "!"
  end.
Definition same_delay_cases (l : list (option float * option float)) : string :=
  sconcat (map (fun c => same_delay_case c +++ ";") l).
