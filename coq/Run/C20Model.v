(* Entry points evaluated by the generated cases files: C20 model side (the model of
   web_app.py / front_end.py with the variant and the route table read off the source). *)
From Coq Require Import ZArith String Ascii List Bool.
From Bardolph Require Import Base.PyStr Run.Show Web.Html Web.WebSpec Web.WebApp Gen.WebGen Run.C20Spec.
Open Scope string_scope.
Open Scope list_scope.
Import ListNotations.
Open Scope Z_scope.

Definition show_page (p : page) : string :=
  match p with
  | PIndex a l => jlist [jstr "I"; jstr a; jlist (map show_view l)]
  | PAction a v msg => jlist [jstr "A"; jstr a; show_view v; jstr msg]
  | PStatus a bg cur q => jlist [jstr "S"; jstr a; jlist (map jstr bg); jopt cur; jlist (map jstr q)]
  | PError w => jlist [jstr "E"; jstr w]
  | PNotFound => jlist [jstr "N"]
  | PNone => jlist [jstr "-"]
  end.
Definition show_resp (r : response) : string := jlist [show_effects (r_effects r); show_page (r_page r)].

Definition model_case (m : manifest) (evs : list event) : string :=
  jlist (map show_resp (app_run web_variant route_table m evs)).

(* str.title, the path/title derivation and URL resolution on plain strings *)
Definition title_cases (l : list string) : string := jlist (map (fun s => jstr (str_title s)) l).
Definition strip_cases (l : list string) : string := jlist (map (fun s => jstr (strip_ls s)) l).
Definition lower_cases (l : list string) : string := jlist (map (fun s => jstr (str_lower s)) l).
Definition resolve_case (url : string) : string :=
  match resolve route_table url with
  | Some (h, args) => jlist (jstr h :: map jstr args)
  | None => "null"
  end.
Definition resolve_cases (l : list string) : string := jlist (map resolve_case l).
Definition variant_text : string :=
  jlist [jbool (v_open_raw web_variant); jbool (v_stop_table web_variant); jbool (v_filter web_variant)].
