(* Entry points evaluated by the generated cases files: C20 model side (the model of
   web_app.py / front_end.py with the variant and the route table read off the source). *)
From Coq Require Import ZArith String Ascii List Bool.
From Bardolph Require Import Base.PyStr Run.Show Web.Html Web.WebSpec Web.WebApp Gen.WebGen Run.C20Spec.
Open Scope string_scope.
Open Scope list_scope.
Import ListNotations.
Open Scope Z_scope.

Fixpoint index_of (path : string) (l : list view) (i : Z) : Z :=
  match l with
  | [] => -1
  | v :: r => if String.eqb (w_path v) path then i else index_of path r (i + 1)
  end.

(* the table is printed once per case; pages refer to its rows: an index page by the
   running flags of all rows (it lists every row, in order: checked by [same_rows]),
   an action page by the row's position and its running flag *)
Definition static_view (v : view) : view :=
  mk_view (w_file v) (w_path v) (w_title v) (w_background v) (w_color v) (w_icon v) (w_run_bg v) false.
Definition view_eqb (a b : view) : bool :=
  String.eqb (show_view a) (show_view b).
Fixpoint same_rows (l t : list view) : bool :=
  match l, t with
  | [], [] => true
  | a :: l', b :: t' => view_eqb (static_view a) b && same_rows l' t'
  | _, _ => false
  end.

Definition show_page (tab : list view) (p : page) : string :=
  match p with
  | PIndex a l =>
      if same_rows l tab then jlist [jstr "I"; jstr a; jstr (bits (map w_running l))]
      else jlist [jstr "I?"; jstr a; jlist (map show_view l)]
  | PAction a v msg =>
      let i := index_of (w_path v) tab 0 in
      if match nth_error tab (Z.to_nat i) with Some t => (0 <=? i) && view_eqb (static_view v) t | None => false end
      then jlist [jstr "A"; jstr a; show_Z i; jbool (w_running v); jstr msg]
      else jlist [jstr "A?"; jstr a; show_view v; jstr msg]
  | PStatus a bg cur q => jlist [jstr "S"; jstr a; jlist (map jstr bg); jopt cur; jlist (map jstr q)]
  | PError w => jlist [jstr "E"; jstr w]
  | PNotFound => jlist [jstr "N"]
  | PNone => jlist [jstr "-"]
  end.
Definition show_resp (tab : list view) (r : response) : string :=
  jlist [show_effects (r_effects r); show_page tab (r_page r)].

Definition model_case (m : manifest) (evs : list event) : string :=
  let tab := get_script_list (init_app m) in
  jlist [jlist (map show_view tab); jlist (map (show_resp tab) (app_run web_variant route_table m evs))].

(* str.title, the path/title derivation and URL resolution on plain strings *)
Definition title_cases (l : list string) : string := jlist (map (fun s => jstr (str_title s)) l).
Definition strip_cases (l : list string) : string := jlist (map (fun s => jstr (strip_ls s)) l).
Definition lower_cases (l : list string) : string := jlist (map (fun s => jstr (str_lower s)) l).
Definition resolve_case (url : string) : string :=
  match resolve route_table url with
  | Some (h, args) => jlist (jstr h :: map jstr args)
  | None => "null"
  end.
Definition resolve_cases (l : list string) : string := jlist (map resolve_case l).
Definition variant_text : string :=
  jlist [jbool (v_open_raw web_variant); jbool (v_stop_table web_variant); jbool (v_filter web_variant)].
