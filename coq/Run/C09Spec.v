(* Entry points evaluated by the generated cases files: C09 specification side. *)
From Coq Require Import ZArith String Ascii List Bool.
From Bardolph Require Import Run.Show Time.StopSpec.
Open Scope string_scope.
Open Scope list_scope.
Import ListNotations.

Definition show_nat (n : nat) : string := show_Z (Z.of_nat n).

Definition show_tid (t : tid) : string :=
  match t with TR => "R" | TJ n => "J" +++ show_nat n | TK n => "K" +++ show_nat n end.

Definition show_b (b : bool) : string := if b then "1" else "0".

Definition show_act (a : act) : string :=
  match a with
  | ANone => "-" | ASpawn => "spawn" | AJoin => "join"
  | AWRun b => "wrun" +++ show_b b | ARRun b => "rrun" +++ show_b b
  | AWGo b => "wgo" +++ show_b b | ARGo b => "rgo" +++ show_b b
  | AWCue => "wcue" | ARCue => "rcue" | AWStart => "wstart" | ARStart => "rstart"
  | ATime => "time" | ANow => "now"
  | ADev n => "dev"
  | AEvWait b => "evwait" +++ show_b b | AEvWake => "evwake"
  | ASleep => "sleep" | AWake => "wake" | ASet => "set" | AClear => "clear"
  end.

Definition show_event (e : event) : string := show_tid (fst e) +++ ":" +++ show_act (snd e).
Definition show_trace (t : list event) : string := sconcat (map (fun e => show_event e +++ " ") t).

Definition show_phase (p : sphase) : string :=
  match p with SBefore => "before" | SAllow => "allow" | SClosed => "closed" | SBad => "BAD" end.

(* the specification's verdict on a sequence of events *)
Definition spec_verdict (t : list event) : string :=
  "sticks=" +++ show_phase (sticks_phase t) +++
  " own=" +++ show_nat (own_steps_after_stop t) +++
  " prompt=" +++ show_bool (prompt_ok t) +++
  " per_run=" +++ show_bool (per_run_ok t) +++
  " devs0=" +++ show_nat (devs_of 0 t) +++ " devs1=" +++ show_nat (devs_of 1 t).
