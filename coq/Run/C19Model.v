(* Entry points evaluated by the generated cases files: C19 model side. *)
From Coq Require Import ZArith String Ascii List Bool Floats.
From Bardolph Require Import Base.PyStr Run.Show Io.Format Io.Output Run.C19Spec.
Open Scope string_scope.
Open Scope list_scope.
Import ListNotations.
Open Scope Z_scope.

(* the text and the device marks of one job are reported relative to the job's start *)
Definition fresh_log (st : iostate) : iostate :=
  {| written := EmptyString; line_pending := line_pending st; unnamed := unnamed st;
     marks := []; aborted := aborted st |}.

Definition model_job_result (st : iostate) : string :=
  (if aborted st then "A" else "D") +++ show_str (written st) +++ "#" +++ show_marks (marks st).

Fixpoint model_jobs (jobs : list (bool * list out_event)) (st : iostate) : string :=
  match jobs with
  | [] => EmptyString
  | (same_machine, evs) :: r =>
      let st0 := fresh_log st in
      let st1 := execute current_cfg (compile_evs evs) (if same_machine then st0 else new_job st0) in
      model_job_result st1 +++ ";" +++ model_jobs r st1
  end.

Definition model_case (jobs : list (bool * list out_event)) : string := model_jobs jobs init_state.
Definition model_cases (l : list (list (bool * list out_event))) : string :=
  sconcat (map model_case l).

Definition show_cfg : string :=
  sconcat (map show_bool [c_one_sink current_cfg; c_out_tracks_nl current_cfg; c_sink_flush_forgets current_cfg;
                          c_reset_flushes_sink current_cfg; c_flush_flushes_sink current_cfg;
                          c_print_takes_last current_cfg; c_printf_takes_last_k current_cfg;
                          c_machine_reset_io current_cfg; source_known]).
