(* Entry points evaluated by the generated cases files: C19 model side. *)
From Coq Require Import ZArith String Ascii List Bool Floats.
From Bardolph Require Import Base.PyStr Run.Show Io.Format Io.Output Run.C19Spec.
Open Scope string_scope.
Open Scope list_scope.
Import ListNotations.
Open Scope Z_scope.
Open Scope bool_scope.

(* the text and the device marks of one job are reported relative to the job's start *)
Definition fresh_log (st : iostate) : iostate :=
  {| written := EmptyString; line_pending := line_pending st; unnamed := unnamed st;
     marks := []; aborted := aborted st |}.

Definition model_job_result (st : iostate) : string :=
  (if aborted st then "A" else "D") +++ show_str (written st) +++ "#" +++ show_marks (marks st).

Fixpoint model_jobs (c : cfg) (jobs : list (bool * list out_event)) (st : iostate) : string :=
  match jobs with
  | [] => EmptyString
  | (same_machine, evs) :: r =>
      let st0 := fresh_log st in
      let st1 := execute c (compile_evs evs) (if same_machine then st0 else new_job st0) in
      model_job_result st1 +++ ";" +++ model_jobs c r st1
  end.

Definition model_case (jobs : list (bool * list out_event)) : string := model_jobs current_cfg jobs init_state.
Definition model_cases (l : list (list (bool * list out_event))) : string :=
  sconcat (map model_case l).

Definition show_cfg : string :=
  sconcat (map show_bool [c_one_sink current_cfg; c_out_tracks_nl current_cfg; c_sink_flush_forgets current_cfg;
                          c_reset_flushes_sink current_cfg; c_flush_flushes_sink current_cfg;
                          c_print_takes_last current_cfg; c_printf_takes_last_k current_cfg;
                          c_machine_reset_io current_cfg; source_known]).

(* For the classification of a failing input: the model under the configuration of the
   tree under test with ONE candidate repair put in (the flags that repair changes).
   The harness names a violation after the repair that makes the model agree with the
   specification on that input. *)
Definition with_repair (g : Z) (c : cfg) : cfg :=
  let f (z : Z) (b : bool) := if (g =? z) || (g =? 0) then true else b in
  {| c_one_sink := f 14 (c_one_sink c);
     c_out_tracks_nl := f 16 (c_out_tracks_nl c);
     c_sink_flush_forgets := f 14 (c_sink_flush_forgets c);
     c_reset_flushes_sink := f 35 (c_reset_flushes_sink c);
     c_flush_flushes_sink := if (g =? 35) || (g =? 0) then false else c_flush_flushes_sink c;
     c_print_takes_last := f 36 (c_print_takes_last c);
     c_printf_takes_last_k := f 36 (c_printf_takes_last_k c);
     c_machine_reset_io := f 12 (c_machine_reset_io c) |}.

(* 0 = all of them *)
Definition repair_groups : list Z := [14; 16; 36; 35; 12; 0].

Definition variant_case (jobs : list (bool * list out_event)) : string :=
  sconcat (map (fun g => model_jobs (with_repair g current_cfg) jobs init_state) repair_groups).
Definition variant_cases (l : list (list (bool * list out_event))) : string :=
  sconcat (map variant_case l).
