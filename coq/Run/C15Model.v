(* Entry points evaluated by the generated cases files: C15 model side.
   Colours are symbolic terms over the harness' colour identifiers; the harness
   evaluates them with Python's own round/clamp and the units functions, so that the
   model fixes WHICH colour reaches a cell and in WHAT ORDER it is clamped/rounded and
   converted, and the arithmetic stays Python's. *)
From Coq Require Import ZArith String List Bool.
From Bardolph Require Import Base.PyStr Run.Show Gen.MatrixShape Lang.MatrixSpec Lang.Matrix.
Open Scope string_scope.
Open Scope list_scope.
Import ListNotations.
Open Scope Z_scope.

Inductive sym :=
| SReg (k : Z)                      (* the colour registers as set for colour k *)
| SStd (t : sym)                    (* _standardize_raw / param_color *)
| SConv (m : mode) (t : sym)        (* units.logical_to_raw / rgb_to_raw *)
| SSwitch (a b : mode) (t : sym)    (* register conversion on `units` *)
| SBlack.

Definition show_mode (m : mode) : string :=
  match m with Logical => "l" | Raw => "r" | Rgb => "g" end.

Fixpoint show_sym (t : sym) : string :=
  match t with
  | SReg k => show_Z k
  | SStd t' => "s" +++ show_sym t'
  | SConv m t' => show_mode m +++ show_sym t'
  | SSwitch a b t' => "x" +++ show_mode a +++ show_mode b +++ show_sym t'
  | SBlack => "B"
  end.

Definition show_ocell (o : option sym) : string :=
  match o with None => "N " | Some t => show_sym t +++ " " end.

Definition show_event (e : event sym) : string :=
  match e with
  | ESet l c => "S," +++ show_Z l +++ "," +++ show_sym c
  | EZone l a b c => "Z," +++ show_Z l +++ "," +++ show_Z a +++ "," +++ show_Z b +++ "," +++ show_sym c
  | EMatrix l h w cells => "M," +++ show_Z l +++ "," +++ show_Z h +++ "," +++ show_Z w +++ "," +++ sconcat (map show_ocell cells)
  end.


(* statements over identifiers -> statements over symbolic colours *)
Definition sym_stage (s : stage Z) : stage sym :=
  mkStage (s_rows s) (s_cols s) (s_cols_first s) (SReg (s_colour s)).
Definition sym_stmt (s : stmt Z) : stmt sym :=
  match s with
  | SUnits m => SUnits m
  | SDefault c => SDefault (SReg c)
  | SPlain l c => SPlain l (SReg c)
  | SZone l c a b => SZone l (SReg c) a b
  | SInline l h w st => SInline l h w (sym_stage st)
  | SBlock l h w ss => SBlock l h w (map sym_stage ss)
  end.

Definition model_script (prog : list (stmt Z)) : string :=
  let '(st, ok) := run sym SStd SConv SSwitch SBlack (compile sym (map sym_stmt prog)) (initial SBlack) in
  sconcat (map (fun e => show_event e +++ "|") (out st)) +++ (if ok then "" else "ABORT").

Definition model_shape : string :=
  show_bool shape_matrix_code_modelled +++ show_bool shape_as_raw_matrix_unrounded
  +++ show_bool shape_stage_outside_skipped +++ show_bool shape_index_rounded
  +++ show_bool shape_matrix_light_checked.
