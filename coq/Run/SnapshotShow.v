(* C18 entry points. *)
From Coq Require Import ZArith String List Bool.
From Bardolph Require Import Run.Show Run.VmShow Run.SemShow Run.ParseShow Lang.Value Lang.World Lang.Syntax Lang.Sem Lang.Instr Lang.CodeGen
  Lang.Snapshot Front.Lexer Front.Parser.
Open Scope string_scope.
Open Scope list_scope.
Import ListNotations.

Definition snap_text (p : population) : string := show_str (snapshot_text p).
(* the text is accepted and denotes the same instructions as the tree *)
Definition snap_parse (p : population) : string :=
  let a := parse_case (snapshot_text p) in
  let b := "A#" +++ show_program (compile (snapshot_ast p)) in
  if String.eqb a b then a else "MISMATCH#" +++ a +++ "#" +++ b.
(* the reference semantics runs the tree to exactly the replay events *)
Definition snap_run (fuel : nat) (p : population) (w : world) : string :=
  let got := show_sfinal (run_src fuel (snapshot_ast p) w) in
  let want := "FIN#" +++ show_events (replay_events p ++ [EvFlush]) in
  if String.eqb got want then "T" else "F#" +++ got +++ "#" +++ want.
