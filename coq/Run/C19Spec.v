(* Entry points evaluated by the generated cases files: C19 specification side
   (also the direct evaluation of the str.format model of Io/Format.v, which both
   the specification and the model use). *)
From Coq Require Import ZArith String Ascii List Bool Floats.
From Bardolph Require Import Base.PyStr Run.Show Io.Format Io.OutputSpec.
Open Scope string_scope.
Open Scope list_scope.
Import ListNotations.
Open Scope Z_scope.

Definition show_marks (l : list (Z * string)) : string :=
  sconcat (map (fun m => show_Z (fst m) +++ ":" +++ show_str (snd m) +++ ",") l).

(* one job: N = outside the specification, else D'text'#marks *)
Definition spec_job (events : list out_event) : string :=
  match sem_evs events no_lines with
  | Some s => "D" +++ show_str (text_of s) +++ "#" +++ show_marks (dev_marks s)
  | None => "N"
  end.

(* a case = the jobs run one after the other in one process; the flag says
   "executed again on the previous job's machine" (irrelevant to the specification:
   every job's text is its own) *)
Definition spec_case (jobs : list (bool * list out_event)) : string :=
  sconcat (map (fun j => spec_job (snd j) +++ ";") jobs).
Definition spec_cases (l : list (list (bool * list out_event))) : string :=
  sconcat (map spec_case l).

(* ---------- Io/Format.v against CPython ---------- *)

Definition show_fres (r : fres) : string :=
  match r with FOk t => "O" +++ show_str t | FError => "E" | FUnsupported => "U" end.

Definition show_piece (p : piece) : string :=
  match p with
  | Lit t => "L" +++ show_str t
  | Field n s => "F" +++ show_str n +++ show_str s
  end.

(* string.Formatter().parse(fmt): E (ValueError), U, or the pieces; then the
   compile-time count of positional fields *)
Definition parse_case (fmt : string) : string :=
  match parse_format fmt with
  | POk ps => "P" +++ sconcat (map (fun p => show_piece p +++ ",") ps) +++ "#" +++ show_Z (Z.of_nat (positional_count ps))
  | PError => "E"
  | PUnsupported => "U"
  end.
Definition parse_cases (l : list string) : string := sconcat (map (fun f => parse_case f +++ ";") l).

(* fmt.format(args, kw) *)
Definition format_case (c : string * list oval * kwargs) : string :=
  let '(fmt, args, kw) := c in show_fres (py_format fmt args kw).
Definition format_cases (l : list (string * list oval * kwargs)) : string :=
  sconcat (map (fun c => format_case c +++ ";") l).

(* the specification's filling of a printf (with the "\n" escape) *)
Definition fill_case (c : string * list oval * env) : string :=
  let '(fmt, vals, e) := c in show_fres (fill fmt vals e).
Definition fill_cases (l : list (string * list oval * env)) : string :=
  sconcat (map (fun c => fill_case c +++ ";") l).
