(* Entry points evaluated by the generated cases files: C12 specification side.
   The harness writes what it OBSERVED on the simulated network (the requests of the run
   under the fault plan and of the fault-free run of the same script, whether the machine
   finished, the devices the plan leaves alone) and the specification judges it. *)
From Coq Require Import ZArith String Ascii List Bool.
From Bardolph Require Import Run.Show Lights.FaultsSpec.
Open Scope string_scope.
Open Scope list_scope.
Import ListNotations.
Open Scope Z_scope.

Definition show_zs (l : list Z) : string := sconcat (map (fun z => show_Z z +++ ",") l).
Definition show_outs (l : list bool) : string :=
  fold_right (fun (b : bool) acc => String (if b then "T" else "F")%char acc) EmptyString l.
Definition show_req (r : request) : string :=
  show_Z (r_dev r) +++ ":" +++ show_Z (rkind_code (r_kind r)) +++ ":" +++ show_zs (r_payload r)
  +++ ":" +++ show_outs (r_outcomes r) +++ ";".
Definition show_trace (t : trace) : string := sconcat (map show_req t).

(* one observed run *)
Record observed : Type := mkobs {
  o_id : Z;
  o_healthy : list dev;
  o_end : run_end;
  o_faulty : trace;
  o_free : trace
}.

Definition show_verdict (v : verdict) : string :=
  (if v_finished v then "" else "aborted ") +++
  (if v_bounded v then "" else "more-than-three-attempts ") +++
  (if v_retried v then "" else "resent-after-answer ") +++
  (match v_disturbed v with [] => "" | l => "disturbed:" +++ show_zs l end).

(* ids of the observations the specification rejects, each with the clauses violated *)
Definition spec_cases (l : list observed) : string :=
  sconcat (map (fun o =>
    let v := judge (o_healthy o) (o_end o) (o_faulty o) (o_free o) in
    if verdict_ok v then "" else show_Z (o_id o) +++ "=" +++ show_verdict v +++ "|") l).

(* one observed discovery: outcome and the client's view of the directory before / after *)
Record observed_discover : Type := mkobsd {
  od_id : Z;
  od_end : discover_end;
  od_before : list (string * (dev * Z));
  od_after : list (string * (dev * Z));
  od_trace : trace
}.

Definition view_eqb (a b : list (string * (dev * Z))) : bool :=
  list_eqb (fun x y => String.eqb (fst x) (fst y) && (fst (snd x) =? fst (snd y)) && (snd (snd x) =? snd (snd y))) a b.

Definition spec_discover_cases (l : list observed_discover) : string :=
  sconcat (map (fun o =>
    let raised := match od_end o with Raised => true | Reported _ => false end in
    let kept := match od_end o with Reported false => view_eqb (od_before o) (od_after o) | _ => true end in
    let bounded := attempts_bounded_b (od_trace o) in
    if negb raised && kept && bounded then ""
    else show_Z (od_id o) +++ "=" +++ (if raised then "raised " else "") +++ (if kept then "" else "directory-changed ")
         +++ (if bounded then "" else "more-than-three-attempts ") +++ "|") l).
